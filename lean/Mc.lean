import Mc.Json
import Mc.Obj
import Mc.Merge
import Mc.Apply
import Mc.Generated
import Mc.Spec.C05
