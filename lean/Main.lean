import Mc.Drv.Merge
import Mc.Drv.Apply
import Mc.Drv.SyncHandle
import Mc.Drv.HookCalls
import Mc.Drv.Rounds
import Mc.Drv.Events
import Mc.Drv.Informer
import Mc.Drv.Meta
open Mc Mc.Drv

def dispatch (c : J) : Res :=
  match c.getStr "kind" with
  | "merge" => handleMerge c
  | "apply" => handleApply c
  | "sync" => handleSync c
  | "hookcalls" => handleHookCalls c
  | "hookexec" => handleHookExec c
  | "rounds" => handleRounds c
  | "event" => handleEvent c
  | "informer" => handleInformer c
  | "meta" => handleMeta c
  -- a handler with a private resync period removed in the middle of a round: nothing may reach it after the removal returned
  | "informer-resync" =>
      let r := tag (tag { sig := c.render } "resync-removal") (if c.getBool "reachedRound" then "removed-mid-round" else "removed-before-round")
      let r := judge r "C18" (check (c.getInt "after" == c.getInt "atRemoval")
        s!"a handler removed during its private resync round received {c.getInt "after" - c.getInt "atRemoval"} more deliveries after the removal returned")
      judge r "C18" (check (c.getBool "otherSawAll") "the other subscriber of the same informer did not receive the cached objects")
  -- a run of concurrent workers under the race detector (a detected race fails the harness run itself)
  | "race" => judge (tag { sig := c.render } "race-run") "C17" (check (c.getInt "leaked" == 0) "subscriptions leaked by concurrent first syncs")
  | k => { agree := false, where_ := s!"unknown kind {k}" }

partial def loop (h : IO.FS.Stream) (out : IO.FS.Stream) : IO Unit := do
  let line ← h.getLine
  if line.isEmpty then return ()
  if line.trimAscii.isEmpty then
    loop h out
  else
    match parseLine line with
    | .error e => out.putStrLn (J.obj [("case", .null), ("agree", .bool false), ("where", .str s!"parse error: {e}")]).render
    | .ok c => out.putStrLn ((dispatch c).toJ (c.getD "case")).render
    loop h out

def main : IO Unit := do
  let stdin ← IO.getStdin
  let stdout ← IO.getStdout
  loop stdin stdout
