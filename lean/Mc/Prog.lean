import Mc.Json
/-
  A sync is a deterministic program talking to the API server and to webhooks:
  the free monad over requests. One definition, several semantics (replay of a recorded
  trace, run against a model of the API server, fault plans), and syntactic theorems
  that hold on every branch = for every possible response.
-/
namespace Mc

inductive Verb where
  | get | create | update | updateStatus | delete | patchRemove | apply
  deriving Repr, BEq, DecidableEq, Inhabited

def Verb.name : Verb → String
  | .get => "get" | .create => "create" | .update => "update" | .updateStatus => "updateStatus"
  | .delete => "delete" | .patchRemove => "patchRemove" | .apply => "apply"

structure Target where
  group : String
  resource : String
  ns : String
  name : String
  deriving Repr, BEq, DecidableEq, Inhabited

inductive Req where
  /-- API request; `opts`: delete options / patch options -/
  | api (verb : Verb) (t : Target) (body : J) (opts : J)
  /-- webhook call: `sync`, `finalize` or `customize` -/
  | hook (name : String) (req : J)
  deriving Inhabited

inductive Resp where
  /-- API success carrying the object returned -/
  | obj (o : J)
  /-- API failure: reason (NotFound, AlreadyExists, Conflict, Gone, Invalid, ...) -/
  | err (reason : String)
  /-- webhook answered 200 with this JSON body (already decoded) -/
  | hookOk (body : J)
  /-- webhook failed: kind ∈ http | status | decode ; 429 carries the delay in seconds -/
  | hookErr (kind : String)
  | hook429 (after : Int)
  deriving Inhabited

inductive Prog (α : Type) where
  | ret (a : α)
  | call (r : Req) (k : Resp → Prog α)

namespace Prog

def bind {α β : Type} : Prog α → (α → Prog β) → Prog β
  | .ret a, f => f a
  | .call r k, f => .call r (fun x => bind (k x) f)

instance : Monad Prog where
  pure := .ret
  bind := Prog.bind

def request (r : Req) : Prog Resp := .call r .ret

/-- all requests a program can ever issue satisfy `P` (every branch) -/
inductive AllCalls {α : Type} (P : Req → Prop) : Prog α → Prop where
  | ret (a : α) : AllCalls P (.ret a)
  | call (r : Req) (k : Resp → Prog α) : P r → (∀ x, AllCalls P (k x)) → AllCalls P (.call r k)

/-- no request satisfying `Q` is ever issued -/
abbrev NoQ {α : Type} (Q : Req → Prop) (p : Prog α) : Prop := AllCalls (fun r => ¬ Q r) p

theorem AllCalls.bind {α β : Type} {P : Req → Prop} {p : Prog α} {f : α → Prog β}
    (hp : AllCalls P p) (hf : ∀ a, AllCalls P (f a)) : AllCalls P (p.bind f) := by
  induction hp with
  | ret a => exact hf a
  | call r k hr _ ih => exact .call r _ hr (fun x => ih x)

theorem AllCalls.mono {α : Type} {P Q : Req → Prop} {p : Prog α} (h : ∀ r, P r → Q r)
    (hp : AllCalls P p) : AllCalls Q p := by
  induction hp with
  | ret a => exact .ret a
  | call r k hr _ ih => exact .call r k (h r hr) ih

/-- `Guarded G Q p`: on every branch of `p`, a `Q`-request is issued only after some earlier
    (request, response) pair satisfied `G` (after such a pair nothing more is demanded) -/
inductive Guarded {α : Type} (G : Req → Resp → Prop) (Q : Req → Prop) : Prog α → Prop where
  | ret (a : α) : Guarded G Q (.ret a)
  | call (r : Req) (k : Resp → Prog α) : ¬ Q r →
      (∀ x, ¬ G r x → Guarded G Q (k x)) → Guarded G Q (.call r k)

theorem Guarded.of_noQ {α : Type} {G : Req → Resp → Prop} {Q : Req → Prop} {p : Prog α}
    (h : NoQ Q p) : Guarded G Q p := by
  induction h with
  | ret a => exact .ret a
  | call r k hr _ ih => exact .call r k hr (fun x _ => ih x)

theorem Guarded.bind {α β : Type} {G : Req → Resp → Prop} {Q : Req → Prop} {p : Prog α} {f : α → Prog β}
    (hp : Guarded G Q p) (hf : ∀ a, Guarded G Q (f a)) : Guarded G Q (p.bind f) := by
  induction hp with
  | ret a => exact hf a
  | call r k hr _ ih => exact .call r _ hr (fun x hx => ih x hx)

/-- sequential run against a step function (API model or recorded oracle) with state `σ` -/
def run {α σ : Type} (step : σ → Req → Resp × σ) : Prog α → σ → Nat → Option (α × σ × List (Req × Resp))
  | .ret a, s, _ => some (a, s, [])
  | .call _ _, _, 0 => none
  | .call r k, s, fuel + 1 =>
      let (x, s') := step s r
      match run step (k x) s' fuel with
      | some (a, s'', log) => some (a, s'', (r, x) :: log)
      | none => none

theorem run_log_all {α σ : Type} {P : Req → Prop} (step : σ → Req → Resp × σ) (p : Prog α)
    (hp : AllCalls P p) : ∀ (s : σ) (fuel : Nat) a s' log, run step p s fuel = some (a, s', log) →
      ∀ rx ∈ log, P rx.1 := by
  induction hp with
  | ret a =>
    intro s fuel a' s' log h
    simp [run] at h
    obtain ⟨_, _, rfl⟩ := h
    simp
  | call r k hr _ ih =>
    intro s fuel a' s' log h
    cases fuel with
    | zero => simp [run] at h
    | succ n =>
      simp only [run] at h
      split at h
      · rename_i a1 s1 log1 heq
        simp at h
        obtain ⟨_, _, rfl⟩ := h
        intro rx hrx
        simp at hrx
        rcases hrx with rfl | hrx
        · exact hr
        · exact ih _ _ _ _ _ _ heq rx hrx
      · simp at h

end Prog
end Mc

namespace Mc
namespace Prog

/-- on every branch, no `P`-request is issued after a `Q`-request -/
inductive NoPAfterQ {α : Type} (P Q : Req → Prop) : Prog α → Prop where
  | ret (a : α) : NoPAfterQ P Q (.ret a)
  | call (r : Req) (k : Resp → Prog α) :
      (Q r → ∀ x, NoQ P (k x)) → (∀ x, NoPAfterQ P Q (k x)) → NoPAfterQ P Q (.call r k)

/-- after a (request, response) pair satisfying `G`, no `Q`-request is issued any more -/
inductive HaltsAfter {α : Type} (G : Req → Resp → Prop) (Q : Req → Prop) : Prog α → Prop where
  | ret (a : α) : HaltsAfter G Q (.ret a)
  | call (r : Req) (k : Resp → Prog α) :
      (∀ x, G r x → NoQ Q (k x)) → (∀ x, HaltsAfter G Q (k x)) → HaltsAfter G Q (.call r k)

/-- every result (leaf) of the program satisfies `R`, whatever the responses -/
inductive AllRets {α : Type} (R : α → Prop) : Prog α → Prop where
  | ret (a : α) : R a → AllRets R (.ret a)
  | call (r : Req) (k : Resp → Prog α) : (∀ x, AllRets R (k x)) → AllRets R (.call r k)

/-- number of requests satisfying `Q` on the longest branch is at most `n` -/
inductive AtMost {α : Type} (Q : Req → Prop) : Nat → Prog α → Prop where
  | ret (n : Nat) (a : α) : AtMost Q n (.ret a)
  | callQ (n : Nat) (r : Req) (k : Resp → Prog α) : (∀ x, AtMost Q n (k x)) → AtMost Q (n + 1) (.call r k)
  | callN (n : Nat) (r : Req) (k : Resp → Prog α) : ¬ Q r → (∀ x, AtMost Q n (k x)) → AtMost Q n (.call r k)

end Prog
end Mc
