/-
  JSON values as metacontroller sees them (`map[string]interface{}` trees).
  Objects are association lists; `WF` = keys unique at every level.
  Core Lean only (no Mathlib, no `Lean.*`): this file is linked into the driver.
-/
namespace Mc

inductive J where
  | null
  | bool (b : Bool)
  | num (n : Int)
  | str (s : String)
  | arr (xs : List J)
  | obj (kvs : List (String × J))
  deriving Repr, Inhabited

abbrev KVs := List (String × J)

def lookup (k : String) : KVs → Option J
  | [] => none
  | (k', v) :: rest => if k = k' then some v else lookup k rest

def hasKey (k : String) (kvs : KVs) : Bool := (lookup k kvs).isSome

/-- replace in place, append when absent (Go: `m[k] = v`) -/
def setKey (k : String) (v : J) : KVs → KVs
  | [] => [(k, v)]
  | (k', v') :: rest => if k = k' then (k', v) :: rest else (k', v') :: setKey k v rest

/-- Go: `delete(m, k)` -/
def eraseKey (k : String) (kvs : KVs) : KVs := kvs.filter (fun kv => !(kv.1 == k))

def keysOf (kvs : KVs) : List String := kvs.map (·.1)

def uniq : KVs → Prop
  | [] => True
  | (k, _) :: rest => lookup k rest = none ∧ uniq rest

def uniqB : KVs → Bool
  | [] => true
  | (k, _) :: rest => !(hasKey k rest) && uniqB rest

mutual
def J.WF : J → Prop
  | .obj kvs => uniq kvs ∧ WFs kvs
  | .arr xs => WFl xs
  | _ => True
def WFs : KVs → Prop
  | [] => True
  | (_, v) :: rest => v.WF ∧ WFs rest
def WFl : List J → Prop
  | [] => True
  | x :: rest => x.WF ∧ WFl rest
end

mutual
def J.wfB : J → Bool
  | .obj kvs => uniqB kvs && wfsB kvs
  | .arr xs => wflB xs
  | _ => true
def wfsB : KVs → Bool
  | [] => true
  | (_, v) :: rest => v.wfB && wfsB rest
def wflB : List J → Bool
  | [] => true
  | x :: rest => x.wfB && wflB rest
end

-- structural equality (order-sensitive)
mutual
def J.beq : J → J → Bool
  | .null, .null => true
  | .bool a, .bool b => a == b
  | .num a, .num b => a == b
  | .str a, .str b => a == b
  | .arr a, .arr b => beqList a b
  | .obj a, .obj b => beqFields a b
  | _, _ => false
def beqList : List J → List J → Bool
  | [], [] => true
  | x :: xs, y :: ys => x.beq y && beqList xs ys
  | _, _ => false
def beqFields : KVs → KVs → Bool
  | [], [] => true
  | (k, v) :: xs, (k', v') :: ys => k == k' && v.beq v' && beqFields xs ys
  | _, _ => false
end

-- Go `reflect.DeepEqual` on decoded JSON: objects compared as maps (order-insensitive).
mutual
def J.eqv : J → J → Bool
  | .null, .null => true
  | .bool a, .bool b => a == b
  | .num a, .num b => a == b
  | .str a, .str b => a == b
  | .arr a, .arr b => eqvList a b
  | .obj a, .obj b => a.length == b.length && eqvFields a b
  | _, _ => false
def eqvList : List J → List J → Bool
  | [], [] => true
  | x :: xs, y :: ys => x.eqv y && eqvList xs ys
  | _, _ => false
def eqvFields : KVs → KVs → Bool
  | [], _ => true
  | (k, v) :: rest, b =>
      (match lookup k b with
       | some w => v.eqv w
       | none => false) && eqvFields rest b
end

instance : BEq J := ⟨J.beq⟩

def J.isObj : J → Bool | .obj _ => true | _ => false
def J.isArr : J → Bool | .arr _ => true | _ => false
def J.isNull : J → Bool | .null => true | _ => false
def J.fields : J → KVs | .obj kvs => kvs | _ => []
def J.items : J → List J | .arr xs => xs | _ => []
def J.strD (d : String) : J → String | .str s => s | _ => d
def J.str? : J → Option String | .str s => some s | _ => none
def J.int? : J → Option Int | .num n => some n | _ => none

/-- `m[k]` on something that may not be a map: absent ⇒ none -/
def J.get? (j : J) (k : String) : Option J := lookup k j.fields

/-- nested read; `none` when a key is missing **or** an intermediate is not an object -/
def J.getPath? : J → List String → Option J
  | j, [] => some j
  | .obj kvs, k :: ks => match lookup k kvs with
      | some v => v.getPath? ks
      | none => none
  | _, _ :: _ => none

def J.getD (j : J) (k : String) (d : J := .null) : J := (j.get? k).getD d
def J.getStr (j : J) (k : String) : String := (j.getD k).strD ""
def J.getInt (j : J) (k : String) : Int := ((j.getD k).int?).getD 0
def J.getBool (j : J) (k : String) : Bool := match j.getD k with | .bool b => b | _ => false
def J.getArr (j : J) (k : String) : List J := (j.getD k).items
def J.opt (j : J) (k : String) : Option J := match j.get? k with | some .null => none | o => o
def J.strList (j : J) : List String := j.items.filterMap J.str?


/-- sort keys (insertion sort) at every level: canonical form for output -/
def insertKV (kv : String × J) : KVs → KVs
  | [] => [kv]
  | x :: rest => if kv.1 < x.1 then kv :: x :: rest else x :: insertKV kv rest

mutual
def J.canon : J → J
  | .obj kvs => .obj (canonFields kvs)
  | .arr xs => .arr (canonList xs)
  | j => j
def canonFields : KVs → KVs
  | [] => []
  | (k, v) :: rest => insertKV (k, v.canon) (canonFields rest)
def canonList : List J → List J
  | [] => []
  | x :: rest => x.canon :: canonList rest
end

end Mc
