import Mc.Json
/-
  Model of pkg/dynamic/informer: SharedInformerFactory (reference counting per resource, start on the first
  subscription, stop on the last close) and sharedEventHandler (handlers grouped by the subscription that added
  them, replay of the cache when a handler is added, fan-out of every event, removal per subscription).
  Timers (per-handler resync) are not modelled: they only add `update(o,o)` deliveries.
-/
namespace Mc.Inf

/-- one underlying shared informer (one LIST/WATCH) -/
structure Inst where
  id : Nat
  res : Nat
  running : Bool
  /-- names of the cached objects -/
  cache : List String
  /-- (subscription, handler) in the order they were added -/
  handlers : List (Nat × Nat)
  deriving Repr, Inhabited, DecidableEq

structure Sub where
  id : Nat
  inst : Nat
  «open» : Bool
  deriving Repr, Inhabited, DecidableEq

structure State where
  insts : List Inst := []
  subs : List Sub := []
  /-- API-server contents: resource ↦ object names -/
  store : List (Nat × List String) := []
  deriving Repr, Inhabited

inductive Op where
  | subscribe (res : Nat)
  | close (sub : Nat)
  | addHandler (sub handler : Nat)
  | removeHandlers (sub : Nat)
  /-- an outside write seen by the API server: typ ∈ create | update | delete -/
  | event (res : Nat) (typ : String) (name : String)
  deriving Repr, Inhabited

/-- what one operation makes observable -/
structure Out where
  /-- (handler, type, object name) -/
  deliveries : List (Nat × String × String) := []
  /-- resource whose informer was started (LIST + WATCH) -/
  started : Option Nat := none
  /-- resource whose informer was stopped (watch cancelled) -/
  stopped : Option Nat := none
  deriving Repr, Inhabited

def State.contents (s : State) (res : Nat) : List String := (s.store.lookup res).getD []

def State.runningInst (s : State) (res : Nat) : Option Inst := s.insts.find? (fun i => i.res == res && i.running)

def State.instOfSub (s : State) (sub : Nat) : Option Inst :=
  (s.subs.find? (·.id == sub)).bind (fun sb => s.insts.find? (·.id == sb.inst))

def State.openOn (s : State) (inst : Nat) : Nat := (s.subs.filter (fun sb => sb.inst == inst && sb.open)).length

def updInst (insts : List Inst) (id : Nat) (f : Inst → Inst) : List Inst := insts.map (fun i => if i.id == id then f i else i)

def setStore (st : List (Nat × List String)) (res : Nat) (names : List String) : List (Nat × List String) :=
  (st.filter (·.1 != res)) ++ [(res, names)]

def step (s : State) : Op → State × Out
  | .subscribe res =>
      let sid := s.subs.length
      match s.runningInst res with
      | some i => ({ s with subs := s.subs ++ [{ id := sid, inst := i.id, «open» := true }] }, {})
      | none =>
          let iid := s.insts.length
          ({ s with insts := s.insts ++ [{ id := iid, res, running := true, cache := s.contents res, handlers := [] }],
                    subs := s.subs ++ [{ id := sid, inst := iid, «open» := true }] }, { started := some res })
  | .close sub =>
      match s.subs.find? (·.id == sub) with
      | none => (s, {})
      | some sb =>
        if !sb.open then (s, {}) else
        let subs' := s.subs.map (fun x => if x.id == sub then { x with «open» := false } else x)
        let s' := { s with subs := subs' }
        if s'.openOn sb.inst == 0 then
          ({ s' with insts := updInst s'.insts sb.inst (fun i => { i with running := false }) },
           { stopped := (s.insts.find? (·.id == sb.inst)).map (·.res) })
        else (s', {})
  | .addHandler sub h =>
      match s.instOfSub sub with
      | none => (s, {})
      | some i =>
        ({ s with insts := updInst s.insts i.id (fun i => { i with handlers := i.handlers ++ [(sub, h)] }) },
         { deliveries := i.cache.map (fun n => (h, "resync", n)) })
  | .removeHandlers sub =>
      match s.instOfSub sub with
      | none => (s, {})
      | some i => ({ s with insts := updInst s.insts i.id (fun i => { i with handlers := i.handlers.filter (·.1 != sub) }) }, {})
  | .event res typ name =>
      let cur := s.contents res
      let next := if typ == "delete" then cur.filter (· != name) else if cur.contains name then cur else cur ++ [name]
      let s1 := { s with store := setStore s.store res next }
      match s.runningInst res with
      | none => (s1, {})
      | some i =>
        let t := if typ == "create" then "add" else typ
        ({ s1 with insts := updInst s1.insts i.id (fun i => { i with cache := next }) },
         { deliveries := i.handlers.map (fun sh => (sh.2, t, name)) })

def run (s : State) : List Op → State × List Out
  | [] => (s, [])
  | op :: rest =>
      let (s1, o) := step s op
      let (s2, os) := run s1 rest
      (s2, o :: os)

/-- factory bookkeeping as `VerifCounts` shows it: resource ↦ open subscriptions, for running informers -/
def State.refCounts (s : State) : List (Nat × Nat) :=
  (s.insts.filter (·.running)).map (fun i => (i.res, s.openOn i.id))

end Mc.Inf
