import Mc.Json
/-
  Model of the `unstructured` accessors metacontroller uses (k8s.io/apimachinery,
  modelled - not verified; compared differentially through the harness).
-/
namespace Mc

def lastAppliedAnnotation : String := "metacontroller.k8s.io/last-applied-configuration"

/-- `unstructured.NestedFieldNoCopy`: error only when an intermediate is neither map nor null -/
def nestedField : J → List String → Except String (Option J)
  | j, [] => .ok (some j)
  | .null, _ :: _ => .ok none
  | .obj kvs, k :: ks =>
      match lookup k kvs with
      | some v => nestedField v ks
      | none => .ok none
  | _, _ :: _ => .error "accessor error: not a map"

/-- `unstructured.SetNestedField` on a map (the value is stored as given) -/
def setNestedFieldKVs (kvs : KVs) (v : J) : List String → Except String KVs
  | [] => .ok kvs
  | [k] => .ok (setKey k v kvs)
  | k :: k2 :: ks =>
      match lookup k kvs with
      | some (.obj inner) =>
          match setNestedFieldKVs inner v (k2 :: ks) with
          | .ok inner' => .ok (setKey k (.obj inner') kvs)
          | .error e => .error e
      | some _ => .error "value cannot be set because path is not a map"
      | none =>
          match setNestedFieldKVs [] v (k2 :: ks) with
          | .ok inner' => .ok (setKey k (.obj inner') kvs)
          | .error e => .error e

def setNestedField (o : J) (v : J) (path : List String) : Except String J :=
  match setNestedFieldKVs o.fields v path with
  | .ok kvs => .ok (.obj kvs)
  | .error e => .error e

/-- `unstructured.RemoveNestedField` -/
def removeNestedFieldKVs (kvs : KVs) : List String → KVs
  | [] => kvs
  | [k] => eraseKey k kvs
  | k :: k2 :: ks =>
      match lookup k kvs with
      | some (.obj inner) => setKey k (.obj (removeNestedFieldKVs inner (k2 :: ks))) kvs
      | _ => kvs

def removeNestedField (o : J) (path : List String) : J := .obj (removeNestedFieldKVs o.fields path)

/-- values accepted as "string" in a string map: strings, and the decoded form of the
    last-applied annotation (the harness decodes that one annotation before handing objects over) -/
def isStringish (k : String) (v : J) : Bool :=
  match v with
  | .str _ => true
  | .obj _ => k == lastAppliedAnnotation
  | _ => false

/-- `NestedStringMap` with the error swallowed (`GetLabels`, `GetAnnotations`): none = nil map -/
def stringMapAt (o : J) (path : List String) : Option KVs :=
  match nestedField o path with
  | .ok (some (.obj kvs)) => if kvs.all (fun kv => isStringish kv.1 kv.2) then some kvs else none
  | _ => none

def getAnnotations (o : J) : Option KVs := stringMapAt o ["metadata", "annotations"]
def getLabels (o : J) : Option KVs := stringMapAt o ["metadata", "labels"]

/-- `SetAnnotations`/`SetLabels`: nil removes, errors are swallowed -/
def setStringMapAt (o : J) (path : List String) (m : Option KVs) : J :=
  match m with
  | none => removeNestedField o path
  | some kvs => match setNestedField o (.obj kvs) path with
      | .ok o' => o'
      | .error _ => o

def strAt (o : J) (path : List String) : String :=
  match nestedField o path with
  | .ok (some (.str s)) => s
  | _ => ""

def getName (o : J) : String := strAt o ["metadata", "name"]
def getNamespace (o : J) : String := strAt o ["metadata", "namespace"]
def getUID (o : J) : String := strAt o ["metadata", "uid"]
def getResourceVersion (o : J) : String := strAt o ["metadata", "resourceVersion"]
def getKind (o : J) : String := strAt o ["kind"]
def getAPIVersion (o : J) : String := strAt o ["apiVersion"]
/-- non-empty string ⇒ set (the harness only produces well-formed RFC3339 timestamps) -/
def isDeleting (o : J) : Bool := strAt o ["metadata", "deletionTimestamp"] != ""
def getGeneration (o : J) : Int :=
  match nestedField o ["metadata", "generation"] with
  | .ok (some (.num n)) => n
  | _ => 0

/-- `NestedStringSlice` with the error swallowed -/
def stringSliceAt (o : J) (path : List String) : List String :=
  match nestedField o path with
  | .ok (some (.arr xs)) => if xs.all (fun x => x.str?.isSome) then xs.filterMap J.str? else []
  | _ => []

def getFinalizers (o : J) : List String := stringSliceAt o ["metadata", "finalizers"]
def hasFinalizer (o : J) (f : String) : Bool := (getFinalizers o).contains f

/-- `common.ParseAPIVersion` -/
def parseAPIVersion (av : String) : String × String :=
  match av.splitOn "/" with
  | [v] => ("", v)
  | g :: rest => (g, "/".intercalate rest)
  | [] => ("", "")

def apiGroup (av : String) : String := (parseAPIVersion av).1

structure OwnerRef where
  apiVersion : String
  kind : String
  name : String
  uid : String
  controller : Option Bool
  blockOwnerDeletion : Option Bool
  deriving Repr, BEq, DecidableEq, Inhabited

def boolPtr : Option J → Option Bool
  | some (.bool b) => some b
  | _ => none

/-- `extractOwnerReference` -/
def OwnerRef.ofJ (j : J) : OwnerRef :=
  let f := j.fields
  let s (k : String) : String := match lookup k f with | some (.str x) => x | _ => ""
  { apiVersion := s "apiVersion", kind := s "kind", name := s "name", uid := s "uid",
    controller := boolPtr (lookup "controller" f),
    blockOwnerDeletion := boolPtr (lookup "blockOwnerDeletion" f) }

/-- `setOwnerReference`: emits optional pointers only when set -/
def OwnerRef.toJ (r : OwnerRef) : J :=
  let base : KVs := [("apiVersion", .str r.apiVersion), ("kind", .str r.kind), ("name", .str r.name), ("uid", .str r.uid)]
  let base := match r.controller with | some b => base ++ [("controller", .bool b)] | none => base
  let base := match r.blockOwnerDeletion with | some b => base ++ [("blockOwnerDeletion", .bool b)] | none => base
  .obj base

/-- `GetOwnerReferences`: non-map entries are skipped -/
def getOwnerRefs (o : J) : List OwnerRef :=
  match nestedField o ["metadata", "ownerReferences"] with
  | .ok (some (.arr xs)) => (xs.filter J.isObj).map OwnerRef.ofJ
  | _ => []

/-- `SetOwnerReferences` with a non-nil slice (every caller passes one) -/
def setOwnerRefs (o : J) (refs : List OwnerRef) : J :=
  match setNestedField o (.arr (refs.map OwnerRef.toJ)) ["metadata", "ownerReferences"] with
  | .ok o' => o'
  | .error _ => o

/-- `metav1.GetControllerOf` -/
def controllerOf (o : J) : Option OwnerRef :=
  (getOwnerRefs o).find? (fun r => r.controller == some true)

end Mc
