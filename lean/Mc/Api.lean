import Mc.Prog
import Mc.Obj
/-
  Model of the Kubernetes API server as metacontroller meets it: the verbs of
  harness/verifsim/sim.go (`Sim.handle`), function by function.  Two layers:

  * `Api.handle` - what one request does to the one object it targets, given the tokens the
    server hands out for it (`Fresh`).  The driver checks it against *every* request the Go
    simulator answered (pre-state, body, options -> code, post-state, response), so the model
    below is tied to the simulator the real clients talk to, request by request.
  * `Api.State` / `Api.State.step` - the whole store with its counters; this is the step
    function `Prog.run` is given when a sync program is run in a closed world (Mc/World.lean).

  Core Lean only.
-/
namespace Mc
namespace Api

structure ResDef where
  group : String
  resource : String
  namespaced : Bool
  hasStatus : Bool
  deriving Repr, Inhabited, BEq, DecidableEq

/-- the tokens a request may consume: a new resourceVersion, a new UID, the current time -/
structure Fresh where
  rv : String
  uid : String
  now : String
  deriving Repr, Inhabited

/-- outcome of one request on its target -/
structure Out where
  code : Nat
  reason : String
  /-- content of the target after the request -/
  post : Option J
  /-- object returned (none: an error, or the `Status` answer of a completed delete) -/
  resp : Option J
  deriving Inhabited

def Out.ok (o : Out) : Bool := o.code < 300

def fail (code : Nat) (reason : String) (cur : Option J) : Out := { code, reason, post := cur, resp := none }

/-- `meta(o)`: the metadata map, `{}` when missing or not a map -/
def metaOf (o : J) : KVs :=
  match lookup "metadata" o.fields with
  | some (.obj m) => m
  | _ => []

def withMeta (o : J) (m : KVs) : J := .obj (setKey "metadata" (.obj m) o.fields)

def setMeta (o : J) (k : String) (v : J) : J := withMeta o (setKey k v (metaOf o))

/-- number of owner references with `controller: true` -/
def nControllerRefs (o : J) : Nat :=
  match lookup "ownerReferences" (metaOf o) with
  | some (.arr refs) => (refs.filter (fun r => match r with
      | .obj f => (match lookup "controller" f with | some (.bool true) => true | _ => false)
      | _ => false)).length
  | _ => 0

def finalizersRaw (o : J) : List J :=
  match lookup "finalizers" (metaOf o) with
  | some (.arr fs) => fs
  | _ => []

def strOpt : Option J → String
  | some (.str s) => s
  | _ => ""

def mstr (o : J) (k : String) : String := strOpt (lookup k (metaOf o))

def generationOf (o : J) : Int :=
  match lookup "generation" (metaOf o) with
  | some (.num n) => n
  | _ => 0

/-- everything except metadata and status: a change there bumps the generation -/
def specPart (o : J) : J := .obj (o.fields.filter (fun kv => !(kv.1 == "metadata") && !(kv.1 == "status")))

/-- copy the listed metadata fields from `cm` (absent there => removed) -/
def copyMeta (keys : List String) (cm : KVs) (m : KVs) : KVs :=
  keys.foldl (fun m k => match lookup k cm with
    | some v => setKey k v m
    | none => eraseKey k m) m

/-- keep the status of `cur` (absent there => removed) -/
def keepStatus (cur o : J) : J :=
  match lookup "status" cur.fields with
  | some st => .obj (setKey "status" st o.fields)
  | none => .obj (eraseKey "status" o.fields)

def updateKeep : List String :=
  ["uid", "creationTimestamp", "generation", "deletionTimestamp", "deletionGracePeriodSeconds", "namespace", "name", "selfLink"]
def applyKeep : List String :=
  ["uid", "creationTimestamp", "generation", "deletionTimestamp", "namespace", "name", "resourceVersion"]

def bumpGeneration (cur o : J) : J :=
  if (specPart o).eqv (specPart cur) then o else setMeta o "generation" (.num (generationOf cur + 1))

/-- the object a create stores -/
def created (d : ResDef) (t : Target) (body : J) (f : Fresh) (setName : Bool) : J :=
  let m := metaOf body
  let m := if d.namespaced then setKey "namespace" (.str t.ns) m else m
  let m := if setName then setKey "name" (.str t.name) m else m
  let m := setKey "creationTimestamp" (.str f.now) (setKey "generation" (.num 1) (setKey "resourceVersion" (.str f.rv) (setKey "uid" (.str f.uid) m)))
  let m := if setName then m else eraseKey "deletionTimestamp" m
  let o := withMeta body m
  if d.hasStatus then .obj (eraseKey "status" o.fields) else o

def create (d : ResDef) (t : Target) (cur : Option J) (body : J) (f : Fresh) : Out :=
  if body.isNull || t.name == "" then fail 422 "Invalid" cur
  else if cur.isSome then fail 409 "AlreadyExists" cur
  else if nControllerRefs body > 1 then fail 422 "Invalid" cur
  else
    let o := created d t body f false
    { code := 201, reason := "", post := some o, resp := some o }

/-- what a write leaves behind once the new content `o` is computed: nothing new for a no-op, removal when
    the last finalizer of a deleting object went away, a fresh resourceVersion otherwise -/
def commit (cur o : J) (f : Fresh) : Out :=
  let o := setMeta o "resourceVersion" (.str (mstr cur "resourceVersion"))
  if o.eqv cur then { code := 200, reason := "", post := some cur, resp := some cur }
  else if mstr o "deletionTimestamp" != "" && (finalizersRaw o).isEmpty then { code := 200, reason := "", post := none, resp := some o }
  else
    let o := setMeta o "resourceVersion" (.str f.rv)
    { code := 200, reason := "", post := some o, resp := some o }

/-- optimistic-concurrency preconditions of update / updateStatus -/
def updatePre (cur body : J) : Option (Nat × String) :=
  if body.isNull then some (422, "Invalid")
  else if mstr body "uid" != "" && mstr body "uid" != mstr cur "uid" then some (409, "Conflict")
  else if mstr body "resourceVersion" == "" then some (422, "Invalid")
  else if mstr body "resourceVersion" != mstr cur "resourceVersion" then some (409, "Conflict")
  else none

/-- the content an accepted update asks for: the body with the server-owned metadata (and the status, for
    resources with a status subresource) of the live object; the generation moves when the spec part changed -/
def updated (d : ResDef) (cur body : J) : J :=
  let o := withMeta body (copyMeta updateKeep (metaOf cur) (metaOf body))
  let o := if d.hasStatus then keepStatus cur o else o
  bumpGeneration cur o

/-- a deleting object may not gain finalizers -/
def addsFinalizer (cur body : J) : Bool :=
  mstr cur "deletionTimestamp" != "" && !((finalizersRaw body).all (fun x => (finalizersRaw cur).any (fun y => y == x)))

def statusUpdated (cur body : J) : J :=
  match lookup "status" body.fields with
  | some st => .obj (setKey "status" st cur.fields)
  | none => .obj (eraseKey "status" cur.fields)

def update (d : ResDef) (cur : Option J) (body : J) (f : Fresh) : Out :=
  match cur with
  | none => fail 404 "NotFound" none
  | some cur =>
    match updatePre cur body with
    | some (c, r) => fail c r (some cur)
    | none =>
      if nControllerRefs body > 1 then fail 422 "Invalid" (some cur)
      else if addsFinalizer cur body then fail 422 "Invalid" (some cur)
      else commit cur (updated d cur body) f

def updateStatus (cur : Option J) (body : J) (f : Fresh) : Out :=
  match cur with
  | none => fail 404 "NotFound" none
  | some cur =>
    match updatePre cur body with
    | some (c, r) => fail c r (some cur)
    | none => commit cur (statusUpdated cur body) f

/-- `opts.preconditions.<k>` when it is a non-empty string -/
def precondition (opts : J) (k : String) : Option String :=
  match lookup "preconditions" opts.fields with
  | some (.obj p) => (match lookup k p with
      | some (.str s) => if s == "" then none else some s
      | _ => none)
  | _ => none

/-- a precondition on metadata field `k` is set and not met -/
def preFails (opts : J) (k : String) (cur : J) : Bool :=
  match precondition opts k with
  | some u => u != mstr cur k
  | none => false

def delete (cur : Option J) (opts : J) (f : Fresh) : Out :=
  match cur with
  | none => fail 404 "NotFound" none
  | some cur =>
    if preFails opts "uid" cur then fail 409 "Conflict" (some cur)
    else if preFails opts "resourceVersion" cur then fail 409 "Conflict" (some cur)
    else if !(finalizersRaw cur).isEmpty then
      if mstr cur "deletionTimestamp" == "" then
        let o := setMeta (setMeta cur "deletionTimestamp" (.str f.now)) "resourceVersion" (.str f.rv)
        { code := 200, reason := "", post := some o, resp := some o }
      else { code := 200, reason := "", post := some cur, resp := some cur }
    else { code := 200, reason := "", post := none, resp := none }

/-- the only JSON patch metacontroller sends: remove the last-applied annotation -/
def patchRemove (cur : Option J) (f : Fresh) : Out :=
  match cur with
  | none => fail 404 "NotFound" none
  | some cur =>
    match lookup "annotations" (metaOf cur) with
    | some (.obj ann) =>
      if hasKey lastAppliedAnnotation ann then
        let o := setMeta (setMeta cur "annotations" (.obj (eraseKey lastAppliedAnnotation ann))) "resourceVersion" (.str f.rv)
        { code := 200, reason := "", post := some o, resp := some o }
      else fail 422 "Invalid" (some cur)
    | _ => fail 422 "Invalid" (some cur)

-- simplified server-side apply with force: fields of `last` that `now` dropped are removed, fields of `now`
-- are set (maps recursively, everything else replaced)
mutual
def ssaMerge (dst last : KVs) : (now : J) → KVs
  | .obj nkvs => ssaSet (dst.filter (fun kv => !(hasKey kv.1 last && !hasKey kv.1 nkvs))) last nkvs
  | _ => dst
def ssaSet (dst last : KVs) : (now : KVs) → KVs
  | [] => dst
  | (k, v) :: rest =>
      let dst' := match v, lookup k dst with
        | .obj nm, some (.obj dm) =>
            let lm := match lookup k last with | some (.obj l) => l | _ => []
            setKey k (.obj (ssaMerge dm lm (.obj nm))) dst
        | _, _ => setKey k v dst
      ssaSet dst' last rest
end

/-- content after an apply onto an existing object, before generation / resourceVersion are settled -/
def appliedTo (d : ResDef) (cur body last : J) : J :=
  let o : J := .obj (ssaMerge cur.fields last.fields body)
  let o := withMeta o (copyMeta applyKeep (metaOf cur) (metaOf o))
  if d.hasStatus then keepStatus cur o else o

/-- `last`: the body this field manager applied to the target before (`null`: never) -/
def apply (d : ResDef) (t : Target) (cur : Option J) (body last : J) (f : Fresh) : Out :=
  if body.isNull then fail 422 "Invalid" cur
  else match cur with
  | none =>
    let o := created d t body f true
    { code := 201, reason := "", post := some o, resp := some o }
  | some cur =>
    let o := appliedTo d cur body last
    if o.eqv cur then { code := 200, reason := "", post := some cur, resp := some cur }
    else
      let o := setMeta (bumpGeneration cur o) "resourceVersion" (.str f.rv)
      { code := 200, reason := "", post := some o, resp := some o }

def get (cur : Option J) : Out :=
  match cur with
  | none => fail 404 "NotFound" none
  | some c => { code := 200, reason := "", post := some c, resp := some c }

/-- `Sim.handle` -/
def handle (d : ResDef) (v : Verb) (t : Target) (cur : Option J) (body opts last : J) (f : Fresh) : Out :=
  match v with
  | .get => get cur
  | .create => create d t cur body f
  | .update => update d cur body f
  | .updateStatus => updateStatus cur body f
  | .delete => delete cur opts f
  | .patchRemove => patchRemove cur f
  | .apply => apply d t cur body last f

/-! ### the whole store -/

structure State where
  defs : List ResDef
  objs : List (Target × J)
  /-- (field manager, target) -> last applied body -/
  applied : List ((String × Target) × J)
  rv : Nat
  uid : Nat
  clock : Nat
  deriving Inhabited

def rvTok (n : Nat) : String := Nat.repr n
def uidTok (n : Nat) : String := "uid-" ++ Nat.repr n
def timeTok (n : Nat) : String := "t" ++ Nat.repr n

def findObj (t : Target) : List (Target × J) → Option J
  | [] => none
  | (t', o) :: rest => if t' = t then some o else findObj t rest

def State.find (s : State) (t : Target) : Option J := findObj t s.objs

def State.defOf (s : State) (t : Target) : Option ResDef :=
  s.defs.find? (fun d => d.group == t.group && d.resource == t.resource)

def State.fresh (s : State) : Fresh := { rv := rvTok (s.rv + 1), uid := uidTok (s.uid + 1), now := timeTok (s.clock + 1) }

/-- `objs[t] = o` / `delete(objs, t)` -/
def setObj (t : Target) (o : Option J) : List (Target × J) → List (Target × J)
  | [] => (match o with | some v => [(t, v)] | none => [])
  | (t', x) :: rest =>
      if t' = t then (match o with | some v => (t', v) :: setObj t none rest | none => setObj t none rest)
      else (t', x) :: setObj t o rest

def managerOf (opts : J) : String := match lookup "fieldManager" opts.fields with | some (.str s) => s | _ => ""

def findApplied (k : String × Target) : List ((String × Target) × J) → J
  | [] => .null
  | (k', b) :: rest => if k' = k then b else findApplied k rest

/-- one request against the store; every request advances the three counters (tokens are never reused) -/
def State.request (s : State) (v : Verb) (t : Target) (body opts : J) : Out × State :=
  match s.defOf t with
  | none => (fail 404 "NotFound" (s.find t), { s with rv := s.rv + 1, uid := s.uid + 1, clock := s.clock + 1 })
  | some d =>
    let key := (managerOf opts, t)
    let out := handle d v t (s.find t) body opts (findApplied key s.applied) s.fresh
    let applied := if v = .apply ∧ out.ok = true then (key, body) :: s.applied else s.applied
    (out, { s with objs := setObj t out.post s.objs, applied := applied, rv := s.rv + 1, uid := s.uid + 1, clock := s.clock + 1 })

def Out.toResp (o : Out) : Resp :=
  if o.ok then .obj (o.resp.getD .null) else .err o.reason

end Api
end Mc
