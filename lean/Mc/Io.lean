import Lean.Data.Json
import Mc.Json
/- JSON reader/writer of the driver (trusted glue, not part of the model). -/
namespace Mc
open Lean (Json JsonNumber)

partial def ofLean : Json → J
  | .null => .null
  | .bool b => .bool b
  | .num ⟨m, e⟩ => if e == 0 then .num m else .str s!"<float:{m}e-{e}>"
  | .str s => .str s
  | .arr xs => .arr (xs.toList.map ofLean)
  | .obj kvs => .obj (kvs.foldl (fun acc k v => acc ++ [(k, ofLean v)]) [])

partial def toLean : J → Json
  | .null => .null
  | .bool b => .bool b
  | .num n => .num ⟨n, 0⟩
  | .str s => .str s
  | .arr xs => .arr (xs.map toLean).toArray
  | .obj kvs => Json.mkObj (kvs.map fun (k, v) => (k, toLean v))

def J.render (j : J) : String := (toLean j).compress

def parseLine (s : String) : Except String J :=
  match Json.parse s with
  | .ok j => .ok (ofLean j)
  | .error e => .error e

end Mc
