import Mc.Obj
/-
  Label selectors: `metav1.LabelSelector`, `LabelSelectorAsSelector`, `Selector.Matches`
  (apimachinery - modelled, not verified; label key/value *syntax* validation is not modelled,
  the generators draw from a valid alphabet).
-/
namespace Mc

structure SelExpr where
  key : String
  op : String
  values : List String
  deriving Repr, BEq, DecidableEq, Inhabited

structure LabelSelector where
  matchLabels : List (String × String) := []
  matchExpressions : List SelExpr := []
  deriving Repr, BEq, Inhabited

def strMapOf : J → Except String (List (String × String))
  | .null => .ok []
  | .obj kvs => kvs.mapM (fun kv => match kv.2 with
      | .str s => .ok (kv.1, s)
      | .null => .ok (kv.1, "")          -- a JSON null leaves the Go zero value
      | _ => .error "cannot unmarshal non-string into map[string]string")
  | _ => .error "cannot unmarshal into map[string]string"

def strListOf : J → Except String (List String)
  | .null => .ok []
  | .arr xs => xs.mapM (fun x => match x with
      | .str s => .ok s
      | .null => .ok ""
      | _ => .error "cannot unmarshal non-string into []string")
  | _ => .error "cannot unmarshal into []string"

def selExprOf : J → Except String SelExpr
  | .obj kvs => do
      let key ← match lookup "key" kvs with | some (.str s) => pure s | none | some .null => pure "" | _ => .error "bad key"
      let op ← match lookup "operator" kvs with | some (.str s) => pure s | none | some .null => pure "" | _ => .error "bad operator"
      let values ← strListOf ((lookup "values" kvs).getD .null)
      pure { key, op, values }
  | .null => .ok { key := "", op := "", values := [] }
  | _ => .error "cannot unmarshal into LabelSelectorRequirement"

/-- json.Unmarshal into `metav1.LabelSelector` (unknown fields ignored) -/
def decodeLabelSelector : J → Except String LabelSelector
  | .null => .ok {}
  | .obj kvs => do
      let ml ← strMapOf ((lookup "matchLabels" kvs).getD .null)
      let me ← match (lookup "matchExpressions" kvs).getD .null with
        | .null => pure []
        | .arr xs => xs.mapM selExprOf
        | _ => .error "cannot unmarshal into []LabelSelectorRequirement"
      pure { matchLabels := ml, matchExpressions := me }
  | _ => .error "cannot unmarshal into LabelSelector"

inductive Req1 where
  | isIn (key : String) (vals : List String)
  | notIn (key : String) (vals : List String)
  | exists_ (key : String)
  | notExists (key : String)
  deriving Repr, BEq, DecidableEq, Inhabited

/-- `labels.Selector`: `nothing` matches nothing, `reqs []` is `Everything()` -/
inductive Selector where
  | nothing
  | reqs (rs : List Req1)
  deriving Repr, BEq, Inhabited

def exprToReq (e : SelExpr) : Except String Req1 :=
  match e.op with
  | "In" => if e.values.isEmpty then .error "for 'in', 'notin' operators, values set can't be empty" else .ok (.isIn e.key e.values)
  | "NotIn" => if e.values.isEmpty then .error "for 'in', 'notin' operators, values set can't be empty" else .ok (.notIn e.key e.values)
  | "Exists" => if e.values.isEmpty then .ok (.exists_ e.key) else .error "values set must be empty for exists and does not exist"
  | "DoesNotExist" => if e.values.isEmpty then .ok (.notExists e.key) else .error "values set must be empty for exists and does not exist"
  | _ => .error "not a valid label selector operator"

/-- `metav1.LabelSelectorAsSelector` (for a non-nil selector) -/
def asSelector (ls : LabelSelector) : Except String Selector := do
  let rs ← ls.matchExpressions.mapM exprToReq
  pure (.reqs (ls.matchLabels.map (fun kv => Req1.isIn kv.1 [kv.2]) ++ rs))

def Req1.matches (labels : List (String × String)) : Req1 → Bool
  | .isIn k vs => match labels.lookup k with | some v => vs.contains v | none => false
  | .notIn k vs => match labels.lookup k with | some v => !vs.contains v | none => true
  | .exists_ k => (labels.lookup k).isSome
  | .notExists k => (labels.lookup k).isNone

def Selector.matches (s : Selector) (labels : List (String × String)) : Bool :=
  match s with
  | .nothing => false
  | .reqs rs => rs.all (·.matches labels)

def Selector.empty : Selector → Bool
  | .reqs [] => true
  | _ => false

/-- labels of an object as Go's `GetLabels()` sees them (conversion errors ⇒ no labels) -/
def labelsOf (o : J) : List (String × String) :=
  ((getLabels o).getD []).filterMap (fun kv => match kv.2 with | .str s => some (kv.1, s) | _ => none)

def annotationsOf (o : J) : List (String × String) :=
  ((getAnnotations o).getD []).filterMap (fun kv => match kv.2 with
    | .str s => some (kv.1, s)
    | .obj _ => some (kv.1, "<last-applied>")
    | _ => none)

/-- `metav1.AddLabelToSelector` -/
def LabelSelector.addLabel (ls : LabelSelector) (k v : String) : LabelSelector :=
  { ls with matchLabels := (ls.matchLabels.filter (·.1 != k)) ++ [(k, v)] }

end Mc
