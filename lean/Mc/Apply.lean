import Mc.Obj
import Mc.Merge
/-
  Model of pkg/controller/common/manage_children.go `ApplyUpdate`, `revertField`,
  `revertObjectMetaSystemFields`, diff.go `nullifyLastAppliedAnnotation`, and
  apply.go `GetLastApplied` / `SetLastApplied`.
  The last-applied annotation is carried in decoded form (see `isStringish`).
-/
namespace Mc

/-- `GetLastApplied`: none = nil map -/
def getLastApplied (o : J) : Except String (Option J) :=
  match getAnnotations o with
  | none => .ok none
  | some ann =>
    match lookup lastAppliedAnnotation ann with
    | none => .ok none
    | some (.str "") => .ok none
    | some (.obj m) => .ok (some (.obj m))
    | some _ => .error "can't unmarshal last-applied annotation"

/-- `SetLastApplied` (marshal of a JSON tree cannot fail) -/
def setLastApplied (o : J) (la : J) : J :=
  let ann := (getAnnotations o).getD []
  setStringMapAt o ["metadata", "annotations"] (some (setKey lastAppliedAnnotation la ann))

/-- `nullifyLastAppliedAnnotation` -/
def nullifyLastApplied (o : J) : J :=
  match getAnnotations o with
  | none => o
  | some ann =>
    if hasKey lastAppliedAnnotation ann then
      -- an annotations map emptied by the removal is dropped altogether (`SetAnnotations(nil)`)
      let rest := eraseKey lastAppliedAnnotation ann
      setStringMapAt o ["metadata", "annotations"] (if rest.isEmpty then none else some rest)
    else o

/-- `revertField` -/
def revertField (newObj orig : J) (path : List String) : Except String J :=
  match nestedField orig path with
  | .error e => .error e
  | .ok (some v) => setNestedField newObj v path
  | .ok none => .ok (removeNestedField newObj path)

def revertSystemFields (sysFields : List String) (newObj orig : J) : Except String J :=
  sysFields.foldlM (fun acc f => revertField acc orig ["metadata", f]) newObj

/-- `ApplyUpdate(orig, update)`; also returns the (nullified) update it recorded -/
def applyUpdate (mks sysFields : List String) (orig update : J) : Except String J := do
  let last ← getLastApplied orig
  let update' := nullifyLastApplied update
  let merged ← merge mks orig last update'
  let r1 ← revertSystemFields sysFields merged orig
  let r2 ← revertField r1 orig ["status"]
  pure (setLastApplied r2 update')

end Mc
