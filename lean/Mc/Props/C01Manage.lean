import Mc.Props.C01Converge
/-
  C01, closed loop, at the level of `ManageChildren` itself (all groups): a parent that owns nothing yet, plain
  desired children of several kinds, free names, nobody else writing.  First run: every child is created.
  Second run, from a cache showing what the API server then holds: no request, no error.
-/
namespace Mc
namespace C01
open Api C05

variable (hook : String → J → Resp)

/-- hypotheses about one desired group, relative to a store -/
structure GroupOK (mks : List String) (kt : KindTable) (parentRef : OwnerRef) (s : State) (g : GVK × List (String × J)) (info : KindInfo) : Prop where
  hk : kt.find (gvkAPIVersion g.1) g.1.kind = some info
  hdef : ∀ nd ∈ g.2, (s.defOf (tgtOf info nd.2)).isSome
  hfree : ∀ nd ∈ g.2, s.find (tgtOf info nd.2) = none
  hwf : ∀ nd ∈ g.2, (createBody parentRef nd.2).isNull = false ∧ (getName nd.2 == "") = false ∧ nControllerRefs (createBody parentRef nd.2) ≤ 1
  hnd : (g.2.map (fun nd => tgtOf info nd.2)).Nodup
  hplain : ∀ nd ∈ g.2, ∀ d, s.defOf (tgtOf info nd.2) = some d → ∃ ds dm, nd.2 = .obj ds ∧ PlainChild d (tgtOf info nd.2) ds dm ∧ hypJ mks (.obj ds) = true

/-- the body of the second loop of `manageChildren` for an empty observed map -/
def createStep (mks sys : List String) (children : List ChildRes) (kt : KindTable) (parentRef : OwnerRef)
    (acc : List String × Memo) (g : GVK × List (String × J)) : Prog (List String × Memo) :=
  match kt.find (gvkAPIVersion g.1) g.1.kind with
  | none => pure (acc.1 ++ ["discovery: can't find kind"], acc.2)
  | some info => do
    let (errs, memo) ← updateGroup mks sys children none info g.1.kind parentRef [] g.2 acc.2
    pure (acc.1 ++ errs, memo)

theorem runT_foldlM_cons {α β : Type} (f : β → α → Prog β) (b : β) (a : α) (as : List α) (s : State) :
    Prog.runT (W hook) (List.foldlM f b (a :: as)) s =
      Prog.runT (W hook) (List.foldlM f (Prog.runT (W hook) (f b a) s).1 as) (Prog.runT (W hook) (f b a) s).2 := by
  rw [List.foldlM_cons]
  exact Prog.runT_bind _ _ _ _

/-- **first run**: every group's children are created; no error; other keys untouched -/
theorem manage_create_loop (mks sys : List String) (children : List ChildRes) (kt : KindTable) (parentRef : OwnerRef) :
    ∀ (desired : ObjMap) (acc : List String × Memo) (s : State), acc.1 = [] →
      (∀ g ∈ desired, ∃ info, GroupOK mks kt parentRef s g info) →
      desired.Pairwise (fun g g' => ∀ info info', kt.find (gvkAPIVersion g.1) g.1.kind = some info → kt.find (gvkAPIVersion g'.1) g'.1.kind = some info' →
        ∀ nd ∈ g.2, ∀ nd' ∈ g'.2, tgtOf info nd.2 ≠ tgtOf info' nd'.2) →
      let r := Prog.runT (W hook) (desired.foldlM (createStep mks sys children kt parentRef) acc) s
      r.1.1 = [] ∧
      (∀ g ∈ desired, ∀ info, kt.find (gvkAPIVersion g.1) g.1.kind = some info → ∀ nd ∈ g.2, ∃ d f, s.defOf (tgtOf info nd.2) = some d ∧
          r.2.find (tgtOf info nd.2) = some (created d (tgtOf info nd.2) (createBody parentRef nd.2) f false)) ∧
      (∀ t, (∀ g ∈ desired, ∀ info, kt.find (gvkAPIVersion g.1) g.1.kind = some info → ∀ nd ∈ g.2, tgtOf info nd.2 ≠ t) → r.2.find t = s.find t) ∧
      (∀ t, r.2.defOf t = s.defOf t) := by
  intro desired
  induction desired with
  | nil =>
    intro acc s ha _ _
    refine ⟨ha, ?_, ?_, ?_⟩
    · intro g hg; cases hg
    · intro t _; rfl
    · intro t; rfl
  | cons g tl ih =>
    intro acc s ha hok hpw
    obtain ⟨info, hg⟩ := hok g (List.mem_cons_self ..)
    rw [List.pairwise_cons] at hpw
    obtain ⟨hhead, hpwtl⟩ := hpw
    show (let r := Prog.runT (W hook) (List.foldlM (createStep mks sys children kt parentRef) acc (g :: tl)) s; _)
    rw [runT_foldlM_cons]
    -- the head group
    obtain ⟨he, hmade, hframe, hdefs⟩ := createGroup_run hook mks sys children info g.1.kind parentRef g.2 acc.2 s hg.hdef hg.hfree hg.hwf hg.hnd
    have hstep : Prog.runT (W hook) (createStep mks sys children kt parentRef acc g) s =
        ((acc.1 ++ (Prog.runT (W hook) (updateGroup mks sys children none info g.1.kind parentRef [] g.2 acc.2) s).1.1,
          (Prog.runT (W hook) (updateGroup mks sys children none info g.1.kind parentRef [] g.2 acc.2) s).1.2),
         (Prog.runT (W hook) (updateGroup mks sys children none info g.1.kind parentRef [] g.2 acc.2) s).2) := by
      unfold createStep
      rw [hg.hk]
      simp only [bind, Prog.runT_bind, Prog.runT_pure]
    rw [hstep]
    generalize hr1 : Prog.runT (W hook) (updateGroup mks sys children none info g.1.kind parentRef [] g.2 acc.2) s = r1 at he hmade hframe hdefs
    obtain ⟨⟨errs, memo1⟩, s1⟩ := r1
    simp only [] at he hmade hframe hdefs ⊢
    subst he
    -- the tail groups see a store in which their own keys are as before
    have hok1 : ∀ g' ∈ tl, ∃ info', GroupOK mks kt parentRef s1 g' info' := by
      intro g' hg'
      obtain ⟨info', h'⟩ := hok g' (List.mem_cons_of_mem _ hg')
      have hkeep : ∀ nd' ∈ g'.2, s1.find (tgtOf info' nd'.2) = s.find (tgtOf info' nd'.2) := by
        intro nd' hnd'
        exact hframe _ (fun nd hnd e => hhead g' hg' info info' hg.hk h'.hk nd hnd nd' hnd' e)
      refine ⟨info', h'.hk, ?_, ?_, h'.hwf, h'.hnd, ?_⟩
      · intro nd' hnd'; rw [hdefs]; exact h'.hdef nd' hnd'
      · intro nd' hnd'; rw [hkeep nd' hnd']; exact h'.hfree nd' hnd'
      · intro nd' hnd' d hd; rw [hdefs] at hd; exact h'.hplain nd' hnd' d hd
    have := ih (acc.1 ++ [], memo1) s1 (by simp [ha]) hok1 hpwtl
    simp only [] at this
    obtain ⟨e2, m2, f2, d2⟩ := this
    refine ⟨e2, ?_, ?_, ?_⟩
    · intro g' hg' info' hk' nd' hnd'
      rcases List.mem_cons.mp hg' with rfl | hg'
      · rw [hg.hk] at hk'; cases hk'
        obtain ⟨d, f, hd, hf⟩ := hmade nd' hnd'
        refine ⟨d, f, hd, ?_⟩
        rw [f2 _ (fun g'' hg'' info'' hk'' nd'' hnd'' e => hhead g'' hg'' info info'' hg.hk hk'' nd' hnd' nd'' hnd'' e.symm)]
        exact hf
      · obtain ⟨d, f, hd, hf⟩ := m2 g' hg' info' hk' nd' hnd'
        rw [hdefs] at hd
        exact ⟨d, f, hd, hf⟩
    · intro t ht
      rw [f2 t (fun g' hg' info' hk' nd' hnd' => ht g' (List.mem_cons_of_mem _ hg') info' hk' nd' hnd')]
      exact hframe t (fun nd hnd => ht g (List.mem_cons_self ..) info hg.hk nd hnd)
    · intro t; rw [d2, hdefs]

/-- with nothing observed, `manageChildren` is its create loop -/
theorem manage_empty_observed (mks sys : List String) (children : List ChildRes) (kt : KindTable) (parentRef : OwnerRef)
    (desired : ObjMap) (memo : Memo) (s : State) :
    Prog.runT (W hook) (manageChildren mks sys children none kt parentRef [] desired memo) s =
      ((([] : List String) ++ (Prog.runT (W hook) (desired.foldlM (createStep mks sys children kt parentRef) ([], memo)) s).1.1,
        (Prog.runT (W hook) (desired.foldlM (createStep mks sys children kt parentRef) ([], memo)) s).1.2),
       (Prog.runT (W hook) (desired.foldlM (createStep mks sys children kt parentRef) ([], memo)) s).2) := by
  unfold manageChildren
  simp only [List.foldlM_nil, bind, Prog.runT_bind, Prog.runT_pure]
  rfl

/-- **C01 at the level of `ManageChildren`, create path**: a parent that owns nothing yet; plain desired children of
    any number of kinds under free, pairwise distinct names; nobody else writes.  After the first run every desired
    child exists as created from `createBody` (in particular with the controller reference) and no error was
    reported; a second run from a cache that shows exactly these children is the program `ret ([], memo)`:
    **no request, no error** - convergence in one sync, silence from the second on. -/
theorem C01_manage_create_converges (mks sys : List String) (children : List ChildRes) (kt : KindTable) (parentRef : OwnerRef)
    (desired : ObjMap) (memo memo' : Memo) (s : State)
    (hok : ∀ g ∈ desired, ∃ info, GroupOK mks kt parentRef s g info)
    (hpw : desired.Pairwise (fun g g' => ∀ info info', kt.find (gvkAPIVersion g.1) g.1.kind = some info → kt.find (gvkAPIVersion g'.1) g'.1.kind = some info' →
        ∀ nd ∈ g.2, ∀ nd' ∈ g'.2, tgtOf info nd.2 ≠ tgtOf info' nd'.2))
    (observed' : ObjMap)
    -- the cache of the second sync: the desired children as the API server holds them, and nothing else of these kinds
    (hcache : ∀ g ∈ desired, ∀ info, kt.find (gvkAPIVersion g.1) g.1.kind = some info → ∀ nd ∈ g.2,
        (observed'.group g.1).lookup nd.1 =
          (Prog.runT (W hook) (manageChildren mks sys children none kt parentRef [] desired memo) s).2.find (tgtOf info nd.2))
    (honly : ∀ g' ∈ observed', ∃ info, kt.find (gvkAPIVersion g'.1) g'.1.kind = some info ∧
        ∀ no ∈ g'.2, ((desired.group g'.1).map (·.1)).contains no.1 = true) :
    (Prog.runT (W hook) (manageChildren mks sys children none kt parentRef [] desired memo) s).1.1 = [] ∧
    manageChildren mks sys children none kt parentRef observed' desired memo' = .ret ([], memo') := by
  obtain ⟨he, hmade, _, _⟩ := manage_create_loop hook mks sys children kt parentRef desired ([], memo) s rfl hok hpw
  rw [manage_empty_observed] at hcache ⊢
  simp only [] at hcache
  refine ⟨by simpa using he, ?_⟩
  refine C01_manage_quiet mks sys children kt parentRef observed' desired memo' ?_ ?_
  · intro g' hg'
    obtain ⟨info, hk, hall⟩ := honly g' hg'
    exact ⟨info, hk, fun no hno => .inr (hall no hno)⟩
  · intro g hg
    obtain ⟨info, hgo⟩ := hok g hg
    refine ⟨info, hgo.hk, ?_⟩
    intro nd hnd
    obtain ⟨d, f, hd, hfound⟩ := hmade g hg info hgo.hk nd hnd
    obtain ⟨ds, dm, hds, hpl, hh⟩ := hgo.hplain nd hnd d hd
    refine ⟨_, (hcache g hg info hgo.hk nd hnd).trans hfound, ?_⟩
    rw [hds]
    exact C01_created_child_is_settled mks sys _ parentRef d _ ds dm f (hds ▸ hpl) hh

/-! ### non-vacuity: one kind, two plain ConfigMaps, empty store -/
section Examples
def exKt' : KindTable := [(("v1", "ConfigMap"), exInfo')]
def exGVK' : GVK := { group := "", version := "v1", kind := "ConfigMap" }
def exMap : ObjMap := [(exGVK', exDesired)]

example : GroupOK ["name"] exKt' exRef' exS0 (exGVK', exDesired) exInfo' where
  hk := rfl
  hdef := by decide
  hfree := by decide
  hwf := by decide
  hnd := by decide
  hplain := by
    intro nd hnd d hd
    have hd' : d = { group := "", resource := "configmaps", namespaced := true, hasStatus := false } := by
      simp [exDesired] at hnd
      rcases hnd with rfl | rfl <;> (simp [State.defOf, exS0, emptyState, tgtOf, targetOf, exInfo', exDes'] at hd; exact hd.symm)
    subst hd'
    simp [exDesired] at hnd
    rcases hnd with rfl | rfl
    · refine ⟨_, [("name", .str "a"), ("namespace", .str "ns1")], rfl, ?_, by decide⟩
      constructor <;> first | rfl | decide | (intro _ v hv; simp [lookup] at hv; rw [← hv]; rfl)
    · refine ⟨_, [("name", .str "b"), ("namespace", .str "ns1")], rfl, ?_, by decide⟩
      constructor <;> first | rfl | decide | (intro _ v hv; simp [lookup] at hv; rw [← hv]; rfl)

-- the conclusion evaluated on the example: first run without error, second run (cache = what the store holds) silent
example : (Prog.runT (worldStep (fun _ _ => .hookErr "none")) (manageChildren ["name"] ["uid"] [] none exKt' exRef' [] exMap []) exS0).1.1.isEmpty = true := by decide
example : (match manageChildren ["name"] ["uid"] [] none exKt' exRef' [(exGVK', exObserved)] exMap [] with | .ret x => x.1.isEmpty | _ => false) = true := by decide
end Examples

end C01
end Mc

namespace Mc
namespace C01
open Api C05

/-- a child without finalizers is gone after the delete `ManageChildren` sends for it -/
theorem delete_live_gone (s : State) (t : Target) (obj : J) (d : ResDef) (hd : s.defOf t = some d) (hf : s.find t = some obj)
    (hu : mstr obj "uid" ≠ "") (hfin : (finalizersRaw obj).isEmpty = true) :
    (s.request .delete t .null (deleteOpts (getUID obj))).1.ok = true ∧ (s.request .delete t .null (deleteOpts (getUID obj))).2.find t = none := by
  have hguid : getUID obj = mstr obj "uid" := (C02.mstr_eq_strAt obj "uid").symm
  have hp : precondition (deleteOpts (getUID obj)) "uid" = some (mstr obj "uid") := by
    rw [hguid]; exact C02.precondition_deleteOpts _ hu
  have hp2 : precondition (deleteOpts (getUID obj)) "resourceVersion" = none := by
    simp [precondition, deleteOpts, J.fields, lookup]
  have hfind := request_find s .delete t .null (deleteOpts (getUID obj)) t
  rw [hfind, if_pos rfl]
  simp only [State.request, hd, hf, handle, Api.delete, preFails, hp, hp2]
  simp [hfin, Out.ok]

/-- **C01, Recreate path, one child**: the observed child differs, the strategy says delete-and-recreate, the child has no
    finalizers; nobody else writes.  Sync 1 deletes it, sync 2 (cache: gone) creates it from the desired object, and for
    sync 3 (cache: the stored object) the decision is "nothing to do". -/
theorem C01_recreate_child_converges (hook : String → J → Resp) (mks sys : List String) (method : String) (parentRef : OwnerRef) (info : KindInfo)
    (obs : J) (ds dm : KVs) (d : ResDef) (s : State)
    (ht : tgtOf info obs = tgtOf info (.obj ds))
    (hd : s.defOf (tgtOf info (.obj ds)) = some d) (hfind : s.find (tgtOf info (.obj ds)) = some obs)
    (hu : mstr obs "uid" ≠ "") (hfin : (finalizersRaw obs).isEmpty = true)
    (hact : updateAct mks sys method obs (.obj ds) = .delete (getUID obs))
    (hwf : (createBody parentRef (.obj ds)).isNull = false ∧ (getName (.obj ds) == "") = false ∧ nControllerRefs (createBody parentRef (.obj ds)) ≤ 1)
    (hplain : PlainChild d (tgtOf info (.obj ds)) ds dm) (hh : hypJ mks (.obj ds) = true) :
    let t := tgtOf info (.obj ds)
    let s1 := (Prog.runT (W hook) (childStep mks sys method t parentRef (some obs) (.obj ds)) s).2
    let s2 := (Prog.runT (W hook) (childStep mks sys method t parentRef none (.obj ds)) s1).2
    s1.find t = none ∧
    (∃ f, s2.find t = some (created d t (createBody parentRef (.obj ds)) f false)) ∧
    ∀ o, s2.find t = some o → childStep mks sys method t parentRef (some o) (.obj ds) = .ret none := by
  intro t s1 s2
  have hgone := delete_live_gone s t obs d hd hfind hu hfin
  have hs1 : s1 = (s.request .delete t .null (deleteOpts (getUID obs))).2 := by
    show (Prog.runT (W hook) (childStep mks sys method t parentRef (some obs) (.obj ds)) s).2 = _
    simp only [childStep, hact, Prog.runT, W, worldStep]
  have h1 : s1.find t = none := by rw [hs1]; exact hgone.2
  have hd1 : s1.defOf t = some d := by rw [hs1, request_defOf]; exact hd
  have hok := create_free s1 t (createBody parentRef (.obj ds)) d hd1 h1 hwf.1 (by show ((tgtOf info (.obj ds)).name == "") = false; simpa [tgtOf, targetOf] using hwf.2.1) hwf.2.2
  have hpost := request_create_post s1 t (createBody parentRef (.obj ds)) d hd1 hok
  have hs2 : s2 = (s1.request .create t (createBody parentRef (.obj ds)) .null).2 := by
    show (Prog.runT (W hook) (childStep mks sys method t parentRef none (.obj ds)) s1).2 = _
    simp only [childStep, Prog.runT, W, worldStep]
  refine ⟨h1, ⟨s1.fresh, by rw [hs2]; exact hpost⟩, ?_⟩
  intro o ho
  rw [hs2, hpost] at ho
  cases ho
  simp only [childStep]
  rw [C01_created_child_is_settled mks sys method parentRef d t ds dm s1.fresh hplain hh]

end C01
end Mc
