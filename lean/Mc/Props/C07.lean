import Mc.Sync.Rolling
import Mc.Proofs.RollingLemmas
import Mc.Proofs.JsonLemmas
import Mc.Proofs.ClaimsLemmas
/-
  C07 - rolling updates move one child per sync, in hook order, gated on health.
  Theorems about `gatedMove` (second loop of `syncRollingUpdate`), `shouldContinueRolling` and
  `childHappy`, for every configuration, every list of revisions, every claim map and every
  hook result (no bound on sizes); then the rollout condition written into the parent status
  (`setCondition`) and the claim filtering of `syncRevisionClaims` (invariants in
  `Mc/Proofs/ClaimsLemmas.lean`).
-/
namespace Mc.C07

/-- a child of the latest hook result that still has to move: its kind rolls and revision 0 does not claim it -/
def pending (c : Cfg) (cl : Claims) (child : J) : Bool :=
  c.isRolling (apiGroup (getAPIVersion child)) (getKind child) &&
  !(cl.get (apiGroup (getAPIVersion child)) (getKind child) (getName child) == some 0)

/-- the first pending child, in the order the hook returned the children -/
def firstPending (c : Cfg) (cl : Claims) (children : List J) : Option J :=
  children.find? (pending c cl)

/-- the revisions after `(g, k, n)` moved to the latest one: added at index 0, removed everywhere else -/
abbrev moveChild (prs : List PRev) (g k n : String) : List PRev :=
  prs.mapIdx (fun i p =>
    if i == 0 then { p with children := addChild p.children g k n }
    else { p with children := removeChild p.children g k n })

/-- the move of one child object -/
abbrev moveOf (prs : List PRev) (child : J) : List PRev :=
  moveChild prs (apiGroup (getAPIVersion child)) (getKind child) (getName child)

/-- `status.observedGeneration` as `childHappy` reads it -/
def observedGen (child : J) : Int :=
  match nestedField child ["status", "observedGeneration"] with
  | .ok (some (.num n)) => n
  | _ => 0

theorem pending_iff (c : Cfg) (cl : Claims) (child : J) :
    pending c cl child = true ↔
      c.isRolling (apiGroup (getAPIVersion child)) (getKind child) = true ∧
      cl.get (apiGroup (getAPIVersion child)) (getKind child) (getName child) ≠ some 0 := by
  simp [pending]

/-- `firstPending` names the first element of `children` (hook order) that is pending -/
theorem firstPending_some_iff (c : Cfg) (cl : Claims) (children : List J) (child : J) :
    firstPending c cl children = some child ↔
      pending c cl child = true ∧
      ∃ before after, children = before ++ child :: after ∧ ∀ x ∈ before, pending c cl x = false := by
  unfold firstPending
  rw [List.find?_eq_some_iff_append]
  simp

/-- ∀-form of "nothing is pending": every rolling child is claimed by revision 0 -/
theorem firstPending_none_iff (c : Cfg) (cl : Claims) (children : List J) :
    firstPending c cl children = none ↔
      ∀ child ∈ children, c.isRolling (apiGroup (getAPIVersion child)) (getKind child) = true →
        cl.get (apiGroup (getAPIVersion child)) (getKind child) (getName child) = some 0 := by
  unfold firstPending
  rw [List.find?_eq_none]
  constructor
  · intro h child hm hr
    have := h child hm
    rw [pending_iff] at this
    exact Classical.byContradiction (fun hn => this ⟨hr, hn⟩)
  · intro h child hm hp
    rw [pending_iff] at hp
    exact hp.2 (h child hm hp.1)

/-- the whole of `gatedMove`, by cases on the first pending child and on the health gate -/
theorem gatedMove_cases (c : Cfg) (obsRel : ObjMap) (prs : List PRev) (cl : Claims) (children : List J) :
    gatedMove c obsRel prs cl children =
      match firstPending c cl children with
      | none => (prs, condJ "True" "OnLatestRevision" s!"latest ControllerRevision: {(prs.headD default).name}")
      | some child =>
        match shouldContinueRolling c (prs.headD default) obsRel with
        | some msg => (prs, condJ "False" "RolloutWaiting" msg)
        | none => (moveOf prs child, condJ "False" "RolloutProgressing" s!"updating {getKind child} {getName child}") :=
  gatedMove_eq_find c obsRel prs cl children

/-! ### a small concrete configuration for the non-vacuity examples

`String.splitOn` (inside `apiGroup`) does not reduce in the kernel, so the examples keep the API group of
`v1` objects symbolic as `apiGroup "v1"`; everything else is concrete. -/
namespace Ex

def ch0 : ChildRes :=
  { apiVersion := "v1", resource := "pods", kind := "Pod", namespaced := true, hasStatus := true,
    method := some "RollingRecreate" }

def chInPlace : ChildRes := { ch0 with method := some "RollingInPlace" }

def cfg0 : Cfg :=
  { name := "cc", parentGroup := "ctl.example.com", parentVersion := "v1", parentKind := "Thing",
    parentResource := "things", parentNamespaced := true, parentHasStatus := true, children := [ch0],
    generateSelector := true, parentSelector := none, finalize := false, customize := false, ssa := false,
    fieldPaths := [] }

def core : String := apiGroup "v1"

def pod (n : String) : J :=
  .obj [("apiVersion", .str "v1"), ("kind", .str "Pod"), ("metadata", .obj [("name", .str n)])]

/-- an observed pod that already carries the desired state `pod n` -/
def podObs (n : String) : J :=
  .obj [("apiVersion", .str "v1"), ("kind", .str "Pod"),
        ("metadata", .obj [("name", .str n), ("annotations", .obj [(lastAppliedAnnotation, pod n)])])]

/-- up to date, but `status.observedGeneration` lags behind `metadata.generation` -/
def podStale (n : String) : J :=
  .obj [("apiVersion", .str "v1"), ("kind", .str "Pod"),
        ("metadata", .obj [("name", .str n), ("generation", .num 2),
                           ("annotations", .obj [(lastAppliedAnnotation, pod n)])]),
        ("status", .obj [("observedGeneration", .num 1)])]

def objs (grp : String) (os : List (String × J)) : ObjMap := [(⟨grp, "v1", "Pod"⟩, os)]

def rev (gs : List CGroup) (des : ObjMap) : PRev := { (default : PRev) with children := gs, desired := des }

/-- the hook returns `a`, `b`, `c` in this order -/
def kids : List J := [pod "a", pod "b", pod "c"]
def desired0 : ObjMap := objs core [("a", pod "a"), ("b", pod "b"), ("c", pod "c")]
/-- revision 0 claims `a`, revision 1 claims `b` and `c` -/
def prs1 : List PRev := [rev [⟨core, "Pod", ["a"]⟩] desired0, rev [⟨core, "Pod", ["b", "c"]⟩] []]
def cl1 : Claims := [((claimKey core "Pod", "a"), 0), ((claimKey core "Pod", "b"), 1), ((claimKey core "Pod", "c"), 1)]
def clDone : Claims := [((claimKey core "Pod", "a"), 0), ((claimKey core "Pod", "b"), 0), ((claimKey core "Pod", "c"), 0)]
def obsHappy : ObjMap := objs core [("a", podObs "a")]

theorem pod_av (n : String) : getAPIVersion (pod n) = "v1" := rfl
theorem pod_kind (n : String) : getKind (pod n) = "Pod" := rfl
theorem pod_name (n : String) : getName (pod n) = n := rfl
theorem cfg0_strategy : cfg0.strategy core "Pod" = some ch0 := by
  simp [Cfg.strategy, cfg0, ChildRes.group, ch0, core]
theorem cfg0_rolling : cfg0.isRolling (apiGroup "v1") "Pod" = true := by
  have := cfg0_strategy
  unfold core at this
  simp [Cfg.isRolling, this, isRollingMethod, ch0]

/-- hook order: `a` is skipped (revision 0 has it), `b` comes before `c` -/
theorem first1 : firstPending cfg0 cl1 kids = some (pod "b") := by
  simp [firstPending, pending, kids, pod_av, pod_kind, pod_name, cfg0_rolling, cl1, Claims.get, core]
theorem firstDone : firstPending cfg0 clDone kids = none := by
  simp [firstPending, pending, kids, pod_av, pod_kind, pod_name, cfg0_rolling, clDone, Claims.get, core]

/-- nothing observed: the claimed child `a` is missing, the gate is closed -/
theorem gate_closed : shouldContinueRolling cfg0 (prs1.headD default) [] = some "missing child Pod a" := by
  simp [shouldContinueRolling, prs1, rev, cfg0_strategy, ch0, isRollingMethod, childHappy, ObjMap.findGK]
  rfl

theorem happy_any (grp : String) (des : List (String × J)) :
    childHappy cfg0 ch0 (objs grp [("a", podObs "a")]) (objs grp (("a", pod "a") :: des)) ⟨grp, "Pod", ["a"]⟩ "a" = none := by
  have h1 : (objs grp [("a", podObs "a")]).findGK grp "Pod" "a" = some (podObs "a") := by
    simp [ObjMap.findGK, objs, List.lookup]
  have h2 : (objs grp (("a", pod "a") :: des)).findGK grp "Pod" "a" = some (pod "a") := by
    simp [ObjMap.findGK, objs, List.lookup]
  rw [childHappy, h1, h2]
  simp only [Option.getD_some]
  decide

end Ex
open Ex

/-! ### 16. the health gate (`C07_gate`, `C07_child_happy`) -/

/-- the gate is open exactly when every child the latest revision claims, of a rolling kind, is happy -/
theorem C07_gate (c : Cfg) (latest : PRev) (obsRel : ObjMap) :
    shouldContinueRolling c latest obsRel = none ↔
      ∀ g ∈ latest.children, ∀ st, c.strategy g.apiGroup g.kind = some st → isRollingMethod st.method = true →
        ∀ n ∈ g.names, childHappy c st obsRel latest.desired g n = none := by
  unfold shouldContinueRolling
  rw [List.findSome?_eq_none_iff]
  constructor
  · intro h g hg st hst hm n hn
    have h1 := h g hg
    simp only [hst, hm, Bool.not_true, Bool.false_eq_true, if_false] at h1
    exact List.findSome?_eq_none_iff.mp h1 n hn
  · intro h g hg
    cases hst : c.strategy g.apiGroup g.kind with
    | none => rfl
    | some st =>
      cases hm : isRollingMethod st.method with
      | false => simp [hm]
      | true =>
        simp only [hm, Bool.not_true, Bool.false_eq_true, if_false]
        exact List.findSome?_eq_none_iff.mpr (h g hg st hst hm)

/-- `childHappy` with the observed generation named -/
theorem childHappy_eq (c : Cfg) (st : ChildRes) (obsRel des : ObjMap) (g : CGroup) (n : String) :
    childHappy c st obsRel des g n =
      match obsRel.findGK g.apiGroup g.kind n with
      | none => some s!"missing child {g.kind} {n}"
      | some child =>
        match applyUpdate Generated.knownMergeKeys Generated.objectMetaSystemFields child
            ((des.findGK g.apiGroup g.kind n).getD (.obj [])) with
        | .error _ => some s!"can't check if child {g.kind} {n} is updated"
        | .ok updated =>
          if !(child.eqv updated) then some s!"child {g.kind} {n} is not updated yet"
          else if st.method == some "RollingInPlace" && observedGen child > 0 && observedGen child < getGeneration child then
            some s!"child {g.kind} {n} with RollingInPlace update strategy hasn't observed latest spec"
          else if !childStatusCheck st.checks child then some s!"child {g.kind} {n} failed status check"
          else none := rfl

/-- a claimed child is happy when it exists, is up to date with the latest desired state, has observed its
    spec (RollingInPlace only) and passes the configured status checks -/
theorem C07_child_happy (c : Cfg) (st : ChildRes) (obsRel des : ObjMap) (g : CGroup) (n : String) :
    childHappy c st obsRel des g n = none ↔
      ∃ child, obsRel.findGK g.apiGroup g.kind n = some child ∧
        (∃ u, applyUpdate Generated.knownMergeKeys Generated.objectMetaSystemFields child
                ((des.findGK g.apiGroup g.kind n).getD (.obj [])) = .ok u ∧ child.eqv u = true) ∧
        ¬(st.method = some "RollingInPlace" ∧ observedGen child > 0 ∧ observedGen child < getGeneration child) ∧
        childStatusCheck st.checks child = true := by
  rw [childHappy_eq]
  cases hf : obsRel.findGK g.apiGroup g.kind n with
  | none => simp
  | some child =>
    simp only [Option.some.injEq, exists_eq_left']
    cases ha : applyUpdate Generated.knownMergeKeys Generated.objectMetaSystemFields child
        ((des.findGK g.apiGroup g.kind n).getD (.obj [])) with
    | error e => simp
    | ok u =>
      simp only [Except.ok.injEq, exists_eq_left']
      by_cases he : child.eqv u = true
      · by_cases h1 : st.method = some "RollingInPlace" <;>
        by_cases h2 : observedGen child > 0 <;>
        by_cases h3 : observedGen child < getGeneration child <;>
        cases hc : childStatusCheck st.checks child <;>
        simp [he, h1, h2, h3]
      · simp [he]


-- non-vacuity: a happy child (both sides of `C07_child_happy` hold) ...
example : childHappy cfg0 ch0 (objs "" [("a", podObs "a")]) (objs "" [("a", pod "a")]) ⟨"", "Pod", ["a"]⟩ "a" = none := by
  decide
example : ∃ child, (objs "" [("a", podObs "a")]).findGK "" "Pod" "a" = some child ∧
    (∃ u, applyUpdate Generated.knownMergeKeys Generated.objectMetaSystemFields child
            (((objs "" [("a", pod "a")]).findGK "" "Pod" "a").getD (.obj [])) = .ok u ∧ child.eqv u = true) ∧
    ¬(ch0.method = some "RollingInPlace" ∧ observedGen child > 0 ∧ observedGen child < getGeneration child) ∧
    childStatusCheck ch0.checks child = true :=
  (C07_child_happy cfg0 ch0 _ _ ⟨"", "Pod", ["a"]⟩ "a").mp (by decide)
-- ... and unhappy ones: RollingInPlace with a lagging observedGeneration; a missing child; a failed status check
example : childHappy cfg0 chInPlace (objs "" [("a", podStale "a")]) (objs "" [("a", pod "a")]) ⟨"", "Pod", ["a"]⟩ "a" =
    some "child Pod a with RollingInPlace update strategy hasn't observed latest spec" := by decide
example : chInPlace.method = some "RollingInPlace" ∧ observedGen (podStale "a") > 0 ∧
    observedGen (podStale "a") < getGeneration (podStale "a") := by decide
example : childHappy cfg0 ch0 (objs "" [("a", podStale "a")]) (objs "" [("a", pod "a")]) ⟨"", "Pod", ["a"]⟩ "a" = none := by
  decide
example : childHappy cfg0 ch0 [] (objs "" [("a", pod "a")]) ⟨"", "Pod", ["a"]⟩ "a" = some "missing child Pod a" := by
  decide
example : childHappy cfg0 { ch0 with checks := [⟨"Ready", some "True", none⟩] }
    (objs "" [("a", podObs "a")]) (objs "" [("a", pod "a")]) ⟨"", "Pod", ["a"]⟩ "a" =
    some "child Pod a failed status check" := by decide

/-- non-vacuity of `C07_gate`: revision 0 claims `a`, `a` is observed and up to date - the gate is open -/
theorem Ex.gate_open : shouldContinueRolling cfg0 (prs1.headD default) obsHappy = none := by
  rw [C07_gate]
  intro g hg st hst _ n hn
  simp only [prs1, rev, List.headD_cons, List.mem_singleton] at hg
  subst hg
  simp only [List.mem_singleton] at hn
  subst hn
  rw [cfg0_strategy] at hst
  injection hst with hst
  subst hst
  exact happy_any core _
-- ... and the gate is closed when the claimed child is missing
example : ¬ ∀ g ∈ (prs1.headD default).children, ∀ st, cfg0.strategy g.apiGroup g.kind = some st →
    isRollingMethod st.method = true → ∀ n ∈ g.names, childHappy cfg0 st [] (prs1.headD default).desired g n = none := by
  rw [← C07_gate, gate_closed]
  simp

/-! ### 15. wait / complete / progress -/

/-- the first pending child exists but the latest revision's children are not all healthy: nothing moves -/
theorem C07_wait (c : Cfg) (obsRel : ObjMap) (prs : List PRev) (cl : Claims) (children : List J) (child : J) (msg : String)
    (hp : firstPending c cl children = some child)
    (hg : shouldContinueRolling c (prs.headD default) obsRel = some msg) :
    gatedMove c obsRel prs cl children = (prs, condJ "False" "RolloutWaiting" msg) := by
  rw [gatedMove_cases, hp]
  simp only [hg]

/-- every rolling child is already on the latest revision: nothing moves, the rollout is complete -/
theorem C07_complete (c : Cfg) (obsRel : ObjMap) (prs : List PRev) (cl : Claims) (children : List J)
    (hp : firstPending c cl children = none) :
    gatedMove c obsRel prs cl children =
      (prs, condJ "True" "OnLatestRevision" s!"latest ControllerRevision: {(prs.headD default).name}") := by
  rw [gatedMove_cases, hp]

/-- ∀-form of `C07_complete` -/
theorem C07_complete_forall (c : Cfg) (obsRel : ObjMap) (prs : List PRev) (cl : Claims) (children : List J)
    (hp : ∀ child ∈ children, c.isRolling (apiGroup (getAPIVersion child)) (getKind child) = true →
      cl.get (apiGroup (getAPIVersion child)) (getKind child) (getName child) = some 0) :
    gatedMove c obsRel prs cl children =
      (prs, condJ "True" "OnLatestRevision" s!"latest ControllerRevision: {(prs.headD default).name}") :=
  C07_complete c obsRel prs cl children ((firstPending_none_iff c cl children).mpr hp)

/-- the gate is open: exactly the first pending child moves -/
theorem C07_progress (c : Cfg) (obsRel : ObjMap) (prs : List PRev) (cl : Claims) (children : List J) (child : J)
    (hp : firstPending c cl children = some child)
    (hg : shouldContinueRolling c (prs.headD default) obsRel = none) :
    gatedMove c obsRel prs cl children =
      (prs.mapIdx (fun i p =>
          if i == 0 then { p with children := addChild p.children (apiGroup (getAPIVersion child)) (getKind child) (getName child) }
          else { p with children := removeChild p.children (apiGroup (getAPIVersion child)) (getKind child) (getName child) }),
       condJ "False" "RolloutProgressing" s!"updating {getKind child} {getName child}") := by
  rw [gatedMove_cases, hp]
  simp only [hg]


-- non-vacuity: `a` on revision 0, `b` and `c` on revision 1, hook order `a, b, c`
example : gatedMove cfg0 [] prs1 cl1 kids = (prs1, condJ "False" "RolloutWaiting" "missing child Pod a") :=
  C07_wait cfg0 [] prs1 cl1 kids (pod "b") _ first1 gate_closed

example : gatedMove cfg0 obsHappy prs1 clDone kids =
    (prs1, condJ "True" "OnLatestRevision" s!"latest ControllerRevision: {(prs1.headD default).name}") :=
  C07_complete cfg0 obsHappy prs1 clDone kids firstDone

example : ∀ child ∈ kids, cfg0.isRolling (apiGroup (getAPIVersion child)) (getKind child) = true →
    clDone.get (apiGroup (getAPIVersion child)) (getKind child) (getName child) = some 0 :=
  (firstPending_none_iff cfg0 clDone kids).mp firstDone

/-- `b` (not `c`) moves -/
theorem Ex.progress1 : gatedMove cfg0 obsHappy prs1 cl1 kids =
    (moveChild prs1 core "Pod" "b", condJ "False" "RolloutProgressing" "updating Pod b") :=
  C07_progress cfg0 obsHappy prs1 cl1 kids (pod "b") first1 Ex.gate_open

/-- the claims after the move: `b` joined `a` on revision 0 and left revision 1 -/
theorem Ex.moved1 : (moveChild prs1 core "Pod" "b").map (·.children) =
    [[⟨core, "Pod", ["a", "b"]⟩], [⟨core, "Pod", ["c"]⟩]] := by
  simp [moveChild, prs1, rev, List.mapIdx_cons, addChild, addChild.go, removeChild, removeChild.go]

theorem Ex.moved1_ne : moveChild prs1 core "Pod" "b" ≠ prs1 := by
  intro h
  have := congrArg (List.map (·.children)) h
  rw [Ex.moved1] at this
  simp [prs1, rev] at this

/-! ### 14. one move, in hook order -/

/-- the three outcomes of `gatedMove`; a move is always the move of the first pending child -/
theorem C07_hook_order (c : Cfg) (obsRel : ObjMap) (prs prs' : List PRev) (cl : Claims) (children : List J) (cond : J)
    (h : gatedMove c obsRel prs cl children = (prs', cond)) :
    (firstPending c cl children = none ∧ prs' = prs ∧
      cond = condJ "True" "OnLatestRevision" s!"latest ControllerRevision: {(prs.headD default).name}") ∨
    (∃ child msg, firstPending c cl children = some child ∧
      shouldContinueRolling c (prs.headD default) obsRel = some msg ∧ prs' = prs ∧
      cond = condJ "False" "RolloutWaiting" msg) ∨
    (∃ child, firstPending c cl children = some child ∧
      shouldContinueRolling c (prs.headD default) obsRel = none ∧
      prs' = moveChild prs (apiGroup (getAPIVersion child)) (getKind child) (getName child) ∧
      cond = condJ "False" "RolloutProgressing" s!"updating {getKind child} {getName child}") := by
  cases hp : firstPending c cl children with
  | none =>
    rw [C07_complete c obsRel prs cl children hp] at h
    injection h with h1 h2
    exact Or.inl ⟨rfl, h1.symm, h2.symm⟩
  | some child =>
    cases hg : shouldContinueRolling c (prs.headD default) obsRel with
    | some msg =>
      rw [C07_wait c obsRel prs cl children child msg hp hg] at h
      injection h with h1 h2
      exact Or.inr (Or.inl ⟨child, msg, rfl, rfl, h1.symm, h2.symm⟩)
    | none =>
      rw [C07_progress c obsRel prs cl children child hp hg] at h
      injection h with h1 h2
      exact Or.inr (Or.inr ⟨child, rfl, rfl, h1.symm, h2.symm⟩)

/-- whenever the revisions change, the change is the move of the first child (hook order) of a rolling kind
    that revision 0 does not claim yet -/
theorem C07_hook_order_first (c : Cfg) (obsRel : ObjMap) (prs prs' : List PRev) (cl : Claims) (children : List J) (cond : J)
    (h : gatedMove c obsRel prs cl children = (prs', cond)) (hne : prs' ≠ prs) :
    ∃ before child after, children = before ++ child :: after ∧
      (∀ x ∈ before, ¬(c.isRolling (apiGroup (getAPIVersion x)) (getKind x) = true ∧
                        cl.get (apiGroup (getAPIVersion x)) (getKind x) (getName x) ≠ some 0)) ∧
      c.isRolling (apiGroup (getAPIVersion child)) (getKind child) = true ∧
      cl.get (apiGroup (getAPIVersion child)) (getKind child) (getName child) ≠ some 0 ∧
      prs' = moveChild prs (apiGroup (getAPIVersion child)) (getKind child) (getName child) := by
  rcases C07_hook_order c obsRel prs prs' cl children cond h with ⟨_, h1, _⟩ | ⟨_, _, _, _, h1, _⟩ | ⟨child, hp, _, h1, _⟩
  · exact absurd h1 hne
  · exact absurd h1 hne
  · rw [firstPending_some_iff] at hp
    obtain ⟨hpc, before, after, hsplit, hbefore⟩ := hp
    rw [pending_iff] at hpc
    refine ⟨before, child, after, hsplit, ?_, hpc.1, hpc.2, h1⟩
    intro x hx hpx
    have := hbefore x hx
    rw [← pending_iff] at hpx
    rw [hpx] at this
    exact Bool.noConfusion this

/-- at most one child moves per sync -/
theorem C07_one_move (c : Cfg) (obsRel : ObjMap) (prs prs' : List PRev) (cl : Claims) (children : List J) (cond : J)
    (h : gatedMove c obsRel prs cl children = (prs', cond)) :
    prs' = prs ∨ ∃ g k n, prs' = prs.mapIdx (fun i p =>
      if i == 0 then { p with children := addChild p.children g k n }
      else { p with children := removeChild p.children g k n }) := by
  rcases C07_hook_order c obsRel prs prs' cl children cond h with ⟨_, h1, _⟩ | ⟨_, _, _, _, h1, _⟩ | ⟨child, _, _, h1, _⟩
  · exact Or.inl h1
  · exact Or.inl h1
  · exact Or.inr ⟨_, _, _, h1⟩

/-- corollary: the claims of the latest revision are unchanged or received one `addChild` -/
theorem C07_one_move_latest (c : Cfg) (obsRel : ObjMap) (prs prs' : List PRev) (cl : Claims) (children : List J) (cond : J)
    (h : gatedMove c obsRel prs cl children = (prs', cond)) :
    (prs'.headD default).children = (prs.headD default).children ∨
    ∃ g k n, (prs'.headD default).children = addChild (prs.headD default).children g k n := by
  rcases C07_one_move c obsRel prs prs' cl children cond h with h1 | ⟨g, k, n, h1⟩
  · left; rw [h1]
  · cases prs with
    | nil => left; rw [h1]; rfl
    | cons p rest =>
      right
      refine ⟨g, k, n, ?_⟩
      rw [h1]
      exact children_headD_mapIdx_move (p :: rest) (List.cons_ne_nil _ _) (fun gs => addChild gs g k n) (fun gs => removeChild gs g k n)

/-- corollary on names: the names claimed by the latest revision are unchanged or gained exactly one name -/
theorem C07_one_name (c : Cfg) (obsRel : ObjMap) (prs prs' : List PRev) (cl : Claims) (children : List J) (cond : J)
    (h : gatedMove c obsRel prs cl children = (prs', cond)) :
    claimNames (prs'.headD default).children = claimNames (prs.headD default).children ∨
    ∃ n as bs, claimNames (prs.headD default).children = as ++ bs ∧
      claimNames (prs'.headD default).children = as ++ n :: bs := by
  rcases C07_one_move_latest c obsRel prs prs' cl children cond h with h1 | ⟨g, k, n, h1⟩
  · left; rw [h1]
  · rw [h1]
    rcases addChild_names (prs.headD default).children g k n with h2 | ⟨as, bs, h2, h3⟩
    · exact Or.inl h2
    · exact Or.inr ⟨n, as, bs, h2, h3⟩


-- non-vacuity: all three outcomes occur (see the examples above); here the hypotheses of the "move" forms
example : ∃ before child after, kids = before ++ child :: after ∧
    (∀ x ∈ before, ¬(cfg0.isRolling (apiGroup (getAPIVersion x)) (getKind x) = true ∧
                      cl1.get (apiGroup (getAPIVersion x)) (getKind x) (getName x) ≠ some 0)) ∧
    cfg0.isRolling (apiGroup (getAPIVersion child)) (getKind child) = true ∧
    cl1.get (apiGroup (getAPIVersion child)) (getKind child) (getName child) ≠ some 0 ∧
    moveChild prs1 core "Pod" "b" = moveChild prs1 (apiGroup (getAPIVersion child)) (getKind child) (getName child) :=
  C07_hook_order_first cfg0 obsHappy prs1 _ cl1 kids _ Ex.progress1 Ex.moved1_ne

example : moveChild prs1 core "Pod" "b" = prs1 ∨ ∃ g k n, moveChild prs1 core "Pod" "b" = prs1.mapIdx (fun i p =>
    if i == 0 then { p with children := addChild p.children g k n }
    else { p with children := removeChild p.children g k n }) :=
  C07_one_move cfg0 obsHappy prs1 _ cl1 kids _ Ex.progress1

example : ((moveChild prs1 core "Pod" "b").headD default).children = (prs1.headD default).children ∨
    ∃ g k n, ((moveChild prs1 core "Pod" "b").headD default).children = addChild (prs1.headD default).children g k n :=
  C07_one_move_latest cfg0 obsHappy prs1 _ cl1 kids _ Ex.progress1

example : claimNames (prs1.headD default).children = ["a"] ∧
    claimNames ((moveChild prs1 core "Pod" "b").headD default).children = ["a", "b"] := by
  simp [claimNames, moveChild, prs1, rev, List.mapIdx_cons, addChild, addChild.go]

-- with no revisions at all nothing can move
example (c : Cfg) (obsRel : ObjMap) (cl : Claims) (children : List J) : (gatedMove c obsRel [] cl children).1 = [] := by
  rcases C07_one_move c obsRel [] _ cl children _ rfl with h | ⟨_, _, _, h⟩ <;> rw [h] <;> rfl


/-! ## 17. the rollout condition -/

/-- `x` is a condition (an object) whose `type` is the string `t` -/
def isCondOfType (t : String) (x : J) : Bool := x.isObj && x.get? "type" == some (.str t)

theorem beq_str_iff (v : J) (s : String) : (v == J.str s) = true ↔ v = .str s := by
  show J.beq v (.str s) = true ↔ _
  cases v <;> simp [J.beq]

theorem isCondOfType_iff (t : String) (x : J) :
    isCondOfType t x = true ↔ x.isObj = true ∧ x.get? "type" = some (.str t) := by
  unfold isCondOfType
  rw [Bool.and_eq_true]
  apply and_congr Iff.rfl
  cases h : x.get? "type" with
  | none => simp
  | some v =>
    show (v == J.str t) = true ↔ _
    rw [beq_str_iff]; simp

theorem isObj_of_get? {x : J} {k : String} {v : J} (h : x.get? k = some v) : x.isObj = true := by
  cases x <;> simp [J.get?, J.fields] at h ⊢ <;> rfl

theorem isCondOfType_of_type {t : String} {cond : J} (ht : cond.get? "type" = some (.str t)) :
    isCondOfType t cond = true :=
  (isCondOfType_iff t cond).mpr ⟨isObj_of_get? ht, ht⟩

theorem go_nil (cond : J) (ty : Option J) : setCondition.go cond ty [] = [] := rfl

theorem go_cons (cond : J) (ty : Option J) (x : J) (rest : List J) :
    setCondition.go cond ty (x :: rest) =
      if (x.isObj && x.get? "type" == ty) = true then cond :: rest else x :: setCondition.go cond ty rest := rfl

/-- the write-back replaces the first condition of the same type -/
theorem go_mem (cond : J) (ty : Option J) : ∀ xs : List J,
    xs.any (fun x => x.isObj && x.get? "type" == ty) = true → cond ∈ setCondition.go cond ty xs := by
  intro xs
  induction xs with
  | nil => intro h; simp at h
  | cons x rest ih =>
    intro h
    rw [go_cons]
    by_cases hx : (x.isObj && x.get? "type" == ty) = true
    · rw [if_pos hx]; exact List.mem_cons_self
    · rw [if_neg hx]
      rw [List.any_cons, Bool.or_eq_true] at h
      rcases h with h | h
      · exact absurd h hx
      · exact List.mem_cons_of_mem _ (ih h)

/-- replacing the first condition of type `t` by another condition of type `t` keeps the number of
    conditions of that type, and every condition of another type -/
theorem go_filter (cond : J) (t : String) (hc : isCondOfType t cond = true) : ∀ xs : List J,
    ((setCondition.go cond (some (.str t)) xs).filter (isCondOfType t)).length = (xs.filter (isCondOfType t)).length ∧
    (setCondition.go cond (some (.str t)) xs).filter (fun x => !isCondOfType t x) =
      xs.filter (fun x => !isCondOfType t x) := by
  intro xs
  induction xs with
  | nil => exact ⟨rfl, rfl⟩
  | cons x rest ih =>
    rw [go_cons]
    by_cases hx : isCondOfType t x = true
    · have hx' : (x.isObj && x.get? "type" == some (J.str t)) = true := hx
      rw [if_pos hx']
      constructor
      · rw [List.filter_cons_of_pos hc, List.filter_cons_of_pos hx]; rfl
      · rw [List.filter_cons_of_neg (by simp [hc]), List.filter_cons_of_neg (by simp [hx])]
    · have hx' : ¬ (x.isObj && x.get? "type" == some (J.str t)) = true := hx
      rw [if_neg hx']
      constructor
      · rw [List.filter_cons_of_neg hx, List.filter_cons_of_neg hx]; exact ih.1
      · rw [List.filter_cons_of_pos (by simp [hx]), List.filter_cons_of_pos (by simp [hx]), ih.2]

theorem any_eq_false_filter (p : J → Bool) : ∀ xs : List J, xs.any p = false → xs.filter p = [] := by
  intro xs h
  rw [List.filter_eq_nil_iff]
  intro a ha hp
  have : xs.any p = true := List.any_eq_true.mpr ⟨a, ha, hp⟩
  rw [h] at this
  exact absurd this (by simp)

/-- `setCondition` as a function of the old `conditions` value -/
theorem setCondition_ok_cases (status : KVs) (cond : J) (st' : KVs) (h : setCondition status cond = .ok st') :
    (lookup "conditions" status = none ∧
        st' = setKey "conditions" (.arr [cond]) status) ∨
    (∃ xs, lookup "conditions" status = some (.arr xs) ∧
        xs.any (fun x => x.isObj && x.get? "type" == cond.get? "type" && ((cond.get? "type").bind J.str?).isSome) = true ∧
        st' = setKey "conditions" (.arr (setCondition.go cond (cond.get? "type") xs)) status) ∨
    (∃ xs, lookup "conditions" status = some (.arr xs) ∧
        xs.any (fun x => x.isObj && x.get? "type" == cond.get? "type" && ((cond.get? "type").bind J.str?).isSome) = false ∧
        st' = setKey "conditions" (.arr (xs ++ [cond])) status) := by
  unfold setCondition at h
  split at h
  · rename_i h0
    left
    exact ⟨h0, (Except.ok.inj h).symm⟩
  · rename_i xs h0
    right
    simp only at h
    split at h
    · rename_i ha
      left
      exact ⟨xs, h0, ha, (Except.ok.inj h).symm⟩
    · rename_i ha
      right
      exact ⟨xs, h0, by simpa using ha, (Except.ok.inj h).symm⟩
  · exact absurd h (by simp)

/-- C07 (condition): a successful `setCondition` leaves a `conditions` list containing the new condition,
    touches no other key of the status, and keeps the condition type unique: if the new condition is an
    object with string type `t` and the old list held at most one condition of type `t`, the new list
    holds exactly one (the first match is replaced, else the condition is appended) -/
theorem C07_condition (status : KVs) (cond : J) (st' : KVs) (h : setCondition status cond = .ok st') :
    (∃ xs', lookup "conditions" st' = some (.arr xs') ∧ cond ∈ xs') ∧
    (∀ k, k ≠ "conditions" → lookup k st' = lookup k status) ∧
    (∀ t, cond.get? "type" = some (.str t) →
      (∀ xs, lookup "conditions" status = some (.arr xs) → (xs.filter (isCondOfType t)).length ≤ 1) →
      ∃ xs', lookup "conditions" st' = some (.arr xs') ∧ (xs'.filter (isCondOfType t)).length = 1) := by
  rcases setCondition_ok_cases status cond st' h with ⟨_, rfl⟩ | ⟨xs, h0, ha, rfl⟩ | ⟨xs, h0, ha, rfl⟩
  · refine ⟨⟨_, lookup_setKey_same _ _ _, by simp⟩, fun k hk => lookup_setKey_other _ _ _ _ hk, ?_⟩
    intro t ht _
    refine ⟨_, lookup_setKey_same _ _ _, ?_⟩
    rw [List.filter_cons_of_pos (isCondOfType_of_type ht)]; rfl
  · refine ⟨⟨_, lookup_setKey_same _ _ _, ?_⟩, fun k hk => lookup_setKey_other _ _ _ _ hk, ?_⟩
    · apply go_mem
      obtain ⟨x, hx, hp⟩ := List.any_eq_true.mp ha
      rw [Bool.and_eq_true] at hp
      exact List.any_eq_true.mpr ⟨x, hx, hp.1⟩
    · intro t ht hold
      refine ⟨_, lookup_setKey_same _ _ _, ?_⟩
      rw [ht, (go_filter cond t (isCondOfType_of_type ht) xs).1]
      have h1 := hold xs h0
      obtain ⟨x, hx, hp⟩ := List.any_eq_true.mp ha
      rw [Bool.and_eq_true, ht] at hp
      have hm : x ∈ xs.filter (isCondOfType t) := List.mem_filter.mpr ⟨hx, hp.1⟩
      have h2 : 0 < (xs.filter (isCondOfType t)).length := List.length_pos_of_mem hm
      omega
  · refine ⟨⟨_, lookup_setKey_same _ _ _, by simp⟩, fun k hk => lookup_setKey_other _ _ _ _ hk, ?_⟩
    intro t ht _
    refine ⟨_, lookup_setKey_same _ _ _, ?_⟩
    rw [ht] at ha
    have hf : xs.filter (isCondOfType t) = [] := by
      apply any_eq_false_filter
      rw [← ha]
      congr 1
      funext x
      simp [isCondOfType, J.str?]
    rw [List.filter_append, hf, List.filter_cons_of_pos (isCondOfType_of_type ht)]; rfl

/-- C07 (condition, exact form): with a typed condition the write-back changes nothing but the
    condition of that type - the other conditions are kept, in order, and the number of conditions of
    type `t` becomes `max 1 (old number)` -/
theorem C07_condition_exact (status : KVs) (cond : J) (st' : KVs) (t : String) (xs : List J)
    (h : setCondition status cond = .ok st') (ht : cond.get? "type" = some (.str t))
    (h0 : lookup "conditions" status = some (.arr xs)) :
    ∃ xs', lookup "conditions" st' = some (.arr xs') ∧
      (xs'.filter (isCondOfType t)).length = max 1 (xs.filter (isCondOfType t)).length ∧
      xs'.filter (fun x => !isCondOfType t x) = xs.filter (fun x => !isCondOfType t x) := by
  have hc := isCondOfType_of_type ht
  rcases setCondition_ok_cases status cond st' h with ⟨h1, _⟩ | ⟨ys, h1, ha, rfl⟩ | ⟨ys, h1, ha, rfl⟩
  · rw [h0] at h1; simp at h1
  · rw [h0] at h1
    obtain rfl : xs = ys := by simpa using h1
    refine ⟨_, lookup_setKey_same _ _ _, ?_, ?_⟩
    · rw [ht, (go_filter cond t hc xs).1]
      obtain ⟨x, hx, hp⟩ := List.any_eq_true.mp ha
      rw [Bool.and_eq_true, ht] at hp
      have hm : x ∈ xs.filter (isCondOfType t) := List.mem_filter.mpr ⟨hx, hp.1⟩
      have h2 : 0 < (xs.filter (isCondOfType t)).length := List.length_pos_of_mem hm
      omega
    · rw [ht, (go_filter cond t hc xs).2]
  · rw [h0] at h1
    obtain rfl : xs = ys := by simpa using h1
    refine ⟨_, lookup_setKey_same _ _ _, ?_, ?_⟩
    · rw [ht] at ha
      have hf : xs.filter (isCondOfType t) = [] := by
        apply any_eq_false_filter
        rw [← ha]
        congr 1
        funext x
        simp [isCondOfType, J.str?]
      rw [List.filter_append, hf, List.filter_cons_of_pos hc]; rfl
    · simp [List.filter_append, hc]

/-- C07 (condition, failure): `setCondition` fails exactly when `conditions` exists and is not a list (an explicit
    `null` included, as `unstructured.NestedSlice` does), and then with a fixed message -/
theorem C07_condition_error (status : KVs) (cond : J) (e : String) :
    setCondition status cond = .error e ↔
      e = "status.conditions is not a list" ∧
      ∃ v, lookup "conditions" status = some v ∧ v.isArr = false := by
  have key : ∀ v : J, v.isArr = false → lookup "conditions" status = some v →
      setCondition status cond = .error "status.conditions is not a list" := by
    intro v ha h0
    unfold setCondition
    rw [h0]
    cases v with
    | null => rfl
    | arr xs => simp [J.isArr] at ha
    | bool b => rfl
    | num n => rfl
    | str s => rfl
    | obj kvs => rfl
  constructor
  · intro h
    cases h0 : lookup "conditions" status with
    | none => unfold setCondition at h; rw [h0] at h; exact absurd h (by simp)
    | some v =>
      cases ha : v.isArr with
      | true =>
        cases v with
        | arr xs =>
          unfold setCondition at h; rw [h0] at h
          simp only at h
          split at h <;> exact absurd h (by simp)
        | null => simp [J.isArr] at ha
        | bool b => simp [J.isArr] at ha
        | num n => simp [J.isArr] at ha
        | str s => simp [J.isArr] at ha
        | obj kvs => simp [J.isArr] at ha
      | false =>
        rw [key v ha h0] at h
        exact ⟨(Except.error.inj h).symm, v, rfl, ha⟩
  · rintro ⟨rfl, v, h0, ha⟩
    exact key v ha h0

/-- the rollout conditions of `syncRollingUpdate` are objects of type "Updated" -/
theorem condJ_type (s r m : String) : (condJ s r m).get? "type" = some (.str "Updated") := by
  simp [condJ, J.get?, J.fields]

-- non-vacuity: first rollout (no conditions yet), replacement of the previous rollout condition next to a
-- foreign condition, and the failure case
example : setCondition [("replicas", .num 3)] (condJ "False" "RolloutProgressing" "m") =
    .ok [("replicas", .num 3), ("conditions", .arr [condJ "False" "RolloutProgressing" "m"])] := by rfl
example : setCondition [("conditions", .arr [.obj [("type", .str "Ready")], condJ "False" "RolloutWaiting" "w"])]
      (condJ "True" "OnLatestRevision" "m") =
    .ok [("conditions", .arr [.obj [("type", .str "Ready")], condJ "True" "OnLatestRevision" "m"])] := by rfl
example : ((([J.obj [("type", .str "Ready")], condJ "False" "RolloutWaiting" "w"] : List J).filter
    (isCondOfType "Updated")).length ≤ 1) := by decide
example : setCondition [("conditions", .str "oops")] (condJ "True" "OnLatestRevision" "m") =
    .error "status.conditions is not a list" := by rfl
example : setCondition [("conditions", .null)] (condJ "True" "OnLatestRevision" "m") =
    .error "status.conditions is not a list" := by rfl

/-! ## 18. claim filtering (`syncRevisionClaims`) -/

/-- the pairs `(claimKey apiGroup kind, name)` held by a list of revisions: all revisions, groups and
    names, in order -/
def keptKeys (prs : List PRev) : List (String × String) :=
  prs.flatMap (fun p => p.children.flatMap (fun g => g.names.map (fun n => (claimKey g.apiGroup g.kind, n))))

theorem keptKeys_eq (prs : List PRev) : keptKeys prs = revsKeys prs := rfl

/-- C07 (claims): after `syncRevisionClaims` (fresh claim map, latest revision first)
    (a) every name still held by a revision is desired by the latest revision and of a rolling kind;
    (b) the revisions are the same, in the same order, and differ only in `children`: groups and names
        are only ever dropped (order kept; same apiGroup/kind; kept groups are non-empty);
    (c) no `(claimKey, name)` pair is held twice, a pair held by revision `i` is mapped to `i` by the
        claim map, and the claim map contains nothing else -/
theorem C07_claims_filtered (c : Cfg) (latestDesired : ObjMap) (prs prs' : List PRev) (cl' : Claims)
    (h : syncRevisionClaims c latestDesired prs 0 [] = (prs', cl')) :
    -- (a)
    (∀ p' ∈ prs', ∀ g ∈ p'.children, ∀ n ∈ g.names,
        (latestDesired.findGK g.apiGroup g.kind n).isSome = true ∧ c.isRolling g.apiGroup g.kind = true) ∧
    -- (b)
    prs'.length = prs.length ∧
    (∀ (i : Nat) (p p' : PRev), prs[i]? = some p → prs'[i]? = some p' →
        p'.parent = p.parent ∧ p'.revision = p.revision ∧ p'.resp = p.resp ∧ p'.desired = p.desired ∧
        SubGroups p'.children p.children ∧
        ∀ g' ∈ p'.children, ∃ g ∈ p.children, g'.apiGroup = g.apiGroup ∧ g'.kind = g.kind ∧
          g'.names.Sublist g.names ∧ g'.names ≠ []) ∧
    -- (c)
    (keptKeys prs').Nodup ∧
    (∀ (i : Nat) (p' : PRev), prs'[i]? = some p' → ∀ g ∈ p'.children, ∀ n ∈ g.names,
        cl'.get g.apiGroup g.kind n = some i) ∧
    (∀ (i : Nat) (apiGroup kind n : String), cl'.get apiGroup kind n = some i →
        ∃ p', prs'[i]? = some p' ∧ ∃ g ∈ p'.children, n ∈ g.names ∧
          claimKey g.apiGroup g.kind = claimKey apiGroup kind) := by
  have h1 : (syncRevisionClaims c latestDesired prs 0 []).1 = prs' := by rw [h]
  have h2 : (syncRevisionClaims c latestDesired prs 0 []).2 = cl' := by rw [h]
  have hlen := syncRevisionClaims_length c latestDesired prs 0 []
  have hstep := (syncRevisionClaims_spec c latestDesired prs 0 []).1
  have hout := syncRevisionClaims_out c latestDesired prs 0 []
  rw [h1] at hlen hstep hout
  rw [h2] at hstep hout
  refine ⟨?_, hlen, ?_, ?_, ?_, ?_⟩
  · intro p' hp' g hg n hn
    obtain ⟨j, hj⟩ := List.getElem?_of_mem hp'
    obtain ⟨p, _, r⟩ := hout j p' hj
    exact ⟨(r.ok g hg).2 n hn, (r.ok g hg).1⟩
  · intro i p p' hp hp'
    obtain ⟨q, hq, r⟩ := hout i p' hp'
    rw [hp] at hq
    obtain rfl : p = q := by simpa using hq
    exact ⟨r.parent, r.revision, r.resp, r.desired, r.sub, r.sub.mem⟩
  · rw [keptKeys_eq]; exact hstep.nodup
  · intro i p' hp' g hg n hn
    obtain ⟨p, _, r⟩ := hout i p' hp'
    rw [Claims.get_eq_getK]
    have := r.val (claimKey g.apiGroup g.kind, n) (mem_groupsKeys.mpr ⟨g, hg, n, hn, rfl⟩)
    simpa using this
  · intro i a k n hget
    rw [Claims.get_eq_getK] at hget
    have hm : (claimKey a k, n) ∈ revsKeys prs' := (ClaimStep.of_nil hstep _).mp (by rw [hget]; rfl)
    obtain ⟨p', hp', hk⟩ := mem_revsKeys.mp hm
    obtain ⟨j, hj⟩ := List.getElem?_of_mem hp'
    obtain ⟨p, _, r⟩ := hout j p' hj
    have hv := r.val _ hk
    rw [hget] at hv
    obtain rfl : i = j := by simpa using hv
    obtain ⟨g, hg, n', hn', he⟩ := mem_groupsKeys.mp hk
    have e1 : claimKey a k = claimKey g.apiGroup g.kind := congrArg Prod.fst he
    have e2 : n = n' := congrArg Prod.snd he
    subst e2
    exact ⟨p', hj, g, hg, hn', e1.symm⟩

/-- C07 (claims, general invariant): for an arbitrary starting claim map `cl` and starting index `i`:
    the kept pairs were unclaimed in `cl`, are pairwise distinct, and a pair kept by the `j`-th revision
    is mapped to `i + j`; claims already in `cl` keep their value, and nothing else is added -/
theorem C07_claims_general (c : Cfg) (latestDesired : ObjMap) (prs prs' : List PRev) (i : Nat) (cl cl' : Claims)
    (h : syncRevisionClaims c latestDesired prs i cl = (prs', cl')) :
    (∀ κ ∈ keptKeys prs', cl.getK κ = none) ∧
    (keptKeys prs').Nodup ∧
    (∀ κ v, cl.getK κ = some v → cl'.getK κ = some v) ∧
    (∀ κ, κ ∉ keptKeys prs' → cl'.getK κ = cl.getK κ) ∧
    (∀ (j : Nat) (p' : PRev), prs'[j]? = some p' → ∀ g ∈ p'.children, ∀ n ∈ g.names,
        cl'.get g.apiGroup g.kind n = some (i + j)) := by
  have h1 : (syncRevisionClaims c latestDesired prs i cl).1 = prs' := by rw [h]
  have h2 : (syncRevisionClaims c latestDesired prs i cl).2 = cl' := by rw [h]
  have hstep := (syncRevisionClaims_spec c latestDesired prs i cl).1
  have hout := syncRevisionClaims_out c latestDesired prs i cl
  rw [h1] at hstep hout
  rw [h2] at hstep hout
  refine ⟨hstep.fresh, hstep.nodup, fun κ v hv => hstep.mono hv, hstep.frame, ?_⟩
  intro j p' hp' g hg n hn
  obtain ⟨p, _, r⟩ := hout j p' hp'
  rw [Claims.get_eq_getK]
  exact r.val (claimKey g.apiGroup g.kind, n) (mem_groupsKeys.mpr ⟨g, hg, n, hn, rfl⟩)

/-- C07 (claims, completeness): a name that is eligible in revision `i` (listed in one of its groups of
    a rolling kind, desired by the latest revision) is claimed by a revision at or before `i` -/
theorem C07_claims_complete (c : Cfg) (latestDesired : ObjMap) (prs prs' : List PRev) (cl' : Claims)
    (h : syncRevisionClaims c latestDesired prs 0 [] = (prs', cl'))
    (i : Nat) (p : PRev) (g : CGroup) (n : String)
    (hp : prs[i]? = some p) (hg : g ∈ p.children) (hn : n ∈ g.names)
    (hr : c.isRolling g.apiGroup g.kind = true)
    (hd : (latestDesired.findGK g.apiGroup g.kind n).isSome = true) :
    ∃ v, v ≤ i ∧ cl'.get g.apiGroup g.kind n = some v := by
  have h2 : (syncRevisionClaims c latestDesired prs 0 []).2 = cl' := by rw [h]
  obtain ⟨v, hv, _, hle⟩ := syncRevisionClaims_claims c latestDesired g n hr hn hd prs 0 [] i p hp hg rfl
  rw [h2] at hv
  exact ⟨v, by omega, hv⟩

/-- C07 (claims, the earlier revision wins): a name eligible in revision `i` whose key is not eligible in
    any earlier revision `j < i` is claimed by revision `i`, and revision `i` keeps it -/
theorem C07_claims_wins (c : Cfg) (latestDesired : ObjMap) (prs prs' : List PRev) (cl' : Claims)
    (h : syncRevisionClaims c latestDesired prs 0 [] = (prs', cl'))
    (i : Nat) (p : PRev) (g : CGroup) (n : String)
    (hp : prs[i]? = some p) (hg : g ∈ p.children) (hn : n ∈ g.names)
    (hr : c.isRolling g.apiGroup g.kind = true)
    (hd : (latestDesired.findGK g.apiGroup g.kind n).isSome = true)
    (hearlier : ∀ (j : Nat) (p2 : PRev), j < i → prs[j]? = some p2 → ∀ g2 ∈ p2.children,
        c.isRolling g2.apiGroup g2.kind = true → ∀ n2 ∈ g2.names,
        (latestDesired.findGK g2.apiGroup g2.kind n2).isSome = true →
        (claimKey g2.apiGroup g2.kind, n2) ≠ (claimKey g.apiGroup g.kind, n)) :
    cl'.get g.apiGroup g.kind n = some i ∧
    ∃ p', prs'[i]? = some p' ∧ ∃ g' ∈ p'.children, n ∈ g'.names ∧
      claimKey g'.apiGroup g'.kind = claimKey g.apiGroup g.kind := by
  obtain ⟨v, hvi, hv⟩ := C07_claims_complete c latestDesired prs prs' cl' h i p g n hp hg hn hr hd
  obtain ⟨ha, hlen, hb, _, _, hback⟩ := C07_claims_filtered c latestDesired prs prs' cl' h
  obtain ⟨p', hp', g', hg', hn', hk⟩ := hback v _ _ _ hv
  have hvi' : v = i := by
    apply Classical.byContradiction
    intro hne
    have hlt : v < i := by omega
    have hvlen : v < prs.length := by
      rw [← hlen]; exact (List.getElem?_eq_some_iff.mp hp').1
    obtain ⟨_, _, _, _, _, hsub⟩ := hb v prs[v] p' (List.getElem?_eq_getElem hvlen) hp'
    obtain ⟨g0, hg0, e1, e2, hs, _⟩ := hsub g' hg'
    obtain ⟨hd', hr'⟩ := ha p' (List.mem_of_getElem? hp') g' hg' n hn'
    rw [e1, e2] at hd' hr' hk
    exact hearlier v prs[v] hlt (List.getElem?_eq_getElem hvlen) g0 hg0 hr' n (hs.subset hn') hd'
      (by rw [hk])
  subst hvi'
  exact ⟨hv, p', hp', g', hg', hn', hk⟩

/-! ### non-vacuity: two revisions, the latest first

  `Cfg.isRolling` goes through `String.splitOn` (via `apiGroup`), which does not reduce; the examples
  therefore name the API group `apiGroup "apps/v1"` without evaluating it. -/

namespace Ex18

def apps : String := apiGroup "apps/v1"
def core : String := apiGroup "v1"
/-- Deployments roll in place; ConfigMaps have no update strategy -/
def cfg0 : Cfg :=
  { (default : Cfg) with
    children := [{ apiVersion := "apps/v1", resource := "deployments", kind := "Deployment", namespaced := true,
                   hasStatus := true, method := some "RollingInPlace" },
                 { apiVersion := "v1", resource := "configmaps", kind := "ConfigMap", namespaced := true,
                   hasStatus := false, method := none }] }
def d0 : ObjMap := [({ group := apps, version := "v1", kind := "Deployment" }, [("a", .null), ("b", .null)])]
def dep (names : List String) : CGroup := { apiGroup := apps, kind := "Deployment", names := names }
def cm (names : List String) : CGroup := { apiGroup := core, kind := "ConfigMap", names := names }
/-- latest revision: Deployments `a`, `gone` (no longer desired) and a ConfigMap (not a rolling kind);
    older revision: Deployments `a` (already held by the latest) and `b` -/
def prs0 : List PRev := [{ (default : PRev) with children := [dep ["a", "gone"], cm ["x"]] },
                         { (default : PRev) with children := [dep ["a", "b"]] }]

theorem rolling_dep : cfg0.isRolling apps "Deployment" = true := by
  simp [Cfg.isRolling, Cfg.strategy, cfg0, ChildRes.group, apps, isRollingMethod]

theorem rolling_cm : cfg0.isRolling core "ConfigMap" = false := by
  simp [Cfg.isRolling, Cfg.strategy, cfg0, ChildRes.group, core]

-- the latest revision keeps `a`, the older one only `b`; `gone` and the ConfigMap group are dropped
example :
    (syncRevisionClaims cfg0 d0 prs0 0 []).1.map (·.children) = [[dep ["a"]], [dep ["b"]]] ∧
    (syncRevisionClaims cfg0 d0 prs0 0 []).2 =
      [((claimKey apps "Deployment", "a"), 0), ((claimKey apps "Deployment", "b"), 1)] := by
  simp [syncRevisionClaims, filterGroups, filterNames, prs0, dep, cm, rolling_dep, rolling_cm, d0, ObjMap.findGK,
    Claims.get, Claims.set, List.lookup]

-- with no rolling kind configured every claim is dropped
example : (syncRevisionClaims { (default : Cfg) with children := [] } d0 prs0 0 []).1.map (·.children) = [[], []] := by
  rfl

-- the hypotheses of `C07_claims_complete` / `C07_claims_wins` hold for `b` in the older revision
example : (syncRevisionClaims cfg0 d0 prs0 0 []).2.get apps "Deployment" "b" = some 1 := by
  refine (C07_claims_wins cfg0 d0 prs0 _ _ rfl 1 { (default : PRev) with children := [dep ["a", "b"]] }
    (dep ["a", "b"]) "b" rfl (by simp) (by simp [dep]) rolling_dep (by simp [d0, dep, ObjMap.findGK, List.lookup]) ?_).1
  intro j p2 hj hp2 g2 hg2 hr2 n2 hn2 hd2
  obtain rfl : j = 0 := by omega
  obtain rfl : p2 = { (default : PRev) with children := [dep ["a", "gone"], cm ["x"]] } := by
    simpa [prs0] using hp2.symm
  simp only [List.mem_cons, List.not_mem_nil, or_false] at hg2
  rcases hg2 with rfl | rfl
  · simp only [dep, List.mem_cons, List.not_mem_nil, or_false] at hn2
    rcases hn2 with rfl | rfl
    · simp [dep]
    · simp [dep]
  · rw [show (cm ["x"]).apiGroup = core from rfl, show (cm ["x"]).kind = "ConfigMap" from rfl, rolling_cm] at hr2
    exact absurd hr2 (by simp)

end Ex18

end Mc.C07
