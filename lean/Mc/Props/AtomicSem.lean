import Mc.Props.C02Sem
import Mc.Sync.Composite
/-
  Read-modify-write (`AtomicUpdate`, `AtomicStatusUpdate`, `UpdateWithRetries`) in the closed world:
  every write that the API server accepts applies the edit to the object that is live at that moment -
  not to a cached or an earlier version - whatever other clients do between the GET and the PUT.
  This is what makes the finalizer edits (C10), adoption and release (C04), the parent status (C11) and
  the decorator's label/annotation edits (C16) minimal on the *live* object.
-/
namespace Mc
namespace Atomic
open Api C02

variable {hook : String → J → Resp}

theorem exec_request_bind {α : Type} (q : Req) (f : Resp → Prog α) (s : State) (log : List (State × Req × Resp)) (a : α) (s' : State)
    (hex : Exec hook (Prog.request q >>= f) s log a s') :
    ∃ env log', log = (s.execs env, q, (worldStep hook (s.execs env) q).1) :: log' ∧
      Exec hook (f (worldStep hook (s.execs env) q).1) (worldStep hook (s.execs env) q).2 log' a s' := by
  have hex' : Exec hook (.call q (fun x => Prog.bind (.ret x) f)) s log a s' := hex
  cases hex' with
  | call _ _ _ env log' _ _ hrest => exact ⟨env, log', rfl, hrest⟩

theorem exec_ret {α : Type} (x : α) (s : State) (log : List (State × Req × Resp)) (a : α) (s' : State)
    (hex : Exec hook (.ret x) s log a s') : log = [] := by
  cases hex; rfl

/-- a GET answers with the live object and changes nothing that can be found -/
theorem get_answer (s : State) (t : Target) (cur : J) (h : (worldStep hook s (.api .get t .null .null)).1 = .obj cur) :
    s.find t = some cur := by
  simp only [worldStep, State.request] at h
  cases hd : s.defOf t with
  | none => simp [hd, fail, Out.toResp, Out.ok] at h
  | some d =>
    simp only [hd, handle, Api.get] at h
    cases hf : s.find t with
    | none => simp [hf, fail, Out.toResp, Out.ok] at h
    | some c =>
      simp [hf, Out.toResp, Out.ok] at h
      rw [h]

theorem worldStep_api_evolves (s : State) (v : Verb) (t : Target) (body opts : J) :
    (worldStep hook s (.api v t body opts)).2 = s.exec ⟨v, t, body, opts⟩ := rfl

/-- **linearizable read-modify-write**: in every execution of the retry loop among other clients, an accepted
    write carries `f cur` for the object `cur` that is stored under the target at the moment of acceptance, and
    that object has the expected UID -/
theorem atomicLoop_accepted (t : Target) (uid : String) (f : J → Option J) (verb : Verb) (gone : String)
    (hverb : verb = .update ∨ verb = .updateStatus)
    (hf : ∀ c u, f c = some u → mstr u "resourceVersion" = mstr c "resourceVersion") :
    ∀ (n : Nat) (s : State), Inv s → ∀ (log : List (State × Req × Resp)) (a : Except String J) (s' : State),
      Exec hook (atomicLoop t uid f verb gone n) s log a s' →
      ∀ e ∈ log, ∀ body opts x, e.2.1 = .api verb t body opts → e.2.2 = .obj x →
        ∃ cur, e.1.find t = some cur ∧ f cur = some body ∧ getUID cur = uid := by
  intro n
  induction n with
  | zero =>
    intro s _ log a s' hex e he
    rw [atomicLoop] at hex
    rw [exec_ret _ _ _ _ _ hex] at he; cases he
  | succ n ih =>
    intro s hinv log a s' hex e he body opts x hreq hresp
    rw [atomicLoop] at hex
    obtain ⟨env1, log1, rfl, hex1⟩ := exec_request_bind _ _ _ _ _ _ hex
    have hinv1 : Inv (s.execs env1) := inv_execs env1 s hinv
    rcases List.mem_cons.mp he with rfl | he1
    · -- the GET itself is not a write
      simp only at hreq
      cases hreq
      rcases hverb with h | h <;> cases h
    · generalize hr : (worldStep hook (s.execs env1) (.api .get t .null .null)).1 = r at hex1
      cases r with
      | obj cur =>
        have hcur := get_answer (hook := hook) _ t cur hr
        simp only [] at hex1
        split at hex1
        · rw [exec_ret _ _ _ _ _ hex1] at he1; cases he1
        · rename_i huid
          cases hfc : f cur with
          | none =>
            simp only [hfc] at hex1
            rw [exec_ret _ _ _ _ _ hex1] at he1; cases he1
          | some upd =>
            simp only [hfc] at hex1
            obtain ⟨env2, log2, rfl, hex2⟩ := exec_request_bind _ _ _ _ _ _ hex1
            rcases List.mem_cons.mp he1 with rfl | he2
            · simp only at hreq hresp
              cases hreq
              refine ⟨cur, ?_, hfc, by simpa using huid⟩
              -- the state the PUT met, seen from the state the GET met
              show ((s.execs env1).execs (⟨.get, t, .null, .null⟩ :: env2)).find t = some cur
              have hresp' : (((s.execs env1).execs (⟨.get, t, .null, .null⟩ :: env2)).request verb t body .null).1.toResp = .obj x := hresp
              have hok := toResp_ok hresp'
              rcases hverb with h | h <;> subst h
              · exact (C02_update_lands_on_observed _ hinv1 t cur hcur _ t body .null (hf cur body hfc) hok).2
              · exact (C02_status_update_lands_on_observed _ hinv1 t cur hcur _ t body .null (hf cur body hfc) hok).2
            · -- later entries: only after a Conflict with retries left
              have hinv2 : Inv ((((s.execs env1).exec ⟨.get, t, .null, .null⟩).execs env2).exec ⟨verb, t, upd, .null⟩) :=
                inv_exec _ _ (inv_execs env2 _ (inv_exec _ _ hinv1))
              have hex2' : Exec hook _ ((((s.execs env1).exec ⟨.get, t, .null, .null⟩).execs env2).exec ⟨verb, t, upd, .null⟩) log2 a s' := hex2
              clear hex2
              generalize (worldStep hook ((worldStep hook (s.execs env1) (.api .get t .null .null)).2.execs env2) (.api verb t upd .null)).1 = r2 at hex2'
              have hex2 := hex2'
              split at hex2
              · rw [exec_ret _ _ _ _ _ hex2] at he2; cases he2
              · split at hex2
                · rw [exec_ret _ _ _ _ _ hex2] at he2; cases he2
                · exact ih _ hinv2 _ _ _ hex2 e he2 body opts x hreq hresp
              · rw [exec_ret _ _ _ _ _ hex2] at he2; cases he2
              · rw [exec_ret _ _ _ _ _ hex2] at he2; cases he2
      | err e' => simp only [] at hex1; rw [exec_ret _ _ _ _ _ hex1] at he1; cases he1
      | hookOk b => simp only [] at hex1; rw [exec_ret _ _ _ _ _ hex1] at he1; cases he1
      | hookErr k => simp only [] at hex1; rw [exec_ret _ _ _ _ _ hex1] at he1; cases he1
      | hook429 k => simp only [] at hex1; rw [exec_ret _ _ _ _ _ hex1] at he1; cases he1

end Atomic
end Mc

namespace Mc
namespace Atomic
open Api C02

/-! ### the edits metacontroller makes keep the resourceVersion of the object they were applied to -/

theorem mstr_of_meta_obj (o : J) (k : String) (inner : KVs) (h : lookup "metadata" o.fields = some (.obj inner)) :
    mstr o k = strOpt (lookup k inner) := by
  unfold mstr metaOf; rw [h]

theorem mstr_of_meta_none (o : J) (k : String) (h : lookup "metadata" o.fields = none) :
    mstr o k = strOpt (lookup k []) := by
  unfold mstr metaOf; rw [h]

theorem mstr_setNested_meta (o v : J) (k k' : String) (h : k ≠ k') :
    mstr (match setNestedField o v ["metadata", k'] with | .ok o' => o' | .error _ => o) k = mstr o k := by
  cases hm : lookup "metadata" o.fields with
  | none =>
    simp only [setNestedField, setNestedFieldKVs, hm]
    rw [mstr_of_meta_none o k hm]
    show mstr (withMeta o _) k = _
    rw [mstr_withMeta, lookup_setKey_other _ _ _ _ h]
  | some m =>
    cases m with
    | obj inner =>
      simp only [setNestedField, setNestedFieldKVs, hm]
      rw [mstr_of_meta_obj o k inner hm]
      show mstr (withMeta o _) k = _
      rw [mstr_withMeta, lookup_setKey_other _ _ _ _ h]
    | null => simp only [setNestedField, setNestedFieldKVs, hm]
    | bool b => simp only [setNestedField, setNestedFieldKVs, hm]
    | num n => simp only [setNestedField, setNestedFieldKVs, hm]
    | str s => simp only [setNestedField, setNestedFieldKVs, hm]
    | arr xs => simp only [setNestedField, setNestedFieldKVs, hm]

theorem mstr_setFinalizers (o : J) (fs : List String) (k : String) (h : k ≠ "finalizers") :
    mstr (setFinalizers o fs) k = mstr o k := mstr_setNested_meta o _ k "finalizers" h

theorem mstr_setOwnerRefs (o : J) (refs : List OwnerRef) (k : String) (h : k ≠ "ownerReferences") :
    mstr (setOwnerRefs o refs) k = mstr o k := mstr_setNested_meta o _ k "ownerReferences" h

theorem mstr_removeNested_meta (o : J) (k k' : String) (h : k ≠ k') :
    mstr (removeNestedField o ["metadata", k']) k = mstr o k := by
  cases hm : lookup "metadata" o.fields with
  | none =>
    simp only [removeNestedField, removeNestedFieldKVs, hm]
    exact mstr_of_metaOf_eq (metaOf_obj_fields o) k
  | some m =>
    cases m with
    | obj inner =>
      simp only [removeNestedField, removeNestedFieldKVs, hm]
      rw [mstr_of_meta_obj o k inner hm]
      show mstr (withMeta o _) k = _
      rw [mstr_withMeta, lookup_eraseKey, if_neg h]
    | null => simp only [removeNestedField, removeNestedFieldKVs, hm]; exact mstr_of_metaOf_eq (metaOf_obj_fields o) k
    | bool b => simp only [removeNestedField, removeNestedFieldKVs, hm]; exact mstr_of_metaOf_eq (metaOf_obj_fields o) k
    | num n => simp only [removeNestedField, removeNestedFieldKVs, hm]; exact mstr_of_metaOf_eq (metaOf_obj_fields o) k
    | str s => simp only [removeNestedField, removeNestedFieldKVs, hm]; exact mstr_of_metaOf_eq (metaOf_obj_fields o) k
    | arr xs => simp only [removeNestedField, removeNestedFieldKVs, hm]; exact mstr_of_metaOf_eq (metaOf_obj_fields o) k

theorem addFinalizerEdit_rv (name : String) (c u : J) (h : addFinalizerEdit name c = some u) :
    mstr u "resourceVersion" = mstr c "resourceVersion" := by
  unfold addFinalizerEdit at h
  split at h
  · cases h
  · cases h; exact mstr_setFinalizers _ _ _ (by decide)

theorem removeFinalizerEdit_rv (name : String) (c u : J) (h : removeFinalizerEdit name c = some u) :
    mstr u "resourceVersion" = mstr c "resourceVersion" := by
  unfold removeFinalizerEdit at h
  split at h
  · cases h
  · cases h; exact mstr_setFinalizers _ _ _ (by decide)

theorem setRefs_rv (cx : ClaimCtx) (c : J) (refs : List OwnerRef) :
    mstr (cx.setRefs c refs) "resourceVersion" = mstr c "resourceVersion" := by
  unfold ClaimCtx.setRefs
  split
  · exact mstr_removeNested_meta _ _ _ (by decide)
  · exact mstr_setOwnerRefs _ _ _ (by decide)

/-! ### corollaries per property -/

/-- **C10 (semantic)**: whenever the finalizer phase gets a write accepted - in any execution among other clients,
    whatever the cached parent looked like - the body is the *live* parent with this controller's finalizer
    appended (it was absent) or filtered out (it was present); everything else of the live parent is kept, and
    the live parent has the UID of the one the sync started from -/
theorem C10_finalizer_edit_on_live (hook : String → J → Resp) (fz : Finalizer) (t : Target) (obj : J) (s : State) (hinv : Inv s)
    (log : List (State × Req × Resp)) (a : Except String J) (s' : State)
    (hex : Exec hook (fz.syncObject t obj) s log a s') :
    ∀ e ∈ log, ∀ body opts x, e.2.1 = .api .update t body opts → e.2.2 = .obj x →
      ∃ cur, e.1.find t = some cur ∧ getUID cur = getUID obj ∧
        ((hasFinalizer cur fz.name = false ∧ fz.enabled = true ∧ isDeleting obj = false ∧
            body = setFinalizers cur (getFinalizers cur ++ [fz.name])) ∨
         (hasFinalizer cur fz.name = true ∧ fz.enabled = false ∧
            body = setFinalizers cur ((getFinalizers cur).filter (· != fz.name)))) := by
  intro e he body opts x hreq hresp
  unfold Finalizer.syncObject at hex
  split at hex
  · rw [exec_ret _ _ _ _ _ hex] at he; cases he
  · split at hex
    · rename_i hen
      split at hex
      · rw [exec_ret _ _ _ _ _ hex] at he; cases he
      · rename_i hdel
        obtain ⟨cur, h1, h2, h3⟩ := atomicLoop_accepted (hook := hook) t (getUID obj) (addFinalizerEdit fz.name) .update "NotFound"
          (.inl rfl) (addFinalizerEdit_rv fz.name) retrySteps s hinv log a s' hex e he body opts x hreq hresp
        refine ⟨cur, h1, h3, .inl ?_⟩
        unfold addFinalizerEdit at h2
        split at h2
        · cases h2
        · rename_i hh
          cases h2
          exact ⟨by simpa using hh, hen, by simpa using hdel, rfl⟩
    · rename_i hen
      obtain ⟨cur, h1, h2, h3⟩ := atomicLoop_accepted (hook := hook) t (getUID obj) (removeFinalizerEdit fz.name) .update "NotFound"
        (.inl rfl) (removeFinalizerEdit_rv fz.name) retrySteps s hinv log a s' hex e he body opts x hreq hresp
      refine ⟨cur, h1, h3, .inr ?_⟩
      unfold removeFinalizerEdit at h2
      split at h2
      · cases h2
      · rename_i hh
        cases h2
        exact ⟨by simpa using hh, by simpa using hen, rfl⟩

/-- **C04 (semantic), release**: an accepted release writes the live object with exactly the references whose UID is
    the parent's removed - references others added after the cache was filled are kept -/
theorem C04_release_on_live (hook : String → J → Resp) (cx : ClaimCtx) (obj : J) (s : State) (hinv : Inv s)
    (log : List (State × Req × Resp)) (a : Except String J) (s' : State)
    (hex : Exec hook (atomicLoop (cx.childT obj) (getUID obj)
      (fun cur => some (cx.setRefs cur (removeOwnerReference (getOwnerRefs cur) (getUID cx.parent)))) .update cx.goneReason retrySteps) s log a s') :
    ∀ e ∈ log, ∀ body opts x, e.2.1 = .api .update (cx.childT obj) body opts → e.2.2 = .obj x →
      ∃ cur, e.1.find (cx.childT obj) = some cur ∧ getUID cur = getUID obj ∧
        body = cx.setRefs cur ((getOwnerRefs cur).filter (·.uid != getUID cx.parent)) := by
  intro e he body opts x hreq hresp
  obtain ⟨cur, h1, h2, h3⟩ := atomicLoop_accepted (hook := hook) _ _ _ .update _ (.inl rfl)
    (fun c u h => by cases h; exact setRefs_rv cx c _) retrySteps s hinv log a s' hex e he body opts x hreq hresp
  cases h2
  exact ⟨cur, h1, h3, rfl⟩

/-- **C04 (semantic), adoption**: an accepted adoption writes the live object with the parent's controller
    reference added to (or replacing the parent's entry in) the references it has at that moment -/
theorem C04_adopt_on_live (hook : String → J → Resp) (cx : ClaimCtx) (obj : J) (s : State) (hinv : Inv s)
    (log : List (State × Req × Resp)) (a : Except String J) (s' : State)
    (hex : Exec hook (atomicLoop (cx.childT obj) (getUID obj)
      (fun cur => some (cx.setRefs cur (addOwnerReference (getOwnerRefs cur) cx.parentRef))) .update cx.goneReason retrySteps) s log a s') :
    ∀ e ∈ log, ∀ body opts x, e.2.1 = .api .update (cx.childT obj) body opts → e.2.2 = .obj x →
      ∃ cur, e.1.find (cx.childT obj) = some cur ∧ getUID cur = getUID obj ∧
        body = cx.setRefs cur (addOwnerReference (getOwnerRefs cur) cx.parentRef) := by
  intro e he body opts x hreq hresp
  obtain ⟨cur, h1, h2, h3⟩ := atomicLoop_accepted (hook := hook) _ _ _ .update _ (.inl rfl)
    (fun c u h => by cases h; exact setRefs_rv cx c _) retrySteps s hinv log a s' hex e he body opts x hreq hresp
  cases h2
  exact ⟨cur, h1, h3, rfl⟩

/-- **C11 (semantic)**: an accepted parent-status write is the live parent - the one with the UID of the parent the
    hooks were sent, never a same-named successor - with `.status` replaced by hook status + observedGeneration and
    nothing else touched; it is only sent when the live status differs -/
theorem C11_status_on_live (hook : String → J → Resp) (c : Cfg) (parent : J) (status : Option KVs) (s : State) (hinv : Inv s)
    (log : List (State × Req × Resp)) (a : Except String J) (s' : State)
    (hex : Exec hook (updateParentStatus c parent status) s log a s') :
    let st : J := .obj (setKey "observedGeneration" (.num (getGeneration parent)) (status.getD []))
    let verb : Verb := if c.parentHasStatus then .updateStatus else .update
    ∀ e ∈ log, ∀ body opts x, e.2.1 = .api verb (c.parentTarget parent) body opts → e.2.2 = .obj x →
      ∃ cur, e.1.find (c.parentTarget parent) = some cur ∧ getUID cur = getUID parent ∧
        body = .obj (setKey "status" st cur.fields) ∧ ((cur.get? "status").getD .null).eqv st = false := by
  intro st verb e he body opts x hreq hresp
  unfold updateParentStatus at hex
  have hv : verb = .update ∨ verb = .updateStatus := by
    show (if c.parentHasStatus then Verb.updateStatus else Verb.update) = _ ∨ (if c.parentHasStatus then Verb.updateStatus else Verb.update) = _
    split <;> simp
  obtain ⟨cur, h1, h2, h3⟩ := atomicLoop_accepted (hook := hook) _ _ _ verb _ hv
    (fun c' u h => by
      split at h
      · cases h
      · cases h
        exact mstr_of_metaOf_eq (metaOf_setKey_other _ _ _ (by decide)) _)
    retrySteps s hinv log a s' hex e he body opts x hreq hresp
  refine ⟨cur, h1, h3, ?_⟩
  split at h2
  · cases h2
  · rename_i hne
    cases h2
    exact ⟨rfl, by simpa using hne⟩

end Atomic
end Mc
