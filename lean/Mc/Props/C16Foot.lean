import Mc.Proofs.SyncFootprint
import Mc.Sync.Decorator
import Mc.Proofs.JsonLemmas
/-
  C16, the footprint of the decorator on its target, as a theorem about every request body `decoratorParentUpdate`
  builds: whatever the hook answered, the body of the status write and of the object write is the target the sync
  holds with nothing changed but `status`, `metadata.labels`, `metadata.annotations`, `metadata.finalizers` and
  `metadata.resourceVersion` (the version returned by the status write) - spec, every other top-level field and every
  other metadata field are those of the target.  Which label / annotation keys change is `C16_string_map_pointwise`.
-/
namespace Mc
namespace C16
open Prog

/-- the metadata fields a decorator may write -/
def ownMeta : List String := ["labels", "annotations", "finalizers", "resourceVersion"]

/-- `y` is `x` with nothing changed outside `status` and the four metadata fields of `ownMeta` -/
def Foot (x y : J) : Prop :=
  ∃ xs ys mx my, x = .obj xs ∧ y = .obj ys ∧ lookup "metadata" xs = some (.obj mx) ∧ lookup "metadata" ys = some (.obj my) ∧
    (∀ k, k ≠ "metadata" → k ≠ "status" → lookup k ys = lookup k xs) ∧
    (∀ f, f ∉ ownMeta → lookup f my = lookup f mx)

theorem Foot.refl (xs mx : KVs) (h : lookup "metadata" xs = some (.obj mx)) : Foot (.obj xs) (.obj xs) :=
  ⟨xs, xs, mx, mx, rfl, rfl, h, h, fun _ _ _ => rfl, fun _ _ => rfl⟩

theorem Foot.trans {x y z : J} (h1 : Foot x y) (h2 : Foot y z) : Foot x z := by
  obtain ⟨xs, ys, mx, my, hx, hy, hmx, hmy, ha, hb⟩ := h1
  obtain ⟨ys', zs, my', mz, hy', hz, hmy', hmz, ha', hb'⟩ := h2
  rw [hy] at hy'; cases hy'
  rw [hmy] at hmy'; cases hmy'
  exact ⟨xs, zs, mx, mz, hx, hz, hmx, hmz, fun k h1 h2 => (ha' k h1 h2).trans (ha k h1 h2), fun f hf => (hb' f hf).trans (hb f hf)⟩

/-- writing one of the four metadata fields stays inside the footprint -/
theorem foot_setMeta (x y v : J) (f : String) (hf : f ∈ ownMeta) (hx : Foot x x)
    (h : setNestedField x v ["metadata", f] = .ok y) : Foot x y := by
  obtain ⟨xs, _, mx, _, rfl, hx2, hmx, _, _, _⟩ := hx
  simp only [setNestedField, setNestedFieldKVs, J.fields, hmx] at h
  cases h
  refine ⟨xs, _, mx, setKey f v mx, rfl, rfl, hmx, lookup_setKey_same _ _ _, ?_, ?_⟩
  · intro k hk _; exact lookup_setKey_other _ _ _ _ hk
  · intro f' hf'
    have : f' ≠ f := by intro e; rw [e] at hf'; exact hf' hf
    exact lookup_setKey_other _ _ _ _ this

theorem foot_setStringMap (x : J) (f : String) (m : KVs) (hf : f ∈ ownMeta) (hx : Foot x x) :
    Foot x (setStringMapAt x ["metadata", f] (some m)) := by
  unfold setStringMapAt
  simp only
  cases h : setNestedField x (.obj m) ["metadata", f] with
  | ok y => exact foot_setMeta x y _ f hf hx h
  | error e => exact hx

theorem foot_setFinalizers (x : J) (fs : List String) (hx : Foot x x) : Foot x (setFinalizers x fs) := by
  unfold setFinalizers
  cases h : setNestedField x (.arr (fs.map .str)) ["metadata", "finalizers"] with
  | ok y => exact foot_setMeta x y _ "finalizers" (by simp [ownMeta]) hx h
  | error e => exact hx

theorem foot_setStatus (x y v : J) (hx : Foot x x) (h : setNestedField x v ["status"] = .ok y) : Foot x y := by
  obtain ⟨xs, _, mx, _, rfl, _, hmx, _, _, _⟩ := hx
  simp only [setNestedField, setNestedFieldKVs, J.fields] at h
  cases h
  refine ⟨xs, _, mx, mx, rfl, rfl, hmx, ?_, ?_, fun _ _ => rfl⟩
  · rw [lookup_setKey_other _ _ _ _ (by decide)]; exact hmx
  · intro k _ hk; exact lookup_setKey_other _ _ _ _ hk

theorem Foot.right {x y : J} (h : Foot x y) : Foot y y := by
  obtain ⟨_, ys, _, my, _, hy, _, hmy, _, _⟩ := h
  rw [hy]; exact Foot.refl ys my hmy

theorem allCalls_bind_ofExcept {α β : Type} {P : Req → Prop} (e : Except String α) (f : α → PE β)
    (h : ∀ a, e = .ok a → AllCalls P (f a)) : AllCalls P (PE.bind (PE.ofExcept e) f) := by
  cases e with
  | error m => exact .ret _
  | ok a => exact h a rfl

/-- **C16 (footprint)**: every request `decoratorParentUpdate` sends - the status write and the object write, for every
    hook answer, with or without a status subresource, finalizing or not - carries a body that is the target the sync
    holds with nothing changed outside `status`, `metadata.labels`, `metadata.annotations`, `metadata.finalizers` and
    `metadata.resourceVersion`: `spec`, every other top-level field and every other metadata field (name, namespace,
    UID, owner references, generation, deletion time stamp, ...) are the target's -/
theorem C16_parent_bodies (c : DCfg) (rule : ParentRes) (parent : J) (resp : DecResp) (hp : Foot parent parent) :
    AllCalls (fun q => ∀ v t' b o, q = .api v t' b o → Foot parent b) (decoratorParentUpdate c rule parent resp) := by
  unfold decoratorParentUpdate
  dsimp -zeta only
  extract_lets t pl pa ps u1 u2 jp
  apply PE.allCalls_bind (PE.allCalls_ofExcept _)
  intro parentStatus
  extract_lets ns sc stJ
  have f1 : Foot parent u1 := foot_setStringMap parent "labels" _ (by simp [ownMeta]) hp
  have f2 : Foot parent u2 := f1.trans (foot_setStringMap u1 "annotations" _ (by simp [ownMeta]) f1.right)
  have hjp : ∀ x, (∀ u', x = some u' → Foot parent u') →
      AllCalls (fun q => ∀ v t' b o, q = .api v t' b o → Foot parent b) (jp x) := by
    intro x hx
    unfold jp
    split
    · exact .ret _
    · rename_i u'
      extract_lets u''
      have fu : Foot parent u'' := by
        unfold u''
        split
        · split
          · exact (hx _ rfl).trans (foot_setFinalizers _ _ (hx _ rfl).right)
          · exact hx _ rfl
        · exact hx _ rfl
      apply PE.allCalls_bind (PE.allCalls_lift (.request ?_))
      · pe_auto
      · intro v t' b o h; cases h; exact fu
  split
  · apply allCalls_bind_ofExcept
    intro u hu
    have fu : Foot parent u := f2.trans (foot_setStatus u2 u _ f2.right hu)
    split
    · apply PE.allCalls_bind (PE.allCalls_lift (.request ?_))
      · intro r
        split
        · rename_i res
          refine hjp (some _) ?_
          intro u' h
          cases h
          cases hr : setNestedField u (J.str (getResourceVersion res)) ["metadata", "resourceVersion"] with
          | ok y => exact fu.trans (foot_setMeta u y _ "resourceVersion" (by simp [ownMeta]) fu.right hr)
          | error e => exact fu
        · exact hjp none (by intro u' h; cases h)
        · exact hjp none (by intro u' h; cases h)
        · exact .ret _
        · exact .ret _
      · intro v t' b o h; cases h; exact fu
    · exact hjp (some u) (by intro u' h; cases h; exact fu)
  · exact .ret _

-- non-vacuity: a target with a metadata map satisfies the hypothesis
example : Foot (.obj [("metadata", .obj [("name", .str "t1"), ("uid", .str "u1")]), ("spec", .obj [("x", .num 1)])])
               (.obj [("metadata", .obj [("name", .str "t1"), ("uid", .str "u1")]), ("spec", .obj [("x", .num 1)])]) :=
  Foot.refl _ _ rfl
-- and the footprint is not trivial: a changed spec is outside it
example : ¬ Foot (.obj [("metadata", .obj []), ("spec", .num 1)]) (.obj [("metadata", .obj []), ("spec", .num 2)]) := by
  rintro ⟨xs, ys, mx, my, hx, hy, _, _, ha, _⟩
  cases hx; cases hy
  have := ha "spec" (by decide) (by decide)
  simp [lookup] at this

end C16
end Mc
