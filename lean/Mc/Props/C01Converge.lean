import Mc.Props.C01Closed
import Mc.Proofs.ApplyFix
import Mc.Props.C01
/-
  C01, field level, for the create path: the object the API server stores for a create sent by `ManageChildren`
  is a fixpoint of `ApplyUpdate` for the same desired object - so the next sync, working from a cache that shows
  exactly that object, decides "nothing to do" for it, whatever the update strategy.
-/
namespace Mc
namespace C01
open Api C05

theorem Ext_refl (mks : List String) : ∀ v : J, hypJ mks v = true → Ext v v := by
  intro v
  induction v using J.induct with
  | hnull => intro _; simp [Ext, J.isArr]
  | hbool b => intro _; simp [Ext]
  | hnum n => intro _; simp [Ext]
  | hstr s => intro _; simp [Ext]
  | harr xs _ => intro _; simp [Ext]
  | hobj kvs ih =>
    intro h
    obtain ⟨hu, hf⟩ := (hypJ_obj mks kvs).mp h
    simp only [Ext]
    refine ⟨kvs, rfl, ExtF_of_mem kvs kvs ?_⟩
    intro k v hm
    exact ⟨v, lookup_of_mem_uniq kvs k v hu hm, ih k v hm (hf k v hm)⟩

/-- what the hook's desired child has to look like for the statement below: an object with a metadata map that sets
    none of the fields the API server or metacontroller own, no annotations, no status -/
structure PlainChild (d : ResDef) (t : Target) (ds dm : KVs) : Prop where
  hmeta : lookup "metadata" ds = some (.obj dm)
  hstatus : lookup "status" ds = none
  hann : lookup "annotations" dm = none
  hrefs : lookup "ownerReferences" dm = none
  huid : lookup "uid" dm = none
  hrv : lookup "resourceVersion" dm = none
  hgen : lookup "generation" dm = none
  hcre : lookup "creationTimestamp" dm = none
  hdel : lookup "deletionTimestamp" dm = none
  hns : d.namespaced = true → ∀ v, lookup "namespace" dm = some v → v = .str t.ns

/-- the body `ManageChildren` sends for such a child -/
theorem createBody_plain (ref : OwnerRef) (d : ResDef) (t : Target) (ds dm : KVs) (h : PlainChild d t ds dm) :
    createBody ref (.obj ds) = .obj (setKey "metadata" (.obj (setKey "ownerReferences" (.arr [ref.toJ])
      (setKey "annotations" (.obj [(lastAppliedAnnotation, .obj ds)]) dm)))
      (setKey "metadata" (.obj (setKey "annotations" (.obj [(lastAppliedAnnotation, .obj ds)]) dm)) ds)) := by
  have hga : getAnnotations (.obj ds) = none := by
    unfold getAnnotations stringMapAt
    rw [nestedField_meta ds dm "annotations" h.hmeta, h.hann]
  have hb1 : setLastApplied (.obj ds) (.obj ds) =
      .obj (setKey "metadata" (.obj (setKey "annotations" (.obj [(lastAppliedAnnotation, .obj ds)]) dm)) ds) := by
    unfold setLastApplied setStringMapAt
    simp [hga, setNestedField, setNestedFieldKVs, J.fields, h.hmeta, setKey]
  unfold createBody
  simp only [hb1]
  have hrefs : getOwnerRefs (.obj (setKey "metadata" (.obj (setKey "annotations" (.obj [(lastAppliedAnnotation, .obj ds)]) dm)) ds)) = [] := by
    unfold getOwnerRefs
    rw [nestedField_meta _ _ "ownerReferences" (lookup_setKey_same _ _ _), lookup_setKey_other _ _ _ _ (by decide), h.hrefs]
  rw [hrefs]
  unfold setOwnerRefs
  simp [setNestedField, setNestedFieldKVs, J.fields, lookup_setKey_same]

/-! ### the stored object -/

theorem created_obj (d : ResDef) (t : Target) (body : J) (f : Fresh) :
    ∃ os, created d t body f false = .obj os ∧ lookup "metadata" os = some (.obj (metaOf (created d t body f false))) ∧
      ∀ k, k ≠ "metadata" → lookup k os = if d.hasStatus = true ∧ k = "status" then none else lookup k body.fields := by
  unfold created
  simp only [Bool.false_eq_true, if_false]
  generalize (eraseKey "deletionTimestamp" _ : KVs) = m5
  by_cases hs : d.hasStatus = true
  · simp only [hs, if_true]
    refine ⟨_, rfl, ?_, ?_⟩
    · rw [metaOf_eraseKey_other _ _ (by decide), metaOf_obj_fields, metaOf_withMeta]
      rw [lookup_eraseKey, if_neg (by decide)]
      exact lookup_setKey_same _ _ _
    · intro k hk
      rw [lookup_eraseKey]
      by_cases e : k = "status"
      · simp [e]
      · simp only [e, if_false, and_false]
        show lookup k (setKey "metadata" _ body.fields) = _
        rw [lookup_setKey_other _ _ _ _ hk]
  · have hs' : d.hasStatus = false := by simpa using hs
    simp only [hs', Bool.false_eq_true, if_false]
    refine ⟨_, rfl, ?_, ?_⟩
    · rw [metaOf_withMeta]
      exact lookup_setKey_same _ _ _
    · intro k hk
      simp only [false_and, if_false]
      show lookup k (setKey "metadata" _ body.fields) = _
      rw [lookup_setKey_other _ _ _ _ hk]

theorem created_namespace (d : ResDef) (t : Target) (body : J) (f : Fresh) :
    lookup "namespace" (metaOf (created d t body f false)) =
      if d.namespaced = true then some (.str t.ns) else lookup "namespace" (metaOf body) := by
  unfold created
  have key : ∀ m : KVs, metaOf (if d.hasStatus then J.obj (eraseKey "status" (withMeta body m).fields) else withMeta body m) = m := by
    intro m
    split
    · rw [metaOf_eraseKey_other _ _ (by decide), metaOf_obj_fields, metaOf_withMeta]
    · exact metaOf_withMeta _ _
  simp only [Bool.false_eq_true, if_false]
  rw [key, lookup_eraseKey, if_neg (by decide)]
  rw [lookup_setKey_other _ _ _ _ (by decide), lookup_setKey_other _ _ _ _ (by decide), lookup_setKey_other _ _ _ _ (by decide),
    lookup_setKey_other _ _ _ _ (by decide)]
  split
  · exact lookup_setKey_same _ _ _
  · rfl

/-- **the created child is a fixpoint**: what the API server stores for the create of a plain desired child is
    `Stamped` for that desired child -/
theorem created_stamped (mks : List String) (ref : OwnerRef) (d : ResDef) (t : Target) (ds dm : KVs) (f : Fresh)
    (h : PlainChild d t ds dm) (hh : hypJ mks (.obj ds) = true) :
    Stamped mks (created d t (createBody ref (.obj ds)) f false) (.obj ds) := by
  obtain ⟨hu, hf⟩ := (hypJ_obj mks ds).mp hh
  have hdmJ : hypJ mks (.obj dm) = true := hf "metadata" (.obj dm) (lookup_mem ds "metadata" (.obj dm) h.hmeta)
  obtain ⟨hudm, hfdm⟩ := (hypJ_obj mks dm).mp hdmJ
  have hbody := createBody_plain ref d t ds dm h
  obtain ⟨os, hos, hmeta, hother⟩ := created_obj d t (createBody ref (.obj ds)) f
  -- the metadata of the request body
  have hmb : metaOf (createBody ref (.obj ds)) = setKey "ownerReferences" (.arr [ref.toJ])
      (setKey "annotations" (.obj [(lastAppliedAnnotation, .obj ds)]) dm) := by
    rw [hbody]; simp [metaOf, J.fields, lookup_setKey_same]
  have hfb : ∀ k, k ≠ "metadata" → lookup k (createBody ref (.obj ds)).fields = lookup k ds := by
    intro k hk
    rw [hbody]
    simp only [J.fields]
    rw [lookup_setKey_other _ _ _ _ hk, lookup_setKey_other _ _ _ _ hk]
  have hla : lookup lastAppliedAnnotation [(lastAppliedAnnotation, J.obj ds)] = some (J.obj ds) := by simp [lookup]
  refine ⟨os, metaOf (created d t (createBody ref (.obj ds)) f false), [(lastAppliedAnnotation, .obj ds)], ds, hos, rfl, hmeta, ?_, ?_, hla, ?_, ?_, hh⟩
  · -- the annotations of the stored object
    rw [lookup_created_other d t _ f "annotations" (by decide), hmb, lookup_setKey_other _ _ _ _ (by decide)]
    exact lookup_setKey_same _ _ _
  · simp [isStringish]
  · -- the desired object carries no annotation of ours
    unfold nullifyLastApplied getAnnotations stringMapAt
    rw [nestedField_meta ds dm "annotations" h.hmeta, h.hann]
  · -- the stored object extends the desired one
    simp only [Ext]
    refine ⟨os, hos, ExtF_of_mem ds os ?_⟩
    intro k v hm
    have hlk : lookup k ds = some v := lookup_of_mem_uniq ds k v hu hm
    by_cases hk : k = "metadata"
    · subst hk
      rw [h.hmeta] at hlk
      cases hlk
      refine ⟨_, hmeta, ?_⟩
      simp only [Ext]
      refine ⟨_, rfl, ExtF_of_mem dm _ ?_⟩
      intro k' v' hm'
      have hlk' : lookup k' dm = some v' := lookup_of_mem_uniq dm k' v' hudm hm'
      have ne : ∀ r, lookup r dm = none → k' ≠ r := by
        intro r hr e; rw [e, hr] at hlk'; cases hlk'
      by_cases hns : k' = "namespace"
      · subst hns
        rw [created_namespace, hmb]
        by_cases hnsd : d.namespaced = true
        · rw [if_pos hnsd]
          have := h.hns hnsd v' hlk'
          subst this
          exact ⟨_, rfl, by simp [Ext]⟩
        · rw [if_neg hnsd, lookup_setKey_other _ _ _ _ (by decide), lookup_setKey_other _ _ _ _ (by decide)]
          exact ⟨v', hlk', Ext_refl mks v' (hfdm _ _ hm')⟩
      · refine ⟨v', ?_, Ext_refl mks v' (hfdm _ _ hm')⟩
        rw [lookup_created_other d t _ f k' (by
          simp only [List.mem_cons, List.not_mem_nil, or_false, not_or]
          exact ⟨hns, ne _ h.huid, ne _ h.hrv, ne _ h.hgen, ne _ h.hcre, ne _ h.hdel⟩), hmb,
          lookup_setKey_other _ _ _ _ (ne _ h.hrefs), lookup_setKey_other _ _ _ _ (ne _ h.hann)]
        exact hlk'
    · refine ⟨v, ?_, Ext_refl mks v (hf k v hm)⟩
      have hks : k ≠ "status" := by
        intro e; rw [e, h.hstatus] at hlk; cases hlk
      rw [hother k hk]
      simp only [hks, and_false, if_false]
      rw [hfb k hk]
      exact hlk

/-! ### well-formedness of the stored object (needed only because `DeepEqual` is modelled by `eqv`) -/

theorem mem_setKey (k : String) (v : J) : ∀ (kvs : KVs) (k' : String) (v' : J), (k', v') ∈ setKey k v kvs → (k', v') = (k, v) ∨ (k', v') ∈ kvs := by
  intro kvs
  induction kvs with
  | nil => intro k' v' h; simp [setKey] at h; exact .inl (by rw [h.1, h.2])
  | cons hd tl ih =>
    obtain ⟨k0, v0⟩ := hd
    intro k' v' h
    by_cases e : k = k0
    · simp only [setKey, e, if_true] at h
      rcases List.mem_cons.mp h with h | h
      · left; rw [h, e]
      · right; exact List.mem_cons_of_mem _ h
    · simp only [setKey, e, if_false] at h
      rcases List.mem_cons.mp h with h | h
      · right; rw [h]; exact List.mem_cons_self ..
      · rcases ih k' v' h with h | h
        · exact .inl h
        · exact .inr (List.mem_cons_of_mem _ h)

theorem wfB_setKey (k : String) (v : J) (kvs : KVs) (h : (J.obj kvs).wfB = true) (hv : v.wfB = true) :
    (J.obj (setKey k v kvs)).wfB = true := by
  obtain ⟨hu, hm⟩ := (wfB_obj kvs).mp h
  refine (wfB_obj _).mpr ⟨uniq_setKey k v kvs hu, ?_⟩
  intro k' v' hmem
  rcases mem_setKey k v kvs k' v' hmem with e | hmem
  · cases e; exact hv
  · exact hm k' v' hmem

theorem wfB_eraseKey (k : String) (kvs : KVs) (h : (J.obj kvs).wfB = true) : (J.obj (eraseKey k kvs)).wfB = true := by
  obtain ⟨hu, hm⟩ := (wfB_obj kvs).mp h
  refine (wfB_obj _).mpr ⟨uniq_filter _ kvs hu, ?_⟩
  intro k' v' hmem
  exact hm k' v' (List.mem_filter.mp hmem).1

theorem wfB_fields (o : J) (h : o.wfB = true) : (J.obj o.fields).wfB = true := by
  cases o <;> first | exact h | rfl

theorem wfB_metaOf (o : J) (h : o.wfB = true) : (J.obj (metaOf o)).wfB = true := by
  unfold metaOf
  cases hl : lookup "metadata" o.fields with
  | none => rfl
  | some v =>
    cases v with
    | obj m =>
      have := ((wfB_obj o.fields).mp (wfB_fields o h)).2 "metadata" (.obj m) (lookup_mem _ _ _ hl)
      exact this
    | null => rfl
    | bool b => rfl
    | num n => rfl
    | str s => rfl
    | arr xs => rfl

theorem wfB_withMeta (o : J) (m : KVs) (h : o.wfB = true) (hm : (J.obj m).wfB = true) : (withMeta o m).wfB = true :=
  wfB_setKey _ _ _ (wfB_fields o h) hm

theorem created_wfB (d : ResDef) (t : Target) (body : J) (f : Fresh) (h : body.wfB = true) :
    (created d t body f false).wfB = true := by
  unfold created
  simp only [Bool.false_eq_true, if_false]
  have h0 := wfB_metaOf body h
  have h3 : (J.obj (if d.namespaced = true then setKey "namespace" (J.str t.ns) (metaOf body) else metaOf body)).wfB = true := by
    split
    · exact wfB_setKey _ _ _ h0 rfl
    · exact h0
  have h5 := wfB_eraseKey "deletionTimestamp" _ (wfB_setKey "creationTimestamp" (.str f.now) _ (wfB_setKey "generation" (.num 1) _
    (wfB_setKey "resourceVersion" (.str f.rv) _ (wfB_setKey "uid" (.str f.uid) _ h3 rfl) rfl) rfl) rfl)
  have h6 := wfB_withMeta body _ h h5
  split
  · exact wfB_eraseKey "status" _ (wfB_fields _ h6)
  · exact h6

theorem ownerRef_toJ_wfB (r : OwnerRef) : r.toJ.wfB = true := by
  unfold OwnerRef.toJ
  cases r.controller <;> cases r.blockOwnerDeletion <;> simp [J.wfB, wfsB, uniqB, hasKey, lookup]

theorem createBody_wfB (mks : List String) (ref : OwnerRef) (d : ResDef) (t : Target) (ds dm : KVs) (h : PlainChild d t ds dm)
    (hh : hypJ mks (.obj ds) = true) : (createBody ref (.obj ds)).wfB = true := by
  rw [createBody_plain ref d t ds dm h]
  have hds : (J.obj ds).wfB = true := hypJ_wfB mks _ hh
  have hdm : (J.obj dm).wfB = true := ((wfB_obj ds).mp hds).2 "metadata" (.obj dm) (lookup_mem _ _ _ h.hmeta)
  have hla : (J.obj [(lastAppliedAnnotation, J.obj ds)]).wfB = true := by
    refine (wfB_obj _).mpr ⟨by simp [uniq, lookup], ?_⟩
    intro k v hm
    simp at hm
    rw [hm.2]; exact hds
  have hm1 := wfB_setKey "annotations" _ dm hdm hla
  have hrefs : (J.arr [ref.toJ]).wfB = true := by
    simp [J.wfB, wflB, ownerRef_toJ_wfB]
  have hm2 := wfB_setKey "ownerReferences" _ _ hm1 hrefs
  exact wfB_setKey "metadata" _ _ (wfB_setKey "metadata" _ ds hds hm1) hm2

/-- **C01, create path, field level**: the child the API server stores for the create is left alone by the next sync:
    `updateChildren` decides "nothing to do" for it - for every update strategy, every list of merge keys -/
theorem C01_created_child_is_settled (mks sys : List String) (method : String) (ref : OwnerRef) (d : ResDef) (t : Target)
    (ds dm : KVs) (f : Fresh) (h : PlainChild d t ds dm) (hh : hypJ mks (.obj ds) = true) :
    updateAct mks sys method (created d t (createBody ref (.obj ds)) f false) (.obj ds) = .none := by
  refine C01_equal_is_fix mks sys method _ _ _ (applyUpdate_stamped mks sys _ _ (created_stamped mks ref d t ds dm f h hh)) ?_
  exact J.eqv_refl _ (created_wfB d t _ f (createBody_wfB mks ref d t ds dm h hh))

/-- **C01, create path, two syncs**: nothing of this kind is owned yet, the desired children are plain (see
    `PlainChild`), their names are free, nobody else writes.  The first pass of `updateChildren` creates them
    (`createGroup_run`); a second pass that works from a cache showing what the API server then holds issues
    **no request at all** and reports no error - whatever the update strategy of the kind. -/
theorem C01_create_converges (hook : String → J → Resp) (mks sys : List String) (children : List ChildRes) (info : KindInfo) (kind : String)
    (parentRef : OwnerRef) (desired : List (String × J)) (memo memo' : Memo) (s : State)
    (hdef : ∀ nd ∈ desired, (s.defOf (tgtOf info nd.2)).isSome)
    (hfree : ∀ nd ∈ desired, s.find (tgtOf info nd.2) = none)
    (hwf : ∀ nd ∈ desired, (createBody parentRef nd.2).isNull = false ∧ (getName nd.2 == "") = false ∧
        nControllerRefs (createBody parentRef nd.2) ≤ 1)
    (hnd : (desired.map (fun nd => tgtOf info nd.2)).Nodup)
    (hplain : ∀ nd ∈ desired, ∀ d, s.defOf (tgtOf info nd.2) = some d →
        ∃ ds dm, nd.2 = .obj ds ∧ PlainChild d (tgtOf info nd.2) ds dm ∧ hypJ mks (.obj ds) = true)
    (observed' : List (String × J))
    (hcache : ∀ nd ∈ desired, observed'.lookup nd.1 =
        (Prog.runT (W hook) (updateGroup mks sys children none info kind parentRef [] desired memo) s).2.find (tgtOf info nd.2)) :
    updateGroup mks sys children none info kind parentRef observed' desired memo' = .ret ([], memo') := by
  obtain ⟨_, hmade, _, _⟩ := createGroup_run hook mks sys children info kind parentRef desired memo s hdef hfree hwf hnd
  refine C01_updateGroup_quiet mks sys children info kind parentRef observed' desired memo' ?_
  intro nd hmem
  obtain ⟨d, f, hd, hfound⟩ := hmade nd hmem
  obtain ⟨ds, dm, hds, hpl, hh⟩ := hplain nd hmem d hd
  refine ⟨_, (hcache nd hmem).trans hfound, ?_⟩
  rw [hds]
  exact C01_created_child_is_settled mks sys _ parentRef d _ ds dm f (hds ▸ hpl) hh

-- non-vacuity: the example children of `C01Closed` are plain
example : PlainChild { group := "", resource := "configmaps", namespaced := true, hasStatus := false } (tgtOf exInfo' (exDes' "a"))
    (exDes' "a").fields [("name", .str "a"), ("namespace", .str "ns1")] := by
  constructor <;> first | rfl | decide | (intro _ v hv; simp [lookup] at hv; rw [← hv]; rfl)
example : hypJ ["name"] (exDes' "a") = true := by decide
-- and the theorem's conclusion, checked on the example by evaluation: the second pass over the stored children is silent
example : (match updateGroup ["name"] ["uid"] [] none exInfo' "ConfigMap" exRef' exObserved exDesired [] with | .ret x => x.1.isEmpty | _ => false) = true := by
  decide

end C01
end Mc
