import Mc.Sync.Full
/-
  C10 - finalizer: added first, honoured on deletion, removed only when finalized.
  Decision theorems of the finalizer manager, for every object.
-/
namespace Mc.C10

/-- the finalizer is never added to a parent that is already being deleted: no request at all -/
theorem C10_never_add_when_deleting (fz : Finalizer) (t : Target) (obj : J)
    (he : fz.enabled = true) (hd : isDeleting obj = true) (hn : hasFinalizer obj fz.name = false) :
    fz.syncObject t obj = Prog.ret (.ok obj) := by
  simp [Finalizer.syncObject, he, hd, hn]
  rfl

/-- state already right (finalizer present ⇔ hook configured): no request -/
theorem C10_sync_noop (fz : Finalizer) (t : Target) (obj : J) (h : hasFinalizer obj fz.name = fz.enabled) :
    fz.syncObject t obj = Prog.ret (.ok obj) := by
  simp [Finalizer.syncObject, h]
  rfl

/-- the edit that adds the finalizer appends exactly our name and keeps every other finalizer -/
theorem C10_add_edit (name : String) (cur upd : J) (h : addFinalizerEdit name cur = some upd) :
    hasFinalizer cur name = false ∧ upd = setFinalizers cur (getFinalizers cur ++ [name]) := by
  unfold addFinalizerEdit at h
  split at h
  · simp at h
  · rename_i hh
    simp at h
    exact ⟨by simpa using hh, h.symm⟩

/-- the edit that removes the finalizer removes exactly our name -/
theorem C10_remove_edit (name : String) (cur upd : J) (h : removeFinalizerEdit name cur = some upd) :
    hasFinalizer cur name = true ∧ upd = setFinalizers cur ((getFinalizers cur).filter (· != name)) := by
  unfold removeFinalizerEdit at h
  split at h
  · simp at h
  · rename_i hh
    simp at h
    exact ⟨by simpa using hh, h.symm⟩

/-- children of a dying parent are managed only with a finalize hook, our finalizer still present and no GC finalizer -/
theorem C10_should_finalize_iff (fz : Finalizer) (parent : J) :
    fz.shouldFinalize parent = true ↔
      ((getFinalizers parent).any (fun f => gcFinalizers.contains f) = false ∧ hasFinalizer parent fz.name = true ∧ fz.enabled = true) := by
  unfold Finalizer.shouldFinalize
  constructor
  · intro h
    split at h
    · simp at h
    · split at h
      · simp at h
      · rename_i h1 h2
        exact ⟨by simpa using h1, by simpa using h2, h⟩
  · rintro ⟨h1, h2, h3⟩
    rw [if_neg (by rw [h1]; simp), if_neg (by rw [h2]; simp)]
    exact h3

/-- the finalize hook (with finalizing = true) is chosen exactly when it is configured and the parent is being deleted
    or no longer matches; this is the request the composite controller builds -/
theorem C10_hook_choice_composite (c : Cfg) (parent : J) (observed related : ObjMap) :
    ∃ k, callHookComposite c parent observed related =
      Prog.call (.hook (if c.finalize && (isDeleting parent || c.doNotMatch parent) then "finalize" else "sync")
        (hookRequest "parent" "children" parent observed related (c.finalize && (isDeleting parent || c.doNotMatch parent)))) k := by
  unfold callHookComposite
  exact ⟨_, rfl⟩

theorem C10_hook_choice_decorator (c : DCfg) (parent : J) (observed related : ObjMap) :
    ∃ k, callHookDecorator c parent observed related =
      Prog.call (.hook (if c.finalize && (isDeleting parent || !c.selMatches parent) then "finalize" else "sync")
        (hookRequest "object" "attachments" parent observed related (c.finalize && (isDeleting parent || !c.selMatches parent)))) k := by
  unfold callHookDecorator
  exact ⟨_, rfl⟩

end Mc.C10
