import Mc.Proofs.WorldLemmas
import Mc.Sync.Common
/-
  C02, semantic half: what an *accepted* write tells, in the closed world of Mc/World.lean -
  the API-server model with arbitrary other clients acting between any two requests.

  The syntactic half (Mc/Props/C02.lean) shows which requests a sync can issue and what they carry
  (update bodies carry the observed resourceVersion, deletes the observed UID, creates the controller
  reference).  Here: what the API server's acceptance of such a request implies about the object hit,
  for every history of the store, every staleness of the cache and every interleaving.
-/
namespace Mc
namespace C02
open Api

/-- an accepted update met an object whose resourceVersion is the one the body carries -/
theorem request_update_ok (s : State) (t : Target) (body opts : J) (h : (s.request .update t body opts).1.ok = true) :
    ∃ c, s.find t = some c ∧ mstr body "resourceVersion" = mstr c "resourceVersion" := by
  unfold State.request at h
  cases hd : s.defOf t with
  | none => simp [hd, fail, Out.ok] at h
  | some d =>
    simp only [hd, handle] at h
    obtain ⟨c, hc, e, _⟩ := update_ok d _ body _ h
    exact ⟨c, hc, e⟩

theorem request_updateStatus_ok (s : State) (t : Target) (body opts : J) (h : (s.request .updateStatus t body opts).1.ok = true) :
    ∃ c, s.find t = some c ∧ mstr body "resourceVersion" = mstr c "resourceVersion" ∧
      (mstr body "uid" = "" ∨ mstr body "uid" = mstr c "uid") := by
  unfold State.request at h
  cases hd : s.defOf t with
  | none => simp [hd, fail, Out.ok] at h
  | some d =>
    simp only [hd, handle] at h
    exact updateStatus_ok _ body _ h

theorem request_delete_ok (s : State) (t : Target) (body opts : J) (u : String) (hu : precondition opts "uid" = some u)
    (h : (s.request .delete t body opts).1.ok = true) : ∃ c, s.find t = some c ∧ mstr c "uid" = u := by
  unfold State.request at h
  cases hd : s.defOf t with
  | none => simp [hd, fail, Out.ok] at h
  | some d =>
    simp only [hd, handle] at h
    exact delete_ok _ opts _ u hu h

theorem request_create_ok (s : State) (t : Target) (body opts : J) (h : (s.request .create t body opts).1.ok = true) :
    s.find t = none ∧ ∃ o, (s.request .create t body opts).2.find t = some o ∧
      lookup "ownerReferences" (metaOf o) = lookup "ownerReferences" (metaOf body) := by
  have hf := request_find s .create t body opts t
  unfold State.request at h hf ⊢
  cases hd : s.defOf t with
  | none => simp [hd, fail, Out.ok] at h
  | some d =>
    simp only [hd, handle] at h hf ⊢
    obtain ⟨hn, hp⟩ := create_ok d t _ body _ h
    refine ⟨hn, _, ?_, created_ownerRefs d t body s.fresh⟩
    rw [hf, if_pos trivial, hp]

theorem toResp_ok {o : Out} {x : J} (h : o.toResp = .obj x) : o.ok = true := by
  unfold Out.toResp at h
  split at h
  · assumption
  · cases h

/-- **C02_update_lands_on_observed**: `o` was stored under `t` at some time (that is all a cache can hold).
    After any requests by anybody, an update that carries `o`'s resourceVersion - addressed to whatever target -
    is accepted only if that target is `t` and the live object is still exactly `o`.
    So an accepted update of a cached child modifies the very version the sync looked at: if the cached
    version was controlled by the parent, so is the object written. -/
theorem C02_update_lands_on_observed (s : State) (hinv : Inv s) (t : Target) (o : J) (ho : s.find t = some o)
    (env : List ApiReq) (t' : Target) (body opts : J)
    (hrv : mstr body "resourceVersion" = mstr o "resourceVersion")
    (hok : ((s.execs env).request .update t' body opts).1.ok = true) :
    t' = t ∧ (s.execs env).find t' = some o := by
  obtain ⟨c, hc, e⟩ := request_update_ok _ t' body opts hok
  obtain ⟨ht, hco⟩ := rv_identifies s hinv t o ho env t' c hc (e.symm.trans hrv)
  exact ⟨ht, hco ▸ hc⟩

/-- the same for the status endpoint (the parent status write of C11) -/
theorem C02_status_update_lands_on_observed (s : State) (hinv : Inv s) (t : Target) (o : J) (ho : s.find t = some o)
    (env : List ApiReq) (t' : Target) (body opts : J)
    (hrv : mstr body "resourceVersion" = mstr o "resourceVersion")
    (hok : ((s.execs env).request .updateStatus t' body opts).1.ok = true) :
    t' = t ∧ (s.execs env).find t' = some o := by
  obtain ⟨c, hc, e, _⟩ := request_updateStatus_ok _ t' body opts hok
  obtain ⟨ht, hco⟩ := rv_identifies s hinv t o ho env t' c hc (e.symm.trans hrv)
  exact ⟨ht, hco ▸ hc⟩

/-- **C02_delete_hits_observed_uid**: an accepted delete conditioned on the UID of `o` (once stored under `t`)
    removes an object under `t` that carries that UID: the same incarnation, whatever happened in between -/
theorem C02_delete_hits_observed_uid (s : State) (hinv : Inv s) (t : Target) (o : J) (ho : s.find t = some o)
    (env : List ApiReq) (t' : Target) (body opts : J) (hu : precondition opts "uid" = some (mstr o "uid"))
    (hok : ((s.execs env).request .delete t' body opts).1.ok = true) :
    t' = t ∧ ∃ c, (s.execs env).find t = some c ∧ mstr c "uid" = mstr o "uid" := by
  obtain ⟨c, hc, e⟩ := request_delete_ok _ t' body opts _ hu hok
  have ht := uid_identifies s hinv t o ho env t' c hc e
  subst ht
  exact ⟨rfl, c, hc, e⟩

/-- **C02_recreated_never_deleted**: if the observed object disappeared at some point (`env1`), nothing stored
    afterwards - in particular a same-named object created later - can be removed by a delete conditioned on
    the observed UID: the request is refused -/
theorem C02_recreated_never_deleted (s : State) (hinv : Inv s) (t : Target) (o : J) (ho : s.find t = some o)
    (env1 env2 : List ApiReq) (hgone : (s.execs env1).find t = none)
    (t' : Target) (body opts : J) (hu : precondition opts "uid" = some (mstr o "uid")) :
    (((s.execs env1).execs env2).request .delete t' body opts).1.ok = false := by
  obtain ⟨_, ⟨n, hn, en⟩⟩ := hinv.1 t o ho
  have hprot := uidProt_execs t o n s.uid en hn env1 s (uidProt_init s hinv t o ho)
  have hg : UidGone o s.uid (s.execs env1) := by
    refine ⟨hprot.1, ?_⟩
    intro t'' c hc e
    have := hprot.2 t'' c hc e
    subst this
    rw [hgone] at hc; cases hc
  have hg2 := uidGone_execs o n s.uid en hn env2 _ hg
  cases hok : (((s.execs env1).execs env2).request .delete t' body opts).1.ok with
  | false => rfl
  | true =>
    obtain ⟨c, hc, e⟩ := request_delete_ok _ t' body opts _ hu hok
    exact absurd e (hg2.2 t' c hc)

/-- **C02_created_born_with_references**: an accepted create found the name free and the stored object carries
    exactly the owner references of the request body (with `C02_create_controller`: the controller reference to
    the parent) -/
theorem C02_created_born_with_references (s : State) (t : Target) (body opts : J)
    (hok : (s.request .create t body opts).1.ok = true) :
    s.find t = none ∧ ∃ o, (s.request .create t body opts).2.find t = some o ∧
      lookup "ownerReferences" (metaOf o) = lookup "ownerReferences" (metaOf body) :=
  request_create_ok s t body opts hok

/-! ### lifted to every execution of a program among other clients -/

/-- every logged step of an interleaved execution: the request satisfies what all requests of the program
    satisfy, was answered by the world from a state the initial one evolved into -/
theorem exec_log {α : Type} (hook : String → J → Resp) (P : Req → Prop) (p : Prog α) (hp : Prog.AllCalls P p) :
    ∀ (s : State) (log : List (State × Req × Resp)) (a : α) (s' : State), Exec hook p s log a s' →
      ∀ e ∈ log, P e.2.1 ∧ Evolves s e.1 ∧ e.2.2 = (worldStep hook e.1 e.2.1).1 := by
  induction hp with
  | ret a =>
    intro s log a' s' h
    cases h
    intro e he; cases he
  | call r k hr _ ih =>
    intro s log a' s' h
    cases h with
    | call _ _ _ env log' _ _ hrest =>
      intro e he
      rcases List.mem_cons.mp he with rfl | he'
      · exact ⟨hr, ⟨env, rfl⟩, rfl⟩
      · obtain ⟨h1, h2, h3⟩ := ih _ _ _ _ _ hrest e he'
        refine ⟨h1, ?_, h3⟩
        refine Evolves.trans ⟨env, rfl⟩ (Evolves.trans ?_ h2)
        cases r with
        | api v t body opts => exact ⟨[⟨v, t, body, opts⟩], rfl⟩
        | hook n req => exact Evolves.refl _

end C02
end Mc

namespace Mc
namespace C02
open Api

/-! ### bridge between the accessors of the sync model and of the API model -/

theorem mstr_eq_strAt (o : J) (k : String) : mstr o k = strAt o ["metadata", k] := by
  unfold mstr strAt metaOf
  cases o with
  | obj kvs =>
    simp only [J.fields, nestedField]
    cases h : lookup "metadata" kvs with
    | none => simp [strOpt]
    | some v =>
      cases v with
      | obj m =>
        simp only [nestedField]
        cases h2 : lookup k m with
        | none => simp [strOpt]
        | some x => cases x <;> simp [strOpt, nestedField]
      | null => simp [strOpt, nestedField]
      | bool b => simp [strOpt, nestedField]
      | num n => simp [strOpt, nestedField]
      | str s => simp [strOpt, nestedField]
      | arr xs => simp [strOpt, nestedField]
  | null => simp [J.fields, strOpt, nestedField]
  | bool b => simp [J.fields, strOpt, nestedField]
  | num n => simp [J.fields, strOpt, nestedField]
  | str s => simp [J.fields, strOpt, nestedField]
  | arr xs => simp [J.fields, strOpt, nestedField]

theorem nestedField_of_mstr (o : J) (k s : String) (h : mstr o k = s) (hs : s ≠ "") :
    nestedField o ["metadata", k] = .ok (some (.str s)) := by
  unfold mstr metaOf at h
  cases o with
  | obj kvs =>
    simp only [J.fields] at h
    simp only [nestedField]
    cases h1 : lookup "metadata" kvs with
    | none => simp [h1, strOpt] at h; exact absurd h hs
    | some v =>
      cases v with
      | obj m =>
        simp only [h1] at h
        simp only [nestedField]
        cases h2 : lookup k m with
        | none => simp [h2, strOpt] at h; exact absurd h hs
        | some x =>
          cases x with
          | str s' => simp [h2, strOpt] at h; subst h; simp [nestedField]
          | null => simp [h2, strOpt] at h; exact absurd h hs
          | bool b => simp [h2, strOpt] at h; exact absurd h hs
          | num n => simp [h2, strOpt] at h; exact absurd h hs
          | arr xs => simp [h2, strOpt] at h; exact absurd h hs
          | obj xs => simp [h2, strOpt] at h; exact absurd h hs
      | null => simp [h1, strOpt] at h; exact absurd h hs
      | bool b => simp [h1, strOpt] at h; exact absurd h hs
      | num n => simp [h1, strOpt] at h; exact absurd h hs
      | str s => simp [h1, strOpt] at h; exact absurd h hs
      | arr xs => simp [h1, strOpt] at h; exact absurd h hs
  | null => simp [J.fields, strOpt] at h; exact absurd h hs
  | bool b => simp [J.fields, strOpt] at h; exact absurd h hs
  | num n => simp [J.fields, strOpt] at h; exact absurd h hs
  | str s => simp [J.fields, strOpt] at h; exact absurd h hs
  | arr xs => simp [J.fields, strOpt] at h; exact absurd h hs

theorem rvTok_ne_empty (n : Nat) : rvTok n ≠ "" := by
  intro h
  have := @Nat.toList_repr n
  unfold rvTok at h
  rw [h] at this
  simp [Nat.toDigits_ne_nil] at this

theorem uidTok_ne_empty (n : Nat) : uidTok n ≠ "" := by
  intro h
  have := congrArg String.length h
  simp [uidTok, String.length_append] at this

theorem precondition_deleteOpts (u : String) (hu : u ≠ "") : precondition (deleteOpts u) "uid" = some u := by
  simp [precondition, deleteOpts, J.fields, lookup, hu]

end C02
end Mc
