import Mc.Sync.Decorator
import Mc.Proofs.ObjMapLemmas
import Mc.Proofs.ProgLemmasV
import Mc.Proofs.JsonLemmas
/-
  C03 - the hook sees exactly the children the parent owns, in the documented shape:
  outer key `Kind.version` / `Kind.group/version`, inner key `name` or `namespace/name`,
  every declared group present even when empty, namespace filter of `Convert`, namespace defaulting.
-/
namespace Mc.C03

/-! ## 5. the outer key -/

theorem C03_key_format_core (k : GVK) (h : k.group = "") : k.text = k.kind ++ "." ++ k.version := by
  simp [GVK.text, h]

theorem C03_key_format_group (k : GVK) (h : k.group ≠ "") :
    k.text = k.kind ++ "." ++ k.group ++ "/" ++ k.version := by
  simp [GVK.text, h]

example : (GVK.mk "" "v1" "Pod").text = "Pod.v1" ∧ (GVK.mk "apps" "v1" "Deployment").text = "Deployment.apps/v1" := by
  decide

theorem split_first {α : Type} (c : α) : ∀ (l1 l2 r1 r2 : List α), c ∉ l1 → c ∉ l2 →
    l1 ++ c :: r1 = l2 ++ c :: r2 → l1 = l2 ∧ r1 = r2 := by
  intro l1
  induction l1 with
  | nil =>
    intro l2 r1 r2 _ h2 h
    cases l2 with
    | nil => simp at h; exact ⟨rfl, h⟩
    | cons x xs =>
      simp only [List.nil_append, List.cons_append, List.cons.injEq] at h
      exact absurd (by rw [h.1]; simp) h2
  | cons y ys ih =>
    intro l2 r1 r2 h1 h2 h
    cases l2 with
    | nil =>
      simp only [List.nil_append, List.cons_append, List.cons.injEq] at h
      exact absurd (by rw [← h.1]; simp) h1
    | cons x xs =>
      simp only [List.cons_append, List.cons.injEq] at h
      obtain ⟨e1, e2⟩ := ih xs r1 r2 (fun hc => h1 (List.mem_cons_of_mem _ hc)) (fun hc => h2 (List.mem_cons_of_mem _ hc)) h.2
      exact ⟨by rw [h.1, e1], e2⟩

theorem split_last {α : Type} (c : α) (l1 l2 r1 r2 : List α) (h1 : c ∉ r1) (h2 : c ∉ r2)
    (h : l1 ++ c :: r1 = l2 ++ c :: r2) : l1 = l2 ∧ r1 = r2 := by
  have h' := congrArg List.reverse h
  simp only [List.reverse_append, List.reverse_cons, List.append_assoc, List.singleton_append] at h'
  obtain ⟨e1, e2⟩ := split_first c r1.reverse r2.reverse l1.reverse l2.reverse (by simpa using h1) (by simpa using h2) h'
  exact ⟨List.reverse_inj.1 e2, List.reverse_inj.1 e1⟩

theorem dot_toList : ".".toList = ['.'] := by decide
theorem slash_toList : "/".toList = ['/'] := by decide

/-- the outer key determines the group-version-kind (kinds contain no '.', versions no '/') -/
theorem C03_key_injective (a b : GVK) (ha : '.' ∉ a.kind.toList) (hb : '.' ∉ b.kind.toList)
    (hva : '/' ∉ a.version.toList) (hvb : '/' ∉ b.version.toList) (h : a.text = b.text) : a = b := by
  obtain ⟨ag, av, ak⟩ := a
  obtain ⟨bg, bv, bk⟩ := b
  simp only at ha hb hva hvb
  unfold GVK.text at h
  simp only [beq_iff_eq] at h
  by_cases ea : ag = "" <;> by_cases eb : bg = ""
  · subst ea eb
    simp only [if_true] at h
    have h' := String.ext_iff.1 h
    simp only [String.toList_append, dot_toList, List.append_assoc, List.singleton_append] at h'
    obtain ⟨e1, e2⟩ := split_first '.' _ _ _ _ ha hb h'
    rw [String.toList_inj] at e1 e2
    simp [e1, e2]
  · subst ea
    simp only [if_true, eb, if_false] at h
    have h' := String.ext_iff.1 h
    simp only [String.toList_append, dot_toList, slash_toList, List.append_assoc, List.singleton_append] at h'
    obtain ⟨e1, e2⟩ := split_first '.' _ _ _ _ ha hb h'
    exact absurd (by rw [e2]; simp) hva
  · subst eb
    simp only [if_true, ea, if_false] at h
    have h' := String.ext_iff.1 h
    simp only [String.toList_append, dot_toList, slash_toList, List.append_assoc, List.singleton_append] at h'
    obtain ⟨e1, e2⟩ := split_first '.' _ _ _ _ ha hb h'
    exact absurd (by rw [← e2]; simp) hvb
  · simp only [ea, eb, if_false] at h
    have h' := String.ext_iff.1 h
    simp only [String.toList_append, dot_toList, slash_toList, List.append_assoc, List.singleton_append] at h'
    obtain ⟨e1, e2⟩ := split_first '.' _ _ _ _ ha hb h'
    obtain ⟨e3, e4⟩ := split_last '/' _ _ _ _ hva hvb e2
    rw [String.toList_inj] at e1 e3 e4
    simp [e1, e3, e4]

example : '.' ∉ "Deployment".toList ∧ '/' ∉ "v1".toList := by decide
/-- why the side conditions: a kind with a dot collides -/
example : (GVK.mk "" "c" "a.b").text = (GVK.mk "" "b.c" "a").text := by decide

/-! ## 6. the inner key -/

theorem C03_inner_key_qualified (parentNs : String) (o : J) (h : parentNs = "" ∧ getNamespace o ≠ "") :
    relativeName parentNs o = getNamespace o ++ "/" ++ getName o := by
  simp [relativeName, h.1, h.2]

theorem C03_inner_key_plain (parentNs : String) (o : J) (h : ¬ (parentNs = "" ∧ getNamespace o ≠ "")) :
    relativeName parentNs o = getName o := by
  unfold relativeName
  by_cases h1 : parentNs = "" <;> by_cases h2 : getNamespace o = "" <;> simp_all

theorem C03_inner_key_iff (parentNs : String) (o : J) (hname : getNamespace o ++ "/" ++ getName o ≠ getName o) :
    relativeName parentNs o = getNamespace o ++ "/" ++ getName o ↔ parentNs = "" ∧ getNamespace o ≠ "" := by
  constructor
  · intro h
    apply Classical.byContradiction
    intro hn
    rw [C03_inner_key_plain _ _ hn] at h
    exact hname h.symm
  · exact C03_inner_key_qualified _ _


/-! ## 7. every declared group is present, even when empty -/

/-- a group of the uniform map survives `Convert` -/
theorem C03_groups_total (m : ObjMap) (ns : String) (k : GVK) (h : m.any (·.1 == k) = true) :
    (m.convert ns).any (·.1 == k) = true := hasGroup_convert m ns k h

/-- … and its key is in the JSON object sent to the hook (possibly with an empty object as value) -/
theorem C03_groups_total_json (m : ObjMap) (ns : String) (k : GVK) (h : m.any (·.1 == k) = true) :
    ((m.convert ns).toJ.get? k.text).isSome = true := by
  unfold ObjMap.toJ J.get? J.fields
  exact lookup_map_text k _ (hasGroup_convert m ns k h)

/-- the group-version-kind a child resource rule stands for -/
def chGVK (ch : ChildRes) : GVK :=
  { group := (parseAPIVersion ch.apiVersion).1, version := (parseAPIVersion ch.apiVersion).2, kind := ch.kind }

/-- `getChildren` of the decorator: one step of the fold -/
def attachStep (c : DCfg) (cache : Cache) (parent : J) (m : ObjMap) (ch : ChildRes) : ObjMap :=
  let all := (cache.children.lookup ch.resource).getD []
  let all := if getNamespace parent != "" then all.filter (fun o => getNamespace o == getNamespace parent) else all
  let mine := all.filter (fun o =>
    (match controllerOf o with | some r => r.uid == getUID parent | none => false) &&
    (annotationsOf o).lookup Generated.decoratorAnnotation == some c.name)
  mine.foldl (fun acc o => acc.insertUniform o) (m.initGroup (chGVK ch))

theorem getAttachments_eq (c : DCfg) (cache : Cache) (parent : J) :
    getAttachments c cache parent = c.attachments.foldl (attachStep c cache parent) [] := rfl

theorem hasGroup_attachStep (c : DCfg) (cache : Cache) (parent : J) (m : ObjMap) (ch : ChildRes) (k : GVK) :
    (m.hasGroup k = true ∨ k = chGVK ch) → (attachStep c cache parent m ch).hasGroup k = true := by
  intro h
  unfold attachStep
  apply hasGroup_foldl_insertUniform
  rw [hasGroup_initGroup]
  rcases h with h | h
  · simp [h]
  · simp [h]

/-- `getChildren` initialises one group per declared attachment resource, whatever the cache holds -/
theorem C03_attachment_groups_total (c : DCfg) (cache : Cache) (parent : J) :
    ∀ ch ∈ c.attachments, (getAttachments c cache parent).any (·.1 == chGVK ch) = true := by
  rw [getAttachments_eq]
  have key : ∀ (chs : List ChildRes) (m : ObjMap) (k : GVK),
      (m.hasGroup k = true ∨ ∃ ch ∈ chs, k = chGVK ch) → (chs.foldl (attachStep c cache parent) m).hasGroup k = true := by
    intro chs
    induction chs with
    | nil =>
      intro m k h
      rcases h with h | ⟨ch, hch, _⟩
      · exact h
      · simp at hch
    | cons ch rest ih =>
      intro m k h
      rw [List.foldl_cons]
      apply ih
      rcases h with h | ⟨ch', hch', h⟩
      · exact Or.inl (hasGroup_attachStep _ _ _ _ _ _ (Or.inl h))
      · rcases List.mem_cons.1 hch' with rfl | hch'
        · exact Or.inl (hasGroup_attachStep _ _ _ _ _ _ (Or.inr h))
        · exact Or.inr ⟨ch', hch', h⟩
  intro ch hch
  exact key _ _ _ (Or.inr ⟨ch, hch, rfl⟩)

/-- `claimChildren`: one step of the fold -/
def claimStep (c : Cfg) (cache : Cache) (parent : J) (selector : Selector) (m : ObjMap) (ch : ChildRes) : PE ObjMap := do
  let all := cache.childrenOf ch.resource (if c.parentNamespaced then some (getNamespace parent) else none)
  let m := m.initGroup (chGVK ch)
  let cx : ClaimCtx := { parentT := c.parentTarget parent, parent, parentRef := controllerRefTo c.parentAPIVersion c.parentKind parent, selector,
                         childT := fun o => targetOf ch.group ch.resource ch.namespaced (getNamespace o) (getName o) }
  let (claimed, errs) ← PE.lift (claimAll cx all none)
  if !errs.isEmpty then PE.fail s!"can't claim {ch.kind} children"
  else pure (claimed.foldl (fun acc o => acc.insertUniform o) m)

theorem claimChildren_eq (c : Cfg) (cache : Cache) (parent : J) :
    claimChildren c cache parent =
      PE.bind (PE.ofExcept (c.makeSelector parent)) (fun selector =>
        c.children.foldlM (claimStep c cache parent selector) []) := rfl

/-- whatever `ClaimObject` answers, the objects kept are among those listed -/
theorem claimAll_sub (cx : ClaimCtx) : ∀ (objs : List J) (st : AdoptState),
    Prog.AllRets (fun r => ∀ o ∈ r.1, o ∈ objs) (claimAll cx objs st) := by
  intro objs
  induction objs with
  | nil => intro st; exact .ret _ (fun o ho => by simp at ho)
  | cons x rest ih =>
    intro st
    unfold claimAll
    apply Prog.AllRets.bind (Prog.AllRets.trivial _)
    rintro ⟨⟨ok, err⟩, st'⟩ _
    apply Prog.AllRets.bind (ih st')
    rintro ⟨claimed, errs⟩ hcl
    refine .ret _ ?_
    intro o ho
    simp only [] at ho hcl
    cases ok
    · exact List.mem_cons_of_mem _ (hcl o ho)
    · rcases List.mem_cons.1 ho with rfl | ho
      · simp
      · exact List.mem_cons_of_mem _ (hcl o ho)

/-- one step of `claimChildren`, on every successful branch: the declared group is present (even when
    nothing is claimed), earlier groups are kept, and every object added comes from the informer list
    of that resource (restricted to the parent's namespace for a namespaced parent) -/
theorem C03_claim_step (c : Cfg) (cache : Cache) (parent : J) (selector : Selector) (m : ObjMap) (ch : ChildRes) :
    PE.AllOk (fun m' =>
        m'.any (·.1 == chGVK ch) = true ∧
        (∀ k, m.any (·.1 == k) = true → m'.any (·.1 == k) = true) ∧
        (∀ o ∈ m'.list, o ∈ m.list ∨
          o ∈ cache.childrenOf ch.resource (if c.parentNamespaced then some (getNamespace parent) else none)))
      (claimStep c cache parent selector m ch) := by
  unfold claimStep
  simp only [bind, pure]
  apply PE.AllOk.bind (PE.AllOk.lift (claimAll_sub _ _ _))
  rintro ⟨claimed, errs⟩ hcl
  simp only [] at hcl ⊢
  by_cases he : (!errs.isEmpty) = true
  · rw [if_pos he]; exact PE.AllOk.fail _
  · rw [if_neg he]
    apply PE.AllOk.pure
    refine ⟨?_, ?_, ?_⟩
    · apply hasGroup_foldl_insertUniform
      rw [hasGroup_initGroup]; simp
    · intro k hk
      apply hasGroup_foldl_insertUniform
      rw [hasGroup_initGroup]
      have : m.hasGroup k = true := hk
      simp [this]
    · intro o ho
      rcases mem_list_foldl_insertUniform ho with h | h
      · rw [list_initGroup] at h; exact Or.inl h
      · exact Or.inr (hcl o h)

/-- the whole of `claimChildren`: on every successful branch one group per declared child resource,
    and nothing but objects of the informer lists -/
theorem C03_claim_groups_total (c : Cfg) (cache : Cache) (parent : J) :
    PE.AllOk (fun m =>
        (∀ ch ∈ c.children, m.any (·.1 == chGVK ch) = true) ∧
        (∀ o ∈ m.list, ∃ ch ∈ c.children,
          o ∈ cache.childrenOf ch.resource (if c.parentNamespaced then some (getNamespace parent) else none)))
      (claimChildren c cache parent) := by
  rw [claimChildren_eq]
  apply PE.AllOk.bind (Q := fun _ => True) (PE.AllOk.ofExcept (fun _ _ => True.intro))
  intro selector _
  have := PE.AllOk.foldlM_prefix
    (Inv := fun (pre : List ChildRes) (m : ObjMap) =>
      (∀ ch ∈ pre, m.any (·.1 == chGVK ch) = true) ∧
      (∀ o ∈ m.list, ∃ ch ∈ pre,
        o ∈ cache.childrenOf ch.resource (if c.parentNamespaced then some (getNamespace parent) else none)))
    (claimStep c cache parent selector) ?_ c.children [] [] ⟨by simp, by simp [ObjMap.list]⟩
  · simpa using this
  · intro pre ch m ⟨h1, h2⟩
    apply Prog.AllRets.mono _ (C03_claim_step c cache parent selector m ch)
    intro r hr m' hm'
    obtain ⟨g1, g2, g3⟩ := hr m' hm'
    refine ⟨?_, ?_⟩
    · intro ch' hch'
      rcases List.mem_append.1 hch' with h | h
      · exact g2 _ (h1 ch' h)
      · simp only [List.mem_singleton] at h; subst h; exact g1
    · intro o ho
      rcases g3 o ho with h | h
      · obtain ⟨ch', hch', h⟩ := h2 o h
        exact ⟨ch', List.mem_append_left _ hch', h⟩
      · exact ⟨ch, by simp, h⟩

/-! ## 8. `Convert`: the namespace filter -/

/-- a namespaced parent only ever sees objects of its own namespace -/
theorem C03_convert_namespace (m : ObjMap) (ns : String) (hns : ns ≠ "") :
    ∀ o ∈ (m.convert ns).list, getNamespace o = ns ∧ o ∈ m.list := by
  intro o ho
  have := mem_list_convert ho
  unfold ObjMap.convertObjs at this
  simp only [beq_iff_eq, hns, if_false, List.mem_filter] at this
  exact ⟨this.2, this.1⟩

/-- whatever the parent, nothing is invented -/
theorem C03_convert_sound (m : ObjMap) (ns : String) : ∀ o ∈ (m.convert ns).list, o ∈ m.list := by
  intro o ho
  have := mem_list_convert ho
  unfold ObjMap.convertObjs at this
  split at this
  · exact this
  · exact (List.mem_filter.1 this).1

/-- every object that passes the filter is sent, under its own group-version-kind and its relative
    name, provided no other object (that passes the filter) has the same group-version-kind and relative name -/
theorem C03_convert_complete (m : ObjMap) (ns : String) (o : J) (ho : o ∈ m.list)
    (hns : ns = "" ∨ getNamespace o = ns)
    (hinj : ∀ x ∈ m.list, (ns = "" ∨ getNamespace x = ns) → gvkOf x = gvkOf o →
      relativeName ns x = relativeName ns o → x = o) :
    (m.convert ns).at (gvkOf o) (relativeName ns o) = some o ∧ o ∈ (m.convert ns).list := by
  have hmem : ∀ x, x ∈ m.convertObjs ns ↔ x ∈ m.list ∧ (ns = "" ∨ getNamespace x = ns) := by
    intro x
    unfold ObjMap.convertObjs
    by_cases h : ns = ""
    · simp [h]
    · simp [h, List.mem_filter]
  have hat : (m.convert ns).at (gvkOf o) (relativeName ns o) = some o := by
    rw [convert_eq]
    apply at_foldl_insertRelative
    · intro x hx
      obtain ⟨h1, h2⟩ := (hmem x).1 hx
      exact hinj x h1 h2
    · exact Or.inl ((hmem o).2 ⟨ho, hns⟩)
  exact ⟨hat, mem_list_of_at hat⟩

/-- cluster-scoped parent: every object is sent, under `relativeName "" o` (= `namespace/name` or `name`) -/
theorem C03_convert_cluster (m : ObjMap) (o : J) (ho : o ∈ m.list)
    (hinj : ∀ x ∈ m.list, gvkOf x = gvkOf o → relativeName "" x = relativeName "" o → x = o) :
    (m.convert "").at (gvkOf o) (relativeName "" o) = some o :=
  (C03_convert_complete m "" o ho (Or.inl rfl) (fun x hx _ => hinj x hx)).1

namespace Ex
def pod (ns name : String) : J := .obj [("apiVersion", .str "v1"), ("kind", .str "Pod"), ("metadata", .obj [("name", .str name), ("namespace", .str ns)])]
def kPod : GVK := { group := "", version := "v1", kind := "Pod" }
def kSvc : GVK := { group := "", version := "v1", kind := "Service" }
/-- a uniform map with two pods in different namespaces and an empty Service group -/
def m0 : ObjMap := [(kPod, [("ns/a", pod "ns" "a"), ("other/b", pod "other" "b")]), (kSvc, [])]

/-- inner keys: `namespace/name` for a cluster-scoped parent, `name` for a namespaced one -/
example : relativeName "" (pod "ns" "a") = "ns/a" ∧ relativeName "ns" (pod "ns" "a") = "a" := by decide
example : ("" = "" ∧ getNamespace (pod "ns" "a") ≠ "") ∧ ¬ ("ns" = "" ∧ getNamespace (pod "ns" "a") ≠ "") := by decide

def att0 : ChildRes := { apiVersion := "v1", resource := "pods", kind := "Pod", namespaced := true, hasStatus := true, method := none }
def dc0 : DCfg := { name := "dec", resources := [], attachments := [att0], finalize := false, customize := false }
def cfg0 : Cfg := { name := "cc", parentGroup := "ex.io", parentVersion := "v1", parentKind := "Thing", parentResource := "things",
                    parentNamespaced := true, parentHasStatus := true, children := [att0], generateSelector := true,
                    parentSelector := none, finalize := false, customize := false, ssa := false, fieldPaths := [] }
def emptyCache : Cache := { parents := [], children := [], related := [], revisions := [] }
def parent0 : J := .obj [("metadata", .obj [("name", .str "p"), ("namespace", .str "ns"), ("uid", .str "u")])]

/-- nothing observed: the declared group is there all the same -/
example : (getAttachments dc0 emptyCache parent0).any (·.1 == chGVK att0) = true :=
  C03_attachment_groups_total dc0 emptyCache parent0 att0 (by simp [dc0])
/-- a successful branch of `claimChildren` exists (so `C03_claim_groups_total` is not vacuous): with an
    empty informer the result is the one declared group, empty -/
example : claimChildren cfg0 emptyCache parent0 = PE.pure [(chGVK att0, [])] := by rfl

example : m0.any (·.1 == kSvc) = true := by decide
/-- the empty group reaches the hook -/
example : ((m0.convert "ns").toJ.get? "Service.v1").isSome = true := C03_groups_total_json m0 "ns" kSvc (by decide)
example : pod "ns" "a" ∈ m0.list ∧ pod "other" "b" ∈ m0.list := by simp [m0, ObjMap.list]
/-- the pod of the other namespace is not sent to a parent in `ns` -/
example : pod "other" "b" ∉ (m0.convert "ns").list := fun h =>
  absurd (C03_convert_namespace m0 "ns" (by decide) _ h).1 (by decide)
/-- a cluster-scoped parent sees both, under `namespace/name` -/
example : relativeName "" (pod "other" "b") = "other/b" ∧
    (m0.convert "").at (gvkOf (pod "other" "b")) "other/b" = some (pod "other" "b") := by
  refine ⟨by decide, ?_⟩
  have := C03_convert_cluster m0 (pod "other" "b") (by simp [m0, ObjMap.list]) (by
    intro x hx _ hn
    simp only [m0, ObjMap.list, List.flatMap_cons, List.map_cons, List.map_nil, List.flatMap_nil, List.append_nil,
      List.mem_cons, List.not_mem_nil, or_false] at hx
    rcases hx with rfl | rfl
    · exact absurd hn (by decide)
    · rfl)
  exact this
end Ex

/-! ## 9. namespace defaulting of the children the hook returns -/

theorem getNamespace_obj_md (kvs md : KVs) (h : lookup "metadata" kvs = some (.obj md)) :
    getNamespace (.obj kvs) = match lookup "namespace" md with | some (.str s) => s | _ => "" := by
  simp only [getNamespace, strAt, nestedField, h]
  cases hl : lookup "namespace" md with
  | none => rfl
  | some v => cases v <;> simp

theorem getNamespace_obj_none (kvs : KVs) (h : lookup "metadata" kvs = none) : getNamespace (.obj kvs) = "" := by
  simp [getNamespace, strAt, nestedField, h]

/-- a child returned without namespace is placed in the parent's namespace -/
theorem C03_namespace_default (ns : String) (o : J)
    (hmd : o.get? "metadata" = none ∨ ∃ md, o.get? "metadata" = some (.obj md)) :
    getNamespace (setNamespaceIfEmpty ns o) = (if getNamespace o = "" then ns else getNamespace o) := by
  unfold setNamespaceIfEmpty
  by_cases he : getNamespace o = ""
  · simp only [he, beq_self_eq_true, if_true]
    unfold J.get? at hmd
    by_cases hns : ns = ""
    · subst hns
      simp only [beq_self_eq_true, if_true]
      unfold removeNestedField
      rcases hmd with hmd | ⟨md, hmd⟩
      · simp only [removeNestedFieldKVs, hmd]
        exact getNamespace_obj_none _ hmd
      · simp only [removeNestedFieldKVs, hmd]
        rw [getNamespace_obj_md _ _ (lookup_setKey_same _ _ _)]
        have : lookup "namespace" (eraseKey "namespace" md) = none := by
          unfold eraseKey
          have := lookup_filter (fun x => !(x == "namespace")) md "namespace"
          rw [this]; simp
        rw [this]
    · have hb : (ns == "") = false := by simpa using hns
      simp only [hb, Bool.false_eq_true, if_false]
      unfold setNestedField
      rcases hmd with hmd | ⟨md, hmd⟩
      · simp only [setNestedFieldKVs, hmd]
        rw [getNamespace_obj_md _ _ (lookup_setKey_same _ _ _)]
        simp [setKey]
      · simp only [setNestedFieldKVs, hmd]
        rw [getNamespace_obj_md _ _ (lookup_setKey_same _ _ _), lookup_setKey_same]
  · have hb : (getNamespace o == "") = false := by simpa using he
    simp [hb, he]

/-- the hypothesis is needed: when `metadata` is not a map the write fails and the error is dropped -/
example : getNamespace (setNamespaceIfEmpty "ns" (.obj [("metadata", .str "x")])) = "" := by rfl

example : getNamespace (setNamespaceIfEmpty "ns" (.obj [("kind", .str "Pod"), ("metadata", .obj [("name", .str "a")])])) = "ns" ∧
    getNamespace (setNamespaceIfEmpty "ns" (.obj [("metadata", .obj [("namespace", .str "other")])])) = "other" ∧
    getNamespace (setNamespaceIfEmpty "ns" (.obj [("kind", .str "Pod")])) = "ns" := ⟨by rfl, by rfl, by rfl⟩


end Mc.C03
