import Mc.Proofs.SyncFootprint
import Mc.Proofs.JsonLemmas
import Mc.Props.C10
/-
  C10 - finalizer, order and halting theorems over the whole `Prog` tree of the syncs
  (continues `Mc/Props/C10.lean`, same namespace): the finalizer is on the parent before any child is
  created, a failed finalizer phase ends the sync, a parent that is being deleted neither claims nor - without
  a finalize hook to honour - writes children.
-/
namespace Mc.C10
open Mc Prog

/-! ### example configuration used by the non-vacuity checks -/

def exCfg : Cfg :=
  { name := "ex", parentGroup := "example.com", parentVersion := "v1", parentKind := "Thing", parentResource := "things",
    parentNamespaced := true, parentHasStatus := true,
    children := [{ apiVersion := "v1", resource := "configmaps", kind := "ConfigMap", namespaced := true, hasStatus := false,
                   method := some "InPlace" }],
    generateSelector := true, parentSelector := none, finalize := true, customize := false, ssa := false, fieldPaths := [] }

def exParent : J :=
  .obj [("apiVersion", .str "example.com/v1"), ("kind", .str "Thing"),
        ("metadata", .obj [("name", .str "a"), ("namespace", .str "ns"), ("uid", .str "u1")])]

/-- the same parent, being deleted, without any finalizer -/
def exDyingParent : J :=
  .obj [("apiVersion", .str "example.com/v1"), ("kind", .str "Thing"),
        ("metadata", .obj [("name", .str "a"), ("namespace", .str "ns"), ("uid", .str "u1"),
                           ("deletionTimestamp", .str "2026-01-01T00:00:00Z")])]

def exCache : Cache := { parents := [exParent], children := [], related := [], revisions := [] }

/-! ### C10.5 the finalizer is added first -/

/-- an object with a non-empty UID is a map whose `metadata` is a map -/
theorem metadata_of_uid (cur : J) (h : getUID cur ≠ "") :
    ∃ kvs inner, cur = .obj kvs ∧ lookup "metadata" kvs = some (.obj inner) := by
  unfold getUID strAt at h
  cases cur with
  | obj kvs =>
    cases hl : lookup "metadata" kvs with
    | none => simp [nestedField, hl] at h
    | some v =>
      cases v with
      | obj inner => exact ⟨kvs, inner, rfl, hl⟩
      | _ => simp [nestedField, hl] at h
  | _ => simp [nestedField] at h

theorem getFinalizers_setFinalizers (cur : J) (fs : List String) (h : getUID cur ≠ "") :
    getFinalizers (setFinalizers cur fs) = fs := by
  obtain ⟨kvs, inner, rfl, hl⟩ := metadata_of_uid cur h
  have hall : (fs.map J.str).all (fun x => x.str?.isSome) = true := by
    simp [List.all_eq_true, J.str?]
  have hfm : (fs.map J.str).filterMap J.str? = fs := by
    induction fs with
    | nil => rfl
    | cons a as ih => simp [J.str?] at ih ⊢; exact ih
  simp [setFinalizers, setNestedField, J.fields, setNestedFieldKVs, hl, getFinalizers, stringSliceAt, nestedField,
    lookup_setKey_same, hall, hfm]

/-- the edit that adds the finalizer produces an object that carries it -/
theorem hasFinalizer_addFinalizerEdit (name : String) (cur upd : J) (hu : getUID cur ≠ "")
    (h : addFinalizerEdit name cur = some upd) : hasFinalizer upd name = true := by
  obtain ⟨_, rfl⟩ := C10_add_edit name cur upd h
  simp [hasFinalizer, getFinalizers_setFinalizers cur _ hu]


/-- the guard of C10: an accepted update of the parent that carries the finalizer - or a live read of the
    parent showing that it already carries it (then no update is needed) -/
def AddGuard (c : Cfg) (pt : Target) (r : Req) (x : Resp) : Prop :=
  r.onTarget pt = true ∧
    ((r.verb? = some .update ∧ hasFinalizer r.body c.finalizer.name = true ∧ x.isErr = false) ∨
     (r.verb? = some .get ∧ ∃ cur, x = .obj cur ∧ hasFinalizer cur c.finalizer.name = true))

/-- the finalizer phase of a parent that needs the finalizer is the read-modify-write that adds it -/
theorem syncObject_add (c : Cfg) (parent : J)
    (hf : c.finalize = true) (hn : hasFinalizer parent c.finalizer.name = false) (hd : isDeleting parent = false) :
    c.finalizer.syncObject (c.parentTarget parent) parent =
      atomicLoop (c.parentTarget parent) (getUID parent) (addFinalizerEdit c.finalizer.name) .update "NotFound" retrySteps := by
  have he : c.finalizer.enabled = true := hf
  simp [Finalizer.syncObject, hn, he, hd, atomicUpdate]

/-- C10.5 - no child is created before the parent is known to carry the finalizer -/
theorem C10_add_first_partial (c : Cfg) (cache : Cache) (parent : J) (name : String) (h : Hidden)
    (hf : c.finalize = true) (hn : hasFinalizer parent c.finalizer.name = false) (hd : isDeleting parent = false)
    (hi : c.ignored parent = false) (hu : getUID parent ≠ "") :
    Guarded (AddGuard c (c.parentTarget parent)) (fun r => r.isChildCreate (c.parentTarget parent) = true)
      (syncParentObjectFull c cache parent name h) := by
  rw [syncParentObjectFull_eq, if_neg (by simp [hi]), syncObject_add c parent hf hn hd]
  apply atomicLoop_guarded_bind
  · simp [Req.isChildCreate_of_not_child _ _ (Req.isChild_self _ _ _ _)]
  · intro b
    simp [Req.isChildCreate_of_not_child _ _ (Req.isChild_self _ _ _ _)]
  · intro cur _ hnone
    refine ⟨Req.onTarget_self _ _ _ _, Or.inr ⟨rfl, cur, rfl, ?_⟩⟩
    unfold addFinalizerEdit at hnone
    split at hnone
    · assumption
    · simp at hnone
  · intro cur upd res hcu hsome
    have hcu' : getUID cur = getUID parent := by simpa using hcu
    refine ⟨Req.onTarget_self _ _ _ _, Or.inl ⟨rfl, ?_, rfl⟩⟩
    exact hasFinalizer_addFinalizerEdit _ cur upd (by rw [hcu']; exact hu) hsome
  · intro e
    exact .ret _


/-- why the guard of C10.5 has a second alternative: when the live parent already carries the finalizer, the
    finalizer phase writes nothing and hands the live object to the rest of the sync, which may create children -/
theorem C10_add_skipped_when_present (t : Target) (uid name gone : String) (n : Nat) :
    ∃ k, atomicLoop t uid (addFinalizerEdit name) .update gone (n + 1) = .call (.api .get t .null .null) k ∧
      ∀ cur, getUID cur = uid → hasFinalizer cur name = true → k (.obj cur) = .ret (.ok cur) := by
  atomic_unfold
  refine ⟨_, rfl, fun cur hu hf => ?_⟩
  simp [hu, addFinalizerEdit, hf]

example : Guarded (AddGuard exCfg (exCfg.parentTarget exParent)) (fun r => r.isChildCreate (exCfg.parentTarget exParent) = true)
    (syncParentObjectFull exCfg exCache exParent "rev1" {}) :=
  C10_add_first_partial exCfg exCache exParent "rev1" {} rfl (by decide) (by decide) (by decide) (by decide)

/-! ### C10.6 a failed finalizer phase ends the sync -/

/-- an error answer, other than a Conflict answering a write (those are retried) -/
def PhaseFailed (r : Req) (x : Resp) : Prop := x.isErr = true ∧ (x = .err "Conflict" → r.isWrite = false)

/-- the finalizer phase on its own: after such an error it issues nothing more and returns an error -/
theorem C10_failed_finalizer_phase (fz : Finalizer) (t : Target) (obj : J) :
    HaltsAfterR PhaseFailed (fun _ => True) PE.IsError (fz.syncObject t obj) := by
  unfold Finalizer.syncObject
  split
  · exact .ret _
  · split
    · split
      · exact .ret _
      · exact atomicLoop_haltsAfterR _ _ _ _ _ rfl _
    · exact atomicLoop_haltsAfterR _ _ _ _ _ rfl _

/-- C10.6 - `syncParentObjectFull` is the finalizer phase followed by `finalizerCont`; after an error answer
    (not a retried Conflict) to a request of the finalizer phase, the whole sync issues no request any more -/
theorem C10_failed_add_stops (c : Cfg) (cache : Cache) (parent : J) (name : String) (h : Hidden)
    (hi : c.ignored parent = false) :
    syncParentObjectFull c cache parent name h =
      Prog.bind (c.finalizer.syncObject (c.parentTarget parent) parent) (finalizerCont c cache name h) ∧
    HaltsInPrefix PhaseFailed (fun _ => True) (finalizerCont c cache name h)
      (c.finalizer.syncObject (c.parentTarget parent) parent) := by
  refine ⟨by rw [syncParentObjectFull_eq, if_neg (by simp [hi])], ?_⟩
  apply HaltsInPrefix.of_haltsAfterR (C10_failed_finalizer_phase _ _ _)
  intro a ha
  cases a with
  | ok p => exact ha.elim
  | error e => exact .ret _

/-- under the hypotheses of C10.5 the finalizer phase does issue requests: it starts with the GET of the parent -/
theorem C10_add_phase_starts_with_get (c : Cfg) (parent : J)
    (hf : c.finalize = true) (hn : hasFinalizer parent c.finalizer.name = false) (hd : isDeleting parent = false) :
    ∃ k, c.finalizer.syncObject (c.parentTarget parent) parent = .call (.api .get (c.parentTarget parent) .null .null) k := by
  rw [syncObject_add c parent hf hn hd]
  exact ⟨_, rfl⟩

example : HaltsInPrefix PhaseFailed (fun _ => True) (finalizerCont exCfg exCache "rev1" {})
    (exCfg.finalizer.syncObject (exCfg.parentTarget exParent) exParent) :=
  (C10_failed_add_stops exCfg exCache exParent "rev1" {} (by decide)).2

example : ∃ k, exCfg.finalizer.syncObject (exCfg.parentTarget exParent) exParent =
    .call (.api .get (exCfg.parentTarget exParent) .null .null) k :=
  C10_add_phase_starts_with_get exCfg exParent rfl (by decide) (by decide)

/-! ### C10.7 a parent that is being deleted claims nothing -/

/-- C10.7 - a parent observed as being deleted neither adopts nor releases: the claim phases issue no request -/
theorem C10_dying_parent_inert_claims (c : Cfg) (cache : Cache) (parent : J) (hd : isDeleting parent = true) :
    NoQ (fun _ => True) (claimChildren c cache parent) ∧ NoQ (fun _ => True) (claimRevisions c cache parent) :=
  ⟨(claimChildren_deleting c cache parent hd).mono (fun _ h => h.elim),
   (claimRevisions_deleting c cache parent hd).mono (fun _ h => h.elim)⟩

example : NoQ (fun _ => True) (claimChildren exCfg exCache exDyingParent) :=
  (C10_dying_parent_inert_claims exCfg exCache exDyingParent (by decide)).1

/-! ### C10.8 a parent that is being deleted, with nothing to finalize, gets no child written -/

/-- C10.8 - composite: only the parent object itself (status read-modify-write) is touched -/
theorem C10_dying_parent_only_parent (c : Cfg) (parent : J) (observed desired : ObjMap) (status : Option KVs) (memo : Memo)
    (hd : isDeleting parent = true) (hs : c.finalizer.shouldFinalize parent = false) :
    AllCalls (fun r => r.onTarget (c.parentTarget parent) = true) (compositeAct c parent observed desired status memo) := by
  apply compositeAct_calls
  · exact ⟨Req.onTarget_self _ _ _ _, fun b => Req.onTarget_self _ _ _ _, fun b => Req.onTarget_self _ _ _ _⟩
  · intro hh
    rcases hh with hh | hh
    · rw [hd] at hh; cases hh
    · rw [hs] at hh; cases hh

theorem C10_dying_parent_guard (c : Cfg) (parent : J) (observed desired : ObjMap) (status : Option KVs) (memo : Memo)
    (hd : isDeleting parent = true) (hs : c.finalizer.shouldFinalize parent = false) :
    NoQ (fun r => r.isChildWrite (c.parentTarget parent) = true) (compositeAct c parent observed desired status memo) := by
  refine (C10_dying_parent_only_parent c parent observed desired status memo hd hs).mono (fun r hr => ?_)
  simp [Req.isChildWrite, Req.isChild, hr]

/-- C10.8 - decorator: only the decorated object itself is touched (labels / annotations / status edit) -/
theorem C10_dying_parent_only_parent_decorator (c : DCfg) (rule : ParentRes) (parent : J) (observed : ObjMap)
    (resp : DecResp) (memo : Memo) (hd : isDeleting parent = true) (hs : c.finalizer.shouldFinalize parent = false) :
    AllCalls (fun r => r.onTarget (targetOf rule.group rule.resource rule.namespaced (getNamespace parent) (getName parent)) = true)
      (decoratorTail c rule parent observed resp memo) := by
  apply decoratorTail_calls
  · exact fun b => Req.onTarget_self _ _ _ _
  · exact fun b => Req.onTarget_self _ _ _ _
  · intro hh
    rcases hh with hh | hh
    · rw [hd] at hh; cases hh
    · rw [hs] at hh; cases hh

theorem C10_dying_parent_guard_decorator (c : DCfg) (rule : ParentRes) (parent : J) (observed : ObjMap)
    (resp : DecResp) (memo : Memo) (hd : isDeleting parent = true) (hs : c.finalizer.shouldFinalize parent = false) :
    NoQ (fun r => r.isChildWrite (targetOf rule.group rule.resource rule.namespaced (getNamespace parent) (getName parent)) = true)
      (decoratorTail c rule parent observed resp memo) := by
  refine (C10_dying_parent_only_parent_decorator c rule parent observed resp memo hd hs).mono (fun r hr => ?_)
  simp [Req.isChildWrite, Req.isChild, hr]

example : NoQ (fun r => r.isChildWrite (exCfg.parentTarget exDyingParent) = true)
    (compositeAct exCfg exDyingParent [] [] none []) :=
  C10_dying_parent_guard exCfg exDyingParent [] [] none [] (by decide) (by decide)

example : NoQ (fun _ => True) (claimRevisions exCfg exCache exDyingParent) :=
  (C10_dying_parent_inert_claims exCfg exCache exDyingParent (by decide)).2

/-- a decorator on the same resource, with one attachment resource and no finalize hook -/
def exRule : ParentRes :=
  { apiVersion := "example.com/v1", resource := "things", kind := "Thing", namespaced := true, hasStatus := true,
    labelSel := none, annSel := none }

def exDCfg : DCfg :=
  { name := "dec", resources := [exRule],
    attachments := [{ apiVersion := "v1", resource := "configmaps", kind := "ConfigMap", namespaced := true, hasStatus := false,
                      method := some "InPlace" }],
    finalize := false, customize := false }

def exDecResp : DecResp :=
  { labels := [("seen", some "yes")], annotations := [], status := none, attachments := [], resyncAfter := 0, finalized := false }

example : NoQ (fun r => r.isChildWrite (targetOf exRule.group exRule.resource exRule.namespaced
      (getNamespace exDyingParent) (getName exDyingParent)) = true)
    (decoratorTail exDCfg exRule exDyingParent [] exDecResp []) :=
  C10_dying_parent_guard_decorator exDCfg exRule exDyingParent [] exDecResp [] (by decide) (by decide)

end Mc.C10
