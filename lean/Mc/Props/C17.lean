import Mc.Generated
/-
  C17 (partial) - shared state is accessed under locks.
  (1) An abstract reader/writer lock: in every reachable lock state two different threads never hold it in
      conflicting modes, hence two accesses that obey the discipline "writes under the exclusive lock, reads under
      the read or the exclusive lock" and come from different threads are never enabled together when one of them
      is a write (no data race on the guarded location) - for every trace, any number of threads.
  (2) The accesses to the process-wide maps of metacontroller, re-extracted from the source on every run
      (`Generated.sharedMapAccesses`: lastUpdatedCache, the informer factory's refCount / sharedInformers, the
      handler map of the shared event handler, the customize manager's relatedInformers), all obey that discipline.
  Not modelled: the Go memory model itself, accesses made through aliases the extractor does not see, library code.
  The cache-read-only half of C17 is judged on every replayed sync (cache fingerprint before/after).
-/
namespace Mc.C17

inductive Mode where
  | r | w
  deriving DecidableEq, Repr

inductive Ev where
  | acq (t : Nat) (m : Mode)
  | rel (t : Nat)
  deriving Repr

/-- threads currently holding the lock, with the mode -/
abbrev LState := List (Nat × Mode)

def holds (s : LState) (t : Nat) : Option Mode := s.lookup t

/-- one lock operation; `none` = the operation blocks (is not enabled) in this state -/
def step (s : LState) : Ev → Option LState
  | .acq t .w => if s.isEmpty then some [(t, .w)] else none
  | .acq t .r => if s.all (fun h => h.2 == .r && h.1 != t) then some ((t, .r) :: s) else none
  | .rel t => some (s.filter (·.1 != t))

def run (s : LState) : List Ev → Option LState
  | [] => some s
  | e :: rest => match step s e with
      | some s' => run s' rest
      | none => none

/-- mutual exclusion: two different holders are both readers -/
def Excl (s : LState) : Prop := ∀ a ∈ s, ∀ b ∈ s, a.1 ≠ b.1 → a.2 = .r ∧ b.2 = .r

theorem excl_nil : Excl [] := by
  intro a ha; cases ha

theorem excl_step (s s' : LState) (e : Ev) (h : Excl s) (hs : step s e = some s') : Excl s' := by
  cases e with
  | acq t m =>
    cases m with
    | w =>
      simp only [step] at hs
      split at hs
      · cases hs
        intro a ha b hb hne
        simp only [List.mem_singleton] at ha hb
        subst ha; subst hb
        exact absurd rfl hne
      · cases hs
    | r =>
      simp only [step] at hs
      split at hs
      · rename_i hall
        cases hs
        have hr : ∀ x ∈ s, x.2 = .r := by
          intro x hx
          have := List.all_eq_true.mp hall x hx
          simp only [Bool.and_eq_true, beq_iff_eq] at this
          exact this.1
        intro a ha b hb _
        have ha' : a.2 = .r := by
          rcases List.mem_cons.mp ha with rfl | ha
          · rfl
          · exact hr a ha
        have hb' : b.2 = .r := by
          rcases List.mem_cons.mp hb with rfl | hb
          · rfl
          · exact hr b hb
        exact ⟨ha', hb'⟩
      · cases hs
  | rel t =>
    simp only [step] at hs
    cases hs
    intro a ha b hb hne
    exact h a (List.mem_filter.mp ha).1 b (List.mem_filter.mp hb).1 hne

/-- the exclusion invariant holds in every state reachable by lock operations -/
theorem excl_run : ∀ (tr : List Ev) (s s' : LState), Excl s → run s tr = some s' → Excl s'
  | [], s, s', h, hr => by simp only [run] at hr; cases hr; exact h
  | e :: rest, s, s', h, hr => by
    simp only [run] at hr
    split at hr
    · rename_i s1 hs
      exact excl_run rest s1 s' (excl_step s s1 e h hs) hr
    · cases hr

/-- an access by thread `t` obeys the discipline in state `s`: writes need the exclusive lock, reads any mode -/
def Permitted (s : LState) (t : Nat) (write : Bool) : Prop :=
  ∃ m, (t, m) ∈ s ∧ (write = true → m = .w)

/-- **C17 lockset**: after any sequence of lock operations, two accesses by different threads that both obey the
    discipline are never enabled together unless both are reads -/
theorem C17_lockset (tr : List Ev) (s : LState) (hr : run [] tr = some s) (t1 t2 : Nat) (w1 w2 : Bool)
    (hne : t1 ≠ t2) (h1 : Permitted s t1 w1) (h2 : Permitted s t2 w2) : w1 = false ∧ w2 = false := by
  have hex := excl_run tr [] s excl_nil hr
  obtain ⟨m1, hm1, hw1⟩ := h1
  obtain ⟨m2, hm2, hw2⟩ := h2
  have := hex (t1, m1) hm1 (t2, m2) hm2 hne
  simp only at this
  obtain ⟨e1, e2⟩ := this
  constructor
  · cases w1 with
    | false => rfl
    | true => have := hw1 rfl; rw [e1] at this; cases this
  · cases w2 with
    | false => rfl
    | true => have := hw2 rfl; rw [e2] at this; cases this

/-- non-vacuity: two readers are enabled together, a reader and a writer never are -/
example : run [] [.acq 1 .r, .acq 2 .r] = some [(2, .r), (1, .r)] := by decide
example : run [] [.acq 1 .r, .acq 2 .w] = none := by decide
example : run [] [.acq 1 .w, .rel 1, .acq 2 .w] = some [(2, .w)] := by decide

/-- the discipline, on the extracted access table: a write holds the exclusive lock (2), a read holds some lock (≥ 1) -/
def disciplined (a : String × String × Bool × Nat) : Bool :=
  if a.2.2.1 then a.2.2.2 == 2 else a.2.2.2 ≥ 1

/-- **C17 accesses locked**: every access to a process-wide map found in the working tree obeys the discipline -/
theorem C17_accesses_locked : Generated.sharedMapAccesses.all disciplined = true := by decide

/-- the table is not empty and covers every watched map (a renamed map or lock would silently empty it) -/
theorem C17_table_covers :
    (Generated.sharedMapAccesses.filter (·.2.2.1)).length ≥ 5 ∧ Generated.sharedMapAccesses.length ≥ 15 := by decide

end Mc.C17
