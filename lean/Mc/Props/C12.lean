import Mc.Proofs.ManageLemmas
import Mc.Props.C06
/-
  C12 - failures: `ManageChildren` never stops early, only benign API errors are swallowed, an error of the
  sync means a rate-limited requeue (and a 429 of the hook a delayed one).
-/
namespace Mc.C12
open Prog

abbrev tgt (info : KindInfo) (o : J) : Target :=
  targetOf info.group info.resource info.namespaced (getNamespace o) (getName o)

/-! ### C12_manage_collects -/

/-- **per-child independence** (`C12_manage_collects`, equational form): the loop over the desired children of a group is
    the loop over the rest, followed by the step of this child; the step (`childStep`) is a function of the observed
    object of that name, the desired object, the method, the target and the parent reference only - neither the errors
    collected so far, nor the memo, nor any response received for another child enter it -/
theorem C12_child_independent (mks sys : List String) (children : List ChildRes) (info : KindInfo) (kind : String)
    (parentRef : OwnerRef) (observed : List (String × J)) (name : String) (des : J) (rest : List (String × J)) (memo : Memo) :
    updateGroup mks sys children none info kind parentRef observed ((name, des) :: rest) memo =
      Prog.bind (updateGroup mks sys children none info kind parentRef observed rest memo) (fun acc =>
        Prog.bind (childStep mks sys (getMethod children info.group kind) (tgt info des) parentRef (observed.lookup name) des)
          (fun e => .ret (consErr e acc.1, acc.2))) :=
  updateGroup_cons mks sys children info kind parentRef observed name des rest memo

/-- the same for the delete loop -/
theorem C12_delete_independent (info : KindInfo) (kind : String) (desiredNames : List String) (name : String) (obj : J)
    (rest : List (String × J)) (memo : Memo) :
    deleteGroup info kind desiredNames ((name, obj) :: rest) memo =
      Prog.bind (deleteGroup info kind desiredNames rest memo) (fun acc =>
        Prog.bind (deleteStep (tgt info obj) desiredNames name obj)
          (fun r => .ret ((match r.1 with | some e => s!"can't delete: {e}" :: acc.1 | none => acc.1),
                          (if r.2 then acc.2.erase (memoKey info kind obj) else acc.2)))) :=
  deleteGroup_cons info kind desiredNames name obj rest memo

/-- the requests of one child step: none or one, fixed before any response is seen -/
def childReqs (mks sys : List String) (method : String) (t : Target) (parentRef : OwnerRef) (obs : Option J) (des : J) : List Req :=
  match obs with
  | some o =>
    match updateAct mks sys method o des with
    | .delete uid => [.api .delete t .null (deleteOpts uid)]
    | .update body => [.api .update t body .null]
    | _ => []
  | none => [.api .create t (createBody parentRef des) .null]

theorem childStep_issues (mks sys : List String) (method : String) (t : Target) (parentRef : OwnerRef) (obs : Option J) (des : J) :
    Issues (childReqs mks sys method t parentRef obs des) (childStep mks sys method t parentRef obs des) := by
  unfold childStep childReqs
  cases obs with
  | none => exact .call _ _ _ (fun x => .ret _)
  | some o =>
    simp only []
    cases updateAct mks sys method o des with
    | none => exact .ret _
    | error e => exact .ret _
    | delete uid => exact .call _ _ _ (fun x => .ret _)
    | update body => exact .call _ _ _ (fun x => .ret _)

def updateGroupReqs (mks sys : List String) (children : List ChildRes) (info : KindInfo) (kind : String) (parentRef : OwnerRef)
    (observed : List (String × J)) : List (String × J) → List Req
  | [] => []
  | (name, des) :: rest =>
      updateGroupReqs mks sys children info kind parentRef observed rest ++
      childReqs mks sys (getMethod children info.group kind) (tgt info des) parentRef (observed.lookup name) des

theorem updateGroup_issues (mks sys : List String) (children : List ChildRes) (info : KindInfo) (kind : String)
    (parentRef : OwnerRef) (observed : List (String × J)) : ∀ (desired : List (String × J)) (memo : Memo),
    Issues (updateGroupReqs mks sys children info kind parentRef observed desired)
      (updateGroup mks sys children none info kind parentRef observed desired memo) := by
  intro desired
  induction desired with
  | nil => intro memo; exact .ret _
  | cons nd rest ih =>
    intro memo
    obtain ⟨name, des⟩ := nd
    rw [updateGroup_cons, updateGroupReqs]
    refine Issues.bind (ih memo) (fun acc => ?_)
    exact Issues.map (childStep_issues mks sys (getMethod children info.group kind) (tgt info des) parentRef
      (observed.lookup name) des) _

def deleteReqs (t : Target) (desiredNames : List String) (name : String) (obj : J) : List Req :=
  if isDeleting obj then [] else if desiredNames.contains name then [] else [.api .delete t .null (deleteOpts (getUID obj))]

theorem deleteStep_issues (t : Target) (desiredNames : List String) (name : String) (obj : J) :
    Issues (deleteReqs t desiredNames name obj) (deleteStep t desiredNames name obj) := by
  unfold deleteStep deleteReqs
  split
  · exact .ret _
  · split
    · exact .ret _
    · exact .call _ _ _ (fun x => .ret _)

def deleteGroupReqs (info : KindInfo) (desiredNames : List String) : List (String × J) → List Req
  | [] => []
  | (name, obj) :: rest => deleteGroupReqs info desiredNames rest ++ deleteReqs (tgt info obj) desiredNames name obj

theorem deleteGroup_issues (info : KindInfo) (kind : String) (desiredNames : List String) :
    ∀ (observed : List (String × J)) (memo : Memo),
    Issues (deleteGroupReqs info desiredNames observed) (deleteGroup info kind desiredNames observed memo) := by
  intro observed
  induction observed with
  | nil => intro memo; exact .ret _
  | cons no rest ih =>
    intro memo
    obtain ⟨name, obj⟩ := no
    rw [deleteGroup_cons, deleteGroupReqs]
    refine Issues.bind (ih memo) (fun acc => ?_)
    exact Issues.map (deleteStep_issues (tgt info obj) desiredNames name obj) _

/-- the requests of `ManageChildren` (dynamic apply), computed from its arguments alone -/
def manageReqs (mks sys : List String) (children : List ChildRes) (kt : KindTable) (parentRef : OwnerRef)
    (observed desired : ObjMap) : List Req :=
  observed.flatMap (fun g => match kt.find (gvkAPIVersion g.1) g.1.kind with
    | none => []
    | some info => deleteGroupReqs info ((desired.group g.1).map (·.1)) g.2) ++
  desired.flatMap (fun g => match kt.find (gvkAPIVersion g.1) g.1.kind with
    | none => []
    | some info => updateGroupReqs mks sys children info g.1.kind parentRef (observed.group g.1) g.2)

/-- **C12_manage_collects**: under dynamic apply `ManageChildren` issues the same requests in the same order on every
    branch - whatever the API server answers (errors included), no child is skipped and nothing stops the loops -/
theorem C12_manage_collects (mks sys : List String) (children : List ChildRes) (kt : KindTable) (parentRef : OwnerRef)
    (observed desired : ObjMap) (memo : Memo) :
    Issues (manageReqs mks sys children kt parentRef observed desired)
      (manageChildren mks sys children none kt parentRef observed desired memo) := by
  unfold manageChildren manageReqs
  refine Issues.bind (Issues.foldlM _ _ _ _ ?_) (fun acc1 => ?_)
  · intro acc g _
    cases kt.find (gvkAPIVersion g.1) g.1.kind with
    | none => exact .ret _
    | some info =>
      exact Issues.map (deleteGroup_issues info g.1.kind ((desired.group g.1).map (·.1)) g.2 acc.2)
        (fun (r : List String × Memo) => (acc.1 ++ r.1, r.2))
  · have h2 : ∀ init, Issues (desired.flatMap (fun g => match kt.find (gvkAPIVersion g.1) g.1.kind with
        | none => []
        | some info => updateGroupReqs mks sys children info g.1.kind parentRef (observed.group g.1) g.2))
        (desired.foldlM (fun (acc : List String × Memo) g => do
          match kt.find (gvkAPIVersion g.1) g.1.kind with
          | none => pure (acc.1 ++ ["discovery: can't find kind"], acc.2)
          | some info =>
            let (errs, memo) ← updateGroup mks sys children none info g.1.kind parentRef (observed.group g.1) g.2 acc.2
            pure (acc.1 ++ errs, memo)) init) := by
      intro init
      refine Issues.foldlM _ _ _ _ ?_
      intro acc g _
      cases kt.find (gvkAPIVersion g.1) g.1.kind with
      | none => exact .ret _
      | some info =>
        exact Issues.map (updateGroup_issues mks sys children info g.1.kind parentRef (observed.group g.1) g.2 acc.2)
          (fun (r : List String × Memo) => (acc.1 ++ r.1, r.2))
    exact Issues.map (h2 ([], acc1.2)) (fun (r : List String × Memo) => (acc1.1 ++ r.1, r.2))

/-! ### C12_swallowed_only_benign -/

/-- a response is swallowed exactly when it is a success or an error whose reason is in the benign list -/
theorem verdict_none_iff (benign : List String) (x : Resp) :
    verdict benign x = none ↔ (x.isErr = false ∨ ∃ e ∈ benign, x = .err e) := by
  cases x with
  | err e =>
    by_cases h : benign.contains e = true
    · simp only [verdict, h, if_true, true_iff]
      exact Or.inr ⟨e, by simpa using h, rfl⟩
    · simp only [verdict, h, Resp.isErr]
      constructor
      · intro h'; simp at h'
      · rintro (h' | ⟨e', he', heq⟩)
        · simp at h'
        · cases heq; exact absurd (by simpa using he') h
  | _ => simp [verdict, Resp.isErr]

/-- a reported error is the reason the API server gave -/
theorem verdict_some (benign : List String) (x : Resp) (e : String) (h : verdict benign x = some e) :
    x = .err e ∧ e ∉ benign := by
  cases x with
  | err e' =>
    by_cases hb : benign.contains e' = true
    · simp only [verdict, hb, if_true] at h
      cases h
    · simp only [verdict, hb] at h
      simp at h
      subst h
      exact ⟨rfl, by simpa using hb⟩
  | _ => simp [verdict] at h

/-- the errors that each kind of write may swallow -/
def benignOf (r : Req) : List String :=
  match r.verb? with
  | some .delete => ["NotFound"]
  | some .update => ["NotFound", "Conflict"]
  | some .create => ["AlreadyExists"]
  | _ => []

/-- table of `childStep` (dynamic apply): no request and no error; no request and the decision's error; or one
    delete / update / create whose response is judged by `verdict` with, respectively, {NotFound}, {NotFound, Conflict},
    {AlreadyExists} as the only swallowed reasons -/
theorem C12_swallowed_only_benign (mks sys : List String) (method : String) (t : Target) (parentRef : OwnerRef)
    (obs : Option J) (des : J) :
    childStep mks sys method t parentRef obs des = .ret none ∨
    (∃ o e, obs = some o ∧ updateAct mks sys method o des = .error e ∧ childStep mks sys method t parentRef obs des = .ret (some e)) ∨
    (∃ req, childStep mks sys method t parentRef obs des = .call req (fun x => .ret (verdict (benignOf req) x)) ∧
      req.target? = some t ∧
      ((∃ o uid, obs = some o ∧ updateAct mks sys method o des = .delete uid ∧ req = .api .delete t .null (deleteOpts uid)) ∨
       (∃ o body, obs = some o ∧ updateAct mks sys method o des = .update body ∧ req = .api .update t body .null) ∨
       (obs = none ∧ req = .api .create t (createBody parentRef des) .null))) := by
  unfold childStep
  cases obs with
  | none => exact Or.inr (Or.inr ⟨_, rfl, rfl, Or.inr (Or.inr ⟨rfl, rfl⟩)⟩)
  | some o =>
    simp only []
    cases h : updateAct mks sys method o des with
    | none => exact Or.inl rfl
    | error e => exact Or.inr (Or.inl ⟨o, e, rfl, h, rfl⟩)
    | delete uid => exact Or.inr (Or.inr ⟨_, rfl, rfl, Or.inl ⟨o, uid, rfl, h, rfl⟩⟩)
    | update body => exact Or.inr (Or.inr ⟨_, rfl, rfl, Or.inr (Or.inl ⟨o, body, rfl, h, rfl⟩)⟩)

/-- table of `deleteStep`: skipped, or one UID-guarded delete; only NotFound is swallowed; the memo entry is dropped
    exactly on success -/
theorem C12_delete_swallows_notfound (t : Target) (desiredNames : List String) (name : String) (obj : J) :
    deleteStep t desiredNames name obj = .ret (none, false) ∨
    deleteStep t desiredNames name obj =
      .call (.api .delete t .null (deleteOpts (getUID obj))) (fun x => .ret (verdict ["NotFound"] x, !x.isErr)) := by
  unfold deleteStep
  split
  · exact Or.inl rfl
  · split
    · exact Or.inl rfl
    · exact Or.inr rfl

/-- a response is swallowed by the write it answers -/
def Swallowed (rx : Req × Resp) : Prop := verdict (benignOf rx.1) rx.2 = none

/-- the decision for this child is an error (failed merge, unknown method) -/
def DecisionError (mks sys : List String) (method : String) (obs : Option J) (des : J) : Prop :=
  ∃ o e, obs = some o ∧ updateAct mks sys method o des = .error e

theorem childStep_trace (mks sys : List String) (method : String) (t : Target) (parentRef : OwnerRef) (obs : Option J) (des : J)
    (l : List (Req × Resp)) (e : Option String)
    (h : Trace (childStep mks sys method t parentRef obs des) l e) :
    e = none ↔ (¬ DecisionError mks sys method obs des ∧ ∀ rx ∈ l, Swallowed rx) := by
  rcases C12_swallowed_only_benign mks sys method t parentRef obs des with h1 | ⟨o, e', ho, ha, h1⟩ | ⟨req, h1, _, hk⟩
  · rw [h1] at h
    obtain ⟨rfl, rfl⟩ := h.ret_inv
    refine ⟨fun _ => ⟨?_, by simp⟩, fun _ => rfl⟩
    rintro ⟨o, e', ho, ha⟩
    subst ho
    simp [childStep, ha] at h1
  · rw [h1] at h
    obtain ⟨rfl, rfl⟩ := h.ret_inv
    exact ⟨fun h' => (by cases h'), fun h' => absurd ⟨o, e', ho, ha⟩ h'.1⟩
  · rw [h1] at h
    obtain ⟨x, l', rfl, h'⟩ := h.call_inv
    obtain ⟨rfl, rfl⟩ := h'.ret_inv
    have hnd : ¬ DecisionError mks sys method obs des := by
      rintro ⟨o, e', ho, ha⟩
      rcases hk with ⟨o', uid, ho', ha', _⟩ | ⟨o', body, ho', ha', _⟩ | ⟨ho', _⟩
      · rw [ho] at ho'; cases ho'; rw [ha] at ha'; cases ha'
      · rw [ho] at ho'; cases ho'; rw [ha] at ha'; cases ha'
      · rw [ho] at ho'; cases ho'
    constructor
    · intro hv
      refine ⟨hnd, ?_⟩
      intro rx hrx
      simp at hrx
      subst hrx
      exact hv
    · rintro ⟨_, hall⟩
      exact hall (req, x) (by simp)

theorem consErr_nil_iff (e : Option String) (errs : List String) : consErr e errs = [] ↔ e = none ∧ errs = [] := by
  cases e <;> simp [consErr]

/-- **only benign errors are swallowed, group level**: along any branch of the create/update loop (dynamic apply), the loop
    reports no error exactly when no decision was an error and every response was a success or the benign reason of its
    write: NotFound for a delete, NotFound / Conflict for an update, AlreadyExists for a create -/
theorem C12_updateGroup_errors (mks sys : List String) (children : List ChildRes) (info : KindInfo) (kind : String)
    (parentRef : OwnerRef) (observed : List (String × J)) :
    ∀ (desired : List (String × J)) (memo : Memo) (l : List (Req × Resp)) (errs : List String) (memo' : Memo),
    Trace (updateGroup mks sys children none info kind parentRef observed desired memo) l (errs, memo') →
    (errs = [] ↔ ((∀ nd ∈ desired, ¬ DecisionError mks sys (getMethod children info.group kind) (observed.lookup nd.1) nd.2) ∧
                  ∀ rx ∈ l, Swallowed rx)) := by
  intro desired
  induction desired with
  | nil =>
    intro memo l errs memo' h
    rw [updateGroup_nil] at h
    obtain ⟨rfl, h2⟩ := h.ret_inv
    cases h2
    simp
  | cons nd rest ih =>
    intro memo l errs memo' h
    obtain ⟨name, des⟩ := nd
    rw [updateGroup_cons] at h
    obtain ⟨l1, l2, acc, rfl, h1, h2⟩ := h.bind_inv
    obtain ⟨l3, l4, e, rfl, h3, h4⟩ := h2.bind_inv
    obtain ⟨rfl, h5⟩ := h4.ret_inv
    cases h5
    have a := ih memo l1 acc.1 acc.2 h1
    have b := childStep_trace _ _ _ _ _ _ _ _ _ h3
    rw [consErr_nil_iff, a, b]
    constructor
    · rintro ⟨⟨hd, hl⟩, hr, hall⟩
      refine ⟨?_, ?_⟩
      · intro nd hnd
        rcases List.mem_cons.mp hnd with rfl | hnd
        · exact hd
        · exact hr nd hnd
      · intro rx hrx
        simp only [List.append_nil, List.mem_append] at hrx
        rcases hrx with hrx | hrx
        · exact hall rx hrx
        · exact hl rx hrx
    · rintro ⟨hd, hall⟩
      refine ⟨⟨hd _ (List.mem_cons_self ..), fun rx hrx => hall rx (by simp [hrx])⟩,
        fun nd hnd => hd nd (List.mem_cons_of_mem _ hnd), fun rx hrx => hall rx (by simp [hrx])⟩

/-- the delete loop reports no error exactly when every response was a success or NotFound -/
theorem C12_deleteGroup_errors (info : KindInfo) (kind : String) (desiredNames : List String) :
    ∀ (observed : List (String × J)) (memo : Memo) (l : List (Req × Resp)) (errs : List String) (memo' : Memo),
    Trace (deleteGroup info kind desiredNames observed memo) l (errs, memo') →
    (errs = [] ↔ ∀ rx ∈ l, Swallowed rx) := by
  intro observed
  induction observed with
  | nil =>
    intro memo l errs memo' h
    rw [deleteGroup_nil] at h
    obtain ⟨rfl, h2⟩ := h.ret_inv
    cases h2
    simp
  | cons no rest ih =>
    intro memo l errs memo' h
    obtain ⟨name, obj⟩ := no
    rw [deleteGroup_cons] at h
    obtain ⟨l1, l2, acc, rfl, h1, h2⟩ := h.bind_inv
    obtain ⟨l3, l4, r, rfl, h3, h4⟩ := h2.bind_inv
    obtain ⟨rfl, h5⟩ := h4.ret_inv
    cases h5
    have a := ih memo l1 acc.1 acc.2 h1
    have b : r.1 = none ↔ ∀ rx ∈ l3, Swallowed rx := by
      rcases C12_delete_swallows_notfound (tgt info obj) desiredNames name obj with hs | hs
      · rw [hs] at h3
        obtain ⟨rfl, rfl⟩ := h3.ret_inv
        simp
      · rw [hs] at h3
        obtain ⟨x, l', rfl, h'⟩ := h3.call_inv
        obtain ⟨rfl, rfl⟩ := h'.ret_inv
        simp [Swallowed, benignOf, Req.verb?]
    constructor
    · intro he
      have h1' : r.1 = none := by
        cases hr : r.1 with
        | none => rfl
        | some e => simp [hr] at he
      simp only [h1'] at he
      intro rx hrx
      simp only [List.append_nil, List.mem_append] at hrx
      rcases hrx with hrx | hrx
      · exact a.mp he rx hrx
      · exact b.mp h1' rx hrx
    · intro hall
      have h1' : r.1 = none := b.mpr (fun rx hrx => hall rx (by simp [hrx]))
      simp only [h1']
      exact a.mpr (fun rx hrx => hall rx (by simp [hrx]))

/-- the two loops of `ManageChildren` have the same shape: discovery failure or the group's loop, errors appended -/
theorem loop_errors {γ : Type} (K : γ → Option KindInfo) (body : KindInfo → γ → Memo → Prog (List String × Memo))
    (D : KindInfo → γ → Prop) (msg : String)
    (hbody : ∀ info g memo l errs memo', Trace (body info g memo) l (errs, memo') →
      (errs = [] ↔ D info g ∧ ∀ rx ∈ l, Swallowed rx)) :
    ∀ (xs : List γ) (init : List String × Memo) (l : List (Req × Resp)) (errs : List String) (memo' : Memo),
    Trace (xs.foldlM (fun (acc : List String × Memo) g =>
        match K g with
        | none => (pure (acc.1 ++ [msg], acc.2) : Prog _)
        | some info => do
          let (errs, memo) ← body info g acc.2
          pure (acc.1 ++ errs, memo)) init) l (errs, memo') →
    (errs = [] ↔ init.1 = [] ∧ (∀ g ∈ xs, ∃ info, K g = some info ∧ D info g) ∧ ∀ rx ∈ l, Swallowed rx) := by
  intro xs
  induction xs with
  | nil =>
    intro init l errs memo' h
    obtain ⟨rfl, h2⟩ := Trace.ret_inv (a := init) h
    cases h2
    simp
  | cons g rest ih =>
    intro init l errs memo' h
    rw [List.foldlM_cons] at h
    obtain ⟨l1, l2, acc, rfl, h1, h2⟩ := Trace.bind_inv h
    have a := ih acc l2 errs memo' h2
    rw [a]
    cases hk : K g with
    | none =>
      simp only [hk] at h1
      obtain ⟨rfl, rfl⟩ := Trace.ret_inv (a := (init.1 ++ [msg], init.2)) h1
      constructor
      · rintro ⟨h', _⟩; simp at h'
      · rintro ⟨_, h', _⟩
        obtain ⟨info, hi, _⟩ := h' g (List.mem_cons_self ..)
        rw [hk] at hi; cases hi
    | some info =>
      simp only [hk] at h1
      obtain ⟨l3, l4, r, rfl, h3, h4⟩ := Trace.bind_inv h1
      obtain ⟨rfl, rfl⟩ := Trace.ret_inv (a := (init.1 ++ r.1, r.2)) h4
      have b := hbody info g init.2 l3 r.1 r.2 h3
      simp only [List.append_eq_nil_iff, b]
      constructor
      · rintro ⟨⟨hi, hd, hl⟩, hr, hall⟩
        refine ⟨hi, ?_, ?_⟩
        · intro g' hg'
          rcases List.mem_cons.mp hg' with rfl | hg'
          · exact ⟨info, hk, hd⟩
          · exact hr g' hg'
        · intro rx hrx
          simp only [List.append_nil, List.mem_append] at hrx
          rcases hrx with hrx | hrx
          · exact hl rx hrx
          · exact hall rx hrx
      · rintro ⟨hi, hr, hall⟩
        obtain ⟨info', hi', hd⟩ := hr g (List.mem_cons_self ..)
        rw [hk] at hi'; cases hi'
        exact ⟨⟨hi, hd, fun rx hrx => hall rx (by simp [hrx])⟩,
          fun g' hg' => hr g' (List.mem_cons_of_mem _ hg'), fun rx hrx => hall rx (by simp [hrx])⟩

/-- **what `ManageChildren` reports** (dynamic apply): along any branch, the returned error list is empty exactly when
    every kind was found by discovery, no decision was an error (failed merge, unknown method), and every response was a
    success or the benign reason of its write. So a non-benign failure of any single write always surfaces. -/
theorem C12_manage_errors (mks sys : List String) (children : List ChildRes) (kt : KindTable) (parentRef : OwnerRef)
    (observed desired : ObjMap) (memo : Memo) (l : List (Req × Resp)) (errs : List String) (memo' : Memo)
    (h : Trace (manageChildren mks sys children none kt parentRef observed desired memo) l (errs, memo')) :
    errs = [] ↔
      ((∀ g ∈ observed, ∃ info, kt.find (gvkAPIVersion g.1) g.1.kind = some info) ∧
       (∀ g ∈ desired, ∃ info, kt.find (gvkAPIVersion g.1) g.1.kind = some info ∧
          ∀ nd ∈ g.2, ¬ DecisionError mks sys (getMethod children info.group g.1.kind) ((observed.group g.1).lookup nd.1) nd.2) ∧
       ∀ rx ∈ l, Swallowed rx) := by
  unfold manageChildren at h
  obtain ⟨l1, l2, acc1, rfl, h1, h2⟩ := Trace.bind_inv h
  obtain ⟨l3, l4, acc2, rfl, h3, h4⟩ := Trace.bind_inv h2
  obtain ⟨rfl, h5⟩ := Trace.ret_inv (a := (acc1.1 ++ acc2.1, acc2.2)) h4
  cases h5
  have a := loop_errors (fun (g : GVK × List (String × J)) => kt.find (gvkAPIVersion g.1) g.1.kind)
    (fun info g m => deleteGroup info g.1.kind ((desired.group g.1).map (·.1)) g.2 m) (fun _ _ => True)
    "discovery: can't find kind"
    (fun info g m l errs memo' ht => by
      rw [C12_deleteGroup_errors info g.1.kind _ g.2 m l errs memo' ht]; simp)
    observed ([], memo) l1 acc1.1 acc1.2 h1
  have b := loop_errors (fun (g : GVK × List (String × J)) => kt.find (gvkAPIVersion g.1) g.1.kind)
    (fun info g m => updateGroup mks sys children none info g.1.kind parentRef (observed.group g.1) g.2 m)
    (fun info g => ∀ nd ∈ g.2, ¬ DecisionError mks sys (getMethod children info.group g.1.kind) ((observed.group g.1).lookup nd.1) nd.2)
    "discovery: can't find kind"
    (fun info g m l errs memo' ht =>
      C12_updateGroup_errors mks sys children info g.1.kind parentRef (observed.group g.1) g.2 m l errs memo' ht)
    desired ([], acc1.2) l3 acc2.1 acc2.2 h3
  simp only [List.append_eq_nil_iff, a, b, true_and, and_true, List.append_nil, List.mem_append]
  constructor
  · rintro ⟨⟨ho, hl1⟩, hd, hl3⟩
    exact ⟨ho, hd, fun rx hrx => hrx.elim (hl1 rx) (hl3 rx)⟩
  · rintro ⟨ho, hd, hall⟩
    exact ⟨⟨ho, fun rx hrx => hall rx (Or.inl hrx)⟩, hd, fun rx hrx => hall rx (Or.inr hrx)⟩

/-! ### C12_error_means_requeue -/

/-- the work queue sees an error (rate-limited requeue) exactly when the sync ended with a plain failure -/
theorem C12_error_means_requeue (r : SyncRes) :
    (finalOf r).outcome = .error ↔ ∃ m, r.result = .error (.fail m) := by
  unfold finalOf
  cases hr : r.result with
  | ok u => cases u; simp
  | error e => cases e <;> simp

theorem C12_error_keeps_after (r : SyncRes) (m : String) (h : r.result = .error (.fail m)) :
    finalOf r = { outcome := .error, after := r.after, memo := r.memo } := by
  simp [finalOf, h]

/-- a 429 of the hook is not an error for the queue: the key is forgotten and re-added after the delay the hook asked
    for (seconds → milliseconds), after the delays already queued -/
theorem C12_tooMany_requeue_after (r : SyncRes) (n : Int) (h : r.result = .error (.tooMany n)) :
    (finalOf r).outcome = .ok ∧ (finalOf r).after = r.after ++ [n * 1000] ∧ (finalOf r).memo = r.memo := by
  simp [finalOf, h]

theorem C12_ok_outcome (r : SyncRes) (h : r.result = .ok ()) :
    finalOf r = { outcome := .ok, after := r.after, memo := r.memo } := by
  simp [finalOf, h]

/-- a panic outcome only comes from a panic result -/
theorem C12_panic_iff (r : SyncRes) : (finalOf r).outcome = .panic ↔ ∃ m, r.result = .error (.panic m) := by
  unfold finalOf
  cases hr : r.result with
  | ok u => cases u; simp
  | error e => cases e <;> simp

/-- the composite hook call: one hook request; a 429 becomes `tooMany` -/
theorem C12_composite_429 (c : Cfg) (parent : J) (observed related : ObjMap) :
    ∃ req k, callHookComposite c parent observed related = Prog.call req k ∧ req.isHook = true ∧
      ∀ n, k (.hook429 n) = .ret (.error (.tooMany n)) := by
  unfold callHookComposite
  exact ⟨_, _, rfl, rfl, fun n => rfl⟩

/-- the decorator hook call: a 429 is a plain failure (rate-limited requeue, the delay is ignored) -/
theorem C12_decorator_429 (c : DCfg) (parent : J) (observed related : ObjMap) :
    ∃ req k, callHookDecorator c parent observed related = Prog.call req k ∧ req.isHook = true ∧
      ∀ n, ∃ m, k (.hook429 n) = .ret (.error (.fail m)) := by
  unfold callHookDecorator
  exact ⟨_, _, rfl, rfl, fun n => ⟨_, rfl⟩⟩

-- non-vacuity
example : (finalOf { after := [5000], memo := [], result := .error (.tooMany 3) }).after = [5000, 3000] := by decide
example : Swallowed (.api .update ⟨"g", "r", "ns", "n"⟩ .null .null, .err "Conflict") := by
  simp [Swallowed, benignOf, Req.verb?, verdict]
example : ¬ Swallowed (.api .create ⟨"g", "r", "ns", "n"⟩ .null .null, .err "Conflict") := by
  simp [Swallowed, benignOf, Req.verb?, verdict]
example : ¬ Swallowed (.api .delete ⟨"g", "r", "ns", "n"⟩ .null .null, .err "Conflict") := by
  simp [Swallowed, benignOf, Req.verb?, verdict]

-- a concrete `ManageChildren`: the two requests are fixed in advance, and a Forbidden on the first does not stop the second
def exInfo : KindInfo := { group := "", resource := "configmaps", namespaced := true }
def exKt : KindTable := [(("v1", "ConfigMap"), exInfo)]
def exGVK : GVK := { group := "", version := "v1", kind := "ConfigMap" }
def exRef : OwnerRef :=
  { apiVersion := "ex/v1", kind := "P", name := "p", uid := "u-p", controller := some true, blockOwnerDeletion := some true }
def exObs : J := .obj [("apiVersion", .str "v1"), ("kind", .str "ConfigMap"),
  ("metadata", .obj [("name", .str "old"), ("namespace", .str "ns"), ("uid", .str "u-old")])]
def exDes : J := .obj [("apiVersion", .str "v1"), ("kind", .str "ConfigMap"),
  ("metadata", .obj [("name", .str "new"), ("namespace", .str "ns")])]

example : manageReqs ["name"] ["uid"] [] exKt exRef [(exGVK, [("ns/old", exObs)])] [(exGVK, [("ns/new", exDes)])] =
    [.api .delete ⟨"", "configmaps", "ns", "old"⟩ .null (deleteOpts "u-old"),
     .api .create ⟨"", "configmaps", "ns", "new"⟩ (createBody exRef exDes) .null] := rfl

-- the branch where the delete is refused and the create succeeds: one error is reported
example : Trace (manageChildren ["name"] ["uid"] [] none exKt exRef [(exGVK, [("ns/old", exObs)])] [(exGVK, [("ns/new", exDes)])] [])
    [(.api .delete ⟨"", "configmaps", "ns", "old"⟩ .null (deleteOpts "u-old"), .err "Forbidden"),
     (.api .create ⟨"", "configmaps", "ns", "new"⟩ (createBody exRef exDes) .null, .obj .null)]
    (["can't delete: Forbidden"], []) :=
  .call _ _ _ _ _ (.call _ _ _ _ _ (.ret _))

-- the branch where the delete hits NotFound and the create AlreadyExists: nothing is reported
example : Trace (manageChildren ["name"] ["uid"] [] none exKt exRef [(exGVK, [("ns/old", exObs)])] [(exGVK, [("ns/new", exDes)])] [])
    [(.api .delete ⟨"", "configmaps", "ns", "old"⟩ .null (deleteOpts "u-old"), .err "NotFound"),
     (.api .create ⟨"", "configmaps", "ns", "new"⟩ (createBody exRef exDes) .null, .err "AlreadyExists")]
    ([], []) :=
  .call _ _ _ _ _ (.call _ _ _ _ _ (.ret _))

end Mc.C12
