import Mc.Proofs.SyncFootprint
/-
  C09 - rollout intent is persisted before acting: within one sync every ControllerRevision write
  precedes every create / delete / apply / patch of a child, and a failed ControllerRevision write
  ends the sync before any child is written. Theorems about the whole `Prog` tree: every branch,
  i.e. every possible sequence of API-server and webhook answers.
-/
namespace Mc.C09
open Mc Prog

/-- neither the parent resource nor a child resource of the controller is the ControllerRevision resource
    itself (otherwise the request classes "revision write" and "parent / child write" overlap) -/
def NoRevResources (c : Cfg) : Prop :=
  ¬ (c.parentGroup = revGroup ∧ c.parentResource = revResource) ∧
  ∀ ch ∈ c.children, ¬ (ch.group = revGroup ∧ ch.resource = revResource)

theorem parentTarget_not_rev (c : Cfg) (h : NoRevResources c) (p : J) :
    ¬ ((c.parentTarget p).group = revGroup ∧ (c.parentTarget p).resource = revResource) := h.1

/-- footprint of the tail of the sync: the parent object (whatever name the API server returned for it)
    and the configured child resources -/
theorem tail_footprint {P : Req → Prop} (c : Cfg) (parent : J) (observed : ObjMap) (resp : CompResp) (memo : Memo)
    (hpar : ∀ (p : J) (v : Verb) (b : J), P (.api v (c.parentTarget p) b .null))
    (hch : ∀ ch ∈ c.children, ∀ (v : Verb) (ns name : String) (b o : J), v ≠ .get →
      P (.api v (targetOf ch.group ch.resource ch.namespaced ns name) b o)) :
    AllCalls P (compositeTail c parent observed resp memo) := by
  apply compositeTail_calls
  · intro p
    exact ⟨hpar p _ _, fun b => hpar p _ b, fun b => hpar p _ b⟩
  · intro av k info hinfo v ns name b o hv
    obtain ⟨ch, hmem, hg, hr, hn⟩ := Cfg.kindTable_find c av k info hinfo
    rw [hg, hr, hn]
    exact hch ch hmem v ns name b o hv

/-- C09.1 - after the hook result has been turned into revisions, the tail of the sync (finalizer removal,
    children, parent status) never writes a ControllerRevision -/
theorem C09_tail_no_revision_write (c : Cfg) (parent : J) (observed : ObjMap) (resp : CompResp) (memo : Memo)
    (h : NoRevResources c) :
    NoQ (fun r => r.isRevWrite = true) (compositeTail c parent observed resp memo) := by
  apply tail_footprint
  · intro p v b
    simp [Req.isRevWrite_of_not_rev _ _ _ _ (parentTarget_not_rev c h p)]
  · intro ch hmem v ns name b o _
    have := h.2 ch hmem
    simp [Req.isRevWrite_of_not_rev v (targetOf ch.group ch.resource ch.namespaced ns name) b o (by simpa [targetOf] using this)]

/-- C09.2a - claiming children only reads the parent and reads / updates children (adopt, release) -/
theorem C09_head_no_child_mutation_claim (c : Cfg) (cache : Cache) (parent : J) (pt : Target) :
    NoQ (fun r => r.isChildMutation pt = true) (claimChildren c cache parent) := by
  apply claimChildren_calls
  · simp [Req.isChildMutation_of_verb]
  · intro ch _ ns name
    simp [Req.isChildMutation_of_verb]

/-- C09.2b - the related-object lookup only calls the customize hook -/
theorem C09_head_no_child_mutation_related (enabled pn : Bool) (relRes : List ChildRes) (cache : Cache) (parent : J)
    (cached : CustCache) (pt : Target) :
    NoQ (fun r => r.isChildMutation pt = true) (getRelatedObjects enabled pn relRes cache parent cached) := by
  apply getRelatedObjects_calls
  intro n q
  simp [Req.isChildMutation_of_not_child pt _ (Req.isChild_hook pt n q)]

/-- C09.2c - the revision phase calls hooks, reads the parent, and reads / writes ControllerRevisions only -/
theorem C09_head_no_child_mutation_revisions (c : Cfg) (cache : Cache) (parent : J) (observed related : ObjMap)
    (name : String) (pt : Target) :
    NoQ (fun r => r.isChildMutation pt = true) (syncRevisions c cache parent observed related name) := by
  apply syncRevisions_calls
  · intro n q
    simp [Req.isChildMutation_of_not_child pt _ (Req.isChild_hook pt n q)]
  · simp [Req.isChildMutation_of_verb]
  · intro v n b o
    simp [Req.isChildMutation_of_not_child pt _ (Req.isChild_revTarget v pt b o _ n)]

/-- C09.2 - nothing before the tail of the sync creates, deletes, applies or patches a child
    (for any target `pt` taken as "the parent") -/
theorem C09_head_no_child_mutation (c : Cfg) (cache : Cache) (parent : J) (observed related : ObjMap)
    (name : String) (cached : CustCache) (pt : Target) :
    NoQ (fun r => r.isChildMutation pt = true) (claimChildren c cache parent) ∧
    NoQ (fun r => r.isChildMutation pt = true)
      (getRelatedObjects c.customize c.parentNamespaced c.related cache parent cached) ∧
    NoQ (fun r => r.isChildMutation pt = true) (syncRevisions c cache parent observed related name) :=
  ⟨C09_head_no_child_mutation_claim c cache parent pt,
   C09_head_no_child_mutation_related _ _ _ cache parent cached pt,
   C09_head_no_child_mutation_revisions c cache parent observed related name pt⟩

/-- the continuation after `syncRevisions` never writes a ControllerRevision -/
theorem tailCont_no_revision_write (c : Cfg) (parent : J) (observed : ObjMap) (h : Hidden) (cust : CustCache)
    (hc : NoRevResources c) (resp : Except Err CompResp) :
    NoQ (fun r => r.isRevWrite = true) (tailCont c parent observed h cust resp) := by
  unfold tailCont
  split
  · exact .ret _
  · exact AllCalls.bind (C09_tail_no_revision_write c parent observed _ h.memo hc) (fun _ => .ret _)

/-- C09.3 - order: in the sync after the finalizer phase (`afterFinalizer`, see `syncParentObjectFull_eq`),
    on every branch, no ControllerRevision write comes after a create / delete / apply / patch of a child -/
theorem C09_order (c : Cfg) (cache : Cache) (parent : J) (name : String) (h : Hidden) (pt : Target)
    (hc : NoRevResources c) :
    NoPAfterQ (fun r => r.isRevWrite = true) (fun r => r.isChildMutation pt = true)
      (afterFinalizer c cache parent name h) := by
  unfold afterFinalizer
  have h1 := C09_head_no_child_mutation_claim c cache parent pt
  refine NoPAfterQ.bind (.of_noQ h1) (fun ob => ?_) (Or.inl h1)
  cases ob with
  | error e => exact .ret _
  | ok observed =>
    have h2 := C09_head_no_child_mutation_related c.customize c.parentNamespaced c.related cache parent h.customize pt
    refine NoPAfterQ.bind (.of_noQ h2) (fun rel => ?_) (Or.inl h2)
    cases rel with
    | error e => exact .ret _
    | ok rc =>
      obtain ⟨related, cust⟩ := rc
      exact NoPAfterQ.seq (C09_head_no_child_mutation_revisions c cache parent observed related name pt)
        (tailCont_no_revision_write c parent observed h cust hc)

/-- C09.3, for the whole `syncParentObjectFull`: the finalizer phase only touches the parent object -/
theorem C09_order_full (c : Cfg) (cache : Cache) (parent : J) (name : String) (h : Hidden) (pt : Target)
    (hc : NoRevResources c) :
    NoPAfterQ (fun r => r.isRevWrite = true) (fun r => r.isChildMutation pt = true)
      (syncParentObjectFull c cache parent name h) := by
  rw [syncParentObjectFull_eq]
  split
  · exact .ret _
  · have hfin : NoQ (fun r => r.isChildMutation pt = true) (c.finalizer.syncObject (c.parentTarget parent) parent) := by
      unfold Finalizer.syncObject
      split
      · exact .ret _
      · split
        · split
          · exact .ret _
          · exact atomicLoop_calls _ _ _ _ _ (by simp [Req.isChildMutation_of_verb]) (by simp [Req.isChildMutation_of_verb]) _
        · exact atomicLoop_calls _ _ _ _ _ (by simp [Req.isChildMutation_of_verb]) (by simp [Req.isChildMutation_of_verb]) _
    refine NoPAfterQ.bind (.of_noQ hfin) (fun r => ?_) (Or.inl hfin)
    unfold finalizerCont
    split
    · exact .ret _
    · split
      · exact .ret _
      · exact C09_order c cache _ name h pt hc

/-- C09.4a - `manageRevisions` aborts on the first failure: after an error answer to one of its requests
    (all of them ControllerRevision writes) it issues no further request at all, and it returns an error -/
theorem C09_manageRevisions_failed_write_stops (ns : String) (observed : List J) (desired : List (J × List CGroup)) :
    HaltsAfter (fun _ x => x.isErr = true) (fun _ => True) (manageRevisions ns observed desired) ∧
    AllCalls (fun r => r.isRevWrite = true) (manageRevisions ns observed desired) := by
  refine ⟨(manageRevisions_haltsAfterR ns observed desired).toHaltsAfter, ?_⟩
  apply manageRevisions_calls
  intro v name b o hv
  rcases hv with rfl | rfl | rfl <;>
    simp [Req.isRevWrite, Req.isRevision_revTarget, Req.isWrite, Req.verb?, Verb.isWrite]

/-- C09.4b - once a ControllerRevision write of the revision phase proper (everything after the revisions
    have been claimed, see `syncRevisions_eq`) is answered with an error, the sync issues no request any more:
    the error travels through `syncRevisionsFrom` and `tailCont` returns at once -/
theorem C09_failed_revision_write_stops_partial (c : Cfg) (parent : J) (observed related : ObjMap) (name : String)
    (revs : List J) (h : Hidden) (cust : CustCache) (hc : NoRevResources c) :
    HaltsAfter (fun r x => r.isRevWrite = true ∧ x.isErr = true) (fun _ => True)
      (Prog.bind (syncRevisionsFrom c parent observed related name revs) (tailCont c parent observed h cust)) := by
  refine HaltsAfter.bind (syncRevisionsFrom_haltsAfterR c parent observed related name revs) (fun resp => ?_) (fun resp hr => ?_)
  · apply HaltsAfter.of_noG
    exact (tailCont_no_revision_write c parent observed h cust hc resp).mono (fun r hr x hx => hr hx.1)
  · cases resp with
    | ok a => exact hr.elim
    | error e => exact .ret _

/-- in particular no child is written any more -/
theorem C09_failed_revision_write_stops_children (c : Cfg) (parent : J) (observed related : ObjMap) (name : String)
    (revs : List J) (h : Hidden) (cust : CustCache) (hc : NoRevResources c) (pt : Target) :
    HaltsAfter (fun r x => r.isRevWrite = true ∧ x.isErr = true) (fun r => r.isChildWrite pt = true)
      (Prog.bind (syncRevisionsFrom c parent observed related name revs) (tailCont c parent observed h cust)) :=
  (C09_failed_revision_write_stops_partial c parent observed related name revs h cust hc).mono
    (fun _ _ hg => hg) (fun _ _ => True.intro)

/-! ### C09.4 for the whole revision phase: which failures count -/

/-- why C09.4 excludes NotFound / Gone: such an answer to the update that releases a ControllerRevision is
    swallowed by `claimOne` - no error is reported, the sync goes on -/
theorem claimOne_release_swallows (cx : ClaimCtx) (obj : J) (st : AdoptState)
    (hdec : claimDecision (getUID cx.parent) (isDeleting cx.parent) (cx.selector.matches (labelsOf obj)) obj = .release)
    (hr : cx.clientRefuses = false) :
    ∃ K, claimOne cx obj st =
        Prog.bind (atomicLoop (cx.childT obj) (getUID obj)
          (fun cur => some (cx.setRefs cur (removeOwnerReference (getOwnerRefs cur) (getUID cx.parent))))
          .update cx.goneReason retrySteps) K ∧
      K (.error "NotFound") = .ret ((false, none), st) ∧ K (.error "Gone") = .ret ((false, none), st) := by
  unfold claimOne
  rw [hdec]
  simp only [hr]
  exact ⟨_, rfl, rfl, rfl⟩

/-- … and the loop hands a NotFound answer to its write straight back -/
theorem atomicLoop_write_notFound (t : Target) (uid : String) (g : J → J) (verb : Verb) (gone : String) (n : Nat) :
    ∃ k, atomicLoop t uid (fun cur => some (g cur)) verb gone (n + 1) = .call (.api .get t .null .null) k ∧
      ∀ cur, getUID cur = uid → ∃ k2, k (.obj cur) = .call (.api verb t (g cur) .null) k2 ∧
        k2 (.err "NotFound") = .ret (.error "NotFound") := by
  atomic_unfold
  refine ⟨_, rfl, fun cur hu => ?_⟩
  simp only [hu, bne_self_eq_false, Bool.false_eq_true, ↓reduceIte]
  exact ⟨_, rfl, rfl⟩

/-- C09.4 - the whole revision phase followed by the tail: once a ControllerRevision write is answered with a
    *hard* error (any reason but NotFound / Gone / Conflict), no child is written any more in this sync.
    (NotFound and Gone answers to the adopt / release updates of `claimRevisions` are swallowed by the claim
    logic and a Conflict is retried, so for those the sync legitimately goes on: see the report.) -/
theorem C09_failed_revision_write_stops (c : Cfg) (cache : Cache) (parent : J) (observed related : ObjMap)
    (name : String) (h : Hidden) (cust : CustCache) (pt : Target) (hc : NoRevResources c) :
    HaltsAfter RevWriteHardFailed (fun r => r.isChildWrite pt = true)
      (Prog.bind (syncRevisions c cache parent observed related name) (tailCont c parent observed h cust)) := by
  refine HaltsAfter.bind (syncRevisions_hardHalts c cache parent observed related name pt) (fun resp => ?_) (fun resp hr => ?_)
  · apply HaltsAfter.of_noG
    exact (tailCont_no_revision_write c parent observed h cust hc resp).mono (fun r hr x hx => hr hx.1)
  · cases resp with
    | ok a => exact hr.elim
    | error e => exact .ret _

/-! ### non-vacuity: a controller with one rolling child resource -/

def exCfg : Cfg :=
  { name := "ex", parentGroup := "example.com", parentVersion := "v1", parentKind := "Thing", parentResource := "things",
    parentNamespaced := true, parentHasStatus := true,
    children := [{ apiVersion := "v1", resource := "pods", kind := "Pod", namespaced := true, hasStatus := true,
                   method := some "RollingRecreate" }],
    generateSelector := true, parentSelector := none, finalize := false, customize := false, ssa := false, fieldPaths := [] }

def exParent : J :=
  .obj [("apiVersion", .str "example.com/v1"), ("kind", .str "Thing"),
        ("metadata", .obj [("name", .str "a"), ("namespace", .str "ns"), ("uid", .str "u1")]),
        ("spec", .obj [("replicas", .num 2)])]

def exCache : Cache := { parents := [exParent], children := [], related := [], revisions := [] }

def exResp : CompResp := { status := none, children := [], resyncAfter := 0, finalized := false }

theorem exCfg_noRev : NoRevResources exCfg := by
  refine ⟨by decide, ?_⟩
  intro ch hch
  simp [exCfg] at hch
  subst hch
  simp [revResource]

example : exCfg.anyRolling = true := by decide

example : NoQ (fun r => r.isRevWrite = true) (compositeTail exCfg exParent [] exResp []) :=
  C09_tail_no_revision_write exCfg exParent [] exResp [] exCfg_noRev

example : NoQ (fun r => r.isChildMutation (exCfg.parentTarget exParent) = true) (syncRevisions exCfg exCache exParent [] [] "rev1") :=
  C09_head_no_child_mutation_revisions exCfg exCache exParent [] [] "rev1" _

example : NoPAfterQ (fun r => r.isRevWrite = true) (fun r => r.isChildMutation (exCfg.parentTarget exParent) = true)
    (syncParentObjectFull exCfg exCache exParent "rev1" {}) :=
  C09_order_full exCfg exCache exParent "rev1" {} _ exCfg_noRev

example : HaltsAfter RevWriteHardFailed (fun r => r.isChildWrite (exCfg.parentTarget exParent) = true)
    (Prog.bind (syncRevisions exCfg exCache exParent [] [] "rev1") (tailCont exCfg exParent [] {} none)) :=
  C09_failed_revision_write_stops exCfg exCache exParent [] [] "rev1" {} none _ exCfg_noRev

/-- the guard of C09.4 is met by real requests: `manageRevisions` creating the first revision in namespace `ns`
    issues a ControllerRevision write, and a `Forbidden` answer to it is a hard failure -/
example : RevWriteHardFailed (.api .create (revTarget "ns" "rev1") .null .null) (.err "Forbidden") := by
  refine ⟨by decide, "Forbidden", rfl, by decide, by decide, by decide⟩

example : NoPAfterQ (fun r => r.isRevWrite = true) (fun r => r.isChildMutation (exCfg.parentTarget exParent) = true)
    (afterFinalizer exCfg exCache exParent "rev1" {}) :=
  C09_order exCfg exCache exParent "rev1" {} _ exCfg_noRev

/-- a first revision to be recorded -/
def exRev : J := .obj [("metadata", .obj [("name", .str "rev1"), ("namespace", .str "ns")]), ("parentPatch", .obj [])]

/-- `manageRevisions` does write: recording the first revision is a create of a ControllerRevision … -/
example : ∃ k, manageRevisions "ns" [] [(exRev, [])] =
    .call (.api .create (revTarget "ns" "rev1") (setRevChildren exRev []) .null) k := ⟨_, rfl⟩

/-- … and C09.4a applies to it -/
example : HaltsAfter (fun _ x => x.isErr = true) (fun _ => True) (manageRevisions "ns" [] [(exRev, [])]) :=
  (C09_manageRevisions_failed_write_stops "ns" [] [(exRev, [])]).1

example : HaltsAfter (fun r x => r.isRevWrite = true ∧ x.isErr = true) (fun _ => True)
    (Prog.bind (syncRevisionsFrom exCfg exParent [] [] "rev1" []) (tailCont exCfg exParent [] {} none)) :=
  C09_failed_revision_write_stops_partial exCfg exParent [] [] "rev1" [] {} none exCfg_noRev

end Mc.C09
