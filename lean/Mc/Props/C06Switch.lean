import Mc.Props.C06
import Mc.Generated
/-
  C06, regenerated tie: the strategy switch of `updateChildren` is re-read from the Go source on every run
  (tools/extract: per case clause the method names, the client verbs called in it, the apierrors predicates tested in
  it) and must be the table the model's `updateAct` / `childStep` implement.  A case moved to another branch, a new
  verb in a branch, a newly swallowed (or no longer swallowed) error kind changes `Generated.updateMethodSwitch` and
  breaks `C06_switch_extracted`.
-/
namespace Mc
namespace C06

/-- the switch as the model has it (per group of method names: verb sent for a differing child, error kinds swallowed) -/
def modelSwitch : List (List String × List String × List String) :=
  [(["OnDelete", ""], [], []),
   (["Recreate", "RollingRecreate"], ["Delete"], ["IsNotFound"]),
   (["InPlace", "RollingInPlace"], ["Update"], ["IsNotFound", "IsConflict"]),
   (["<default>"], [], [])]

/-- **the extracted switch is the model's** -/
theorem C06_switch_extracted : Generated.updateMethodSwitch = modelSwitch := by decide

/-- what the table means in the model: for a child that differs (and is not pending deletion) the groups of `modelSwitch`
    decide nothing / delete guarded by the observed UID / update with the merged object; any other method is an error -/
theorem C06_modelSwitch_sound (mks sys : List String) (obs des new : J)
    (h : applyUpdate mks sys obs des = .ok new) (hd : new.eqv obs = false) (hn : isDeleting obs = false) :
    (∀ m ∈ ["OnDelete", ""], updateAct mks sys m obs des = .none) ∧
    (∀ m ∈ ["Recreate", "RollingRecreate"], updateAct mks sys m obs des = .delete (getUID obs)) ∧
    (∀ m ∈ ["InPlace", "RollingInPlace"], updateAct mks sys m obs des = .update new) ∧
    (∀ m, m ∉ ["OnDelete", "", "Recreate", "RollingRecreate", "InPlace", "RollingInPlace"] →
      ∃ e, updateAct mks sys m obs des = .error e) := by
  refine ⟨?_, ?_, ?_, ?_⟩
  · intro m hm
    simp at hm
    rcases hm with rfl | rfl <;> simp [updateAct, h, hd, hn]
  · intro m hm
    simp at hm
    rcases hm with rfl | rfl <;> simp [updateAct, h, hd, hn]
  · intro m hm
    simp at hm
    rcases hm with rfl | rfl <;> simp [updateAct, h, hd, hn]
  · intro m hm
    simp at hm
    obtain ⟨h1, h2, h3, h4, h5, h6⟩ := hm
    refine ⟨s!"invalid update strategy: unknown method {m}", ?_⟩
    simp only [updateAct, h, hd, hn, Bool.false_eq_true, if_false]

end C06
end Mc
