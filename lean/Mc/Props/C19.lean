import Mc.Hook
/-
  C19 - hook transport: only 200 / valid 304 is an answer; cached bodies match their ETag.
-/
namespace Mc.C19
open Mc.Hook

theorem supported_iff (m : Mode) (inm : String) (st : Nat) :
    statusSupported m inm st = true ↔ st = 200 ∨ (m.etagEnabled = true ∧ (st = 304 ∨ st = 412) ∧ inm ≠ "") := by
  simp [statusSupported, and_assoc]

/-- a hook call succeeds only on 200 or - ETag support on and If-None-Match sent - on 304/412 -/
theorem C19_success_status (m : Mode) (inm : String) (a : Answer) (cache : ECache) (b : Body)
    (h : (finish m inm a cache).1 = .ok b) :
    a.status = 200 ∨ (m.etagEnabled = true ∧ inm ≠ "" ∧ (a.status = 304 ∨ a.status = 412)) := by
  unfold finish at h
  by_cases h429 : (a.status == 429) = true
  · simp [h429] at h
  · by_cases hsup : statusSupported m inm a.status = true
    · rcases (supported_iff m inm a.status).mp hsup with h200 | ⟨he, hs, hi⟩
      · exact .inl h200
      · exact .inr ⟨he, hi, hs⟩
    · simp [h429, hsup] at h

theorem decode_ok (m : Mode) (x b : Body) (h : decode m x = .ok b) : x = b := by
  unfold decode at h
  cases hc : x.cls <;> simp [hc] at h
  · exact h
  · split at h <;> simp at h; exact h
  · split at h <;> simp at h; exact h

/-- on 304/412 the body used is the one cached together with exactly the ETag that was sent -/
theorem C19_304_body (m : Mode) (inm : String) (a : Answer) (cache : ECache) (b : Body)
    (hs : a.status = 304 ∨ a.status = 412) (h : (finish m inm a cache).1 = .ok b) :
    ∃ e, cache = some e ∧ e.etag = inm ∧ e.body = b ∧ inm ≠ "" := by
  have h429 : (a.status == 429) = false := by rcases hs with hs | hs <;> simp [hs]
  have h200 : a.status ≠ 200 := by rcases hs with hs | hs <;> simp [hs]
  unfold finish at h
  by_cases hsup : statusSupported m inm a.status = true
  · rcases (supported_iff m inm a.status).mp hsup with h2 | ⟨he, _, hi⟩
    · exact absurd h2 h200
    · have hcond : (inm != "" && (a.status == 304 || a.status == 412)) = true := by
        rcases hs with hs | hs <;> simp [hi, hs]
      simp only [h429, hsup, he, Bool.not_true, Bool.false_eq_true, ↓reduceIte, hcond] at h
      cases hc : cache with
      | none => simp [hc] at h
      | some e =>
        simp only [hc] at h
        by_cases hne : e.etag = inm
        · have h0 : (e.etag != inm) = false := by simp [hne]
          simp only [h0, Bool.false_eq_true, ↓reduceIte] at h
          exact ⟨e, rfl, hne, decode_ok m _ _ h, hi⟩
        · have h1 : (e.etag != inm) = true := by simp [hne]
          simp [h1] at h
  · simp [h429, hsup] at h

/-- any other status is an error; 429 yields the delay given by Retry-After -/
theorem C19_429 (m : Mode) (inm : String) (a : Answer) (cache : ECache) (h : a.status = 429) :
    finish m inm a cache = (.tooMany (retrySeconds a.retryAfter), cache) := by
  simp [finish, h]

theorem C19_retry_table :
    retrySeconds .absent = 0 ∧ retrySeconds .garbage = 0 ∧ (∀ n, retrySeconds (.numeric n) = n) ∧ (∀ d, retrySeconds (.date d) = d) := by
  simp [retrySeconds]

theorem C19_other_status_error (m : Mode) (inm : String) (a : Answer) (cache : ECache)
    (h1 : a.status ≠ 200) (h2 : a.status ≠ 304) (h3 : a.status ≠ 412) :
    (finish m inm a cache).1.isOk = false := by
  unfold finish
  split
  · simp [Result.isOk]
  · have : statusSupported m inm a.status = false := by simp [statusSupported, h1, h2, h3]
    simp [this, Result.isOk]

/-- 304 without an If-None-Match header sent is never an answer -/
theorem C19_304_needs_inm (m : Mode) (a : Answer) (cache : ECache) (hs : a.status = 304 ∨ a.status = 412) :
    (finish m "" a cache).1.isOk = false := by
  have h429 : (a.status == 429) = false := by rcases hs with hs | hs <;> simp [hs]
  have : statusSupported m "" a.status = false := by rcases hs with hs | hs <;> simp [statusSupported, hs]
  simp [finish, h429, this, Result.isOk]

/-- strict/loose table -/
theorem C19_strict_table (m : Mode) (b : Body) :
    (b.cls = .valid → decode m b = .ok b) ∧
    (b.cls = .invalid → decode m b = .undecodable) ∧
    ((b.cls = .unknownFields ∨ b.cls = .duplicateFields) → decode m b = (if m.strict then .strictRejected else .ok b)) := by
  refine ⟨?_, ?_, ?_⟩
  · intro h; simp [decode, h]
  · intro h; simp [decode, h]
  · rintro (h | h) <;> simp [decode, h]

/-- without ETag support the cache is never touched -/
theorem C19_plain_cache_untouched (m : Mode) (inm : String) (a : Answer) (cache : ECache) (h : m.etagEnabled = false) :
    (finish m inm a cache).2 = cache := by
  unfold finish
  split
  · rfl
  · split
    · rfl
    · simp [h]

/-- history invariant: whatever the interleaving, the cache entry (if any) is the initial entry or was
    written by some earlier `Set` together with its ETag -/
def Inv (init : ECache) (s : State) : Prop :=
  s.cache = init ∨ ∃ e ∈ s.sets, s.cache = some e

/-- a call never clears the cache -/
theorem finish_cache_none (m : Mode) (inm : String) (a : Answer) (cache : ECache)
    (h : (finish m inm a cache).2 = none) : cache = none := by
  unfold finish at h
  by_cases h1 : (a.status == 429) = true
  · simpa [h1] using h
  · by_cases h2 : statusSupported m inm a.status = true
    · by_cases h3 : m.etagEnabled = true
      · by_cases h4 : (inm != "" && (a.status == 304 || a.status == 412)) = true
        · simp only [h1, h2, h3, h4, Bool.not_true, Bool.false_eq_true, ↓reduceIte] at h
          cases hc : cache with
          | none => rfl
          | some e =>
            simp only [hc] at h
            split at h <;> simp at h
        · simp only [h1, h2, h3, h4, Bool.not_true, Bool.false_eq_true, ↓reduceIte] at h
          by_cases h5 : (a.etag != "") = true
          · simp [h5] at h
          · simpa [h5] using h
      · simpa [h1, h2, h3] using h
    · simpa [h1, h2] using h

theorem step_inv (m : Mode) (init : ECache) (s : State) (st : Step) (h : Inv init s) : Inv init (step m s st) := by
  cases st with
  | enrich i => simpa [step, Inv] using h
  | finish i a =>
    simp only [step]
    generalize hf : finish m ((s.inm.lookup i).getD "") a s.cache = f
    obtain ⟨r, c'⟩ := f
    simp only
    by_cases hc : c' = s.cache
    · simp only [hc, ↓reduceIte]
      exact h
    · simp only [hc, ↓reduceIte]
      cases c' with
      | none =>
        exfalso
        have := finish_cache_none m _ a s.cache (by rw [hf])
        exact hc this.symm
      | some e => exact .inr ⟨e, by simp, rfl⟩

theorem run_inv (m : Mode) (init : ECache) (steps : List Step) (s : State) (h : Inv init s) :
    Inv init (run m s steps) := by
  induction steps generalizing s with
  | nil => simpa [run] using h
  | cons st rest ih => exact ih _ (step_inv m init s st h)

/-- for every interleaving of any number of concurrent calls: a call answered 304/412 that succeeds got the body of
    a cache entry carrying exactly the ETag it sent, and that entry is the initial one or was stored by an earlier call -/
theorem C19_304_body_all_schedules (m : Mode) (init : ECache) (steps : List Step) (i : Nat) (a : Answer) (b : Body)
    (hs : a.status = 304 ∨ a.status = 412) :
    let s := run m { cache := init } steps
    (finish m ((s.inm.lookup i).getD "") a s.cache).1 = .ok b →
    ∃ e, s.cache = some e ∧ e.etag = (s.inm.lookup i).getD "" ∧ e.body = b ∧ (some e = init ∨ e ∈ s.sets) := by
  intro s h
  obtain ⟨e, hc, he, hb, _⟩ := C19_304_body m _ a s.cache b hs h
  refine ⟨e, hc, he, hb, ?_⟩
  have hinv : Inv init s := run_inv m init steps { cache := init } (.inl rfl)
  rcases hinv with h0 | ⟨e', he', hc'⟩
  · left; rw [← hc, h0]
  · right
    rw [hc] at hc'
    cases hc'
    exact he'

-- non-vacuity: a schedule where call 1 replaces the entry between call 0's enrich and finish; call 0's 304 is refused
example :
    let m : Mode := { etagEnabled := true, strict := false }
    let b0 : Body := { id := "b0", cls := .valid }
    let b1 : Body := { id := "b1", cls := .valid }
    let s := run m { cache := some { etag := "e0", body := b0 } }
      [.enrich 0, .enrich 1, .finish 1 { status := 200, etag := "e1", body := b1, retryAfter := .absent },
       .finish 0 { status := 304, etag := "", body := { id := "", cls := .invalid }, retryAfter := .absent }]
    s.results.lookup 0 = some .cacheMiss ∧ s.results.lookup 1 = some (.ok b1) := by decide

end Mc.C19
