import Mc.Proofs.SyncFootprint
import Mc.Props.C10Sync
/-
  C11 - parent status: `updateParentStatus` is a read-modify-write of the parent object only; what it
  writes is the object it just read with `.status` replaced by the hook's status plus `observedGeneration`;
  nothing is written when the live object is another incarnation (UID) or already has that status; at most
  `retrySteps` attempts; and it runs whatever happened to the children.
-/
namespace Mc.C11
open Mc Prog

/-- the status the sync wants to see on the parent -/
def wantedStatus (parent : J) (status : Option KVs) : J :=
  .obj (setKey "observedGeneration" (.num (getGeneration parent)) (status.getD []))

/-- the verb of the status write: the status subresource when the parent resource has one -/
def statusVerb (c : Cfg) : Verb := if c.parentHasStatus then .updateStatus else .update

theorem statusVerb_isWrite (c : Cfg) : (statusVerb c).isWrite = true := by
  unfold statusVerb; split <;> rfl

theorem statusVerb_ne_get (c : Cfg) : statusVerb c ≠ .get := by
  unfold statusVerb; split <;> decide

/-- `updateParentStatus`, with its parameters named -/
theorem updateParentStatus_eq (c : Cfg) (parent : J) (status : Option KVs) :
    updateParentStatus c parent status =
      atomicLoop (c.parentTarget parent) (getUID parent)
        (fun cur => if ((cur.get? "status").getD .null).eqv (wantedStatus parent status) then none
                    else some (.obj (setKey "status" (wantedStatus parent status) cur.fields)))
        (statusVerb c) "NotFound" retrySteps := rfl

/-- C11.9 - footprint: GETs of the parent and writes of the parent with the one status verb, nothing else -/
theorem C11_footprint (c : Cfg) (parent : J) (status : Option KVs) :
    AllCalls (fun r => r.onTarget (c.parentTarget parent) = true ∧
        (r.verb? = some .get ∨ r.verb? = some (if c.parentHasStatus then .updateStatus else .update)))
      (updateParentStatus c parent status) := by
  apply updateParentStatus_calls
  · exact ⟨Req.onTarget_self _ _ _ _, Or.inl rfl⟩
  · intro b
    exact ⟨Req.onTarget_self _ _ _ _, Or.inr rfl⟩

/-- what a write of `updateParentStatus` must look like, given the answer `x` to the request just before it -/
def StatusWrite (c : Cfg) (parent : J) (status : Option KVs) (x : Resp) (r : Req) : Prop :=
  ∃ cur, x = .obj cur ∧ getUID cur = getUID parent ∧
    ((cur.get? "status").getD .null).eqv (wantedStatus parent status) = false ∧
    r = .api (statusVerb c) (c.parentTarget parent) (.obj (setKey "status" (wantedStatus parent status) cur.fields)) .null

/-- C11.10 - body: every write is issued immediately after a read (the GET of the parent), and it sends the object
    `cur` that this GET returned - same UID as the cached parent, status not yet as wanted - with `.status`
    replaced by the wanted status and every other field untouched -/
theorem C11_body (c : Cfg) (parent : J) (status : Option KVs) :
    WritesFollow (fun r => r.isWrite = true) (StatusWrite c parent status) none (updateParentStatus c parent status) := by
  rw [updateParentStatus_eq]
  have h := atomicLoop_writesFollow (W := fun r => r.isWrite = true) (c.parentTarget parent) (getUID parent)
    (fun cur => if ((cur.get? "status").getD .null).eqv (wantedStatus parent status) then none
                else some (.obj (setKey "status" (wantedStatus parent status) cur.fields)))
    (statusVerb c) "NotFound" (by simp [Req.isWrite, Req.verb?, Verb.isWrite]) retrySteps none
  refine WritesFollow.mono (fun x r hx => ?_) h
  obtain ⟨cur, upd, rfl, hu, hf, rfl⟩ := hx
  refine ⟨cur, rfl, by simpa using hu, ?_, ?_⟩
  · split at hf
    · cases hf
    · rename_i hne; simpa using hne
  · split at hf
    · cases hf
    · cases hf; rfl

/-- the first request of `updateParentStatus`, and what follows each answer -/
theorem updateParentStatus_first (c : Cfg) (parent : J) (status : Option KVs) :
    ∃ k, updateParentStatus c parent status = .call (.api .get (c.parentTarget parent) .null .null) k ∧
      (∀ cur, getUID cur ≠ getUID parent → k (.obj cur) = .ret (.error "NotFound")) ∧
      (∀ cur, getUID cur = getUID parent → ((cur.get? "status").getD .null).eqv (wantedStatus parent status) = true →
        k (.obj cur) = .ret (.ok cur)) ∧
      (∀ e, k (.err e) = .ret (.error e)) := by
  rw [updateParentStatus_eq]
  unfold retrySteps
  unfold atomicLoop
  simp only [Prog.bind_eq, Prog.pure_eq, api, Prog.request, Prog.bind_call, Prog.bind_ret]
  refine ⟨_, rfl, ?_, ?_, ?_⟩
  · intro cur hne
    simp [hne]
  · intro cur he hs
    simp [he, hs]
  · intro e
    rfl

/-- C11.11a - UID guard: if the GET answers another incarnation of the parent, the program returns
    `NotFound` without any write -/
theorem C11_uid_guard (c : Cfg) (parent : J) (status : Option KVs) :
    ∃ k, updateParentStatus c parent status = .call (.api .get (c.parentTarget parent) .null .null) k ∧
      ∀ cur, getUID cur ≠ getUID parent → k (.obj cur) = .ret (.error "NotFound") := by
  obtain ⟨k, h1, h2, _, _⟩ := updateParentStatus_first c parent status
  exact ⟨k, h1, h2⟩

/-- C11.11b - no-op: if the GET answers the parent with the wanted status already in place
    (`reflect.DeepEqual`), the program returns that object without any write -/
theorem C11_skip_equal (c : Cfg) (parent : J) (status : Option KVs) :
    ∃ k, updateParentStatus c parent status = .call (.api .get (c.parentTarget parent) .null .null) k ∧
      ∀ cur, getUID cur = getUID parent →
        ((cur.get? "status").getD .null).eqv (wantedStatus parent status) = true → k (.obj cur) = .ret (.ok cur) := by
  obtain ⟨k, h1, _, h3, _⟩ := updateParentStatus_first c parent status
  exact ⟨k, h1, h3⟩

/-- C11.12 - at most `retrySteps` writes and at most `retrySteps` GETs, on every branch -/
theorem C11_retry_bound (c : Cfg) (parent : J) (status : Option KVs) :
    AtMost (fun r => r.isWrite = true) retrySteps (updateParentStatus c parent status) ∧
    AtMost (fun r => r.verb? = some .get) retrySteps (updateParentStatus c parent status) := by
  rw [updateParentStatus_eq]
  constructor
  · exact atomicLoop_atMost_writes _ _ _ _ _ (by simp [Req.isWrite, Req.verb?, Verb.isWrite]) _
  · refine atomicLoop_atMost_reads _ _ _ _ _ (fun b => ?_) _
    simp only [Req.verb?, Option.some.injEq]
    exact statusVerb_ne_get c

/-- the children phase of `compositeAct` -/
def childrenPhase (c : Cfg) (parent : J) (observed desired : ObjMap) (memo : Memo) : Prog (List String × Memo) :=
  if !isDeleting parent || c.finalizer.shouldFinalize parent then
    manageChildren Generated.knownMergeKeys Generated.objectMetaSystemFields c.children c.ssaManager c.kindTable
      (controllerRefTo (getAPIVersion parent) (getKind parent) parent) observed desired memo
  else .ret ([], memo)

/-- how `compositeAct` ends, given the outcome of the children phase and of the status update -/
def actResult (x : List String × Memo) (st : Except String J) : Memo × Except Err Unit :=
  match st with
  | .error "NotFound" | .error "Conflict" => if x.1.isEmpty then (x.2, .ok ()) else (x.2, .error (.fail "can't reconcile children"))
  | .error e => (x.2, .error (.fail s!"can't update status: {e}"))
  | .ok _ => if x.1.isEmpty then (x.2, .ok ()) else (x.2, .error (.fail "can't reconcile children"))

/-- C11.13 - `compositeAct` is: children phase, then - whatever it returned - the status read-modify-write,
    then the verdict -/
theorem C11_after_child_errors (c : Cfg) (parent : J) (observed desired : ObjMap) (status : Option KVs) (memo : Memo) :
    compositeAct c parent observed desired status memo =
      Prog.bind (childrenPhase c parent observed desired memo) (fun x =>
        Prog.bind (updateParentStatus c parent status) (fun st => .ret (actResult x st))) := by
  have hv : ∀ (x : List String × Memo) (st : Except String J),
      (match st with
        | .error "NotFound" | .error "Conflict" =>
            (if x.1.isEmpty then pure (x.2, .ok ()) else pure (x.2, .error (.fail "can't reconcile children")) : Prog (Memo × Except Err Unit))
        | .error e => pure (x.2, .error (.fail s!"can't update status: {e}"))
        | .ok _ => if x.1.isEmpty then pure (x.2, .ok ()) else pure (x.2, .error (.fail "can't reconcile children")))
      = .ret (actResult x st) := by
    intro x st
    unfold actResult
    split
    · split <;> rfl
    · split <;> rfl
    · rfl
    · split <;> rfl
  unfold compositeAct childrenPhase
  dsimp only
  split
  · exact congrArg (Prog.bind _) (funext fun x => congrArg (Prog.bind _) (funext fun st => hv x st))
  · exact congrArg (Prog.bind _) (funext fun x => congrArg (Prog.bind _) (funext fun st => hv x st))

/-- C11.13, read off: for every result of the children phase the continuation starts with the GET of the parent -/
theorem C11_status_follows_children (c : Cfg) (parent : J) (observed desired : ObjMap) (status : Option KVs) (memo : Memo) :
    ∃ K : List String × Memo → Prog (Memo × Except Err Unit),
      compositeAct c parent observed desired status memo = Prog.bind (childrenPhase c parent observed desired memo) K ∧
      ∀ x, ∃ k, K x = .call (.api .get (c.parentTarget parent) .null .null) k := by
  refine ⟨_, C11_after_child_errors c parent observed desired status memo, fun x => ?_⟩
  obtain ⟨k, hk, _⟩ := updateParentStatus_first c parent status
  rw [hk]
  exact ⟨_, rfl⟩

/-! ### non-vacuity on the example configuration of `Mc/Props/C10Sync.lean` -/

open Mc.C10 in
example : AllCalls (fun r => r.onTarget (exCfg.parentTarget exParent) = true ∧
      (r.verb? = some .get ∨ r.verb? = some .updateStatus))
    (updateParentStatus exCfg exParent (some [("ready", .bool true)])) :=
  C11_footprint exCfg exParent _

/-- another incarnation of the example parent (different UID) -/
def exOther : J :=
  .obj [("apiVersion", .str "example.com/v1"), ("kind", .str "Thing"),
        ("metadata", .obj [("name", .str "a"), ("namespace", .str "ns"), ("uid", .str "u2")])]

/-- the example parent as the API server holds it once the wanted status `{observedGeneration: 0}` is in place -/
def exDone : J :=
  .obj [("apiVersion", .str "example.com/v1"), ("kind", .str "Thing"),
        ("metadata", .obj [("name", .str "a"), ("namespace", .str "ns"), ("uid", .str "u1")]),
        ("status", .obj [("observedGeneration", .num 0)])]

open Mc.C10 in
example : getUID exOther ≠ getUID exParent := by decide

open Mc.C10 in
example : getUID exDone = getUID exParent ∧
    ((exDone.get? "status").getD .null).eqv (wantedStatus exParent none) = true := by decide

open Mc.C10 in
example : ∃ k, updateParentStatus exCfg exParent none = .call (.api .get (exCfg.parentTarget exParent) .null .null) k ∧
    k (.obj exOther) = .ret (.error "NotFound") ∧ k (.obj exDone) = .ret (.ok exDone) := by
  obtain ⟨k, h1, h2, h3, _⟩ := updateParentStatus_first exCfg exParent none
  exact ⟨k, h1, h2 exOther (by decide), h3 exDone (by decide) (by decide)⟩

/-- a write does happen when the live status differs: the discipline of C11.10 is not vacuous -/
theorem C11_write_when_different (c : Cfg) (parent : J) (status : Option KVs) :
    ∃ k, updateParentStatus c parent status = .call (.api .get (c.parentTarget parent) .null .null) k ∧
      ∀ cur, getUID cur = getUID parent → ((cur.get? "status").getD .null).eqv (wantedStatus parent status) = false →
        ∃ k2, k (.obj cur) =
          .call (.api (statusVerb c) (c.parentTarget parent) (.obj (setKey "status" (wantedStatus parent status) cur.fields)) .null) k2 := by
  rw [updateParentStatus_eq]
  unfold retrySteps
  atomic_unfold
  refine ⟨_, rfl, fun cur hu hs => ?_⟩
  simp only [hu, bne_self_eq_false, Bool.false_eq_true, ↓reduceIte, hs]
  exact ⟨_, rfl⟩

open Mc.C10 in
example : AtMost (fun r => r.isWrite = true) 4 (updateParentStatus exCfg exParent none) :=
  (C11_retry_bound exCfg exParent none).1

open Mc.C10 in
example : WritesFollow (fun r => r.isWrite = true) (StatusWrite exCfg exParent none) none
    (updateParentStatus exCfg exParent none) :=
  C11_body exCfg exParent none

open Mc.C10 in
example : ∃ K : List String × Memo → Prog (Memo × Except Err Unit),
    compositeAct exCfg exParent [] [] none [] = Prog.bind (childrenPhase exCfg exParent [] [] []) K ∧
    ∀ x, ∃ k, K x = .call (.api .get (exCfg.parentTarget exParent) .null .null) k :=
  C11_status_follows_children exCfg exParent [] [] none []

end Mc.C11
