import Mc.Generated
/-
  C12, regenerated tie: every place where the sync paths test the kind of an API error (`apierrors.IsNotFound`,
  `IsConflict`, `IsAlreadyExists`, `IsGone`) is re-read from the Go source on every run.  These are exactly the
  "documented benign races" the model tolerates:

    deleteChildren   NotFound                      `deleteGroup`: `.err "NotFound"` is not an error
    updateChildren   NotFound (delete), NotFound / Conflict (update), AlreadyExists (create)   `childStep`: the `verdict` lists
    sync             NotFound                      the parent is gone: nothing to do
    syncParentObject NotFound / Conflict           the parent status write (composite); status + object write (decorator)
    releaseChild / releaseControllerRevision   NotFound, Gone    `claimOne`, release branch
    ClaimObject      NotFound (adopt), NotFound (release)        `claimOne`

  A newly tolerated error kind, or one that is no longer tolerated, changes `Generated.apierrorUses` and breaks
  `C12_tolerated_inventory`; the check then looks for a failing input with the fault streams.
-/
namespace Mc
namespace C12

def toleratedInventory : List (String × String × String) :=
  [("common/manage_children.go", "deleteChildren", "IsNotFound"),
   ("common/manage_children.go", "updateChildren", "IsNotFound"),
   ("common/manage_children.go", "updateChildren", "IsNotFound"),
   ("common/manage_children.go", "updateChildren", "IsConflict"),
   ("common/manage_children.go", "updateChildren", "IsAlreadyExists"),
   ("composite/controller.go", "sync", "IsNotFound"),
   ("composite/controller.go", "syncParentObject", "IsNotFound"),
   ("composite/controller.go", "syncParentObject", "IsConflict"),
   ("decorator/controller.go", "sync", "IsNotFound"),
   ("decorator/controller.go", "syncParentObject", "IsNotFound"),
   ("decorator/controller.go", "syncParentObject", "IsConflict"),
   ("decorator/controller.go", "syncParentObject", "IsNotFound"),
   ("decorator/controller.go", "syncParentObject", "IsConflict"),
   ("controllerref/unstructured.go", "releaseChild", "IsNotFound"),
   ("controllerref/unstructured.go", "releaseChild", "IsGone"),
   ("controllerref/controller_revision.go", "releaseControllerRevision", "IsNotFound"),
   ("controllerref/controller_revision.go", "releaseControllerRevision", "IsGone"),
   ("kubernetes/controller_ref_manager.go", "ClaimObject", "IsNotFound"),
   ("kubernetes/controller_ref_manager.go", "ClaimObject", "IsNotFound")]

/-- **the error kinds the code classifies, and where, are the ones the model tolerates** -/
theorem C12_tolerated_inventory : Generated.apierrorUses = toleratedInventory := by decide

end C12
end Mc
