import Mc.Proofs.ProgLemmasW
import Mc.Spec.ReqClass
import Mc.Proofs.ApiOnly
/-
  C13 - no panic: whatever the API server and the hooks answer, a sync never ends in a panic;
  a hook answer that cannot be decoded fails the sync before anything is written.
-/
namespace Mc.C13
open Prog PE

/-- one step of the mechanical traversal of a `PE` program -/
syntax "pe_step" : tactic
macro_rules
  | `(tactic| pe_step) => `(tactic| first
      | exact PE.avoids_pure _
      | exact PE.avoids_ret_ok _
      | exact PE.avoids_fail (by assumption) _
      | exact PE.avoids_ofExcept (by assumption) _
      | exact PE.avoids_lift _
      | exact PE.avoids_throw _ (by apply_assumption (transparency := .reducible) (exfalso := false) (symm := false))
      | exact PE.avoids_ret_error _ (by apply_assumption (transparency := .reducible) (exfalso := false) (symm := false))
      | assumption
      | refine PE.avoids_mbind ?_ ?_
      | refine PE.avoids_ite (fun _ => ?_) (fun _ => ?_)
      | intro _
      | split
      | dsimp only)

macro "pe_auto" : tactic => `(tactic| repeat pe_step)

variable {E : Err → Prop}

theorem claimChildren_avoids (hF : ∀ m, ¬ E (.fail m)) (c : Cfg) (cache : Cache) (parent : J) :
    Avoids E (claimChildren c cache parent) := by
  unfold claimChildren
  refine avoids_mbind (avoids_ofExcept hF _) (fun selector => ?_)
  refine avoids_foldlM _ _ _ ?_
  intro m ch _
  pe_auto

theorem callHookComposite_avoids (hF : ∀ m, ¬ E (.fail m)) (hT : ∀ n, ¬ E (.tooMany n)) (c : Cfg) (parent : J) (observed related : ObjMap) :
    Avoids E (callHookComposite c parent observed related) := by
  unfold callHookComposite
  pe_auto

theorem compositePrep_avoids (hF : ∀ m, ¬ E (.fail m)) (c : Cfg) (parent : J) (resp : CompResp) :
    Avoids E (compositePrep c parent resp) := by
  unfold compositePrep
  pe_auto

/-- leaves of a program returning `(memo, result)` -/
def AvoidsSnd {α : Type} (E : Err → Prop) (p : Prog (α × Except Err Unit)) : Prop :=
  AllRets (fun r => ∀ e, r.2 = .error e → ¬ E e) p

theorem avoidsSnd_ok {α : Type} (a : α) : AvoidsSnd E (Pure.pure (a, .ok ()) : Prog (α × Except Err Unit)) :=
  .ret _ (fun e h => by cases h)

theorem avoidsSnd_fail {α : Type} (hF : ∀ m, ¬ E (.fail m)) (a : α) (m : String) :
    AvoidsSnd E (Pure.pure (a, .error (.fail m)) : Prog (α × Except Err Unit)) :=
  .ret _ (fun e h => by cases h; exact hF m)

theorem compositeAct_avoids (hF : ∀ m, ¬ E (.fail m)) (c : Cfg) (parent : J) (observed desired : ObjMap)
    (status : Option KVs) (memo : Memo) : AvoidsSnd E (compositeAct c parent observed desired status memo) := by
  unfold compositeAct
  simp only []
  refine AllRets.ite (fun _ => ?_) (fun _ => ?_) <;>
  · refine AllRets.mbind (AllRets.trivial _) (fun r _ => ?_)
    refine AllRets.mbind (AllRets.trivial _) (fun st _ => ?_)
    split <;>
      first
      | exact avoidsSnd_ok _
      | exact avoidsSnd_fail hF _ _
      | (split <;> first | exact avoidsSnd_ok _ | exact avoidsSnd_fail hF _ _)

theorem compositeTail_avoids (hF : ∀ m, ¬ E (.fail m)) (c : Cfg) (parent : J) (observed : ObjMap) (resp : CompResp) (memo : Memo) :
    AvoidsSnd E (compositeTail c parent observed resp memo) := by
  unfold compositeTail
  refine AllRets.mbind (compositePrep_avoids hF c parent resp) (fun p hp => ?_)
  cases p with
  | error e => exact .ret _ (fun e' h => by cases h; exact hp e rfl)
  | ok pd => exact compositeAct_avoids hF ..

theorem customizeResponse_avoids (hF : ∀ m, ¬ E (.fail m)) (hT : ∀ n, ¬ E (.tooMany n)) (parent : J) (cached : CustCache) :
    Avoids E (customizeResponse parent cached) := by
  unfold customizeResponse
  pe_auto

theorem getRelatedObjects_avoids (hF : ∀ m, ¬ E (.fail m)) (hT : ∀ n, ¬ E (.tooMany n)) (enabled parentNamespaced : Bool) (relRes : List ChildRes)
    (cache : Cache) (parent : J) (cached : CustCache) :
    Avoids E (getRelatedObjects enabled parentNamespaced relRes cache parent cached) := by
  unfold getRelatedObjects
  refine avoids_ite (fun _ => avoids_pure _) (fun _ => ?_)
  refine avoids_mbind (customizeResponse_avoids hF hT _ _) (fun bc => ?_)
  refine avoids_mbind (avoids_ofExcept hF _) (fun rules => ?_)
  refine avoids_mbind (avoids_foldlM _ _ _ ?_) (fun m => avoids_pure _)
  intro m orule _
  pe_auto

theorem claimRevisions_avoids (hF : ∀ m, ¬ E (.fail m)) (c : Cfg) (cache : Cache) (parent : J) :
    Avoids E (claimRevisions c cache parent) := by
  unfold claimRevisions
  pe_auto

theorem manageRevisions_avoids (hF : ∀ m, ¬ E (.fail m)) (ns : String) (observed : List J) (desired : List (J × List CGroup)) :
    Avoids E (manageRevisions ns observed desired) := by
  unfold manageRevisions
  simp only []
  refine avoids_ite (fun _ => avoids_fail hF _) (fun _ => ?_)
  refine avoids_mbind (avoids_forM _ _ ?_) (fun _ => avoids_forM _ _ ?_)
  · intro rev _
    pe_auto
  · intro d _
    pe_auto

/-- every hook outcome collected by `callHooks` avoids `E` -/
theorem callHooks_avoids (hF : ∀ m, ¬ E (.fail m)) (hT : ∀ n, ¬ E (.tooMany n)) (c : Cfg) (latestParent : J) (observed related : ObjMap) :
    ∀ (inputs : List (J × J × List CGroup)),
    AllRets (fun rs => ∀ x ∈ rs, ∀ e, x = .error e → ¬ E e) (callHooks c latestParent observed related inputs) := by
  intro inputs
  induction inputs with
  | nil => exact .ret _ (fun x hx => by cases hx)
  | cons i rest ih =>
    obtain ⟨p, rev, ch⟩ := i
    rw [callHooks]
    refine AllRets.mbind (callHookComposite_avoids hF hT c p observed related) (fun r hr => ?_)
    refine AllRets.mbind ih (fun rs hrs => ?_)
    refine .ret _ ?_
    intro x hx e he
    rcases List.mem_cons.mp hx with rfl | hx
    · cases r with
      | ok resp => simp at he
      | error e' => simp at he; subst he; exact hr e' rfl
    · exact hrs x hx e he

set_option hygiene false in
/-- the part of `syncRevisions` after the latest revision object is known -/
macro "rev_tail" : tactic => `(tactic|
  (refine avoids_mbind_lift (callHooks_avoids hF hT ..) (fun results hres => ?_)
   split
   · rename_i e he
     refine avoids_mbind (avoids_throw e ?_) (fun prs => ?_)
     · obtain ⟨x, hx, hxe⟩ := List.exists_of_findSome?_eq_some he
       cases x with
       | ok p => simp at hxe
       | error e' => simp at hxe; subst hxe; exact hres _ hx e' rfl
     · refine avoids_mbind (avoids_ofExcept hF _) (fun ps => ?_)
       exact avoids_mbind (manageRevisions_avoids hF ..) (fun _ => avoids_pure _)
   · refine avoids_mbind (avoids_pure _) (fun prs => ?_)
     refine avoids_mbind (avoids_ofExcept hF _) (fun ps => ?_)
     exact avoids_mbind (manageRevisions_avoids hF ..) (fun _ => avoids_pure _)))

theorem syncRevisions_avoids (hF : ∀ m, ¬ E (.fail m)) (hT : ∀ n, ¬ E (.tooMany n)) (c : Cfg) (cache : Cache) (parent : J)
    (observed related : ObjMap) (newRevName : String) :
    Avoids E (syncRevisions c cache parent observed related newRevName) := by
  unfold syncRevisions
  refine avoids_ite (fun _ => callHookComposite_avoids hF hT ..) (fun _ => ?_)
  refine avoids_mbind (claimRevisions_avoids hF ..) (fun observedRevs => ?_)
  refine avoids_mbind (avoids_ofExcept hF _) (fun latestPatch => ?_)
  refine avoids_mbind (avoids_ofExcept hF _) (fun lo => ?_)
  obtain ⟨latestRev, others⟩ := lo
  dsimp only
  cases latestRev with
  | some r =>
    dsimp only
    refine avoids_mbind (avoids_pure _) (fun latestRevObj => ?_)
    rev_tail
  | none =>
    dsimp only
    refine avoids_mbind (avoids_ofExcept hF _) (fun latestRevObj => ?_)
    rev_tail

/-- leaves of `syncParentObject`: the result field -/
def ResAvoids (E : Err → Prop) (p : Prog (SyncRes × CustCache)) : Prop :=
  AllRets (fun r => ∀ e, r.1.result = .error e → ¬ E e) p

theorem syncParentObjectFull_avoids (hF : ∀ m, ¬ E (.fail m)) (hT : ∀ n, ¬ E (.tooMany n)) (c : Cfg) (cache : Cache) (parent : J)
    (newRevName : String) (h : Hidden) : ResAvoids E (syncParentObjectFull c cache parent newRevName h) := by
  unfold syncParentObjectFull
  refine AllRets.ite (fun _ => .ret _ (fun e he => by cases he)) (fun _ => ?_)
  refine AllRets.mbind (AllRets.trivial _) (fun r _ => ?_)
  cases r with
  | error e => exact .ret _ (fun e' he => by cases he; exact hF _)
  | ok parent' =>
    dsimp only
    refine AllRets.ite (fun _ => .ret _ (fun e he => by cases he)) (fun _ => ?_)
    refine AllRets.mbind (claimChildren_avoids hF c cache parent') (fun observed hobs => ?_)
    cases observed with
    | error e => exact .ret _ (fun e' he => by cases he; exact hobs e rfl)
    | ok observed =>
      dsimp only
      refine AllRets.mbind (getRelatedObjects_avoids hF hT ..) (fun rel hrel => ?_)
      cases rel with
      | error e => exact .ret _ (fun e' he => by cases he; exact hrel e rfl)
      | ok rc =>
        dsimp only
        refine AllRets.mbind (syncRevisions_avoids hF hT ..) (fun resp hresp => ?_)
        cases resp with
        | error e => exact .ret _ (fun e' he => by cases he; exact hresp e rfl)
        | ok resp =>
          dsimp only
          refine AllRets.mbind (compositeTail_avoids hF ..) (fun mt hmt => ?_)
          exact .ret _ (fun e he => hmt e he)

theorem finalOf_not_panic (r : SyncRes) (h : ∀ e, r.result = .error e → ¬ isPanic e) : (finalOf r).outcome ≠ .panic := by
  unfold finalOf
  cases hr : r.result with
  | ok u => cases u; simp
  | error e =>
    cases e with
    | fail m => simp
    | tooMany n => simp
    | panic m => exact absurd ⟨m, rfl⟩ (h _ hr)

/-- **C13_total** (composite): whatever the API server and the hooks answer, a composite sync never ends in a panic -/
theorem C13_total (c : Cfg) (cache : Cache) (ns name rev : String) (h : Hidden) :
    AllRets (fun f => f.final.outcome ≠ .panic) (syncCompositeFull c cache ns name rev h) := by
  unfold syncCompositeFull
  split
  · exact .ret _ (by simp)
  · refine AllRets.mbind (syncParentObjectFull_avoids not_isPanic_fail not_isPanic_tooMany ..) (fun r hr => ?_)
    exact .ret _ (finalOf_not_panic r.1 hr)

/-! ### decorator -/

theorem callHookDecorator_avoids (hF : ∀ m, ¬ E (.fail m)) (c : DCfg) (parent : J) (observed related : ObjMap) :
    Avoids E (callHookDecorator c parent observed related) := by
  unfold callHookDecorator
  pe_auto

theorem decoratorParentUpdate_avoids (hF : ∀ m, ¬ E (.fail m)) (c : DCfg) (rule : ParentRes) (parent : J) (resp : DecResp) :
    Avoids E (decoratorParentUpdate c rule parent resp) := by
  unfold decoratorParentUpdate
  pe_auto

theorem decoratorTail_avoids (hF : ∀ m, ¬ E (.fail m)) (c : DCfg) (rule : ParentRes) (parent : J) (observed : ObjMap)
    (resp : DecResp) (memo : Memo) : AvoidsSnd E (decoratorTail c rule parent observed resp memo) := by
  unfold decoratorTail
  refine AllRets.mbind (decoratorParentUpdate_avoids hF c rule parent resp) (fun upd hupd => ?_)
  cases upd with
  | error e => exact .ret _ (fun e' he => by cases he; exact hupd e rfl)
  | ok u =>
    cases u with
    | stop => exact avoidsSnd_ok _
    | proceed =>
      dsimp only
      refine AllRets.ite (fun _ => ?_) (fun _ => avoidsSnd_ok _)
      refine AllRets.mbind (AllRets.trivial _) (fun r _ => ?_)
      exact AllRets.ite (fun _ => avoidsSnd_ok _) (fun _ => avoidsSnd_fail hF _ _)

theorem syncDecoratorObject_avoids (hF : ∀ m, ¬ E (.fail m)) (c : DCfg) (cache : Cache) (rule : ParentRes) (parent : J)
    (h : Hidden) : ResAvoids E (syncDecoratorObject c cache rule parent h) := by
  unfold syncDecoratorObject
  refine AllRets.ite (fun _ => .ret _ (fun e he => by cases he)) (fun _ => ?_)
  dsimp only
  refine AllRets.mbind (AllRets.trivial _) (fun r _ => ?_)
  cases r with
  | error e => exact .ret _ (fun e' he => by cases he; exact hF _)
  | ok parent' =>
    dsimp only
    refine AllRets.ite (fun _ => .ret _ (fun e he => by cases he)) (fun _ => ?_)
    -- a 429 of the customize hook reaches this point as `tooMany` and is turned into a plain failure here:
    -- `getRelatedObjects` avoids every error in `E` other than `tooMany`
    refine AllRets.mbind (getRelatedObjects_avoids (E := fun e => E e ∧ ∀ n, e ≠ .tooMany n)
      (fun m hm => hF m hm.1) (fun n hn => hn.2 n rfl) ..) (fun rel hrel => ?_)
    cases rel with
    | error e =>
      cases e with
      | tooMany n => exact .ret _ (fun e' he => by cases he; exact hF _)
      | fail m => exact .ret _ (fun e' he => by cases he; exact hF _)
      | panic m => exact .ret _ (fun e' he => by cases he; exact fun hE => hrel _ rfl ⟨hE, fun n hn => by cases hn⟩)
    | ok rc =>
      dsimp only
      refine AllRets.mbind (callHookDecorator_avoids hF ..) (fun hk hhk => ?_)
      cases hk with
      | error e => exact .ret _ (fun e' he => by cases he; exact hhk e rfl)
      | ok resp =>
        dsimp only
        refine AllRets.mbind (decoratorTail_avoids hF ..) (fun mt hmt => ?_)
        exact .ret _ (fun e he => hmt e he)

/-- **C13_total** (decorator) -/
theorem C13_total_decorator (c : DCfg) (cache : Cache) (apiVersion kind ns name : String) (h : Hidden) :
    AllRets (fun f => f.final.outcome ≠ .panic) (syncDecoratorFull c cache apiVersion kind ns name h) := by
  unfold syncDecoratorFull
  split
  · exact .ret _ (by simp)
  · split
    · exact .ret _ (by simp)
    · refine AllRets.mbind (syncDecoratorObject_avoids not_isPanic_fail ..) (fun r hr => ?_)
      exact .ret _ (finalOf_not_panic r.1 hr)

/-- decorators never ask for a delayed requeue on their own: their sync result is never `tooMany`
    (a 429 of the hook is a plain failure, see `C12_decorator_429`) -/
theorem C12_decorator_never_tooMany (c : DCfg) (cache : Cache) (rule : ParentRes) (parent : J) (h : Hidden) :
    AllRets (fun r => ∀ n, r.1.result ≠ .error (.tooMany n)) (syncDecoratorObject c cache rule parent h) := by
  refine AllRets.mono ?_ (syncDecoratorObject_avoids (E := isTooMany) not_isTooMany_fail c cache rule parent h)
  intro r hr n hn
  exact hr _ hn ⟨n, rfl⟩

/-! ### C13_reject_no_write -/

/-- the sync / finalize hook answered 200 with a body that cannot be decoded as a composite hook response -/
def BadHookAnswer (r : Req) (x : Resp) : Prop :=
  (∃ name q, r = .hook name q ∧ name ≠ "customize") ∧ ∃ b, x = .hookOk b ∧ (decodeCompResp b).toOption = none

/-- a request to the API server (read or write) -/
def IsApi (r : Req) : Prop := r.isHook = false

theorem api_not_bad (v : Verb) (t : Target) (b o : J) : ∀ x, ¬ BadHookAnswer (.api v t b o) x := by
  rintro x ⟨⟨name, q, h, _⟩, _⟩
  cases h

theorem customize_not_bad (q : J) : ∀ x, ¬ BadHookAnswer (.hook "customize" q) x := by
  rintro x ⟨⟨name, q', h, hn⟩, _⟩
  cases h
  exact hn rfl

/-- an undecodable answer makes `callHook` fail, with a plain failure -/
theorem C13_reject_fails (c : Cfg) (parent : J) (observed related : ObjMap) :
    ∃ req k, callHookComposite c parent observed related = Prog.call req k ∧ req.isHook = true ∧
      ∀ b e, decodeCompResp b = .error e → ∃ m, k (.hookOk b) = .ret (.error (.fail m)) := by
  unfold callHookComposite
  refine ⟨_, _, rfl, rfl, ?_⟩
  intro b e he
  simp only [Prog.bind, he]
  exact ⟨_, rfl⟩

def isFail (e : Err) : Prop := ∃ m, e = .fail m

theorem callHookComposite_stops_fail (c : Cfg) (parent : J) (observed related : ObjMap) :
    StopsAfter BadHookAnswer IsApi (IsErrP isFail) (callHookComposite c parent observed related : Prog _) := by
  unfold callHookComposite
  dsimp only
  refine stops_request_bind _ _ ?_ ?_
  · intro x
    pc_auto
  · rintro x ⟨_, b, rfl, hb⟩
    dsimp only
    cases hd : decodeCompResp b with
    | error e => exact .ret _ ⟨_, rfl, _, rfl⟩
    | ok r => simp [hd, Except.toOption] at hb

theorem callHookComposite_stops (c : Cfg) (parent : J) (observed related : ObjMap) :
    StopsAfter BadHookAnswer IsApi IsErr (callHookComposite c parent observed related : Prog _) :=
  StopsAfter.mono (fun _ ⟨e, h, _⟩ => ⟨e, h, True.intro⟩) (callHookComposite_stops_fail ..)

theorem callHookComposite_hooks (c : Cfg) (parent : J) (observed related : ObjMap) :
    AllCalls (fun r => ¬ IsApi r) (callHookComposite c parent observed related : Prog _) := by
  unfold callHookComposite
  dsimp only
  have h : ∀ name q, ¬ IsApi (.hook name q) := by intro name q h; simp [IsApi, Req.isHook] at h
  pc_auto

theorem callHooks_hooks (c : Cfg) (latestParent : J) (observed related : ObjMap) :
    ∀ inputs, AllCalls (fun r => ¬ IsApi r) (callHooks c latestParent observed related inputs) := by
  intro inputs
  induction inputs with
  | nil => exact .ret _
  | cons i rest ih =>
    obtain ⟨p, rev, ch⟩ := i
    rw [callHooks]
    refine AllCalls.mbind (callHookComposite_hooks ..) (fun r => ?_)
    exact AllCalls.mbind ih (fun rs => .ret _)

/-- some collected hook outcome is an error -/
def HasErr (rs : List (Except Err PRev)) : Prop := ∃ x ∈ rs, ∃ e, x = .error e

theorem callHooks_stops (c : Cfg) (latestParent : J) (observed related : ObjMap) :
    ∀ inputs, StopsAfter BadHookAnswer IsApi HasErr (callHooks c latestParent observed related inputs) := by
  intro inputs
  induction inputs with
  | nil => exact .ret _
  | cons i rest ih =>
    obtain ⟨p, rev, ch⟩ := i
    rw [callHooks]
    refine StopsAfter.bind (callHookComposite_stops c p observed related) (fun r => ?_) ?_
    · refine StopsAfter.bind ih (fun rs => .ret _) ?_
      rintro rs ⟨x, hx, hxe⟩
      exact ⟨.ret _, .ret _ ⟨x, List.mem_cons_of_mem _ hx, hxe⟩⟩
    · rintro r ⟨e, rfl, _⟩
      constructor
      · exact AllCalls.mbind (callHooks_hooks ..) (fun rs => .ret _)
      · exact AllRets.mbind (AllRets.trivial _) (fun rs _ => .ret _ ⟨_, List.mem_cons_self .., e, rfl⟩)

set_option hygiene false in
/-- `syncRevisions` after the latest revision object is known, for `StopsAfter` -/
macro "rev_tail_stops" : tactic => `(tactic|
  (refine stops_mbind_lift (callHooks_stops ..) (fun results => ?_) ?_
   · split
     · exact .ret _
     · refine StopsAfter.of_noG ?_
       refine PE.allCalls_mbind (PE.allCalls_pure _) (fun prs => ?_)
       refine PE.allCalls_mbind (PE.allCalls_ofExcept _) (fun ps => ?_)
       exact PE.allCalls_mbind (manageRevisions_api api_not_bad ..) (fun _ => PE.allCalls_pure _)
   · rintro results ⟨x, hx, e, rfl⟩
     split
     · exact ⟨.ret _, .ret _ ⟨_, rfl, True.intro⟩⟩
     · rename_i hnone
       have := List.findSome?_eq_none_iff.mp hnone _ hx
       simp at this))

theorem syncRevisions_stops (c : Cfg) (cache : Cache) (parent : J) (observed related : ObjMap) (newRevName : String) :
    StopsAfter BadHookAnswer IsApi IsErr (syncRevisions c cache parent observed related newRevName : Prog _) := by
  unfold syncRevisions
  refine StopsAfter.ite (fun _ => callHookComposite_stops ..) (fun _ => ?_)
  refine stops_mbind_noG (claimRevisions_api api_not_bad ..) (fun observedRevs => ?_)
  refine stops_mbind_noG (PE.allCalls_ofExcept _) (fun latestPatch => ?_)
  refine stops_mbind_noG (PE.allCalls_ofExcept _) (fun lo => ?_)
  obtain ⟨latestRev, others⟩ := lo
  dsimp only
  cases latestRev with
  | some r =>
    dsimp only
    refine stops_mbind_noG (PE.allCalls_pure _) (fun latestRevObj => ?_)
    rev_tail_stops
  | none =>
    dsimp only
    refine stops_mbind_noG (PE.allCalls_ofExcept _) (fun latestRevObj => ?_)
    rev_tail_stops

/-- the result of `syncParentObject` is an error satisfying `K` -/
def ResIsErr (K : Err → Prop) (r : SyncRes × CustCache) : Prop := ∃ e, r.1.result = .error e ∧ K e

theorem syncParentObjectFull_stops_of (K : Err → Prop) (c : Cfg) (cache : Cache) (parent : J) (newRevName : String) (h : Hidden)
    (hrev : ∀ parent' observed related,
      StopsAfter BadHookAnswer IsApi (IsErrP K) (syncRevisions c cache parent' observed related newRevName : Prog _)) :
    StopsAfter BadHookAnswer IsApi (ResIsErr K) (syncParentObjectFull c cache parent newRevName h) := by
  unfold syncParentObjectFull
  refine StopsAfter.ite (fun _ => .ret _) (fun _ => ?_)
  refine StopsAfter.bind_noG (syncObject_api api_not_bad ..) (fun r => ?_)
  cases r with
  | error e => exact .ret _
  | ok parent' =>
    dsimp only
    refine StopsAfter.ite (fun _ => .ret _) (fun _ => ?_)
    refine StopsAfter.bind_noG (claimChildren_api api_not_bad ..) (fun observed => ?_)
    cases observed with
    | error e => exact .ret _
    | ok observed =>
      dsimp only
      refine StopsAfter.bind_noG (getRelatedObjects_calls (P := fun r => ∀ x, ¬ BadHookAnswer r x)
        (by intro q; exact customize_not_bad q) ..) (fun rel => ?_)
      cases rel with
      | error e => exact .ret _
      | ok rc =>
        dsimp only
        refine StopsAfter.bind (hrev ..) (fun resp => ?_) ?_
        · cases resp with
          | error e => exact .ret _
          | ok resp =>
            dsimp only
            refine StopsAfter.of_noG ?_
            exact AllCalls.mbind (compositeTail_api api_not_bad ..) (fun _ => .ret _)
        · rintro resp ⟨e, rfl, he⟩
          exact ⟨.ret _, .ret _ ⟨e, rfl, he⟩⟩

/-- **C13_reject_no_write**: once a sync / finalize hook has answered with a body that cannot be decoded, the sync
    issues no request to the API server any more - neither read nor write - and ends in an error.
    (With rolling updates the hooks of the other parent revisions are still called: they are not API requests.) -/
theorem C13_reject_stops (c : Cfg) (cache : Cache) (parent : J) (newRevName : String) (h : Hidden) :
    StopsAfter BadHookAnswer IsApi (ResIsErr (fun _ => True)) (syncParentObjectFull c cache parent newRevName h) :=
  syncParentObjectFull_stops_of _ c cache parent newRevName h (fun _ _ _ => syncRevisions_stops ..)

theorem C13_reject_no_write (c : Cfg) (cache : Cache) (parent : J) (newRevName : String) (h : Hidden) :
    HaltsAfter BadHookAnswer (fun r => r.isHook = false) (syncParentObjectFull c cache parent newRevName h) :=
  (C13_reject_stops c cache parent newRevName h).haltsAfter

/-- without rolling strategies there is one hook call, and its rejection is a plain failure: the key is requeued
    with rate limiting (`C12_error_means_requeue`) -/
theorem C13_reject_fails_sync (c : Cfg) (cache : Cache) (parent : J) (newRevName : String) (h : Hidden)
    (hroll : c.anyRolling = false) :
    StopsAfter BadHookAnswer IsApi (ResIsErr isFail) (syncParentObjectFull c cache parent newRevName h) := by
  refine syncParentObjectFull_stops_of _ c cache parent newRevName h (fun parent' observed related => ?_)
  unfold syncRevisions
  rw [if_pos (by simp [hroll])]
  exact callHookComposite_stops_fail ..

/-- for the whole work item: after the rejection no API request, and (without rolling) the outcome is an error -/
theorem C13_reject_outcome (c : Cfg) (cache : Cache) (ns name newRevName : String) (h : Hidden)
    (hroll : c.anyRolling = false) :
    StopsAfter BadHookAnswer IsApi (fun f => f.final.outcome = .error) (syncCompositeFull c cache ns name newRevName h) := by
  unfold syncCompositeFull
  split
  · exact .ret _
  · refine StopsAfter.bind (C13_reject_fails_sync c cache _ newRevName h hroll) (fun r => .ret _) ?_
    rintro r ⟨e, hr, m, rfl⟩
    refine ⟨.ret _, .ret _ ?_⟩
    simp [finalOf, hr]

/-! ### the same for decorators -/

/-- the decorator sync / finalize hook answered 200 with a body that cannot be decoded -/
def BadDecAnswer (r : Req) (x : Resp) : Prop :=
  (∃ name q, r = .hook name q ∧ name ≠ "customize") ∧ ∃ b, x = .hookOk b ∧ (decodeDecResp b).toOption = none

theorem api_not_badDec (v : Verb) (t : Target) (b o : J) : ∀ x, ¬ BadDecAnswer (.api v t b o) x := by
  rintro x ⟨⟨name, q, h, _⟩, _⟩
  cases h

theorem customize_not_badDec (q : J) : ∀ x, ¬ BadDecAnswer (.hook "customize" q) x := by
  rintro x ⟨⟨name, q', h, hn⟩, _⟩
  cases h
  exact hn rfl

theorem callHookDecorator_stops (c : DCfg) (parent : J) (observed related : ObjMap) :
    StopsAfter BadDecAnswer IsApi (IsErrP isFail) (callHookDecorator c parent observed related : Prog _) := by
  unfold callHookDecorator
  dsimp only
  refine stops_request_bind _ _ ?_ ?_
  · intro x
    pc_auto
  · rintro x ⟨_, b, rfl, hb⟩
    dsimp only
    cases hd : decodeDecResp b with
    | error e => exact .ret _ ⟨_, rfl, _, rfl⟩
    | ok r => simp [hd, Except.toOption] at hb

/-- **C13_reject_no_write** for decorators: after an undecodable hook answer no request goes to the API server
    and the sync ends in a plain failure -/
theorem C13_reject_no_write_decorator (c : DCfg) (cache : Cache) (rule : ParentRes) (parent : J) (h : Hidden) :
    StopsAfter BadDecAnswer IsApi (ResIsErr isFail) (syncDecoratorObject c cache rule parent h) := by
  unfold syncDecoratorObject
  refine StopsAfter.ite (fun _ => .ret _) (fun _ => ?_)
  dsimp only
  refine StopsAfter.bind_noG (syncObject_api api_not_badDec ..) (fun r => ?_)
  cases r with
  | error e => exact .ret _
  | ok parent' =>
    dsimp only
    refine StopsAfter.ite (fun _ => .ret _) (fun _ => ?_)
    refine StopsAfter.bind_noG (getRelatedObjects_calls (P := fun r => ∀ x, ¬ BadDecAnswer r x)
      (by intro q; exact customize_not_badDec q) ..) (fun rel => ?_)
    cases rel with
    | error e => cases e <;> exact .ret _
    | ok rc =>
      dsimp only
      refine StopsAfter.bind (callHookDecorator_stops ..) (fun resp => ?_) ?_
      · cases resp with
        | error e => exact .ret _
        | ok resp =>
          dsimp only
          refine StopsAfter.of_noG ?_
          exact AllCalls.mbind (decoratorTail_api api_not_badDec ..) (fun _ => .ret _)
      · rintro resp ⟨e, rfl, he⟩
        exact ⟨.ret _, .ret _ ⟨e, rfl, he⟩⟩

/-! ### non-vacuity -/

def exCfg : Cfg :=
  { name := "cc", parentGroup := "ex", parentVersion := "v1", parentKind := "P", parentResource := "ps",
    parentNamespaced := true, parentHasStatus := true, children := [], generateSelector := true, parentSelector := none,
    finalize := false, customize := false, ssa := false, fieldPaths := [] }
def exParent : J := .obj [("apiVersion", .str "ex/v1"), ("kind", .str "P"),
  ("metadata", .obj [("name", .str "p"), ("namespace", .str "ns"), ("uid", .str "u-p")])]

example : BadHookAnswer (.hook "sync" .null) (.hookOk (.str "not an object")) :=
  ⟨⟨"sync", .null, rfl, by decide⟩, _, rfl, rfl⟩

-- the sync of this parent starts with the hook call; an undecodable answer ends it at once, as a failure
example : ∃ q k, syncParentObjectFull exCfg { parents := [exParent], children := [], related := [], revisions := [] } exParent "r" {} =
      .call (.hook "sync" q) k ∧
    ∃ m, k (.hookOk (.str "not an object")) = .ret ({ after := [], memo := [], result := .error (.fail m) }, none) :=
  ⟨_, _, rfl, _, rfl⟩

-- while a decodable answer (no children, a status) goes on with the status update of the parent: a GET first
example : ∃ q k k', syncParentObjectFull exCfg { parents := [exParent], children := [], related := [], revisions := [] } exParent "r" {} =
      .call (.hook "sync" q) k ∧
    k (.hookOk (.obj [("status", .obj [("ok", .bool true)])])) = .call (.api .get ⟨"ex", "ps", "ns", "p"⟩ .null .null) k' :=
  ⟨_, _, _, rfl, rfl⟩

end Mc.C13
