import Mc.Props.C01Converge
import Mc.Proofs.FixFrame
/-
  C01, field level, for the in-place update path: the object the API server stores for an update sent by
  `ManageChildren` (body = `ApplyUpdate observed desired`) is again a fixpoint of `ApplyUpdate` for the same desired
  object.  Idempotence of the merge (C05) gives the fixpoint for the raw merge result; the frame law
  (`fix_of_editOutside`) carries it over everything that happens to the object afterwards: the reverts of system
  metadata and status, the last-applied record, and the server's own edits (generation, resourceVersion).
-/
namespace Mc
namespace C01
open Api C05

/-- an object with a metadata map -/
def MetaObj (x : J) : Prop := ∃ xs mx, x = .obj xs ∧ lookup "metadata" xs = some (.obj mx)

theorem editOutside_of (ds dm : KVs) (x y : J) (hx : MetaObj x) (hy : MetaObj y)
    (ha : ∀ k, k ≠ "metadata" → hasKey k ds = true → lookup k y.fields = lookup k x.fields)
    (hb : ∀ f, hasKey f dm = true → lookup f (metaOf y) = lookup f (metaOf x)) : EditOutside ds dm x y := by
  obtain ⟨xs, mx, rfl, hmx⟩ := hx
  obtain ⟨ys, my, rfl, hmy⟩ := hy
  refine ⟨xs, ys, mx, my, rfl, rfl, hmx, hmy, ha, ?_⟩
  intro f hf
  have := hb f hf
  simpa [metaOf, J.fields, hmx, hmy] using this

theorem EditOutside.metaObj_right {ds dm : KVs} {x y : J} (h : EditOutside ds dm x y) : MetaObj y := by
  obtain ⟨_, ys, _, my, _, hy, _, hmy, _, _⟩ := h
  exact ⟨ys, my, hy, hmy⟩

/-! ### the edits `ApplyUpdate` makes after the merge -/

theorem setNested_meta_outside (ds dm : KVs) (x y v : J) (f : String) (hx : MetaObj x) (hf : hasKey f dm = false)
    (h : setNestedField x v ["metadata", f] = .ok y) : EditOutside ds dm x y := by
  obtain ⟨xs, mx, rfl, hmx⟩ := hx
  simp only [setNestedField, setNestedFieldKVs, J.fields, hmx] at h
  cases h
  refine ⟨xs, _, mx, setKey f v mx, rfl, rfl, hmx, lookup_setKey_same _ _ _, ?_, ?_⟩
  · intro k hk _; exact lookup_setKey_other _ _ _ _ hk
  · intro f' hf'
    have : f' ≠ f := by intro e; rw [e, hf] at hf'; cases hf'
    exact lookup_setKey_other _ _ _ _ this

theorem removeNested_meta_outside (ds dm : KVs) (x : J) (f : String) (hx : MetaObj x) (hf : hasKey f dm = false) :
    EditOutside ds dm x (removeNestedField x ["metadata", f]) := by
  obtain ⟨xs, mx, rfl, hmx⟩ := hx
  simp only [removeNestedField, removeNestedFieldKVs, J.fields, hmx]
  refine ⟨xs, _, mx, eraseKey f mx, rfl, rfl, hmx, lookup_setKey_same _ _ _, ?_, ?_⟩
  · intro k hk _; exact lookup_setKey_other _ _ _ _ hk
  · intro f' hf'
    have : f' ≠ f := by intro e; rw [e, hf] at hf'; cases hf'
    rw [lookup_eraseKey, if_neg this]

theorem setNested_top_outside (ds dm : KVs) (x y v : J) (k : String) (hx : MetaObj x) (hk : k ≠ "metadata") (hf : hasKey k ds = false)
    (h : setNestedField x v [k] = .ok y) : EditOutside ds dm x y := by
  obtain ⟨xs, mx, rfl, hmx⟩ := hx
  simp only [setNestedField, setNestedFieldKVs, J.fields] at h
  cases h
  refine ⟨xs, _, mx, mx, rfl, rfl, hmx, ?_, ?_, fun _ _ => rfl⟩
  · rw [lookup_setKey_other _ _ _ _ (fun e => hk e.symm)]; exact hmx
  · intro k' _ hk'
    have : k' ≠ k := by intro e; rw [e, hf] at hk'; cases hk'
    exact lookup_setKey_other _ _ _ _ this

theorem removeNested_top_outside (ds dm : KVs) (x : J) (k : String) (hx : MetaObj x) (hk : k ≠ "metadata") (hf : hasKey k ds = false) :
    EditOutside ds dm x (removeNestedField x [k]) := by
  obtain ⟨xs, mx, rfl, hmx⟩ := hx
  simp only [removeNestedField, removeNestedFieldKVs, J.fields]
  refine ⟨xs, _, mx, mx, rfl, rfl, hmx, ?_, ?_, fun _ _ => rfl⟩
  · rw [lookup_eraseKey, if_neg (fun e => hk e.symm)]; exact hmx
  · intro k' _ hk'
    have : k' ≠ k := by intro e; rw [e, hf] at hk'; cases hk'
    rw [lookup_eraseKey, if_neg this]

theorem revertField_meta_outside (ds dm : KVs) (acc orig y : J) (f : String) (hx : MetaObj acc) (hf : hasKey f dm = false)
    (h : revertField acc orig ["metadata", f] = .ok y) : EditOutside ds dm acc y := by
  unfold revertField at h
  split at h
  · cases h
  · exact setNested_meta_outside ds dm acc y _ f hx hf h
  · cases h; exact removeNested_meta_outside ds dm acc f hx hf

theorem revertField_top_outside (ds dm : KVs) (acc orig y : J) (k : String) (hx : MetaObj acc) (hk : k ≠ "metadata") (hf : hasKey k ds = false)
    (h : revertField acc orig [k] = .ok y) : EditOutside ds dm acc y := by
  unfold revertField at h
  split at h
  · cases h
  · exact setNested_top_outside ds dm acc y _ k hx hk hf h
  · cases h; exact removeNested_top_outside ds dm acc k hx hk hf

theorem revertSystemFields_outside (ds dm : KVs) (orig : J) : ∀ (sys : List String) (acc y : J), MetaObj acc →
    (∀ f ∈ sys, hasKey f dm = false) → revertSystemFields sys acc orig = .ok y → EditOutside ds dm acc y := by
  intro sys
  induction sys with
  | nil =>
    intro acc y hx _ h
    simp [revertSystemFields] at h
    cases h
    obtain ⟨xs, mx, rfl, hmx⟩ := hx
    exact EditOutside.refl ds dm xs mx hmx
  | cons f tl ih =>
    intro acc y hx hs h
    unfold revertSystemFields at h
    rw [List.foldlM_cons] at h
    cases h1 : revertField acc orig ["metadata", f] with
    | error e => simp [h1, bind, Except.bind] at h
    | ok acc1 =>
      simp only [h1, bind, Except.bind] at h
      have e1 := revertField_meta_outside ds dm acc orig acc1 f hx (hs f (List.mem_cons_self ..)) h1
      exact e1.trans (ih acc1 y (EditOutside.metaObj_right e1) (fun f' hf' => hs f' (List.mem_cons_of_mem _ hf')) h)

theorem setLastApplied_outside (ds dm : KVs) (x la : J) (hx : MetaObj x) (hf : hasKey "annotations" dm = false) :
    EditOutside ds dm x (setLastApplied x la) := by
  unfold setLastApplied setStringMapAt
  simp only []
  split
  · rename_i o' h
    exact setNested_meta_outside ds dm x o' _ "annotations" hx hf h
  · obtain ⟨xs, mx, rfl, hmx⟩ := hx
    exact EditOutside.refl ds dm xs mx hmx

theorem all_setKey (p : String × J → Bool) (k : String) (v : J) (kvs : KVs) (h : kvs.all p = true) (hv : p (k, v) = true) :
    (setKey k v kvs).all p = true := by
  rw [List.all_eq_true] at h ⊢
  intro kv hm
  rcases mem_setKey k v kvs kv.1 kv.2 hm with e | hm'
  · have : kv = (k, v) := e
    rw [this]; exact hv
  · exact h kv hm'

/-- after `SetLastApplied` the annotations are a well-formed string map that holds the record -/
theorem setLastApplied_annotations (x la : J) (hx : MetaObj x) (hla : la.isObj = true) :
    ∃ am, lookup "annotations" (metaOf (setLastApplied x la)) = some (.obj am) ∧
      am.all (fun kv => isStringish kv.1 kv.2) = true ∧ lookup lastAppliedAnnotation am = some la := by
  obtain ⟨xs, mx, rfl, hmx⟩ := hx
  have hall : ((getAnnotations (.obj xs)).getD []).all (fun kv => isStringish kv.1 kv.2) = true := by
    unfold getAnnotations stringMapAt
    split
    · split
      · rename_i h; simpa using h
      · rfl
    · rfl
  refine ⟨setKey lastAppliedAnnotation la ((getAnnotations (.obj xs)).getD []), ?_, ?_, lookup_setKey_same _ _ _⟩
  · unfold setLastApplied setStringMapAt
    simp only [setNestedField, setNestedFieldKVs, J.fields, hmx]
    simp [metaOf, J.fields, lookup_setKey_same]
  · refine all_setKey _ _ _ _ hall ?_
    cases la <;> simp [J.isObj] at hla
    simp [isStringish]

/-! ### the object `ApplyUpdate` returns is a merge fixpoint -/

theorem fix_obj_isObj (mks : List String) (ds : KVs) (x : J) (h : Fix mks (.obj ds) x) : ∃ xs, x = .obj xs := by
  unfold Fix at h
  cases x with
  | obj xs => exact ⟨xs, rfl⟩
  | arr xs => simp [merge] at h
  | null => simp [merge] at h
  | bool b => simp [merge] at h
  | num n => simp [merge] at h
  | str s => simp [merge] at h

theorem fix_metaObj (mks : List String) (ds dm : KVs) (hu : uniq ds) (hmeta : lookup "metadata" ds = some (.obj dm)) (x : J)
    (h : Fix mks (.obj ds) x) : MetaObj x := by
  obtain ⟨xs, rfl⟩ := fix_obj_isObj mks ds x h
  rw [fix_obj_iff mks ds xs hu] at h
  obtain ⟨m, hm, hf⟩ := h "metadata" (.obj dm) (lookup_mem _ _ _ hmeta)
  obtain ⟨mx, rfl⟩ := fix_obj_isObj mks dm m hf
  exact ⟨xs, mx, rfl, hm⟩

/-- what the hook's desired child must not do for the statements below (`sys` = the system metadata fields) -/
structure PlainUpdate (sys : List String) (ds dm : KVs) : Prop where
  hmeta : lookup "metadata" ds = some (.obj dm)
  hstatus : hasKey "status" ds = false
  hann : hasKey "annotations" dm = false
  hsys : ∀ f ∈ sys, hasKey f dm = false
  hgen : hasKey "generation" dm = false
  hrv : hasKey "resourceVersion" dm = false

theorem nullify_plain (sys : List String) (ds dm : KVs) (h : PlainUpdate sys ds dm) : nullifyLastApplied (.obj ds) = .obj ds := by
  unfold nullifyLastApplied getAnnotations stringMapAt
  rw [nestedField_meta ds dm "annotations" h.hmeta]
  have : lookup "annotations" dm = none := (hasKey_false_iff _ _).mp h.hann
  rw [this]

/-- **the result of `ApplyUpdate` is a merge fixpoint** (for a desired child that does not set server-owned metadata,
    annotations or status; idempotence hypotheses of C05 on the inputs) and still has a metadata map -/
theorem applyUpdate_result_fix (mks sys : List String) (obs new : J) (ds dm : KVs) (hp : PlainUpdate sys ds dm)
    (ho : hypS mks obs = true) (hd : hypS mks (.obj ds) = true) (hc : coh mks obs (.obj ds) = true)
    (hs : scalarKeys mks obs = true) (hn : noNullOverArr obs (.obj ds) = true)
    (h : applyUpdate mks sys obs (.obj ds) = .ok new) :
    Fix mks (.obj ds) new ∧ MetaObj new ∧ ∃ am, lookup "annotations" (metaOf new) = some (.obj am) ∧
      am.all (fun kv => isStringish kv.1 kv.2) = true ∧ lookup lastAppliedAnnotation am = some (.obj ds) := by
  have hhyp : hypJ mks (.obj ds) = true := hypS_hypJ mks _ hd
  obtain ⟨hu, hf⟩ := (hypJ_obj mks ds).mp hhyp
  have hudm : uniq dm := ((hypJ_obj mks dm).mp (hf "metadata" (.obj dm) (lookup_mem _ _ _ hp.hmeta))).1
  unfold applyUpdate at h
  rw [nullify_plain sys ds dm hp] at h
  cases hl : getLastApplied obs with
  | error e => simp [hl, bind, Except.bind] at h
  | ok last =>
    simp only [hl, bind, Except.bind] at h
    cases hm : merge mks obs last (.obj ds) with
    | error e => simp [hm] at h
    | ok r =>
      simp only [hm] at h
      have hfix : Fix mks (.obj ds) r := C05_idempotent_inputs mks obs last (.obj ds) r ho hd hc hs hn hm
      have hmr : MetaObj r := fix_metaObj mks ds dm hu hp.hmeta r hfix
      cases h1 : revertSystemFields sys r obs with
      | error e => simp [h1] at h
      | ok r1 =>
        simp only [h1] at h
        have e1 := revertSystemFields_outside ds dm obs sys r r1 hmr hp.hsys h1
        cases h2 : revertField r1 obs ["status"] with
        | error e => simp [h2] at h
        | ok r2 =>
          simp only [h2, pure, Except.pure] at h
          cases h
          have e2 := revertField_top_outside ds dm r1 obs r2 "status" (EditOutside.metaObj_right e1) (by decide) hp.hstatus h2
          have e3 := setLastApplied_outside ds dm r2 (.obj ds) (EditOutside.metaObj_right e2) hp.hann
          have e := (e1.trans e2).trans e3
          exact ⟨fix_of_editOutside mks ds dm hu hudm hp.hmeta r _ hfix e, EditOutside.metaObj_right e,
            setLastApplied_annotations r2 (.obj ds) (EditOutside.metaObj_right e2) rfl⟩

/-! ### what the API server stores for the update -/

theorem update_post_shape (d : ResDef) (cur body : J) (f : Fresh) (o' : J) (h : (update d (some cur) body f).post = some o') :
    o' = cur ∨ ∃ x, o' = setMeta (setMeta (updated d cur body) "resourceVersion" (.str x)) "resourceVersion" (.str f.rv) := by
  unfold update at h
  simp only [] at h
  split at h; · simp [fail] at h; exact .inl h.symm
  split at h; · simp [fail] at h; exact .inl h.symm
  split at h; · simp [fail] at h; exact .inl h.symm
  unfold commit at h
  simp only [] at h
  split at h
  · cases h; exact .inl rfl
  · split at h
    · cases h
    · cases h; exact .inr ⟨_, rfl⟩

theorem lookup_top_withMeta (o : J) (m : KVs) (k : String) (hk : k ≠ "metadata") : lookup k (withMeta o m).fields = lookup k o.fields := by
  rw [fields_withMeta, lookup_setKey_other _ _ _ _ hk]

theorem lookup_top_setMeta (o : J) (k' : String) (v : J) (k : String) (hk : k ≠ "metadata") : lookup k (setMeta o k' v).fields = lookup k o.fields :=
  lookup_top_withMeta o _ k hk

theorem lookup_meta_setMeta (o : J) (k' : String) (v : J) (k : String) (hk : k ≠ k') : lookup k (metaOf (setMeta o k' v)) = lookup k (metaOf o) := by
  unfold setMeta; rw [metaOf_withMeta, lookup_setKey_other _ _ _ _ hk]

theorem metaObj_withMeta (o : J) (m : KVs) : MetaObj (withMeta o m) := ⟨_, m, rfl, lookup_setKey_same _ _ _⟩

theorem lookup_top_keepStatus (cur o : J) (k : String) (hk : k ≠ "status") : lookup k (keepStatus cur o).fields = lookup k o.fields := by
  unfold keepStatus
  split
  · simp only [J.fields]; rw [lookup_setKey_other _ _ _ _ hk]
  · simp only [J.fields]; rw [lookup_eraseKey, if_neg hk]

theorem metaObj_keepStatus (cur o : J) (h : MetaObj o) : MetaObj (keepStatus cur o) := by
  obtain ⟨xs, mx, rfl, hmx⟩ := h
  have := lookup_top_keepStatus cur (.obj xs) "metadata" (by decide)
  cases hk : keepStatus cur (.obj xs) with
  | obj ys => rw [hk] at this; exact ⟨ys, mx, rfl, this.trans hmx⟩
  | null => unfold keepStatus at hk; split at hk <;> cases hk
  | bool b => unfold keepStatus at hk; split at hk <;> cases hk
  | num n => unfold keepStatus at hk; split at hk <;> cases hk
  | str s => unfold keepStatus at hk; split at hk <;> cases hk
  | arr a => unfold keepStatus at hk; split at hk <;> cases hk

/-- the content an accepted update asks for, compared with the body: top-level fields other than metadata and status are
    the body's; metadata fields are the live object's for the server-owned ones and the body's otherwise (generation aside) -/
theorem updated_lookups (d : ResDef) (cur body : J) :
    MetaObj (updated d cur body) ∧
    (∀ k, k ≠ "metadata" → k ≠ "status" → lookup k (updated d cur body).fields = lookup k body.fields) ∧
    (∀ k, k ≠ "generation" → lookup k (metaOf (updated d cur body)) =
        if k ∈ updateKeep then lookup k (metaOf cur) else lookup k (metaOf body)) := by
  unfold updated
  simp only []
  have hm0 := metaObj_withMeta body (copyMeta updateKeep (metaOf cur) (metaOf body))
  have base : MetaObj (if d.hasStatus = true then keepStatus cur (withMeta body (copyMeta updateKeep (metaOf cur) (metaOf body)))
        else withMeta body (copyMeta updateKeep (metaOf cur) (metaOf body))) ∧
      (∀ k, k ≠ "metadata" → k ≠ "status" → lookup k (if d.hasStatus = true then keepStatus cur (withMeta body (copyMeta updateKeep (metaOf cur) (metaOf body)))
        else withMeta body (copyMeta updateKeep (metaOf cur) (metaOf body))).fields = lookup k body.fields) ∧
      (∀ k, lookup k (metaOf (if d.hasStatus = true then keepStatus cur (withMeta body (copyMeta updateKeep (metaOf cur) (metaOf body)))
        else withMeta body (copyMeta updateKeep (metaOf cur) (metaOf body)))) =
        if k ∈ updateKeep then lookup k (metaOf cur) else lookup k (metaOf body)) := by
    split
    · refine ⟨metaObj_keepStatus _ _ hm0, ?_, ?_⟩
      · intro k hk hs; rw [lookup_top_keepStatus _ _ _ hs, lookup_top_withMeta _ _ _ hk]
      · intro k; rw [metaOf_keepStatus, metaOf_withMeta, lookup_copyMeta]
    · refine ⟨hm0, ?_, ?_⟩
      · intro k hk _; rw [lookup_top_withMeta _ _ _ hk]
      · intro k; rw [metaOf_withMeta, lookup_copyMeta]
  generalize (if d.hasStatus = true then keepStatus cur (withMeta body (copyMeta updateKeep (metaOf cur) (metaOf body)))
        else withMeta body (copyMeta updateKeep (metaOf cur) (metaOf body))) = X at base ⊢
  obtain ⟨b1, b2, b3⟩ := base
  unfold bumpGeneration
  split
  · exact ⟨b1, b2, fun k _ => b3 k⟩
  · refine ⟨metaObj_withMeta _ _, ?_, ?_⟩
    · intro k hk hs; rw [lookup_top_setMeta _ _ _ _ hk]; exact b2 k hk hs
    · intro k hk; rw [lookup_meta_setMeta _ _ _ _ hk]; exact b3 k

/-- **the stored object after an accepted update**: the old one (nothing changed), or the request body edited only
    outside what the desired object mentions - provided the desired object's name / namespace (if it has them) are
    the live object's, which is how the child was found -/
theorem update_post_outside (ds dm : KVs) (d : ResDef) (cur body : J) (f : Fresh) (hb : MetaObj body)
    (hkeep : ∀ k ∈ updateKeep, hasKey k dm = true → lookup k (metaOf cur) = lookup k (metaOf body))
    (hgen : hasKey "generation" dm = false) (hrv : hasKey "resourceVersion" dm = false) (hstatus : hasKey "status" ds = false)
    (o' : J) (hpost : (update d (some cur) body f).post = some o') :
    o' = cur ∨ (EditOutside ds dm body o' ∧ lookup "annotations" (metaOf o') = lookup "annotations" (metaOf body)) := by
  rcases update_post_shape d cur body f o' hpost with h | ⟨x, h⟩
  · exact .inl h
  · right
    obtain ⟨u1, u2, u3⟩ := updated_lookups d cur body
    subst h
    refine ⟨editOutside_of ds dm body _ hb (metaObj_withMeta _ _) ?_ ?_, ?_⟩
    · intro k hk hh
      have hs : k ≠ "status" := by intro e; rw [e, hstatus] at hh; cases hh
      rw [lookup_top_setMeta _ _ _ _ hk, lookup_top_setMeta _ _ _ _ hk]
      exact u2 k hk hs
    · intro k hh
      have h1 : k ≠ "resourceVersion" := by intro e; rw [e, hrv] at hh; cases hh
      have h2 : k ≠ "generation" := by intro e; rw [e, hgen] at hh; cases hh
      rw [lookup_meta_setMeta _ _ _ _ h1, lookup_meta_setMeta _ _ _ _ h1, u3 k h2]
      split
      · rename_i hk; exact hkeep k hk hh
      · rfl
    · rw [lookup_meta_setMeta _ _ _ _ (by decide), lookup_meta_setMeta _ _ _ _ (by decide), u3 "annotations" (by decide)]
      rw [if_neg (by decide)]

/-- **C01, in-place update path, field level**: the child is observed as `obs`; `ManageChildren` sends
    `ApplyUpdate obs des` as an update and the API server accepts it, storing `o'` (not the old object: something
    changed).  Then `o'` is a fixpoint of `ApplyUpdate` for `des`, so the next sync - from a cache showing `o'` -
    decides "nothing to do", for every update strategy.
    Hypotheses: `des` does not set server-owned metadata, annotations or status (`PlainUpdate`); the idempotence
    hypotheses of C05 on the inputs; for server-owned metadata that `des` does mention (name, namespace) the request
    body carries the live value; stored objects are well-formed JSON (no duplicate keys). -/
theorem C01_updated_child_is_settled (mks sys : List String) (method : String) (d : ResDef) (obs new o' : J) (ds dm : KVs) (f : Fresh)
    (hp : PlainUpdate sys ds dm)
    (ho : hypS mks obs = true) (hd : hypS mks (.obj ds) = true) (hc : coh mks obs (.obj ds) = true)
    (hs : scalarKeys mks obs = true) (hn : noNullOverArr obs (.obj ds) = true)
    (hnew : applyUpdate mks sys obs (.obj ds) = .ok new)
    (hkeep : ∀ k ∈ updateKeep, hasKey k dm = true → lookup k (metaOf obs) = lookup k (metaOf new))
    (hpost : (update d (some obs) new f).post = some o') (hchanged : o' ≠ obs) (hwf : o'.wfB = true) :
    applyUpdate mks sys o' (.obj ds) = .ok o' ∧ updateAct mks sys method o' (.obj ds) = .none := by
  have hhyp : hypJ mks (.obj ds) = true := hypS_hypJ mks _ hd
  obtain ⟨hu, hf⟩ := (hypJ_obj mks ds).mp hhyp
  have hudm : uniq dm := ((hypJ_obj mks dm).mp (hf "metadata" (.obj dm) (lookup_mem _ _ _ hp.hmeta))).1
  obtain ⟨hfix, hmo, am, ha1, ha2, ha3⟩ := applyUpdate_result_fix mks sys obs new ds dm hp ho hd hc hs hn hnew
  rcases update_post_outside ds dm d obs new f hmo hkeep hp.hgen hp.hrv hp.hstatus o' hpost with e | ⟨e, hann⟩
  · exact absurd e hchanged
  · have hfix' : Fix mks (.obj ds) o' := fix_of_editOutside mks ds dm hu hudm hp.hmeta new o' hfix e
    obtain ⟨os, m, rfl, hm⟩ := EditOutside.metaObj_right e
    have hmo' : metaOf (.obj os) = m := by simp [metaOf, J.fields, hm]
    rw [hmo'] at hann
    have hid : applyUpdate mks sys (.obj os) (.obj ds) = .ok (.obj os) :=
      applyUpdate_of_fix mks sys (.obj os) (.obj ds) os m am rfl rfl hm (hann.trans ha1) ha2 ha3 (nullify_plain sys ds dm hp) hfix'
    exact ⟨hid, C01_equal_is_fix mks sys method _ _ _ hid (J.eqv_refl _ hwf)⟩

/-! ### non-vacuity: the hypotheses hold on a concrete history (create with image v1, then the hook wants v2) -/
section Examples
def exCM : ResDef := { group := "", resource := "configmaps", namespaced := true, hasStatus := false }
def exObs2 : J := (exS1.find (tgtOf exInfo' (exDes' "a"))).getD .null
def exDes2 : J := .obj [("apiVersion", .str "v1"), ("kind", .str "ConfigMap"),
  ("metadata", .obj [("name", .str "a"), ("namespace", .str "ns1")]), ("data", .obj [("image", .str "v2")])]
def exNew2 : J := match applyUpdate ["name"] Generated.objectMetaSystemFields exObs2 exDes2 with | .ok n => n | .error _ => .null
def exStored2 : J := ((update exCM (some exObs2) exNew2 { rv := "7", uid := "uid-7", now := "t7" }).post).getD .null

example : PlainUpdate Generated.objectMetaSystemFields exDes2.fields [("name", .str "a"), ("namespace", .str "ns1")] := by
  constructor <;> first | rfl | decide
example : hypS ["name"] exObs2 = true ∧ hypS ["name"] exDes2 = true ∧ coh ["name"] exObs2 exDes2 = true ∧
    scalarKeys ["name"] exObs2 = true ∧ noNullOverArr exObs2 exDes2 = true := by decide
example : (match applyUpdate ["name"] Generated.objectMetaSystemFields exObs2 exDes2 with | .ok _ => true | .error _ => false) = true := by decide
-- the update is accepted, changes the stored object, and the stored object is well-formed
example : (update exCM (some exObs2) exNew2 { rv := "7", uid := "uid-7", now := "t7" }).ok = true ∧
    exStored2.beq exObs2 = false ∧ exStored2.wfB = true ∧ strAt exStored2 ["data", "image"] = "v2" := by decide
-- the conclusion, evaluated: ApplyUpdate leaves the stored object alone, the decision is "nothing to do"
example : (match applyUpdate ["name"] Generated.objectMetaSystemFields exStored2 exDes2 with | .ok x => x.beq exStored2 | .error _ => false) = true := by decide
example : (match updateAct ["name"] Generated.objectMetaSystemFields "InPlace" exStored2 exDes2 with | .none => true | _ => false) = true := by decide
end Examples

end C01
end Mc
