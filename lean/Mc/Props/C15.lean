import Mc.Sync.Related
import Mc.Proofs.ObjMapLemmas
import Mc.Proofs.ProgLemmasV
/-
  C15 - related objects: how a rule selects (by labels / by namespace and names / invalid), what is
  listed is what triggers, invalid and foreign-namespace rules are errors, the customize hook is asked
  once per (parent UID, generation).
-/
namespace Mc.C15

/-! ## 10. `determineSelectionType` -/

def hasNsOrNames (r : RelRule) : Prop := r.ns ≠ "" ∨ r.names ≠ []

theorem hasNs_iff (r : RelRule) : (r.ns != "" || !r.names.isEmpty) = true ↔ hasNsOrNames r := by
  unfold hasNsOrNames
  cases hn : r.names <;> simp

theorem C15_selection_type_invalid (r : RelRule) :
    selectionType r = .invalid ↔ r.labelSelector.isSome = true ∧ (r.ns ≠ "" ∨ r.names ≠ []) := by
  have h := hasNs_iff r
  unfold hasNsOrNames at h
  unfold selectionType
  cases hl : r.labelSelector.isSome <;> cases hb : (r.ns != "" || !r.names.isEmpty) <;>
    simp only [hb, Bool.true_and, Bool.false_and, if_true, if_false, Bool.false_eq_true, ← h] <;> simp

theorem C15_selection_type_byNames (r : RelRule) :
    selectionType r = .byNames ↔ r.labelSelector = none ∧ (r.ns ≠ "" ∨ r.names ≠ []) := by
  have h := hasNs_iff r
  unfold hasNsOrNames at h
  unfold selectionType
  cases hl : r.labelSelector <;> cases hb : (r.ns != "" || !r.names.isEmpty) <;>
    simp only [hb, Option.isSome, Bool.true_and, Bool.false_and, if_true, if_false, Bool.false_eq_true, ← h] <;> simp

theorem C15_selection_type_byLabels (r : RelRule) :
    selectionType r = .byLabels ↔ r.ns = "" ∧ r.names = [] := by
  have h := hasNs_iff r
  unfold hasNsOrNames at h
  have h' : (r.ns = "" ∧ r.names = []) ↔ ¬ (r.ns ≠ "" ∨ r.names ≠ []) := by
    constructor
    · rintro ⟨h1, h2⟩ h3; rcases h3 with h3 | h3 <;> contradiction
    · intro h3
      refine ⟨Classical.byContradiction (fun h1 => h3 (Or.inl h1)), Classical.byContradiction (fun h2 => h3 (Or.inr h2))⟩
  rw [h', ← h]
  unfold selectionType
  cases hl : r.labelSelector.isSome <;> cases hb : (r.ns != "" || !r.names.isEmpty) <;> simp

example : selectionType { apiVersion := "v1", resource := "secrets", labelSelector := some {}, ns := "x", names := [] } = .invalid ∧
    selectionType { apiVersion := "v1", resource := "secrets", labelSelector := none, ns := "", names := ["a"] } = .byNames ∧
    selectionType { apiVersion := "v1", resource := "secrets", labelSelector := some {}, ns := "", names := [] } = .byLabels ∧
    selectionType { apiVersion := "v1", resource := "secrets", labelSelector := none, ns := "", names := [] } = .byLabels := by
  decide

/-! ## 11. what is listed is what triggers -/

def relPool (cache : Cache) (res : ChildRes) : List J := (cache.related.lookup res.resource).getD []

def findRes (relRes : List ChildRes) (rule : RelRule) : Option ChildRes :=
  relRes.find? (fun r => r.apiVersion == rule.apiVersion && r.resource == rule.resource)

/-- selection by labels (`pns` = the parent's namespace) -/
def selLabels (parentNamespaced : Bool) (pns : String) (pool : List J) (sel : Selector) : List J :=
  (if parentNamespaced then pool.filter (fun o => getNamespace o == pns) else pool).filter (fun o => sel.matches (labelsOf o))

/-- selection by namespace and names -/
def selNames (pool : List J) (rule : RelRule) : List J :=
  let all := if rule.ns != "" then pool.filter (fun o => getNamespace o == rule.ns) else pool
  if rule.names.isEmpty then all else all.filter (fun o => rule.names.contains (getName o))

def resGVK (res : ChildRes) : GVK :=
  { group := (parseAPIVersion res.apiVersion).1, version := (parseAPIVersion res.apiVersion).2, kind := res.kind }

/-- one step of the fold in `GetRelatedObjects` -/
def relStep (parentNamespaced : Bool) (relRes : List ChildRes) (cache : Cache) (pns : String)
    (m : ObjMap) (orule : Option RelRule) : PE ObjMap :=
  match orule with
  | none => pure m
  | some rule =>
    match findRes relRes rule with
    | none => PE.fail "discovery: can't find resource"
    | some res =>
      match selectionType rule with
      | .invalid => PE.fail "related rule cannot have both labelSelector and Namespace/Names specified"
      | .byLabels =>
          match relSelector rule with
          | .error e => PE.fail e
          | .ok sel =>
            pure ((selLabels parentNamespaced pns (relPool cache res) sel).foldl (fun acc o => acc.insertUniform o) (m.initGroup (resGVK res)))
      | .byNames =>
          if parentNamespaced && rule.ns != "" && pns != rule.ns then
            PE.fail "requested related object namespace differs from parent object namespace"
          else
            pure ((selNames (relPool cache res) rule).foldl (fun acc o => acc.insertUniform o) (m.initGroup (resGVK res)))

theorem getRelatedObjects_eq (parentNamespaced : Bool) (relRes : List ChildRes) (cache : Cache) (parent : J) (cached : CustCache) :
    getRelatedObjects true parentNamespaced relRes cache parent cached =
      PE.bind (customizeResponse parent cached) (fun bc =>
        PE.bind (PE.ofExcept (decodeCustomizeResp bc.1)) (fun rules =>
          PE.bind (rules.foldlM (relStep parentNamespaced relRes cache (getNamespace parent)) []) (fun m =>
            PE.pure (m, bc.2)))) := rfl


/-- by labels: whatever the selector of the rule accepts, the trigger predicate accepts -/
theorem C15_byLabels_triggers (parentNamespaced : Bool) (parent o : J) (rule : RelRule) (kind : String) (sel : Selector)
    (hty : selectionType rule = .byLabels) (hsel : relSelector rule = .ok sel)
    (hgvk : getAPIVersion o = rule.apiVersion ∧ getKind o = kind)
    (hm : sel.matches (labelsOf o) = true) :
    matchesRelatedRule parentNamespaced parent o rule kind = .ok true := by
  unfold matchesRelatedRule
  simp [hgvk.1, hgvk.2, hty, hsel, hm, Except.map]

/-- by names: the namespace / names filter of the selection implies the trigger predicate, for an
    object in the parent's namespace when the parent is namespaced -/
theorem C15_byNames_triggers (parentNamespaced : Bool) (parent o : J) (rule : RelRule) (kind : String) (pool : List J)
    (hty : selectionType rule = .byNames)
    (hok : ¬ (parentNamespaced = true ∧ rule.ns ≠ "" ∧ getNamespace parent ≠ rule.ns))
    (hgvk : getAPIVersion o = rule.apiVersion ∧ getKind o = kind)
    (hns : parentNamespaced = true → getNamespace o = getNamespace parent)
    (hm : o ∈ selNames pool rule) :
    matchesRelatedRule parentNamespaced parent o rule kind = .ok true := by
  have hnames : rule.names = [] ∨ getName o ∈ rule.names := by
    unfold selNames at hm
    cases he : rule.names.isEmpty with
    | true => left; simpa using he
    | false =>
      simp only [he, Bool.false_eq_true, if_false, List.mem_filter] at hm
      right; simpa using hm.2
  have hrns : rule.ns ≠ "" → getNamespace o = rule.ns := by
    intro h
    unfold selNames at hm
    simp only [bne_iff_ne, ne_eq, h, not_false_eq_true, if_true] at hm
    split at hm
    · exact by simpa using (List.mem_filter.1 hm).2
    · exact by simpa using (List.mem_filter.1 (List.mem_filter.1 hm).1).2
  unfold matchesRelatedRule
  simp only [hgvk.1, hgvk.2, beq_self_eq_true, Bool.and_self, Bool.not_true, Bool.false_eq_true, if_false, hty]
  cases hp : parentNamespaced with
  | true =>
    have hns' := hns hp
    simp only [if_true]
    by_cases h1 : rule.ns = ""
    · simp [h1, hns', hnames]
    · have h2 : getNamespace parent = rule.ns := by
        apply Classical.byContradiction
        intro h2
        exact hok ⟨hp, h1, h2⟩
      have h3 : getNamespace o = rule.ns := hns'.trans h2
      simp [h2, h3, hnames]
  | false =>
    simp only [Bool.false_eq_true, if_false]
    by_cases h1 : rule.ns = ""
    · simp [h1, hnames]
    · simp [hrns h1, hnames]


/-- what the selection of one rule lets through -/
def Selected (parentNamespaced : Bool) (pns : String) (pool : List J) (rule : RelRule) (o : J) : Prop :=
  (∃ sel, selectionType rule = .byLabels ∧ relSelector rule = .ok sel ∧ o ∈ selLabels parentNamespaced pns pool sel) ∨
  (selectionType rule = .byNames ∧ ¬ (parentNamespaced = true ∧ rule.ns ≠ "" ∧ pns ≠ rule.ns) ∧ o ∈ selNames pool rule)

theorem mem_pool_of_selected {parentNamespaced : Bool} {pns : String} {pool : List J} {rule : RelRule} {o : J}
    (h : Selected parentNamespaced pns pool rule o) : o ∈ pool := by
  rcases h with ⟨sel, _, _, h⟩ | ⟨_, _, h⟩
  · unfold selLabels at h
    have h := (List.mem_filter.1 h).1
    split at h
    · exact (List.mem_filter.1 h).1
    · exact h
  · unfold selNames at h
    simp only [] at h
    have h2 : o ∈ (if (rule.ns != "") = true then List.filter (fun o => getNamespace o == rule.ns) pool else pool) := by
      split at h
      · exact h
      · exact (List.mem_filter.1 h).1
    split at h2
    · exact (List.mem_filter.1 h2).1
    · exact h2

/-- selected ⇒ triggers (both selection types) -/
theorem C15_selected_triggers (parentNamespaced : Bool) (parent o : J) (rule : RelRule) (kind : String) (pool : List J)
    (hsel : Selected parentNamespaced (getNamespace parent) pool rule o)
    (hgvk : getAPIVersion o = rule.apiVersion ∧ getKind o = kind)
    (hns : parentNamespaced = true → getNamespace o = getNamespace parent) :
    matchesRelatedRule parentNamespaced parent o rule kind = .ok true := by
  rcases hsel with ⟨sel, hty, hs, hm⟩ | ⟨hty, hok, hm⟩
  · exact C15_byLabels_triggers parentNamespaced parent o rule kind sel hty hs hgvk (List.mem_filter.1 hm).2
  · exact C15_byNames_triggers parentNamespaced parent o rule kind pool hty hok hgvk hns hm

/-- one step of the fold: whatever it adds was selected by its rule from the informer of the rule's resource;
    the group of the resource is present afterwards, even when nothing is selected -/
theorem relStep_sound (parentNamespaced : Bool) (relRes : List ChildRes) (cache : Cache) (pns : String)
    (m : ObjMap) (orule : Option RelRule) :
    PE.AllOk (fun m' => ∀ o ∈ m'.list, o ∈ m.list ∨
        ∃ rule res, orule = some rule ∧ findRes relRes rule = some res ∧
          Selected parentNamespaced pns (relPool cache res) rule o)
      (relStep parentNamespaced relRes cache pns m orule) := by
  unfold relStep
  cases orule with
  | none => exact PE.AllOk.pure (fun o ho => Or.inl ho)
  | some rule =>
    simp only []
    cases hres : findRes relRes rule with
    | none => exact PE.AllOk.fail _
    | some res =>
      simp only []
      cases hty : selectionType rule with
      | invalid => exact PE.AllOk.fail _
      | byLabels =>
        simp only []
        cases hsel : relSelector rule with
        | error e => exact PE.AllOk.fail _
        | ok sel =>
          apply PE.AllOk.pure
          intro o ho
          rcases mem_list_foldl_insertUniform ho with h | h
          · rw [list_initGroup] at h; exact Or.inl h
          · exact Or.inr ⟨rule, res, rfl, hres, Or.inl ⟨sel, hty, hsel, h⟩⟩
      | byNames =>
        simp only []
        by_cases hc : (parentNamespaced && rule.ns != "" && pns != rule.ns) = true
        · rw [if_pos hc]; exact PE.AllOk.fail _
        · rw [if_neg hc]
          apply PE.AllOk.pure
          intro o ho
          rcases mem_list_foldl_insertUniform ho with h | h
          · rw [list_initGroup] at h; exact Or.inl h
          · refine Or.inr ⟨rule, res, rfl, hres, Or.inr ⟨hty, ?_, h⟩⟩
            intro ⟨h1, h2, h3⟩
            apply hc
            simp [h1, h2, h3]

/-! ## 13. the customize hook is asked once per (UID, generation) -/

/-- a cached answer is used as is: no hook call -/
theorem C15_once_per_generation_cached (parent b : J) :
    customizeResponse parent (some b) = PE.pure (b, some b) := rfl

/-- after a call, the answer is what gets cached -/
theorem C15_once_per_generation_stored (parent : J) (cached : CustCache) :
    PE.AllOk (fun bc => bc.2 = some bc.1 ∧ ∀ b, cached = some b → bc.1 = b) (customizeResponse parent cached) := by
  cases cached with
  | some b => exact PE.AllOk.pure ⟨rfl, fun b' hb => by cases hb; rfl⟩
  | none =>
    unfold customizeResponse
    simp only [bind, pure]
    apply PE.AllOk.bind (PE.AllOk.lift (Prog.AllRets.trivial _))
    intro r _
    cases r with
    | hookOk body => exact PE.AllOk.pure ⟨rfl, fun b hb => by cases hb⟩
    | hook429 n => exact PE.AllOk.throw _
    | hookErr k => exact PE.AllOk.fail _
    | obj o => exact PE.AllOk.fail _
    | err e => exact PE.AllOk.fail _

/-- a step of the fold sends nothing -/
theorem relStep_ret (parentNamespaced : Bool) (relRes : List ChildRes) (cache : Cache) (pns : String)
    (m : ObjMap) (orule : Option RelRule) : ∃ x, relStep parentNamespaced relRes cache pns m orule = Prog.ret x := by
  unfold relStep
  cases orule with
  | none => exact ⟨_, rfl⟩
  | some rule =>
    simp only []
    cases findRes relRes rule with
    | none => exact ⟨_, rfl⟩
    | some res =>
      simp only []
      cases selectionType rule with
      | invalid => exact ⟨_, rfl⟩
      | byLabels =>
        simp only []
        cases relSelector rule with
        | error e => exact ⟨_, rfl⟩
        | ok sel => exact ⟨_, rfl⟩
      | byNames =>
        simp only []
        split <;> exact ⟨_, rfl⟩

theorem foldlM_relStep_ret (parentNamespaced : Bool) (relRes : List ChildRes) (cache : Cache) (pns : String) :
    ∀ (rules : List (Option RelRule)) (m : ObjMap),
      ∃ x, List.foldlM (relStep parentNamespaced relRes cache pns) m rules = Prog.ret x := by
  intro rules
  induction rules with
  | nil => intro m; exact ⟨_, rfl⟩
  | cons r rest ih =>
    intro m
    rw [PE.foldlM_cons]
    obtain ⟨x, hx⟩ := relStep_ret parentNamespaced relRes cache pns m r
    rw [hx]
    cases x with
    | ok m' => exact ih m'
    | error e => exact ⟨_, rfl⟩

/-- with a cached answer `GetRelatedObjects` sends nothing at all; without, every request it sends is
    the customize hook -/
theorem C15_requests (enabled parentNamespaced : Bool) (relRes : List ChildRes) (cache : Cache) (parent : J) (cached : CustCache) :
    Prog.AllCalls (fun r => cached = none ∧ ∃ body, r = .hook "customize" body)
      (getRelatedObjects enabled parentNamespaced relRes cache parent cached) := by
  have hfold := foldlM_relStep_ret parentNamespaced relRes cache (getNamespace parent)
  cases enabled with
  | false => exact .ret _
  | true =>
    rw [getRelatedObjects_eq]
    have hrest : ∀ bc : J × CustCache, Prog.AllCalls (fun r => cached = none ∧ ∃ body, r = .hook "customize" body)
        (PE.bind (PE.ofExcept (decodeCustomizeResp bc.1)) (fun rules =>
          PE.bind (rules.foldlM (relStep parentNamespaced relRes cache (getNamespace parent)) []) (fun m =>
            PE.pure (m, bc.2)))) := by
      intro bc
      cases decodeCustomizeResp bc.1 with
      | error e => exact .ret _
      | ok rules =>
        obtain ⟨x, hx⟩ := hfold rules []
        simp only [PE.ofExcept, PE.pure, PE.bind, Prog.bind, hx]
        cases x <;> exact .ret _
    cases cached with
    | some b => exact hrest (b, some b)
    | none =>
      apply PE.allCalls_bind _ hrest
      unfold customizeResponse
      simp only [bind, pure]
      apply PE.allCalls_bind (PE.allCalls_lift_request ⟨by first | rfl | trivial, _, rfl⟩)
      intro x
      cases x <;> exact .ret _


/-! ## 11 (continued). the fold, and the whole of `GetRelatedObjects` -/

/-- **C15**: on every successful branch, the answer of the customize hook (the one now cached) decodes
    to rules such that every related object listed was selected through one of them from the informer
    of that rule's resource - and therefore the trigger predicate `matchesRelatedRule` of that rule
    accepts it (for informer objects carrying the rule's apiVersion and kind, and - for a namespaced
    parent - lying in the parent's namespace, which is what `Convert` lets through) -/
theorem C15_listed_triggers (parentNamespaced : Bool) (relRes : List ChildRes) (cache : Cache) (parent : J) (cached : CustCache) :
    PE.AllOk (fun (r : ObjMap × CustCache) => ∃ body rules, r.2 = some body ∧ decodeCustomizeResp body = .ok rules ∧
        ∀ o ∈ r.1.list, ∃ rule res, some rule ∈ rules ∧ findRes relRes rule = some res ∧ o ∈ relPool cache res ∧
          Selected parentNamespaced (getNamespace parent) (relPool cache res) rule o ∧
          (getAPIVersion o = rule.apiVersion ∧ getKind o = res.kind →
            (parentNamespaced = true → getNamespace o = getNamespace parent) →
            matchesRelatedRule parentNamespaced parent o rule res.kind = .ok true))
      (getRelatedObjects true parentNamespaced relRes cache parent cached) := by
  rw [getRelatedObjects_eq]
  apply PE.AllOk.bind (C15_once_per_generation_stored parent cached)
  rintro ⟨body, c'⟩ ⟨hc, _⟩
  simp only [] at hc ⊢
  apply PE.AllOk.bind (Q := fun rules => decodeCustomizeResp body = .ok rules) (PE.AllOk.ofExcept (fun _ h => h))
  intro rules hrules
  have hfold := PE.AllOk.foldlM_prefix
    (Inv := fun (pre : List (Option RelRule)) (m : ObjMap) =>
      ∀ o ∈ m.list, ∃ rule res, some rule ∈ pre ∧ findRes relRes rule = some res ∧
        Selected parentNamespaced (getNamespace parent) (relPool cache res) rule o)
    (relStep parentNamespaced relRes cache (getNamespace parent)) ?_ rules [] [] (by simp [ObjMap.list])
  · apply PE.AllOk.bind hfold
    intro m hm
    apply PE.AllOk.pure
    refine ⟨body, rules, hc, hrules, ?_⟩
    intro o ho
    obtain ⟨rule, res, hr, hres, hsel⟩ := hm o ho
    refine ⟨rule, res, by simpa using hr, hres, mem_pool_of_selected hsel, hsel, ?_⟩
    intro hgvk hns
    exact C15_selected_triggers parentNamespaced parent o rule res.kind _ hsel hgvk hns
  · intro pre orule m hinv
    apply Prog.AllRets.mono _ (relStep_sound parentNamespaced relRes cache (getNamespace parent) m orule)
    intro r hr m' hm' o ho
    rcases hr m' hm' o ho with h | ⟨rule, res, rfl, hres, hsel⟩
    · obtain ⟨rule, res, h1, h2, h3⟩ := hinv o h
      exact ⟨rule, res, List.mem_append_left _ h1, h2, h3⟩
    · exact ⟨rule, res, by simp, hres, hsel⟩

/-! ## 12. invalid and foreign-namespace rules are errors -/

/-- a rule with both a label selector and namespace / names fails the step (and the sync) -/
theorem C15_invalid_is_error (parentNamespaced : Bool) (relRes : List ChildRes) (cache : Cache) (pns : String)
    (m : ObjMap) (rule : RelRule) (h : selectionType rule = .invalid) :
    ∃ msg, relStep parentNamespaced relRes cache pns m (some rule) = PE.fail msg := by
  unfold relStep
  simp only []
  cases findRes relRes rule with
  | none => exact ⟨_, rfl⟩
  | some res => simp only [h]; exact ⟨_, rfl⟩

/-- a namespaced parent may not name another namespace -/
theorem C15_foreign_namespace_error (relRes : List ChildRes) (cache : Cache) (pns : String)
    (m : ObjMap) (rule : RelRule) (h1 : rule.ns ≠ "") (h2 : rule.ns ≠ pns) :
    ∃ msg, relStep true relRes cache pns m (some rule) = PE.fail msg := by
  have hty : selectionType rule = .invalid ∨ selectionType rule = .byNames := by
    cases hl : rule.labelSelector with
    | none => right; exact (C15_selection_type_byNames rule).2 ⟨hl, Or.inl h1⟩
    | some ls => left; exact (C15_selection_type_invalid rule).2 ⟨by simp [hl], Or.inl h1⟩
  rcases hty with hty | hty
  · exact C15_invalid_is_error true relRes cache pns m rule hty
  · unfold relStep
    simp only []
    cases findRes relRes rule with
    | none => exact ⟨_, rfl⟩
    | some res =>
      simp only [hty]
      have : (true && rule.ns != "" && pns != rule.ns) = true := by
        have h3 : ¬ pns = rule.ns := fun e => h2 e.symm
        simp [h1, h3]
      rw [if_pos this]
      exact ⟨_, rfl⟩

/-- an unknown resource is an error as well -/
theorem C15_unknown_resource_error (parentNamespaced : Bool) (relRes : List ChildRes) (cache : Cache) (pns : String)
    (m : ObjMap) (rule : RelRule) (h : findRes relRes rule = none) :
    relStep parentNamespaced relRes cache pns m (some rule) = PE.fail "discovery: can't find resource" := by
  unfold relStep
  simp only [h]

/-- one failing rule fails the whole of `GetRelatedObjects`, wherever it stands in the list and whatever the
    other rules select (stated with the answer cached: the program is then a single leaf) -/
theorem C15_bad_rule_fails (parentNamespaced : Bool) (relRes : List ChildRes) (cache : Cache) (parent body : J)
    (rules : List (Option RelRule)) (orule : Option RelRule)
    (hdec : decodeCustomizeResp body = .ok rules) (hmem : orule ∈ rules)
    (hbad : ∀ m, ∃ msg, relStep parentNamespaced relRes cache (getNamespace parent) m orule = PE.fail msg) :
    ∃ e, getRelatedObjects true parentNamespaced relRes cache parent (some body) = Prog.ret (.error e) := by
  have hfold : ∀ (rules : List (Option RelRule)) (m : ObjMap), orule ∈ rules →
      ∃ e, List.foldlM (relStep parentNamespaced relRes cache (getNamespace parent)) m rules = Prog.ret (.error e) := by
    intro rules
    induction rules with
    | nil => intro m h; simp at h
    | cons r rest ih =>
      intro m h
      rw [PE.foldlM_cons]
      obtain ⟨x, hx⟩ := relStep_ret parentNamespaced relRes cache (getNamespace parent) m r
      rw [hx]
      cases x with
      | error e => exact ⟨e, rfl⟩
      | ok m' =>
        rcases List.mem_cons.1 h with rfl | h
        · obtain ⟨msg, hmsg⟩ := hbad m
          rw [hmsg] at hx
          cases hx
        · exact ih m' h
  obtain ⟨e, he⟩ := hfold rules [] hmem
  refine ⟨e, ?_⟩
  rw [getRelatedObjects_eq, C15_once_per_generation_cached]
  simp only [PE.ofExcept, PE.pure, PE.bind, Prog.bind, hdec, he]
  rfl


/-! ## non-vacuity -/
namespace Ex
def res0 : ChildRes := { apiVersion := "v1", resource := "secrets", kind := "Secret", namespaced := true, hasStatus := false, method := none }
def secret (ns name : String) (labels : KVs) : J :=
  .obj [("apiVersion", .str "v1"), ("kind", .str "Secret"), ("metadata", .obj [("name", .str name), ("namespace", .str ns), ("labels", .obj labels)])]
def sA : J := secret "ns" "a" [("app", .str "x")]
def sB : J := secret "ns" "b" []
def sC : J := secret "other" "a" [("app", .str "x")]
def cache0 : Cache := { parents := [], children := [], related := [("secrets", [sA, sB, sC])], revisions := [] }
def parent0 : J := .obj [("metadata", .obj [("name", .str "p"), ("namespace", .str "ns"), ("uid", .str "u")])]
def ruleNames : RelRule := { apiVersion := "v1", resource := "secrets", labelSelector := none, ns := "ns", names := ["a"] }
def ruleLabels : RelRule := { apiVersion := "v1", resource := "secrets", labelSelector := some { matchLabels := [("app", "x")] }, ns := "", names := [] }
def ruleInvalid : RelRule := { ruleLabels with names := ["a"] }
def ruleForeign : RelRule := { ruleNames with ns := "other" }
def bodyNames : J := .obj [("relatedResources", .arr [.obj [("apiVersion", .str "v1"), ("resource", .str "secrets"), ("namespace", .str "ns"), ("names", .arr [.str "a"])]])]

example : selNames (relPool cache0 res0) ruleNames = [sA] := by rfl
example : selLabels true "ns" (relPool cache0 res0) (.reqs [.isIn "app" ["x"]]) = [sA] := by rfl
example : relSelector ruleLabels = .ok (.reqs [.isIn "app" ["x"]]) := by rfl

/-- by names, namespaced parent -/
example : matchesRelatedRule true parent0 sA ruleNames "Secret" = .ok true :=
  C15_byNames_triggers true parent0 sA ruleNames "Secret" (relPool cache0 res0) (by decide) (by decide) ⟨by rfl, by rfl⟩
    (fun _ => by rfl) (by rw [show selNames (relPool cache0 res0) ruleNames = [sA] from by rfl]; simp)

/-- by labels -/
example : matchesRelatedRule true parent0 sA ruleLabels "Secret" = .ok true :=
  C15_byLabels_triggers true parent0 sA ruleLabels "Secret" (.reqs [.isIn "app" ["x"]]) (by decide) (by rfl) ⟨by rfl, by rfl⟩ (by rfl)

/-- the side condition on the namespace is needed for a namespaced parent and a rule without namespace:
    the selection by names lists `other/a` too (it is `Convert` that drops it), the trigger predicate refuses it -/
example : sC ∈ selNames (relPool cache0 res0) { ruleNames with ns := "" } ∧
    matchesRelatedRule true parent0 sC { ruleNames with ns := "" } "Secret" = .ok false := by
  refine ⟨?_, by rfl⟩
  rw [show selNames (relPool cache0 res0) { ruleNames with ns := "" } = [sA, sC] from by rfl]; simp

example : selectionType ruleInvalid = .invalid := by decide
example : ∃ msg, relStep true [res0] cache0 "ns" [] (some ruleInvalid) = PE.fail msg :=
  C15_invalid_is_error true [res0] cache0 "ns" [] ruleInvalid (by decide)
example : ∃ msg, relStep true [res0] cache0 "ns" [] (some ruleForeign) = PE.fail msg :=
  C15_foreign_namespace_error [res0] cache0 "ns" [] ruleForeign (by decide) (by decide)

def bodyInvalid : J := .obj [("relatedResources", .arr [.null,
  .obj [("apiVersion", .str "v1"), ("resource", .str "secrets"), ("names", .arr [.str "a"])],
  .obj [("apiVersion", .str "v1"), ("resource", .str "secrets"), ("names", .arr [.str "a"]), ("labelSelector", .obj [])]])]
/-- one invalid rule (the last of three) fails the whole listing -/
example : ∃ e, getRelatedObjects true true [res0] cache0 parent0 (some bodyInvalid) = Prog.ret (.error e) := by
  refine C15_bad_rule_fails true [res0] cache0 parent0 bodyInvalid
    [none, some { ruleNames with ns := "" }, some { apiVersion := "v1", resource := "secrets", labelSelector := some {}, ns := "", names := ["a"] }]
    (some { apiVersion := "v1", resource := "secrets", labelSelector := some {}, ns := "", names := ["a"] }) (by rfl) (by simp) ?_
  intro m
  exact C15_invalid_is_error _ _ _ _ m _ (by decide)

example : customizeResponse parent0 (some bodyNames) = PE.pure (bodyNames, some bodyNames) := rfl

/-- a successful run with a cached answer that lists `sA` (so `C15_listed_triggers` is not vacuous) -/
example : ∃ m, getRelatedObjects true true [res0] cache0 parent0 (some bodyNames) = PE.pure (m, some bodyNames) ∧ sA ∈ m.list := by
  refine ⟨ObjMap.insertUniform (ObjMap.initGroup [] (resGVK res0)) sA, by rfl, ?_⟩
  apply mem_list_of_at (k := gvkOf sA) (n := qualifiedName sA)
  unfold ObjMap.insertUniform
  rw [at_put]; simp
end Ex

end Mc.C15
