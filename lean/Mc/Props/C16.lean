import Mc.Sync.Decorator
import Mc.Proofs.StrMapLemmas
/-
  C16 - a decorator changes only labels, annotations, status and finalizer of its target, and
  recognises its attachments by controller reference and marker annotation.
-/
namespace Mc.C16

/-! ## 1. `updateStringMap`, pointwise -/

/-- a named key takes the named value or disappears, every other key is unchanged
    (no hypothesis on `dest` is needed: `lookup` reads the first binding, `eraseKey` drops all) -/
theorem C16_string_map_pointwise (updates : List (String × Option String)) (hd : (updKeys updates).Nodup) :
    ∀ (dest : KVs) (k : String),
    lookup k (updateStringMap dest updates).1 =
      match updates.lookup k with
      | some none => none
      | some (some v) => some (.str v)
      | none => lookup k dest := by
  induction updates with
  | nil => intro dest k; rfl
  | cons hd' tl ih =>
    obtain ⟨a, x⟩ := hd'
    intro dest k
    simp only [updKeys, List.map_cons, List.nodup_cons] at hd
    obtain ⟨ha, htl⟩ := hd
    rw [slookup_cons]
    by_cases hk : k = a
    · subst hk
      simp only [if_true]
      cases x with
      | none =>
        cases hh : hasKey k dest with
        | true =>
          rw [updateStringMap_none_has _ _ _ hh]
          simp only []
          rw [lookup_updateStringMap_other k tl _ ha, lookup_eraseKey, if_pos rfl]
        | false =>
          rw [updateStringMap_none_absent _ _ _ hh, lookup_updateStringMap_other k tl _ ha]
          exact (hasKey_false_iff _ _).1 hh
      | some v =>
        by_cases hl : lookup k dest = some (.str v)
        · rw [updateStringMap_some_same _ _ _ _ hl, lookup_updateStringMap_other k tl _ ha, hl]
        · rw [updateStringMap_some_diff _ _ _ _ hl]
          simp only []
          rw [lookup_updateStringMap_other k tl _ ha, lookup_setKey_same]
    · simp only [hk, if_false]
      cases x with
      | none =>
        cases hh : hasKey a dest with
        | true =>
          rw [updateStringMap_none_has _ _ _ hh]
          simp only []
          rw [ih htl, lookup_eraseKey, if_neg hk]
        | false => rw [updateStringMap_none_absent _ _ _ hh, ih htl]
      | some v =>
        by_cases hl : lookup a dest = some (.str v)
        · rw [updateStringMap_some_same _ _ _ _ hl, ih htl]
        · rw [updateStringMap_some_diff _ _ _ _ hl]
          simp only []
          rw [ih htl, lookup_setKey_other _ _ _ _ hk]

/-- the result is again a map with unique keys -/
theorem C16_string_map_uniq : ∀ (updates : List (String × Option String)) (dest : KVs),
    uniq dest → uniq (updateStringMap dest updates).1 := by
  intro updates
  induction updates with
  | nil => intro dest h; exact h
  | cons hd tl ih =>
    obtain ⟨a, x⟩ := hd
    intro dest h
    cases x with
    | none =>
      cases hh : hasKey a dest with
      | true => rw [updateStringMap_none_has _ _ _ hh]; exact ih _ (uniq_eraseKey _ _ h)
      | false => rw [updateStringMap_none_absent _ _ _ hh]; exact ih _ h
    | some v =>
      by_cases hl : lookup a dest = some (.str v)
      · rw [updateStringMap_some_same _ _ _ _ hl]; exact ih _ h
      · rw [updateStringMap_some_diff _ _ _ _ hl]; exact ih _ (uniq_setKey _ _ _ h)

/-- nothing changed ⇒ same map -/
theorem C16_changed_flag : ∀ (updates : List (String × Option String)) (dest : KVs),
    (updateStringMap dest updates).2 = false → (updateStringMap dest updates).1 = dest := by
  intro updates
  induction updates with
  | nil => intro dest _; rfl
  | cons hd tl ih =>
    obtain ⟨a, x⟩ := hd
    intro dest h
    cases x with
    | none =>
      cases hh : hasKey a dest with
      | true => rw [updateStringMap_none_has _ _ _ hh] at h; simp at h
      | false => rw [updateStringMap_none_absent _ _ _ hh] at h ⊢; exact ih _ h
    | some v =>
      by_cases hl : lookup a dest = some (.str v)
      · rw [updateStringMap_some_same _ _ _ _ hl] at h ⊢; exact ih _ h
      · rw [updateStringMap_some_diff _ _ _ _ hl] at h; simp at h

/-- conversely the flag is raised only by a real edit: an update list whose every entry already holds
    leaves the flag down -/
theorem C16_flag_false_of_satisfied : ∀ (updates : List (String × Option String)) (dest : KVs),
    (∀ e ∈ updates, match e.2 with | none => lookup e.1 dest = none | some v => lookup e.1 dest = some (.str v)) →
    updateStringMap dest updates = (dest, false) := by
  intro updates
  induction updates with
  | nil => intro dest _; rfl
  | cons hd tl ih =>
    obtain ⟨a, x⟩ := hd
    intro dest h
    have h0 := h (a, x) (by simp)
    have htl := fun e he => h e (List.mem_cons_of_mem _ he)
    cases x with
    | none =>
      simp only [] at h0
      rw [updateStringMap_none_absent _ _ _ ((hasKey_false_iff _ _).2 h0)]; exact ih _ htl
    | some v =>
      simp only [] at h0
      rw [updateStringMap_some_same _ _ _ _ h0]; exact ih _ htl

example : updateStringMap [("a", .str "1"), ("b", .str "2")] [("a", none), ("c", some "3"), ("b", some "2")]
    = ([("b", .str "2"), ("c", .str "3")], true) := by rfl
example : (updKeys [("a", none), ("c", some "3"), ("b", some "2")]).Nodup := by decide
example : updateStringMap [("a", .str "1")] [("a", some "1"), ("z", none)] = ([("a", .str "1")], false) := by rfl
/-- why distinct keys are required: with a repeated key the *last* entry wins, `List.lookup` reads the first -/
example : lookup "a" (updateStringMap [] [("a", some "1"), ("a", none)]).1 = none ∧
    List.lookup "a" [("a", some "1"), ("a", (none : Option String))] = some (some "1") := by decide


namespace Ex
def att0 : ChildRes := { apiVersion := "v1", resource := "configmaps", kind := "ConfigMap", namespaced := true, hasStatus := false, method := none }
def rule0 : ParentRes := { apiVersion := "apps/v1", resource := "deployments", kind := "Deployment", namespaced := true, hasStatus := true, labelSel := some (.reqs [.exists_ "app"]), annSel := none }
def dc0 : DCfg := { name := "dec", resources := [rule0], attachments := [att0], finalize := false, customize := false }
def parent0 : J := .obj [("apiVersion", .str "apps/v1"), ("kind", .str "Deployment"),
  ("metadata", .obj [("name", .str "p"), ("namespace", .str "ns"), ("uid", .str "u1"), ("labels", .obj [("app", .str "x")])]),
  ("status", .obj [("replicas", .num 1)])]
def mk (name uid : String) (ann : KVs) : J := .obj [("apiVersion", .str "v1"), ("kind", .str "ConfigMap"),
  ("metadata", .obj [("name", .str name), ("namespace", .str "ns"), ("annotations", .obj ann),
    ("ownerReferences", .arr [.obj [("uid", .str uid), ("controller", .bool true)]])])]
/-- ours: controller reference and marker -/
def o1 : J := mk "a" "u1" [(Generated.decoratorAnnotation, .str "dec")]
/-- controller reference but no marker -/
def o2 : J := mk "b" "u1" []
/-- marker but controlled by someone else -/
def o3 : J := mk "c" "u2" [(Generated.decoratorAnnotation, .str "dec")]
def cache0 : Cache := { parents := [parent0], children := [("configmaps", [o1, o2, o3])], related := [], revisions := [] }
end Ex

/-! ## 2. the selector of a decorator is a conjunction -/

def labelPart (r : ParentRes) (o : J) : Prop :=
  match r.labelSel with | none => True | some s => s.matches (labelsOf o) = true

def annotationPart (r : ParentRes) (o : J) : Prop :=
  match r.annSel with | none => True | some s => s.matches (annotationsOf o) = true

/-- both selectors of the rule for the object's group-kind must match -/
theorem C16_selector_conjunction (c : DCfg) (o : J) :
    c.selMatches o = true ↔ ∃ r, c.ruleFor o = some r ∧ labelPart r o ∧ annotationPart r o := by
  unfold DCfg.selMatches labelPart annotationPart
  cases hr : c.ruleFor o with
  | none => simp
  | some r =>
    simp only [Bool.and_eq_true, Option.some.injEq, exists_eq_left']
    cases r.labelSel <;> cases r.annSel <;> simp

/-- which rule: the last declared one for the object's group and kind (version ignored) -/
theorem C16_rule_for (c : DCfg) (o : J) (r : ParentRes) (h : c.ruleFor o = some r) :
    r ∈ c.resources ∧ r.group = apiGroup (getAPIVersion o) ∧ r.kind = getKind o := by
  unfold DCfg.ruleFor at h
  have h1 := List.mem_of_find?_eq_some h
  have h2 := List.find?_some h
  simp only [Bool.and_eq_true, beq_iff_eq] at h2
  exact ⟨by simpa using h1, h2.1, h2.2⟩

/-- an object of an undeclared group-kind never matches -/
theorem C16_undeclared_never_matches (c : DCfg) (o : J)
    (h : ∀ r ∈ c.resources, ¬ (r.group = apiGroup (getAPIVersion o) ∧ r.kind = getKind o)) :
    c.selMatches o = false := by
  have : c.ruleFor o = none := by
    unfold DCfg.ruleFor
    rw [List.find?_eq_none]
    intro r hr
    simp only [Bool.and_eq_true, beq_iff_eq]
    exact h r (by simpa using hr)
  simp [DCfg.selMatches, this]

/-- non-vacuity (`apiGroup` is `String.splitOn`, which the kernel cannot evaluate; the example only needs
    `apiGroup "apps/v1" == apiGroup "apps/v1"`) -/
theorem Ex.sel_ok :
    Ex.dc0.ruleFor Ex.parent0 = some Ex.rule0 ∧ labelPart Ex.rule0 Ex.parent0 ∧ annotationPart Ex.rule0 Ex.parent0 := by
  refine ⟨?_, by unfold labelPart; rfl, by simp [annotationPart, Ex.rule0]⟩
  have h1 : getAPIVersion Ex.parent0 = "apps/v1" := by rfl
  have h2 : getKind Ex.parent0 = "Deployment" := by rfl
  simp [DCfg.ruleFor, Ex.dc0, ParentRes.group, Ex.rule0, h1, h2]

example : Ex.dc0.selMatches Ex.parent0 = true := (C16_selector_conjunction _ _).2 ⟨_, Ex.sel_ok⟩

/-! ## 3. attachments: controller reference **and** marker annotation -/

/-- the informer content `getChildren` starts from, for one attachment resource -/
def pool (cache : Cache) (ch : ChildRes) : List J := (cache.children.lookup ch.resource).getD []

def isMine (c : DCfg) (parent o : J) : Prop :=
  (getNamespace parent = "" ∨ getNamespace o = getNamespace parent) ∧
  (∃ r, controllerOf o = some r ∧ r.uid = getUID parent) ∧
  (annotationsOf o).lookup Generated.decoratorAnnotation = some c.name

/-- the objects one step of `getChildren` reports -/
def mine (c : DCfg) (cache : Cache) (parent : J) (ch : ChildRes) : List J :=
  (if getNamespace parent != "" then (pool cache ch).filter (fun o => getNamespace o == getNamespace parent) else pool cache ch).filter
    (fun o =>
      (match controllerOf o with | some r => r.uid == getUID parent | none => false) &&
      (annotationsOf o).lookup Generated.decoratorAnnotation == some c.name)

def chGVK (ch : ChildRes) : GVK :=
  { group := (parseAPIVersion ch.apiVersion).1, version := (parseAPIVersion ch.apiVersion).2, kind := ch.kind }

def attachStep (c : DCfg) (cache : Cache) (parent : J) (m : ObjMap) (ch : ChildRes) : ObjMap :=
  (mine c cache parent ch).foldl (fun acc o => acc.insertUniform o) (m.initGroup (chGVK ch))

theorem getAttachments_eq (c : DCfg) (cache : Cache) (parent : J) :
    getAttachments c cache parent = c.attachments.foldl (attachStep c cache parent) [] := rfl

theorem mem_mine (c : DCfg) (cache : Cache) (parent : J) (ch : ChildRes) (o : J) :
    o ∈ mine c cache parent ch ↔ o ∈ pool cache ch ∧ isMine c parent o := by
  unfold mine isMine
  rw [List.mem_filter]
  have hctl : (match controllerOf o with | some r => r.uid == getUID parent | none => false) = true ↔
      ∃ r, controllerOf o = some r ∧ r.uid = getUID parent := by
    cases controllerOf o <;> simp
  simp only [Bool.and_eq_true, hctl, beq_iff_eq]
  by_cases hp : getNamespace parent = ""
  · simp [hp]
  · simp only [bne_iff_ne, ne_eq, hp, not_false_eq_true, if_true, List.mem_filter, beq_iff_eq, false_or]
    constructor
    · rintro ⟨⟨h1, h2⟩, h3, h4⟩; exact ⟨h1, h2, h3, h4⟩
    · rintro ⟨h1, h2, h3, h4⟩; exact ⟨⟨h1, h2⟩, h3, h4⟩

theorem mem_list_foldl_attachStep (c : DCfg) (cache : Cache) (parent : J) (o : J) :
    ∀ (chs : List ChildRes) (m : ObjMap), o ∈ (chs.foldl (attachStep c cache parent) m).list →
      o ∈ m.list ∨ ∃ ch ∈ chs, o ∈ mine c cache parent ch := by
  intro chs
  induction chs with
  | nil => intro m h; exact Or.inl h
  | cons ch rest ih =>
    intro m h
    rw [List.foldl_cons] at h
    rcases ih _ h with h | ⟨ch', hch', h⟩
    · unfold attachStep at h
      rcases mem_list_foldl_insertUniform h with h | h
      · rw [list_initGroup] at h; exact Or.inl h
      · exact Or.inr ⟨ch, by simp, h⟩
    · exact Or.inr ⟨ch', List.mem_cons_of_mem _ hch', h⟩

/-- soundness: whatever `getChildren` reports (hence whatever can later be updated or deleted as an
    attachment) is in the informer of a declared attachment resource, in the parent's namespace when it
    has one, controlled by the parent (UID) and stamped with this decorator's name -/
theorem C16_attachment_filter_sound (c : DCfg) (cache : Cache) (parent o : J)
    (h : o ∈ (getAttachments c cache parent).list) :
    ∃ ch ∈ c.attachments, o ∈ pool cache ch ∧ isMine c parent o := by
  rw [getAttachments_eq] at h
  rcases mem_list_foldl_attachStep c cache parent o _ _ h with h | ⟨ch, hch, h⟩
  · simp [ObjMap.list] at h
  · exact ⟨ch, hch, (mem_mine ..).1 h⟩

theorem at_foldl_attachStep (c : DCfg) (cache : Cache) (parent : J) (o : J) :
    ∀ (chs : List ChildRes) (m : ObjMap),
      (∀ ch ∈ chs, ∀ x ∈ mine c cache parent ch, gvkOf x = gvkOf o → qualifiedName x = qualifiedName o → x = o) →
      ((∃ ch ∈ chs, o ∈ mine c cache parent ch) ∨ m.at (gvkOf o) (qualifiedName o) = some o) →
      (chs.foldl (attachStep c cache parent) m).at (gvkOf o) (qualifiedName o) = some o := by
  intro chs
  induction chs with
  | nil =>
    intro m _ h
    rcases h with ⟨ch, hch, _⟩ | h
    · simp at hch
    · exact h
  | cons ch rest ih =>
    intro m hinj h
    rw [List.foldl_cons]
    apply ih _ (fun ch' h' => hinj ch' (List.mem_cons_of_mem _ h'))
    by_cases hm : o ∈ mine c cache parent ch
    · right
      exact at_foldl_insertUniform _ _ _ (hinj ch (by simp)) (Or.inl hm)
    · rcases h with ⟨ch', hch', h⟩ | h
      · rcases List.mem_cons.1 hch' with rfl | hch'
        · exact absurd h hm
        · exact Or.inl ⟨ch', hch', h⟩
      · right
        apply at_foldl_insertUniform _ _ _ (hinj ch (by simp)) (Or.inr _)
        rw [at_initGroup]; exact h

/-- completeness: every object passing the filter is reported, under its own group-version-kind and
    qualified name, provided no *other* reported object has the same (gvk, qualified name)
    (within one resource the API server guarantees this; across resources it holds when distinct
    attachment rules name distinct kinds) -/
theorem C16_attachment_filter_complete (c : DCfg) (cache : Cache) (parent o : J)
    (hinj : ∀ ch ∈ c.attachments, ∀ x ∈ pool cache ch, isMine c parent x →
      gvkOf x = gvkOf o → qualifiedName x = qualifiedName o → x = o)
    (h : ∃ ch ∈ c.attachments, o ∈ pool cache ch ∧ isMine c parent o) :
    (getAttachments c cache parent).at (gvkOf o) (qualifiedName o) = some o ∧
    o ∈ (getAttachments c cache parent).list := by
  have hat : (getAttachments c cache parent).at (gvkOf o) (qualifiedName o) = some o := by
    rw [getAttachments_eq]
    apply at_foldl_attachStep
    · intro ch hch x hx
      obtain ⟨hx1, hx2⟩ := (mem_mine ..).1 hx
      exact hinj ch hch x hx1 hx2
    · obtain ⟨ch, hch, h1, h2⟩ := h
      exact Or.inl ⟨ch, hch, (mem_mine ..).2 ⟨h1, h2⟩⟩
  exact ⟨hat, mem_list_of_at hat⟩

/-- the filter, as an equivalence -/
theorem C16_attachment_filter (c : DCfg) (cache : Cache) (parent o : J)
    (hinj : ∀ ch ∈ c.attachments, ∀ x ∈ pool cache ch, isMine c parent x →
      gvkOf x = gvkOf o → qualifiedName x = qualifiedName o → x = o) :
    o ∈ (getAttachments c cache parent).list ↔
      ∃ ch ∈ c.attachments, o ∈ (cache.children.lookup ch.resource).getD [] ∧
        (getNamespace parent = "" ∨ getNamespace o = getNamespace parent) ∧
        (∃ r, controllerOf o = some r ∧ r.uid = getUID parent) ∧
        (annotationsOf o).lookup Generated.decoratorAnnotation = some c.name :=
  ⟨C16_attachment_filter_sound c cache parent o, fun h => (C16_attachment_filter_complete c cache parent o hinj h).2⟩

namespace Ex
theorem isMine_o1 : isMine dc0 parent0 o1 :=
  ⟨Or.inr (by rfl), ⟨_, by rfl, by rfl⟩, by rfl⟩
theorem not_isMine_o2 : ¬ isMine dc0 parent0 o2 := fun h => absurd h.2.2 (by decide)
theorem not_isMine_o3 : ¬ isMine dc0 parent0 o3 := by
  rintro ⟨_, ⟨r, hr, hu⟩, _⟩
  have : controllerOf o3 = some { apiVersion := "", kind := "", name := "", uid := "u2", controller := some true, blockOwnerDeletion := none } := by rfl
  rw [this] at hr
  cases hr
  exact absurd hu (by decide)

/-- non-vacuity of soundness and completeness: of three ConfigMaps only the one carrying both marks is reported -/
example : o1 ∈ (getAttachments dc0 cache0 parent0).list ∧
    o2 ∉ (getAttachments dc0 cache0 parent0).list ∧ o3 ∉ (getAttachments dc0 cache0 parent0).list := by
  refine ⟨?_, ?_, ?_⟩
  · refine (C16_attachment_filter_complete dc0 cache0 parent0 o1 ?_ ⟨att0, by simp [dc0], by simp [pool, cache0, att0], isMine_o1⟩).2
    intro ch hch x hx hm _ _
    simp only [dc0, List.mem_singleton] at hch
    subst hch
    simp only [pool, cache0, att0, slookup_cons, if_true, Option.getD_some, List.mem_cons, List.not_mem_nil, or_false] at hx
    rcases hx with rfl | rfl | rfl
    · rfl
    · exact absurd hm not_isMine_o2
    · exact absurd hm not_isMine_o3
  · intro h
    obtain ⟨_, _, _, hm⟩ := C16_attachment_filter_sound _ _ _ _ h
    exact not_isMine_o2 hm
  · intro h
    obtain ⟨_, _, _, hm⟩ := C16_attachment_filter_sound _ _ _ _ h
    exact not_isMine_o3 hm
end Ex

/-! ## 4. no change, no request -/

def parentStatusOf (parent : J) : Except String (Option KVs) :=
  match nestedField parent ["status"] with
  | .ok none => .ok none
  | .ok (some (.obj kvs)) => .ok (some kvs)
  | _ => .error "status is not a map"

def statusChanged (old new : Option KVs) : Bool :=
  match old, new with
  | none, none => false
  | some a, some b => !((J.obj a).eqv (.obj b))
  | _, _ => true

def newStatusOf (old : Option KVs) (resp : DecResp) : Option KVs :=
  match resp.status with | none => old | some s => some s

theorem parentStatusOf_ok {parent : J} {st : Option KVs} (h : parentStatusOf parent = .ok st) :
    (nestedField parent ["status"] = .ok none ∧ st = none) ∨
    ∃ kvs, nestedField parent ["status"] = .ok (some (.obj kvs)) ∧ st = some kvs := by
  unfold parentStatusOf at h
  split at h
  · rename_i heq; left; exact ⟨heq, by cases h; rfl⟩
  · rename_i kvs heq; right; exact ⟨kvs, heq, by cases h; rfl⟩
  · cases h

theorem C16_no_change_no_request (c : DCfg) (rule : ParentRes) (parent : J) (resp : DecResp) (st : Option KVs)
    (hst : parentStatusOf parent = .ok st)
    (hl : (updateStringMap ((getLabels parent).getD []) resp.labels).2 = false)
    (ha : (updateStringMap ((getAnnotations parent).getD []) resp.annotations).2 = false)
    (hs : statusChanged st (newStatusOf st resp) = false)
    (hf : ¬ (resp.finalized = true ∧ hasFinalizer parent c.finalizer.name = true)) :
    decoratorParentUpdate c rule parent resp = Prog.ret (.ok .proceed) := by
  have hf' : (resp.finalized && hasFinalizer parent c.finalizer.name) = false := by
    cases h1 : resp.finalized <;> cases h2 : hasFinalizer parent c.finalizer.name <;> simp_all
  unfold decoratorParentUpdate
  simp only [bind, pure]
  unfold newStatusOf statusChanged at hs
  rcases parentStatusOf_ok hst with ⟨hnf, rfl⟩ | ⟨kvs, hnf, rfl⟩
  · rw [hnf]
    simp only [PE.ofExcept, PE.pure, PE.bind, Prog.bind, hl, ha, hf']
    cases hr : resp.status with
    | none => simp; rfl
    | some s => rw [hr] at hs; simp at hs
  · rw [hnf]
    simp only [PE.ofExcept, PE.pure, PE.bind, Prog.bind, hl, ha, hf']
    cases hr : resp.status with
    | none => rw [hr] at hs; simp only [] at hs; simp [hs]; rfl
    | some s => rw [hr] at hs; simp only [] at hs; simp [hs]; rfl

theorem C16_bad_status_no_request (c : DCfg) (rule : ParentRes) (parent : J) (resp : DecResp) (e : String)
    (hst : parentStatusOf parent = .error e) :
    decoratorParentUpdate c rule parent resp = PE.fail e := by
  unfold decoratorParentUpdate
  simp only [bind, pure]
  unfold parentStatusOf at hst
  split at hst
  · cases hst
  · cases hst
  · rename_i h1 h2
    cases hst
    split
    · rename_i heq; exact absurd heq h1
    · rename_i kvs heq; exact absurd heq (h2 kvs)
    · rfl

namespace Ex
def resp0 : DecResp := { labels := [("app", some "x"), ("gone", none)], annotations := [], status := some [("replicas", .num 1)], attachments := [], resyncAfter := 0, finalized := true }

/-- non-vacuity: the hook repeats what is already there (and asks to drop a finalizer that is absent) -/
example : decoratorParentUpdate dc0 rule0 parent0 resp0 = Prog.ret (.ok .proceed) :=
  C16_no_change_no_request dc0 rule0 parent0 resp0 (some [("replicas", .num 1)]) (by rfl) (by rfl) (by rfl) (by rfl) (by decide)
end Ex

end Mc.C16
