import Mc.Meta
/-
  C20 - hosted controllers follow their CompositeController / DecoratorController objects. Theorems about the
  reconcile state machine of `Mc/Meta.lean` (tied to the real `Reconcile` of both meta-controllers by the
  "meta" correspondence run), for every history of events.
-/
namespace Mc.C20
open Mc.Meta

/-! ## auxiliary lemmas: `lookup` through `incr` / `decr` / folds -/
theorem lookup_cons_if {β : Type} (a k : String) (b : β) (l : List (String × β)) :
    List.lookup a ((k, b) :: l) = if a = k then some b else l.lookup a := by
  rw [List.lookup_cons]
  by_cases h : a = k
  · have : (a == k) = true := beq_iff_eq.mpr h
    rw [this, if_pos h]
  · have : (a == k) = false := beq_eq_false_iff_ne.mpr h
    rw [this, if_neg h]


theorem lookup_upd (subs : List (String × Nat)) (k k' : String) (v : Nat) :
    (subs.map (fun e => if e.1 == k then (k, v) else e)).lookup k' =
      if k' = k then (subs.lookup k).map (fun _ => v) else subs.lookup k' := by
  induction subs with
  | nil => simp
  | cons e rest ih =>
    obtain ⟨a, b⟩ := e
    simp only [List.map_cons, beq_iff_eq] at ih ⊢
    by_cases hak : a = k
    · subst hak
      by_cases hk : k' = a
      · subst hk; simp
      · simp [lookup_cons_if, hk, ih]
    · by_cases hk : k' = k
      · subst hk
        have : ¬ k' = a := fun h => hak h.symm
        simp [lookup_cons_if, hak, this, ih]
      · simp [lookup_cons_if, hak, hk, ih]

theorem lookup_filter_ne {β : Type} (subs : List (String × β)) (k k' : String) :
    (subs.filter (·.1 != k)).lookup k' = if k' = k then none else subs.lookup k' := by
  induction subs with
  | nil => simp
  | cons e rest ih =>
    obtain ⟨a, b⟩ := e
    by_cases hak : a = k
    · subst hak
      by_cases hk : k' = a
      · subst hk; simp [ih]
      · simp [lookup_cons_if, hk, ih]
    · by_cases hk : k' = k
      · subst hk
        have : ¬ k' = a := fun h => hak h.symm
        simp [lookup_cons_if, hak, this, ih]
      · simp [lookup_cons_if, hak, hk, ih]
/-- keys are untouched by an in-place update -/
theorem keys_upd (subs : List (String × Nat)) (k : String) (v : Nat) :
    (subs.map (fun e => if e.1 == k then (k, v) else e)).map (·.1) = subs.map (·.1) := by
  rw [List.map_map]
  apply List.map_congr_left
  intro e _
  by_cases h : e.1 = k
  · simp [h]
  · simp [h]

theorem lookup_none_not_mem {β : Type} (l : List (String × β)) (k : String) (h : l.lookup k = none) :
    k ∉ l.map (·.1) := by
  intro hm
  obtain ⟨p, hp, rfl⟩ := List.mem_map.mp hm
  have := List.lookup_eq_none_iff.mp h p hp
  simp at this

theorem lookup_incr (subs : List (String × Nat)) (k k' : String) :
    ((incr subs k).lookup k').getD 0 = (subs.lookup k').getD 0 + (if k' = k then 1 else 0) := by
  unfold incr
  cases hl : subs.lookup k with
  | some n =>
    simp only [lookup_upd, hl]
    by_cases hk : k' = k
    · subst hk; simp [hl]
    · simp [hk]
  | none =>
    simp only [List.lookup_append, lookup_cons_if, List.lookup_nil]
    by_cases hk : k' = k
    · subst hk; simp [hl]
    · simp [hk]

theorem lookup_decr (subs : List (String × Nat)) (k k' : String) :
    ((decr subs k).lookup k').getD 0 = (subs.lookup k').getD 0 - (if k' = k then 1 else 0) := by
  unfold decr
  cases hl : subs.lookup k with
  | some n =>
    simp only
    by_cases hn : n ≤ 1
    · rw [if_pos hn, lookup_filter_ne]
      by_cases hk : k' = k
      · subst hk; simp [hl]; omega
      · simp [hk]
    · rw [if_neg hn, lookup_upd]
      by_cases hk : k' = k
      · subst hk; simp [hl]
      · simp [hk]
  | none =>
    by_cases hk : k' = k
    · subst hk; simp [hl]
    · simp [hk]

def WF (subs : List (String × Nat)) : Prop := (subs.map (·.1)).Nodup ∧ ∀ e ∈ subs, 0 < e.2

theorem wf_incr (subs : List (String × Nat)) (k : String) (h : WF subs) : WF (incr subs k) := by
  obtain ⟨hu, hp⟩ := h
  unfold incr
  cases hl : subs.lookup k with
  | some n =>
    refine ⟨?_, ?_⟩
    · simp only; rw [keys_upd]; exact hu
    · intro e he
      obtain ⟨e0, he0, rfl⟩ := List.mem_map.mp he
      by_cases h : e0.1 = k
      · simp [h]
      · simpa [h] using hp e0 he0
  | none =>
    refine ⟨?_, ?_⟩
    · simp only [List.map_append, List.map_cons, List.map_nil]
      rw [List.nodup_append]
      refine ⟨hu, by simp, ?_⟩
      intro a ha b hb
      have hb' : b = k := by simpa using hb
      subst hb'
      intro hab; subst hab
      exact lookup_none_not_mem subs a hl ha
    · intro e he
      rcases List.mem_append.mp he with he | he
      · exact hp e he
      · have : e = (k, 1) := by simpa using he
        subst this; simp

theorem wf_decr (subs : List (String × Nat)) (k : String) (h : WF subs) : WF (decr subs k) := by
  obtain ⟨hu, hp⟩ := h
  unfold decr
  cases hl : subs.lookup k with
  | some n =>
    simp only
    by_cases hn : n ≤ 1
    · rw [if_pos hn]
      refine ⟨?_, ?_⟩
      · exact List.Nodup.sublist (List.Sublist.map _ List.filter_sublist) hu
      · intro e he; exact hp e (List.mem_filter.mp he).1
    · rw [if_neg hn]
      refine ⟨?_, ?_⟩
      · rw [keys_upd]; exact hu
      · intro e he
        obtain ⟨e0, he0, rfl⟩ := List.mem_map.mp he
        by_cases h : e0.1 = k
        · simp [h]; omega
        · simpa [h] using hp e0 he0
  | none => exact ⟨hu, hp⟩

theorem count_cons_if (k a : String) (l : List String) :
    (a :: l).count k = l.count k + (if k = a then 1 else 0) := by
  rw [List.count_cons]
  by_cases h : k = a
  · subst h; simp
  · have : ¬ a = k := fun h' => h h'.symm
    simp [h, this]

theorem lookup_openAll (ks : List String) (subs : List (String × Nat)) (k' : String) :
    ((openAll subs ks).lookup k').getD 0 = (subs.lookup k').getD 0 + ks.count k' := by
  induction ks generalizing subs with
  | nil => simp [openAll]
  | cons a l ih =>
    have := ih (incr subs a)
    unfold openAll at this ⊢
    rw [List.foldl_cons, this, lookup_incr, count_cons_if]
    omega

theorem lookup_closeAll (ks : List String) (subs : List (String × Nat)) (k' : String) :
    ((closeAll subs ks).lookup k').getD 0 = (subs.lookup k').getD 0 - ks.count k' := by
  induction ks generalizing subs with
  | nil => simp [closeAll]
  | cons a l ih =>
    have := ih (decr subs a)
    unfold closeAll at this ⊢
    rw [List.foldl_cons, this, lookup_decr, count_cons_if]
    omega

theorem wf_openAll (ks : List String) (subs : List (String × Nat)) (h : WF subs) : WF (openAll subs ks) := by
  induction ks generalizing subs with
  | nil => exact h
  | cons a l ih => exact ih (incr subs a) (wf_incr subs a h)

theorem wf_closeAll (ks : List String) (subs : List (String × Nat)) (h : WF subs) : WF (closeAll subs ks) := by
  induction ks generalizing subs with
  | nil => exact h
  | cons a l ih => exact ih (decr subs a) (wf_decr subs a h)

/-- the sum over the running instances splits off the instance registered under `name` -/
theorem sum_split (f : Spec → Nat) (running : List (String × Spec)) (name : String) (sp : Spec)
    (hu : (running.map (·.1)).Nodup) (hl : running.lookup name = some sp) :
    (running.map (fun e => f e.2)).sum =
      f sp + ((running.filter (·.1 != name)).map (fun e => f e.2)).sum := by
  induction running with
  | nil => simp at hl
  | cons e rest ih =>
    obtain ⟨a, b⟩ := e
    rw [List.map_cons, List.nodup_cons] at hu
    rw [lookup_cons_if] at hl
    by_cases h : name = a
    · subst h
      rw [if_pos rfl] at hl
      have hb : b = sp := by simpa using hl
      subst hb
      have hrest : rest.filter (·.1 != name) = rest := by
        rw [List.filter_eq_self]
        intro p hp
        have : p.1 ≠ name := fun h' => hu.1 (h' ▸ List.mem_map.mpr ⟨p, hp, rfl⟩)
        simpa using this
      simp [hrest]
    · rw [if_neg h] at hl
      have ha : ¬ a = name := fun h' => h h'.symm
      simp [ha, ih hu.2 hl]
      omega

/-- bookkeeping invariant: one instance per name; the factory's subscription table has unique keys, no zero entries,
    and every count equals the number of running instances holding that informer open -/
def Inv (s : State) : Prop :=
  (s.running.map (·.1)).Nodup ∧
  (s.subs.map (·.1)).Nodup ∧
  (∀ e ∈ s.subs, 0 < e.2) ∧
  (∀ k, (s.subs.lookup k).getD 0 = ((s.running.map (fun e => e.2.resources.count k)).sum))

theorem inv_init : Inv {} := by
  refine ⟨?_, ?_, ?_, ?_⟩ <;> simp

/-- net-zero holds for ANY table, even one with duplicate keys or zero entries: `lookup` only sees the first entry
    of a key, `incr`/`decr` rewrite all entries of the key alike, and truncated subtraction undoes the addition -/
theorem failed_construction_net_zero_any (subs : List (String × Nat)) (ks : List String) (k : String) :
    ((closeAll (openAll subs ks) ks).lookup k).getD 0 = (subs.lookup k).getD 0 := by
  rw [lookup_closeAll, lookup_openAll]
  omega

-- `hu`, `hp` are part of the registered statement but not needed (see `failed_construction_net_zero_any`)
set_option linter.unusedVariables false in
/-- opening and then closing the same informers (a constructor that fails and is unwound by its deferred cleanup)
    leaves the subscription counts as they were -/
theorem C20_failed_construction_net_zero (subs : List (String × Nat)) (ks : List String)
    (hu : (subs.map (·.1)).Nodup) (hp : ∀ e ∈ subs, 0 < e.2) (k : String) :
    ((closeAll (openAll subs ks) ks).lookup k).getD 0 = (subs.lookup k).getD 0 :=
  failed_construction_net_zero_any subs ks k

theorem stop_lookup (s : State) (name : String) : (s.stop name).running.lookup name = none := by
  unfold State.stop
  cases hl : s.running.lookup name with
  | some sp => simp [lookup_filter_ne]
  | none => exact hl

theorem stop_lookup_other (s : State) (name other : String) (hne : other ≠ name) :
    (s.stop name).running.lookup other = s.running.lookup other := by
  unfold State.stop
  cases hl : s.running.lookup name with
  | some sp => simp [lookup_filter_ne, hne]
  | none => rfl

theorem inv_stop (s : State) (name : String) (h : Inv s) : Inv (s.stop name) := by
  obtain ⟨hr, hu, hp, hc⟩ := h
  unfold State.stop
  cases hl : s.running.lookup name with
  | none => exact ⟨hr, hu, hp, hc⟩
  | some sp =>
    have hwf := wf_closeAll sp.resources s.subs ⟨hu, hp⟩
    refine ⟨?_, hwf.1, hwf.2, ?_⟩
    · exact List.Nodup.sublist (List.Sublist.map _ List.filter_sublist) hr
    · intro k
      simp only
      rw [lookup_closeAll, hc k, sum_split (fun sp => sp.resources.count k) s.running name sp hr hl]
      omega

theorem inv_start (s : State) (name : String) (sp : Spec) (h : Inv s) (hn : s.running.lookup name = none) :
    Inv { running := s.running ++ [(name, sp)], subs := openAll s.subs sp.resources } := by
  obtain ⟨hr, hu, hp, hc⟩ := h
  have hwf := wf_openAll sp.resources s.subs ⟨hu, hp⟩
  refine ⟨?_, hwf.1, hwf.2, ?_⟩
  · simp only [List.map_append, List.map_cons, List.map_nil]
    rw [List.nodup_append]
    refine ⟨hr, by simp, ?_⟩
    intro a ha b hb
    have hb' : b = name := by simpa using hb
    subst hb'
    intro hab; subst hab
    exact lookup_none_not_mem s.running a hn ha
  · intro k
    simp only [List.map_append, List.map_cons, List.map_nil, List.sum_append, List.sum_cons, List.sum_nil]
    rw [lookup_openAll, hc k]
    omega

theorem inv_failed (s : State) (opened : List String) (h : Inv s) :
    Inv { s with subs := closeAll (openAll s.subs opened) opened } := by
  obtain ⟨hr, hu, hp, hc⟩ := h
  have hwf := wf_closeAll opened _ (wf_openAll opened s.subs ⟨hu, hp⟩)
  refine ⟨hr, hwf.1, hwf.2, ?_⟩
  intro k
  simp only
  rw [C20_failed_construction_net_zero s.subs opened hu hp k]
  exact hc k

theorem inv_reconcile (s : State) (name : String) (obs : Option Spec) (h : Inv s) : Inv (reconcile s name obs).1 := by
  unfold reconcile
  cases obs with
  | none => exact inv_stop s name h
  | some sp =>
    simp only
    split
    · exact h
    · have h1 := inv_stop s name h
      cases hc : sp.cls with
      | early err => exact h1
      | failing opened => exact inv_failed _ opened h1
      | ok => exact inv_start _ name sp h1 (stop_lookup s name)

theorem inv_run (events : List (String × Option Spec)) (s : State) (h : Inv s) : Inv (run s events).1 := by
  induction events generalizing s with
  | nil => exact h
  | cons e rest ih =>
    obtain ⟨n, o⟩ := e
    simp only [run]
    exact ih _ (inv_reconcile s n o h)

/-- no leak: after every history the subscriptions are exactly those of the running instances -/
theorem C20_no_leak (events : List (String × Option Spec)) : Inv (run {} events).1 :=
  inv_run events {} inv_init

/-- when nothing runs, nothing is subscribed -/
theorem C20_all_stopped_no_subs (s : State) (h : Inv s) (hr : s.running = []) : s.subs = [] := by
  obtain ⟨_, _, hp, hc⟩ := h
  cases hs : s.subs with
  | nil => rfl
  | cons e rest =>
    exfalso
    obtain ⟨k, n⟩ := e
    have h1 := hc k
    have h2 := hp (k, n) (by rw [hs]; exact List.mem_cons_self)
    rw [hs, hr, lookup_cons_if] at h1
    simp at h1 h2
    omega

/-- an update that leaves the spec unchanged does nothing -/
theorem C20_noop_update (s : State) (name : String) (sp : Spec)
    (h : (s.running.lookup name).map (·.ver) = some sp.ver) :
    reconcile s name (some sp) = (s, {}) := by
  unfold reconcile
  simp [h]

/-- deleting the controller object stops its instance -/
theorem C20_delete_stops (s : State) (name : String) :
    (reconcile s name none).1.running.lookup name = none := by
  exact stop_lookup s name

-- `h : Inv s` is part of the registered statement but not needed: `stop` filters out every entry of `name`
set_option linter.unusedVariables false in
/-- the running instance follows the object: after an event for `name` with a new spec, `name` runs exactly that
    spec when it is constructible, and nothing otherwise (in particular never the previous spec) -/
theorem C20_follows_spec (s : State) (name : String) (sp : Spec) (h : Inv s)
    (hne : (s.running.lookup name).map (·.ver) ≠ some sp.ver) :
    (reconcile s name (some sp)).1.running.lookup name = (if sp.cls = .ok then some sp else none) := by
  unfold reconcile
  have hs : ((s.running.lookup name).map (·.ver) == some sp.ver) = false := by
    simpa using hne
  simp only [hs]
  have h0 := stop_lookup s name
  cases hc : sp.cls with
  | early err => simpa using h0
  | failing opened => simpa using h0
  | ok => simp [List.lookup_append, h0]

/-- other controllers are not affected -/
theorem C20_others_untouched (s : State) (name other : String) (obs : Option Spec) (hne : other ≠ name) :
    (reconcile s name obs).1.running.lookup other = s.running.lookup other := by
  have h0 := stop_lookup_other s name other hne
  unfold reconcile
  cases obs with
  | none => exact h0
  | some sp =>
    simp only
    split
    · rfl
    · cases hc : sp.cls with
      | early err => exact h0
      | failing opened => exact h0
      | ok => simp [List.lookup_append, h0, lookup_cons_if, hne]

/-- a restart stops the old instance: `stopped` is reported exactly when an instance was running and the spec differs -/
theorem C20_restart_stops_old (s : State) (name : String) (sp old : Spec) (ho : s.running.lookup name = some old)
    (hne : old.ver ≠ sp.ver) : (reconcile s name (some sp)).2.stopped = true := by
  unfold reconcile
  have hs : ((s.running.lookup name).map (·.ver) == some sp.ver) = false := by
    simp [ho, hne]
  simp only [hs]
  cases hc : sp.cls <;> simp [ho]

/-! ## non-vacuity: a concrete history, evaluated -/
section Example

private def things := "things.v1.example.com"
private def widgets := "widgets.v1.example.com"
private def configmaps := "configmaps.v1"

private def hist : List (String × Option Spec) :=
  [ ("a", some ⟨1, .ok, [things, widgets]⟩),
    ("b", some ⟨1, .ok, [things, widgets, configmaps]⟩),
    ("a", some ⟨2, .failing [things, widgets], [things, widgets]⟩),
    ("a", some ⟨3, .early true, [things, widgets]⟩),
    ("b", none) ]

/-- what is observable of a state: (name, version) of the running instances, and the subscription table -/
private def view (s : State) : List (String × Nat) × List (String × Nat) :=
  (s.running.map (fun e => (e.1, e.2.ver)), s.subs)

private def after (n : Nat) : State := (run {} (hist.take n)).1

example : view (after 1) = ([("a", 1)], [(things, 1), (widgets, 1)]) := by decide
example : view (after 2) = ([("a", 1), ("b", 1)], [(things, 2), (widgets, 2), (configmaps, 1)]) := by decide
-- v2 of "a" fails in its constructor: the old "a" is gone, what the constructor opened is closed again
example : view (after 3) = ([("b", 1)], [(things, 1), (widgets, 1), (configmaps, 1)]) := by decide
-- v3 of "a" returns before the constructor: nothing changes
example : view (after 4) = ([("b", 1)], [(things, 1), (widgets, 1), (configmaps, 1)]) := by decide
example : view (after 5) = ([], []) := by decide
-- the `Out` records along the history: (error, started, stopped)
example : (run {} hist).2.map (fun o => (o.error, o.started, o.stopped)) =
    [(false, true, false), (false, true, false), (true, false, true), (true, false, false), (false, false, true)] := by
  decide
-- a repeated event is a no-op; duplicate resource keys are counted twice and released twice
example : (reconcile (after 2) "b" (some ⟨1, .ok, []⟩)).1.subs = (after 2).subs := by decide
example : view (run {} [("d", some ⟨1, .ok, [things, things]⟩)]).1 = ([("d", 1)], [(things, 2)]) := by decide
example : view (run {} [("d", some ⟨1, .ok, [things, things]⟩), ("d", none)]).1 = ([], []) := by decide

end Example

end Mc.C20
