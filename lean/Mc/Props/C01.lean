import Mc.Proofs.ManageLemmas
import Mc.Props.C06
/-
  C01 - quiescence at the fixpoint (the "then goes quiet" half of the property), on the model:
  when every desired child is observed and the decision taken for it is "nothing to do", and no observed
  child is undesired, `ManageChildren` issues no request at all - for every update method, any number of
  groups and children. (Convergence towards the fixpoint is observed on whole scenarios of the real
  controller, see DESIGN.md §3 C01; it is not proved here.)
-/
namespace Mc.C01
open Prog

/-- a program that issues no request, whatever happens -/
def Silent {α : Type} (p : Prog α) : Prop := AllCalls (fun _ => False) p

theorem silent_ret {α : Type} (p : Prog α) (h : Silent p) : ∃ a, p = .ret a := by
  cases h with
  | ret a => exact ⟨a, rfl⟩
  | call r k hr _ => exact hr.elim

/-- nothing to create or update in one group: every desired child is observed and `updateAct` decides `.none` -/
def GroupFix (mks sys : List String) (children : List ChildRes) (info : KindInfo) (kind : String)
    (observed desired : List (String × J)) : Prop :=
  ∀ nd ∈ desired, ∃ obs, observed.lookup nd.1 = some obs ∧
    updateAct mks sys (getMethod children info.group kind) obs nd.2 = .none

/-- nothing to delete in one group: every observed child is desired or already pending deletion -/
def DeleteFix (desiredNames : List String) (observed : List (String × J)) : Prop :=
  ∀ no ∈ observed, isDeleting no.2 = true ∨ desiredNames.contains no.1 = true

theorem C01_updateGroup_quiet (mks sys : List String) (children : List ChildRes) (info : KindInfo) (kind : String)
    (parentRef : OwnerRef) (observed desired : List (String × J)) (memo : Memo)
    (h : GroupFix mks sys children info kind observed desired) :
    updateGroup mks sys children none info kind parentRef observed desired memo = .ret ([], memo) := by
  induction desired with
  | nil => exact updateGroup_nil ..
  | cons nd rest ih =>
    obtain ⟨name, des⟩ := nd
    have hrest : GroupFix mks sys children info kind observed rest :=
      fun nd' hnd' => h nd' (List.mem_cons_of_mem _ hnd')
    obtain ⟨obs, hobs, hact⟩ := h (name, des) (List.mem_cons_self ..)
    rw [updateGroup_cons, ih hrest, bind_ret]
    have hstep : childStep mks sys (getMethod children info.group kind)
        (targetOf info.group info.resource info.namespaced (getNamespace des) (getName des)) parentRef
        (observed.lookup name) des = .ret none := by
      rw [hobs]
      simp only [childStep]
      rw [hact]
    rw [hstep, bind_ret]
    rfl

theorem C01_deleteGroup_quiet (info : KindInfo) (kind : String) (desiredNames : List String)
    (observed : List (String × J)) (memo : Memo) (h : DeleteFix desiredNames observed) :
    deleteGroup info kind desiredNames observed memo = .ret ([], memo) := by
  induction observed with
  | nil => exact deleteGroup_nil ..
  | cons no rest ih =>
    obtain ⟨name, obj⟩ := no
    have hrest : DeleteFix desiredNames rest :=
      fun no' hno' => h no' (List.mem_cons_of_mem _ hno')
    have hno := h (name, obj) (List.mem_cons_self ..)
    rw [deleteGroup_cons, ih hrest, bind_ret]
    have hstep : deleteStep (targetOf info.group info.resource info.namespaced (getNamespace obj) (getName obj))
        desiredNames name obj = .ret (none, false) := by
      unfold deleteStep
      by_cases h1 : isDeleting obj = true
      · rw [if_pos h1]
      · rw [if_neg h1]
        rcases hno with h2 | h2
        · exact absurd h2 h1
        · rw [if_pos h2]
    rw [hstep, bind_ret]
    rfl

theorem bind_of_ret {α β : Type} {p : Prog α} {a : α} (h : p = .ret a) (f : α → Prog β) : (p >>= f) = f a := by
  rw [h]; rfl

/-- the common shape of the two loops of `ManageChildren`: when every group is known and its loop returns
    no error and the memo unchanged, the fold returns its accumulator unchanged -/
theorem loop_quiet {γ : Type} (K : γ → Option KindInfo) (body : KindInfo → γ → Memo → Prog (List String × Memo))
    (msg : String) (xs : List γ)
    (hq : ∀ g ∈ xs, ∃ info, K g = some info ∧ ∀ m, body info g m = .ret ([], m)) :
    ∀ (init : List String × Memo),
    xs.foldlM (fun (acc : List String × Memo) g =>
        match K g with
        | none => (pure (acc.1 ++ [msg], acc.2) : Prog _)
        | some info => do
          let (errs, memo) ← body info g acc.2
          pure (acc.1 ++ errs, memo)) init = .ret init := by
  induction xs with
  | nil => intro init; rfl
  | cons g rest ih =>
    intro init
    obtain ⟨info, hk, hb⟩ := hq g (List.mem_cons_self ..)
    rw [List.foldlM_cons]
    show Prog.bind _ _ = _
    have hstep : (match K g with
        | none => (pure (init.1 ++ [msg], init.2) : Prog (List String × Memo))
        | some info => do
          let (errs, memo) ← body info g init.2
          pure (init.1 ++ errs, memo)) = .ret init := by
      rw [hk]
      show Prog.bind (body info g init.2) _ = _
      rw [hb, bind_ret]
      show Prog.ret (init.1 ++ [], init.2) = _
      rw [List.append_nil]
    rw [hstep, bind_ret]
    exact ih (fun g' hg' => hq g' (List.mem_cons_of_mem _ hg')) init

/-- **C01 quiescence**: at a fixpoint `ManageChildren` (dynamic apply) is silent and reports no error -/
theorem C01_manage_quiet (mks sys : List String) (children : List ChildRes) (kt : KindTable) (parentRef : OwnerRef)
    (observed desired : ObjMap) (memo : Memo)
    (hdel : ∀ g ∈ observed, ∃ info, kt.find (gvkAPIVersion g.1) g.1.kind = some info ∧
        DeleteFix ((desired.group g.1).map (·.1)) g.2)
    (hupd : ∀ g ∈ desired, ∃ info, kt.find (gvkAPIVersion g.1) g.1.kind = some info ∧
        GroupFix mks sys children info g.1.kind (observed.group g.1) g.2) :
    manageChildren mks sys children none kt parentRef observed desired memo = .ret ([], memo) := by
  unfold manageChildren
  have h1 := loop_quiet (fun g : GVK × List (String × J) => kt.find (gvkAPIVersion g.1) g.1.kind)
    (fun info g m => deleteGroup info g.1.kind ((desired.group g.1).map (·.1)) g.2 m)
    "discovery: can't find kind" observed
    (by
      intro g hg
      obtain ⟨info, hk, hf⟩ := hdel g hg
      exact ⟨info, hk, fun m => C01_deleteGroup_quiet info g.1.kind _ g.2 m hf⟩) ([], memo)
  have h2 := loop_quiet (fun g : GVK × List (String × J) => kt.find (gvkAPIVersion g.1) g.1.kind)
    (fun info g m => updateGroup mks sys children none info g.1.kind parentRef (observed.group g.1) g.2 m)
    "discovery: can't find kind" desired
    (by
      intro g hg
      obtain ⟨info, hk, hf⟩ := hupd g hg
      exact ⟨info, hk, fun m => C01_updateGroup_quiet mks sys children info g.1.kind parentRef _ g.2 m hf⟩) ([], memo)
  refine (bind_of_ret h1 _).trans ?_
  refine (bind_of_ret h2 _).trans ?_
  rfl

/-- the decision is `.none` for every method as soon as the merged object equals the observed one (from C06) -/
theorem C01_equal_is_fix (mks sys : List String) (method : String) (obs des new : J)
    (h : applyUpdate mks sys obs des = .ok new) (he : new.eqv obs = true) :
    updateAct mks sys method obs des = .none := by
  unfold updateAct
  rw [h]
  simp only []
  rw [if_pos he]

/-- server-side apply: a desired child whose applied body and observed generation are in the memo is skipped silently -/
theorem C01_ssa_quiet (fm : String) (info : KindInfo) (kind : String) (parentRef : OwnerRef) (obs des : J) (memo : Memo)
    (h : J) (g : Int) (hm : memo.lookup (memoKey info kind des) = some (h, g))
    (he : h.eqv (applyBody parentRef des) = true) (hg : g = getGeneration obs) :
    ssaOne fm info kind parentRef (some obs) des memo = .ret (none, memo) := by
  unfold ssaOne
  simp only [hm, he, hg, beq_self_eq_true, Bool.and_self, if_true]
  rfl

/-! ### non-vacuity: a concrete parent at its fixpoint -/

def exInfo : KindInfo := { group := "", resource := "configmaps", namespaced := true }
def exKt : KindTable := [(("v1", "ConfigMap"), exInfo)]
def exGVK : GVK := { group := "", version := "v1", kind := "ConfigMap" }
def exRef : OwnerRef :=
  { apiVersion := "ex/v1", kind := "P", name := "p", uid := "u-p", controller := some true, blockOwnerDeletion := some true }
/-- what the hook wants -/
def exDes : J := .obj [("apiVersion", .str "v1"), ("kind", .str "ConfigMap"),
  ("metadata", .obj [("name", .str "cm"), ("namespace", .str "ns")]), ("data", .obj [("k", .str "v")])]
/-- what the API server holds after the create of `exDes` by this parent: last-applied annotation, controller reference, UID -/
def exObs : J := .obj [("apiVersion", .str "v1"), ("kind", .str "ConfigMap"),
  ("metadata", .obj [("name", .str "cm"), ("namespace", .str "ns"), ("uid", .str "u-cm"),
    ("annotations", .obj [("metacontroller.k8s.io/last-applied-configuration", exDes)]),
    ("ownerReferences", .arr [.obj [("apiVersion", .str "ex/v1"), ("kind", .str "P"), ("name", .str "p"), ("uid", .str "u-p"),
        ("controller", .bool true), ("blockOwnerDeletion", .bool true)]])]),
  ("data", .obj [("k", .str "v")])]
/-- a child that is no longer desired and already pending deletion -/
def exGone : J := .obj [("apiVersion", .str "v1"), ("kind", .str "ConfigMap"),
  ("metadata", .obj [("name", .str "gone"), ("namespace", .str "ns"), ("uid", .str "u-gone"),
    ("deletionTimestamp", .str "2024-01-01T00:00:00Z")])]

-- the merge of the desired state into the observed child gives the observed child back, so the decision is
-- `.none` under every update strategy (also those that would write a difference)
example (method : String) : updateAct ["name"] ["uid"] method exObs exDes = .none := by
  have hk : ∃ new, applyUpdate ["name"] ["uid"] exObs exDes = .ok new ∧ new.eqv exObs = true := by
    refine ⟨_, rfl, ?_⟩
    decide
  obtain ⟨new, h, he⟩ := hk
  exact C01_equal_is_fix _ _ _ _ _ new h he

-- one group, two observed children, one desired child; whatever the configured child resources / strategies
example (children : List ChildRes) : GroupFix ["name"] ["uid"] children exInfo "ConfigMap" [("ns/cm", exObs), ("ns/gone", exGone)] [("ns/cm", exDes)] := by
  intro nd hnd
  simp only [List.mem_singleton] at hnd
  subst hnd
  exact ⟨exObs, rfl, rfl⟩

-- the child that is not desired is already pending deletion
example : DeleteFix ["ns/cm"] [("ns/cm", exObs), ("ns/gone", exGone)] := by
  intro no hno
  simp only [List.mem_cons, List.not_mem_nil, or_false] at hno
  rcases hno with rfl | rfl
  · exact Or.inr (by decide)
  · exact Or.inl (by decide)

-- the hypotheses of `C01_manage_quiet` hold for this parent: nothing is sent, nothing is reported
example (children : List ChildRes) : manageChildren ["name"] ["uid"] children none exKt exRef
    [(exGVK, [("ns/cm", exObs), ("ns/gone", exGone)])] [(exGVK, [("ns/cm", exDes)])] [] = .ret ([], []) := by
  refine C01_manage_quiet _ _ _ _ _ _ _ _ ?_ ?_
  · intro g hg
    simp only [List.mem_singleton] at hg
    subst hg
    refine ⟨exInfo, rfl, ?_⟩
    intro no hno
    simp only [List.mem_cons, List.not_mem_nil, or_false] at hno
    rcases hno with rfl | rfl
    · exact Or.inr (by decide)
    · exact Or.inl (by decide)
  · intro g hg
    simp only [List.mem_singleton] at hg
    subst hg
    refine ⟨exInfo, rfl, ?_⟩
    intro nd hnd
    simp only [List.mem_singleton] at hnd
    subst hnd
    exact ⟨exObs, rfl, rfl⟩

-- server-side apply: the memo holds the body applied last time and the observed generation; nothing is sent
example (fm : String) : ssaOne fm exInfo "ConfigMap" exRef (some exObs) exDes [("/ConfigMap/ns/cm", (applyBody exRef exDes, 0))] =
    .ret (none, [("/ConfigMap/ns/cm", (applyBody exRef exDes, 0))]) :=
  C01_ssa_quiet fm exInfo "ConfigMap" exRef exObs exDes _ (applyBody exRef exDes) 0 rfl (by decide) (by decide)

end Mc.C01
