import Mc.Proofs.ManageLemmas
import Mc.Props.C06
import Mc.Proofs.ObjLemmas
/-
  C02 - only objects the parent controls are written; deletes are conditioned on the observed UID;
  creates carry the controller reference.
-/
namespace Mc.C02
open Prog

/-- `o` occurs in the object map -/
def Occurs (m : ObjMap) (o : J) : Prop := ∃ g ∈ m, ∃ no ∈ g.2, no.2 = o

theorem lookup_mem {α : Type} (name : String) : ∀ (l : List (String × α)) (o : α), l.lookup name = some o → (name, o) ∈ l := by
  intro l
  induction l with
  | nil => intro o h; simp [List.lookup] at h
  | cons x rest ih =>
    intro o h
    obtain ⟨k, v⟩ := x
    by_cases hk : name = k
    · subst hk; simp [List.lookup] at h; subst h; exact List.mem_cons_self ..
    · have : (name == k) = false := by simpa using hk
      simp [List.lookup, this] at h
      exact List.mem_cons_of_mem _ (ih o h)

theorem group_sub (m : ObjMap) (k : GVK) (no : String × J) (h : no ∈ m.group k) : ∃ g ∈ m, (g.1 == k) = true ∧ no ∈ g.2 := by
  unfold ObjMap.group at h
  split at h
  · rename_i g hg
    have hk := List.find?_some hg
    exact ⟨g, List.mem_of_find?_eq_some hg, hk, h⟩
  · simp at h

theorem occurs_of_group_lookup (m : ObjMap) (k : GVK) (name : String) (o : J) (h : (m.group k).lookup name = some o) :
    Occurs m o := by
  obtain ⟨g, hg, _, hno⟩ := group_sub m k (name, o) (lookup_mem name _ o h)
  exact ⟨g, hg, (name, o), hno, rfl⟩

/-- every request `ManageChildren` can issue under dynamic apply, with the facts that led to it -/
inductive ManagedReq (mks sys : List String) (children : List ChildRes) (kt : KindTable) (parentRef : OwnerRef)
    (observed desired : ObjMap) : Req → Prop where
  /-- an observed child that is not desired any more is deleted, by its own namespace/name, guarded by its UID -/
  | orphan (g : GVK × List (String × J)) (info : KindInfo) (name : String) (obj : J) :
      g ∈ observed → kt.find (gvkAPIVersion g.1) g.1.kind = some info → (name, obj) ∈ g.2 →
      isDeleting obj = false → ((desired.group g.1).map (·.1)).contains name = false →
      ManagedReq mks sys children kt parentRef observed desired
        (.api .delete (targetOf info.group info.resource info.namespaced (getNamespace obj) (getName obj)) .null (deleteOpts (getUID obj)))
  /-- method Recreate: the delete is addressed by the desired object's namespace/name and guarded by the observed UID -/
  | recreate (g : GVK × List (String × J)) (info : KindInfo) (name : String) (des obs : J) (uid : String) :
      g ∈ desired → kt.find (gvkAPIVersion g.1) g.1.kind = some info → (name, des) ∈ g.2 →
      (observed.group g.1).lookup name = some obs →
      updateAct mks sys (getMethod children info.group g.1.kind) obs des = .delete uid →
      ManagedReq mks sys children kt parentRef observed desired
        (.api .delete (targetOf info.group info.resource info.namespaced (getNamespace des) (getName des)) .null (deleteOpts uid))
  | update (g : GVK × List (String × J)) (info : KindInfo) (name : String) (des obs body : J) :
      g ∈ desired → kt.find (gvkAPIVersion g.1) g.1.kind = some info → (name, des) ∈ g.2 →
      (observed.group g.1).lookup name = some obs →
      updateAct mks sys (getMethod children info.group g.1.kind) obs des = .update body →
      ManagedReq mks sys children kt parentRef observed desired
        (.api .update (targetOf info.group info.resource info.namespaced (getNamespace des) (getName des)) body .null)
  | create (g : GVK × List (String × J)) (info : KindInfo) (name : String) (des : J) :
      g ∈ desired → kt.find (gvkAPIVersion g.1) g.1.kind = some info → (name, des) ∈ g.2 →
      (observed.group g.1).lookup name = none →
      ManagedReq mks sys children kt parentRef observed desired
        (.api .create (targetOf info.group info.resource info.namespaced (getNamespace des) (getName des)) (createBody parentRef des) .null)

/-- the delete loop of `manageChildren` -/
theorem manage_delete_loop (kt : KindTable)
    (observed desired : ObjMap) (P : Req → Prop)
    (hP : ∀ (g : GVK × List (String × J)) (info : KindInfo) (name : String) (obj : J),
      g ∈ observed → kt.find (gvkAPIVersion g.1) g.1.kind = some info → (name, obj) ∈ g.2 →
      isDeleting obj = false → ((desired.group g.1).map (·.1)).contains name = false →
      P (.api .delete (targetOf info.group info.resource info.namespaced (getNamespace obj) (getName obj)) .null (deleteOpts (getUID obj))))
    (init : List String × Memo) :
    AllCalls P (observed.foldlM (fun (acc : List String × Memo) g => do
      match kt.find (gvkAPIVersion g.1) g.1.kind with
      | none => pure (acc.1 ++ ["discovery: can't find kind"], acc.2)
      | some info =>
        let (errs, memo) ← deleteGroup info g.1.kind ((desired.group g.1).map (·.1)) g.2 acc.2
        pure (acc.1 ++ errs, memo)) init) := by
  refine AllCalls.foldlM _ _ _ ?_
  intro acc g hg
  cases hk : kt.find (gvkAPIVersion g.1) g.1.kind with
  | none => exact .ret _
  | some info =>
    refine AllCalls.mbind ?_ (fun _ => .ret _)
    refine AllCalls.mono ?_ (deleteGroup_calls info g.1.kind _ g.2 acc.2)
    rintro r ⟨⟨name, obj⟩, hno, rfl, h1, h2⟩
    exact hP g info name obj hg hk hno h1 h2

/-- **C02_manage_requests** (strong form): on every branch, every request of `manageChildren` under dynamic apply
    is one of the four kinds of `ManagedReq`; no hook call, no get, no apply, no patch -/
theorem C02_manage_requests_strong (mks sys : List String) (children : List ChildRes) (kt : KindTable) (parentRef : OwnerRef)
    (observed desired : ObjMap) (memo : Memo) :
    AllCalls (ManagedReq mks sys children kt parentRef observed desired)
      (manageChildren mks sys children none kt parentRef observed desired memo) := by
  unfold manageChildren
  refine AllCalls.mbind (manage_delete_loop kt observed desired _ ?_ _) ?_
  · intro g info name obj h1 h2 h3 h4 h5
    exact .orphan g info name obj h1 h2 h3 h4 h5
  · intro acc1
    refine AllCalls.mbind ?_ (fun _ => .ret _)
    refine AllCalls.foldlM _ _ _ ?_
    intro acc g hg
    cases hk : kt.find (gvkAPIVersion g.1) g.1.kind with
    | none => exact .ret _
    | some info =>
      refine AllCalls.mbind ?_ (fun _ => .ret _)
      refine AllCalls.mono ?_ (updateGroup_calls mks sys children info g.1.kind parentRef (observed.group g.1) g.2 acc.2)
      rintro r ⟨⟨name, des⟩, hnd, h⟩
      unfold StepReq at h
      cases hobs : (observed.group g.1).lookup name with
      | none =>
        simp only [hobs] at h
        subst h
        exact .create g info name des hg hk hnd hobs
      | some obs =>
        simp only [hobs] at h
        cases hact : updateAct mks sys (getMethod children info.group g.1.kind) obs des with
        | none => simp [hact, RenderOf] at h
        | error e => simp [hact, RenderOf] at h
        | delete uid =>
          simp only [hact, RenderOf] at h
          subst h
          exact .recreate g info name des obs uid hg hk hnd hobs hact
        | update body =>
          simp only [hact, RenderOf] at h
          subst h
          exact .update g info name des obs body hg hk hnd hobs hact

/-- the kind table knows `info` -/
def Known (kt : KindTable) (info : KindInfo) : Prop := ∃ av k, kt.find av k = some info

abbrev tgt (info : KindInfo) (o : J) : Target :=
  targetOf info.group info.resource info.namespaced (getNamespace o) (getName o)

/-- the requested reading of C02: what is written is determined by an observed object and/or a desired object -/
def ManagedReqW (mks sys : List String) (kt : KindTable) (parentRef : OwnerRef) (observed desired : ObjMap) (r : Req) : Prop :=
  ∃ info, Known kt info ∧
    ((∃ o, Occurs observed o ∧ r = .api .delete (tgt info o) .null (deleteOpts (getUID o))) ∨
     (∃ o d, Occurs observed o ∧ Occurs desired d ∧ r = .api .delete (tgt info d) .null (deleteOpts (getUID o))) ∨
     (∃ o d b, Occurs observed o ∧ Occurs desired d ∧ applyUpdate mks sys o d = .ok b ∧ r = .api .update (tgt info d) b .null) ∨
     (∃ d, Occurs desired d ∧ r = .api .create (tgt info d) (createBody parentRef d) .null))

theorem ManagedReq.weaken {mks sys : List String} {children : List ChildRes} {kt : KindTable} {parentRef : OwnerRef}
    {observed desired : ObjMap} {r : Req} (h : ManagedReq mks sys children kt parentRef observed desired r) :
    ManagedReqW mks sys kt parentRef observed desired r := by
  cases h with
  | orphan g info name obj h1 h2 h3 h4 h5 =>
    exact ⟨info, ⟨_, _, h2⟩, Or.inl ⟨obj, ⟨g, h1, (name, obj), h3, rfl⟩, rfl⟩⟩
  | recreate g info name des obs uid h1 h2 h3 h4 h5 =>
    obtain ⟨rfl, _, _⟩ := Mc.C06.C06_delete_inv _ _ _ _ _ _ h5
    exact ⟨info, ⟨_, _, h2⟩, Or.inr (Or.inl ⟨obs, des, occurs_of_group_lookup _ _ _ _ h4, ⟨g, h1, (name, des), h3, rfl⟩, rfl⟩)⟩
  | update g info name des obs body h1 h2 h3 h4 h5 =>
    obtain ⟨hb, _, _⟩ := Mc.C06.C06_update_inv _ _ _ _ _ _ h5
    exact ⟨info, ⟨_, _, h2⟩, Or.inr (Or.inr (Or.inl ⟨obs, des, body, occurs_of_group_lookup _ _ _ _ h4, ⟨g, h1, (name, des), h3, rfl⟩, hb, rfl⟩))⟩
  | create g info name des h1 h2 h3 h4 =>
    exact ⟨info, ⟨_, _, h2⟩, Or.inr (Or.inr (Or.inr ⟨des, ⟨g, h1, (name, des), h3, rfl⟩, rfl⟩))⟩

/-- **C02_manage_requests**: every request of `manageChildren` (dynamic apply), on every branch, is
    a delete of an observed object by its own name and UID, a Recreate-delete addressed by a desired object's name and
    guarded by an observed object's UID, an update whose body is `applyUpdate` of an observed and a desired object,
    or a create of `createBody parentRef d` for a desired `d`. Nothing else: no hook, get, apply or patch. -/
theorem C02_manage_requests (mks sys : List String) (children : List ChildRes) (kt : KindTable) (parentRef : OwnerRef)
    (observed desired : ObjMap) (memo : Memo) :
    AllCalls (ManagedReqW mks sys kt parentRef observed desired)
      (manageChildren mks sys children none kt parentRef observed desired memo) :=
  AllCalls.mono (fun _ h => h.weaken) (C02_manage_requests_strong ..)

/-- requests of `ManageChildren` under server-side apply -/
inductive ManagedReqSsa (fm : String) (kt : KindTable) (parentRef : OwnerRef) (observed desired : ObjMap) : Req → Prop where
  | orphan (g : GVK × List (String × J)) (info : KindInfo) (name : String) (obj : J) :
      g ∈ observed → kt.find (gvkAPIVersion g.1) g.1.kind = some info → (name, obj) ∈ g.2 →
      isDeleting obj = false → ((desired.group g.1).map (·.1)).contains name = false →
      ManagedReqSsa fm kt parentRef observed desired (.api .delete (tgt info obj) .null (deleteOpts (getUID obj)))
  /-- removal of the dynamic-apply annotation from an observed child that still carries it -/
  | patchRemove (g : GVK × List (String × J)) (info : KindInfo) (name : String) (des obs : J) :
      g ∈ desired → kt.find (gvkAPIVersion g.1) g.1.kind = some info → (name, des) ∈ g.2 →
      (observed.group g.1).lookup name = some obs → hasKey lastAppliedAnnotation ((getAnnotations obs).getD []) = true →
      ManagedReqSsa fm kt parentRef observed desired (.api .patchRemove (tgt info des) .null .null)
  | apply (g : GVK × List (String × J)) (info : KindInfo) (name : String) (des : J) :
      g ∈ desired → kt.find (gvkAPIVersion g.1) g.1.kind = some info → (name, des) ∈ g.2 →
      ManagedReqSsa fm kt parentRef observed desired (.api .apply (tgt info des) (applyBody parentRef des) (applyOpts fm))

/-- **C02_manage_requests_ssa** -/
theorem C02_manage_requests_ssa (mks sys : List String) (children : List ChildRes) (fm : String) (kt : KindTable) (parentRef : OwnerRef)
    (observed desired : ObjMap) (memo : Memo) :
    AllCalls (ManagedReqSsa fm kt parentRef observed desired)
      (manageChildren mks sys children (some fm) kt parentRef observed desired memo) := by
  unfold manageChildren
  refine AllCalls.mbind (manage_delete_loop kt observed desired _ ?_ _) ?_
  · intro g info name obj h1 h2 h3 h4 h5
    exact .orphan g info name obj h1 h2 h3 h4 h5
  · intro acc1
    refine AllCalls.mbind ?_ (fun _ => .ret _)
    refine AllCalls.foldlM _ _ _ ?_
    intro acc g hg
    cases hk : kt.find (gvkAPIVersion g.1) g.1.kind with
    | none => exact .ret _
    | some info =>
      refine AllCalls.mbind ?_ (fun _ => .ret _)
      refine AllCalls.mono ?_ (updateGroup_calls_ssa mks sys children fm info g.1.kind parentRef (observed.group g.1) g.2 acc.2)
      rintro r ⟨⟨name, des⟩, hnd, h⟩
      rcases h with ⟨rfl, o, ho, hk'⟩ | rfl
      · exact .patchRemove g info name des o hg hk hnd ho hk'
      · exact .apply g info name des hg hk hnd

/-- **C02_delete_guard**: whatever the apply mode, every delete issued by `manageChildren` carries
    `preconditions.uid` = the UID of an observed object, and `propagationPolicy = "Background"` -/
theorem C02_delete_guard (mks sys : List String) (children : List ChildRes) (ssa : Option String) (kt : KindTable) (parentRef : OwnerRef)
    (observed desired : ObjMap) (memo : Memo) :
    AllCalls (fun r => r.verb? = some .delete →
        ∃ o, Occurs observed o ∧ strAt r.opts ["preconditions", "uid"] = getUID o ∧ strAt r.opts ["propagationPolicy"] = "Background")
      (manageChildren mks sys children ssa kt parentRef observed desired memo) := by
  cases ssa with
  | none =>
    refine AllCalls.mono ?_ (C02_manage_requests_strong mks sys children kt parentRef observed desired memo)
    intro r h hv
    cases h with
    | orphan g info name obj h1 h2 h3 h4 h5 =>
      exact ⟨obj, ⟨g, h1, (name, obj), h3, rfl⟩, (Mc.C06.C06_delete_options _).1, (Mc.C06.C06_delete_options _).2⟩
    | recreate g info name des obs uid h1 h2 h3 h4 h5 =>
      obtain ⟨rfl, _, _⟩ := Mc.C06.C06_delete_inv _ _ _ _ _ _ h5
      exact ⟨obs, occurs_of_group_lookup _ _ _ _ h4, (Mc.C06.C06_delete_options _).1, (Mc.C06.C06_delete_options _).2⟩
    | update => simp [Req.verb?] at hv
    | create => simp [Req.verb?] at hv
  | some fm =>
    refine AllCalls.mono ?_ (C02_manage_requests_ssa mks sys children fm kt parentRef observed desired memo)
    intro r h hv
    cases h with
    | orphan g info name obj h1 h2 h3 h4 h5 =>
      exact ⟨obj, ⟨g, h1, (name, obj), h3, rfl⟩, (Mc.C06.C06_delete_options _).1, (Mc.C06.C06_delete_options _).2⟩
    | patchRemove => simp [Req.verb?] at hv
    | apply => simp [Req.verb?] at hv

/-- requests of `manageRevisions` -/
inductive RevReq (ns : String) (observed : List J) (desired : List (J × List CGroup)) : Req → Prop where
  | delete (rev : J) : rev ∈ observed → (desired.map (fun d => getName d.1)).contains (getName rev) = false →
      RevReq ns observed desired (.api .delete (revTarget ns (getName rev)) .null (.obj [("preconditions", .obj [("uid", .str (getUID rev))])]))
  | update (rev old : J) (ch : List CGroup) : (rev, ch) ∈ desired → old ∈ observed → getName old = getName rev →
      revUnchanged old ch = false →
      RevReq ns observed desired (.api .update (revTarget ns (getName rev)) (setRevChildren old ch) .null)
  | create (rev : J) (ch : List CGroup) : (rev, ch) ∈ desired → (∀ o ∈ observed, getName o ≠ getName rev) →
      RevReq ns observed desired (.api .create (revTarget ns (getName rev)) (setRevChildren rev ch) .null)

theorem C02_revision_requests (ns : String) (observed : List J) (desired : List (J × List CGroup)) :
    AllCalls (RevReq ns observed desired) (manageRevisions ns observed desired : Prog _) := by
  unfold manageRevisions
  simp only []
  refine AllCalls.ite (fun _ => PE.allCalls_fail _) (fun _ => ?_)
  refine PE.allCalls_mbind (PE.allCalls_forM _ _ ?_) (fun _ => PE.allCalls_forM _ _ ?_)
  · intro rev hrev
    refine AllCalls.ite (fun _ => PE.allCalls_pure _) (fun hc => ?_)
    refine PE.allCalls_mbind (PE.allCalls_lift (AllCalls.request _ ?_)) ?_
    · exact .delete rev hrev (by simpa using hc)
    · intro r; split
      · exact PE.allCalls_fail _
      · exact PE.allCalls_pure _
  · rintro ⟨rev, ch⟩ hd
    simp only []
    cases hf : observed.find? (fun o => getName o == getName rev) with
    | some old =>
      simp only []
      refine AllCalls.ite (fun _ => PE.allCalls_pure _) (fun hc => ?_)
      refine PE.allCalls_mbind (PE.allCalls_lift (AllCalls.request _ ?_)) ?_
      · exact .update rev old ch hd (List.mem_of_find?_eq_some hf) (by simpa using List.find?_some hf) (by simpa using hc)
      · intro r; split
        · exact PE.allCalls_fail _
        · exact PE.allCalls_pure _
    | none =>
      simp only []
      refine PE.allCalls_mbind (PE.allCalls_lift (AllCalls.request _ ?_)) ?_
      · refine .create rev ch hd ?_
        intro o ho
        have := List.find?_eq_none.mp hf o ho
        simpa using this
      · intro r; split
        · exact PE.allCalls_fail _
        · exact PE.allCalls_pure _

/-- every delete of a ControllerRevision is guarded by the UID of an observed revision -/
theorem C02_revision_delete_guard (ns : String) (observed : List J) (desired : List (J × List CGroup)) :
    AllCalls (fun r => r.verb? = some .delete →
        ∃ rev ∈ observed, r.target? = some (revTarget ns (getName rev)) ∧
          r.opts = .obj [("preconditions", .obj [("uid", .str (getUID rev))])] ∧
          strAt r.opts ["preconditions", "uid"] = getUID rev)
      (manageRevisions ns observed desired : Prog _) := by
  refine AllCalls.mono ?_ (C02_revision_requests ns observed desired)
  intro r h hv
  cases h with
  | delete rev h1 h2 => exact ⟨rev, h1, rfl, rfl, by simp [Req.opts, strAt, nestedField, lookup]⟩
  | update => simp [Req.verb?] at hv
  | create => simp [Req.verb?] at hv

/-! ### C02_create_owner -/

/-- **C02_create_owner**: a created child carries the references the hook gave it, then the parent's -/
theorem C02_create_owner (ref : OwnerRef) (d : J) (h : MetaOK d) :
    getOwnerRefs (createBody ref d) = getOwnerRefs (setLastApplied d d) ++ [ref] := by
  unfold createBody
  exact getOwnerRefs_setOwnerRefs _ _ (metaOK_setLastApplied d d h)

theorem C02_create_owner' (ref : OwnerRef) (d : J) (h : MetaOK d) :
    getOwnerRefs (createBody ref d) = getOwnerRefs d ++ [ref] := by
  rw [C02_create_owner ref d h, getOwnerRefs_setLastApplied]

/-- if the hook's object names no controller, the created child's controller is the parent -/
theorem C02_create_controller (ref : OwnerRef) (d : J) (h : MetaOK d) (hc : ref.controller = some true)
    (hn : controllerOf d = none) : controllerOf (createBody ref d) = some ref := by
  unfold controllerOf at hn ⊢
  rw [C02_create_owner' ref d h, List.find?_append, hn]
  simp [hc]

/-- a hook object whose `metadata` is not a map is sent as is, without controller reference
    (the API server rejects such an object): the hypothesis `MetaOK` is needed -/
theorem C02_create_owner_needs_meta :
    ∃ ref d, ref.controller = some true ∧ controllerOf (createBody ref d) = none :=
  ⟨{ apiVersion := "v1", kind := "P", name := "p", uid := "u", controller := some true, blockOwnerDeletion := some true },
   .obj [("metadata", .null)], rfl, by decide⟩

theorem C02_apply_owner (ref : OwnerRef) (d : J) (h : MetaOK d) :
    getOwnerRefs (applyBody ref d) =
      if (getOwnerRefs d).any (·.uid == ref.uid) then getOwnerRefs d else getOwnerRefs d ++ [ref] := by
  unfold applyBody
  split
  · rfl
  · exact getOwnerRefs_setOwnerRefs _ _ h

/-- server-side apply: the applied object's controller is the parent if the hook's object names no controller
    **and** carries no reference with the parent's UID -/
theorem C02_apply_controller (ref : OwnerRef) (d : J) (h : MetaOK d) (hc : ref.controller = some true)
    (hn : controllerOf d = none) (hu : (getOwnerRefs d).any (·.uid == ref.uid) = false) :
    controllerOf (applyBody ref d) = some ref := by
  unfold controllerOf at hn ⊢
  rw [C02_apply_owner ref d h, hu]
  simp only [Bool.false_eq_true, if_false]
  rw [List.find?_append, hn]
  simp [hc]

/-- the extra hypothesis of `C02_apply_controller` is needed: a hook object that already carries a
    non-controller reference with the parent's UID is applied without controller reference -/
theorem C02_apply_controller_partial_counterexample :
    ∃ ref d, MetaOK d ∧ ref.controller = some true ∧ controllerOf d = none ∧ controllerOf (applyBody ref d) = none := by
  refine ⟨{ apiVersion := "v1", kind := "P", name := "p", uid := "u", controller := some true, blockOwnerDeletion := some true },
    .obj [("metadata", .obj [("name", .str "c"), ("ownerReferences", .arr [.obj [("apiVersion", .str "v1"), ("kind", .str "P"),
      ("name", .str "p"), ("uid", .str "u")]])])], ?_, rfl, by decide, by decide⟩
  intro m hm
  simp [J.fields] at hm
  subst hm; rfl

/-! ### C02_update_keeps_identity -/

theorem sys_has_uid : "uid" ∈ Generated.objectMetaSystemFields := by decide
theorem sys_has_resourceVersion : "resourceVersion" ∈ Generated.objectMetaSystemFields := by decide

/-- **C02_update_keeps_identity**: the body of an update carries the UID and the resourceVersion of the
    observed object, whatever the hook put there: an accepted update is an update of the observed version -/
theorem C02_update_keeps_identity (mks sys : List String) (obs des new : J) (uid rv : J)
    (h : applyUpdate mks sys obs des = .ok new) (hu : "uid" ∈ sys) (hr : "resourceVersion" ∈ sys)
    (ou : nestedField obs ["metadata", "uid"] = .ok (some uid))
    (orv : nestedField obs ["metadata", "resourceVersion"] = .ok (some rv)) :
    nestedField new ["metadata", "uid"] = nestedField obs ["metadata", "uid"] ∧
    nestedField new ["metadata", "resourceVersion"] = nestedField obs ["metadata", "resourceVersion"] := by
  rw [ou, orv]
  exact ⟨applyUpdate_keeps_meta mks sys obs des new "uid" uid h hu (by decide) ou,
         applyUpdate_keeps_meta mks sys obs des new "resourceVersion" rv h hr (by decide) orv⟩

/-- the same through the typed accessors, for the list of system fields read from the Go source -/
theorem C02_update_keeps_identity_generated (mks : List String) (obs des new : J) (uid rv : J)
    (h : applyUpdate mks Generated.objectMetaSystemFields obs des = .ok new)
    (ou : nestedField obs ["metadata", "uid"] = .ok (some uid))
    (orv : nestedField obs ["metadata", "resourceVersion"] = .ok (some rv)) :
    getUID new = getUID obs ∧ getResourceVersion new = getResourceVersion obs := by
  obtain ⟨a, b⟩ := C02_update_keeps_identity mks _ obs des new uid rv h sys_has_uid sys_has_resourceVersion ou orv
  unfold getUID getResourceVersion strAt
  rw [a, b]
  exact ⟨rfl, rfl⟩

/-- **C05_status_kept**: `ApplyUpdate` never changes `.status`: present with the observed value when the
    observed object has one, absent when it has none -/
theorem applyUpdate_status_kept (mks sys : List String) (obs des new : J)
    (h : applyUpdate mks sys obs des = .ok new) : nestedField new ["status"] = nestedField obs ["status"] :=
  applyUpdate_status mks sys obs des new h

-- non-vacuity: the hook tries to overwrite uid, resourceVersion and status
example : ∃ new, applyUpdate ["name"] Generated.objectMetaSystemFields
    (.obj [("metadata", .obj [("name", .str "c"), ("uid", .str "u1"), ("resourceVersion", .str "7")]),
           ("spec", .obj [("image", .str "v1")]), ("status", .obj [("ready", .bool true)])])
    (.obj [("metadata", .obj [("name", .str "c"), ("uid", .str "bogus"), ("resourceVersion", .str "1")]),
           ("spec", .obj [("image", .str "v2")]), ("status", .obj [("ready", .bool false)])]) = .ok new ∧
    getUID new = "u1" ∧ getResourceVersion new = "7" ∧
    (match new.getPath? ["status", "ready"] with | some (.bool true) => true | _ => false) = true ∧
    strAt new ["spec", "image"] = "v2" := by
  refine ⟨_, rfl, ?_⟩
  decide

example : getOwnerRefs (createBody { apiVersion := "v1", kind := "P", name := "p", uid := "u", controller := some true, blockOwnerDeletion := some true }
    (.obj [("kind", .str "C"), ("metadata", .obj [("name", .str "c")])])) =
    [{ apiVersion := "v1", kind := "P", name := "p", uid := "u", controller := some true, blockOwnerDeletion := some true }] := by decide

/-! ### C02_claim_requests -/

/-- **C02_claim_requests**: a claim round only reads the parent, and reads / updates objects it decided to adopt
    or release; the updates are edits of the owner references of a freshly read object with the observed UID -/
theorem C02_claim_requests (cx : ClaimCtx) (objs : List J) (st : AdoptState) :
    AllCalls (fun r => ∃ o ∈ objs, ClaimOneReq cx o r) (claimAll cx objs st) := claimAll_calls cx objs st

/-- the reading asked for: GET of the parent, or GET / UPDATE on the target of an object to adopt or release -/
theorem C02_claim_requests_targets (cx : ClaimCtx) (objs : List J) (st : AdoptState) :
    AllCalls (fun r => r = .api .get cx.parentT .null .null ∨
        ∃ o ∈ objs, (cx.decision o = .adopt ∨ cx.decision o = .release) ∧ r.target? = some (cx.childT o) ∧
          (r.verb? = some .get ∨ r.verb? = some .update))
      (claimAll cx objs st) := by
  refine AllCalls.mono ?_ (claimAll_calls cx objs st)
  rintro r ⟨o, ho, h⟩
  rcases h with ⟨_, rfl⟩ | ⟨hd, h⟩ | ⟨hd, h⟩
  · exact Or.inl rfl
  · refine Or.inr ⟨o, ho, Or.inl hd, ?_⟩
    rcases h with rfl | ⟨cur, upd, _, _, rfl⟩
    · exact ⟨rfl, Or.inl rfl⟩
    · exact ⟨rfl, Or.inr rfl⟩
  · refine Or.inr ⟨o, ho, Or.inr hd, ?_⟩
    rcases h with rfl | ⟨cur, upd, _, _, rfl⟩
    · exact ⟨rfl, Or.inl rfl⟩
    · exact ⟨rfl, Or.inr rfl⟩

/-- objects that are ignored or kept (controlled by someone else, non-matching orphans, already ours, …)
    are never written: every write of a claim round targets an object to adopt or release -/
theorem C02_claim_no_foreign_write (cx : ClaimCtx) (objs : List J) (st : AdoptState) :
    AllCalls (fun r => r.isWrite = true →
        ∃ o ∈ objs, (cx.decision o = .adopt ∨ cx.decision o = .release) ∧ r.target? = some (cx.childT o) ∧ r.verb? = some .update)
      (claimAll cx objs st) := by
  refine AllCalls.mono ?_ (C02_claim_requests_targets cx objs st)
  rintro r h hw
  rcases h with rfl | ⟨o, ho, hd, ht, hv⟩
  · simp [Req.isWrite, Req.verb?, Verb.isWrite] at hw
  · rcases hv with hv | hv
    · simp [Req.isWrite, hv, Verb.isWrite] at hw
    · exact ⟨o, ho, hd, ht, hv⟩

/-! ### non-vacuity: a concrete parent with one stale and one missing child -/

def exInfo : KindInfo := { group := "", resource := "configmaps", namespaced := true }
def exKt : KindTable := [(("v1", "ConfigMap"), exInfo)]
def exGVK : GVK := { group := "", version := "v1", kind := "ConfigMap" }
def exRef : OwnerRef :=
  { apiVersion := "ex/v1", kind := "P", name := "p", uid := "u-p", controller := some true, blockOwnerDeletion := some true }
def exObs : J := .obj [("apiVersion", .str "v1"), ("kind", .str "ConfigMap"),
  ("metadata", .obj [("name", .str "old"), ("namespace", .str "ns"), ("uid", .str "u-old")])]
def exDes : J := .obj [("apiVersion", .str "v1"), ("kind", .str "ConfigMap"),
  ("metadata", .obj [("name", .str "new"), ("namespace", .str "ns")])]

-- dynamic apply: the stale child is deleted under its UID, then (whatever the answer) the missing one is created
example : ∃ k k', manageChildren ["name"] ["uid"] [] none exKt exRef [(exGVK, [("ns/old", exObs)])] [(exGVK, [("ns/new", exDes)])] [] =
      .call (.api .delete ⟨"", "configmaps", "ns", "old"⟩ .null (deleteOpts "u-old")) k ∧
    k (.err "Forbidden") = .call (.api .create ⟨"", "configmaps", "ns", "new"⟩ (createBody exRef exDes) .null) k' :=
  ⟨_, _, rfl, rfl⟩

-- server-side apply: delete, then apply of `applyBody`
example : ∃ k k', manageChildren ["name"] ["uid"] [] (some "metacontroller") exKt exRef [(exGVK, [("ns/old", exObs)])] [(exGVK, [("ns/new", exDes)])] [] =
      .call (.api .delete ⟨"", "configmaps", "ns", "old"⟩ .null (deleteOpts "u-old")) k ∧
    k (.obj .null) = .call (.api .apply ⟨"", "configmaps", "ns", "new"⟩ (applyBody exRef exDes) (applyOpts "metacontroller")) k' :=
  ⟨_, _, rfl, rfl⟩

-- method Recreate: the delete is addressed by the desired object's name and guarded by the observed UID
example : ∃ k, childStep ["name"] ["uid"] "Recreate" ⟨"", "configmaps", "ns", "old"⟩ exRef (some exObs)
      (.obj [("apiVersion", .str "v1"), ("kind", .str "ConfigMap"),
          ("metadata", .obj [("name", .str "old"), ("namespace", .str "ns")]), ("data", .obj [("k", .str "v")])]) =
      .call (.api .delete ⟨"", "configmaps", "ns", "old"⟩ .null (deleteOpts "u-old")) k :=
  ⟨_, rfl⟩

-- a stale ControllerRevision is deleted under its UID
example : ∃ k, (manageRevisions "ns" [.obj [("metadata", .obj [("name", .str "rev1"), ("namespace", .str "ns"), ("uid", .str "u-r")])]] [] : Prog _) =
    .call (.api .delete (revTarget "ns" "rev1") .null (.obj [("preconditions", .obj [("uid", .str "u-r")])])) k :=
  ⟨_, rfl⟩

-- claiming: a matching orphan is adopted after a live GET of the parent; an object controlled by someone else is not touched
def exCx : ClaimCtx :=
  { parentT := ⟨"ex", "ps", "ns", "p"⟩, parent := .obj [("metadata", .obj [("name", .str "p"), ("namespace", .str "ns"), ("uid", .str "u-p")])],
    parentRef := exRef, selector := .reqs [], childT := fun o => tgt exInfo o }
def exForeign : J := .obj [("metadata", .obj [("name", .str "f"), ("namespace", .str "ns"), ("uid", .str "u-f"),
  ("ownerReferences", .arr [.obj [("apiVersion", .str "v1"), ("kind", .str "Q"), ("name", .str "q"), ("uid", .str "u-q"), ("controller", .bool true)]])])]

example : exCx.decision exObs = .adopt ∧ exCx.decision exForeign = .ignore := by decide
example : ∃ k, claimAll exCx [exForeign, exObs] none = .call (.api .get ⟨"ex", "ps", "ns", "p"⟩ .null .null) k := ⟨_, rfl⟩
example : claimAll exCx [exForeign] none = .ret ([], []) := rfl

end Mc.C02
