import Mc.Spec.C05
/-
  C05 - property theorems (statements live here, helper lemmas in Mc/Proofs).
-/
namespace Mc.C05

/-- a scalar or null observed value is simply replaced by desired -/
theorem merge_scalar_dest (mks : List String) (o : J) (l : Option J) (d : J)
    (ho : o.isObj = false) (ha : o.isArr = false) : merge mks o l d = .ok d := by
  cases o <;> simp [J.isObj, J.isArr] at ho ha <;> simp [merge]

/-- top-level clash: observed map, desired neither map nor null ⇒ error (never dropped) -/
theorem C05_clash_error_top (mks : List String) (os : KVs) (l : Option J) (d : J)
    (h1 : d.isObj = false) (h2 : d.isNull = false) : ∃ e, merge mks (.obj os) l d = .error e := by
  cases d <;> simp [J.isObj, J.isNull] at h1 h2 <;> exact ⟨"desired: expecting map", by simp [merge]⟩

end Mc.C05
