import Mc.Spec.C05
import Mc.Proofs.Idem
import Mc.Proofs.Clash
import Mc.Proofs.Laws
import Mc.Proofs.WF
import Mc.Proofs.HypPres
/-
  C05 - property theorems (statements live here, helper lemmas in Mc/Proofs).

  All theorems hold for every list `mks` of conventional merge keys and for unbounded
  `o`, `l`, `d`.  Extra hypothesis predicates (`noNullOverArr`) are defined in
  `Mc/Proofs/C05Hyps.lean`.
-/
namespace Mc.C05

/-- a scalar or null observed value is simply replaced by desired -/
theorem merge_scalar_dest (mks : List String) (o : J) (l : Option J) (d : J)
    (ho : o.isObj = false) (ha : o.isArr = false) : merge mks o l d = .ok d := by
  cases o <;> simp [J.isObj, J.isArr] at ho ha <;> simp [merge]

/-- top-level clash: observed map, desired neither map nor null ⇒ error (never dropped) -/
theorem C05_clash_error_top (mks : List String) (os : KVs) (l : Option J) (d : J)
    (h1 : d.isObj = false) (h2 : d.isNull = false) : ∃ e, merge mks (.obj os) l d = .error e := by
  cases d <;> simp [J.isObj, J.isNull] at h1 h2 <;> exact ⟨"desired: expecting map", by simp [merge]⟩

/-! ## 1. Idempotence -/

/-- **C05 idempotence** (whole model, list-map branch included, structural equality).
    Hypotheses: `d` and the first result `r` satisfy the uniqueness hypothesis `hypJ`
    (`r` is the *observed* input of the second merge), merge-key values of `o` are scalars,
    and `d` has no explicit `null` where `o` has an array.
    `hypJ` of `o` and `l` is **not** needed; `hypJ mks r` cannot be replaced by `hypJ` of the
    inputs (`C05_idempotent_keyswitch_counterexample`). -/
theorem C05_idempotent (mks : List String) (o : J) (l : Option J) (d r : J)
    (hd : hypJ mks d = true) (hr : hypJ mks r = true)
    (hs : scalarKeys mks o = true) (hn : noNullOverArr o d = true)
    (h : merge mks o l d = .ok r) :
    merge mks r (some d) d = .ok r :=
  idem_all mks d o l r hs hn hd hr h

/-- the `eqv` form asked for by the property text -/
theorem C05_idempotent_eqv (mks : List String) (o : J) (l : Option J) (d r : J)
    (hd : hypJ mks d = true) (hr : hypJ mks r = true)
    (hs : scalarKeys mks o = true) (hn : noNullOverArr o d = true)
    (h : merge mks o l d = .ok r) :
    ∃ r', merge mks r (some d) d = .ok r' ∧ r'.eqv r = true :=
  ⟨r, C05_idempotent mks o l d r hd hr hs hn h, J.eqv_refl r (hypJ_wfB mks r hr)⟩

/-- merging a value with itself as observed, last-applied and desired is the identity -/
theorem C05_self_merge (mks : List String) (d : J) (hd : hypJ mks d = true) :
    merge mks d (some d) d = .ok d :=
  idem_all mks d .null none d rfl (noNullOverArr_scalar _ _ rfl rfl) hd hd (merge_scalar _ _ _ _ rfl rfl)

section Examples
private def exO : J := .obj [("spec", .obj [("replicas", .num 1), ("containers", .arr [
    .obj [("name", .str "app"), ("image", .str "v1")],
    .obj [("name", .str "sidecar"), ("image", .str "s")],
    .obj [("name", .str "old"), ("image", .str "o")]])]), ("status", .obj [("ready", .bool true)])]
private def exL : J := .obj [("spec", .obj [("gone", .num 0), ("containers", .arr [
    .obj [("name", .str "app"), ("image", .str "v1")],
    .obj [("name", .str "old"), ("image", .str "o")]])])]
private def exD : J := .obj [("spec", .obj [("replicas", .num 2), ("containers", .arr [
    .obj [("name", .str "new"), ("image", .str "n")],
    .obj [("name", .str "app"), ("image", .str "v2"), ("args", .arr [.str "-v"])]])])]
private def exR : J := .obj [("spec", .obj [("replicas", .num 2), ("containers", .arr [
    .obj [("name", .str "app"), ("image", .str "v2"), ("args", .arr [.str "-v"])],
    .obj [("name", .str "sidecar"), ("image", .str "s")],
    .obj [("name", .str "new"), ("image", .str "n")]])]), ("status", .obj [("ready", .bool true)])]

/-- non-vacuity of `C05_idempotent`: a list-map instance satisfying every hypothesis -/
example : hypJ ["name"] exD = true ∧ hypJ ["name"] exR = true ∧ scalarKeys ["name"] exO = true ∧
    noNullOverArr exO exD = true ∧ merge ["name"] exO (some exL) exD = .ok exR :=
  ⟨by decide, by decide, by decide, by decide, by rfl⟩

example : merge ["name"] exR (some exD) exD = .ok exR :=
  C05_idempotent ["name"] exO (some exL) exD exR (by decide) (by decide) (by decide) (by decide) (by rfl)
end Examples

/-- the statement without any hypothesis is false: explicit `null` in desired over an
    observed list-map whose items were all last-applied gives `[]`, then `null` -/
theorem C05_idempotent_null_counterexample :
    ¬ (∀ (mks : List String) (o : J) (l : Option J) (d r : J), merge mks o l d = .ok r →
        ∃ r', merge mks r (some d) d = .ok r' ∧ r'.eqv r = true) := by
  intro h
  obtain ⟨r', h1, h2⟩ := h ["name"] (.arr [.obj [("name", .str "a")]])
    (some (.arr [.obj [("name", .str "a")]])) .null (.arr []) (by rfl)
  have h3 : merge ["name"] (.arr []) (some .null) .null = .ok .null := by rfl
  rw [h3] at h1
  cases h1
  exact absurd h2 (by decide)

/-- idempotence stated with hypotheses on the three *inputs* only (the form first intended) -/
def C05_idempotent_full : Prop :=
  ∀ (mks : List String) (o l d r : J),
    hypJ mks o = true → hypJ mks l = true → hypJ mks d = true →
    scalarKeys mks o = true → scalarKeys mks l = true → scalarKeys mks d = true →
    noNullOverArr o d = true →
    merge mks o (some l) d = .ok r →
    ∃ r', merge mks r (some d) d = .ok r' ∧ r'.eqv r = true

/-- `C05_idempotent_full` is **false** of the model (and of the Go code it transliterates):
    removing the only observed item that lacks the key `name` lets the second merge switch
    from `port` to `name`, under which two surviving observed items collide.
    All inputs satisfy `hypJ` (unique under every key shared by *all* items of a list). -/
theorem C05_idempotent_keyswitch_counterexample : ¬ C05_idempotent_full := by
  intro h
  obtain ⟨r', h1, h2⟩ := h ["name", "port"]
    (.arr [.obj [("name", .str "a"), ("port", .num 1)], .obj [("name", .str "a"), ("port", .num 2)],
           .obj [("port", .num 3)]])
    (.arr [.obj [("port", .num 3)]])
    (.arr [.obj [("name", .str "b"), ("port", .num 4)]])
    (.arr [.obj [("name", .str "a"), ("port", .num 1)], .obj [("name", .str "a"), ("port", .num 2)],
           .obj [("name", .str "b"), ("port", .num 4)]])
    (by decide) (by decide) (by decide) (by decide) (by decide) (by decide) (by decide) (by rfl)
  have h3 : merge ["name", "port"]
      (.arr [.obj [("name", .str "a"), ("port", .num 1)], .obj [("name", .str "a"), ("port", .num 2)],
             .obj [("name", .str "b"), ("port", .num 4)]])
      (some (.arr [.obj [("name", .str "b"), ("port", .num 4)]]))
      (.arr [.obj [("name", .str "b"), ("port", .num 4)]]) =
      .ok (.arr [.obj [("name", .str "a"), ("port", .num 2)], .obj [("name", .str "a"), ("port", .num 2)],
             .obj [("name", .str "b"), ("port", .num 4)]]) := by rfl
  rw [h3] at h1
  cases h1
  exact absurd h2 (by decide)

/-- `scalarKeys mks o` cannot be dropped either: a composite observed value under a conventional
    key survives a desired `null`, changes the item's merge-key string and (after a key switch)
    the second merge appends the desired item again.  Here `hypJ` holds of `o`, `l`, `d` *and* `r`. -/
theorem C05_idempotent_scalarKeys_needed :
    ¬ (∀ (mks : List String) (o l d r : J),
        hypJ mks o = true → hypJ mks l = true → hypJ mks d = true → hypJ mks r = true →
        noNullOverArr o d = true → merge mks o (some l) d = .ok r →
        ∃ r', merge mks r (some d) d = .ok r' ∧ r'.eqv r = true) := by
  intro h
  obtain ⟨r', h1, h2⟩ := h ["name", "port"]
    (.arr [.obj [("name", .obj [("a", .num 1)]), ("port", .num 1)], .obj [("port", .num 3)]])
    (.arr [.obj [("port", .num 3)]])
    (.arr [.obj [("name", .null), ("port", .num 1)]])
    (.arr [.obj [("name", .obj [("a", .num 1)]), ("port", .num 1)]])
    (by decide) (by decide) (by decide) (by decide) (by decide) (by rfl)
  have h3 : merge ["name", "port"]
      (.arr [.obj [("name", .obj [("a", .num 1)]), ("port", .num 1)]])
      (some (.arr [.obj [("name", .null), ("port", .num 1)]]))
      (.arr [.obj [("name", .null), ("port", .num 1)]]) =
      .ok (.arr [.obj [("name", .obj [("a", .num 1)]), ("port", .num 1)],
                 .obj [("name", .null), ("port", .num 1)]]) := by rfl
  rw [h3] at h1
  cases h1
  exact absurd h2 (by decide)

/-! ### an input-only form of idempotence

`hypJ mks r` follows from two stronger, input-only conditions (defined in `Mc/Proofs/HypPres.lean`):
`hypS` - under EVERY conventional key the items carrying it are pairwise distinct (not only under the
keys shared by all items), and `coh mks o d` - an observed and a desired item equal under one
conventional key are equal under every conventional key both carry. -/

/-- the merge result satisfies the uniqueness hypothesis `hypJ` -/
theorem C05_result_hyp (mks : List String) (o : J) (l : Option J) (d r : J)
    (ho : hypS mks o = true) (hd : hypS mks d = true) (hc : coh mks o d = true)
    (hs : scalarKeys mks o = true) (h : merge mks o l d = .ok r) : hypJ mks r = true :=
  pres_all mks d o l r ho hd hc hs h

/-- **C05 idempotence, hypotheses on the inputs only** -/
theorem C05_idempotent_inputs (mks : List String) (o : J) (l : Option J) (d r : J)
    (ho : hypS mks o = true) (hd : hypS mks d = true) (hc : coh mks o d = true)
    (hs : scalarKeys mks o = true) (hn : noNullOverArr o d = true)
    (h : merge mks o l d = .ok r) :
    merge mks r (some d) d = .ok r :=
  C05_idempotent mks o l d r (hypS_hypJ mks d hd) (C05_result_hyp mks o l d r ho hd hc hs h) hs hn h

section Examples2
private def ex2O : J := .obj [("ports", .arr [
    .obj [("containerPort", .num 80), ("name", .str "http")],
    .obj [("containerPort", .num 443), ("name", .str "https")],
    .obj [("containerPort", .num 9090)]])]
private def ex2L : J := .obj [("ports", .arr [.obj [("containerPort", .num 9090)]])]
private def ex2D : J := .obj [("ports", .arr [
    .obj [("containerPort", .num 80), ("name", .str "http"), ("protocol", .str "TCP")],
    .obj [("containerPort", .num 8080), ("name", .str "alt")]])]
private def ex2R : J := .obj [("ports", .arr [
    .obj [("containerPort", .num 80), ("name", .str "http"), ("protocol", .str "TCP")],
    .obj [("containerPort", .num 443), ("name", .str "https")],
    .obj [("containerPort", .num 8080), ("name", .str "alt")]])]

/-- non-vacuity of `C05_idempotent_inputs`, with two conventional keys and an actual key switch
    (first merge keyed by `containerPort`, second by `name`) -/
example : hypS ["name", "containerPort"] ex2O = true ∧ hypS ["name", "containerPort"] ex2D = true ∧
    coh ["name", "containerPort"] ex2O ex2D = true ∧ scalarKeys ["name", "containerPort"] ex2O = true ∧
    noNullOverArr ex2O ex2D = true ∧ merge ["name", "containerPort"] ex2O (some ex2L) ex2D = .ok ex2R :=
  ⟨by decide, by decide, by decide, by decide, by decide, by rfl⟩

example : merge ["name", "containerPort"] ex2R (some ex2D) ex2D = .ok ex2R :=
  C05_idempotent_inputs ["name", "containerPort"] ex2O (some ex2L) ex2D ex2R
    (by decide) (by decide) (by decide) (by decide) (by decide) (by rfl)

/-- the key-switch counterexample violates `coh` (and its variant with two observed items of the
    same name violates `hypS`) -/
example : coh ["name", "port"]
    (.arr [.obj [("name", .str "a"), ("port", .num 1)], .obj [("port", .num 3)]])
    (.arr [.obj [("name", .str "a"), ("port", .num 4)]]) = false := by decide
example : hypS ["name", "port"]
    (.arr [.obj [("name", .str "a"), ("port", .num 1)], .obj [("name", .str "a"), ("port", .num 2)],
           .obj [("port", .num 3)]]) = false := by decide
end Examples2

/-! ## 2. Clash ⇒ error -/

/-- **C05 clash clause**: a non-null desired value of another JSON kind than a composite observed
    value, at a path both reach through objects, makes the merge fail (never silently dropped) -/
theorem C05_clash_error (mks : List String) (o : J) (l : Option J) (d : J)
    (hd : d.wfB = true) (hc : clash o d = true) : ∃ e, merge mks o l d = .error e :=
  clash_all mks d o l hd hc

theorem C05_clash_error' (mks : List String) (o : J) (l : Option J) (d : J)
    (hd : hypJ mks d = true) (hc : clash o d = true) : ∃ e, merge mks o l d = .error e :=
  C05_clash_error mks o l d (hypJ_wfB mks d hd) hc

/-- non-vacuity: a nested clash -/
example : (J.obj [("a", .obj [("b", .num 1)])]).wfB = true ∧
    clash (.obj [("a", .obj [("b", .obj [])])]) (.obj [("a", .obj [("b", .num 1)])]) = true :=
  ⟨by decide, by decide⟩

/-! ## 3. Containment -/

/-- **C05 containment**: every field present in desired has the desired value in the result -/
theorem C05_contains (mks : List String) (o : J) (l : Option J) (d r : J)
    (hd : hypJ mks d = true) (h : merge mks o l d = .ok r) : contains r d = true :=
  cont_all mks d o l r hd h

example : contains exR exD = true :=
  C05_contains ["name"] exO (some exL) exD exR (by decide) (by rfl)

/-! ## 4. Removed + preserved -/

/-- **C05 laws** (removed + preserved, whole model, list-map branch included):
    keys / list-map items of `l` that `d` dropped are absent from `r`; every other key / item of
    `o` is kept (untouched when `d` does not mention it, recursively lawful otherwise); `r` has
    nothing that neither `o` nor `d` has; list-map order is "surviving observed, then new desired". -/
theorem C05_laws (mks : List String) (o : J) (l : Option J) (d r : J)
    (ho : hypJ mks o = true) (hl : hypO mks l = true) (hd : hypJ mks d = true)
    (hs : scalarKeys mks o = true)
    (h : merge mks o l d = .ok r) : laws mks r o l d = true :=
  laws_all mks d o l r ho hl hd hs h

example : hypJ ["name"] exO = true ∧ hypO ["name"] (some exL) = true ∧ hypJ ["name"] exD = true ∧
    scalarKeys ["name"] exO = true ∧ merge ["name"] exO (some exL) exD = .ok exR :=
  ⟨by decide, by decide, by decide, by decide, by rfl⟩

example : laws ["name"] exR exO (some exL) exD = true :=
  C05_laws ["name"] exO (some exL) exD exR (by decide) (by decide) (by decide) (by decide) (by rfl)

/-- readable top-level corollary, *removed*: a key of last-applied that desired no longer has is
    absent from the result (only `uniq` of the desired keys is needed) -/
theorem C05_removed_top (mks : List String) (os : KVs) (l : Option J) (ds rk : KVs) (k : String)
    (hu : uniq ds) (h : merge mks (.obj os) l (.obj ds) = .ok (.obj rk))
    (hl : hasKey k (lastObj l) = true) (hd : hasKey k ds = false) : hasKey k rk = false := by
  rw [merge_obj_obj] at h
  obtain ⟨rk', hr, _, h2⟩ := mergeFields_spec mks _ ds _ _ hu h
  cases hr
  rw [hasKey_false_iff, h2 k ((hasKey_false_iff _ _).mp hd), lookup_prune]
  simp [hl, hd]

/-- readable top-level corollary, *preserved*: a key that neither last-applied nor desired
    mentions keeps its observed value (or stays absent) -/
theorem C05_preserved_top (mks : List String) (os : KVs) (l : Option J) (ds rk : KVs) (k : String)
    (hu : uniq ds) (h : merge mks (.obj os) l (.obj ds) = .ok (.obj rk))
    (hl : hasKey k (lastObj l) = false) (hd : hasKey k ds = false) : lookup k rk = lookup k os := by
  rw [merge_obj_obj] at h
  obtain ⟨rk', hr, _, h2⟩ := mergeFields_spec mks _ ds _ _ hu h
  cases hr
  rw [h2 k ((hasKey_false_iff _ _).mp hd), lookup_prune]
  simp [hl]

/-! ## 5. Corollaries -/

/-- `eqv` (the model of `reflect.DeepEqual`) is reflexive on well-formed values -/
theorem C05_eqv_refl (j : J) (h : j.wfB = true) : j.eqv j = true := J.eqv_refl j h

/-- `merge` never returns a non-well-formed value from well-formed observed and desired values
    (last-applied is unconstrained: nothing flows from it into the result) -/
theorem C05_merge_wf (mks : List String) (o : J) (l : Option J) (d r : J)
    (ho : o.wfB = true) (hd : d.wfB = true) (h : merge mks o l d = .ok r) : r.wfB = true :=
  presWF_all mks d o l r ho hd h

theorem C05_merge_WF (mks : List String) (o : J) (l : Option J) (d r : J)
    (ho : o.WF) (hd : d.WF) (h : merge mks o l d = .ok r) : r.WF :=
  (J.wfB_iff_WF r).mp (C05_merge_wf mks o l d r ((J.wfB_iff_WF o).mpr ho) ((J.wfB_iff_WF d).mpr hd) h)

/-- the uniqueness hypothesis implies well-formedness -/
theorem C05_hypJ_wfB (mks : List String) (j : J) (h : hypJ mks j = true) : j.wfB = true := hypJ_wfB mks j h

/-- a successful merge has no clash (contrapositive of `C05_clash_error`) -/
theorem C05_ok_no_clash (mks : List String) (o : J) (l : Option J) (d r : J)
    (hd : d.wfB = true) (h : merge mks o l d = .ok r) : clash o d = false := by
  cases hc : clash o d with
  | false => rfl
  | true =>
    obtain ⟨e, he⟩ := C05_clash_error mks o l d hd hc
    rw [he] at h; cases h

end Mc.C05
