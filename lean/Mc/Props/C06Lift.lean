import Mc.Props.C06
import Mc.Proofs.ManageLemmas
import Mc.Props.C12
/-
  C06, lifted from the decision (`updateAct`) to the requests of `updateChildren`:
  what is sent to the target of a desired child is exactly the rendering of the decision taken for it.
  (Separate file: `Mc/Props/C06.lean` imports `Mc.Sync.Common` only.)
-/
namespace Mc.C06
open Prog

abbrev tgt (info : KindInfo) (o : J) : Target :=
  targetOf info.group info.resource info.namespaced (getNamespace o) (getName o)

theorem eq_of_nodup_keys {α : Type} : ∀ (l : List (String × α)), (l.map (·.1)).Nodup →
    ∀ a ∈ l, ∀ b ∈ l, a.1 = b.1 → a = b := by
  intro l
  induction l with
  | nil => intro _ a ha; cases ha
  | cons x rest ih =>
    intro hn a ha b hb hab
    simp only [List.map_cons, List.nodup_cons] at hn
    obtain ⟨hx, hrest⟩ := hn
    rcases List.mem_cons.mp ha with rfl | ha' <;> rcases List.mem_cons.mp hb with rfl | hb'
    · rfl
    · exact absurd (List.mem_map.mpr ⟨b, hb', hab.symm⟩) hx
    · exact absurd (List.mem_map.mpr ⟨a, ha', hab⟩) hx
    · exact ih hrest a ha' b hb' hab

/-- distinct names ⇒ distinct targets: in a group keyed by qualified names (what `insertUniform` builds) of a
    namespaced resource, two entries with the same request target are the same entry -/
theorem C06_distinct_targets (info : KindInfo) (desired : List (String × J))
    (hn : (desired.map (·.1)).Nodup) (hq : ∀ nd ∈ desired, nd.1 = qualifiedName nd.2) (hns : info.namespaced = true) :
    ∀ a ∈ desired, ∀ b ∈ desired, tgt info a.2 = tgt info b.2 → a = b := by
  intro a ha b hb ht
  refine eq_of_nodup_keys desired hn a ha b hb ?_
  rw [hq a ha, hq b hb]
  simp only [tgt, targetOf, hns, if_true, Target.mk.injEq, true_and] at ht
  unfold qualifiedName
  rw [ht.1, ht.2]

/-- the same for a cluster-scoped resource whose desired objects carry no namespace -/
theorem C06_distinct_targets_cluster (info : KindInfo) (desired : List (String × J))
    (hn : (desired.map (·.1)).Nodup) (hq : ∀ nd ∈ desired, nd.1 = qualifiedName nd.2)
    (hns : ∀ nd ∈ desired, getNamespace nd.2 = "") :
    ∀ a ∈ desired, ∀ b ∈ desired, tgt info a.2 = tgt info b.2 → a = b := by
  intro a ha b hb ht
  refine eq_of_nodup_keys desired hn a ha b hb ?_
  rw [hq a ha, hq b hb]
  simp only [tgt, targetOf, Target.mk.injEq, true_and] at ht
  unfold qualifiedName
  rw [hns a ha, hns b hb, ht.2]

/-- **C06_lift**: in `updateChildren` (dynamic apply), every request addressed to the target of an observed desired child
    is the rendering of the decision `updateAct` took for it under the configured method: nothing when the decision is
    `.none` / `.error`, the UID-guarded delete when it is `.delete uid`, the update with the merged body when `.update body` -/
theorem C06_lift (mks sys : List String) (children : List ChildRes) (info : KindInfo) (kind : String)
    (parentRef : OwnerRef) (observed desired : List (String × J)) (memo : Memo) (name : String) (des obs : J)
    (hobs : observed.lookup name = some obs)
    (hdist : ∀ nd ∈ desired, tgt info nd.2 = tgt info des → nd = (name, des)) :
    AllCalls (fun r => r.target? = some (tgt info des) →
        RenderOf (tgt info des) (updateAct mks sys (getMethod children info.group kind) obs des) r)
      (updateGroup mks sys children none info kind parentRef observed desired memo) := by
  refine AllCalls.mono ?_ (updateGroup_calls mks sys children info kind parentRef observed desired memo)
  rintro r ⟨nd, hnd, h⟩ ht
  have htgt : tgt info nd.2 = tgt info des := by
    unfold StepReq at h
    cases ho : observed.lookup nd.1 with
    | none => simp only [ho] at h; subst h; simpa [Req.target?] using ht
    | some o =>
      simp only [ho] at h
      cases ha : updateAct mks sys (getMethod children info.group kind) o nd.2 with
      | none => simp [ha, RenderOf] at h
      | error e => simp [ha, RenderOf] at h
      | delete uid => simp only [ha, RenderOf] at h; subst h; simpa [Req.target?] using ht
      | update body => simp only [ha, RenderOf] at h; subst h; simpa [Req.target?] using ht
  have := hdist nd hnd htgt
  subst this
  simpa [StepReq, hobs] using h

/-- a desired child that is not observed: the only request on its target is the create -/
theorem C06_lift_create (mks sys : List String) (children : List ChildRes) (info : KindInfo) (kind : String)
    (parentRef : OwnerRef) (observed desired : List (String × J)) (memo : Memo) (name : String) (des : J)
    (hobs : observed.lookup name = none)
    (hdist : ∀ nd ∈ desired, tgt info nd.2 = tgt info des → nd = (name, des)) :
    AllCalls (fun r => r.target? = some (tgt info des) → r = .api .create (tgt info des) (createBody parentRef des) .null)
      (updateGroup mks sys children none info kind parentRef observed desired memo) := by
  refine AllCalls.mono ?_ (updateGroup_calls mks sys children info kind parentRef observed desired memo)
  rintro r ⟨nd, hnd, h⟩ ht
  have htgt : tgt info nd.2 = tgt info des := by
    unfold StepReq at h
    cases ho : observed.lookup nd.1 with
    | none => simp only [ho] at h; subst h; simpa [Req.target?] using ht
    | some o =>
      simp only [ho] at h
      cases ha : updateAct mks sys (getMethod children info.group kind) o nd.2 with
      | none => simp [ha, RenderOf] at h
      | error e => simp [ha, RenderOf] at h
      | delete uid => simp only [ha, RenderOf] at h; subst h; simpa [Req.target?] using ht
      | update body => simp only [ha, RenderOf] at h; subst h; simpa [Req.target?] using ht
  have := hdist nd hnd htgt
  subst this
  simpa [StepReq, hobs] using h

/-- consequences per strategy, at the level of requests: under OnDelete nothing is ever sent to an observed child;
    under Recreate never an update; under InPlace never a delete -/
theorem C06_lift_ondelete (mks sys : List String) (children : List ChildRes) (info : KindInfo) (kind : String)
    (parentRef : OwnerRef) (observed desired : List (String × J)) (memo : Memo) (name : String) (des obs : J)
    (hobs : observed.lookup name = some obs)
    (hdist : ∀ nd ∈ desired, tgt info nd.2 = tgt info des → nd = (name, des))
    (hm : getMethod children info.group kind = "OnDelete") :
    NoQ (fun r => r.target? = some (tgt info des))
      (updateGroup mks sys children none info kind parentRef observed desired memo) := by
  refine AllCalls.mono ?_ (C06_lift mks sys children info kind parentRef observed desired memo name des obs hobs hdist)
  intro r h ht
  have h' := h ht
  have := C06_ondelete mks sys (getMethod children info.group kind) obs des (Or.inl hm)
  cases ha : updateAct mks sys (getMethod children info.group kind) obs des with
  | none => simp [ha, RenderOf] at h'
  | error e => simp [ha, RenderOf] at h'
  | delete uid => simp [ha, ChildAct.isDelete] at this
  | update body => simp [ha, ChildAct.isUpdate] at this

/-! ### exactly the rendering -/

/-- the rendering of a decision as a list of requests: none or one -/
def renderList (t : Target) (act : ChildAct) : List Req :=
  match act with
  | .delete uid => [.api .delete t .null (deleteOpts uid)]
  | .update body => [.api .update t body .null]
  | _ => []

theorem renderList_spec (t : Target) (act : ChildAct) (r : Req) : r ∈ renderList t act ↔ RenderOf t act r := by
  cases act <;> simp [renderList, RenderOf]

theorem childReqs_some (mks sys : List String) (method : String) (t : Target) (parentRef : OwnerRef) (o des : J) :
    C12.childReqs mks sys method t parentRef (some o) des = renderList t (updateAct mks sys method o des) := by
  unfold C12.childReqs renderList
  dsimp only
  cases updateAct mks sys method o des <;> rfl

theorem childReqs_target (mks sys : List String) (method : String) (t : Target) (parentRef : OwnerRef) (obs : Option J) (des : J) :
    ∀ r ∈ C12.childReqs mks sys method t parentRef obs des, r.target? = some t := by
  intro r hr
  unfold C12.childReqs at hr
  cases obs with
  | none => simp at hr; subst hr; rfl
  | some o =>
    simp only [] at hr
    cases h : updateAct mks sys method o des <;> simp [h] at hr <;> subst hr <;> rfl

theorem filter_eq_self_of_all {α : Type} (p : α → Bool) : ∀ (l : List α), (∀ x ∈ l, p x = true) → l.filter p = l := by
  intro l h
  exact List.filter_eq_self.mpr h

theorem filter_eq_nil_of_none {α : Type} (p : α → Bool) (l : List α) (h : ∀ x ∈ l, p x = false) : l.filter p = [] := by
  refine List.filter_eq_nil_iff.mpr ?_
  intro x hx
  simp [h x hx]

/-- the requests of the loop that are addressed to the target of `(name, des)`: its rendering if it is in the list, none otherwise -/
theorem updateGroupReqs_on_target (mks sys : List String) (children : List ChildRes) (info : KindInfo) (kind : String)
    (parentRef : OwnerRef) (observed : List (String × J)) (name : String) (des obs : J)
    (hobs : observed.lookup name = some obs) :
    ∀ (desired : List (String × J)), (desired.map (·.1)).Nodup →
      (∀ nd ∈ desired, tgt info nd.2 = tgt info des → nd = (name, des)) →
      ((name, des) ∈ desired →
        (C12.updateGroupReqs mks sys children info kind parentRef observed desired).filter (fun r => r.target? = some (tgt info des)) =
          renderList (tgt info des) (updateAct mks sys (getMethod children info.group kind) obs des)) ∧
      ((name, des) ∉ desired →
        (C12.updateGroupReqs mks sys children info kind parentRef observed desired).filter (fun r => r.target? = some (tgt info des)) = []) := by
  intro desired
  induction desired with
  | nil => intro _ _; exact ⟨fun h => (by cases h), fun _ => rfl⟩
  | cons nd rest ih =>
    intro hn hdist
    obtain ⟨n', d'⟩ := nd
    simp only [List.map_cons, List.nodup_cons] at hn
    obtain ⟨hnot, hrest⟩ := hn
    obtain ⟨ih1, ih2⟩ := ih hrest (fun nd hnd => hdist nd (List.mem_cons_of_mem _ hnd))
    rw [C12.updateGroupReqs, List.filter_append]
    by_cases ht : tgt info d' = tgt info des
    · have heq := hdist (n', d') (List.mem_cons_self ..) ht
      cases heq
      have hnr : (name, des) ∉ rest := fun h => hnot (List.mem_map.mpr ⟨(name, des), h, rfl⟩)
      refine ⟨fun _ => ?_, fun h => absurd (List.mem_cons_self ..) h⟩
      rw [ih2 hnr, List.nil_append, hobs, childReqs_some]
      refine filter_eq_self_of_all _ _ ?_
      intro r hr
      rw [← childReqs_some mks sys _ _ parentRef] at hr
      simpa using childReqs_target _ _ _ _ _ _ _ r hr
    · have hne : (n', d') ≠ (name, des) := by rintro h; cases h; exact ht rfl
      have hnil : (C12.childReqs mks sys (getMethod children info.group kind) (tgt info d') parentRef (observed.lookup n') d').filter
          (fun r => r.target? = some (tgt info des)) = [] := by
        refine filter_eq_nil_of_none _ _ ?_
        intro r hr
        have := childReqs_target _ _ _ _ _ _ _ r hr
        simp only [this, decide_eq_false_iff_not]
        intro h
        exact ht (Option.some.inj h)
      rw [hnil, List.append_nil]
      constructor
      · intro h
        rcases List.mem_cons.mp h with h | h
        · exact absurd h.symm hne
        · exact ih1 h
      · intro h
        exact ih2 (fun h' => h (List.mem_cons_of_mem _ h'))

/-- **C06_lift, exact form**: on every branch `updateChildren` issues one and the same request list, and its requests addressed
    to the target of an observed desired child are exactly the rendering of the decision taken for it:
    none for `.none` / `.error`, the one UID-guarded delete for `.delete uid`, the one update for `.update body` -/
theorem C06_lift_exact (mks sys : List String) (children : List ChildRes) (info : KindInfo) (kind : String)
    (parentRef : OwnerRef) (observed desired : List (String × J)) (memo : Memo) (name : String) (des obs : J)
    (hobs : observed.lookup name = some obs) (hmem : (name, des) ∈ desired) (hn : (desired.map (·.1)).Nodup)
    (hdist : ∀ nd ∈ desired, tgt info nd.2 = tgt info des → nd = (name, des)) :
    ∃ rs, Issues rs (updateGroup mks sys children none info kind parentRef observed desired memo) ∧
      rs.filter (fun r => r.target? = some (tgt info des)) =
        renderList (tgt info des) (updateAct mks sys (getMethod children info.group kind) obs des) :=
  ⟨_, C12.updateGroup_issues mks sys children info kind parentRef observed desired memo,
    (updateGroupReqs_on_target mks sys children info kind parentRef observed name des obs hobs desired hn hdist).1 hmem⟩

/-! ### non-vacuity -/

def exInfo : KindInfo := { group := "", resource := "configmaps", namespaced := true }
def exRef : OwnerRef :=
  { apiVersion := "ex/v1", kind := "P", name := "p", uid := "u-p", controller := some true, blockOwnerDeletion := some true }
def exObs : J := .obj [("apiVersion", .str "v1"), ("kind", .str "ConfigMap"),
  ("metadata", .obj [("name", .str "a"), ("namespace", .str "ns"), ("uid", .str "u-a")]), ("data", .obj [("k", .str "v1")])]
def exDes : J := .obj [("apiVersion", .str "v1"), ("kind", .str "ConfigMap"),
  ("metadata", .obj [("name", .str "a"), ("namespace", .str "ns")]), ("data", .obj [("k", .str "v2")])]
def exDes2 : J := .obj [("apiVersion", .str "v1"), ("kind", .str "ConfigMap"),
  ("metadata", .obj [("name", .str "b"), ("namespace", .str "ns")])]

-- the hypotheses of `C06_lift` hold for a two-children group keyed by qualified names
example (mks sys : List String) (children : List ChildRes) (memo : Memo) :
    AllCalls (fun r => r.target? = some (tgt exInfo exDes) →
        RenderOf (tgt exInfo exDes) (updateAct mks sys (getMethod children exInfo.group "ConfigMap") exObs exDes) r)
      (updateGroup mks sys children none exInfo "ConfigMap" exRef [("ns/a", exObs)] [("ns/a", exDes), ("ns/b", exDes2)] memo) := by
  refine C06_lift mks sys children exInfo "ConfigMap" exRef _ _ memo "ns/a" exDes exObs rfl ?_
  intro nd hnd ht
  exact C06_distinct_targets exInfo [("ns/a", exDes), ("ns/b", exDes2)] (by decide)
    (by intro x hx; simp at hx; rcases hx with rfl | rfl <;> decide) rfl nd hnd _ (List.mem_cons_self ..) ht

-- and the rendering is a real request: with no strategy configured (OnDelete) nothing is sent to the observed child,
-- the missing one is created
example : ∃ k, updateGroup ["name"] ["uid"] [] none exInfo "ConfigMap" exRef [("ns/a", exObs)] [("ns/a", exDes), ("ns/b", exDes2)] [] =
    .call (.api .create ⟨"", "configmaps", "ns", "b"⟩ (createBody exRef exDes2) .null) k ∧ k (.obj .null) = .ret ([], []) :=
  ⟨_, rfl, rfl⟩

-- under InPlace the step for the observed child is the update with the merged body
example : ∃ body k, updateAct ["name"] ["uid"] "InPlace" exObs exDes = .update body ∧
    childStep ["name"] ["uid"] "InPlace" (tgt exInfo exDes) exRef (some exObs) exDes = .call (.api .update ⟨"", "configmaps", "ns", "a"⟩ body .null) k :=
  ⟨_, _, rfl, rfl⟩

end Mc.C06
