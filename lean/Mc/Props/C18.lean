import Mc.Informer
/-
  C18 - shared informers live while subscribed to; subscribers are isolated. Theorems about the state machine of
  `Mc/Informer.lean` (tied to the real factory by the informer correspondence run), for every operation sequence.
-/
namespace Mc.C18
open Mc.Inf

/-- identifiers are positions; every subscription points at an existing informer -/
def WF (s : State) : Prop :=
  (∀ (k : Nat) (i : Inst), s.insts[k]? = some i → i.id = k) ∧
  (∀ (k : Nat) (sb : Sub), s.subs[k]? = some sb → sb.id = k) ∧
  (∀ sb ∈ s.subs, sb.inst < s.insts.length)

/-- the reference-counting invariant -/
def Inv (s : State) : Prop :=
  WF s ∧
  -- an informer runs exactly while some subscription to it is open
  (∀ i ∈ s.insts, (i.running = true ↔ 0 < s.openOn i.id)) ∧
  -- at most one running informer per resource
  (∀ i ∈ s.insts, ∀ j ∈ s.insts, i.running = true → j.running = true → i.res = j.res → i.id = j.id) ∧
  -- a subscription is attached to an informer of the resource it asked for, and handlers name existing subscriptions of that informer
  (∀ i ∈ s.insts, ∀ sh ∈ i.handlers, ∃ sb ∈ s.subs, sb.id = sh.1 ∧ sb.inst = i.id)

/-! ### lists whose keys are positions -/

theorem uniq_of_pos {α : Type} (key : α → Nat) (l : List α)
    (hpos : ∀ (k : Nat) (a : α), l[k]? = some a → key a = k) :
    ∀ a ∈ l, ∀ b ∈ l, key a = key b → a = b := by
  intro a ha b hb hab
  obtain ⟨i, hi⟩ := List.mem_iff_getElem?.1 ha
  obtain ⟨j, hj⟩ := List.mem_iff_getElem?.1 hb
  have h1 := hpos i a hi
  have h2 := hpos j b hj
  have hij : i = j := by omega
  subst hij
  rw [hi] at hj
  exact Option.some.inj hj

theorem key_lt_of_pos {α : Type} (key : α → Nat) (l : List α)
    (hpos : ∀ (k : Nat) (a : α), l[k]? = some a → key a = k) :
    ∀ a ∈ l, key a < l.length := by
  intro a ha
  obtain ⟨i, hi⟩ := List.mem_iff_getElem?.1 ha
  have h1 := hpos i a hi
  have h2 := (List.getElem?_eq_some_iff.1 hi).1
  omega

theorem getElem?_of_pos {α : Type} (key : α → Nat) (l : List α)
    (hpos : ∀ (k : Nat) (a : α), l[k]? = some a → key a = k) :
    ∀ a ∈ l, l[key a]? = some a := by
  intro a ha
  obtain ⟨i, hi⟩ := List.mem_iff_getElem?.1 ha
  have h1 := hpos i a hi
  rw [h1]; exact hi

theorem find?_of_pos {α : Type} (key : α → Nat) (l : List α)
    (hpos : ∀ (k : Nat) (a : α), l[k]? = some a → key a = k) (k : Nat) (a : α) (h : l[k]? = some a) :
    l.find? (fun x => key x == k) = some a := by
  have ha : a ∈ l := List.mem_of_getElem? h
  have hk := hpos k a h
  cases hf : l.find? (fun x => key x == k) with
  | none =>
    have h0 := List.find?_eq_none.1 hf a ha
    simp [hk] at h0
  | some b =>
    have hb := List.mem_of_find?_eq_some hf
    have hbk := List.find?_some hf
    have hbk' : key b = k := by simpa using hbk
    rw [uniq_of_pos key l hpos b hb a ha (by omega)]

theorem pos_append {α : Type} (key : α → Nat) (l : List α) (a : α)
    (hpos : ∀ (k : Nat) (x : α), l[k]? = some x → key x = k) (ha : key a = l.length) :
    ∀ (k : Nat) (x : α), (l ++ [a])[k]? = some x → key x = k := by
  intro k x hx
  have hlt : k < (l ++ [a]).length := (List.getElem?_eq_some_iff.1 hx).1
  rw [List.length_append, List.length_singleton] at hlt
  rw [List.getElem?_append] at hx
  split at hx
  · exact hpos k x hx
  · have hk : k = l.length := by omega
    subst hk
    simp at hx
    subst hx
    exact ha

theorem pos_map {α : Type} (key : α → Nat) (l : List α) (g : α → α) (hg : ∀ x, key (g x) = key x)
    (hpos : ∀ (k : Nat) (x : α), l[k]? = some x → key x = k) :
    ∀ (k : Nat) (x : α), (l.map g)[k]? = some x → key x = k := by
  intro k x hx
  rw [List.getElem?_map] at hx
  cases hl : l[k]? with
  | none => rw [hl] at hx; cases hx
  | some y =>
    rw [hl] at hx
    have : g y = x := Option.some.inj hx
    rw [← this, hg]; exact hpos k y hl

/-! ### open subscriptions as a proposition -/

def openP (subs : List Sub) (k : Nat) : Prop := ∃ sb ∈ subs, sb.inst = k ∧ sb.open = true

theorem openOn_pos_iff (s : State) (k : Nat) : 0 < s.openOn k ↔ openP s.subs k := by
  unfold State.openOn openP
  rw [List.length_pos_iff_exists_mem]
  simp only [List.mem_filter, Bool.and_eq_true, beq_iff_eq]

theorem openOn_eq_zero_iff (s : State) (k : Nat) : s.openOn k = 0 ↔ ¬ openP s.subs k := by
  rw [← openOn_pos_iff]; omega

theorem openP_append (subs : List Sub) (n : Sub) (k : Nat) :
    openP (subs ++ [n]) k ↔ openP subs k ∨ (n.inst = k ∧ n.open = true) := by
  unfold openP
  constructor
  · rintro ⟨sb, hm, h1, h2⟩
    rcases List.mem_append.1 hm with hm | hm
    · exact Or.inl ⟨sb, hm, h1, h2⟩
    · have : sb = n := by simpa using hm
      subst this; exact Or.inr ⟨h1, h2⟩
  · rintro (⟨sb, hm, h1, h2⟩ | ⟨h1, h2⟩)
    · exact ⟨sb, List.mem_append_left _ hm, h1, h2⟩
    · exact ⟨n, List.mem_append_right _ (List.mem_singleton.2 rfl), h1, h2⟩

/-- the second conjunct of `Inv`, in terms of `openP` -/
theorem inv2_iff (s : State) :
    (∀ i ∈ s.insts, (i.running = true ↔ 0 < s.openOn i.id)) ↔ (∀ i ∈ s.insts, (i.running = true ↔ openP s.subs i.id)) := by
  constructor
  · intro h i hi; rw [← openOn_pos_iff]; exact h i hi
  · intro h i hi; rw [openOn_pos_iff]; exact h i hi

theorem inv_init (store : List (Nat × List String)) : Inv { store := store } := by
  refine ⟨⟨?_, ?_, ?_⟩, ?_, ?_, ?_⟩
  · intro k i h; simp at h
  · intro k i h; simp at h
  · intro sb h; cases h
  · intro sb h; cases h
  · intro sb h; cases h
  · intro sb h; cases h

/-! ### subscribe -/

theorem inv_subscribe_shared (s : State) (h : Inv s) (i : Inst) (him : i ∈ s.insts) (hrun : i.running = true) :
    Inv { s with subs := s.subs ++ [{ id := s.subs.length, inst := i.id, «open» := true }] } := by
  obtain ⟨⟨hi, hs, hlt⟩, h2, h3, h4⟩ := h
  rw [inv2_iff] at h2
  refine ⟨⟨hi, pos_append Sub.id _ _ hs rfl, ?_⟩, (inv2_iff _).2 ?_, h3, ?_⟩
  · intro sb hm
    rcases List.mem_append.1 hm with hm | hm
    · exact hlt sb hm
    · have : sb = _ := List.mem_singleton.1 hm
      subst this; exact key_lt_of_pos Inst.id _ hi i him
  · intro j hj
    show j.running = true ↔ openP (s.subs ++ [_]) j.id
    rw [openP_append]
    constructor
    · intro hr; exact Or.inl ((h2 j hj).1 hr)
    · rintro (hp | ⟨h1, _⟩)
      · exact (h2 j hj).2 hp
      · have : i = j := uniq_of_pos Inst.id _ hi i him j hj h1
        subst this; exact hrun
  · intro j hj sh hsh
    obtain ⟨sb, hm, h1, h2⟩ := h4 j hj sh hsh
    exact ⟨sb, List.mem_append_left _ hm, h1, h2⟩

theorem inv_subscribe_fresh (s : State) (h : Inv s) (res : Nat) (c : List String) (hnone : s.runningInst res = none) :
    Inv { s with insts := s.insts ++ [{ id := s.insts.length, res := res, running := true, cache := c, handlers := [] }],
                 subs := s.subs ++ [{ id := s.subs.length, inst := s.insts.length, «open» := true }] } := by
  obtain ⟨⟨hi, hs, hlt⟩, h2, h3, h4⟩ := h
  rw [inv2_iff] at h2
  have hno : ∀ j ∈ s.insts, j.running = true → j.res ≠ res := by
    intro j hj hr hres
    have := List.find?_eq_none.1 hnone j hj
    simp [hr, hres] at this
  refine ⟨⟨pos_append Inst.id _ _ hi rfl, pos_append Sub.id _ _ hs rfl, ?_⟩, (inv2_iff _).2 ?_, ?_, ?_⟩
  · intro sb hm
    show sb.inst < (s.insts ++ [_]).length
    rw [List.length_append, List.length_singleton]
    rcases List.mem_append.1 hm with hm | hm
    · exact Nat.lt_succ_of_lt (hlt sb hm)
    · have : sb = _ := List.mem_singleton.1 hm
      subst this; exact Nat.lt_succ_self _
  · intro j hj
    show j.running = true ↔ openP (s.subs ++ [_]) j.id
    rw [openP_append]
    rcases List.mem_append.1 hj with hj | hj
    · have hjl := key_lt_of_pos Inst.id _ hi j hj
      constructor
      · intro hr; exact Or.inl ((h2 j hj).1 hr)
      · rintro (hp | ⟨h1, _⟩)
        · exact (h2 j hj).2 hp
        · exfalso; simp only at h1; omega
    · have : j = _ := List.mem_singleton.1 hj
      subst this
      exact ⟨fun _ => Or.inr ⟨rfl, rfl⟩, fun _ => rfl⟩
  · intro a ha b hb hra hrb hab
    rcases List.mem_append.1 ha with ha | ha <;> rcases List.mem_append.1 hb with hb | hb
    · exact h3 a ha b hb hra hrb hab
    · have : b = _ := List.mem_singleton.1 hb
      subst this; exact absurd hab (hno a ha hra)
    · have : a = _ := List.mem_singleton.1 ha
      subst this; exact absurd hab.symm (hno b hb hrb)
    · have : a = _ := List.mem_singleton.1 ha
      have : b = _ := List.mem_singleton.1 hb
      subst a b; rfl
  · intro j hj sh hsh
    rcases List.mem_append.1 hj with hj | hj
    · obtain ⟨sb, hm, h1, h2⟩ := h4 j hj sh hsh
      exact ⟨sb, List.mem_append_left _ hm, h1, h2⟩
    · have : j = _ := List.mem_singleton.1 hj
      subst this; cases hsh


/-! ### `updInst` -/

theorem updF_proj {β : Type} (p : Inst → β) (k : Nat) (f : Inst → Inst) (hp : ∀ j, p (f j) = p j) (j : Inst) :
    p (if j.id == k then f j else j) = p j := by
  split
  · exact hp j
  · rfl

theorem mem_updInst (l : List Inst) (k : Nat) (f : Inst → Inst) (j' : Inst) (h : j' ∈ updInst l k f) :
    ∃ j ∈ l, (j.id = k ∧ j' = f j) ∨ (j.id ≠ k ∧ j' = j) := by
  unfold updInst at h
  obtain ⟨j, hj, rfl⟩ := List.mem_map.1 h
  refine ⟨j, hj, ?_⟩
  by_cases hk : j.id = k
  · left; refine ⟨hk, ?_⟩; rw [if_pos]; simpa using hk
  · right; refine ⟨hk, ?_⟩; rw [if_neg]; simpa using hk

/-- rewriting the informers by a map that keeps identity, resource and the running flag keeps the invariant -/
theorem inv_map_insts (s : State) (h : Inv s) (g : Inst → Inst) (st : List (Nat × List String))
    (hid : ∀ j, (g j).id = j.id) (hres : ∀ j, (g j).res = j.res) (hrun : ∀ j, (g j).running = j.running)
    (hh : ∀ j ∈ s.insts, ∀ sh ∈ (g j).handlers, ∃ sb ∈ s.subs, sb.id = sh.1 ∧ sb.inst = j.id) :
    Inv { insts := s.insts.map g, subs := s.subs, store := st } := by
  obtain ⟨⟨hi, hs, hlt⟩, h2, h3, h4⟩ := h
  rw [inv2_iff] at h2
  refine ⟨⟨pos_map Inst.id _ g hid hi, hs, ?_⟩, (inv2_iff _).2 ?_, ?_, ?_⟩
  · intro sb hm
    show sb.inst < (s.insts.map g).length
    rw [List.length_map]; exact hlt sb hm
  · intro j' hj'
    obtain ⟨j, hj, rfl⟩ := List.mem_map.1 hj'
    show (g j).running = true ↔ openP s.subs (g j).id
    rw [hrun, hid]; exact h2 j hj
  · intro a' ha' b' hb'
    obtain ⟨a, ha, rfl⟩ := List.mem_map.1 ha'
    obtain ⟨b, hb, rfl⟩ := List.mem_map.1 hb'
    rw [hrun, hrun, hres, hres, hid, hid]
    exact h3 a ha b hb
  · intro j' hj' sh hsh
    obtain ⟨j, hj, rfl⟩ := List.mem_map.1 hj'
    rw [hid]; exact hh j hj sh hsh

/-! ### close -/

/-- what `close sub` does to one subscription -/
def closeF (sub : Nat) (x : Sub) : Sub := if x.id == sub then { x with «open» := false } else x

theorem closeF_of_ne (sub : Nat) (x : Sub) (h : x.id ≠ sub) : closeF sub x = x := by
  unfold closeF; rw [if_neg]; simpa using h

theorem closeF_of_eq (sub : Nat) (x : Sub) (h : x.id = sub) : closeF sub x = { x with «open» := false } := by
  unfold closeF; rw [if_pos]; simpa using h

theorem closeF_id (sub : Nat) (x : Sub) : (closeF sub x).id = x.id := by
  unfold closeF; split <;> rfl

theorem closeF_inst (sub : Nat) (x : Sub) : (closeF sub x).inst = x.inst := by
  unfold closeF; split <;> rfl

theorem openP_close_imp (subs : List Sub) (sub k : Nat) (h : openP (subs.map (closeF sub)) k) :
    ∃ x ∈ subs, x.id ≠ sub ∧ x.inst = k ∧ x.open = true := by
  obtain ⟨y, hy, h1, h2⟩ := h
  obtain ⟨x, hx, rfl⟩ := List.mem_map.1 hy
  by_cases hxs : x.id = sub
  · rw [closeF_of_eq _ _ hxs] at h2; simp at h2
  · rw [closeF_of_ne _ _ hxs] at h1 h2; exact ⟨x, hx, hxs, h1, h2⟩

theorem openP_close_of (subs : List Sub) (sub k : Nat) (h : openP subs k)
    (hne : ∀ x ∈ subs, x.id = sub → x.inst ≠ k) : openP (subs.map (closeF sub)) k := by
  obtain ⟨x, hx, h1, h2⟩ := h
  have hxs : x.id ≠ sub := fun e => hne x hx e h1
  exact ⟨closeF sub x, List.mem_map.2 ⟨x, hx, rfl⟩, by rw [closeF_of_ne _ _ hxs]; exact h1,
    by rw [closeF_of_ne _ _ hxs]; exact h2⟩

/-- informers other than the one `sub` is attached to do not notice the close -/
theorem close_other (s : State) (h : Inv s) (sub : Nat) (sb : Sub) (hsb : sb ∈ s.subs) (hid : sb.id = sub)
    (j : Inst) (hj : j ∈ s.insts) (hne : j.id ≠ sb.inst) :
    (j.running = true ↔ openP (s.subs.map (closeF sub)) j.id) := by
  obtain ⟨⟨hi, hs, hlt⟩, h2, h3, h4⟩ := h
  rw [inv2_iff] at h2
  constructor
  · intro hr
    refine openP_close_of _ _ _ ((h2 j hj).1 hr) ?_
    intro x hx hxs hxi
    have : x = sb := uniq_of_pos Sub.id _ hs x hx sb hsb (by omega)
    subst this; exact hne hxi.symm
  · intro hp
    obtain ⟨x, hx, _, h1, h2'⟩ := openP_close_imp _ _ _ hp
    exact (h2 j hj).2 ⟨x, hx, h1, h2'⟩

theorem inv_close_gen (s : State) (h : Inv s) (sub : Nat) (g : Inst → Inst)
    (hid : ∀ j, (g j).id = j.id) (hres : ∀ j, (g j).res = j.res) (hh : ∀ j, (g j).handlers = j.handlers)
    (hrun : ∀ j, (g j).running = true → j.running = true)
    (h2' : ∀ j ∈ s.insts, ((g j).running = true ↔ openP (s.subs.map (closeF sub)) j.id)) :
    Inv { insts := s.insts.map g, subs := s.subs.map (closeF sub), store := s.store } := by
  obtain ⟨⟨hi, hs, hlt⟩, h2, h3, h4⟩ := h
  refine ⟨⟨pos_map Inst.id _ g hid hi, pos_map Sub.id _ _ (closeF_id sub) hs, ?_⟩, (inv2_iff _).2 ?_, ?_, ?_⟩
  · intro y hy
    obtain ⟨x, hx, rfl⟩ := List.mem_map.1 hy
    show (closeF sub x).inst < (s.insts.map g).length
    rw [List.length_map, closeF_inst]; exact hlt x hx
  · intro j' hj'
    obtain ⟨j, hj, rfl⟩ := List.mem_map.1 hj'
    show (g j).running = true ↔ openP (s.subs.map (closeF sub)) (g j).id
    rw [hid]; exact h2' j hj
  · intro a' ha' b' hb'
    obtain ⟨a, ha, rfl⟩ := List.mem_map.1 ha'
    obtain ⟨b, hb, rfl⟩ := List.mem_map.1 hb'
    intro hra hrb
    rw [hres, hres, hid, hid]
    exact h3 a ha b hb (hrun a hra) (hrun b hrb)
  · intro j' hj' sh hsh
    obtain ⟨j, hj, rfl⟩ := List.mem_map.1 hj'
    rw [hh] at hsh
    obtain ⟨x, hx, h1, h2x⟩ := h4 j hj sh hsh
    refine ⟨closeF sub x, List.mem_map.2 ⟨x, hx, rfl⟩, ?_, ?_⟩
    · rw [closeF_id]; exact h1
    · rw [closeF_inst, hid]; exact h2x

theorem inv_close_keep (s : State) (h : Inv s) (sub : Nat) (sb : Sub) (hsb : sb ∈ s.subs) (hid : sb.id = sub)
    (hp : openP (s.subs.map (closeF sub)) sb.inst) :
    Inv { s with subs := s.subs.map (closeF sub) } := by
  have hI := h
  obtain ⟨⟨hi, hs, hlt⟩, h2, h3, h4⟩ := h
  rw [inv2_iff] at h2
  have := inv_close_gen s hI sub id (fun _ => rfl) (fun _ => rfl) (fun _ => rfl) (fun _ hr => hr) (by
    intro j hj
    by_cases hne : j.id = sb.inst
    · constructor
      · intro _; rw [hne]; exact hp
      · intro hp'
        obtain ⟨x, hx, _, h1, h2'⟩ := openP_close_imp _ _ _ hp'
        exact (h2 j hj).2 ⟨x, hx, h1, h2'⟩
    · exact close_other s hI sub sb hsb hid j hj hne)
  rw [List.map_id] at this
  exact this

theorem inv_close_stop (s : State) (h : Inv s) (sub : Nat) (sb : Sub) (hsb : sb ∈ s.subs) (hid : sb.id = sub)
    (hp : ¬ openP (s.subs.map (closeF sub)) sb.inst) :
    Inv { insts := updInst s.insts sb.inst (fun i => { i with running := false }),
          subs := s.subs.map (closeF sub), store := s.store } := by
  refine inv_close_gen s h sub (fun i => if i.id == sb.inst then { i with running := false } else i)
    (updF_proj Inst.id _ _ (fun _ => rfl)) (updF_proj Inst.res _ _ (fun _ => rfl))
    (updF_proj Inst.handlers _ _ (fun _ => rfl)) ?_ ?_
  · intro j hr
    by_cases hk : j.id = sb.inst
    · rw [if_pos (by simpa using hk)] at hr; simp at hr
    · rw [if_neg (by simpa using hk)] at hr; exact hr
  · intro j hj
    by_cases hk : j.id = sb.inst
    · rw [if_pos (by simpa using hk), hk]
      constructor
      · intro hr; simp at hr
      · intro hp'; exact absurd hp' hp
    · rw [if_neg (by simpa using hk)]
      exact close_other s h sub sb hsb hid j hj hk

theorem find?_sub_some (s : State) (sub : Nat) (sb : Sub) (hf : s.subs.find? (·.id == sub) = some sb) :
    sb ∈ s.subs ∧ sb.id = sub :=
  ⟨List.mem_of_find?_eq_some hf, by simpa using List.find?_some hf⟩

theorem step_close_none (s : State) (sub : Nat) (hf : s.subs.find? (·.id == sub) = none) :
    step s (.close sub) = (s, {}) := by
  simp only [step, hf]

theorem step_close_closed (s : State) (sub : Nat) (sb : Sub) (hf : s.subs.find? (·.id == sub) = some sb)
    (ho : sb.open = false) : step s (.close sub) = (s, {}) := by
  simp only [step, hf, ho]; rfl

theorem step_close_keep (s : State) (sub : Nat) (sb : Sub) (hf : s.subs.find? (·.id == sub) = some sb)
    (ho : sb.open = true) (hp : openP (s.subs.map (closeF sub)) sb.inst) :
    step s (.close sub) = ({ s with subs := s.subs.map (closeF sub) }, {}) := by
  have hz : ¬ ({ s with subs := s.subs.map (closeF sub) } : State).openOn sb.inst = 0 := by
    rw [openOn_eq_zero_iff]; exact fun hn => hn hp
  have hz' : (({ s with subs := s.subs.map (closeF sub) } : State).openOn sb.inst == 0) = false := by
    simpa using hz
  unfold closeF at hz'
  simp only [step, hf, ho]
  simp only [hz']
  rfl

theorem step_close_stop (s : State) (sub : Nat) (sb : Sub) (hf : s.subs.find? (·.id == sub) = some sb)
    (ho : sb.open = true) (hp : ¬ openP (s.subs.map (closeF sub)) sb.inst) :
    step s (.close sub) =
      ({ insts := updInst s.insts sb.inst (fun i => { i with running := false }),
         subs := s.subs.map (closeF sub), store := s.store },
       { stopped := (s.insts.find? (·.id == sb.inst)).map (·.res) }) := by
  have hz : ({ s with subs := s.subs.map (closeF sub) } : State).openOn sb.inst = 0 := by
    rw [openOn_eq_zero_iff]; exact hp
  have hz' : (({ s with subs := s.subs.map (closeF sub) } : State).openOn sb.inst == 0) = true := by
    simpa using hz
  unfold closeF at hz'
  simp only [step, hf, ho]
  simp only [hz']
  rfl

theorem inv_close (s : State) (h : Inv s) (sub : Nat) : Inv (step s (.close sub)).1 := by
  cases hf : s.subs.find? (·.id == sub) with
  | none => rw [step_close_none s sub hf]; exact h
  | some sb =>
    obtain ⟨hsb, hid⟩ := find?_sub_some s sub sb hf
    cases ho : sb.open with
    | false => rw [step_close_closed s sub sb hf ho]; exact h
    | true =>
      by_cases hp : openP (s.subs.map (closeF sub)) sb.inst
      · rw [step_close_keep s sub sb hf ho hp]; exact inv_close_keep s h sub sb hsb hid hp
      · rw [step_close_stop s sub sb hf ho hp]; exact inv_close_stop s h sub sb hsb hid hp

/-! ### handlers -/

theorem instOfSub_some (s : State) (sub : Nat) (i : Inst) (h : s.instOfSub sub = some i) :
    ∃ sb ∈ s.subs, sb.id = sub ∧ i ∈ s.insts ∧ i.id = sb.inst := by
  unfold State.instOfSub at h
  cases hf : s.subs.find? (·.id == sub) with
  | none => rw [hf] at h; simp at h
  | some sb =>
    rw [hf] at h
    have h' : s.insts.find? (·.id == sb.inst) = some i := h
    obtain ⟨hsb, hid⟩ := find?_sub_some s sub sb hf
    exact ⟨sb, hsb, hid, List.mem_of_find?_eq_some h', by simpa using List.find?_some h'⟩

/-- under `WF` a subscription resolves to the informer at the position it names -/
theorem instOfSub_of_mem (s : State) (h : WF s) (sb : Sub) (hsb : sb ∈ s.subs) :
    ∃ i, s.insts[sb.inst]? = some i ∧ s.instOfSub sb.id = some i := by
  obtain ⟨hi, hs, hlt⟩ := h
  have hl := hlt sb hsb
  refine ⟨s.insts[sb.inst], List.getElem?_eq_getElem hl, ?_⟩
  unfold State.instOfSub
  rw [find?_of_pos Sub.id _ hs sb.id sb (getElem?_of_pos Sub.id _ hs sb hsb)]
  show s.insts.find? (·.id == sb.inst) = _
  exact find?_of_pos Inst.id _ hi sb.inst _ (List.getElem?_eq_getElem hl)

theorem inv_addHandler (s : State) (h : Inv s) (sub hd : Nat) : Inv (step s (.addHandler sub hd)).1 := by
  cases hi : s.instOfSub sub with
  | none => simp only [step, hi]; exact h
  | some i =>
    simp only [step, hi]
    obtain ⟨sb, hsb, hid, him, hii⟩ := instOfSub_some s sub i hi
    refine inv_map_insts s h (fun j => if j.id == i.id then { j with handlers := j.handlers ++ [(sub, hd)] } else j) s.store
      (updF_proj Inst.id _ _ (fun _ => rfl)) (updF_proj Inst.res _ _ (fun _ => rfl))
      (updF_proj Inst.running _ _ (fun _ => rfl)) ?_
    intro j hj sh hsh
    by_cases hk : j.id = i.id
    · rw [if_pos (by simpa using hk)] at hsh
      rcases List.mem_append.1 hsh with hsh | hsh
      · exact h.2.2.2 j hj sh hsh
      · have : sh = (sub, hd) := List.mem_singleton.1 hsh
        subst this
        exact ⟨sb, hsb, hid, by omega⟩
    · rw [if_neg (by simpa using hk)] at hsh
      exact h.2.2.2 j hj sh hsh

theorem inv_removeHandlers (s : State) (h : Inv s) (sub : Nat) : Inv (step s (.removeHandlers sub)).1 := by
  cases hi : s.instOfSub sub with
  | none => simp only [step, hi]; exact h
  | some i =>
    simp only [step, hi]
    refine inv_map_insts s h (fun j => if j.id == i.id then { j with handlers := j.handlers.filter (·.1 != sub) } else j) s.store
      (updF_proj Inst.id _ _ (fun _ => rfl)) (updF_proj Inst.res _ _ (fun _ => rfl))
      (updF_proj Inst.running _ _ (fun _ => rfl)) ?_
    intro j hj sh hsh
    by_cases hk : j.id = i.id
    · rw [if_pos (by simpa using hk)] at hsh
      exact h.2.2.2 j hj sh (List.mem_filter.1 hsh).1
    · rw [if_neg (by simpa using hk)] at hsh
      exact h.2.2.2 j hj sh hsh

theorem inv_store (s : State) (h : Inv s) (st : List (Nat × List String)) : Inv { s with store := st } := h

theorem inv_event (s : State) (h : Inv s) (res : Nat) (typ name : String) : Inv (step s (.event res typ name)).1 := by
  cases hr : s.runningInst res with
  | none => simp only [step, hr]; exact inv_store s h _
  | some i =>
    simp only [step, hr]
    refine inv_map_insts s h (fun j => if j.id == i.id then { j with cache := _ } else j) _
      (updF_proj Inst.id _ _ (fun _ => rfl)) (updF_proj Inst.res _ _ (fun _ => rfl))
      (updF_proj Inst.running _ _ (fun _ => rfl)) ?_
    intro j hj sh hsh
    split at hsh <;> exact h.2.2.2 j hj sh hsh

theorem inv_subscribe (s : State) (h : Inv s) (res : Nat) : Inv (step s (.subscribe res)).1 := by
  cases hr : s.runningInst res with
  | some i =>
    have him : i ∈ s.insts := List.mem_of_find?_eq_some hr
    have hp := List.find?_some hr
    have hrun : i.running = true := by
      simp only [Bool.and_eq_true] at hp; exact hp.2
    simp only [step, hr]
    exact inv_subscribe_shared s h i him hrun
  | none =>
    simp only [step, hr]
    exact inv_subscribe_fresh s h res _ hr

theorem inv_step (s : State) (op : Op) (h : Inv s) : Inv (step s op).1 := by
  cases op with
  | subscribe res => exact inv_subscribe s h res
  | close sub => exact inv_close s h sub
  | addHandler sub hd => exact inv_addHandler s h sub hd
  | removeHandlers sub => exact inv_removeHandlers s h sub
  | event res typ name => exact inv_event s h res typ name

theorem run_cons_fst (s : State) (op : Op) (rest : List Op) : (run s (op :: rest)).1 = (run (step s op).1 rest).1 := rfl

theorem inv_run (ops : List Op) : ∀ (s : State), Inv s → Inv (run s ops).1 := by
  induction ops with
  | nil => intro s h; exact h
  | cons op rest ih => intro s h; rw [run_cons_fst]; exact ih _ (inv_step s op h)

/-- the invariant holds after every operation sequence -/
theorem C18_invariant (store : List (Nat × List String)) (ops : List Op) : Inv (run { store := store } ops).1 :=
  inv_run ops _ (inv_init store)

/-- reference count = number of open subscriptions, and it is positive for everything listed -/
theorem C18_refcount (s : State) (h : Inv s) :
    ∀ rc ∈ s.refCounts, 0 < rc.2 ∧ ∃ i ∈ s.insts, i.running = true ∧ i.res = rc.1 ∧ rc.2 = s.openOn i.id := by
  intro rc hrc
  unfold State.refCounts at hrc
  obtain ⟨i, hi, rfl⟩ := List.mem_map.1 hrc
  obtain ⟨him, hr⟩ := List.mem_filter.1 hi
  exact ⟨(h.2.1 i him).1 hr, i, him, hr, rfl, rfl⟩

/-- a first subscription starts a fresh informer: new identity, no handlers, cache = what the server holds -/
theorem C18_fresh_start (s : State) (res : Nat) (h : s.runningInst res = none) :
    (step s (.subscribe res)).2.started = some res ∧
    ∃ i, (step s (.subscribe res)).1.insts = s.insts ++ [i] ∧ i.id = s.insts.length ∧ i.running = true ∧
      i.handlers = [] ∧ i.cache = s.contents res := by
  simp only [step, h]
  exact ⟨trivial, _, rfl, rfl, rfl, rfl, rfl⟩

/-- a further subscription shares the running informer: nothing starts -/
theorem C18_share (s : State) (res : Nat) (i : Inst) (h : s.runningInst res = some i) :
    (step s (.subscribe res)).2.started = none ∧ (step s (.subscribe res)).1.insts = s.insts ∧
    (step s (.subscribe res)).1.subs = s.subs ++ [{ id := s.subs.length, inst := i.id, «open» := true }] := by
  simp only [step, h]
  exact ⟨trivial, trivial, trivial⟩

/-- closing one of several open subscriptions stops nothing -/
theorem C18_close_not_last (s : State) (h : Inv s) (sub : Nat) (sb : Sub) (hs : s.subs[sub]? = some sb) (ho : sb.open = true)
    (other : Sub) (hm : other ∈ s.subs) (hne : other.id ≠ sub) (hoi : other.inst = sb.inst) (hoo : other.open = true) :
    (step s (.close sub)).2.stopped = none ∧ (step s (.close sub)).1.insts = s.insts := by
  have hf : s.subs.find? (·.id == sub) = some sb := find?_of_pos Sub.id _ h.1.2.1 sub sb hs
  have hp : openP (s.subs.map (closeF sub)) sb.inst :=
    ⟨closeF sub other, List.mem_map.2 ⟨other, hm, rfl⟩, by rw [closeF_of_ne _ _ hne]; exact hoi,
      by rw [closeF_of_ne _ _ hne]; exact hoo⟩
  rw [step_close_keep s sub sb hf ho hp]
  exact ⟨rfl, rfl⟩

/-- closing the last open subscription stops the informer -/
theorem C18_close_last (s : State) (h : Inv s) (sub : Nat) (sb : Sub) (hs : s.subs[sub]? = some sb) (ho : sb.open = true)
    (hl : ∀ other ∈ s.subs, other.inst = sb.inst → other.open = true → other.id = sub) :
    ∃ i, s.insts[sb.inst]? = some i ∧ (step s (.close sub)).2.stopped = some i.res ∧
      (step s (.close sub)).1.runningInst i.res = none := by
  have hf : s.subs.find? (·.id == sub) = some sb := find?_of_pos Sub.id _ h.1.2.1 sub sb hs
  obtain ⟨hsb, hid⟩ := find?_sub_some s sub sb hf
  have hp : ¬ openP (s.subs.map (closeF sub)) sb.inst := by
    intro hp
    obtain ⟨x, hx, hxs, h1, h2⟩ := openP_close_imp _ _ _ hp
    exact hxs (hl x hx h1 h2)
  obtain ⟨⟨hi, hss, hlt⟩, h2, h3, h4⟩ := h
  rw [inv2_iff] at h2
  have hlen := hlt sb hsb
  have hget : s.insts[sb.inst]? = some s.insts[sb.inst] := List.getElem?_eq_getElem hlen
  have him : s.insts[sb.inst] ∈ s.insts := List.getElem_mem hlen
  have hiid : s.insts[sb.inst].id = sb.inst := hi _ _ hget
  have hfi : s.insts.find? (·.id == sb.inst) = some s.insts[sb.inst] := find?_of_pos Inst.id _ hi sb.inst _ hget
  have hirun : s.insts[sb.inst].running = true := (h2 _ him).2 ⟨sb, hsb, hiid.symm, ho⟩
  refine ⟨s.insts[sb.inst], hget, ?_, ?_⟩
  · rw [step_close_stop s sub sb hf ho hp, hfi]; rfl
  · rw [step_close_stop s sub sb hf ho hp]
    unfold State.runningInst
    rw [List.find?_eq_none]
    intro j' hj' hcon
    simp only [Bool.and_eq_true, beq_iff_eq] at hcon
    obtain ⟨j, hj, ⟨hk, he⟩ | ⟨hk, he⟩⟩ := mem_updInst _ _ _ _ hj'
    · rw [he] at hcon; exact absurd hcon.2 (by simp)
    · rw [he] at hcon; exact hk ((h3 j hj _ him hcon.2 hirun hcon.1).trans hiid)

/-- a new handler is replayed everything cached, as resync notifications, and nothing else -/
theorem C18_replay_on_add (s : State) (sub hd : Nat) (i : Inst) (h : s.instOfSub sub = some i) :
    (step s (.addHandler sub hd)).2.deliveries = i.cache.map (fun n => (hd, "resync", n)) := by
  simp only [step, h]

/-- an event reaches exactly the handlers registered on the running informer of its resource, once each -/
theorem C18_event_delivery (s : State) (res : Nat) (typ name : String) :
    (step s (.event res typ name)).2.deliveries =
      match s.runningInst res with
      | some i => i.handlers.map (fun sh => (sh.2, (if typ == "create" then "add" else typ), name))
      | none => [] := by
  simp only [step]
  cases h : s.runningInst res <;> rfl

/-- after `removeHandlers sub` no informer holds a handler of `sub` -/
theorem C18_silent_after_remove (s : State) (h : Inv s) (sub : Nat) :
    ∀ i ∈ (step s (.removeHandlers sub)).1.insts, ∀ sh ∈ i.handlers, sh.1 ≠ sub := by
  cases hi : s.instOfSub sub with
  | none =>
    simp only [step, hi]
    intro j hj sh hsh hsub
    obtain ⟨sb, hsb, hid, _⟩ := h.2.2.2 j hj sh hsh
    obtain ⟨i, _, hio⟩ := instOfSub_of_mem s h.1 sb hsb
    rw [hid, hsub, hi] at hio
    cases hio
  | some i =>
    simp only [step, hi]
    obtain ⟨sb0, hsb0, hid0, him, hii⟩ := instOfSub_some s sub i hi
    intro j' hj' sh hsh hsub
    obtain ⟨j, hj, ⟨hk, he⟩ | ⟨hk, he⟩⟩ := mem_updInst _ _ _ _ hj'
    · rw [he] at hsh
      have := (List.mem_filter.1 hsh).2
      simp [hsub] at this
    · rw [he] at hsh
      obtain ⟨sb, hsb, hid, hinst⟩ := h.2.2.2 j hj sh hsh
      have : sb = sb0 := uniq_of_pos Sub.id _ h.1.2.1 sb hsb sb0 hsb0 (by omega)
      subst this
      exact hk (by omega)

theorem map_updInst_filter (l : List Inst) (k : Nat) (f : Inst → Inst) (sub : Nat)
    (hf : ∀ j, (f j).handlers.filter (·.1 != sub) = j.handlers.filter (·.1 != sub)) :
    (updInst l k f).map (fun i => i.handlers.filter (·.1 != sub)) = l.map (fun i => i.handlers.filter (·.1 != sub)) := by
  unfold updInst
  rw [List.map_map]
  apply List.map_congr_left
  intro j _
  exact updF_proj (fun i => i.handlers.filter (·.1 != sub)) k f hf j

-- (`Inv s` is kept in the statement for uniformity; the proof does not need it)
set_option linter.unusedVariables false in
/-- isolation: whatever one subscription does (add a handler, remove its handlers, close), the handlers other
    subscriptions registered stay exactly as they were, on every informer -/
theorem C18_isolation (s : State) (h : Inv s) (sub : Nat) (op : Op)
    (hop : op = .close sub ∨ op = .removeHandlers sub ∨ ∃ hd, op = .addHandler sub hd) :
    ((step s op).1.insts.map (fun i => i.handlers.filter (·.1 != sub))) = (s.insts.map (fun i => i.handlers.filter (·.1 != sub))) := by
  rcases hop with rfl | rfl | ⟨hd, rfl⟩
  · cases hf : s.subs.find? (·.id == sub) with
    | none => rw [step_close_none s sub hf]
    | some sb =>
      cases ho : sb.open with
      | false => rw [step_close_closed s sub sb hf ho]
      | true =>
        by_cases hp : openP (s.subs.map (closeF sub)) sb.inst
        · rw [step_close_keep s sub sb hf ho hp]
        · rw [step_close_stop s sub sb hf ho hp]
          exact map_updInst_filter _ _ _ _ (fun _ => rfl)
  · cases hi : s.instOfSub sub with
    | none => simp only [step, hi]
    | some i =>
      simp only [step, hi]
      refine map_updInst_filter _ _ _ _ (fun j => ?_)
      show (j.handlers.filter (·.1 != sub)).filter (·.1 != sub) = _
      rw [List.filter_filter]
      simp
  · cases hi : s.instOfSub sub with
    | none => simp only [step, hi]
    | some i =>
      simp only [step, hi]
      refine map_updInst_filter _ _ _ _ (fun j => ?_)
      show (j.handlers ++ [(sub, hd)]).filter (·.1 != sub) = _
      rw [List.filter_append]
      simp

/-! ### non-vacuity: one concrete run, checked by evaluation in the kernel -/
section Example

def exState : State := { store := [(0, ["x"])] }

def exOps : List Op :=
  [.subscribe 0, .addHandler 0 7, .subscribe 0, .event 0 "create" "a", .close 0, .removeHandlers 0,
   .event 0 "update" "a", .close 1, .subscribe 0]

/-- first subscribe starts the informer, the second subscribe starts nothing, the last one starts a fresh informer -/
example : (run exState exOps).2.map (·.started) = [some 0, none, none, none, none, none, none, none, some 0] := by decide

/-- `close 0` (one of two open subscriptions) stops nothing, `close 1` (the last one) stops the informer of resource 0 -/
example : (run exState exOps).2.map (·.stopped) = [none, none, none, none, none, none, none, some 0, none] := by decide

/-- handler 7 gets the replay of `x`, then the event on `a`; after `removeHandlers 0` the update reaches nobody -/
example : (run exState exOps).2.map (·.deliveries) =
    [[], [(7, "resync", "x")], [], [(7, "add", "a")], [], [], [], [], []] := by decide

/-- final state: informer 0 stopped, a fresh informer 1 (no handlers, cache = server contents) runs for the last subscription -/
example : (run exState exOps).1.insts =
    [{ id := 0, res := 0, running := false, cache := ["x", "a"], handlers := [] },
     { id := 1, res := 0, running := true, cache := ["x", "a"], handlers := [] }] := by decide

example : (run exState exOps).1.subs =
    [{ id := 0, inst := 0, «open» := false }, { id := 1, inst := 0, «open» := false }, { id := 2, inst := 1, «open» := true }] := by decide

example : (run exState exOps).1.refCounts = [(0, 1)] := by decide

/-- the hypotheses of the conditional theorems are met along this run: before `close 0` two subscriptions are open on informer 0 -/
example : (run exState (exOps.take 4)).1.openOn 0 = 2 := by decide

/-- handler 7 is registered by subscription 0 when the create event arrives -/
example : ((run exState (exOps.take 3)).1.runningInst 0).map (·.handlers) = some [(0, 7)] := by decide

end Example

end Mc.C18
