import Mc.Props.C02
import Mc.Props.C02Sem
/-
  C02, both halves together: every update and every delete that `ManageChildren` gets *accepted*, in any
  execution among arbitrary other clients and from an arbitrarily stale cache, hit an object the sync had
  observed (update: that very version; delete: that very incarnation), and every accepted create made an
  object that is born with the controller reference to the parent.
-/
namespace Mc
namespace C02
open Api Prog

theorem updateAct_update {mks sys : List String} {m : String} {obs des body : J}
    (h : updateAct mks sys m obs des = .update body) : applyUpdate mks sys obs des = .ok body := by
  unfold updateAct at h
  split at h
  · cases h
  · rename_i new hn
    split at h; · cases h
    split at h; · cases h
    split at h <;> cases h <;> exact hn

theorem updateAct_delete {mks sys : List String} {m : String} {obs des : J} {uid : String}
    (h : updateAct mks sys m obs des = .delete uid) : uid = getUID obs := by
  unfold updateAct at h
  split at h
  · cases h
  · split at h; · cases h
    split at h; · cases h
    split at h <;> cases h <;> rfl

theorem toResp_obj {o : Out} {x : J} (h : o.toResp = .obj x) : o.ok = true := by
  unfold Out.toResp at h
  split at h
  · assumption
  · cases h

/-- the cache is sound: `o` was stored, under some key, in a state of the API server from which the present
    one came about (arbitrarily long ago) -/
def Seen (s : State) (o : J) : Prop := ∃ s0 t, Inv s0 ∧ s0.find t = some o ∧ Evolves s0 s

theorem Seen.mono {s s' : State} {o : J} (h : Seen s o) (he : Evolves s s') : Seen s' o := by
  obtain ⟨s0, t, hi, hf, hev⟩ := h
  exact ⟨s0, t, hi, hf, hev.trans he⟩

/-- **C02_manage_accepted_update**: in every execution of `ManageChildren` (dynamic apply) among other clients,
    from a cache that merely holds objects the API server once held, an update that the API server accepts
    modifies an object that is, at that moment, exactly one of the observed children -/
theorem C02_manage_accepted_update (hook : String → J → Resp) (mks : List String) (children : List ChildRes)
    (kt : KindTable) (parentRef : OwnerRef) (observed desired : ObjMap) (memo : Memo) (s : State)
    (hseen : ∀ o, Occurs observed o → Seen s o)
    (log : List (State × Req × Resp)) (a : List String × Memo) (s' : State)
    (hex : Exec hook (manageChildren mks Generated.objectMetaSystemFields children none kt parentRef observed desired memo) s log a s') :
    ∀ e ∈ log, ∀ t body opts x, e.2.1 = .api .update t body opts → e.2.2 = .obj x →
      ∃ obs, Occurs observed obs ∧ e.1.find t = some obs := by
  intro e he t body opts x hreq hresp
  obtain ⟨hP, hev, hans⟩ := exec_log hook _ _ (C02_manage_requests_strong mks _ children kt parentRef observed desired memo) s log a s' hex e he
  rw [hreq] at hP hans
  rw [hresp] at hans
  have hok0 : (e.1.request .update t body opts).1.ok = true := toResp_obj hans.symm
  cases hP with
  | update g info name des obs _ hg hk hnd hobs hact =>
    have hocc := occurs_of_group_lookup observed g.1 name obs hobs
    refine ⟨obs, hocc, ?_⟩
    obtain ⟨s0, t0, hinv, hf, hev0⟩ := hseen obs hocc
    obtain ⟨env, henv⟩ := hev0.trans hev
    obtain ⟨⟨n, _, hrv⟩, ⟨m, _, huid⟩⟩ := hinv.1 t0 obs hf
    have hbody := updateAct_update hact
    obtain ⟨_, hsame⟩ := C02_update_keeps_identity_generated mks obs des _ _ _ hbody
      (nestedField_of_mstr obs "uid" _ huid (uidTok_ne_empty m))
      (nestedField_of_mstr obs "resourceVersion" _ hrv (rvTok_ne_empty n))
    have hrv' : mstr body "resourceVersion" = mstr obs "resourceVersion" := by
      rw [mstr_eq_strAt, mstr_eq_strAt]; exact hsame
    rw [henv] at hok0
    have := C02_update_lands_on_observed s0 hinv t0 obs hf env _ body .null hrv' hok0
    rw [henv]; exact this.2

/-- **C02_manage_accepted_delete**: likewise every accepted delete removes (or marks for deletion) an object
    that carries the UID of an observed child and lives under that child's own key - never a same-named
    object created later (`C02_recreated_never_deleted`) -/
theorem C02_manage_accepted_delete (hook : String → J → Resp) (mks : List String) (children : List ChildRes)
    (kt : KindTable) (parentRef : OwnerRef) (observed desired : ObjMap) (memo : Memo) (s : State)
    (hseen : ∀ o, Occurs observed o → Seen s o)
    (log : List (State × Req × Resp)) (a : List String × Memo) (s' : State)
    (hex : Exec hook (manageChildren mks Generated.objectMetaSystemFields children none kt parentRef observed desired memo) s log a s') :
    ∀ e ∈ log, ∀ t body opts x, e.2.1 = .api .delete t body opts → e.2.2 = .obj x →
      ∃ obs c, Occurs observed obs ∧ e.1.find t = some c ∧ mstr c "uid" = mstr obs "uid" := by
  intro e he t body opts x hreq hresp
  obtain ⟨hP, hev, hans⟩ := exec_log hook _ _ (C02_manage_requests_strong mks _ children kt parentRef observed desired memo) s log a s' hex e he
  rw [hreq] at hP hans
  rw [hresp] at hans
  -- both kinds of delete carry the UID of an observed child
  have key : ∀ obs, Occurs observed obs → opts = deleteOpts (getUID obs) →
      ∃ obs c, Occurs observed obs ∧ e.1.find t = some c ∧ mstr c "uid" = mstr obs "uid" := by
    intro obs hocc hopts
    obtain ⟨s0, t0, hinv, hf, hev0⟩ := hseen obs hocc
    obtain ⟨env, henv⟩ := hev0.trans hev
    obtain ⟨_, ⟨m, _, huid⟩⟩ := hinv.1 t0 obs hf
    have hu : precondition opts "uid" = some (mstr obs "uid") := by
      rw [hopts, show getUID obs = mstr obs "uid" from (mstr_eq_strAt obs "uid").symm]
      exact precondition_deleteOpts _ (huid ▸ uidTok_ne_empty m)
    have hok : ((s0.execs env).request .delete t body opts).1.ok = true := by
      rw [← henv]; exact toResp_obj hans.symm
    obtain ⟨ht, c, hc, e⟩ := C02_delete_hits_observed_uid s0 hinv t0 obs hf env t body opts hu hok
    exact ⟨obs, c, hocc, by rw [henv, ht]; exact hc, e⟩
  cases hP with
  | orphan g info name obj hg hk hno _ _ =>
    exact key obj ⟨g, hg, (name, obj), hno, rfl⟩ rfl
  | recreate g info name des obs uid hg hk hnd hobs hact =>
    have := updateAct_delete hact
    subst this
    exact key obs (occurs_of_group_lookup observed g.1 name obs hobs) rfl

/-- **C02_manage_accepted_create**: an accepted create found the name free, and the object stored carries the
    controller reference to the parent (the owner references of `createBody`) -/
theorem C02_manage_accepted_create (hook : String → J → Resp) (mks : List String) (children : List ChildRes)
    (kt : KindTable) (parentRef : OwnerRef) (observed desired : ObjMap) (memo : Memo) (s : State)
    (log : List (State × Req × Resp)) (a : List String × Memo) (s' : State)
    (hex : Exec hook (manageChildren mks Generated.objectMetaSystemFields children none kt parentRef observed desired memo) s log a s') :
    ∀ e ∈ log, ∀ t body opts x, e.2.1 = .api .create t body opts → e.2.2 = .obj x →
      e.1.find t = none ∧ (∃ des, body = createBody parentRef des) ∧
      ∃ o, (e.1.request .create t body opts).2.find t = some o ∧
        lookup "ownerReferences" (metaOf o) = lookup "ownerReferences" (metaOf body) := by
  intro e he t body opts x hreq hresp
  obtain ⟨hP, _, hans⟩ := exec_log hook _ _ (C02_manage_requests_strong mks _ children kt parentRef observed desired memo) s log a s' hex e he
  rw [hreq] at hP hans
  rw [hresp] at hans
  have hok : (e.1.request .create t body opts).1.ok = true := toResp_obj hans.symm
  obtain ⟨h1, h2⟩ := request_create_ok e.1 t body opts hok
  refine ⟨h1, ?_, h2⟩
  cases hP with
  | create g info name des _ _ _ _ => exact ⟨des, rfl⟩

end C02
end Mc

/-! ### non-vacuity: concrete histories that meet the hypotheses -/
namespace Mc
namespace C02
open Api

def exDef : ResDef := { group := "", resource := "configmaps", namespaced := true, hasStatus := false }
def exT : Target := { group := "", resource := "configmaps", ns := "ns", name := "a" }
def exBody : J := .obj [("metadata", .obj [("name", .str "a")]), ("data", .obj [("k", .str "v")])]
/-- a store reached by one create -/
def exS1 : State := (emptyState [exDef]).exec ⟨.create, exT, exBody, .null⟩
def exO1 : J := (exS1.find exT).getD .null
/-- somebody else touches another object; then our update, carrying the observed resourceVersion, arrives -/
def exEnv : List ApiReq := [⟨.create, { exT with name := "b" }, .obj [("metadata", .obj [("name", .str "b")])], .null⟩]
def exUpd : J := .obj [("metadata", .obj [("name", .str "a"), ("resourceVersion", .str (mstr exO1 "resourceVersion"))]), ("data", .obj [("k", .str "w")])]

example : Inv exS1 := inv_reachable [exDef] [_]
example : exS1.find exT = some exO1 ∧ mstr exO1 "uid" = "uid-1" ∧ mstr exO1 "resourceVersion" = "1" := by
  have h : (exS1.find exT).isSome = true := by decide
  refine ⟨?_, by decide, by decide⟩
  unfold exO1
  cases hf : exS1.find exT with
  | none => rw [hf] at h; cases h
  | some x => rfl
-- accepted: the hypotheses of `C02_update_lands_on_observed` hold, with a non-empty environment
example : ((exS1.execs exEnv).request .update exT exUpd .null).1.ok = true ∧
    mstr exUpd "resourceVersion" = mstr exO1 "resourceVersion" := by decide
-- the object is edited by somebody else first: the same update is refused (Conflict)
example : (((exS1.execs [⟨.update, exT, exUpd, .null⟩]).request .update exT exUpd .null).1.code) = 409 := by decide
-- deleted and re-created under the same name: a delete conditioned on the old UID is refused,
-- one conditioned on the UID of the live object is accepted
example : (((exS1.execs [⟨.delete, exT, .null, .null⟩]).execs [⟨.create, exT, exBody, .null⟩]).request .delete exT .null
    (deleteOpts (mstr exO1 "uid"))).1.code = 409 := by decide
example : (exS1.request .delete exT .null (deleteOpts (mstr exO1 "uid"))).1.ok = true := by decide
example : (exS1.execs [⟨.delete, exT, .null, .null⟩]).find exT = none := by decide

end C02
end Mc
