import Mc.Props.AtomicSem
/-
  C01, closed loop (set level): what one fault-free pass of the delete loop and of the create loop of
  `ManageChildren` leaves in the store, in a world where nobody else writes meanwhile and the cache is fresh.
  The programs are run with `Prog.runT` against `worldStep` (Lean API model + webhook function).
-/
namespace Mc
namespace C01
open Api C02 Atomic

variable (hook : String → J → Resp)

abbrev W := worldStep hook

theorem request_defs (s : State) (v : Verb) (t : Target) (body opts : J) : (s.request v t body opts).2.defs = s.defs := by
  unfold State.request
  cases s.defOf t <;> rfl

theorem request_defOf (s : State) (v : Verb) (t : Target) (body opts : J) (t' : Target) :
    (s.request v t body opts).2.defOf t' = s.defOf t' := by
  unfold State.defOf; rw [request_defs]

/-- the target a child lives under -/
abbrev tgtOf (info : KindInfo) (o : J) : Target :=
  targetOf info.group info.resource info.namespaced (getNamespace o) (getName o)

theorem timeTok_ne_empty (n : Nat) : timeTok n ≠ "" := by
  intro h
  have := congrArg String.length h
  simp [timeTok, String.length_append] at this

theorem isDeleting_iff (o : J) : isDeleting o = (mstr o "deletionTimestamp" != "") := by
  unfold isDeleting; rw [mstr_eq_strAt]

/-- a delete conditioned on the UID the live object has, when the resource is known: the object is gone, or
    (finalizers) marked for deletion; the answer is a success -/
theorem delete_live (s : State) (t : Target) (obj : J) (d : ResDef) (hd : s.defOf t = some d) (hf : s.find t = some obj)
    (hu : mstr obj "uid" ≠ "") :
    let out := (s.request .delete t .null (deleteOpts (getUID obj))).1
    out.ok = true ∧ (out.post = none ∨ ∃ o', out.post = some o' ∧ mstr o' "deletionTimestamp" ≠ "") := by
  have hguid : getUID obj = mstr obj "uid" := (mstr_eq_strAt obj "uid").symm
  have hp : precondition (deleteOpts (getUID obj)) "uid" = some (mstr obj "uid") := by
    rw [hguid]; exact precondition_deleteOpts _ hu
  have hp2 : precondition (deleteOpts (getUID obj)) "resourceVersion" = none := by
    simp [precondition, deleteOpts, J.fields, lookup]
  simp only [State.request, hd, hf, handle, Api.delete, preFails, hp, hp2]
  simp only [bne_self_eq_false, Bool.false_eq_true, if_false]
  split
  · split
    · refine ⟨rfl, .inr ⟨_, rfl, ?_⟩⟩
      rw [mstr_setMeta_other _ _ _ _ (by decide), mstr_setMeta_same]
      exact timeTok_ne_empty _
    · rename_i hdel
      refine ⟨rfl, .inr ⟨obj, rfl, ?_⟩⟩
      simpa using hdel
  · exact ⟨rfl, .inl rfl⟩

/-- what the delete loop promises about one observed child -/
def Settled (desiredNames : List String) (info : KindInfo) (s' : State) (no : String × J) : Prop :=
  if isDeleting no.2 || desiredNames.contains no.1 then s'.find (tgtOf info no.2) = some no.2
  else s'.find (tgtOf info no.2) = none ∨ ∃ o', s'.find (tgtOf info no.2) = some o' ∧ mstr o' "deletionTimestamp" ≠ ""

/-- **C01 (closed loop), delete side**: from a fresh cache (every observed child is what the store holds under its
    key), with nobody else writing, one pass of `deleteChildren` over a group reports no error, leaves every child
    that is desired or already pending deletion exactly as it was, removes every other one (or marks it for
    deletion when finalizers hold it), and touches nothing else in the store -/
theorem deleteGroup_run (info : KindInfo) (kind : String) (desiredNames : List String) :
    ∀ (objs : List (String × J)) (memo : Memo) (s : State),
      (∀ no ∈ objs, (s.defOf (tgtOf info no.2)).isSome) →
      (∀ no ∈ objs, s.find (tgtOf info no.2) = some no.2) →
      (∀ no ∈ objs, mstr no.2 "uid" ≠ "") →
      (objs.map (fun no => tgtOf info no.2)).Nodup →
      let r := Prog.runT (W hook) (deleteGroup info kind desiredNames objs memo) s
      r.1.1 = [] ∧ (∀ no ∈ objs, Settled desiredNames info r.2 no) ∧
      (∀ t, (∀ no ∈ objs, tgtOf info no.2 ≠ t) → r.2.find t = s.find t) ∧
      (∀ t, r.2.defOf t = s.defOf t) := by
  intro objs
  induction objs with
  | nil =>
    intro memo s _ _ _ _
    refine ⟨rfl, ?_, ?_, ?_⟩
    · intro no h; cases h
    · intro t _; rfl
    · intro t; rfl
  | cons hd tl ih =>
    obtain ⟨name, obj⟩ := hd
    intro memo s hdef hfresh huid hnd
    rw [List.map_cons, List.nodup_cons] at hnd
    obtain ⟨hnot, hndtl⟩ := hnd
    have ihr := ih memo s (fun no h => hdef no (List.mem_cons_of_mem _ h)) (fun no h => hfresh no (List.mem_cons_of_mem _ h))
      (fun no h => huid no (List.mem_cons_of_mem _ h)) hndtl
    simp only [] at ihr
    obtain ⟨he, hset, hframe, hdefs⟩ := ihr
    -- the head's key is none of the tail's: the tail pass left it alone
    have hhead : ∀ no ∈ tl, tgtOf info no.2 ≠ tgtOf info obj := by
      intro no hno e
      exact hnot (List.mem_map.mpr ⟨no, hno, e⟩)
    have hfind1 := hframe (tgtOf info obj) hhead
    rw [hfresh (name, obj) (List.mem_cons_self ..)] at hfind1
    -- unfold one round of the loop
    show (let r := Prog.runT (W hook) (deleteGroup info kind desiredNames ((name, obj) :: tl) memo) s; _)
    rw [deleteGroup]
    simp only [bind, Prog.runT_bind]
    generalize hr1 : Prog.runT (W hook) (deleteGroup info kind desiredNames tl memo) s = r1 at he hset hframe hdefs hfind1
    obtain ⟨⟨errs, memo1⟩, s1⟩ := r1
    simp only [] at he hset hframe hdefs hfind1 ⊢
    subst he
    -- frame for the states that differ from s1 only at the head's key
    have keepTail : ∀ (s2 : State), (∀ t, t ≠ tgtOf info obj → s2.find t = s1.find t) →
        ∀ no ∈ tl, Settled desiredNames info s2 no := by
      intro s2 h2 no hno
      have := hset no hno
      unfold Settled at this ⊢
      rw [h2 _ (hhead no hno)]
      exact this
    by_cases hdel : isDeleting obj = true
    · simp only [hdel, if_true]
      refine ⟨rfl, ?_, ?_, hdefs⟩
      · intro no hno
        rcases List.mem_cons.mp hno with rfl | hno
        · unfold Settled; simp only [hdel, Bool.true_or, if_true]; exact hfind1
        · exact hset no hno
      · intro t ht
        exact hframe t (fun no hno => ht no (List.mem_cons_of_mem _ hno))
    · simp only [hdel, Bool.false_eq_true, if_false]
      by_cases hdes : desiredNames.contains name = true
      · simp only [hdes, if_true]
        refine ⟨rfl, ?_, ?_, hdefs⟩
        · intro no hno
          rcases List.mem_cons.mp hno with rfl | hno
          · unfold Settled; simp only [hdes, Bool.or_true, if_true]; exact hfind1
          · exact hset no hno
        · intro t ht
          exact hframe t (fun no hno => ht no (List.mem_cons_of_mem _ hno))
      · simp only [hdes, Bool.false_eq_true, if_false]
        -- the delete request of the head
        obtain ⟨d, hd⟩ := Option.isSome_iff_exists.mp (hdef (name, obj) (List.mem_cons_self ..))
        have hd1 : s1.defOf (tgtOf info obj) = some d := by rw [hdefs]; exact hd
        obtain ⟨hok, hpost⟩ := delete_live s1 (tgtOf info obj) obj d hd1 hfind1 (huid (name, obj) (List.mem_cons_self ..))
        simp only [bind, Prog.runT_bind, api, Prog.request, Prog.runT, W, worldStep]
        have hresp : ((s1.request .delete (tgtOf info obj) .null (deleteOpts (getUID obj))).1.toResp) =
            .obj (((s1.request .delete (tgtOf info obj) .null (deleteOpts (getUID obj))).1.resp).getD .null) := by
          unfold Out.toResp; rw [if_pos hok]
        rw [hresp]
        simp only [Prog.runT, Prog.runT_pure]
        have hfind2 := request_find s1 .delete (tgtOf info obj) .null (deleteOpts (getUID obj))
        refine ⟨trivial, ?_, ?_, ?_⟩
        · intro no hno
          rcases List.mem_cons.mp hno with rfl | hno
          · unfold Settled
            simp only [hdel, hdes, Bool.or_self, Bool.false_eq_true, if_false]
            rw [hfind2, if_pos rfl]
            exact hpost
          · exact keepTail _ (fun t ht => by rw [hfind2, if_neg ht]) no hno
        · intro t ht
          rw [hfind2, if_neg (fun e => ht (name, obj) (List.mem_cons_self ..) e.symm)]
          exact hframe t (fun no hno => ht no (List.mem_cons_of_mem _ hno))
        · intro t
          rw [request_defOf]; exact hdefs t

/-- what an accepted create stores -/
theorem request_create_post (s : State) (t : Target) (body : J) (d : ResDef) (hd : s.defOf t = some d)
    (hok : (s.request .create t body .null).1.ok = true) :
    (s.request .create t body .null).2.find t = some (created d t body s.fresh false) := by
  have hf := request_find s .create t body .null t
  rw [hf, if_pos rfl]
  unfold State.request at hok ⊢
  simp only [hd, handle] at hok ⊢
  exact (create_ok d t _ body _ hok).2

/-- a create of a well-formed body under a free name of a known resource is accepted -/
theorem create_free (s : State) (t : Target) (body : J) (d : ResDef) (hd : s.defOf t = some d) (hf : s.find t = none)
    (hb : body.isNull = false) (hn : (t.name == "") = false) (hc : nControllerRefs body ≤ 1) :
    (s.request .create t body .null).1.ok = true := by
  have hc' : ¬ nControllerRefs body > 1 := by omega
  simp [State.request, hd, hf, handle, Api.create, hb, hn, hc', Out.ok]

/-- **C01 (closed loop), create side**: nothing of this kind is owned yet, the desired names are free and nobody else
    writes: one pass of `updateChildren` over a group creates every desired child - each born with the owner
    references of `createBody`, i.e. the controller reference to the parent - reports no error and touches nothing else -/
theorem createGroup_run (mks sys : List String) (children : List ChildRes) (info : KindInfo) (kind : String) (parentRef : OwnerRef) :
    ∀ (desired : List (String × J)) (memo : Memo) (s : State),
      (∀ nd ∈ desired, (s.defOf (tgtOf info nd.2)).isSome) →
      (∀ nd ∈ desired, s.find (tgtOf info nd.2) = none) →
      (∀ nd ∈ desired, (createBody parentRef nd.2).isNull = false ∧ (getName nd.2 == "") = false ∧
          nControllerRefs (createBody parentRef nd.2) ≤ 1) →
      (desired.map (fun nd => tgtOf info nd.2)).Nodup →
      let r := Prog.runT (W hook) (updateGroup mks sys children none info kind parentRef [] desired memo) s
      r.1.1 = [] ∧
      (∀ nd ∈ desired, ∃ d f, s.defOf (tgtOf info nd.2) = some d ∧
          r.2.find (tgtOf info nd.2) = some (created d (tgtOf info nd.2) (createBody parentRef nd.2) f false)) ∧
      (∀ t, (∀ nd ∈ desired, tgtOf info nd.2 ≠ t) → r.2.find t = s.find t) ∧
      (∀ t, r.2.defOf t = s.defOf t) := by
  intro desired
  induction desired with
  | nil =>
    intro memo s _ _ _ _
    refine ⟨rfl, ?_, ?_, ?_⟩
    · intro nd h; cases h
    · intro t _; rfl
    · intro t; rfl
  | cons hd tl ih =>
    obtain ⟨name, des⟩ := hd
    intro memo s hdef hfree hwf hnd
    rw [List.map_cons, List.nodup_cons] at hnd
    obtain ⟨hnot, hndtl⟩ := hnd
    have ihr := ih memo s (fun nd h => hdef nd (List.mem_cons_of_mem _ h)) (fun nd h => hfree nd (List.mem_cons_of_mem _ h))
      (fun nd h => hwf nd (List.mem_cons_of_mem _ h)) hndtl
    simp only [] at ihr
    obtain ⟨he, hmade, hframe, hdefs⟩ := ihr
    have hhead : ∀ nd ∈ tl, tgtOf info nd.2 ≠ tgtOf info des := by
      intro nd hnd' e
      exact hnot (List.mem_map.mpr ⟨nd, hnd', e⟩)
    have hfind1 := hframe (tgtOf info des) hhead
    rw [hfree (name, des) (List.mem_cons_self ..)] at hfind1
    show (let r := Prog.runT (W hook) (updateGroup mks sys children none info kind parentRef [] ((name, des) :: tl) memo) s; _)
    rw [updateGroup]
    simp only [bind, Prog.runT_bind]
    generalize hr1 : Prog.runT (W hook) (updateGroup mks sys children none info kind parentRef [] tl memo) s = r1 at he hmade hframe hdefs hfind1
    obtain ⟨⟨errs, memo1⟩, s1⟩ := r1
    simp only [] at he hmade hframe hdefs hfind1 ⊢
    subst he
    obtain ⟨d, hd⟩ := Option.isSome_iff_exists.mp (hdef (name, des) (List.mem_cons_self ..))
    have hd1 : s1.defOf (tgtOf info des) = some d := by rw [hdefs]; exact hd
    obtain ⟨hb, hn, hc⟩ := hwf (name, des) (List.mem_cons_self ..)
    have hn' : ((tgtOf info des).name == "") = false := by simpa [tgtOf, targetOf] using hn
    have hok := create_free s1 (tgtOf info des) (createBody parentRef des) d hd1 hfind1 hb hn' hc
    have ho := request_create_post s1 (tgtOf info des) (createBody parentRef des) d hd1 hok
    simp only [List.lookup, bind, Prog.runT_bind, api, Prog.request, Prog.runT, W, worldStep]
    have hresp : ((s1.request .create (tgtOf info des) (createBody parentRef des) .null).1.toResp) =
        .obj (((s1.request .create (tgtOf info des) (createBody parentRef des) .null).1.resp).getD .null) := by
      unfold Out.toResp; rw [if_pos hok]
    rw [hresp]
    simp only [Prog.runT, Prog.runT_pure]
    have hfind2 := request_find s1 .create (tgtOf info des) (createBody parentRef des) .null
    refine ⟨trivial, ?_, ?_, ?_⟩
    · intro nd hnd'
      rcases List.mem_cons.mp hnd' with rfl | hnd'
      · exact ⟨d, s1.fresh, hd, ho⟩
      · obtain ⟨d', f', hd', ho'⟩ := hmade nd hnd'
        refine ⟨d', f', hd', ?_⟩
        rw [hfind2, if_neg (hhead nd hnd')]
        exact ho'
    · intro t ht
      rw [hfind2, if_neg (fun e => ht (name, des) (List.mem_cons_self ..) e.symm)]
      exact hframe t (fun nd hnd' => ht nd (List.mem_cons_of_mem _ hnd'))
    · intro t
      rw [request_defOf]; exact hdefs t

/-! ### non-vacuity -/
section Examples
def exInfo' : KindInfo := { group := "", resource := "configmaps", namespaced := true }
def exRef' : OwnerRef := { apiVersion := "ctl.example.com/v1", kind := "Thing", name := "p1", uid := "uid-9", controller := some true, blockOwnerDeletion := some true }
def exDes' (n : String) : J := .obj [("apiVersion", .str "v1"), ("kind", .str "ConfigMap"),
  ("metadata", .obj [("name", .str n), ("namespace", .str "ns1")]), ("data", .obj [("image", .str "v1")])]
def exS0 : State := emptyState [{ group := "", resource := "configmaps", namespaced := true, hasStatus := false }]
def exDesired : List (String × J) := [("a", exDes' "a"), ("b", exDes' "b")]

-- the hypotheses of `createGroup_run` hold for two desired ConfigMaps on an empty store
example : (∀ nd ∈ exDesired, (exS0.defOf (tgtOf exInfo' nd.2)).isSome) ∧
    (∀ nd ∈ exDesired, (createBody exRef' nd.2).isNull = false ∧ (getName nd.2 == "") = false ∧ nControllerRefs (createBody exRef' nd.2) ≤ 1) ∧
    (exDesired.map (fun nd => tgtOf exInfo' nd.2)).Nodup := by decide

/-- the store after the create pass -/
def exS1 : State := (Prog.runT (worldStep (fun _ _ => .hookErr "none")) (updateGroup ["name"] ["uid"] [] none exInfo' "ConfigMap" exRef' [] exDesired []) exS0).2
example : ((exS1.find (tgtOf exInfo' (exDes' "a"))).isSome && (exS1.find (tgtOf exInfo' (exDes' "b"))).isSome) = true := by decide
/-- what a fresh cache holds then -/
def exObserved : List (String × J) := [("a", (exS1.find (tgtOf exInfo' (exDes' "a"))).getD .null), ("b", (exS1.find (tgtOf exInfo' (exDes' "b"))).getD .null)]
-- the hypotheses of `deleteGroup_run` hold for them, and with only "a" still desired the pass removes "b"
example : (∀ no ∈ exObserved, mstr no.2 "uid" ≠ "") ∧ (exObserved.map (fun no => tgtOf exInfo' no.2)).Nodup := by decide
example : let r := Prog.runT (worldStep (fun _ _ => .hookErr "none")) (deleteGroup exInfo' "ConfigMap" ["a"] exObserved []) exS1
    ((r.2.find (tgtOf exInfo' (exDes' "a"))).isSome && (r.2.find (tgtOf exInfo' (exDes' "b"))).isNone && r.1.1.isEmpty) = true := by decide
end Examples

end C01
end Mc
