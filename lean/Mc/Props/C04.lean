import Mc.Sync.Common
/-
  C04 - adoption, release and creation obey the ControllerRef rules.
  The decision table of `ClaimObject`, stated row by row for every object, selector outcome and
  parent; the owner-reference edits touch only the parent's own reference.
-/
namespace Mc.C04

/-- an object controlled by another owner is left alone even if its labels match -/
theorem C04_foreign_left_alone (parentUid : String) (deleting matches_ : Bool) (obj : J) (ref : OwnerRef)
    (h : controllerOf obj = some ref) (hne : ref.uid ≠ parentUid) :
    claimDecision parentUid deleting matches_ obj = .ignore := by
  simp [claimDecision, h, hne]

/-- ours and matching: kept, no request -/
theorem C04_ours_matching_kept (parentUid : String) (deleting : Bool) (obj : J) (ref : OwnerRef)
    (h : controllerOf obj = some ref) (hu : ref.uid = parentUid) :
    claimDecision parentUid deleting true obj = .keep := by
  simp [claimDecision, h, hu]

/-- ours but no longer matching: released, unless the parent is being deleted -/
theorem C04_ours_unmatched (parentUid : String) (deleting : Bool) (obj : J) (ref : OwnerRef)
    (h : controllerOf obj = some ref) (hu : ref.uid = parentUid) :
    claimDecision parentUid deleting false obj = (if deleting then .ignore else .release) := by
  cases deleting <;> simp [claimDecision, h, hu]

/-- an orphan is adopted exactly when it matches, is not being deleted and the (observed) parent is not being deleted -/
theorem C04_orphan (parentUid : String) (deleting matches_ : Bool) (obj : J) (h : controllerOf obj = none) :
    claimDecision parentUid deleting matches_ obj =
      (if !deleting && matches_ && !isDeleting obj then .adopt else .ignore) := by
  cases deleting <;> cases matches_ <;> cases hd : isDeleting obj <;> simp [claimDecision, h, hd]

/-- a parent observed as being deleted neither adopts nor releases -/
theorem C04_deleting_parent_inert (parentUid : String) (matches_ : Bool) (obj : J) :
    claimDecision parentUid true matches_ obj ≠ .adopt ∧ claimDecision parentUid true matches_ obj ≠ .release := by
  unfold claimDecision
  cases h : controllerOf obj with
  | none => simp
  | some ref =>
    by_cases hu : ref.uid = parentUid <;> cases matches_ <;> simp [hu]

/-- adoption only ever happens to orphans -/
theorem C04_adopt_only_orphans (parentUid : String) (deleting matches_ : Bool) (obj : J)
    (h : claimDecision parentUid deleting matches_ obj = .adopt) :
    controllerOf obj = none ∧ matches_ = true ∧ deleting = false ∧ isDeleting obj = false := by
  unfold claimDecision at h
  cases hc : controllerOf obj with
  | some ref =>
    simp only [hc] at h
    by_cases hu : ref.uid = parentUid <;> cases matches_ <;> cases deleting <;> simp_all
  | none =>
    simp only [hc] at h
    cases deleting <;> cases matches_ <;> cases hd : isDeleting obj <;> simp_all

/-- release removes only the parent's reference: every other reference is kept, in order -/
theorem C04_release_minimal (refs : List OwnerRef) (uid : String) :
    removeOwnerReference refs uid = refs.filter (·.uid != uid) ∧
    ∀ r ∈ refs, r.uid ≠ uid → r ∈ removeOwnerReference refs uid := by
  refine ⟨rfl, ?_⟩
  intro r hr hne
  simp [removeOwnerReference, List.mem_filter, hr, hne]

theorem map_replace_filter (refs : List OwnerRef) (add : OwnerRef) :
    (refs.map (fun r => if r.uid == add.uid then add else r)).filter (·.uid != add.uid) = refs.filter (·.uid != add.uid) := by
  induction refs with
  | nil => rfl
  | cons x xs ih =>
    by_cases hx : x.uid = add.uid
    · simpa [hx] using ih
    · simpa [hx] using ih

/-- adoption keeps every reference of another owner, in order, and ours is present afterwards -/
theorem C04_adopt_minimal (refs : List OwnerRef) (add : OwnerRef) :
    (addOwnerReference refs add).filter (·.uid != add.uid) = refs.filter (·.uid != add.uid) ∧
    add ∈ addOwnerReference refs add := by
  unfold addOwnerReference
  split
  · rename_i h
    refine ⟨map_replace_filter refs add, ?_⟩
    simp only [List.any_eq_true, beq_iff_eq] at h
    obtain ⟨x, hx, hxu⟩ := h
    simp only [List.mem_map]
    exact ⟨x, hx, by simp [hxu]⟩
  · constructor
    · simp [List.filter_append]
    · simp

end Mc.C04
