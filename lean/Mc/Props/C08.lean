import Mc.Props.C07
/-
  C08 - rollout liveness, as a theorem about the model of `syncRollingUpdate` iterated over syncs.

  One sync of the rollout bookkeeping is `round`: `syncRevisionClaims` (claims recomputed from what the
  ControllerRevisions store), the immediate moves, then the gated move.  The revisions a round returns are what
  the next round starts from (they are written to the ControllerRevisions and read back; that round trip is part of
  the replayed model, not of this file).  The environment is arbitrary: every round sees an arbitrary observed map.

  * `C08_never_back`   a child that is on the latest revision when a round decides is on it in every later round
                        (no sequence of syncs moves a child back);
  * `C08_progress`     a round whose health gate is open takes the first pending child off the pending list for
                        good;
  * `C08_completes`    over any sequence of rounds the number of pending children is at most the initial number
                        minus the number of rounds whose gate was open - so after `n` open-gate rounds (`n` = the
                        number of children of the latest hook answer) the rollout is complete, whatever the
                        environment did in between, and it stays complete.

  No bound on the number of revisions, children or rounds.  The fairness assumption of the property ("children
  become healthy") is the hypothesis "the gate is open" of the rounds that are counted.
-/
namespace Mc.C08
open Mc.C07

/-- the key under which the rollout looks a child object up in the claim map -/
def keyOf (child : J) : CKey := (claimKey (apiGroup (getAPIVersion child)) (getKind child), getName child)

/-- `κ` is held by a group of `gs` whose (apiGroup, kind, name) satisfies `P` -/
def HeldP (P : String → String → String → Prop) (gs : List CGroup) (κ : CKey) : Prop :=
  ∃ g ∈ gs, ∃ n ∈ g.names, κ = g.key n ∧ P g.apiGroup g.kind n

variable {P : String → String → String → Prop}

theorem addChild_go_keep (a k n : String) (κ : CKey) : ∀ gs : List CGroup,
    HeldP P gs κ → HeldP P (addChild.go a k n gs) κ := by
  intro gs
  induction gs with
  | nil => intro h; exact h
  | cons x rest ih =>
    rintro ⟨g, hg, m, hm, hκ, hp⟩
    by_cases hx : (x.apiGroup == a && x.kind == k) = true
    · by_cases hc : n ∈ x.names
      · simp only [addChild.go, hx, if_true, List.contains_iff_mem, hc]
        exact ⟨g, hg, m, hm, hκ, hp⟩
      · simp only [addChild.go, hx, if_true, List.contains_iff_mem, hc, if_false]
        rcases List.mem_cons.mp hg with rfl | hg
        · exact ⟨{ g with names := g.names ++ [n] }, List.mem_cons_self, m, List.mem_append_left _ hm, hκ, hp⟩
        · exact ⟨g, List.mem_cons_of_mem _ hg, m, hm, hκ, hp⟩
    · simp only [addChild.go, hx, Bool.false_eq_true, if_false]
      rcases List.mem_cons.mp hg with rfl | hg
      · exact ⟨g, List.mem_cons_self, m, hm, hκ, hp⟩
      · obtain ⟨g', hg', m', hm', hκ', hp'⟩ := ih ⟨g, hg, m, hm, hκ, hp⟩
        exact ⟨g', List.mem_cons_of_mem _ hg', m', hm', hκ', hp'⟩

theorem addChild_go_adds (a k n : String) (hp : P a k n) : ∀ gs : List CGroup,
    gs.any (fun x => x.apiGroup == a && x.kind == k) = true →
    HeldP P (addChild.go a k n gs) (claimKey a k, n) := by
  intro gs
  induction gs with
  | nil => intro h; simp at h
  | cons x rest ih =>
    intro h
    by_cases hx : (x.apiGroup == a && x.kind == k) = true
    · have hx' := hx
      rw [Bool.and_eq_true, beq_iff_eq, beq_iff_eq] at hx'
      by_cases hc : n ∈ x.names
      · simp only [addChild.go, hx, if_true, List.contains_iff_mem, hc]
        exact ⟨x, List.mem_cons_self, n, hc, by simp [CGroup.key, hx'.1, hx'.2], by rw [hx'.1, hx'.2]; exact hp⟩
      · simp only [addChild.go, hx, if_true, List.contains_iff_mem, hc, if_false]
        exact ⟨{ x with names := x.names ++ [n] }, List.mem_cons_self, n, by simp,
          by simp [CGroup.key, hx'.1, hx'.2], by simp only [hx'.1, hx'.2]; exact hp⟩
    · have hr : rest.any (fun x => x.apiGroup == a && x.kind == k) = true := by
        simp only [List.any_cons, Bool.or_eq_true] at h
        rcases h with h | h
        · exact absurd h hx
        · exact h
      simp only [addChild.go, hx, Bool.false_eq_true, if_false]
      obtain ⟨g', hg', m', hm', hκ', hp'⟩ := ih hr
      exact ⟨g', List.mem_cons_of_mem _ hg', m', hm', hκ', hp'⟩

/-- `addChild` keeps every held key ... -/
theorem addChild_keep (gs : List CGroup) (a k n : String) (κ : CKey) (h : HeldP P gs κ) :
    HeldP P (addChild gs a k n) κ := by
  unfold addChild
  split
  · exact addChild_go_keep a k n κ gs h
  · obtain ⟨g, hg, m, hm, hκ, hp⟩ := h
    exact ⟨g, List.mem_append_left _ hg, m, hm, hκ, hp⟩

/-- ... and holds the added one, in a group of exactly that apiGroup and kind -/
theorem addChild_adds (gs : List CGroup) (a k n : String) (hp : P a k n) :
    HeldP P (addChild gs a k n) (claimKey a k, n) := by
  unfold addChild
  split
  · rename_i h
    exact addChild_go_adds a k n hp gs h
  · exact ⟨{ apiGroup := a, kind := k, names := [n] }, by simp, n, by simp, rfl, hp⟩

theorem headD_mapIdx (prs : List PRev) (hne : prs ≠ []) (F : Nat → PRev → PRev) :
    (prs.mapIdx F).headD default = F 0 (prs.headD default) := by
  cases prs with
  | nil => exact absurd rfl hne
  | cons p rest => simp [List.mapIdx_cons]

theorem mapIdx_ne_nil (prs : List PRev) (hne : prs ≠ []) (F : Nat → PRev → PRev) : prs.mapIdx F ≠ [] := by
  cases prs with
  | nil => exact absurd rfl hne
  | cons p rest => simp [List.mapIdx_cons]

/-! ### the invariant carried through one sync: what the claim map gives to revision 0, revision 0 holds -/

/-- eligibility of a claim: a rolling kind, desired by the latest revision -/
def Elig (c : Cfg) (d : ObjMap) (a k n : String) : Prop :=
  c.isRolling a k = true ∧ (d.findGK a k n).isSome = true

def headHolds (c : Cfg) (d : ObjMap) (prs : List PRev) (κ : CKey) : Prop :=
  HeldP (Elig c d) (prs.headD default).children κ

structure ZInv (c : Cfg) (d : ObjMap) (prs : List PRev) (cl : Claims) : Prop where
  ne : prs ≠ []
  zero : ∀ κ, cl.getK κ = some 0 → headHolds c d prs κ

/-- phase 1 (`syncRevisionClaims` from an empty claim map): the invariant holds afterwards -/
theorem phase1_inv (c : Cfg) (d : ObjMap) (prs : List PRev) (hne : prs ≠ []) :
    ZInv c d (syncRevisionClaims c d prs 0 []).1 (syncRevisionClaims c d prs 0 []).2 := by
  obtain ⟨step, outs⟩ := syncRevisionClaims_spec c d prs 0 []
  have hlen := syncRevisionClaims_length c d prs 0 []
  refine ⟨?_, ?_⟩
  · intro h
    rw [h] at hlen
    cases prs with
    | nil => exact hne rfl
    | cons p rest => simp at hlen
  · intro κ hκ
    have hs : ((syncRevisionClaims c d prs 0 []).2.getK κ).isSome = true := by rw [hκ]; rfl
    have hm := (ClaimStep.of_nil step κ).mp hs
    obtain ⟨p', hp', hk⟩ := mem_revsKeys.mp hm
    obtain ⟨j, hj⟩ := List.getElem?_of_mem hp'
    obtain ⟨p, _, ro⟩ := syncRevisionClaims_out c d prs 0 [] j p' hj
    have hv := ro.val κ hk
    rw [hκ] at hv
    have hj0 : j = 0 := by
      have : (0 : Nat) = 0 + j := by simpa using hv
      omega
    subst hj0
    have hhead : (syncRevisionClaims c d prs 0 []).1.headD default = p' := by
      cases hh : (syncRevisionClaims c d prs 0 []).1 with
      | nil => rw [hh] at hj; simp at hj
      | cons q rest => rw [hh] at hj; simp at hj; simp [hj]
    obtain ⟨g, hg, n, hn, hκ'⟩ := mem_groupsKeys.mp hk
    exact ⟨g, by rw [hhead]; exact hg, n, hn, hκ', (ro.ok g hg).1, (ro.ok g hg).2 n hn⟩

/-- phase 1 claims for revision 0 everything eligible that revision 0 holds -/
theorem phase1_carry (c : Cfg) (d : ObjMap) (prs : List PRev) (κ : CKey) (h : headHolds c d prs κ) :
    (syncRevisionClaims c d prs 0 []).2.getK κ = some 0 := by
  obtain ⟨g, hg, n, hn, rfl, hr, hd⟩ := h
  cases prs with
  | nil => simp at hg; exact absurd hg (by simp [default, instInhabitedPRev.default] <;> exact List.not_mem_nil)
  | cons p rest =>
    obtain ⟨v, hv, h1, h2⟩ := syncRevisionClaims_claims c d g n hr hn hd (p :: rest) 0 [] 0 p rfl (by simpa using hg) rfl
    have : v = 0 := by omega
    rw [this] at hv
    exact hv

/-- one immediate move (or the gated move) to revision 0: the invariant survives, claims of revision 0 stay -/
theorem move_inv (c : Cfg) (d : ObjMap) (prs : List PRev) (cl : Claims) (a k n : String) (F : Nat → PRev → PRev)
    (hF : ∀ p, (F 0 p).children = addChild p.children a k n) (he : Elig c d a k n) (h : ZInv c d prs cl) :
    ZInv c d (prs.mapIdx F) (cl.set a k n 0) ∧
    (∀ κ, cl.getK κ = some 0 → (cl.set a k n 0).getK κ = some 0) ∧
    (∀ κ, headHolds c d prs κ → headHolds c d (prs.mapIdx F) κ) ∧
    headHolds c d (prs.mapIdx F) (claimKey a k, n) := by
  have hhead : ((prs.mapIdx F).headD default).children = addChild (prs.headD default).children a k n := by
    rw [headD_mapIdx prs h.ne F, hF]
  have keep : ∀ κ, headHolds c d prs κ → headHolds c d (prs.mapIdx F) κ := by
    intro κ hκ
    unfold headHolds
    rw [hhead]
    exact addChild_keep _ a k n κ hκ
  have adds : headHolds c d (prs.mapIdx F) (claimKey a k, n) := by
    unfold headHolds
    rw [hhead]
    exact addChild_adds _ a k n he
  refine ⟨⟨mapIdx_ne_nil prs h.ne F, ?_⟩, ?_, keep, adds⟩
  · intro κ hκ
    rw [Claims.set_eq_setK] at hκ
    by_cases e : κ = (claimKey a k, n)
    · rw [e]; exact adds
    · rw [Claims.getK_setK_other _ _ _ _ e] at hκ
      exact keep κ (h.zero κ hκ)
  · intro κ hκ
    rw [Claims.set_eq_setK]
    by_cases e : κ = (claimKey a k, n)
    · rw [e, Claims.getK_setK_same]
    · rw [Claims.getK_setK_other _ _ _ _ e]; exact hκ

/-- phase 2 (`immediateMoves`): the invariant survives, revision 0 keeps what it had -/
theorem phase2_inv (c : Cfg) (d : ObjMap) (obs : ObjMap) : ∀ (flat : List (GVK × String × J)) (prs : List PRev) (cl : Claims),
    (∀ e ∈ flat, c.isRolling e.1.group e.1.kind = true → (d.findGK e.1.group e.1.kind e.2.1).isSome = true) →
    ZInv c d prs cl →
    ZInv c d (immediateMoves c obs flat prs cl).1 (immediateMoves c obs flat prs cl).2 ∧
    (∀ κ, cl.getK κ = some 0 → (immediateMoves c obs flat prs cl).2.getK κ = some 0) ∧
    (∀ κ, headHolds c d prs κ → headHolds c d (immediateMoves c obs flat prs cl).1 κ) := by
  intro flat
  induction flat with
  | nil => intro prs cl _ h; exact ⟨h, fun _ h => h, fun _ h => h⟩
  | cons e rest ih =>
    intro prs cl hflat h
    obtain ⟨gvk, name, des⟩ := e
    have hrest : ∀ e ∈ rest, c.isRolling e.1.group e.1.kind = true → (d.findGK e.1.group e.1.kind e.2.1).isSome = true :=
      fun e he => hflat e (List.mem_cons_of_mem _ he)
    have same := ih prs cl hrest h
    have moved : ∀ (F : Nat → PRev → PRev), (∀ p, (F 0 p).children = addChild p.children gvk.group gvk.kind name) →
        c.isRolling gvk.group gvk.kind = true →
        ZInv c d (immediateMoves c obs rest (prs.mapIdx F) (cl.set gvk.group gvk.kind name 0)).1
                 (immediateMoves c obs rest (prs.mapIdx F) (cl.set gvk.group gvk.kind name 0)).2 ∧
        (∀ κ, cl.getK κ = some 0 → (immediateMoves c obs rest (prs.mapIdx F) (cl.set gvk.group gvk.kind name 0)).2.getK κ = some 0) ∧
        (∀ κ, headHolds c d prs κ → headHolds c d (immediateMoves c obs rest (prs.mapIdx F) (cl.set gvk.group gvk.kind name 0)).1 κ) := by
      intro F hF hr
      have he : Elig c d gvk.group gvk.kind name := ⟨hr, hflat (gvk, name, des) List.mem_cons_self hr⟩
      obtain ⟨m1, m2, m3, _⟩ := move_inv c d prs cl gvk.group gvk.kind name F hF he h
      obtain ⟨r1, r2, r3⟩ := ih _ _ hrest m1
      exact ⟨r1, fun κ hκ => r2 κ (m2 κ hκ), fun κ hκ => r3 κ (m3 κ hκ)⟩
    by_cases hr : c.isRolling gvk.group gvk.kind = true
    · simp only [immediateMoves, hr, Bool.not_true, Bool.false_eq_true, if_false]
      split
      · exact moved _ (fun p => by simp) hr
      · exact same
      · split
        · exact same
        · split
          · exact same
          · split
            · exact moved _ (fun p => by simp) hr
            · exact same
    · have hr' : c.isRolling gvk.group gvk.kind = false := by
        cases hh : c.isRolling gvk.group gvk.kind
        · rfl
        · exact absurd hh hr
      simp only [immediateMoves, hr', Bool.not_false, if_true]
      exact same

/-! ### one sync of the rollout bookkeeping -/

/-- the flattened desired children of the latest revision, as `syncRollingUpdate` walks them -/
def flatOf (d : ObjMap) : List (GVK × String × J) := d.flatMap (fun g => g.2.map (fun no => (g.1, no.1, no.2)))

theorem lookup_isSome_of_mem (n : String) (v : J) : ∀ l : List (String × J), (n, v) ∈ l → (l.lookup n).isSome = true := by
  intro l
  induction l with
  | nil => intro h; simp at h
  | cons x rest ih =>
    intro h
    obtain ⟨a, b⟩ := x
    rw [List.lookup_cons]
    split
    · rfl
    · rename_i hne
      rcases List.mem_cons.mp h with h | h
      · have : n = a := (Prod.mk.inj h).1
        rw [this] at hne
        simp at hne
      · exact ih h

/-- what `syncRollingUpdate` walks in its first loop is desired by the latest revision -/
theorem flatOf_desired (d : ObjMap) : ∀ e ∈ flatOf d, (d.findGK e.1.group e.1.kind e.2.1).isSome = true := by
  intro e he
  simp only [flatOf, List.mem_flatMap, List.mem_map] at he
  obtain ⟨g, hg, no, hno, rfl⟩ := he
  unfold ObjMap.findGK
  cases hf : (d.filter (fun g' => g'.1.group == g.1.group && g'.1.kind == g.1.kind)).findSome? (fun g' => g'.2.lookup no.1) with
  | some v => rfl
  | none =>
    have hm : g ∈ d.filter (fun g' => g'.1.group == g.1.group && g'.1.kind == g.1.kind) := by
      rw [List.mem_filter]; exact ⟨hg, by simp⟩
    have h1 := List.findSome?_eq_none_iff.mp hf g hm
    have h2 := lookup_isSome_of_mem no.1 no.2 g.2 hno
    rw [h1] at h2
    simp at h2

/-- revisions and claim map at the moment the gated move decides -/
def atGate (c : Cfg) (d : ObjMap) (obs : ObjMap) (prs : List PRev) : List PRev × Claims :=
  immediateMoves c obs (flatOf d) (syncRevisionClaims c d prs 0 []).1 (syncRevisionClaims c d prs 0 []).2

/-- one sync: the revisions (with their claims) it leaves, and the rollout condition -/
def round (c : Cfg) (d : ObjMap) (kids : List J) (obs : ObjMap) (prs : List PRev) : List PRev × J :=
  gatedMove c obs (atGate c d obs prs).1 (atGate c d obs prs).2 kids

/-- `syncRollingUpdate` is `round` on the latest revision's desired children and hook answer, plus the condition
    written into the status -/
theorem syncRollingUpdate_eq_round (c : Cfg) (prs : List PRev) (observed : ObjMap) :
    syncRollingUpdate c prs observed =
      match setCondition ((prs.headD default).resp.status.getD [])
          (round c (prs.headD default).desired ((prs.headD default).resp.children.filterMap id)
            (observed.convert (getNamespace (prs.headD default).parent)) prs).2 with
      | .ok st => .ok ((round c (prs.headD default).desired ((prs.headD default).resp.children.filterMap id)
            (observed.convert (getNamespace (prs.headD default).parent)) prs).1, st)
      | .error e => .error e := rfl

/-- the children of the latest hook answer that are not yet on the latest revision when the sync decides -/
def pendingAt (c : Cfg) (d : ObjMap) (kids : List J) (obs : ObjMap) (prs : List PRev) : List J :=
  kids.filter (pending c (atGate c d obs prs).2)

/-- the health gate of this sync -/
def gateOpen (c : Cfg) (d : ObjMap) (obs : ObjMap) (prs : List PRev) : Bool :=
  (shouldContinueRolling c ((atGate c d obs prs).1.headD default) obs).isNone

theorem atGate_inv (c : Cfg) (d : ObjMap) (obs : ObjMap) (prs : List PRev) (hne : prs ≠ []) :
    ZInv c d (atGate c d obs prs).1 (atGate c d obs prs).2 :=
  (phase2_inv c d obs (flatOf d) _ _ (fun e he _ => flatOf_desired d e he) (phase1_inv c d prs hne)).1

/-- what revision 0 holds (eligible) when a sync starts is claimed by revision 0 when that sync decides -/
theorem carry (c : Cfg) (d : ObjMap) (obs : ObjMap) (prs : List PRev) (hne : prs ≠ []) (κ : CKey)
    (h : headHolds c d prs κ) : (atGate c d obs prs).2.getK κ = some 0 :=
  (phase2_inv c d obs (flatOf d) _ _ (fun e he _ => flatOf_desired d e he) (phase1_inv c d prs hne)).2.1 κ
    (phase1_carry c d prs κ h)

/-- the children of the hook answer are desired under their own name (a namespaced parent, children in its namespace) -/
def KidsDesired (c : Cfg) (d : ObjMap) (kids : List J) : Prop :=
  ∀ x ∈ kids, c.isRolling (apiGroup (getAPIVersion x)) (getKind x) = true →
    (d.findGK (apiGroup (getAPIVersion x)) (getKind x) (getName x)).isSome = true

theorem firstPending_mem (c : Cfg) (cl : Claims) (kids : List J) (f : J) (h : firstPending c cl kids = some f) :
    f ∈ kids ∧ pending c cl f = true := by
  unfold firstPending at h
  exact ⟨List.mem_of_find?_eq_some h, List.find?_some h⟩

/-- the gated move keeps what revision 0 holds, and leaves a non-empty revision list -/
theorem round_keeps (c : Cfg) (d : ObjMap) (kids : List J) (obs : ObjMap) (prs : List PRev) (hne : prs ≠ [])
    (hk : KidsDesired c d kids) :
    (round c d kids obs prs).1 ≠ [] ∧
    ∀ κ, headHolds c d (atGate c d obs prs).1 κ → headHolds c d (round c d kids obs prs).1 κ := by
  have inv := atGate_inv c d obs prs hne
  unfold round
  rw [gatedMove_cases]
  cases hp : firstPending c (atGate c d obs prs).2 kids with
  | none => exact ⟨inv.ne, fun _ h => h⟩
  | some f =>
    cases hg : shouldContinueRolling c ((atGate c d obs prs).1.headD default) obs with
    | some msg => exact ⟨inv.ne, fun _ h => h⟩
    | none =>
      obtain ⟨hf, hpf⟩ := firstPending_mem c _ kids f hp
      have hr := ((pending_iff c _ f).mp hpf).1
      obtain ⟨m1, _, m3, _⟩ := move_inv c d (atGate c d obs prs).1 (atGate c d obs prs).2 _ _ _
        (fun i p => if i == 0 then { p with children := addChild p.children (apiGroup (getAPIVersion f)) (getKind f) (getName f) }
                    else { p with children := removeChild p.children (apiGroup (getAPIVersion f)) (getKind f) (getName f) })
        (fun p => by simp) ⟨hr, hk f hf hr⟩ inv
      exact ⟨m1.ne, m3⟩

/-- **no way back**: a child that is not pending when a sync decides is not pending in the next sync, whatever the
    environment shows that sync -/
theorem C08_never_back (c : Cfg) (d : ObjMap) (kids : List J) (obs obs' : ObjMap) (prs : List PRev) (hne : prs ≠ [])
    (hk : KidsDesired c d kids) (x : J) (h : pending c (atGate c d obs prs).2 x = false) :
    pending c (atGate c d obs' (round c d kids obs prs).1).2 x = false := by
  by_cases hr : c.isRolling (apiGroup (getAPIVersion x)) (getKind x) = true
  · have h0 : (atGate c d obs prs).2.getK (keyOf x) = some 0 := by
      apply Classical.byContradiction
      intro hn
      have : pending c (atGate c d obs prs).2 x = true := (pending_iff c _ x).mpr ⟨hr, hn⟩
      rw [h] at this
      exact absurd this (by simp)
    obtain ⟨rne, keep⟩ := round_keeps c d kids obs prs hne hk
    have h1 := keep _ ((atGate_inv c d obs prs hne).zero _ h0)
    have h2 := carry c d obs' _ rne _ h1
    cases hh : pending c (atGate c d obs' (round c d kids obs prs).1).2 x with
    | false => rfl
    | true => exact absurd h2 ((pending_iff c _ x).mp hh).2
  · cases hh : pending c (atGate c d obs' (round c d kids obs prs).1).2 x with
    | false => rfl
    | true => exact absurd ((pending_iff c _ x).mp hh).1 hr

/-- **progress**: when the gate is open, the first pending child is not pending in any later sync -/
theorem C08_progress (c : Cfg) (d : ObjMap) (kids : List J) (obs obs' : ObjMap) (prs : List PRev) (hne : prs ≠ [])
    (hk : KidsDesired c d kids) (f : J) (hp : firstPending c (atGate c d obs prs).2 kids = some f)
    (hg : gateOpen c d obs prs = true) :
    pending c (atGate c d obs' (round c d kids obs prs).1).2 f = false := by
  have inv := atGate_inv c d obs prs hne
  obtain ⟨hf, hpf⟩ := firstPending_mem c _ kids f hp
  have hr := ((pending_iff c _ f).mp hpf).1
  have hg' : shouldContinueRolling c ((atGate c d obs prs).1.headD default) obs = none := by
    unfold gateOpen at hg
    cases hh : shouldContinueRolling c ((atGate c d obs prs).1.headD default) obs with
    | none => rfl
    | some m => rw [hh] at hg; simp at hg
  obtain ⟨m1, _, _, m4⟩ := move_inv c d (atGate c d obs prs).1 (atGate c d obs prs).2 _ _ _
    (fun i p => if i == 0 then { p with children := addChild p.children (apiGroup (getAPIVersion f)) (getKind f) (getName f) }
                else { p with children := removeChild p.children (apiGroup (getAPIVersion f)) (getKind f) (getName f) })
    (fun p => by simp) ⟨hr, hk f hf hr⟩ inv
  have hround : (round c d kids obs prs).1 = moveOf (atGate c d obs prs).1 f := by
    unfold round
    rw [C07_progress c obs _ _ kids f hp hg']
  rw [hround]
  have h2 := carry c d obs' _ m1.ne _ m4
  cases hh : pending c (atGate c d obs' (moveOf (atGate c d obs prs).1 f)).2 f with
  | false => rfl
  | true => exact absurd h2 ((pending_iff c _ f).mp hh).2

/-! ### counting: the pending list only shrinks, and shrinks in every sync whose gate is open -/

theorem filter_length_le {α} (p q : α → Bool) : ∀ l : List α, (∀ x ∈ l, q x = true → p x = true) →
    (l.filter q).length ≤ (l.filter p).length := by
  intro l
  induction l with
  | nil => intro _; simp
  | cons a rest ih =>
    intro h
    have ih' := ih (fun x hx => h x (List.mem_cons_of_mem _ hx))
    by_cases hq : q a = true
    · have hp := h a List.mem_cons_self hq
      simp only [List.filter_cons, hq, hp, if_true, List.length_cons]
      omega
    · by_cases hp : p a = true
      · simp only [List.filter_cons, hq, hp, if_true, Bool.false_eq_true, if_false, List.length_cons]
        omega
      · simp only [List.filter_cons, hq, hp, Bool.false_eq_true, if_false]
        exact ih'

theorem filter_length_lt {α} (p q : α → Bool) : ∀ l : List α, (∀ x ∈ l, q x = true → p x = true) →
    (∃ x ∈ l, p x = true ∧ q x = false) → (l.filter q).length < (l.filter p).length := by
  intro l
  induction l with
  | nil => intro _ h; obtain ⟨x, hx, _⟩ := h; simp at hx
  | cons a rest ih =>
    intro h hex
    have hrest : ∀ x ∈ rest, q x = true → p x = true := fun x hx => h x (List.mem_cons_of_mem _ hx)
    have le := filter_length_le p q rest hrest
    obtain ⟨x, hx, hpx, hqx⟩ := hex
    rcases List.mem_cons.mp hx with rfl | hx
    · simp only [List.filter_cons, hpx, hqx, if_true, Bool.false_eq_true, if_false, List.length_cons]
      omega
    · have lt := ih hrest ⟨x, hx, hpx, hqx⟩
      by_cases hq : q a = true
      · have hp := h a List.mem_cons_self hq
        simp only [List.filter_cons, hq, hp, if_true, List.length_cons]
        omega
      · by_cases hp : p a = true
        · simp only [List.filter_cons, hq, hp, if_true, Bool.false_eq_true, if_false, List.length_cons]
          omega
        · simp only [List.filter_cons, hq, hp, Bool.false_eq_true, if_false]
          exact lt

/-- the pending list of the next sync is a sub-selection of this sync's, whatever the environment does -/
theorem C08_pending_shrinks (c : Cfg) (d : ObjMap) (kids : List J) (obs obs' : ObjMap) (prs : List PRev) (hne : prs ≠ [])
    (hk : KidsDesired c d kids) :
    (pendingAt c d kids obs' (round c d kids obs prs).1).length ≤ (pendingAt c d kids obs prs).length := by
  apply filter_length_le
  intro x _ hq
  cases hp : pending c (atGate c d obs prs).2 x with
  | true => rfl
  | false =>
    rw [C08_never_back c d kids obs obs' prs hne hk x hp] at hq
    exact absurd hq (by simp)

/-- ... and strictly shorter after a sync whose gate was open while something was pending -/
theorem C08_pending_drops (c : Cfg) (d : ObjMap) (kids : List J) (obs obs' : ObjMap) (prs : List PRev) (hne : prs ≠ [])
    (hk : KidsDesired c d kids) (hg : gateOpen c d obs prs = true) (hp : pendingAt c d kids obs prs ≠ []) :
    (pendingAt c d kids obs' (round c d kids obs prs).1).length < (pendingAt c d kids obs prs).length := by
  have hsome : ∃ f, firstPending c (atGate c d obs prs).2 kids = some f := by
    cases hf : firstPending c (atGate c d obs prs).2 kids with
    | some f => exact ⟨f, rfl⟩
    | none =>
      exfalso
      apply hp
      unfold pendingAt
      rw [List.filter_eq_nil_iff]
      intro x hx hpx
      unfold firstPending at hf
      exact absurd hpx (by simpa using List.find?_eq_none.mp hf x hx)
  obtain ⟨f, hf⟩ := hsome
  obtain ⟨hmem, hpf⟩ := firstPending_mem c _ kids f hf
  apply filter_length_lt
  · intro x _ hq
    cases hpx : pending c (atGate c d obs prs).2 x with
    | true => rfl
    | false =>
      rw [C08_never_back c d kids obs obs' prs hne hk x hpx] at hq
      exact absurd hq (by simp)
  · exact ⟨f, hmem, hpf, C08_progress c d kids obs obs' prs hne hk f hf hg⟩

/-- the revisions after a sequence of syncs, each seeing its own observed map -/
def run (c : Cfg) (d : ObjMap) (kids : List J) : List PRev → List ObjMap → List PRev
  | prs, [] => prs
  | prs, obs :: rest => run c d kids (round c d kids obs prs).1 rest

/-- the number of syncs of the sequence in which something was pending and the health gate was open -/
def openRounds (c : Cfg) (d : ObjMap) (kids : List J) : List PRev → List ObjMap → Nat
  | _, [] => 0
  | prs, obs :: rest =>
      (if gateOpen c d obs prs && !(pendingAt c d kids obs prs).isEmpty then 1 else 0) +
        openRounds c d kids (round c d kids obs prs).1 rest

theorem run_ne (c : Cfg) (d : ObjMap) (kids : List J) (hk : KidsDesired c d kids) : ∀ (obss : List ObjMap) (prs : List PRev),
    prs ≠ [] → run c d kids prs obss ≠ [] := by
  intro obss
  induction obss with
  | nil => intro prs h; exact h
  | cons obs rest ih => intro prs h; exact ih _ (round_keeps c d kids obs prs h hk).1

/-- **C08 (liveness, counting form)**: over any sequence of syncs and any environment, what is pending in the sync after
    the sequence, plus the number of syncs of the sequence whose gate was open while something was pending, is at
    most what was pending in the first sync -/
theorem C08_completes (c : Cfg) (d : ObjMap) (kids : List J) (hk : KidsDesired c d kids) :
    ∀ (obss : List ObjMap) (prs : List PRev) (oEnd : ObjMap), prs ≠ [] →
      (pendingAt c d kids oEnd (run c d kids prs obss)).length + openRounds c d kids prs obss ≤
        (pendingAt c d kids (obss.headD oEnd) prs).length := by
  intro obss
  induction obss with
  | nil => intro prs oEnd _; simp [run, openRounds]
  | cons obs rest ih =>
    intro prs oEnd hne
    have hne' := (round_keeps c d kids obs prs hne hk).1
    have h1 := ih (round c d kids obs prs).1 oEnd hne'
    simp only [run, openRounds, List.headD_cons]
    by_cases hopen : (gateOpen c d obs prs && !(pendingAt c d kids obs prs).isEmpty) = true
    · rw [Bool.and_eq_true] at hopen
      have hp : pendingAt c d kids obs prs ≠ [] := by
        intro e; rw [e] at hopen; simp at hopen
      have h2 := C08_pending_drops c d kids obs (rest.headD oEnd) prs hne hk hopen.1 hp
      simp only [hopen.1, hopen.2, Bool.and_self, if_true]
      omega
    · have h2 := C08_pending_shrinks c d kids obs (rest.headD oEnd) prs hne hk
      simp only [hopen, Bool.false_eq_true, if_false]
      omega

/-- **C08 (liveness)**: once as many open-gate syncs have happened as children were pending - at most the number of
    children of the latest hook answer - nothing is pending, the next sync reports `OnLatestRevision` and moves nothing -/
theorem C08_rollout_completes (c : Cfg) (d : ObjMap) (kids : List J) (hk : KidsDesired c d kids)
    (obss : List ObjMap) (prs : List PRev) (oEnd : ObjMap) (hne : prs ≠ [])
    (hfair : kids.length ≤ openRounds c d kids prs obss) :
    pendingAt c d kids oEnd (run c d kids prs obss) = [] ∧
    round c d kids oEnd (run c d kids prs obss) =
      ((atGate c d oEnd (run c d kids prs obss)).1,
        condJ "True" "OnLatestRevision" s!"latest ControllerRevision: {((atGate c d oEnd (run c d kids prs obss)).1.headD default).name}") := by
  have h := C08_completes c d kids hk obss prs oEnd hne
  have hle : (pendingAt c d kids (obss.headD oEnd) prs).length ≤ kids.length := by
    unfold pendingAt; exact List.length_filter_le _ _
  have hz : (pendingAt c d kids oEnd (run c d kids prs obss)).length = 0 := by omega
  have hnil := List.eq_nil_of_length_eq_zero hz
  refine ⟨hnil, ?_⟩
  unfold round
  apply C07_complete
  unfold firstPending
  rw [List.find?_eq_none]
  intro x hx hpx
  have : x ∈ pendingAt c d kids oEnd (run c d kids prs obss) := by
    unfold pendingAt; exact List.mem_filter.mpr ⟨hx, hpx⟩
  rw [hnil] at this
  simp at this

/-- ... and it stays complete: no later sync, under any environment, makes a child pending again -/
theorem C08_stays_complete (c : Cfg) (d : ObjMap) (kids : List J) (hk : KidsDesired c d kids)
    (obs obs' : ObjMap) (prs : List PRev) (hne : prs ≠ []) (h : pendingAt c d kids obs prs = []) :
    pendingAt c d kids obs' (round c d kids obs prs).1 = [] := by
  have := C08_pending_shrinks c d kids obs obs' prs hne hk
  rw [h] at this
  exact List.eq_nil_of_length_eq_zero (by simpa using this)

/-! ### the claims survive the trip through the ControllerRevision objects

`manageRevisions` writes the claims of a revision with `setRevChildren` (the typed client drops an empty list),
`syncRevisions` reads them with `(revChildren rev).getD []`: what one sync stores is what the next one starts from.
(That the API server hands back the object it accepted is part of the API model and its correspondence check.) -/

theorem filterMap_str (ns : List String) : List.filterMap (J.str? ∘ J.str) ns = ns := by
  induction ns with
  | nil => rfl
  | cons n rest ih => simp [List.filterMap_cons, J.str?, ih]

/-- a claim group survives being written into a ControllerRevision and read back -/
theorem CGroup.ofJ_toJ (g : CGroup) : CGroup.ofJ (CGroup.toJ g) = g := by
  cases g with
  | mk a k ns =>
    simp only [CGroup.ofJ, CGroup.toJ, strAt, nestedField, J.get?, J.fields, lookup]
    simp [List.filterMap_map, filterMap_str]

theorem map_ofJ_toJ (gs : List CGroup) : (gs.map CGroup.toJ).map CGroup.ofJ = gs := by
  induction gs with
  | nil => rfl
  | cons g rest ih => simp [CGroup.ofJ_toJ, ih]

theorem lookup_eraseKey_self (k : String) : ∀ d : KVs, lookup k (eraseKey k d) = none := by
  intro d
  induction d with
  | nil => rfl
  | cons x rest ih =>
    obtain ⟨a, b⟩ := x
    by_cases h : a = k
    · subst h; simpa [eraseKey] using ih
    · have hb : (a == k) = false := by simpa using h
      have hne : ¬ k = a := fun e => h e.symm
      have ih' : lookup k (List.filter (fun kv => !(kv.1 == k)) rest) = none := ih
      simp only [eraseKey, List.filter_cons, hb, Bool.not_false, if_true, lookup, hne, if_false]
      exact ih'

/-- **store round trip of the claims**: the children a sync writes into a ControllerRevision (`setRevChildren`, with the
    typed client's `omitempty`) are the children the next sync reads from it (`revChildren`, nil slice = no claims) -/
theorem revChildren_setRevChildren (rev : J) (gs : List CGroup) :
    (revChildren (setRevChildren rev gs)).getD [] = gs := by
  cases gs with
  | nil =>
    simp only [setRevChildren, revChildren, J.get?, J.fields]
    rw [lookup_eraseKey_self]
    rfl
  | cons g rest =>
    simp only [setRevChildren, revChildren, J.get?, J.fields, lookup_setKey_same]
    have := map_ofJ_toJ rest
    simp only [List.map_map] at this
    simp [CGroup.ofJ_toJ, this]


/-! ### non-vacuity: the hypotheses hold on a concrete rollout in progress

Revision 0 claims `a`, revision 1 claims `b` and `c` (the configuration of `Mc.C07.Ex`); `a` is observed and up to date. -/
section Example
open Mc.C07.Ex


theorem ex_kids : KidsDesired cfg0 desired0 kids := by
  intro x hx _
  simp only [kids, List.mem_cons, List.not_mem_nil, or_false] at hx
  rcases hx with rfl | rfl | rfl <;>
    simp [pod_av, pod_kind, pod_name, ObjMap.findGK, desired0, objs, core, List.lookup]

theorem ex_rolling : cfg0.isRolling core "Pod" = true := cfg0_rolling

theorem ex_phase1 : syncRevisionClaims cfg0 desired0 prs1 0 [] = (prs1, cl1) := by
  simp [syncRevisionClaims, prs1, rev, filterGroups, filterNames, ex_rolling, desired0, objs, ObjMap.findGK, List.lookup,
    Claims.get, Claims.set, cl1, claimKey]



theorem ex_flat : flatOf desired0 = [(⟨core, "v1", "Pod"⟩, "a", pod "a"), (⟨core, "v1", "Pod"⟩, "b", pod "b"), (⟨core, "v1", "Pod"⟩, "c", pod "c")] := by
  simp [flatOf, desired0, objs]

theorem ex_atGate : atGate cfg0 desired0 obsHappy prs1 = (prs1, cl1) := by
  unfold atGate
  rw [ex_phase1, ex_flat]
  simp [immediateMoves, ex_rolling, cl1, Claims.get, claimKey, obsHappy, objs, ObjMap.findGK, List.lookup]

theorem ex_gate : gateOpen cfg0 desired0 obsHappy prs1 = true := by
  unfold gateOpen
  rw [ex_atGate, Ex.gate_open]
  rfl

theorem ex_pending : pendingAt cfg0 desired0 kids obsHappy prs1 = [pod "b", pod "c"] := by
  unfold pendingAt
  rw [ex_atGate]
  simp [kids, pending, pod_av, pod_kind, pod_name, cfg0_rolling, cl1, Claims.get, core, List.filter]


/-- the premises of `C08_pending_drops` hold here, so `b` leaves the pending list for good -/
example (obs' : ObjMap) :
    (pendingAt cfg0 desired0 kids obs' (round cfg0 desired0 kids obsHappy prs1).1).length < 2 := by
  have h := C08_pending_drops cfg0 desired0 kids obsHappy obs' prs1 (by simp [prs1]) ex_kids ex_gate (by rw [ex_pending]; simp)
  rw [ex_pending] at h
  exact h

/-- and of `C08_progress`: the first pending child is `b` -/
example (obs' : ObjMap) : pending cfg0 (atGate cfg0 desired0 obs' (round cfg0 desired0 kids obsHappy prs1).1).2 (pod "b") = false :=
  C08_progress cfg0 desired0 kids obsHappy obs' prs1 (by simp [prs1]) ex_kids (pod "b") (by rw [ex_atGate]; exact first1) ex_gate
end Example

end Mc.C08
