import Mc.Sync.Common
/-
  C06 - each child type is changed only by the method its update strategy allows.
  Theorems about `updateAct` (the decision of `updateChildren` under dynamic apply) for every
  observed/desired pair, every method string, every merge-key list.
-/
namespace Mc.C06

def ChildAct.isNone : ChildAct → Bool | .none => true | _ => false
def ChildAct.isUpdate : ChildAct → Bool | .update _ => true | _ => false
def ChildAct.isDelete : ChildAct → Bool | .delete _ => true | _ => false
def ChildAct.isError : ChildAct → Bool | .error _ => true | _ => false

/-- "differs": the three-way merge changes the observed object -/
def differs (mks sys : List String) (obs des : J) : Bool :=
  match applyUpdate mks sys obs des with
  | .ok new => !new.eqv obs
  | .error _ => false

/-- whatever the strategy, a child that already matches receives no write -/
theorem C06_equal_no_write (mks sys : List String) (m : String) (obs des new : J)
    (h : applyUpdate mks sys obs des = .ok new) (heq : new.eqv obs = true) :
    ChildAct.isNone (updateAct mks sys m obs des) = true := by
  simp [updateAct, h, heq, ChildAct.isNone]

/-- whatever the strategy, a child pending deletion receives no write -/
theorem C06_pending_no_write (mks sys : List String) (m : String) (obs des new : J)
    (h : applyUpdate mks sys obs des = .ok new) (hd : isDeleting obs = true) :
    ChildAct.isNone (updateAct mks sys m obs des) = true := by
  unfold updateAct
  simp only [h]
  split <;> simp [hd, ChildAct.isNone]

/-- a failed merge is reported, never acted upon -/
theorem C06_merge_error (mks sys : List String) (m : String) (obs des : J) (e : String)
    (h : applyUpdate mks sys obs des = .error e) :
    ChildAct.isError (updateAct mks sys m obs des) = true := by
  simp [updateAct, h, ChildAct.isError]

/-- OnDelete (or no strategy): neither updated nor deleted -/
theorem C06_ondelete (mks sys : List String) (m : String) (obs des : J)
    (hm : m = "OnDelete" ∨ m = "") :
    ChildAct.isUpdate (updateAct mks sys m obs des) = false ∧ ChildAct.isDelete (updateAct mks sys m obs des) = false := by
  unfold updateAct
  rcases hm with rfl | rfl <;>
  · split
    · simp [ChildAct.isUpdate, ChildAct.isDelete]
    · split
      · simp [ChildAct.isUpdate, ChildAct.isDelete]
      · split <;> simp [ChildAct.isUpdate, ChildAct.isDelete]

/-- Recreate / RollingRecreate: deleted - never updated in place - exactly when it differs and is not pending deletion;
    the delete names the UID of the observed object -/
theorem C06_recreate (mks sys : List String) (m : String) (obs des new : J)
    (hm : m = "Recreate" ∨ m = "RollingRecreate") (h : applyUpdate mks sys obs des = .ok new) :
    ChildAct.isUpdate (updateAct mks sys m obs des) = false ∧
    (ChildAct.isDelete (updateAct mks sys m obs des) = (!new.eqv obs && !isDeleting obs)) ∧
    (∀ uid, updateAct mks sys m obs des = .delete uid → uid = getUID obs) := by
  unfold updateAct
  simp only [h]
  rcases hm with rfl | rfl <;>
  · by_cases h1 : new.eqv obs = true
    · simp [h1, ChildAct.isUpdate, ChildAct.isDelete]
    · by_cases h2 : isDeleting obs = true
      · simp [h1, h2, ChildAct.isUpdate, ChildAct.isDelete]
      · simp [h1, h2, ChildAct.isUpdate, ChildAct.isDelete]

/-- InPlace / RollingInPlace: updated - never deleted - exactly when it differs and is not pending deletion;
    the body sent is the merged object -/
theorem C06_inplace (mks sys : List String) (m : String) (obs des new : J)
    (hm : m = "InPlace" ∨ m = "RollingInPlace") (h : applyUpdate mks sys obs des = .ok new) :
    ChildAct.isDelete (updateAct mks sys m obs des) = false ∧
    (ChildAct.isUpdate (updateAct mks sys m obs des) = (!new.eqv obs && !isDeleting obs)) ∧
    (∀ body, updateAct mks sys m obs des = .update body → body = new) := by
  unfold updateAct
  simp only [h]
  rcases hm with rfl | rfl <;>
  · by_cases h1 : new.eqv obs = true
    · simp [h1, ChildAct.isUpdate, ChildAct.isDelete]
    · by_cases h2 : isDeleting obs = true
      · simp [h1, h2, ChildAct.isUpdate, ChildAct.isDelete]
      · simp [h1, h2, ChildAct.isUpdate, ChildAct.isDelete]

/-- an unknown method is an error for a child that needs a change, and never a write -/
theorem C06_unknown_method (mks sys : List String) (m : String) (obs des : J)
    (hm : m ≠ "OnDelete" ∧ m ≠ "" ∧ m ≠ "Recreate" ∧ m ≠ "RollingRecreate" ∧ m ≠ "InPlace" ∧ m ≠ "RollingInPlace") :
    ChildAct.isUpdate (updateAct mks sys m obs des) = false ∧ ChildAct.isDelete (updateAct mks sys m obs des) = false := by
  obtain ⟨h1, h2, h3, h4, h5, h6⟩ := hm
  unfold updateAct
  split
  · simp [ChildAct.isUpdate, ChildAct.isDelete]
  · split
    · simp [ChildAct.isUpdate, ChildAct.isDelete]
    · split
      · simp [ChildAct.isUpdate, ChildAct.isDelete]
      · split <;> simp_all [ChildAct.isUpdate, ChildAct.isDelete]

/-- default method: unset, empty or `OnDelete` in the spec all read as OnDelete; a kind that is not declared too -/
theorem C06_default_method (children : List ChildRes) (group kind : String)
    (h : ∀ c ∈ children, c.group == group && c.kind == kind → c.method = none ∨ c.method = some "" ∨ c.method = some "OnDelete") :
    getMethod children group kind = "OnDelete" := by
  unfold getMethod
  split
  · rename_i c hc
    have hm := List.find?_some hc
    have hmem := List.mem_of_find?_eq_some hc
    rcases h c hmem hm with h1 | h1 | h1 <;> simp [h1]
  · rfl

/-- every delete of a child carries the UID precondition and background propagation -/
theorem C06_delete_options (uid : String) :
    strAt (deleteOpts uid) ["preconditions", "uid"] = uid ∧ strAt (deleteOpts uid) ["propagationPolicy"] = "Background" := by
  constructor <;> simp [deleteOpts, strAt, nestedField, lookup]

-- non-vacuity: a concrete child that differs, under each strategy
example : ChildAct.isUpdate (updateAct ["name"] ["uid"] "InPlace"
    (.obj [("metadata", .obj [("name", .str "c")]), ("spec", .obj [("image", .str "v1")])])
    (.obj [("metadata", .obj [("name", .str "c")]), ("spec", .obj [("image", .str "v2")])])) = true := by decide
example : ChildAct.isDelete (updateAct ["name"] ["uid"] "Recreate"
    (.obj [("metadata", .obj [("name", .str "c"), ("uid", .str "u1")]), ("spec", .obj [("image", .str "v1")])])
    (.obj [("metadata", .obj [("name", .str "c")]), ("spec", .obj [("image", .str "v2")])])) = true := by decide

end Mc.C06

namespace Mc.C06

/-- inversion: a delete is decided only under Recreate / RollingRecreate, for a child that differs and is not
    pending deletion, and names the UID of the observed object -/
theorem C06_delete_inv (mks sys : List String) (m : String) (obs des : J) (uid : String)
    (h : updateAct mks sys m obs des = .delete uid) :
    uid = getUID obs ∧ (m = "Recreate" ∨ m = "RollingRecreate") ∧
    ∃ new, applyUpdate mks sys obs des = .ok new ∧ new.eqv obs = false ∧ isDeleting obs = false := by
  unfold updateAct at h
  split at h
  · cases h
  · rename_i new hnew
    split at h
    · cases h
    · rename_i h1
      split at h
      · cases h
      · rename_i h2
        split at h
        · cases h
        · cases h
        · cases h; exact ⟨rfl, Or.inl rfl, new, hnew, by simpa using h1, by simpa using h2⟩
        · cases h; exact ⟨rfl, Or.inr rfl, new, hnew, by simpa using h1, by simpa using h2⟩
        · cases h
        · cases h
        · cases h

/-- inversion: an update is decided only under InPlace / RollingInPlace, for a child that differs and is not
    pending deletion, and its body is the merged object -/
theorem C06_update_inv (mks sys : List String) (m : String) (obs des body : J)
    (h : updateAct mks sys m obs des = .update body) :
    applyUpdate mks sys obs des = .ok body ∧ (m = "InPlace" ∨ m = "RollingInPlace") ∧
    body.eqv obs = false ∧ isDeleting obs = false := by
  unfold updateAct at h
  split at h
  · cases h
  · rename_i new hnew
    split at h
    · cases h
    · rename_i h1
      split at h
      · cases h
      · rename_i h2
        split at h
        · cases h
        · cases h
        · cases h
        · cases h
        · cases h; exact ⟨hnew, Or.inl rfl, by simpa using h1, by simpa using h2⟩
        · cases h; exact ⟨hnew, Or.inr rfl, by simpa using h1, by simpa using h2⟩
        · cases h

end Mc.C06
