import Mc.Spec.EventSpec
/-
  C14 - every change that can alter a parent's reconciliation enqueues that parent, and nothing else does:
  the handler models of `Mc/Events.lean` (transliterations of the Go handlers, tied to the code by the
  event correspondence run) enqueue exactly the parents named by the declarative specification
  `Mc/Spec/EventSpec.lean`.
  Cache hypothesis: within one informer cache a (namespace, name) pair identifies one object.
-/
namespace Mc.C14
open Mc.EvSpec

/-- informer caches are keyed by namespace/name -/
def UniqueKeys (parents : List J) : Prop :=
  parents.Pairwise (fun a b => ¬ (getNamespace a = getNamespace b ∧ getName a = getName b))

/-- decorator caches hold several resources: identity also includes apiVersion and kind -/
def UniqueKeysD (parents : List J) : Prop :=
  parents.Pairwise (fun a b => ¬ (getAPIVersion a = getAPIVersion b ∧ getKind a = getKind b ∧
    getNamespace a = getNamespace b ∧ getName a = getName b))

/-! ## helper lemmas -/

theorem add_beq_update : (EvType.add == EvType.update) = false := by decide
theorem update_beq_update : (EvType.update == EvType.update) = true := by decide
theorem delete_beq_update : (EvType.delete == EvType.update) = false := by decide
theorem add_bne_delete : (EvType.add != EvType.delete) = true := by decide
theorem update_bne_delete : (EvType.update != EvType.delete) = true := by decide
theorem delete_bne_delete : (EvType.delete != EvType.delete) = false := by decide

theorem admitted_eq (c : Cfg) (p : J) : admitted c p = !c.ignored p := by
  unfold admitted Cfg.ignored
  cases c.doNotMatch p <;> cases hasFinalizer p c.finalizer.name <;> rfl

theorem enqueue_eq (c : Cfg) (p : J) : c.enqueue p = if admitted c p then [metaKey p] else [] := by
  rw [admitted_eq]; unfold Cfg.enqueue; cases c.ignored p <;> rfl

theorem mem_enqueue (c : Cfg) (p : J) (k : String) :
    k ∈ c.enqueue p ↔ admitted c p = true ∧ metaKey p = k := by
  rw [enqueue_eq]
  cases admitted c p
  · simp
  · simp [eq_comm]

theorem enqueue_length (c : Cfg) (p : J) : (c.enqueue p).length ≤ 1 := by
  rw [enqueue_eq]; cases admitted c p <;> simp

theorem pairwise_mem_cases {α : Type} {R : α → α → Prop} {l : List α} (h : l.Pairwise R) {a b : α}
    (ha : a ∈ l) (hb : b ∈ l) : a = b ∨ R a b ∨ R b a := by
  induction h with
  | nil => cases ha
  | @cons x xs hx _ ih =>
    rcases List.mem_cons.mp ha with rfl | ha'
    · rcases List.mem_cons.mp hb with rfl | hb'
      · exact Or.inl rfl
      · exact Or.inr (Or.inl (hx _ hb'))
    · rcases List.mem_cons.mp hb with rfl | hb'
      · exact Or.inr (Or.inr (hx _ ha'))
      · exact ih ha' hb'

/-- parent add / update / delete (tombstone or not): the parent itself, iff admitted and not an ignored status-only update -/
theorem C14_parent (c : Cfg) (ev : Event) :
    c.onParent ev = if parentWoken c ev then [metaKey ev.obj] else [] := by
  obtain ⟨ty, tomb, old, obj⟩ := ev
  cases ty
  · simp [Cfg.onParent, parentWoken, enqueue_eq, add_beq_update]
  · simp only [Cfg.onParent, parentWoken, enqueue_eq, update_beq_update]
    cases c.ignoreStatusChanges <;> cases statusOnlyChange old obj <;> cases admitted c obj <;> rfl
  · simp [Cfg.onParent, parentWoken, enqueue_eq, delete_beq_update]

theorem find_unique {parents : List J} (hu : UniqueKeys parents) {ns name : String} {p q : J}
    (hf : parents.find? (fun p => getNamespace p == ns && getName p == name) = some q)
    (hp : p ∈ parents) (hns : getNamespace p = ns) (hnm : getName p = name) : p = q := by
  have hq := List.mem_of_find?_eq_some hf
  have hqp := List.find?_some hf
  simp only [Bool.and_eq_true, beq_iff_eq] at hqp
  rcases pairwise_mem_cases hu hp hq with h | h | h
  · exact h
  · exact absurd ⟨hns.trans hqp.1.symm, hnm.trans hqp.2.symm⟩ h
  · exact absurd ⟨hqp.1.trans hns.symm, hqp.2.trans hnm.symm⟩ h

/-- under the cache hypothesis `resolveRef` returns exactly the admitted cached parent the reference denotes -/
theorem resolveRef_iff (c : Cfg) (parents : List J) (hu : UniqueKeys parents) (ns : String) (ref : OwnerRef) (p : J) :
    c.resolveRef parents ns ref = some p ↔ p ∈ parents ∧ admitted c p = true ∧ refersTo c ns ref p = true := by
  unfold Cfg.resolveRef refersTo
  by_cases hg : apiGroup ref.apiVersion = c.parentGroup
  · by_cases hk : ref.kind = c.parentKind
    · have hg' : (apiGroup ref.apiVersion != c.parentGroup) = false := by simp [hg]
      have hk' : (ref.kind != c.parentKind) = false := by simp [hk]
      have hg'' : (apiGroup ref.apiVersion == c.parentGroup) = true := by simp [hg]
      have hk'' : (ref.kind == c.parentKind) = true := by simp [hk]
      simp only [hg', hk', hg'', hk'', Bool.false_eq_true, if_false, Bool.true_and]
      generalize (if c.parentNamespaced = true then ns else "") = ns'
      cases hf : parents.find? (fun p => getNamespace p == ns' && getName p == ref.name) with
      | none =>
        simp only []
        constructor
        · intro h; cases h
        · rintro ⟨hp, _, hr⟩
          have hnone := List.find?_eq_none.mp hf p hp
          simp only [Bool.and_eq_true, beq_iff_eq] at hr hnone
          exact absurd ⟨hr.1.2, hr.1.1.symm⟩ hnone
      | some q =>
        simp only []
        have hq := List.mem_of_find?_eq_some hf
        have hqp := List.find?_some hf
        simp only [Bool.and_eq_true, beq_iff_eq] at hqp
        constructor
        · intro h
          by_cases hu' : getUID q = ref.uid
          · have : (getUID q != ref.uid) = false := by simp [hu']
            rw [this] at h
            simp only [Bool.false_eq_true, if_false] at h
            cases hi : c.ignored q with
            | true => rw [hi] at h; simp at h
            | false =>
              rw [hi] at h; simp only [Bool.false_eq_true, if_false] at h
              cases h
              refine ⟨hq, ?_, ?_⟩
              · rw [admitted_eq, hi]; rfl
              · simp only [Bool.and_eq_true, beq_iff_eq]
                exact ⟨⟨hqp.2.symm, hqp.1⟩, hu'⟩
          · have : (getUID q != ref.uid) = true := by simp [hu']
            rw [this] at h; simp at h
        · rintro ⟨hp, ha, hr⟩
          simp only [Bool.and_eq_true, beq_iff_eq] at hr
          have hpq : p = q := find_unique hu hf hp hr.1.2 hr.1.1.symm
          subst hpq
          have : (getUID p != ref.uid) = false := by simp [hr.2]
          rw [this]
          rw [admitted_eq] at ha
          have hi : c.ignored p = false := by cases h : c.ignored p <;> simp [h] at ha ⊢
          rw [hi]; simp
    · have hk' : (ref.kind != c.parentKind) = true := by simp [hk]
      have hk'' : (ref.kind == c.parentKind) = false := by simp [hk]
      simp [hk', hk'']
  · have hg' : (apiGroup ref.apiVersion != c.parentGroup) = true := by simp [hg]
    have hg'' : (apiGroup ref.apiVersion == c.parentGroup) = false := by simp [hg]
    simp [hg', hg'']

theorem mem_resolve_enqueue (c : Cfg) (parents : List J) (hu : UniqueKeys parents) (ns : String) (ref : OwnerRef) (k : String) :
    k ∈ (match c.resolveRef parents ns ref with
          | none => []
          | some p => c.enqueue p) ↔
      ∃ p ∈ parents, (admitted c p = true ∧ refersTo c ns ref p = true) ∧ metaKey p = k := by
  cases hr : c.resolveRef parents ns ref with
  | none =>
    simp only []
    constructor
    · intro h; cases h
    · rintro ⟨p, hp, ⟨ha, hrf⟩, _⟩
      have := (resolveRef_iff c parents hu ns ref p).mpr ⟨hp, ha, hrf⟩
      rw [hr] at this; cases this
  | some q =>
    simp only []
    obtain ⟨hq, ha, hrf⟩ := (resolveRef_iff c parents hu ns ref q).mp hr
    constructor
    · intro h
      exact ⟨q, hq, ⟨ha, hrf⟩, ((mem_enqueue c q k).mp h).2⟩
    · rintro ⟨p, hp, ⟨ha', hrf'⟩, hk⟩
      have := (resolveRef_iff c parents hu ns ref p).mpr ⟨hp, ha', hrf'⟩
      rw [hr] at this; cases this
      exact (mem_enqueue c q k).mpr ⟨ha, hk⟩

theorem mem_onChildDelete (c : Cfg) (parents : List J) (hu : UniqueKeys parents) (child : J) (k : String) :
    k ∈ c.onChildDelete parents child ↔
      ∃ p ∈ parents, (admitted c p = true ∧
        (match controllerOf child with
         | some ref => refersTo c (getNamespace child) ref p
         | none => false) = true) ∧ metaKey p = k := by
  unfold Cfg.onChildDelete
  cases controllerOf child with
  | none => simp
  | some ref => exact mem_resolve_enqueue c parents hu (getNamespace child) ref k

theorem mem_potentialParents (c : Cfg) (parents : List J) (child p : J) :
    p ∈ c.potentialParents parents child ↔ p ∈ parents ∧ wantsOrphan c p child = true := by
  unfold Cfg.potentialParents wantsOrphan
  cases (c.parentNamespaced && getNamespace child != "")
  · simp only [Bool.false_eq_true, if_false, List.mem_filter, Bool.true_and]
    constructor
    · rintro ⟨h1, h2⟩; exact ⟨h1, h2⟩
    · rintro ⟨h1, h2⟩; exact ⟨h1, h2⟩
  · simp only [if_true, List.mem_filter, Bool.and_eq_true]
    constructor
    · rintro ⟨⟨h1, h2⟩, h3⟩; exact ⟨h1, h2, h3⟩
    · rintro ⟨h1, h2, h3⟩; exact ⟨⟨h1, h2⟩, h3⟩

theorem mem_onChildAdd (c : Cfg) (parents : List J) (hu : UniqueKeys parents) (child : J) (k : String) :
    k ∈ c.onChildAdd parents child ↔
      ∃ p ∈ parents, (admitted c p = true ∧
        (match controllerOf child with
         | some ref => refersTo c (getNamespace child) ref p
         | none => !isDeleting child && wantsOrphan c p child) = true) ∧ metaKey p = k := by
  unfold Cfg.onChildAdd
  cases hd : isDeleting child with
  | true =>
    simp only [if_true]
    rw [mem_onChildDelete c parents hu]
    cases controllerOf child <;> simp
  | false =>
    simp only [Bool.false_eq_true, if_false]
    cases controllerOf child with
    | some ref => exact mem_resolve_enqueue c parents hu (getNamespace child) ref k
    | none =>
      simp only [List.mem_flatMap, mem_potentialParents, mem_enqueue, Bool.not_false, Bool.true_and]
      constructor
      · rintro ⟨p, ⟨hp, hw⟩, ha, hk⟩; exact ⟨p, hp, ⟨ha, hw⟩, hk⟩
      · rintro ⟨p, hp, ⟨ha, hw⟩, hk⟩; exact ⟨p, ⟨hp, hw⟩, ha, hk⟩

/-- child events, soundness and completeness: a key is queued iff it is the key of a cached parent the event wakes -/
theorem C14_child (c : Cfg) (parents : List J) (ev : Event) (hu : UniqueKeys parents) (k : String) :
    k ∈ c.onChild parents ev ↔ ∃ p ∈ parents, childWakes c ev p = true ∧ metaKey p = k := by
  obtain ⟨ty, tomb, old, obj⟩ := ev
  cases ty
  · simp only [Cfg.onChild, childWakes, isReplay, add_beq_update, add_bne_delete, Bool.false_and, Bool.not_false,
      Bool.true_and, Bool.and_eq_true]
    exact mem_onChildAdd c parents hu obj k
  · simp only [Cfg.onChild, childWakes, isReplay, update_beq_update, update_bne_delete, Bool.true_and, Bool.and_eq_true]
    cases hrv : (getResourceVersion old == getResourceVersion obj) with
    | true => simp
    | false =>
      simp only [Bool.false_eq_true, if_false, Bool.not_false, true_and]
      exact mem_onChildAdd c parents hu obj k
  · simp only [Cfg.onChild, childWakes, isReplay, delete_beq_update, delete_bne_delete, Bool.false_and, Bool.not_false,
      Bool.true_and, Bool.and_eq_true]
    exact mem_onChildDelete c parents hu obj k

/-- related-object events -/
theorem C14_related (c : Cfg) (parents : List J) (answer : J → Option J) (ev : Event) (k : String) :
    k ∈ c.onRelated parents answer ev ↔ ∃ p ∈ parents, relatedWakes c answer ev p = true ∧ metaKey p = k := by
  obtain ⟨ty, tomb, old, obj⟩ := ev
  cases ty
  · simp only [Cfg.onRelated, relatedSlice, relatedParents, relatedWakes, isReplay, add_beq_update,
      List.isEmpty_cons, Bool.false_and, Bool.not_false, Bool.true_and, Bool.false_eq_true, if_false,
      List.mem_flatMap, List.mem_filter, mem_enqueue, Bool.and_eq_true]
    constructor
    · rintro ⟨p, ⟨hp, hm⟩, ha, hk⟩; exact ⟨p, hp, ⟨ha, hm⟩, hk⟩
    · rintro ⟨p, hp, ⟨ha, hm⟩, hk⟩; exact ⟨p, ⟨hp, hm⟩, ha, hk⟩
  · simp only [Cfg.onRelated, relatedSlice, relatedParents, relatedWakes, isReplay, update_beq_update,
      Bool.true_and, if_true, Bool.and_eq_true]
    cases hrv : (getResourceVersion old == getResourceVersion obj) with
    | true => simp
    | false =>
      simp only [List.isEmpty_cons, Bool.not_false, Bool.false_eq_true, if_false,
        List.mem_flatMap, List.mem_filter, mem_enqueue, true_and]
      constructor
      · rintro ⟨p, ⟨hp, hm⟩, ha, hk⟩; exact ⟨p, hp, ⟨ha, hm⟩, hk⟩
      · rintro ⟨p, hp, ⟨ha, hm⟩, hk⟩; exact ⟨p, ⟨hp, hm⟩, ha, hk⟩
  · simp only [Cfg.onRelated, relatedSlice, relatedParents, relatedWakes, isReplay, delete_beq_update,
      List.isEmpty_cons, Bool.false_and, Bool.not_false, Bool.true_and, Bool.false_eq_true, if_false,
      List.mem_flatMap, List.mem_filter, mem_enqueue, Bool.and_eq_true]
    constructor
    · rintro ⟨p, ⟨hp, hm⟩, ha, hk⟩; exact ⟨p, hp, ⟨ha, hm⟩, hk⟩
    · rintro ⟨p, hp, ⟨ha, hm⟩, hk⟩; exact ⟨p, ⟨hp, hm⟩, ha, hk⟩

/-- cache resyncs (unchanged resourceVersion) enqueue nothing -/
theorem C14_replay_silent (c : Cfg) (parents : List J) (answer : J → Option J) (ev : Event) (h : isReplay ev = true) :
    c.onChild parents ev = [] ∧ c.onRelated parents answer ev = [] := by
  obtain ⟨ty, tomb, old, obj⟩ := ev
  cases ty
  · simp [isReplay, add_beq_update] at h
  · simp only [isReplay, update_beq_update, Bool.true_and] at h
    simp [Cfg.onChild, Cfg.onRelated, relatedSlice, relatedParents, h]
  · simp [isReplay, delete_beq_update] at h

/-- parents that neither match nor carry the finalizer are never queued, by any handler -/
theorem C14_only_admitted (c : Cfg) (parents : List J) (answer : J → Option J) (ev : Event) (hu : UniqueKeys parents) (k : String)
    (h : k ∈ c.onParent ev ∨ k ∈ c.onChild parents ev ∨ k ∈ c.onRelated parents answer ev) :
    ∃ p, admitted c p = true ∧ metaKey p = k ∧ (p = ev.obj ∨ p ∈ parents) := by
  rcases h with h | h | h
  · rw [C14_parent] at h
    cases hw : parentWoken c ev with
    | false => rw [hw] at h; simp at h
    | true =>
      rw [hw] at h
      simp only [if_true, List.mem_singleton] at h
      unfold parentWoken at hw
      simp only [Bool.and_eq_true] at hw
      exact ⟨ev.obj, hw.1, h.symm, Or.inl rfl⟩
  · obtain ⟨p, hp, hw, hk⟩ := (C14_child c parents ev hu k).mp h
    unfold childWakes at hw
    simp only [Bool.and_eq_true] at hw
    exact ⟨p, hw.1.2, hk, Or.inr hp⟩
  · obtain ⟨p, hp, hw, hk⟩ := (C14_related c parents answer ev k).mp h
    unfold relatedWakes at hw
    simp only [Bool.and_eq_true] at hw
    exact ⟨p, hw.1.2, hk, Or.inr hp⟩

theorem resolve_enqueue_length (c : Cfg) (parents : List J) (ns : String) (ref : OwnerRef) :
    (match c.resolveRef parents ns ref with
      | none => []
      | some p => c.enqueue p).length ≤ 1 := by
  cases c.resolveRef parents ns ref with
  | none => simp
  | some p => exact enqueue_length c p

theorem onChildDelete_length (c : Cfg) (parents : List J) (child : J) (ref : OwnerRef)
    (h : controllerOf child = some ref) : (c.onChildDelete parents child).length ≤ 1 := by
  unfold Cfg.onChildDelete
  rw [h]
  exact resolve_enqueue_length c parents (getNamespace child) ref

theorem onChildAdd_length (c : Cfg) (parents : List J) (child : J) (ref : OwnerRef)
    (h : controllerOf child = some ref) : (c.onChildAdd parents child).length ≤ 1 := by
  unfold Cfg.onChildAdd
  cases isDeleting child with
  | true => simp only [if_true]; exact onChildDelete_length c parents child ref h
  | false =>
    simp only [Bool.false_eq_true, if_false]
    rw [h]
    exact resolve_enqueue_length c parents (getNamespace child) ref

/-- a controlled child wakes only the parent its owner reference resolves to by kind, name and UID: at most one key -/
theorem C14_controlled_child_one_parent (c : Cfg) (parents : List J) (ev : Event) (ref : OwnerRef)
    (h : controllerOf ev.obj = some ref) : (c.onChild parents ev).length ≤ 1 := by
  obtain ⟨ty, tomb, old, obj⟩ := ev
  cases ty
  · exact onChildAdd_length c parents obj ref h
  · simp only [Cfg.onChild]
    cases (getResourceVersion old == getResourceVersion obj) with
    | true => simp
    | false => simp only [Bool.false_eq_true, if_false]; exact onChildAdd_length c parents obj ref h
  · exact onChildDelete_length c parents obj ref h

/-! ## decorator -/
theorem dAdmitted_eq (c : DCfg) (p : J) : dAdmitted c p = !c.ignored p := by
  unfold dAdmitted DCfg.ignored
  cases c.selMatches p <;> cases hasFinalizer p c.finalizer.name <;> rfl

theorem dEnqueue_eq (c : DCfg) (p : J) : c.enqueue p = if dAdmitted c p then [decoratorKey p] else [] := by
  rw [dAdmitted_eq]; unfold DCfg.enqueue; cases c.ignored p <;> rfl

theorem mem_dEnqueue (c : DCfg) (p : J) (k : String) :
    k ∈ c.enqueue p ↔ dAdmitted c p = true ∧ decoratorKey p = k := by
  rw [dEnqueue_eq]
  cases dAdmitted c p
  · simp
  · simp [eq_comm]

theorem C14_parent_decorator (c : DCfg) (ev : Event) :
    c.onParent ev = if dParentWoken c ev then [decoratorKey ev.obj] else [] := by
  obtain ⟨ty, tomb, old, obj⟩ := ev
  cases ty
  · simp [DCfg.onParent, dParentWoken, dEnqueue_eq, add_beq_update]
  · simp only [DCfg.onParent, dParentWoken, dEnqueue_eq, update_beq_update]
    cases ((c.ruleExact old).any fun r => r.ignoreStatusChanges) <;> cases statusOnlyChange old obj <;>
      cases dAdmitted c obj <;> rfl
  · simp [DCfg.onParent, dParentWoken, dEnqueue_eq, delete_beq_update]

theorem find_uniqueD {parents : List J} (hu : UniqueKeysD parents) {av kd ns name : String} {p q : J}
    (hf : parents.find? (fun p => getAPIVersion p == av && getKind p == kd && getNamespace p == ns && getName p == name) = some q)
    (hp : p ∈ parents) (hav : getAPIVersion p = av) (hkd : getKind p = kd)
    (hns : getNamespace p = ns) (hnm : getName p = name) : p = q := by
  have hq := List.mem_of_find?_eq_some hf
  have hqp := List.find?_some hf
  simp only [Bool.and_eq_true, beq_iff_eq] at hqp
  obtain ⟨⟨⟨q1, q2⟩, q3⟩, q4⟩ := hqp
  rcases pairwise_mem_cases hu hp hq with h | h | h
  · exact h
  · exact absurd ⟨hav.trans q1.symm, hkd.trans q2.symm, hns.trans q3.symm, hnm.trans q4.symm⟩ h
  · exact absurd ⟨q1.trans hav.symm, q2.trans hkd.symm, q3.trans hns.symm, q4.trans hnm.symm⟩ h

theorem dResolveRef_iff (c : DCfg) (parents : List J) (hu : UniqueKeysD parents) (ns : String) (ref : OwnerRef) (p : J) :
    c.resolveRef parents ns ref = some p ↔ p ∈ parents ∧ dAdmitted c p = true ∧ dRefersTo c ns ref p = true := by
  unfold DCfg.resolveRef dRefersTo
  cases (c.resources.reverse).find? (fun r => r.group == apiGroup ref.apiVersion && r.kind == ref.kind) with
  | none => simp
  | some res =>
    simp only []
    generalize (if res.namespaced = true then ns else "") = ns'
    cases hf : parents.find? (fun p => getAPIVersion p == res.apiVersion && getKind p == res.kind &&
        getNamespace p == ns' && getName p == ref.name) with
    | none =>
      simp only []
      constructor
      · intro h; cases h
      · rintro ⟨hp, _, hr⟩
        have hnone := List.find?_eq_none.mp hf p hp
        simp only [Bool.and_eq_true, beq_iff_eq] at hr hnone
        obtain ⟨⟨⟨⟨r1, r2⟩, r3⟩, r4⟩, r5⟩ := hr
        exact absurd ⟨⟨⟨r1, r2⟩, r4⟩, r3.symm⟩ hnone
    | some q =>
      simp only []
      have hq := List.mem_of_find?_eq_some hf
      have hqp := List.find?_some hf
      simp only [Bool.and_eq_true, beq_iff_eq] at hqp
      obtain ⟨⟨⟨q1, q2⟩, q3⟩, q4⟩ := hqp
      constructor
      · intro h
        by_cases hu' : getUID q = ref.uid
        · have : (getUID q != ref.uid) = false := by simp [hu']
          rw [this] at h
          simp only [Bool.false_eq_true, if_false] at h
          cases hi : c.ignored q with
          | true => rw [hi] at h; simp at h
          | false =>
            rw [hi] at h; simp only [Bool.false_eq_true, if_false] at h
            cases h
            refine ⟨hq, ?_, ?_⟩
            · rw [dAdmitted_eq, hi]; rfl
            · simp only [Bool.and_eq_true, beq_iff_eq]
              exact ⟨⟨⟨⟨q1, q2⟩, q4.symm⟩, q3⟩, hu'⟩
        · have : (getUID q != ref.uid) = true := by simp [hu']
          rw [this] at h; simp at h
      · rintro ⟨hp, ha, hr⟩
        simp only [Bool.and_eq_true, beq_iff_eq] at hr
        obtain ⟨⟨⟨⟨r1, r2⟩, r3⟩, r4⟩, r5⟩ := hr
        have hpq : p = q := find_uniqueD hu hf hp r1 r2 r4 r3.symm
        subst hpq
        have : (getUID p != ref.uid) = false := by simp [r5]
        rw [this]
        rw [dAdmitted_eq] at ha
        have hi : c.ignored p = false := by cases h : c.ignored p <;> simp [h] at ha ⊢
        rw [hi]; simp

theorem mem_dOnChildDelete (c : DCfg) (parents : List J) (hu : UniqueKeysD parents) (child : J) (k : String) :
    k ∈ c.onChildDelete parents child ↔
      ∃ p ∈ parents, (dAdmitted c p = true ∧
        (match controllerOf child with
         | some ref => dRefersTo c (getNamespace child) ref p
         | none => false) = true) ∧ decoratorKey p = k := by
  unfold DCfg.onChildDelete
  cases controllerOf child with
  | none => simp
  | some ref =>
    simp only []
    cases hr : c.resolveRef parents (getNamespace child) ref with
    | none =>
      simp only []
      constructor
      · intro h; cases h
      · rintro ⟨p, hp, ⟨ha, hrf⟩, _⟩
        have := (dResolveRef_iff c parents hu _ ref p).mpr ⟨hp, ha, hrf⟩
        rw [hr] at this; cases this
    | some q =>
      simp only []
      obtain ⟨hq, ha, hrf⟩ := (dResolveRef_iff c parents hu _ ref q).mp hr
      constructor
      · intro h
        exact ⟨q, hq, ⟨ha, hrf⟩, ((mem_dEnqueue c q k).mp h).2⟩
      · rintro ⟨p, hp, ⟨ha', hrf'⟩, hk⟩
        have := (dResolveRef_iff c parents hu _ ref p).mpr ⟨hp, ha', hrf'⟩
        rw [hr] at this; cases this
        exact (mem_dEnqueue c q k).mpr ⟨ha, hk⟩

theorem dOnChildAdd_eq (c : DCfg) (parents : List J) (child : J) :
    c.onChildAdd parents child = c.onChildDelete parents child := by
  unfold DCfg.onChildAdd; cases isDeleting child <;> rfl

theorem C14_child_decorator (c : DCfg) (parents : List J) (ev : Event) (hu : UniqueKeysD parents) (k : String) :
    k ∈ c.onChild parents ev ↔ ∃ p ∈ parents, dChildWakes c ev p = true ∧ decoratorKey p = k := by
  obtain ⟨ty, tomb, old, obj⟩ := ev
  cases ty
  · simp only [DCfg.onChild, dOnChildAdd_eq, dChildWakes, isReplay, add_beq_update, Bool.false_and, Bool.not_false,
      Bool.true_and, Bool.and_eq_true]
    exact mem_dOnChildDelete c parents hu obj k
  · simp only [DCfg.onChild, dOnChildAdd_eq, dChildWakes, isReplay, update_beq_update, Bool.true_and, Bool.and_eq_true]
    cases hrv : (getResourceVersion old == getResourceVersion obj) with
    | true => simp
    | false =>
      simp only [Bool.false_eq_true, if_false, Bool.not_false, true_and]
      exact mem_dOnChildDelete c parents hu obj k
  · simp only [DCfg.onChild, dChildWakes, isReplay, delete_beq_update, Bool.false_and, Bool.not_false,
      Bool.true_and, Bool.and_eq_true]
    exact mem_dOnChildDelete c parents hu obj k

theorem dOnChildDelete_orphan (c : DCfg) (parents : List J) (child : J) (h : controllerOf child = none) :
    c.onChildDelete parents child = [] := by
  unfold DCfg.onChildDelete; rw [h]

/-- decorators never react to orphans -/
theorem C14_decorator_ignores_orphans (c : DCfg) (parents : List J) (ev : Event) (h : controllerOf ev.obj = none) :
    c.onChild parents ev = [] := by
  obtain ⟨ty, tomb, old, obj⟩ := ev
  cases ty
  · simp only [DCfg.onChild, dOnChildAdd_eq]; exact dOnChildDelete_orphan c parents obj h
  · simp only [DCfg.onChild, dOnChildAdd_eq]
    rw [dOnChildDelete_orphan c parents obj h]; simp
  · exact dOnChildDelete_orphan c parents obj h

/-! ## non-vacuity: concrete instances of the hypotheses and of `childWakes` -/
namespace Example

/-- namespaced parent kind `Thing` in group `ctl.example.com`, generated selector (`controller-uid` label) -/
def cfg : Cfg :=
  { name := "cc", parentGroup := "ctl.example.com", parentVersion := "v1", parentKind := "Thing",
    parentResource := "things", parentNamespaced := true, parentHasStatus := true, children := [],
    generateSelector := true, parentSelector := none, finalize := false, customize := false, ssa := false,
    fieldPaths := [] }
def p1 : J := .obj [("metadata", .obj [("name", .str "a"), ("namespace", .str "ns"), ("uid", .str "u1")])]
def p2 : J := .obj [("metadata", .obj [("name", .str "b"), ("namespace", .str "ns"), ("uid", .str "u2")])]

/-- an orphan in the parents' namespace carrying the label the generated selector of `p2` asks for -/
def orphan : J := .obj [("metadata", .obj [("name", .str "y"), ("namespace", .str "ns"), ("resourceVersion", .str "2"),
  ("labels", .obj [("controller-uid", .str "u2")])])]
def evOrphan : Event := { type := .add, obj := orphan }

/-- the cache hypothesis holds for two parents with distinct names -/
example : UniqueKeys [p1, p2] := by unfold UniqueKeys; decide

/-- the orphan wakes `p2` and not `p1` -/
example : childWakes cfg evOrphan p2 = true ∧ childWakes cfg evOrphan p1 = false := by decide

/-- ... hence, by `C14_child`, the handler queues the key of `p2` -/
example : "ns/b" ∈ cfg.onChild [p1, p2] evOrphan :=
  (C14_child cfg [p1, p2] evOrphan (by unfold UniqueKeys; decide) "ns/b").mpr
    ⟨p2, by simp, by decide, by decide⟩

/-- ... and, by the soundness direction, not the key of `p1` -/
example : ¬ "ns/a" ∈ cfg.onChild [p1, p2] evOrphan := by
  intro h
  obtain ⟨p, hp, hw, hk⟩ := (C14_child cfg [p1, p2] evOrphan (by unfold UniqueKeys; decide) "ns/a").mp h
  simp only [List.mem_cons, List.not_mem_nil, or_false] at hp
  rcases hp with rfl | rfl
  · revert hw; decide
  · revert hk; decide

/-- the model itself evaluates to the same queue content -/
example : cfg.onChild [p1, p2] evOrphan = ["ns/b"] := by decide

/-- a replay of the same object wakes nobody -/
example : childWakes cfg { type := .update, old := orphan, obj := orphan } p2 = false := by decide

/- A controlled child. `apiGroup` goes through `String.splitOn`, which neither `decide` nor `rfl` can evaluate
   (well-founded recursion), so the parent group of this configuration is written as the group *of the reference's
   apiVersion* (`#eval` shows it is "ctl.example.com"); everything else is evaluated. -/
def cfgG : Cfg := { cfg with parentGroup := apiGroup "ctl.example.com/v1" }
def ref1 : OwnerRef :=
  { apiVersion := "ctl.example.com/v1", kind := "Thing", name := "a", uid := "u1", controller := some true,
    blockOwnerDeletion := none }
def child : J := .obj [("metadata", .obj [("name", .str "x"), ("namespace", .str "ns"), ("resourceVersion", .str "2"),
  ("ownerReferences", .arr [.obj [("apiVersion", .str "ctl.example.com/v1"), ("kind", .str "Thing"),
     ("name", .str "a"), ("uid", .str "u1"), ("controller", .bool true)]])])]
def evChild : Event := { type := .delete, tombstone := true, obj := child }

example : childWakes cfgG evChild p1 = true := by
  have h1 : isReplay evChild = false := by decide
  have h2 : admitted cfgG p1 = true := by decide
  have h3 : controllerOf evChild.obj = some ref1 := by decide
  have h4 : refersTo cfgG (getNamespace evChild.obj) ref1 p1 = true := by
    unfold refersTo
    have hg : (apiGroup ref1.apiVersion == cfgG.parentGroup) = true := beq_self_eq_true _
    rw [hg]; decide
  unfold childWakes
  rw [h1, h2, h3]
  exact h4

end Example

end Mc.C14
