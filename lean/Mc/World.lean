import Mc.Api
/-
  The closed world a sync runs in: the API-server model plus deterministic webhooks, and every other
  client of the API server.  Other clients (users, other controllers, a second metacontroller parent,
  the garbage collector) act through the same `State.request` - there is no other way to change the
  store - so "every interleaving with outside writers" is: before each request of the program an
  arbitrary list of arbitrary requests is executed.
-/
namespace Mc
namespace Api

/-- a request by any client -/
structure ApiReq where
  v : Verb
  t : Target
  body : J
  opts : J
  deriving Inhabited

def State.exec (s : State) (r : ApiReq) : State := (s.request r.v r.t r.body r.opts).2

def State.execs (s : State) (rs : List ApiReq) : State := rs.foldl State.exec s

/-- one request of a sync program against the world -/
def worldStep (hook : String → J → Resp) (s : State) : Req → Resp × State
  | .api v t body opts => ((s.request v t body opts).1.toResp, (s.request v t body opts).2)
  | .hook n req => (hook n req, s)

/-- an execution of `p` from `s` in which other clients act (`env`) before each of its requests;
    the log records, for each request, the state it met -/
inductive Exec (hook : String → J → Resp) {α : Type} : Prog α → State → List (State × Req × Resp) → α → State → Prop where
  | ret (a : α) (s : State) : Exec hook (.ret a) s [] a s
  | call (r : Req) (k : Resp → Prog α) (s : State) (env : List ApiReq) (log : List (State × Req × Resp)) (a : α) (s' : State) :
      Exec hook (k (worldStep hook (s.execs env) r).1) (worldStep hook (s.execs env) r).2 log a s' →
      Exec hook (.call r k) s ((s.execs env, r, (worldStep hook (s.execs env) r).1) :: log) a s'

/-- `s'` is reachable from `s` by requests of arbitrary clients -/
def Evolves (s s' : State) : Prop := ∃ rs : List ApiReq, s' = s.execs rs

def emptyState (defs : List ResDef) : State := { defs, objs := [], applied := [], rv := 0, uid := 0, clock := 0 }

end Api
end Mc

namespace Mc
namespace Prog

/-- total sequential run (no fuel: a program is a well-founded tree) -/
def runT {α σ : Type} (step : σ → Req → Resp × σ) : Prog α → σ → α × σ
  | .ret a, s => (a, s)
  | .call r k, s => runT step (k (step s r).1) (step s r).2

theorem runT_bind {α β σ : Type} (step : σ → Req → Resp × σ) (p : Prog α) (f : α → Prog β) :
    ∀ s, runT step (p.bind f) s = runT step (f (runT step p s).1) (runT step p s).2 := by
  induction p with
  | ret a => intro s; rfl
  | call r k ih => intro s; simp only [Prog.bind, runT]; exact ih _ _

@[simp] theorem runT_pure {α σ : Type} (step : σ → Req → Resp × σ) (a : α) (s : σ) :
    runT step (pure a : Prog α) s = (a, s) := rfl

end Prog
end Mc
