import Mc.Sync.Related
/-
  Model of the watch-event handlers: which parents a delivered event puts on the work queue.
  composite: enqueueParentObject / updateParentObject / resolveControllerRef / onChildAdd|Update|Delete /
  findPotentialParents (pkg/controller/composite/controller.go); decorator: the same handlers of
  pkg/controller/decorator/controller.go and parentQueueKey; related objects: onRelatedAdd|Update|Delete /
  findRelatedParents (pkg/controller/common/customize/manager.go).
  An event carries the objects as delivered; a delete may arrive as a tombstone (DeletedFinalStateUnknown).
-/
namespace Mc

inductive EvType where
  | add | update | delete
  deriving Repr, BEq, DecidableEq, Inhabited

structure Event where
  type : EvType
  /-- delete delivered as a tombstone wrapping `obj` -/
  tombstone : Bool := false
  /-- previous state (updates only) -/
  old : J := .null
  obj : J
  deriving Inhabited

/-- `cache.MetaNamespaceKeyFunc` -/
def metaKey (o : J) : String := if getNamespace o == "" then getName o else getNamespace o ++ "/" ++ getName o

/-- `GetLabels()` / `GetAnnotations()` compared with `reflect.DeepEqual`: a missing map (nil) differs from an empty one -/
def sameStringMap (a b : Option KVs) : Bool :=
  match a, b with
  | none, none => true
  | some x, some y => (J.obj x).eqv (.obj y)
  | _, _ => false

/-- the ignoreStatusChanges test of `updateParentObject`: true = the update is dropped -/
def statusOnlyChange (old cur : J) : Bool :=
  getGeneration old == getGeneration cur && sameStringMap (getLabels old) (getLabels cur) &&
  sameStringMap (getAnnotations old) (getAnnotations cur) && !isDeleting cur

-- ------------------------------------------------------------------------------------------------
-- composite

/-- `enqueueParentObject` for an unstructured parent -/
def Cfg.enqueue (c : Cfg) (p : J) : List String := if c.ignored p then [] else [metaKey p]

/-- parent informer handlers: add / update / delete -/
def Cfg.onParent (c : Cfg) (ev : Event) : List String :=
  match ev.type with
  | .update => if c.ignoreStatusChanges && statusOnlyChange ev.old ev.obj then [] else c.enqueue ev.obj
  | .add => c.enqueue ev.obj
  | .delete => c.enqueue ev.obj     -- tombstones are unwrapped first

/-- `resolveControllerRef` -/
def Cfg.resolveRef (c : Cfg) (parents : List J) (childNs : String) (ref : OwnerRef) : Option J :=
  if apiGroup ref.apiVersion != c.parentGroup then none
  else if ref.kind != c.parentKind then none
  else
    let ns := if c.parentNamespaced then childNs else ""
    match parents.find? (fun p => getNamespace p == ns && getName p == ref.name) with
    | none => none
    | some p => if getUID p != ref.uid then none else if c.ignored p then none else some p

/-- `findPotentialParents` -/
def Cfg.potentialParents (c : Cfg) (parents : List J) (child : J) : List J :=
  -- `Lister().Namespace("")` lists every namespace: a cluster-scoped orphan is offered to all parents
  let pool := if c.parentNamespaced && getNamespace child != "" then parents.filter (fun p => getNamespace p == getNamespace child) else parents
  pool.filter (fun p => match c.makeSelector p with
    | .ok sel => !sel.empty && sel.matches (labelsOf child)
    | .error _ => false)

def Cfg.onChildDelete (c : Cfg) (parents : List J) (child : J) : List String :=
  match controllerOf child with
  | none => []
  | some ref => match c.resolveRef parents (getNamespace child) ref with
      | none => []
      | some p => c.enqueue p

def Cfg.onChildAdd (c : Cfg) (parents : List J) (child : J) : List String :=
  if isDeleting child then c.onChildDelete parents child
  else match controllerOf child with
    | some ref => (match c.resolveRef parents (getNamespace child) ref with
        | none => []
        | some p => c.enqueue p)
    | none => (c.potentialParents parents child).flatMap c.enqueue

/-- child informer handlers -/
def Cfg.onChild (c : Cfg) (parents : List J) (ev : Event) : List String :=
  match ev.type with
  | .add => c.onChildAdd parents ev.obj
  | .update => if getResourceVersion ev.old == getResourceVersion ev.obj then [] else c.onChildAdd parents ev.obj
  | .delete => c.onChildDelete parents ev.obj

-- ------------------------------------------------------------------------------------------------
-- related objects (customize manager), shared by both controller kinds

/-- the objects a related-object event hands to `notifyRelatedParents` -/
def relatedSlice (ev : Event) : List J :=
  match ev.type with
  | .add => [ev.obj]
  | .update => if getResourceVersion ev.old == getResourceVersion ev.obj then [] else [ev.old, ev.obj]
  | .delete => [ev.obj]

/-- does some rule of `rules` select one of the objects? (`findRelatedParents`, inner loops; rules naming an
    unknown resource and rules that do not evaluate are skipped) -/
def rulesMatch (parentNamespaced : Bool) (relRes : List ChildRes) (parent : J) (rules : List (Option RelRule)) (slice : List J) : Bool :=
  rules.any (fun orule => match orule with
    | none => false
    | some rule => match relRes.find? (fun r => r.apiVersion == rule.apiVersion && r.resource == rule.resource) with
        | none => false
        | some res => slice.any (fun rel => match matchesRelatedRule parentNamespaced parent rel rule res.kind with
            | .ok b => b
            | .error _ => false))

/-- `findRelatedParents`: `answer p` is the customize answer for `p` (cached or just obtained), `none` when the hook failed -/
def relatedParents (parentNamespaced : J → Bool) (relRes : List ChildRes) (parents : List J) (answer : J → Option J) (slice : List J) : List J :=
  if slice.isEmpty then [] else
  parents.filter (fun p => match answer p with
    | none => false
    | some body => match decodeCustomizeResp body with
        | .error _ => false
        | .ok rules => rulesMatch (parentNamespaced p) relRes p rules slice)

def Cfg.onRelated (c : Cfg) (parents : List J) (answer : J → Option J) (ev : Event) : List String :=
  (relatedParents (fun _ => c.parentNamespaced) c.related parents answer (relatedSlice ev)).flatMap c.enqueue

-- ------------------------------------------------------------------------------------------------
-- decorator

/-- `parentQueueKey` of an unstructured object -/
def decoratorKey (o : J) : String := getAPIVersion o ++ ":" ++ getKind o ++ ":" ++ getNamespace o ++ ":" ++ getName o

def DCfg.enqueue (c : DCfg) (p : J) : List String := if c.ignored p then [] else [decoratorKey p]

/-- the resource rule whose discovered (apiVersion, kind) is the object's - `updateParentObject` compares both -/
def DCfg.ruleExact (c : DCfg) (o : J) : List ParentRes :=
  c.resources.filter (fun r => r.apiVersion == getAPIVersion o && r.kind == getKind o)

def DCfg.onParent (c : DCfg) (ev : Event) : List String :=
  match ev.type with
  | .update =>
      if (c.ruleExact ev.old).any (fun r => r.ignoreStatusChanges) && statusOnlyChange ev.old ev.obj then [] else c.enqueue ev.obj
  | .add => c.enqueue ev.obj
  | .delete => c.enqueue ev.obj     -- tombstones are unwrapped first (fix of the tombstone key)

/-- `resolveControllerRef` of the decorator: resource looked up by the reference's group and kind -/
def DCfg.resolveRef (c : DCfg) (parents : List J) (childNs : String) (ref : OwnerRef) : Option J :=
  match (c.resources.reverse).find? (fun r => r.group == apiGroup ref.apiVersion && r.kind == ref.kind) with
  | none => none
  | some res =>
    let ns := if res.namespaced then childNs else ""
    match parents.find? (fun p => getAPIVersion p == res.apiVersion && getKind p == res.kind && getNamespace p == ns && getName p == ref.name) with
    | none => none
    | some p => if getUID p != ref.uid then none else if c.ignored p then none else some p

def DCfg.onChildDelete (c : DCfg) (parents : List J) (child : J) : List String :=
  match controllerOf child with
  | none => []
  | some ref => match c.resolveRef parents (getNamespace child) ref with
      | none => []
      | some p => c.enqueue p

def DCfg.onChildAdd (c : DCfg) (parents : List J) (child : J) : List String :=
  if isDeleting child then c.onChildDelete parents child else c.onChildDelete parents child

def DCfg.onChild (c : DCfg) (parents : List J) (ev : Event) : List String :=
  match ev.type with
  | .add => c.onChildAdd parents ev.obj
  | .update => if getResourceVersion ev.old == getResourceVersion ev.obj then [] else c.onChildAdd parents ev.obj
  | .delete => c.onChildDelete parents ev.obj

def DCfg.onRelated (c : DCfg) (parents : List J) (answer : J → Option J) (ev : Event) : List String :=
  (relatedParents (fun p => ((c.ruleFor p).map (·.namespaced)).getD true) c.related parents answer (relatedSlice ev)).flatMap c.enqueue

end Mc
