import Mc.Props.C05
/-
  A fixpoint law of the 3-way merge that the closed-loop convergence argument needs: an observed object that
  *extends* the desired one (has every field the desired object has, with an extending value; anything else it has
  is extra) is left exactly as it is when the desired object is also the last-applied record.
  This is the situation right after a create: the API server stores the request body plus fields of its own.
-/
namespace Mc
open C05

mutual
/-- `Ext d o`: `o` extends `d` -/
def Ext : J → J → Prop
  | .obj ds, o => ∃ os, o = .obj os ∧ ExtF ds os
  | .null, o => o.isArr = false ∧ (o.isObj = true ∨ o = .null)
  | .arr xs, o => o = .arr xs
  | .bool b, o => o = .bool b
  | .num n, o => o = .num n
  | .str s, o => o = .str s
def ExtF : KVs → KVs → Prop
  | [], _ => True
  | (k, v) :: rest, os => (∃ w, lookup k os = some w ∧ Ext v w) ∧ ExtF rest os
end

theorem ExtF_mem : ∀ (ds os : KVs), ExtF ds os → ∀ k v, (k, v) ∈ ds → ∃ w, lookup k os = some w ∧ Ext v w := by
  intro ds
  induction ds with
  | nil => intro os _ k v h; cases h
  | cons hd tl ih =>
    obtain ⟨k0, v0⟩ := hd
    intro os h k v hm
    simp only [ExtF] at h
    rcases List.mem_cons.mp hm with e | hm
    · cases e; exact h.1
    · exact ih os h.2 k v hm

theorem ExtF_of_mem : ∀ (ds os : KVs), (∀ k v, (k, v) ∈ ds → ∃ w, lookup k os = some w ∧ Ext v w) → ExtF ds os := by
  intro ds
  induction ds with
  | nil => intro os _; simp [ExtF]
  | cons hd tl ih =>
    obtain ⟨k0, v0⟩ := hd
    intro os h
    simp only [ExtF]
    exact ⟨h k0 v0 (List.mem_cons_self ..), ih os (fun k v hm => h k v (List.mem_cons_of_mem _ hm))⟩

theorem prune_nil (os : KVs) : prune os [] [] = os := prune_self os []

theorem mergeFields_ext (mks : List String) (os dsAll : KVs) (hu : uniq dsAll) :
    ∀ rest : KVs, (∀ k v, (k, v) ∈ rest → (k, v) ∈ dsAll ∧ ∃ w, lookup k os = some w ∧ merge mks w (some v) v = .ok w) →
      mergeFields mks os dsAll rest = .ok (.obj os) := by
  intro rest
  induction rest with
  | nil => intro _; simp [mergeFields]
  | cons hd tl ih =>
    obtain ⟨k, v⟩ := hd
    intro h
    obtain ⟨hmem, w, hw, hm⟩ := h k v (List.mem_cons_self ..)
    have hl : lookup k dsAll = some v := lookup_of_mem_uniq dsAll k v hu hmem
    rw [mergeFields, hw, hl]
    simp only [Option.getD_some, hm]
    rw [setKey_id k w os hw]
    exact ih (fun k' v' hm' => h k' v' (List.mem_cons_of_mem _ hm'))

/-- **fixpoint on extensions**: `o` extends `d`, `d` is both last-applied and desired: the merge returns `o` itself -/
theorem merge_ext_fix (mks : List String) : ∀ d : J, hypJ mks d = true → ∀ o, Ext d o → merge mks o (some d) d = .ok o := by
  intro d
  induction d using J.induct with
  | hnull =>
    intro _ o h
    simp only [Ext] at h
    obtain ⟨ha, ho⟩ := h
    rcases ho with ho | rfl
    · cases o <;> simp [J.isObj] at ho
      rename_i os
      simp [merge, lastObj, prune_nil]
    · simp [merge]
  | hbool b => intro _ o h; simp only [Ext] at h; subst h; simp [merge]
  | hnum n => intro _ o h; simp only [Ext] at h; subst h; simp [merge]
  | hstr s => intro _ o h; simp only [Ext] at h; subst h; simp [merge]
  | harr xs _ =>
    intro hh o h
    simp only [Ext] at h
    subst h
    exact C05_self_merge mks (.arr xs) hh
  | hobj ds ih =>
    intro hh o h
    simp only [Ext] at h
    obtain ⟨os, rfl, hext⟩ := h
    obtain ⟨hu, hf⟩ := (hypJ_obj mks ds).mp hh
    simp only [merge, lastObj, prune_self]
    refine mergeFields_ext mks os ds hu ds ?_
    intro k v hm
    obtain ⟨w, hw, he⟩ := ExtF_mem ds os hext k v hm
    exact ⟨hm, w, hw, ih k v hm (hf k v hm) w he⟩

end Mc
