import Mc.Proofs.ExtFix
/-
  `ApplyUpdate` leaves an object alone that (a) extends the desired object and (b) carries the desired object as its
  last-applied record: the situation right after metacontroller created the child from that very desired object.
-/
namespace Mc
open C05

theorem eraseKey_absent (k : String) (kvs : KVs) (h : lookup k kvs = none) : eraseKey k kvs = kvs := by
  unfold eraseKey
  apply List.filter_eq_self.mpr
  intro kv hm
  by_cases e : kv.1 = k
  · have := hasKey_of_mem (k := kv.1) (v := kv.2) (kvs := kvs) hm
    rw [e, hasKey_eq, h] at this
    cases this
  · simp [e]

/-! ### reading and writing a path of an object whose value is already there -/

theorem nestedField_top (os : KVs) (k : String) : nestedField (.obj os) [k] = .ok (lookup k os) := by
  simp only [nestedField]
  cases lookup k os with
  | none => rfl
  | some v => simp [nestedField]

theorem nestedField_meta (os m : KVs) (f : String) (hm : lookup "metadata" os = some (.obj m)) :
    nestedField (.obj os) ["metadata", f] = .ok (lookup f m) := by
  simp only [nestedField, hm]
  cases lookup f m with
  | none => rfl
  | some v => simp [nestedField]

theorem setNested_top_same (os : KVs) (k : String) (v : J) (h : lookup k os = some v) :
    setNestedField (.obj os) v [k] = .ok (.obj os) := by
  simp [setNestedField, setNestedFieldKVs, J.fields, setKey_id k v os h]

theorem setNested_meta_same (os m : KVs) (f : String) (v : J) (hm : lookup "metadata" os = some (.obj m)) (h : lookup f m = some v) :
    setNestedField (.obj os) v ["metadata", f] = .ok (.obj os) := by
  simp [setNestedField, setNestedFieldKVs, J.fields, hm, setKey_id f v m h, setKey_id "metadata" (.obj m) os hm]

theorem removeNested_top_absent (os : KVs) (k : String) (h : lookup k os = none) :
    removeNestedField (.obj os) [k] = .obj os := by
  simp [removeNestedField, removeNestedFieldKVs, J.fields, eraseKey_absent k os h]

theorem removeNested_meta_absent (os m : KVs) (f : String) (hm : lookup "metadata" os = some (.obj m)) (h : lookup f m = none) :
    removeNestedField (.obj os) ["metadata", f] = .obj os := by
  simp [removeNestedField, removeNestedFieldKVs, J.fields, hm, eraseKey_absent f m h, setKey_id "metadata" (.obj m) os hm]

theorem revertField_self_top (os : KVs) (k : String) : revertField (.obj os) (.obj os) [k] = .ok (.obj os) := by
  unfold revertField
  rw [nestedField_top]
  cases h : lookup k os with
  | none => simp [removeNested_top_absent os k h]
  | some v => simp [setNested_top_same os k v h]

theorem revertField_self_meta (os m : KVs) (f : String) (hm : lookup "metadata" os = some (.obj m)) :
    revertField (.obj os) (.obj os) ["metadata", f] = .ok (.obj os) := by
  unfold revertField
  rw [nestedField_meta os m f hm]
  cases h : lookup f m with
  | none => simp [removeNested_meta_absent os m f hm h]
  | some v => simp [setNested_meta_same os m f v hm h]

theorem revertSystemFields_self (sys : List String) (os m : KVs) (hm : lookup "metadata" os = some (.obj m)) :
    revertSystemFields sys (.obj os) (.obj os) = .ok (.obj os) := by
  unfold revertSystemFields
  induction sys with
  | nil => rfl
  | cons f tl ih =>
    rw [List.foldlM_cons, revertField_self_meta os m f hm]
    exact ih

/-- an object as metacontroller finds it after it created it from `des`: it extends `des`, and its (well-formed)
    annotations carry `des` as the last-applied record; `des` does not itself carry that annotation -/
def Stamped (mks : List String) (o des : J) : Prop :=
  ∃ os m am ds, o = .obj os ∧ des = .obj ds ∧ lookup "metadata" os = some (.obj m) ∧ lookup "annotations" m = some (.obj am) ∧
    am.all (fun kv => isStringish kv.1 kv.2) = true ∧ lookup lastAppliedAnnotation am = some des ∧
    nullifyLastApplied des = des ∧ Ext des o ∧ hypJ mks des = true

/-- **ApplyUpdate is the identity on what it created**: for every list of merge keys and of system fields -/
theorem applyUpdate_stamped (mks sys : List String) (o des : J) (h : Stamped mks o des) :
    applyUpdate mks sys o des = .ok o := by
  obtain ⟨os, m, am, ds, ho, hd, hmeta, hann, hstr, hla, hclean, hext, hhyp⟩ := h
  have hga : getAnnotations o = some am := by
    unfold getAnnotations stringMapAt
    rw [ho, nestedField_meta os m "annotations" hmeta, hann]
    simp [hstr]
  have hlast : getLastApplied o = .ok (some des) := by
    unfold getLastApplied
    rw [hga]
    simp only [hla]
    rw [hd]
  have hmerge := merge_ext_fix mks des hhyp o hext
  unfold applyUpdate
  simp only [hlast, hclean, bind, Except.bind, hmerge]
  rw [ho, revertSystemFields_self sys os m hmeta]
  simp only [revertField_self_top]
  -- recording the last-applied configuration again changes nothing
  show Except.ok (setLastApplied (.obj os) des) = Except.ok (.obj os)
  congr 1
  unfold setLastApplied
  rw [← ho, hga]
  simp only [Option.getD_some, setKey_id lastAppliedAnnotation des am hla]
  unfold setStringMapAt
  rw [ho]
  simp only [setNested_meta_same os m "annotations" (.obj am) hmeta hann]

/-- the same with the merge fixpoint as a hypothesis (however it was obtained) -/
theorem applyUpdate_of_fix (mks sys : List String) (o des : J) (os m am : KVs)
    (ho : o = .obj os) (hobj : des.isObj = true) (hmeta : lookup "metadata" os = some (.obj m)) (hann : lookup "annotations" m = some (.obj am))
    (hstr : am.all (fun kv => isStringish kv.1 kv.2) = true) (hla : lookup lastAppliedAnnotation am = some des)
    (hclean : nullifyLastApplied des = des) (hmerge : merge mks o (some des) des = .ok o) :
    applyUpdate mks sys o des = .ok o := by
  have hga : getAnnotations o = some am := by
    unfold getAnnotations stringMapAt
    rw [ho, nestedField_meta os m "annotations" hmeta, hann]
    simp [hstr]
  have hlast : getLastApplied o = .ok (some des) := by
    unfold getLastApplied
    rw [hga]
    simp only [hla]
    cases des <;> simp [J.isObj] at hobj ⊢
  unfold applyUpdate
  simp only [hlast, hclean, bind, Except.bind, hmerge]
  rw [ho, revertSystemFields_self sys os m hmeta]
  simp only [revertField_self_top]
  show Except.ok (setLastApplied (.obj os) des) = Except.ok (.obj os)
  congr 1
  unfold setLastApplied
  rw [← ho, hga]
  simp only [Option.getD_some, setKey_id lastAppliedAnnotation des am hla]
  unfold setStringMapAt
  rw [ho]
  simp only [setNested_meta_same os m "annotations" (.obj am) hmeta hann]

end Mc
