import Mc.Sync.Types
/-
  Lemmas about `ObjMap` (the Go maps `group → name → object` handed to hooks):
  keys, membership and point lookups through `initGroup`, `put`, `insertUniform`, `insertRelative`,
  folds of insertions, `convert`.
-/
namespace Mc

theorem GVK.beq_def (a b : GVK) :
    (a == b) = (a.group == b.group && (a.version == b.version && a.kind == b.kind)) := by
  cases a; cases b; simp [BEq.beq, instBEqGVK.beq]

instance : LawfulBEq GVK where
  eq_of_beq {a b} h := by
    rw [GVK.beq_def] at h
    cases a; cases b; simp at h; simp [h]
  rfl {a} := by rw [GVK.beq_def]; simp

/-- the group key `k` is present -/
def ObjMap.hasGroup (m : ObjMap) (k : GVK) : Bool := m.any (·.1 == k)

/-- point lookup: first group with key `k`, then name `n` -/
def ObjMap.at (m : ObjMap) (k : GVK) (n : String) : Option J := (m.group k).lookup n

/-! ### putName -/

theorem slookup_nil {β : Type} (n : String) : List.lookup n ([] : List (String × β)) = none := rfl

theorem slookup_cons {β : Type} (n a : String) (x : β) (tl : List (String × β)) :
    List.lookup n ((a, x) :: tl) = if n = a then some x else tl.lookup n := by
  rw [List.lookup_cons]
  by_cases h : n = a
  · subst h; simp
  · have : (n == a) = false := by simpa using h
    rw [this]; simp [h]

theorem lookup_putName (n : String) (o : J) : ∀ (l : List (String × J)) (n' : String),
    (putName n o l).lookup n' = if n' = n then some o else l.lookup n' := by
  intro l
  induction l with
  | nil => intro n'; simp only [putName, slookup_cons, slookup_nil]
  | cons hd tl ih =>
    obtain ⟨a, x⟩ := hd
    intro n'
    by_cases ha : a = n
    · subst ha
      simp only [putName, beq_self_eq_true, if_true, slookup_cons]
      by_cases h : n' = a <;> simp [h]
    · have ha' : (a == n) = false := by simpa using ha
      have e1 : putName n o ((a, x) :: tl) = (a, x) :: putName n o tl := by simp [putName, ha']
      rw [e1, slookup_cons, slookup_cons, ih]
      by_cases h : n' = n
      · subst h
        have : ¬ n' = a := fun e => ha e.symm
        simp [this]
      · simp [h]

theorem mem_putName {n : String} {o : J} : ∀ {l : List (String × J)} {e : String × J},
    e ∈ putName n o l → e = (n, o) ∨ e ∈ l := by
  intro l
  induction l with
  | nil => intro e h; simp [putName] at h; exact Or.inl h
  | cons hd tl ih =>
    obtain ⟨a, x⟩ := hd
    intro e h
    by_cases ha : a = n
    · subst ha
      simp [putName] at h
      rcases h with h | h
      · exact Or.inl h
      · exact Or.inr (List.mem_cons_of_mem _ h)
    · simp [putName, ha] at h
      rcases h with h | h
      · exact Or.inr (by simp [h])
      · rcases ih h with h | h
        · exact Or.inl h
        · exact Or.inr (List.mem_cons_of_mem _ h)

theorem mem_of_lookup_eq_some {β : Type} {n : String} {o : β} : ∀ {l : List (String × β)},
    l.lookup n = some o → (n, o) ∈ l := by
  intro l
  induction l with
  | nil => intro h; simp at h
  | cons hd tl ih =>
    obtain ⟨a, x⟩ := hd
    intro h
    rw [slookup_cons] at h
    by_cases ha : n = a
    · subst ha; simp at h; simp [h]
    · simp only [ha, if_false] at h; exact List.mem_cons_of_mem _ (ih h)

/-! ### group keys -/

theorem hasGroup_initGroup (m : ObjMap) (k k' : GVK) :
    (m.initGroup k).hasGroup k' = (m.hasGroup k' || k' == k) := by
  unfold ObjMap.initGroup ObjMap.hasGroup
  by_cases h : m.any (·.1 == k) = true
  · simp only [h, if_true]
    by_cases e : k' = k
    · subst e; simp [h]
    · simp [e]
  · simp only [h]
    have : (k == k') = (k' == k) := by
      by_cases e : k = k'
      · subst e; rfl
      · have e' : ¬ k' = k := fun x => e x.symm
        have h1 : (k == k') = false := by simpa using e
        have h2 : (k' == k) = false := by simpa using e'
        rw [h1, h2]
    simp [List.any_append, this]

theorem hasGroup_put (m : ObjMap) (k k' : GVK) (n : String) (o : J) :
    (m.put k n o).hasGroup k' = (m.hasGroup k' || k' == k) := by
  rw [← hasGroup_initGroup]
  unfold ObjMap.put ObjMap.hasGroup
  simp only [List.any_map]
  congr 1
  funext g
  simp only [Function.comp]
  split <;> rfl

theorem hasGroup_insertUniform (m : ObjMap) (o : J) (k' : GVK) :
    (m.insertUniform o).hasGroup k' = (m.hasGroup k' || k' == gvkOf o) := hasGroup_put ..

theorem hasGroup_insertRelative (m : ObjMap) (ns : String) (o : J) (k' : GVK) :
    (m.insertRelative ns o).hasGroup k' = (m.hasGroup k' || k' == gvkOf o) := hasGroup_put ..

theorem hasGroup_foldl_mono {α : Type} (f : ObjMap → α → ObjMap)
    (hf : ∀ m a k, m.hasGroup k = true → (f m a).hasGroup k = true) :
    ∀ (xs : List α) (m : ObjMap) (k : GVK), m.hasGroup k = true → (xs.foldl f m).hasGroup k = true := by
  intro xs
  induction xs with
  | nil => intro m k h; exact h
  | cons x rest ih => intro m k h; exact ih _ _ (hf _ _ _ h)

theorem hasGroup_foldl_insertUniform (objs : List J) (m : ObjMap) (k : GVK) (h : m.hasGroup k = true) :
    (objs.foldl (fun acc o => acc.insertUniform o) m).hasGroup k = true :=
  hasGroup_foldl_mono _ (fun m a k h => by rw [hasGroup_insertUniform, h]; rfl) objs m k h

theorem hasGroup_foldl_insertRelative (ns : String) (objs : List J) (m : ObjMap) (k : GVK) (h : m.hasGroup k = true) :
    (objs.foldl (fun acc o => acc.insertRelative ns o) m).hasGroup k = true :=
  hasGroup_foldl_mono _ (fun m a k h => by rw [hasGroup_insertRelative, h]; rfl) objs m k h

/-! ### membership (soundness: nothing appears that was not inserted) -/

theorem list_initGroup (m : ObjMap) (k : GVK) : (m.initGroup k).list = m.list := by
  unfold ObjMap.initGroup ObjMap.list
  split
  · rfl
  · simp

theorem mem_list_iff (m : ObjMap) (o : J) : o ∈ m.list ↔ ∃ g ∈ m, ∃ e ∈ g.2, e.2 = o := by
  unfold ObjMap.list
  simp only [List.mem_flatMap, List.mem_map]

theorem mem_list_put {m : ObjMap} {k : GVK} {n : String} {o x : J} (h : x ∈ (m.put k n o).list) :
    x = o ∨ x ∈ m.list := by
  rw [← list_initGroup m k]
  unfold ObjMap.put at h
  rw [mem_list_iff] at h
  obtain ⟨g, hg, e, he, rfl⟩ := h
  simp only [List.mem_map] at hg
  obtain ⟨g0, hg0, rfl⟩ := hg
  by_cases hk : (g0.1 == k) = true
  · simp only [hk, if_true] at he
    rcases mem_putName he with rfl | he
    · exact Or.inl rfl
    · exact Or.inr ((mem_list_iff _ _).2 ⟨g0, hg0, e, he, rfl⟩)
  · simp only [hk] at he
    exact Or.inr ((mem_list_iff _ _).2 ⟨g0, hg0, e, he, rfl⟩)

theorem mem_list_foldl_put {α : Type} (key : α → GVK) (name : α → String) (val : α → J) :
    ∀ (xs : List α) (m : ObjMap) (x : J),
      x ∈ (xs.foldl (fun acc a => acc.put (key a) (name a) (val a)) m).list → x ∈ m.list ∨ ∃ a ∈ xs, x = val a := by
  intro xs
  induction xs with
  | nil => intro m x h; exact Or.inl h
  | cons a rest ih =>
    intro m x h
    rw [List.foldl_cons] at h
    rcases ih _ _ h with h | ⟨b, hb, rfl⟩
    · rcases mem_list_put h with rfl | h
      · exact Or.inr ⟨a, by simp, rfl⟩
      · exact Or.inl h
    · exact Or.inr ⟨b, List.mem_cons_of_mem _ hb, rfl⟩

theorem mem_list_foldl_insertUniform {objs : List J} {m : ObjMap} {x : J}
    (h : x ∈ (objs.foldl (fun acc o => acc.insertUniform o) m).list) : x ∈ m.list ∨ x ∈ objs := by
  rcases mem_list_foldl_put gvkOf qualifiedName id objs m x h with h | ⟨a, ha, rfl⟩
  · exact Or.inl h
  · exact Or.inr ha

theorem mem_list_foldl_insertRelative {ns : String} {objs : List J} {m : ObjMap} {x : J}
    (h : x ∈ (objs.foldl (fun acc o => acc.insertRelative ns o) m).list) : x ∈ m.list ∨ x ∈ objs := by
  rcases mem_list_foldl_put gvkOf (relativeName ns) id objs m x h with h | ⟨a, ha, rfl⟩
  · exact Or.inl h
  · exact Or.inr ha

/-! ### point lookups (completeness: what was inserted under a key is found there) -/

theorem group_initGroup (m : ObjMap) (k k' : GVK) : (m.initGroup k).group k' = m.group k' := by
  unfold ObjMap.initGroup
  by_cases h : m.any (·.1 == k) = true
  · simp [h]
  · simp only [h]
    unfold ObjMap.group
    simp only [Bool.false_eq_true, if_false]
    rw [List.find?_append]
    cases hf : m.find? (·.1 == k') with
    | some g => simp
    | none =>
      by_cases e : k = k'
      · simp [e]
      · simp [e]

theorem find?_initGroup_self (m : ObjMap) (k : GVK) :
    ∃ g, (m.initGroup k).find? (·.1 == k) = some g ∧ g.1 = k := by
  cases hf : (m.initGroup k).find? (·.1 == k) with
  | some g => exact ⟨g, rfl, by simpa using List.find?_some hf⟩
  | none =>
    have : (m.initGroup k).hasGroup k = true := by rw [hasGroup_initGroup]; simp
    rw [List.find?_eq_none] at hf
    unfold ObjMap.hasGroup at this
    rw [List.any_eq_true] at this
    obtain ⟨x, hx, hxk⟩ := this
    exact absurd hxk (hf x hx)

theorem group_put (m : ObjMap) (k k' : GVK) (n : String) (o : J) :
    (m.put k n o).group k' = if k' = k then putName n o (m.group k) else m.group k' := by
  rw [← group_initGroup m k k, ← group_initGroup m k k']
  unfold ObjMap.put ObjMap.group
  simp only []
  rw [List.find?_map]
  have hcomp : ((fun x : GVK × List (String × J) => x.1 == k') ∘
      (fun g : GVK × List (String × J) => if (g.1 == k) = true then (g.1, putName n o g.2) else g)) =
      (fun x => x.1 == k') := by
    funext g
    simp only [Function.comp]
    split <;> rfl
  rw [hcomp]
  by_cases e : k' = k
  · subst e
    obtain ⟨g, hg, hgk⟩ := find?_initGroup_self m k'
    simp [hg, hgk]
  · simp only [e, if_false]
    cases hf : (m.initGroup k).find? (·.1 == k') with
    | none => rfl
    | some g =>
      have : g.1 = k' := by simpa using List.find?_some hf
      have hne : ¬ g.1 = k := by rw [this]; exact e
      simp [hne]

theorem at_initGroup (m : ObjMap) (k k' : GVK) (n : String) : (m.initGroup k).at k' n = m.at k' n := by
  unfold ObjMap.at; rw [group_initGroup]

theorem at_put (m : ObjMap) (k k' : GVK) (n n' : String) (o : J) :
    (m.put k n o).at k' n' = if k' = k ∧ n' = n then some o else m.at k' n' := by
  unfold ObjMap.at
  rw [group_put]
  by_cases e : k' = k
  · subst e
    simp only [if_true, true_and]
    exact lookup_putName ..
  · simp [e]

theorem mem_list_of_at {m : ObjMap} {k : GVK} {n : String} {o : J} (h : m.at k n = some o) : o ∈ m.list := by
  unfold ObjMap.at ObjMap.group at h
  cases hf : m.find? (·.1 == k) with
  | none => simp [hf] at h
  | some g =>
    simp only [hf] at h
    exact (mem_list_iff _ _).2 ⟨g, List.mem_of_find?_eq_some hf, (n, o), mem_of_lookup_eq_some h, rfl⟩

/-- folding insertions: an element whose key is not reused by a *different* element stays findable -/
theorem at_foldl_put {α : Type} (key : α → GVK) (name : α → String) (val : α → J) (k : GVK) (n : String) (o : J) :
    ∀ (xs : List α) (m : ObjMap),
      (∀ a ∈ xs, key a = k → name a = n → val a = o) →
      ((∃ a ∈ xs, key a = k ∧ name a = n) ∨ m.at k n = some o) →
      (xs.foldl (fun acc a => acc.put (key a) (name a) (val a)) m).at k n = some o := by
  intro xs
  induction xs with
  | nil =>
    intro m _ h
    rcases h with ⟨a, ha, _⟩ | h
    · simp at ha
    · exact h
  | cons a rest ih =>
    intro m hinj h
    rw [List.foldl_cons]
    apply ih
    · intro b hb; exact hinj b (List.mem_cons_of_mem _ hb)
    · by_cases hk : key a = k ∧ name a = n
      · right
        rw [at_put]
        have := hinj a (by simp) hk.1 hk.2
        simp [hk.1, hk.2, this]
      · rcases h with ⟨b, hb, hbk⟩ | h
        · rcases List.mem_cons.1 hb with rfl | hb
          · exact absurd hbk hk
          · exact Or.inl ⟨b, hb, hbk⟩
        · right
          rw [at_put]
          have : ¬ (k = key a ∧ n = name a) := fun e => hk ⟨e.1.symm, e.2.symm⟩
          simp [this, h]

/-- keys not touched by the fold keep their value -/
theorem at_foldl_put_other {α : Type} (key : α → GVK) (name : α → String) (val : α → J) (k : GVK) (n : String) :
    ∀ (xs : List α) (m : ObjMap), (∀ a ∈ xs, ¬ (key a = k ∧ name a = n)) →
      (xs.foldl (fun acc a => acc.put (key a) (name a) (val a)) m).at k n = m.at k n := by
  intro xs
  induction xs with
  | nil => intro m _; rfl
  | cons a rest ih =>
    intro m h
    rw [List.foldl_cons, ih _ (fun b hb => h b (List.mem_cons_of_mem _ hb)), at_put]
    have : ¬ (k = key a ∧ n = name a) := fun e => h a (by simp) ⟨e.1.symm, e.2.symm⟩
    simp [this]

theorem at_foldl_insertUniform (objs : List J) (m : ObjMap) (o : J)
    (hinj : ∀ x ∈ objs, gvkOf x = gvkOf o → qualifiedName x = qualifiedName o → x = o)
    (h : o ∈ objs ∨ m.at (gvkOf o) (qualifiedName o) = some o) :
    (objs.foldl (fun acc x => acc.insertUniform x) m).at (gvkOf o) (qualifiedName o) = some o := by
  apply at_foldl_put gvkOf qualifiedName id (gvkOf o) (qualifiedName o) o objs m hinj
  rcases h with h | h
  · exact Or.inl ⟨o, h, rfl, rfl⟩
  · exact Or.inr h

theorem at_foldl_insertRelative (ns : String) (objs : List J) (m : ObjMap) (o : J)
    (hinj : ∀ x ∈ objs, gvkOf x = gvkOf o → relativeName ns x = relativeName ns o → x = o)
    (h : o ∈ objs ∨ m.at (gvkOf o) (relativeName ns o) = some o) :
    (objs.foldl (fun acc x => acc.insertRelative ns x) m).at (gvkOf o) (relativeName ns o) = some o := by
  apply at_foldl_put gvkOf (relativeName ns) id (gvkOf o) (relativeName ns o) o objs m hinj
  rcases h with h | h
  · exact Or.inl ⟨o, h, rfl, rfl⟩
  · exact Or.inr h

/-! ### convert -/

theorem hasGroup_foldl_initGroup : ∀ (m acc : ObjMap) (k : GVK),
    (m.foldl (fun acc g => acc.initGroup g.1) acc).hasGroup k = (acc.hasGroup k || m.hasGroup k) := by
  intro m
  induction m with
  | nil => intro acc k; simp [ObjMap.hasGroup]
  | cons g rest ih =>
    intro acc k
    rw [List.foldl_cons, ih, hasGroup_initGroup]
    simp only [ObjMap.hasGroup, List.any_cons]
    rw [Bool.or_assoc]
    congr 2
    by_cases e : k = g.1
    · subst e; simp
    · have e' : ¬ g.1 = k := fun x => e x.symm
      have h1 : (k == g.1) = false := by simpa using e
      have h2 : (g.1 == k) = false := by simpa using e'
      rw [h1, h2]

theorem list_foldl_initGroup : ∀ (m acc : ObjMap),
    (m.foldl (fun acc g => acc.initGroup g.1) acc).list = acc.list := by
  intro m
  induction m with
  | nil => intro acc; rfl
  | cons g rest ih => intro acc; rw [List.foldl_cons, ih, list_initGroup]

/-- the objects `convert` lets through -/
def ObjMap.convertObjs (m : ObjMap) (parentNs : String) : List J :=
  if parentNs == "" then m.list else m.list.filter (fun o => getNamespace o == parentNs)

theorem convert_eq (m : ObjMap) (ns : String) :
    m.convert ns = (m.convertObjs ns).foldl (fun (acc : ObjMap) o => acc.insertRelative ns o)
      (m.foldl (fun (acc : ObjMap) g => acc.initGroup g.1) []) := rfl

theorem hasGroup_convert (m : ObjMap) (ns : String) (k : GVK) (h : m.hasGroup k = true) :
    (m.convert ns).hasGroup k = true := by
  rw [convert_eq]
  apply hasGroup_foldl_insertRelative
  rw [hasGroup_foldl_initGroup, h]
  simp

theorem mem_list_convert {m : ObjMap} {ns : String} {o : J} (h : o ∈ (m.convert ns).list) :
    o ∈ m.convertObjs ns := by
  rw [convert_eq] at h
  rcases mem_list_foldl_insertRelative h with h | h
  · rw [list_foldl_initGroup] at h
    simp [ObjMap.list] at h
  · exact h

/-! ### toJ -/

theorem lookup_map_text (k : GVK) : ∀ (m : ObjMap), m.hasGroup k = true →
    (lookup k.text (m.map (fun g => (g.1.text, J.obj (g.2.map (fun no => (no.1, no.2))))))).isSome = true := by
  intro m
  induction m with
  | nil => intro h; simp [ObjMap.hasGroup] at h
  | cons g rest ih =>
    intro h
    simp only [List.map_cons, lookup]
    by_cases e : k.text = g.1.text
    · simp [e]
    · simp only [e, if_false]
      apply ih
      simp only [ObjMap.hasGroup, List.any_cons, Bool.or_eq_true] at h
      rcases h with h | h
      · have : g.1 = k := by simpa using h
        exact absurd (by rw [this]) e
      · exact h

end Mc
