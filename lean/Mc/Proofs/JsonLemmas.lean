import Mc.Json
/-
  Helper lemmas about `J`, association lists (`lookup`/`setKey`/`hasKey`), `uniq`, `wfB`, `eqv`.
  Core Lean only.
-/
set_option linter.unusedSimpArgs false
namespace Mc

/-- the one induction principle used everywhere (derived from `J.rec`, 4 motives) -/
theorem J.induct (P : J → Prop)
    (hnull : P .null) (hbool : ∀ b, P (.bool b)) (hnum : ∀ n, P (.num n)) (hstr : ∀ s, P (.str s))
    (harr : ∀ xs, (∀ x ∈ xs, P x) → P (.arr xs))
    (hobj : ∀ kvs : KVs, (∀ k v, (k, v) ∈ kvs → P v) → P (.obj kvs)) : ∀ j, P j := by
  intro j
  refine J.rec (motive_1 := P) (motive_2 := fun xs => ∀ x ∈ xs, P x)
    (motive_3 := fun kvs => ∀ k v, (k, v) ∈ kvs → P v) (motive_4 := fun kv => P kv.2)
    hnull hbool hnum hstr harr hobj ?_ ?_ ?_ ?_ ?_ j
  · intro x h; simp at h
  · intro hd tl h1 h2 x hx
    simp at hx
    rcases hx with rfl | hx
    · exact h1
    · exact h2 x hx
  · intro k v h; simp at h
  · intro hd tl h1 h2 k v hx
    simp at hx
    rcases hx with rfl | hx
    · exact h1
    · exact h2 k v hx
  · intro k v h; exact h

/-! ### lookup / setKey / hasKey -/

@[simp] theorem lookup_nil (k : String) : lookup k [] = none := rfl

theorem lookup_cons (k k' : String) (v : J) (rest : KVs) :
    lookup k ((k', v) :: rest) = if k = k' then some v else lookup k rest := rfl

@[simp] theorem lookup_cons_self (k : String) (v : J) (rest : KVs) :
    lookup k ((k, v) :: rest) = some v := by simp [lookup]

theorem lookup_cons_ne (k k' : String) (v : J) (rest : KVs) (h : k ≠ k') :
    lookup k ((k', v) :: rest) = lookup k rest := by simp [lookup, h]

theorem lookup_setKey_same (k : String) (v : J) (d : KVs) : lookup k (setKey k v d) = some v := by
  induction d with
  | nil => simp [setKey, lookup]
  | cons hd tl ih =>
    obtain ⟨k', v'⟩ := hd
    by_cases h : k = k'
    · simp [setKey, lookup, h]
    · simp [setKey, lookup, h, ih]

theorem lookup_setKey_other (k k2 : String) (v : J) (d : KVs) (h : k2 ≠ k) :
    lookup k2 (setKey k v d) = lookup k2 d := by
  induction d with
  | nil => simp [setKey, lookup, h]
  | cons hd tl ih =>
    obtain ⟨k', v'⟩ := hd
    by_cases h1 : k = k'
    · subst h1; simp [setKey, lookup, h]
    · by_cases h2 : k2 = k'
      · simp [setKey, lookup, h1, h2]
      · simp [setKey, lookup, h1, h2, ih]

theorem lookup_setKey (k k2 : String) (v : J) (d : KVs) :
    lookup k2 (setKey k v d) = if k2 = k then some v else lookup k2 d := by
  by_cases h : k2 = k
  · subst h; simp [lookup_setKey_same]
  · simp [h, lookup_setKey_other _ _ _ _ h]

theorem setKey_id (k : String) (m : J) (d : KVs) (h : lookup k d = some m) : setKey k m d = d := by
  induction d with
  | nil => simp [lookup] at h
  | cons hd tl ih =>
    obtain ⟨k', v'⟩ := hd
    by_cases h1 : k = k'
    · subst h1; simp [lookup] at h; simp [setKey, h]
    · simp [lookup, h1] at h; simp [setKey, h1, ih h]

theorem hasKey_eq (k : String) (kvs : KVs) : hasKey k kvs = (lookup k kvs).isSome := rfl

@[simp] theorem hasKey_nil (k : String) : hasKey k [] = false := rfl

theorem hasKey_true_iff (k : String) (kvs : KVs) : hasKey k kvs = true ↔ ∃ v, lookup k kvs = some v := by
  unfold hasKey
  cases lookup k kvs <;> simp

theorem hasKey_false_iff (k : String) (kvs : KVs) : hasKey k kvs = false ↔ lookup k kvs = none := by
  unfold hasKey
  cases lookup k kvs <;> simp

theorem hasKey_of_lookup {k : String} {kvs : KVs} {v : J} (h : lookup k kvs = some v) : hasKey k kvs = true := by
  simp [hasKey, h]

theorem lookup_mem : ∀ (kvs : KVs) (k : String) (v : J), lookup k kvs = some v → (k, v) ∈ kvs := by
  intro kvs
  induction kvs with
  | nil => intro k v h; simp at h
  | cons hd tl ih =>
    obtain ⟨k', v'⟩ := hd
    intro k v h
    by_cases e : k = k'
    · subst e; simp at h; simp [h]
    · rw [lookup_cons_ne _ _ _ _ e] at h
      exact List.mem_cons_of_mem _ (ih k v h)

theorem lookup_none_of_not_mem_keys : ∀ (kvs : KVs) (k : String), k ∉ keysOf kvs → lookup k kvs = none := by
  intro kvs
  induction kvs with
  | nil => intro k _; rfl
  | cons hd tl ih =>
    obtain ⟨k', v'⟩ := hd
    intro k h
    simp [keysOf] at h
    rw [lookup_cons_ne _ _ _ _ h.1]
    exact ih k (by simpa [keysOf] using h.2)

theorem hasKey_iff_mem_keys (k : String) (kvs : KVs) : hasKey k kvs = true ↔ k ∈ keysOf kvs := by
  induction kvs with
  | nil => simp [keysOf]
  | cons hd tl ih =>
    obtain ⟨k', v'⟩ := hd
    by_cases e : k = k'
    · subst e; simp [hasKey, keysOf]
    · have : hasKey k ((k', v') :: tl) = hasKey k tl := by simp [hasKey, lookup_cons_ne _ _ _ _ e]
      rw [this, ih]; simp [keysOf, e]

theorem hasKey_of_mem {k : String} {v : J} {kvs : KVs} (h : (k, v) ∈ kvs) : hasKey k kvs = true := by
  rw [hasKey_iff_mem_keys]; simp only [keysOf, List.mem_map]; exact ⟨(k, v), h, rfl⟩

/-- lookup through a key-only filter -/
theorem lookup_filter (p : String → Bool) : ∀ (kvs : KVs) (k : String),
    lookup k (kvs.filter (fun kv => p kv.1)) = if p k then lookup k kvs else none := by
  intro kvs
  induction kvs with
  | nil => intro k; simp
  | cons hd tl ih =>
    obtain ⟨k', v'⟩ := hd
    intro k
    by_cases hp : p k' = true
    · rw [List.filter_cons_of_pos (by simpa using hp)]
      by_cases e : k = k'
      · subst e; simp [hp]
      · rw [lookup_cons_ne _ _ _ _ e, lookup_cons_ne _ _ _ _ e]; exact ih k
    · rw [List.filter_cons_of_neg (by simpa using hp)]
      by_cases e : k = k'
      · subst e; rw [ih]; simp [hp]
      · rw [lookup_cons_ne _ _ _ _ e]; exact ih k

theorem hasKey_filter (p : String → Bool) (kvs : KVs) (k : String) :
    hasKey k (kvs.filter (fun kv => p kv.1)) = (p k && hasKey k kvs) := by
  unfold hasKey
  rw [lookup_filter]
  cases p k <;> simp

/-! ### uniq -/

theorem uniqB_iff : ∀ kvs : KVs, uniqB kvs = true ↔ uniq kvs := by
  intro kvs
  induction kvs with
  | nil => simp [uniqB, uniq]
  | cons hd tl ih =>
    obtain ⟨k, v⟩ := hd
    simp only [uniqB, uniq, Bool.and_eq_true, ih, Bool.not_eq_true', hasKey_false_iff]

theorem lookup_of_mem_uniq : ∀ (ds : KVs) (k : String) (v : J), uniq ds → (k, v) ∈ ds → lookup k ds = some v := by
  intro ds
  induction ds with
  | nil => intro k v _ h; simp at h
  | cons hd tl ih =>
    obtain ⟨k', v'⟩ := hd
    intro k v hu h
    obtain ⟨hk, hu'⟩ := hu
    simp at h
    rcases h with ⟨rfl, rfl⟩ | h
    · simp [lookup]
    · have := ih _ _ hu' h
      by_cases e : k = k'
      · subst e; rw [hk] at this; simp at this
      · simp [lookup, e, this]

theorem uniq_filter (p : String × J → Bool) : ∀ kvs : KVs, uniq kvs → uniq (kvs.filter p) := by
  intro kvs
  induction kvs with
  | nil => intro _; simp [uniq]
  | cons hd tl ih =>
    obtain ⟨k, v⟩ := hd
    intro ⟨h1, h2⟩
    by_cases hp : p (k, v) = true
    · rw [List.filter_cons_of_pos hp]
      refine ⟨?_, ih h2⟩
      cases hl : lookup k (tl.filter p) with
      | none => rfl
      | some w =>
        have hm := lookup_mem _ _ _ hl
        have hm' : (k, w) ∈ tl := (List.mem_filter.mp hm).1
        have := hasKey_of_mem hm'
        rw [hasKey_eq, h1] at this; simp at this
    · rw [List.filter_cons_of_neg hp]; exact ih h2

theorem uniq_setKey (k : String) (v : J) : ∀ kvs : KVs, uniq kvs → uniq (setKey k v kvs) := by
  intro kvs
  induction kvs with
  | nil => intro _; simp [setKey, uniq]
  | cons hd tl ih =>
    obtain ⟨k', v'⟩ := hd
    intro ⟨h1, h2⟩
    by_cases e : k = k'
    · subst e; simp only [setKey, if_true]; exact ⟨h1, h2⟩
    · simp only [setKey, e, if_false]
      refine ⟨?_, ih h2⟩
      rw [lookup_setKey_other _ _ _ _ (Ne.symm e)]; exact h1

/-! ### wfB and membership -/

theorem wfsB_mem : ∀ (kvs : KVs), wfsB kvs = true → ∀ k v, (k, v) ∈ kvs → v.wfB = true := by
  intro kvs
  induction kvs with
  | nil => intro _ k v h; simp at h
  | cons hd tl ih =>
    obtain ⟨k', v'⟩ := hd
    intro hw k v h
    simp [wfsB] at hw
    simp at h
    rcases h with ⟨_, rfl⟩ | h
    · exact hw.1
    · exact ih hw.2 k v h

theorem wflB_mem : ∀ (xs : List J), wflB xs = true → ∀ x ∈ xs, x.wfB = true := by
  intro xs
  induction xs with
  | nil => intro _ x h; simp at h
  | cons hd tl ih =>
    intro hw x h
    simp [wflB] at hw
    simp at h
    rcases h with rfl | h
    · exact hw.1
    · exact ih hw.2 x h

theorem wfsB_of_mem : ∀ (kvs : KVs), (∀ k v, (k, v) ∈ kvs → v.wfB = true) → wfsB kvs = true := by
  intro kvs
  induction kvs with
  | nil => intro _; rfl
  | cons hd tl ih =>
    obtain ⟨k', v'⟩ := hd
    intro h
    simp only [wfsB, Bool.and_eq_true]
    exact ⟨h k' v' (by simp), ih (fun k v hm => h k v (by simp [hm]))⟩

theorem wflB_of_mem : ∀ (xs : List J), (∀ x ∈ xs, x.wfB = true) → wflB xs = true := by
  intro xs
  induction xs with
  | nil => intro _; rfl
  | cons hd tl ih =>
    intro h
    simp only [wflB, Bool.and_eq_true]
    exact ⟨h hd (by simp), ih (fun x hm => h x (by simp [hm]))⟩

theorem wfB_obj (kvs : KVs) : (J.obj kvs).wfB = true ↔ uniq kvs ∧ ∀ k v, (k, v) ∈ kvs → v.wfB = true := by
  simp only [J.wfB, Bool.and_eq_true, uniqB_iff]
  constructor
  · intro ⟨h1, h2⟩; exact ⟨h1, wfsB_mem _ h2⟩
  · intro ⟨h1, h2⟩; exact ⟨h1, wfsB_of_mem _ h2⟩

theorem wfB_arr (xs : List J) : (J.arr xs).wfB = true ↔ ∀ x ∈ xs, x.wfB = true := by
  simp only [J.wfB]
  exact ⟨wflB_mem _, wflB_of_mem _⟩

/-! ### eqv is reflexive on well-formed values -/

theorem eqvList_refl : ∀ xs : List J, (∀ x ∈ xs, x.eqv x = true) → eqvList xs xs = true := by
  intro xs
  induction xs with
  | nil => intro _; rfl
  | cons hd tl ih =>
    intro h
    simp only [eqvList, Bool.and_eq_true]
    exact ⟨h hd (by simp), ih (fun x hx => h x (by simp [hx]))⟩

theorem eqvFields_sub : ∀ (a b : KVs), (∀ k v, (k, v) ∈ a → lookup k b = some v ∧ v.eqv v = true) →
    eqvFields a b = true := by
  intro a
  induction a with
  | nil => intro b _; rfl
  | cons hd tl ih =>
    obtain ⟨k, v⟩ := hd
    intro b h
    obtain ⟨h1, h2⟩ := h k v (by simp)
    simp only [eqvFields, h1, h2, Bool.true_and]
    exact ih b (fun k' v' hm => h k' v' (by simp [hm]))

theorem J.eqv_refl : ∀ j : J, j.wfB = true → j.eqv j = true := by
  intro j
  induction j using J.induct with
  | hnull => intro _; rfl
  | hbool b => intro _; simp [J.eqv]
  | hnum n => intro _; simp [J.eqv]
  | hstr s => intro _; simp [J.eqv]
  | harr xs ih =>
    intro hw
    rw [wfB_arr] at hw
    simp only [J.eqv]
    exact eqvList_refl xs (fun x hx => ih x hx (hw x hx))
  | hobj kvs ih =>
    intro hw
    rw [wfB_obj] at hw
    simp only [J.eqv, beq_self_eq_true, Bool.true_and]
    exact eqvFields_sub kvs kvs (fun k v hm => ⟨lookup_of_mem_uniq _ _ _ hw.1 hm, ih k v hm (hw.2 k v hm)⟩)

theorem eqvList_refl' (xs : List J) (h : ∀ x ∈ xs, x.wfB = true) : eqvList xs xs = true :=
  eqvList_refl xs (fun x hx => J.eqv_refl x (h x hx))

/-! ### wfB ↔ WF -/

theorem J.wfB_iff_WF : ∀ j : J, j.wfB = true ↔ j.WF := by
  intro j
  induction j using J.induct with
  | hnull => simp [J.wfB, J.WF]
  | hbool b => simp [J.wfB, J.WF]
  | hnum n => simp [J.wfB, J.WF]
  | hstr s => simp [J.wfB, J.WF]
  | harr xs ih =>
    simp only [J.wfB, J.WF]
    induction xs with
    | nil => simp [wflB, WFl]
    | cons hd tl ih2 =>
      simp only [wflB, WFl, Bool.and_eq_true]
      rw [ih hd (by simp), ih2 (fun x hx => ih x (by simp [hx]))]
  | hobj kvs ih =>
    simp only [J.wfB, J.WF, Bool.and_eq_true, uniqB_iff]
    suffices h : wfsB kvs = true ↔ WFs kvs by rw [h]
    induction kvs with
    | nil => simp [wfsB, WFs]
    | cons hd tl ih2 =>
      obtain ⟨k, v⟩ := hd
      simp only [wfsB, WFs, Bool.and_eq_true]
      rw [ih k v (by simp), ih2 (fun k' v' hx => ih k' v' (by simp [hx]))]

end Mc
