import Mc.Proofs.C05Hyps
/-
  Idempotence of the three-way merge: `merge o l d = ok r → merge r (some d) d = ok r`.
-/
set_option linter.unusedSimpArgs false
namespace Mc.C05

/-- `rebuild` over the identity list-map returns the list itself -/
theorem rebuild_self (mk : String) (rs ds : List J)
    (hnr : (rs.map (keyOf mk)).Nodup) (hnd : (ds.map (keyOf mk)).Nodup)
    (hsub : ∀ it ∈ ds, keyOf mk it ∈ rs.map (keyOf mk)) :
    rebuild mk rs (makeListMap mk rs) ds = rs := by
  rw [rebuild_eq mk rs _ ds hnd]
  rw [filterMap_eq_self _ rs (fun x hx => lookup_makeListMap_mem mk rs x hnr hx)]
  have : ds.filter (fun it => !((rs.map (keyOf mk)).contains (keyOf mk it) &&
      hasKey (keyOf mk it) (makeListMap mk rs))) = [] := by
    rw [List.filter_eq_nil_iff]
    intro it hit
    have h1 := hsub it hit
    rw [hasKey_makeListMap]
    have : (rs.map (keyOf mk)).contains (keyOf mk it) = true := List.contains_iff_mem.mpr h1
    rw [this]; decide
  rw [this]; simp

/-- the second merge of an array against itself as last-applied and desired -/
theorem second_arr (mks : List String) (rs ds : List J)
    (hr : hypJ mks (.arr rs) = true) (hd : hypJ mks (.arr ds) = true)
    (hitems : ∀ it ∈ ds, ∃ m ∈ rs,
        (∀ mk' ∈ mks, (∃ kvs, it = .obj kvs ∧ hasKey mk' kvs = true) → keyOf mk' m = keyOf mk' it) ∧
        merge mks m (some it) it = .ok m)
    (hsame : rs = ds ∨ ∃ mk ∈ mks, (∀ m ∈ rs, ∃ kvs, m = .obj kvs ∧ hasKey mk kvs = true) ∧
        (∀ m ∈ ds, ∃ kvs, m = .obj kvs ∧ hasKey mk kvs = true)) :
    merge mks (.arr rs) (some (.arr ds)) (.arr ds) = .ok (.arr rs) := by
  cases hdet : detectListMapKey mks [rs, lastArr (some (.arr ds)), ds] with
  | none =>
    rw [merge_arr_arr_none _ _ _ _ hdet]
    rcases hsame with rfl | ⟨mk, hmk, h1, h2⟩
    · rfl
    · by_cases hne : [rs, lastArr (some (.arr ds)), ds].flatten = []
      · simp [lastArr] at hne
        rw [hne.1, hne.2]
      · exfalso
        have : ∃ mk', detectListMapKey mks [rs, lastArr (some (.arr ds)), ds] = some mk' := by
          apply detect_ne_none hmk hne
          intro it hit
          simp [lastArr] at hit
          rcases hit with hit | hit
          · exact h1 it hit
          · exact h2 it hit
        rw [hdet] at this
        obtain ⟨_, h⟩ := this; cases h
  | some mk' =>
    obtain ⟨hmk', _, hall, _⟩ := detect_some hdet
    have hallr : ∀ it ∈ rs, ∃ kvs, it = .obj kvs ∧ hasKey mk' kvs = true :=
      fun it hit => hall it (by simp [hit])
    have halld : ∀ it ∈ ds, ∃ kvs, it = .obj kvs ∧ hasKey mk' kvs = true :=
      fun it hit => hall it (by simp [hit])
    have hnr := nodup_of_hypJ mks rs mk' hr hmk' hallr
    have hnd := nodup_of_hypJ mks ds mk' hd hmk' halld
    rw [merge_arr_arr_some _ _ _ _ _ hdet]
    simp only [lastArr]
    rw [prunedMap_self]
    have hfix : mergeItems mks mk' (makeListMap mk' rs) (makeListMap mk' ds) ds = .ok (makeListMap mk' rs) := by
      apply mergeItems_fix
      intro it hit
      obtain ⟨m, hm, hk, hmm⟩ := hitems it hit
      refine ⟨m, ?_, ?_⟩
      · rw [← hk mk' hmk' (halld it hit)]
        exact lookup_makeListMap_mem mk' rs m hnr hm
      · rw [lookup_makeListMap_mem mk' ds it hnd hit]; exact hmm
    rw [hfix]
    simp only
    rw [rebuild_self mk' rs ds hnr hnd]
    intro it hit
    obtain ⟨m, hm, hk, _⟩ := hitems it hit
    rw [← hk mk' hmk' (halld it hit)]
    exact List.mem_map_of_mem hm

/-- idempotence statement for one desired value, quantified over observed / last-applied -/
def Idem (mks : List String) (d : J) : Prop :=
  ∀ o l r, scalarKeys mks o = true → noNullOverArr o d = true → hypJ mks d = true → hypJ mks r = true →
    merge mks o l d = .ok r → merge mks r (some d) d = .ok r

theorem idem_scalar (mks : List String) (d : J) (h1 : d.isObj = false) (h2 : d.isArr = false)
    (h3 : d.isNull = false) : Idem mks d := by
  intro o l r _ _ _ _ h
  cases o with
  | obj os => rw [merge_obj_other _ _ _ _ h1 h3] at h; cases h
  | arr xs => rw [merge_arr_other _ _ _ _ h2 h3] at h; cases h
  | null | bool _ | num _ | str _ =>
    rw [merge_scalar _ _ _ _ rfl rfl] at h; cases h
    exact merge_scalar _ _ _ _ h1 h2

theorem idem_all (mks : List String) : ∀ d, Idem mks d := by
  intro d
  induction d using J.induct with
  | hnull =>
    intro o l r _ hn _ _ h
    cases o with
    | obj os =>
      rw [merge_obj_null] at h; cases h
      rw [merge_obj_null]; simp only [lastObj]; rw [prune_nil_last]
    | arr xs => simp [noNullOverArr] at hn
    | null | bool _ | num _ | str _ =>
      rw [merge_scalar _ _ _ _ rfl rfl] at h; cases h
      exact merge_scalar _ _ _ _ rfl rfl
  | hbool b => exact idem_scalar mks _ rfl rfl rfl
  | hnum n => exact idem_scalar mks _ rfl rfl rfl
  | hstr s => exact idem_scalar mks _ rfl rfl rfl
  | hobj ds ih =>
    intro o l r hs hn hd hr h
    have hd' := (hypJ_obj mks ds).mp hd
    obtain ⟨hu, hdv⟩ := hd'
    have key : ∃ rk, r = .obj rk ∧ ∀ k v, (k, v) ∈ ds →
        ∃ m, lookup k rk = some m ∧ merge mks m (some v) v = .ok m := by
      cases o with
      | obj os =>
        rw [merge_obj_obj] at h
        obtain ⟨rk, hrk, h1, _⟩ := mergeFields_spec mks _ ds _ r hu h
        subst hrk
        have hr' := (hypJ_obj mks rk).mp hr
        have hnf : noNullF os ds = true := by simpa [noNullOverArr] using hn
        refine ⟨rk, rfl, ?_⟩
        intro k v hmem
        obtain ⟨m, hm, hmm⟩ := h1 k v hmem
        rw [lookup_prune_of_hasKey _ _ _ _ (hasKey_of_mem hmem)] at hmm
        exact ⟨m, hm, ih k v hmem _ _ m (scalarKeys_field mks os k hs) (noNullF_mem os ds hnf k v hmem)
          (hdv k v hmem) (hr'.2 k m (lookup_mem _ _ _ hm)) hmm⟩
      | arr xs => rw [merge_arr_other _ _ _ _ rfl rfl] at h; cases h
      | null | bool _ | num _ | str _ =>
        rw [merge_scalar _ _ _ _ rfl rfl] at h; cases h
        refine ⟨ds, rfl, ?_⟩
        intro k v hmem
        exact ⟨v, lookup_of_mem_uniq _ _ _ hu hmem,
          ih k v hmem .null none v rfl (noNullOverArr_scalar _ _ rfl rfl) (hdv k v hmem) (hdv k v hmem)
            (merge_scalar _ _ _ _ rfl rfl)⟩
    obtain ⟨rk, rfl, hk⟩ := key
    rw [merge_obj_obj]; simp only [lastObj]; rw [prune_self]
    apply mergeFields_fix
    intro k v hmem
    obtain ⟨m, hm, hmm⟩ := hk k v hmem
    exact ⟨m, hm, by rw [lookup_of_mem_uniq _ _ _ hu hmem]; exact hmm⟩
  | harr ds ih =>
    intro o l r hs hn hd hr h
    have hdi := ((hypJ_arr mks ds).mp hd).2
    -- self-merge of items
    have hself : ∀ it ∈ ds, merge mks it (some it) it = .ok it := fun it hit =>
      ih it hit .null none it rfl (noNullOverArr_scalar _ _ rfl rfl) (hdi it hit) (hdi it hit)
        (merge_scalar _ _ _ _ rfl rfl)
    have hplain : merge mks (.arr ds) (some (.arr ds)) (.arr ds) = .ok (.arr ds) := by
      apply second_arr mks ds ds hd hd
      · intro it hit; exact ⟨it, hit, fun _ _ _ => rfl, hself it hit⟩
      · exact Or.inl rfl
    cases o with
    | obj os => rw [merge_obj_other _ _ _ _ rfl rfl] at h; cases h
    | null | bool _ | num _ | str _ =>
      rw [merge_scalar _ _ _ _ rfl rfl] at h; cases h; exact hplain
    | arr xs =>
      cases hdet : detectListMapKey mks [xs, lastArr l, ds] with
      | none => rw [merge_arr_arr_none _ _ _ _ hdet] at h; cases h; exact hplain
      | some mk =>
        obtain ⟨hmk, _, hall, _⟩ := detect_some hdet
        have hallx : ∀ it ∈ xs, ∃ kvs, it = .obj kvs ∧ hasKey mk kvs = true :=
          fun it hit => hall it (by simp [hit])
        have halld : ∀ it ∈ ds, ∃ kvs, it = .obj kvs ∧ hasKey mk kvs = true :=
          fun it hit => hall it (by simp [hit])
        have hnd := nodup_of_hypJ mks ds mk hd hmk halld
        obtain ⟨merged, hrr, h1, h2⟩ := listmap_spec mks xs l ds mk r hdet hnd h
        subst hrr
        have hri := ((hypJ_arr mks _).mp hr).2
        have hsx := (scalarKeys_arr mks xs).mp hs
        have hnl : noNullL xs ds = true := by simpa [noNullOverArr] using hn
        -- the observed partner of a desired item
        have hpart : ∀ it ∈ ds,
            scalarKeys mks ((lookup (keyOf mk it) (prunedMap mk xs (lastArr l) ds)).getD .null) = true ∧
            noNullOverArr ((lookup (keyOf mk it) (prunedMap mk xs (lastArr l) ds)).getD .null) it = true := by
          intro it hit
          cases hl : lookup (keyOf mk it) (prunedMap mk xs (lastArr l) ds) with
          | none => exact ⟨rfl, noNullOverArr_scalar _ _ rfl rfl⟩
          | some v =>
            have hv := (lookup_prunedMap_some mk xs _ ds _ v hl).1
            exact ⟨hsx v hv, noNullL_mem xs ds hnl v hv it hit⟩
        have hres : ∀ it ∈ ds, ∀ m, lookup (keyOf mk it) merged = some m →
            ∃ kvs, m = .obj kvs ∧ hasKey mk kvs = true := by
          intro it hit m hm
          obtain ⟨m', hm', hmm⟩ := h1 it hit
          rw [hm] at hm'; cases hm'
          obtain ⟨kvs, rfl, hk⟩ := halld it hit
          have hu := ((hypJ_obj mks kvs).mp (hdi _ hit)).1
          obtain ⟨mkv, hmkv, hkeys, _⟩ := merge_obj_keys mks _ _ kvs m hu hmm
          exact ⟨mkv, hmkv, hkeys mk hk⟩
        apply second_arr mks _ ds hr hd
        · intro it hit
          obtain ⟨m, hm, hmm⟩ := h1 it hit
          have hmr := mem_rebuild_of_des mk xs merged ds hnd it m hit hm
          refine ⟨m, hmr, ?_, ?_⟩
          · intro mk' hmk' ⟨kvs, hkvs, hk⟩
            subst hkvs
            have hu := ((hypJ_obj mks kvs).mp (hdi _ hit)).1
            obtain ⟨mkv, hmkv, _, hkk⟩ := merge_obj_keys mks _ _ kvs m hu hmm
            subst hmkv
            rw [keyOf_obj, keyOf_obj, hkk mk' hmk' (hpart _ hit).1 hk]
          · exact ih it hit _ _ m (hpart it hit).1 (hpart it hit).2 (hdi it hit) (hri m hmr) hmm
        · right
          refine ⟨mk, hmk, ?_, halld⟩
          intro m hm
          rcases mem_rebuild_cases mk xs merged ds hnd m hm with ⟨x, hx, hxm⟩ | ⟨it, hit, hmi⟩
          · by_cases hk : keyOf mk x ∈ ds.map (keyOf mk)
            · rw [List.mem_map] at hk
              obtain ⟨it, hit, hke⟩ := hk
              rw [← hke] at hxm
              exact hres it hit m hxm
            · rw [h2 _ hk] at hxm
              exact hallx m (lookup_prunedMap_some mk xs _ ds _ m hxm).1
          · obtain ⟨m', hm', _⟩ := h1 it hit
            rw [hm'] at hmi
            simp only [Option.getD_some] at hmi
            subst hmi
            exact hres it hit m hm'

end Mc.C05
