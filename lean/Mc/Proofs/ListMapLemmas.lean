import Mc.Proofs.MergeLemmas
/-
  Lemmas for the list-map branch: key detection, `makeListMap`, `mergeItems`, `rebuild`.
-/
set_option linter.unusedSimpArgs false
namespace Mc

/-! ### key detection in closed form -/

/-- every item of `flat` (read as an object) has key `k` -/
def sharedIn (flat : List J) (k : String) : Bool := flat.all (fun it => hasKey k it.fields)

theorem sharedIn_cons (it : J) (rest : List J) (k : String) :
    sharedIn (it :: rest) k = (hasKey k it.fields && sharedIn rest k) := by
  simp [sharedIn]

theorem sharedIn_mem {flat : List J} {k : String} (h : sharedIn flat k = true) {it : J} (hm : it ∈ flat) :
    hasKey k it.fields = true := by
  unfold sharedIn at h; rw [List.all_eq_true] at h; exact h it hm

theorem foldl_commonStep_none (flat : List J) : flat.foldl commonStep none = none := by
  induction flat with
  | nil => rfl
  | cons hd tl ih => simp only [List.foldl_cons, commonStep]; exact ih

theorem foldl_commonStep_some : ∀ (flat : List J) (ks : List String),
    flat.foldl commonStep (some (some ks)) =
      if flat.all J.isObj then some (some (ks.filter (sharedIn flat))) else none := by
  intro flat
  induction flat with
  | nil =>
    intro ks
    have : ks.filter (sharedIn []) = ks := List.filter_eq_self.mpr (by simp [sharedIn])
    simp [this]
  | cons hd tl ih =>
    intro ks
    cases hd with
    | obj kvs =>
      simp only [List.foldl_cons, commonStep]
      rw [ih]
      simp only [List.all_cons, J.isObj, Bool.true_and, List.filter_filter]
      have : (fun a => sharedIn tl a && hasKey a kvs) = sharedIn (J.obj kvs :: tl) := by
        funext a; rw [sharedIn_cons, Bool.and_comm]; rfl
      rw [this]
    | null | bool _ | num _ | str _ | arr _ =>
      simp only [List.foldl_cons, commonStep, foldl_commonStep_none, List.all_cons, J.isObj, Bool.false_and]
      simp

theorem contains_keysOf (kvs : KVs) (k : String) : (keysOf kvs).contains k = hasKey k kvs := by
  rw [Bool.eq_iff_iff, List.contains_iff_mem, hasKey_iff_mem_keys]

theorem commonKeys_eq (lists : List (List J)) :
    commonKeys lists =
      match lists.flatten with
      | [] => some none
      | it :: rest =>
        if (it :: rest).all J.isObj then some (some ((keysOf it.fields).filter (sharedIn rest))) else none := by
  unfold commonKeys
  cases lists.flatten with
  | nil => rfl
  | cons it rest =>
    cases it with
    | obj kvs =>
      simp only [List.foldl_cons, commonStep]
      rw [foldl_commonStep_some]
      simp [J.isObj, J.fields]
    | null | bool _ | num _ | str _ | arr _ =>
      simp only [List.foldl_cons, commonStep, foldl_commonStep_none, List.all_cons, J.isObj, Bool.false_and]
      simp

theorem detect_eq (mks : List String) (lists : List (List J)) :
    detectListMapKey mks lists =
      if lists.flatten.isEmpty || !(lists.flatten.all J.isObj) then none
      else mks.find? (sharedIn lists.flatten) := by
  unfold detectListMapKey
  rw [commonKeys_eq]
  cases hf : lists.flatten with
  | nil => simp
  | cons it rest =>
    by_cases ha : (it :: rest).all J.isObj = true
    · simp only [ha, if_true, List.isEmpty_cons, Bool.not_true, Bool.or_false, Bool.false_eq_true, if_false]
      congr 1
      funext k
      rw [sharedIn_cons, Bool.eq_iff_iff]
      simp only [List.contains_iff_mem, List.mem_filter, Bool.and_eq_true]
      rw [← hasKey_iff_mem_keys]
    · simp only [ha, if_false]
      simp at ha ⊢

theorem detect_some {mks : List String} {lists : List (List J)} {mk : String}
    (h : detectListMapKey mks lists = some mk) :
    mk ∈ mks ∧ lists.flatten ≠ [] ∧ (∀ it ∈ lists.flatten, ∃ kvs, it = .obj kvs ∧ hasKey mk kvs = true) ∧
      mks.find? (sharedIn lists.flatten) = some mk := by
  rw [detect_eq] at h
  split at h
  · simp at h
  · rename_i hc
    simp only [Bool.or_eq_true, Bool.not_eq_true', not_or, Bool.not_eq_false] at hc
    obtain ⟨hne, hall⟩ := hc
    refine ⟨List.mem_of_find?_eq_some h, ?_, ?_, h⟩
    · intro e; rw [e] at hne; simp at hne
    · intro it hit
      have hs := List.find?_some h
      have h1 := sharedIn_mem hs hit
      rw [List.all_eq_true] at hall
      have h2 := hall it hit
      cases it <;> simp [J.isObj] at h2
      exact ⟨_, rfl, h1⟩

theorem detect_ne_none {mks : List String} {lists : List (List J)} {mk : String}
    (hmk : mk ∈ mks) (hne : lists.flatten ≠ [])
    (hall : ∀ it ∈ lists.flatten, ∃ kvs, it = .obj kvs ∧ hasKey mk kvs = true) :
    ∃ mk', detectListMapKey mks lists = some mk' := by
  rw [detect_eq]
  have h1 : lists.flatten.isEmpty = false := by
    cases hf : lists.flatten with
    | nil => exact absurd hf hne
    | cons _ _ => rfl
  have h2 : lists.flatten.all J.isObj = true := by
    rw [List.all_eq_true]; intro it hit
    obtain ⟨kvs, rfl, _⟩ := hall it hit; rfl
  simp only [h1, h2, Bool.not_true, Bool.or_false, Bool.false_eq_true, if_false]
  cases hf : mks.find? (sharedIn lists.flatten) with
  | some mk' => exact ⟨mk', rfl⟩
  | none =>
    rw [List.find?_eq_none] at hf
    exfalso; apply hf mk hmk
    unfold sharedIn; rw [List.all_eq_true]; intro it hit
    obtain ⟨kvs, rfl, hk⟩ := hall it hit; exact hk

/-! ### Nodup of key lists -/

theorem length_eraseDups_le : ∀ (n : Nat) (ks : List String), ks.length ≤ n → ks.eraseDups.length ≤ ks.length := by
  intro n
  induction n with
  | zero => intro ks h; cases ks <;> simp_all
  | succ n ih =>
    intro ks h
    cases ks with
    | nil => simp
    | cons a as =>
      rw [List.eraseDups_cons]
      simp only [List.length_cons] at h ⊢
      have h1 := List.length_filter_le (fun b => !b == a) as
      have h2 := ih (as.filter (fun b => !b == a)) (by omega)
      omega

theorem nodup_iff_eraseDups : ∀ (n : Nat) (ks : List String), ks.length ≤ n →
    ((ks.length == ks.eraseDups.length) = true ↔ ks.Nodup) := by
  intro n
  induction n with
  | zero => intro ks h; cases ks <;> simp_all
  | succ n ih =>
    intro ks h
    cases ks with
    | nil => simp
    | cons a as =>
      rw [List.eraseDups_cons, List.nodup_cons]
      simp only [List.length_cons, beq_iff_eq, Nat.add_right_cancel_iff] at h ⊢
      have h1 := List.length_filter_le (fun b => !b == a) as
      have h2 := length_eraseDups_le _ (as.filter (fun b => !b == a)) (Nat.le_refl _)
      constructor
      · intro he
        have hlen : (as.filter (fun b => !b == a)).length = as.length := by omega
        have hf : as.filter (fun b => !b == a) = as := by
          rw [List.filter_eq_self]; exact List.length_filter_eq_length_iff.mp hlen
        rw [hf] at he
        refine ⟨?_, (ih as (by omega)).mp (by simpa using he)⟩
        intro hmem
        have := (List.filter_eq_self.mp hf) a hmem
        simp at this
      · intro ⟨hn, hd⟩
        have hf : as.filter (fun b => !b == a) = as := by
          rw [List.filter_eq_self]; intro b hb
          simp only [Bool.not_eq_true', beq_eq_false_iff_ne]
          intro e; subst e; exact hn hb
        rw [hf]
        have := (ih as (by omega)).mpr hd
        simpa using this

theorem nodup_of_eraseDups (ks : List String) : (ks.length == ks.eraseDups.length) = true ↔ ks.Nodup :=
  nodup_iff_eraseDups _ ks (Nat.le_refl _)

/-! ### makeListMap -/

theorem makeListMap_eq (mk : String) (items : List J) :
    makeListMap mk items = items.foldl (fun m it => setKey (keyOf mk it) it m) [] := rfl

theorem lookup_foldl_notin (mk : String) : ∀ (items : List J) (acc : KVs) (k : String),
    k ∉ items.map (keyOf mk) →
    lookup k (items.foldl (fun m it => setKey (keyOf mk it) it m) acc) = lookup k acc := by
  intro items
  induction items with
  | nil => intro acc k _; rfl
  | cons it rest ih =>
    intro acc k h
    simp only [List.map_cons, List.mem_cons, not_or] at h
    simp only [List.foldl_cons]
    rw [ih _ _ h.2, lookup_setKey_other _ _ _ _ h.1]

theorem lookup_foldl_mem_nodup (mk : String) : ∀ (items : List J) (acc : KVs) (x : J),
    (items.map (keyOf mk)).Nodup → x ∈ items →
    lookup (keyOf mk x) (items.foldl (fun m it => setKey (keyOf mk it) it m) acc) = some x := by
  intro items
  induction items with
  | nil => intro acc x _ h; simp at h
  | cons it rest ih =>
    intro acc x hn hx
    simp only [List.map_cons, List.nodup_cons] at hn
    simp only [List.foldl_cons]
    simp only [List.mem_cons] at hx
    rcases hx with rfl | hx
    · rw [lookup_foldl_notin mk rest _ _ hn.1, lookup_setKey_same]
    · exact ih _ x hn.2 hx

theorem lookup_foldl_some (mk : String) : ∀ (items : List J) (acc : KVs) (k : String) (v : J),
    lookup k (items.foldl (fun m it => setKey (keyOf mk it) it m) acc) = some v →
    (v ∈ items ∧ keyOf mk v = k) ∨ lookup k acc = some v := by
  intro items
  induction items with
  | nil => intro acc k v h; exact Or.inr h
  | cons it rest ih =>
    intro acc k v h
    simp only [List.foldl_cons] at h
    rcases ih _ k v h with ⟨h1, h2⟩ | h1
    · exact Or.inl ⟨List.mem_cons_of_mem _ h1, h2⟩
    · rw [lookup_setKey] at h1
      split at h1
      · rename_i e; cases h1; exact Or.inl ⟨by simp, e.symm⟩
      · exact Or.inr h1

theorem hasKey_foldl (mk : String) : ∀ (items : List J) (acc : KVs) (k : String),
    hasKey k (items.foldl (fun m it => setKey (keyOf mk it) it m) acc) =
      (hasKey k acc || (items.map (keyOf mk)).contains k) := by
  intro items
  induction items with
  | nil => intro acc k; simp
  | cons it rest ih =>
    intro acc k
    simp only [List.foldl_cons, List.map_cons, List.contains_cons]
    rw [ih]
    have : hasKey k (setKey (keyOf mk it) it acc) = (hasKey k acc || k == keyOf mk it) := by
      unfold hasKey; rw [lookup_setKey]
      by_cases e : k = keyOf mk it
      · simp [e]
      · simp [e]
    rw [this, Bool.or_assoc]

theorem lookup_makeListMap_mem (mk : String) (items : List J) (x : J)
    (hn : (items.map (keyOf mk)).Nodup) (hx : x ∈ items) :
    lookup (keyOf mk x) (makeListMap mk items) = some x :=
  lookup_foldl_mem_nodup mk items [] x hn hx

theorem lookup_makeListMap_some (mk : String) (items : List J) (k : String) (v : J)
    (h : lookup k (makeListMap mk items) = some v) : v ∈ items ∧ keyOf mk v = k := by
  rcases lookup_foldl_some mk items [] k v h with h | h
  · exact h
  · simp at h

theorem hasKey_makeListMap (mk : String) (items : List J) (k : String) :
    hasKey k (makeListMap mk items) = (items.map (keyOf mk)).contains k := by
  rw [makeListMap_eq, hasKey_foldl]; simp

theorem lookup_prunedMap_some (mk : String) (xs ll ds : List J) (k : String) (v : J)
    (h : lookup k (prunedMap mk xs ll ds) = some v) : v ∈ xs ∧ keyOf mk v = k := by
  unfold prunedMap at h
  rw [lookup_filter (fun k => !(hasKey k (makeListMap mk ll) && !(ds.map (keyOf mk)).contains k))] at h
  split at h
  · exact lookup_makeListMap_some mk xs k v h
  · simp at h

theorem lookup_prunedMap (mk : String) (xs ll ds : List J) (k : String) :
    lookup k (prunedMap mk xs ll ds) =
      if ((ll.map (keyOf mk)).contains k && !(ds.map (keyOf mk)).contains k) then none
      else lookup k (makeListMap mk xs) := by
  unfold prunedMap
  rw [lookup_filter (fun k => !(hasKey k (makeListMap mk ll) && !(ds.map (keyOf mk)).contains k)),
    hasKey_makeListMap]
  cases ((ll.map (keyOf mk)).contains k && !(ds.map (keyOf mk)).contains k) <;> simp

/-- when last-applied = desired nothing is pruned -/
theorem prunedMap_self (mk : String) (xs ds : List J) : prunedMap mk xs ds ds = makeListMap mk xs := by
  unfold prunedMap
  apply List.filter_eq_self.mpr
  intro a _
  rw [hasKey_makeListMap]
  cases (ds.map (keyOf mk)).contains a.1 <;> simp

/-! ### mergeItems -/

theorem mergeItems_nil (mks : List String) (mk : String) (d ls : KVs) : mergeItems mks mk d ls [] = .ok d := by
  rw [mergeItems]

theorem mergeItems_cons_skip (mks : List String) (mk : String) (d ls : KVs) (it : J) (rest : List J)
    (h : (rest.map (keyOf mk)).contains (keyOf mk it) = true) :
    mergeItems mks mk d ls (it :: rest) = mergeItems mks mk d ls rest := by
  rw [mergeItems]; simp only [h, if_true]

theorem mergeItems_cons (mks : List String) (mk : String) (d ls : KVs) (it : J) (rest : List J)
    (h : (rest.map (keyOf mk)).contains (keyOf mk it) = false) :
    mergeItems mks mk d ls (it :: rest) =
      match merge mks ((lookup (keyOf mk it) d).getD .null) (lookup (keyOf mk it) ls) it with
      | .ok m => mergeItems mks mk (setKey (keyOf mk it) m d) ls rest
      | .error e => .error e := by
  rw [mergeItems]; simp only [h, Bool.false_eq_true, if_false]
  split <;> simp_all

theorem mergeItems_spec (mks : List String) (mk : String) (ls : KVs) : ∀ (ds : List J) (d merged : KVs),
    (ds.map (keyOf mk)).Nodup → mergeItems mks mk d ls ds = .ok merged →
    (∀ it ∈ ds, ∃ m, lookup (keyOf mk it) merged = some m ∧
        merge mks ((lookup (keyOf mk it) d).getD .null) (lookup (keyOf mk it) ls) it = .ok m) ∧
    (∀ k, k ∉ ds.map (keyOf mk) → lookup k merged = lookup k d) := by
  intro ds
  induction ds with
  | nil =>
    intro d merged _ h
    rw [mergeItems_nil] at h; cases h
    exact ⟨by simp, by simp⟩
  | cons it rest ih =>
    intro d merged hn h
    simp only [List.map_cons, List.nodup_cons] at hn
    have hc : (rest.map (keyOf mk)).contains (keyOf mk it) = false := by
      rw [Bool.eq_false_iff]; intro hc; exact hn.1 (List.contains_iff_mem.mp hc)
    rw [mergeItems_cons _ _ _ _ _ _ hc] at h
    split at h
    · rename_i m hm
      obtain ⟨h1, h2⟩ := ih _ _ hn.2 h
      refine ⟨?_, ?_⟩
      · intro it2 hit2
        simp only [List.mem_cons] at hit2
        rcases hit2 with rfl | hit2
        · refine ⟨m, ?_, hm⟩
          rw [h2 _ hn.1, lookup_setKey_same]
        · obtain ⟨m2, hm2, hmm⟩ := h1 it2 hit2
          have hne : keyOf mk it2 ≠ keyOf mk it := by
            intro e; apply hn.1; rw [← e]; exact List.mem_map_of_mem hit2
          rw [lookup_setKey_other _ _ _ _ hne] at hmm
          exact ⟨m2, hm2, hmm⟩
      · intro k hk
        simp only [List.map_cons, List.mem_cons, not_or] at hk
        rw [h2 _ hk.2, lookup_setKey_other _ _ _ _ hk.1]
    · simp at h

theorem mergeItems_fix (mks : List String) (mk : String) (rk ls : KVs) : ∀ (ds : List J),
    (∀ it ∈ ds, ∃ m, lookup (keyOf mk it) rk = some m ∧ merge mks m (lookup (keyOf mk it) ls) it = .ok m) →
    mergeItems mks mk rk ls ds = .ok rk := by
  intro ds
  induction ds with
  | nil => intro _; rw [mergeItems_nil]
  | cons it rest ih =>
    intro h
    have ih' := ih (fun it2 hm => h it2 (by simp [hm]))
    cases hc : (rest.map (keyOf mk)).contains (keyOf mk it) with
    | true => rw [mergeItems_cons_skip _ _ _ _ _ _ hc]; exact ih'
    | false =>
      obtain ⟨m, hlk, hm⟩ := h it (by simp)
      rw [mergeItems_cons _ _ _ _ _ _ hc, hlk]
      simp only [Option.getD_some]
      rw [hm]
      simp only
      rw [setKey_id _ _ _ hlk]
      exact ih'

/-! ### restItems / rebuild -/

theorem restItems_congr (mk : String) (merged : KVs) : ∀ (ds : List J) (seen seen' : List String),
    (∀ it ∈ ds, seen.contains (keyOf mk it) = seen'.contains (keyOf mk it)) →
    restItems mk merged ds seen = restItems mk merged ds seen' := by
  intro ds
  induction ds with
  | nil => intro _ _ _; rfl
  | cons it rest ih =>
    intro seen seen' h
    have h0 := h it (by simp)
    simp only [restItems]
    rw [← h0]
    cases hc : seen.contains (keyOf mk it) with
    | true => simp only [if_true]; exact ih _ _ (fun it2 hm => h it2 (by simp [hm]))
    | false =>
      simp only [Bool.false_eq_true, if_false]
      congr 1
      apply ih
      intro it2 hm
      simp only [List.contains_cons]
      rw [h it2 (by simp [hm])]

theorem restItems_eq (mk : String) (merged : KVs) : ∀ (ds : List J) (seen : List String),
    (ds.map (keyOf mk)).Nodup →
    restItems mk merged ds seen =
      (ds.filter (fun it => !seen.contains (keyOf mk it))).map (fun it => (lookup (keyOf mk it) merged).getD .null) := by
  intro ds
  induction ds with
  | nil => intro _ _; rfl
  | cons it rest ih =>
    intro seen hn
    simp only [List.map_cons, List.nodup_cons] at hn
    simp only [restItems]
    cases hc : seen.contains (keyOf mk it) with
    | true =>
      simp only [if_true]
      rw [List.filter_cons_of_neg (by rw [hc]; simp)]
      exact ih seen hn.2
    | false =>
      simp only [Bool.false_eq_true, if_false]
      rw [List.filter_cons_of_pos (by rw [hc]; simp), List.map_cons]
      congr 1
      rw [← ih seen hn.2]
      apply restItems_congr
      intro it2 hm
      simp only [List.contains_cons]
      have hne : keyOf mk it2 ≠ keyOf mk it := by
        intro e; apply hn.1; rw [← e]; exact List.mem_map_of_mem hm
      simp [hne]

theorem rebuild_eq (mk : String) (xs : List J) (merged : KVs) (ds : List J) (hn : (ds.map (keyOf mk)).Nodup) :
    rebuild mk xs merged ds =
      xs.filterMap (fun it => lookup (keyOf mk it) merged) ++
      (ds.filter (fun it => !((xs.map (keyOf mk)).contains (keyOf mk it) && hasKey (keyOf mk it) merged))).map
        (fun it => (lookup (keyOf mk it) merged).getD .null) := by
  unfold rebuild
  simp only
  rw [restItems_eq mk merged ds _ hn]
  congr 2
  apply List.filter_congr
  intro it _
  congr 1
  rw [Bool.eq_iff_iff]
  simp only [List.contains_iff_mem, List.mem_filter, Bool.and_eq_true]

theorem mem_rebuild_of_des (mk : String) (xs : List J) (merged : KVs) (ds : List J)
    (hn : (ds.map (keyOf mk)).Nodup) (it m : J) (hit : it ∈ ds) (hm : lookup (keyOf mk it) merged = some m) :
    m ∈ rebuild mk xs merged ds := by
  rw [rebuild_eq mk xs merged ds hn, List.mem_append]
  cases hc : ((xs.map (keyOf mk)).contains (keyOf mk it) && hasKey (keyOf mk it) merged) with
  | true =>
    left
    simp only [Bool.and_eq_true, List.contains_iff_mem, List.mem_map] at hc
    obtain ⟨⟨x, hx, hkx⟩, _⟩ := hc
    rw [List.mem_filterMap]
    exact ⟨x, hx, by rw [hkx]; exact hm⟩
  | false =>
    right
    rw [List.mem_map]
    refine ⟨it, ?_, by rw [hm]; rfl⟩
    rw [List.mem_filter]
    exact ⟨hit, by rw [hc]; rfl⟩

theorem mem_rebuild_cases (mk : String) (xs : List J) (merged : KVs) (ds : List J)
    (hn : (ds.map (keyOf mk)).Nodup) (m : J) (hm : m ∈ rebuild mk xs merged ds) :
    (∃ x ∈ xs, lookup (keyOf mk x) merged = some m) ∨
    (∃ it ∈ ds, m = (lookup (keyOf mk it) merged).getD .null) := by
  rw [rebuild_eq mk xs merged ds hn, List.mem_append] at hm
  rcases hm with hm | hm
  · left; rw [List.mem_filterMap] at hm; exact hm
  · right; rw [List.mem_map] at hm
    obtain ⟨it, hit, e⟩ := hm
    exact ⟨it, (List.mem_filter.mp hit).1, e.symm⟩

/-- specification of the first list-map merge -/
theorem listmap_spec (mks : List String) (xs : List J) (l : Option J) (ds : List J) (mk : String) (r : J)
    (hdet : detectListMapKey mks [xs, lastArr l, ds] = some mk)
    (hn : (ds.map (keyOf mk)).Nodup)
    (h : merge mks (.arr xs) l (.arr ds) = .ok r) :
    ∃ merged, r = .arr (rebuild mk xs merged ds) ∧
      (∀ it ∈ ds, ∃ m, lookup (keyOf mk it) merged = some m ∧
        merge mks ((lookup (keyOf mk it) (prunedMap mk xs (lastArr l) ds)).getD .null)
          (lookup (keyOf mk it) (makeListMap mk (lastArr l))) it = .ok m) ∧
      (∀ k, k ∉ ds.map (keyOf mk) → lookup k merged = lookup k (prunedMap mk xs (lastArr l) ds)) := by
  rw [merge_arr_arr_some mks xs l ds mk hdet] at h
  split at h
  · simp at h
  · rename_i merged hm
    cases h
    obtain ⟨h1, h2⟩ := mergeItems_spec mks mk _ ds _ merged hn hm
    exact ⟨merged, rfl, h1, h2⟩

theorem filterMap_eq_self {α : Type} (f : α → Option α) : ∀ (xs : List α), (∀ x ∈ xs, f x = some x) → xs.filterMap f = xs := by
  intro xs
  induction xs with
  | nil => intro _; rfl
  | cons hd tl ih =>
    intro h
    rw [List.filterMap_cons, h hd (by simp)]
    simp only
    rw [ih (fun x hx => h x (by simp [hx]))]

end Mc
