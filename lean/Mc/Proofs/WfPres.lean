import Mc.Props.C01Update
/-
  Well-formedness (no duplicate keys at any level) is preserved by everything between an observed child and the
  object the API server stores for its update: the 3-way merge (C05), the reverts, the last-applied record, and the
  server's own edits.  This discharges the well-formedness hypothesis of `C01_updated_child_is_settled`.
-/
namespace Mc
namespace C01
open Api C05

theorem wfB_obj_of_fields (o : J) (h : o.wfB = true) : (J.obj o.fields).wfB = true := wfB_fields o h

theorem wfB_lookup {kvs : KVs} {k : String} {v : J} (h : (J.obj kvs).wfB = true) (hl : lookup k kvs = some v) : v.wfB = true :=
  ((wfB_obj kvs).mp h).2 k v (lookup_mem _ _ _ hl)

theorem setNestedFieldKVs_wfB (v : J) (hv : v.wfB = true) : ∀ (path : List String) (kvs kvs' : KVs), (J.obj kvs).wfB = true →
    setNestedFieldKVs kvs v path = .ok kvs' → (J.obj kvs').wfB = true := by
  intro path
  induction path with
  | nil => intro kvs kvs' h e; simp [setNestedFieldKVs] at e; subst e; exact h
  | cons k rest ih =>
    intro kvs kvs' h e
    cases rest with
    | nil => simp [setNestedFieldKVs] at e; subst e; exact wfB_setKey k v kvs h hv
    | cons k2 ks =>
      simp only [setNestedFieldKVs] at e
      cases hl : lookup k kvs with
      | none =>
        simp only [hl] at e
        cases hi : setNestedFieldKVs [] v (k2 :: ks) with
        | error er => simp [hi] at e
        | ok inner' =>
          simp only [hi] at e
          cases e
          exact wfB_setKey k _ kvs h (ih [] inner' rfl hi)
      | some x =>
        cases x with
        | obj inner =>
          simp only [hl] at e
          cases hi : setNestedFieldKVs inner v (k2 :: ks) with
          | error er => simp [hi] at e
          | ok inner' =>
            simp only [hi] at e
            cases e
            exact wfB_setKey k _ kvs h (ih inner inner' (wfB_lookup h hl) hi)
        | null => simp [hl] at e
        | bool b => simp [hl] at e
        | num n => simp [hl] at e
        | str s => simp [hl] at e
        | arr xs => simp [hl] at e

theorem setNestedField_wfB (o v o' : J) (path : List String) (ho : o.wfB = true) (hv : v.wfB = true)
    (h : setNestedField o v path = .ok o') : o'.wfB = true := by
  unfold setNestedField at h
  cases hk : setNestedFieldKVs o.fields v path with
  | error e => simp [hk] at h
  | ok kvs' =>
    simp only [hk] at h
    cases h
    exact setNestedFieldKVs_wfB v hv path o.fields kvs' (wfB_fields o ho) hk

theorem removeNestedFieldKVs_wfB : ∀ (path : List String) (kvs : KVs), (J.obj kvs).wfB = true → (J.obj (removeNestedFieldKVs kvs path)).wfB = true := by
  intro path
  induction path with
  | nil => intro kvs h; simpa [removeNestedFieldKVs] using h
  | cons k rest ih =>
    intro kvs h
    cases rest with
    | nil => simpa [removeNestedFieldKVs] using wfB_eraseKey k kvs h
    | cons k2 ks =>
      simp only [removeNestedFieldKVs]
      cases hl : lookup k kvs with
      | none => exact h
      | some x =>
        cases x with
        | obj inner => exact wfB_setKey k _ kvs h (ih inner (wfB_lookup h hl))
        | null => exact h
        | bool b => exact h
        | num n => exact h
        | str s => exact h
        | arr xs => exact h

theorem removeNestedField_wfB (o : J) (path : List String) (ho : o.wfB = true) : (removeNestedField o path).wfB = true :=
  removeNestedFieldKVs_wfB path o.fields (wfB_fields o ho)

theorem nestedField_wfB : ∀ (path : List String) (o v : J), o.wfB = true → nestedField o path = .ok (some v) → v.wfB = true := by
  intro path
  induction path with
  | nil => intro o v h e; simp [nestedField] at e; subst e; exact h
  | cons k ks ih =>
    intro o v h e
    cases o with
    | obj kvs =>
      simp only [nestedField] at e
      cases hl : lookup k kvs with
      | none => simp [hl] at e
      | some x => simp only [hl] at e; exact ih x v (wfB_lookup h hl) e
    | null => simp [nestedField] at e
    | bool b => simp [nestedField] at e
    | num n => simp [nestedField] at e
    | str s => simp [nestedField] at e
    | arr xs => simp [nestedField] at e

theorem revertField_wfB (acc orig y : J) (path : List String) (ha : acc.wfB = true) (ho : orig.wfB = true)
    (h : revertField acc orig path = .ok y) : y.wfB = true := by
  unfold revertField at h
  split at h
  · cases h
  · rename_i v hv
    exact setNestedField_wfB acc v y path ha (nestedField_wfB path orig v ho hv) h
  · cases h; exact removeNestedField_wfB acc path ha

theorem revertSystemFields_wfB (orig : J) (ho : orig.wfB = true) : ∀ (sys : List String) (acc y : J), acc.wfB = true →
    revertSystemFields sys acc orig = .ok y → y.wfB = true := by
  intro sys
  induction sys with
  | nil => intro acc y ha h; simp [revertSystemFields] at h; cases h; exact ha
  | cons f tl ih =>
    intro acc y ha h
    unfold revertSystemFields at h
    rw [List.foldlM_cons] at h
    cases h1 : revertField acc orig ["metadata", f] with
    | error e => simp [h1, bind, Except.bind] at h
    | ok acc1 =>
      simp only [h1, bind, Except.bind] at h
      exact ih acc1 y (revertField_wfB acc orig acc1 _ ha ho h1) h

theorem getAnnotations_wfB (o : J) (ho : o.wfB = true) : (J.obj ((getAnnotations o).getD [])).wfB = true := by
  unfold getAnnotations stringMapAt
  split
  · rename_i kvs hn
    split
    · exact nestedField_wfB _ o (.obj kvs) ho hn
    · rfl
  · rfl

theorem setLastApplied_wfB (o la : J) (ho : o.wfB = true) (hl : la.wfB = true) : (setLastApplied o la).wfB = true := by
  unfold setLastApplied setStringMapAt
  simp only []
  split
  · rename_i o' h
    exact setNestedField_wfB o _ o' _ ho (wfB_setKey _ la _ (getAnnotations_wfB o ho) hl) h
  · exact ho

theorem setStringMapAt_wfB (o : J) (path : List String) (m : Option KVs) (ho : o.wfB = true)
    (hm : ∀ kvs, m = some kvs → (J.obj kvs).wfB = true) : (setStringMapAt o path m).wfB = true := by
  unfold setStringMapAt
  cases m with
  | none => exact removeNestedField_wfB o path ho
  | some kvs =>
    simp only []
    split
    · rename_i o' h
      exact setNestedField_wfB o _ o' path ho (hm kvs rfl) h
    · exact ho

theorem nullifyLastApplied_wfB (o : J) (ho : o.wfB = true) : (nullifyLastApplied o).wfB = true := by
  unfold nullifyLastApplied
  split
  · exact ho
  · rename_i ann hann
    have hann' : (J.obj ann).wfB = true := by
      have := getAnnotations_wfB o ho
      rw [hann] at this; exact this
    split
    · refine setStringMapAt_wfB o _ _ ho ?_
      intro kvs hk
      split at hk
      · cases hk
      · cases hk; exact wfB_eraseKey _ ann hann'
    · exact ho

/-- `ApplyUpdate` keeps well-formedness -/
theorem applyUpdate_wfB (mks sys : List String) (obs des new : J) (ho : obs.wfB = true) (hd : des.wfB = true)
    (h : applyUpdate mks sys obs des = .ok new) : new.wfB = true := by
  unfold applyUpdate at h
  cases hl : getLastApplied obs with
  | error e => simp [hl, bind, Except.bind] at h
  | ok last =>
    simp only [hl, bind, Except.bind] at h
    have hd' := nullifyLastApplied_wfB des hd
    cases hm : merge mks obs last (nullifyLastApplied des) with
    | error e => simp [hm] at h
    | ok r =>
      simp only [hm] at h
      have hr := C05_merge_wf mks obs last _ r ho hd' hm
      cases h1 : revertSystemFields sys r obs with
      | error e => simp [h1] at h
      | ok r1 =>
        simp only [h1] at h
        have hr1 := revertSystemFields_wfB obs ho sys r r1 hr h1
        cases h2 : revertField r1 obs ["status"] with
        | error e => simp [h2] at h
        | ok r2 =>
          simp only [h2, pure, Except.pure] at h
          cases h
          exact setLastApplied_wfB r2 _ (revertField_wfB r1 obs r2 _ hr1 ho h2) hd'

/-! ### the API server's edits -/

theorem copyMeta_wfB (keys : List String) (cm : KVs) (hcm : (J.obj cm).wfB = true) : ∀ m : KVs, (J.obj m).wfB = true → (J.obj (copyMeta keys cm m)).wfB = true := by
  unfold copyMeta
  induction keys with
  | nil => intro m h; exact h
  | cons k tl ih =>
    intro m h
    rw [List.foldl_cons]
    apply ih
    cases hl : lookup k cm with
    | none => exact wfB_eraseKey k m h
    | some v => exact wfB_setKey k v m h (wfB_lookup hcm hl)

theorem keepStatus_wfB (cur o : J) (hc : cur.wfB = true) (ho : o.wfB = true) : (keepStatus cur o).wfB = true := by
  unfold keepStatus
  split
  · rename_i st hs
    exact wfB_setKey "status" st _ (wfB_fields o ho) (wfB_lookup (wfB_fields cur hc) hs)
  · exact wfB_eraseKey "status" _ (wfB_fields o ho)

theorem setMeta_wfB (o : J) (k : String) (v : J) (ho : o.wfB = true) (hv : v.wfB = true) : (setMeta o k v).wfB = true :=
  wfB_withMeta o _ ho (wfB_setKey k v _ (wfB_metaOf o ho) hv)

theorem updated_wfB (d : ResDef) (cur body : J) (hc : cur.wfB = true) (hb : body.wfB = true) : (updated d cur body).wfB = true := by
  unfold updated
  simp only []
  have h1 : (withMeta body (copyMeta updateKeep (metaOf cur) (metaOf body))).wfB = true :=
    wfB_withMeta body _ hb (copyMeta_wfB _ _ (wfB_metaOf cur hc) _ (wfB_metaOf body hb))
  have h2 : (if d.hasStatus = true then keepStatus cur (withMeta body (copyMeta updateKeep (metaOf cur) (metaOf body)))
      else withMeta body (copyMeta updateKeep (metaOf cur) (metaOf body))).wfB = true := by
    split
    · exact keepStatus_wfB _ _ hc h1
    · exact h1
  generalize (if d.hasStatus = true then keepStatus cur (withMeta body (copyMeta updateKeep (metaOf cur) (metaOf body)))
      else withMeta body (copyMeta updateKeep (metaOf cur) (metaOf body))) = X at h2 ⊢
  unfold bumpGeneration
  split
  · exact h2
  · exact setMeta_wfB X _ _ h2 rfl

/-- what the API server stores for an update is well-formed when the live object and the body are -/
theorem update_post_wfB (d : ResDef) (cur body : J) (f : Fresh) (o' : J) (hc : cur.wfB = true) (hb : body.wfB = true)
    (h : (update d (some cur) body f).post = some o') : o'.wfB = true := by
  rcases update_post_shape d cur body f o' h with e | ⟨x, e⟩
  · rw [e]; exact hc
  · rw [e]
    exact setMeta_wfB _ _ _ (setMeta_wfB _ _ _ (updated_wfB d cur body hc hb) rfl) rfl

/-- **C01, in-place update path** without a hypothesis on the stored object: well-formedness of the observed child and of the
    desired child (which `hypS` gives) is enough -/
theorem C01_updated_child_is_settled' (mks sys : List String) (method : String) (d : ResDef) (obs new o' : J) (ds dm : KVs) (f : Fresh)
    (hp : PlainUpdate sys ds dm)
    (ho : hypS mks obs = true) (hd : hypS mks (.obj ds) = true) (hc : coh mks obs (.obj ds) = true)
    (hs : scalarKeys mks obs = true) (hn : noNullOverArr obs (.obj ds) = true)
    (hnew : applyUpdate mks sys obs (.obj ds) = .ok new)
    (hkeep : ∀ k ∈ updateKeep, hasKey k dm = true → lookup k (metaOf obs) = lookup k (metaOf new))
    (hpost : (update d (some obs) new f).post = some o') (hchanged : o' ≠ obs) :
    applyUpdate mks sys o' (.obj ds) = .ok o' ∧ updateAct mks sys method o' (.obj ds) = .none := by
  have hwo : obs.wfB = true := hypJ_wfB mks obs (hypS_hypJ mks obs ho)
  have hwd : (J.obj ds).wfB = true := hypJ_wfB mks _ (hypS_hypJ mks _ hd)
  have hwn : new.wfB = true := applyUpdate_wfB mks sys obs (.obj ds) new hwo hwd hnew
  exact C01_updated_child_is_settled mks sys method d obs new o' ds dm f hp ho hd hc hs hn hnew hkeep hpost hchanged
    (update_post_wfB d obs new f o' hwo hwn hpost)

end C01
end Mc
