import Mc.Proofs.ProgLemmasW
import Mc.Sync.Common
import Mc.Spec.ReqClass
/-
  `ManageChildren` decomposed: one self-contained step per child (`childStep`, `deleteStep`),
  and the loops as folds of these steps.
-/
namespace Mc
open Prog

/-- how a response to a write is judged: errors are reported unless their reason is in `benign` -/
def verdict (benign : List String) : Resp → Option String
  | .err e => if benign.contains e then none else some e
  | _ => none

/-- what `updateChildren` does for one desired child under dynamic apply: a function of the observed
    object of that name (if any), the desired object, the update method, the target and the parent reference -/
def childStep (mks sys : List String) (method : String) (t : Target) (parentRef : OwnerRef) (obs : Option J) (des : J) :
    Prog (Option String) :=
  match obs with
  | some obs =>
    match updateAct mks sys method obs des with
    | .none => .ret none
    | .error e => .ret (some e)
    | .delete uid => .call (.api .delete t .null (deleteOpts uid)) (fun x => .ret (verdict ["NotFound"] x))
    | .update body => .call (.api .update t body .null) (fun x => .ret (verdict ["NotFound", "Conflict"] x))
  | none => .call (.api .create t (createBody parentRef des) .null) (fun x => .ret (verdict ["AlreadyExists"] x))

def consErr (e : Option String) (errs : List String) : List String :=
  match e with | some e => e :: errs | none => errs

theorem updateGroup_nil (mks sys : List String) (children : List ChildRes) (ssa : Option String) (info : KindInfo) (kind : String)
    (parentRef : OwnerRef) (observed : List (String × J)) (memo : Memo) :
    updateGroup mks sys children ssa info kind parentRef observed [] memo = .ret ([], memo) := rfl

/-- per-child decomposition of the create/update loop (dynamic apply) -/
theorem updateGroup_cons (mks sys : List String) (children : List ChildRes) (info : KindInfo) (kind : String)
    (parentRef : OwnerRef) (observed : List (String × J)) (name : String) (des : J) (rest : List (String × J)) (memo : Memo) :
    updateGroup mks sys children none info kind parentRef observed ((name, des) :: rest) memo =
      Prog.bind (updateGroup mks sys children none info kind parentRef observed rest memo) (fun acc =>
        Prog.bind (childStep mks sys (getMethod children info.group kind)
            (targetOf info.group info.resource info.namespaced (getNamespace des) (getName des)) parentRef (observed.lookup name) des)
          (fun e => .ret (consErr e acc.1, acc.2))) := by
  rw [updateGroup]
  show Prog.bind _ _ = _
  congr 1
  funext acc
  obtain ⟨errs, memo'⟩ := acc
  simp only [childStep]
  cases hobs : observed.lookup name with
  | none =>
    simp only []
    show Prog.call _ _ = Prog.call _ _
    congr 1
    funext x
    show Prog.bind (Prog.ret x) _ = Prog.bind (Prog.ret _) _
    simp only [bind_ret]
    cases x with
    | err e =>
      by_cases he : e = "AlreadyExists"
      · subst he; rfl
      · simp [verdict, he, consErr]; rfl
    | _ => rfl
  | some obs =>
    simp only []
    cases hact : updateAct mks sys (getMethod children info.group kind) obs des with
    | none => rfl
    | error e => rfl
    | delete uid =>
      simp only []
      show Prog.call _ _ = Prog.call _ _
      congr 1
      funext x
      show Prog.bind (Prog.ret x) _ = Prog.bind (Prog.ret _) _
      simp only [bind_ret]
      cases x with
      | err e =>
        by_cases he : e = "NotFound"
        · subst he; rfl
        · simp [verdict, he, consErr]; rfl
      | _ => rfl
    | update body =>
      simp only []
      show Prog.call _ _ = Prog.call _ _
      congr 1
      funext x
      show Prog.bind (Prog.ret x) _ = Prog.bind (Prog.ret _) _
      simp only [bind_ret]
      cases x with
      | err e =>
        by_cases he : e = "NotFound"
        · subst he; rfl
        · by_cases he2 : e = "Conflict"
          · subst he2; rfl
          · simp [verdict, he, he2, consErr]; rfl
      | _ => rfl

/-- per-child decomposition of the create/update loop (server-side apply): the memo is threaded -/
theorem updateGroup_cons_ssa (mks sys : List String) (children : List ChildRes) (fm : String) (info : KindInfo) (kind : String)
    (parentRef : OwnerRef) (observed : List (String × J)) (name : String) (des : J) (rest : List (String × J)) (memo : Memo) :
    updateGroup mks sys children (some fm) info kind parentRef observed ((name, des) :: rest) memo =
      Prog.bind (updateGroup mks sys children (some fm) info kind parentRef observed rest memo) (fun acc =>
        Prog.bind (ssaOne fm info kind parentRef (observed.lookup name) des acc.2)
          (fun r => .ret (consErr r.1 acc.1, r.2))) := by
  rw [updateGroup]
  rfl

/-- what `deleteChildren` does for one observed child: (error reported, memo entry to be dropped) -/
def deleteStep (t : Target) (desiredNames : List String) (name : String) (obj : J) : Prog (Option String × Bool) :=
  if isDeleting obj then .ret (none, false)
  else if desiredNames.contains name then .ret (none, false)
  else .call (.api .delete t .null (deleteOpts (getUID obj))) (fun x => .ret (verdict ["NotFound"] x, !x.isErr))

theorem deleteGroup_nil (info : KindInfo) (kind : String) (desiredNames : List String) (memo : Memo) :
    deleteGroup info kind desiredNames [] memo = .ret ([], memo) := rfl

/-- per-child decomposition of the delete loop -/
theorem deleteGroup_cons (info : KindInfo) (kind : String) (desiredNames : List String) (name : String) (obj : J)
    (rest : List (String × J)) (memo : Memo) :
    deleteGroup info kind desiredNames ((name, obj) :: rest) memo =
      Prog.bind (deleteGroup info kind desiredNames rest memo) (fun acc =>
        Prog.bind (deleteStep (targetOf info.group info.resource info.namespaced (getNamespace obj) (getName obj)) desiredNames name obj)
          (fun r => .ret ((match r.1 with | some e => s!"can't delete: {e}" :: acc.1 | none => acc.1),
                          (if r.2 then acc.2.erase (memoKey info kind obj) else acc.2)))) := by
  rw [deleteGroup]
  show Prog.bind _ _ = _
  congr 1
  funext acc
  obtain ⟨errs, memo'⟩ := acc
  simp only [deleteStep]
  by_cases h1 : isDeleting obj = true
  · rw [if_pos h1, if_pos h1]; rfl
  · by_cases h2 : desiredNames.contains name = true
    · rw [if_neg h1, if_pos h2, if_neg h1, if_pos h2]; rfl
    · rw [if_neg h1, if_neg h2, if_neg h1, if_neg h2]
      show Prog.call _ _ = Prog.call _ _
      congr 1
      funext x
      show Prog.bind (Prog.ret x) _ = Prog.bind (Prog.ret _) _
      simp only [bind_ret]
      cases x with
      | err e =>
        by_cases he : e = "NotFound"
        · subst he; rfl
        · simp [verdict, he, Resp.isErr]; rfl
      | _ => rfl

/-! ### the requests of the steps -/

/-- the request that renders a decision of `updateAct` on target `t` (no request for `.none` / `.error`) -/
def RenderOf (t : Target) (act : ChildAct) (r : Req) : Prop :=
  match act with
  | .none => False
  | .error _ => False
  | .delete uid => r = .api .delete t .null (deleteOpts uid)
  | .update body => r = .api .update t body .null

/-- the only request `childStep` can issue -/
def StepReq (mks sys : List String) (method : String) (t : Target) (parentRef : OwnerRef) (obs : Option J) (des : J) (r : Req) : Prop :=
  match obs with
  | some o => RenderOf t (updateAct mks sys method o des) r
  | none => r = .api .create t (createBody parentRef des) .null

theorem childStep_calls (mks sys : List String) (method : String) (t : Target) (parentRef : OwnerRef) (obs : Option J) (des : J) :
    AllCalls (StepReq mks sys method t parentRef obs des) (childStep mks sys method t parentRef obs des) := by
  unfold childStep StepReq
  cases obs with
  | none => exact .call _ _ rfl (fun x => .ret _)
  | some o =>
    simp only []
    cases h : updateAct mks sys method o des with
    | none => exact .ret _
    | error e => exact .ret _
    | delete uid => exact .call _ _ (by simp [RenderOf]) (fun x => .ret _)
    | update body => exact .call _ _ (by simp [RenderOf]) (fun x => .ret _)

/-- every request of the create/update loop of one group (dynamic apply) is the step request of one desired child -/
theorem updateGroup_calls (mks sys : List String) (children : List ChildRes) (info : KindInfo) (kind : String)
    (parentRef : OwnerRef) (observed : List (String × J)) :
    ∀ (desired : List (String × J)) (memo : Memo),
    AllCalls (fun r => ∃ nd ∈ desired, StepReq mks sys (getMethod children info.group kind)
        (targetOf info.group info.resource info.namespaced (getNamespace nd.2) (getName nd.2)) parentRef (observed.lookup nd.1) nd.2 r)
      (updateGroup mks sys children none info kind parentRef observed desired memo) := by
  intro desired
  induction desired with
  | nil => intro memo; exact .ret _
  | cons nd rest ih =>
    intro memo
    obtain ⟨name, des⟩ := nd
    rw [updateGroup_cons]
    refine AllCalls.bind ?_ ?_
    · exact AllCalls.mono (fun r ⟨nd, hnd, h⟩ => ⟨nd, List.mem_cons_of_mem _ hnd, h⟩) (ih memo)
    · intro acc
      refine AllCalls.bind ?_ (fun _ => .ret _)
      exact AllCalls.mono (fun r h => ⟨(name, des), List.mem_cons_self .., h⟩) (childStep_calls ..)

/-- the requests of one server-side-apply step -/
def SsaReq (fm : String) (t : Target) (parentRef : OwnerRef) (obs : Option J) (des : J) (r : Req) : Prop :=
  (r = .api .patchRemove t .null .null ∧ ∃ o, obs = some o ∧ hasKey lastAppliedAnnotation ((getAnnotations o).getD []) = true) ∨
  r = .api .apply t (applyBody parentRef des) (applyOpts fm)

theorem ssaOne_calls (fm : String) (info : KindInfo) (kind : String) (parentRef : OwnerRef) (obs : Option J) (des : J) (memo : Memo) :
    AllCalls (SsaReq fm (targetOf info.group info.resource info.namespaced (getNamespace des) (getName des)) parentRef obs des)
      (ssaOne fm info kind parentRef obs des memo) := by
  unfold ssaOne
  simp only []
  refine AllCalls.ite (fun _ => .ret _) (fun _ => ?_)
  · refine AllCalls.mbind ?_ ?_
    · cases obs with
      | none => exact .ret _
      | some o =>
        simp only []
        split
        · rename_i hk
          refine AllCalls.mbind (AllCalls.request _ (Or.inl ⟨rfl, o, rfl, hk⟩)) ?_
          intro r; split <;> exact .ret _
        · exact .ret _
    · intro e
      split
      · exact .ret _
      · refine AllCalls.ite (fun _ => .ret _) (fun _ => ?_)
        refine AllCalls.mbind (AllCalls.request _ (Or.inr rfl)) ?_
        intro r; split <;> exact .ret _

theorem updateGroup_calls_ssa (mks sys : List String) (children : List ChildRes) (fm : String) (info : KindInfo) (kind : String)
    (parentRef : OwnerRef) (observed : List (String × J)) :
    ∀ (desired : List (String × J)) (memo : Memo),
    AllCalls (fun r => ∃ nd ∈ desired, SsaReq fm
        (targetOf info.group info.resource info.namespaced (getNamespace nd.2) (getName nd.2)) parentRef (observed.lookup nd.1) nd.2 r)
      (updateGroup mks sys children (some fm) info kind parentRef observed desired memo) := by
  intro desired
  induction desired with
  | nil => intro memo; exact .ret _
  | cons nd rest ih =>
    intro memo
    obtain ⟨name, des⟩ := nd
    rw [updateGroup_cons_ssa]
    refine AllCalls.bind ?_ ?_
    · exact AllCalls.mono (fun r ⟨nd, hnd, h⟩ => ⟨nd, List.mem_cons_of_mem _ hnd, h⟩) (ih memo)
    · intro acc
      refine AllCalls.bind ?_ (fun _ => .ret _)
      exact AllCalls.mono (fun r h => ⟨(name, des), List.mem_cons_self .., h⟩) (ssaOne_calls ..)

/-- the only request `deleteStep` can issue -/
def DelReq (t : Target) (desiredNames : List String) (name : String) (obj : J) (r : Req) : Prop :=
  r = .api .delete t .null (deleteOpts (getUID obj)) ∧ isDeleting obj = false ∧ desiredNames.contains name = false

theorem deleteStep_calls (t : Target) (desiredNames : List String) (name : String) (obj : J) :
    AllCalls (DelReq t desiredNames name obj) (deleteStep t desiredNames name obj) := by
  unfold deleteStep
  split
  · exact .ret _
  · split
    · exact .ret _
    · rename_i h1 h2
      exact .call _ _ ⟨rfl, by simpa using h1, by simpa using h2⟩ (fun x => .ret _)

theorem deleteGroup_calls (info : KindInfo) (kind : String) (desiredNames : List String) :
    ∀ (observed : List (String × J)) (memo : Memo),
    AllCalls (fun r => ∃ no ∈ observed, DelReq
        (targetOf info.group info.resource info.namespaced (getNamespace no.2) (getName no.2)) desiredNames no.1 no.2 r)
      (deleteGroup info kind desiredNames observed memo) := by
  intro observed
  induction observed with
  | nil => intro memo; exact .ret _
  | cons no rest ih =>
    intro memo
    obtain ⟨name, obj⟩ := no
    rw [deleteGroup_cons]
    refine AllCalls.bind ?_ ?_
    · exact AllCalls.mono (fun r ⟨nd, hnd, h⟩ => ⟨nd, List.mem_cons_of_mem _ hnd, h⟩) (ih memo)
    · intro acc
      refine AllCalls.bind ?_ (fun _ => .ret _)
      exact AllCalls.mono (fun r h => ⟨(name, obj), List.mem_cons_self .., h⟩) (deleteStep_calls ..)

/-! ### read-modify-write loops and claiming -/

/-- requests of a read-modify-write loop: GETs of the target, and writes of an edit of an object that was
    just read and has the expected UID -/
def RmwReq (t : Target) (uid : String) (f : J → Option J) (verb : Verb) (r : Req) : Prop :=
  r = .api .get t .null .null ∨ ∃ cur upd, getUID cur = uid ∧ f cur = some upd ∧ r = .api verb t upd .null

theorem atomicLoop_calls (t : Target) (uid : String) (f : J → Option J) (verb : Verb) (gone : String) :
    ∀ n, AllCalls (RmwReq t uid f verb) (atomicLoop t uid f verb gone n) := by
  intro n
  induction n with
  | zero => exact .ret _
  | succ n ih =>
    rw [atomicLoop]
    refine AllCalls.mbind (AllCalls.request _ (Or.inl rfl)) ?_
    intro r
    cases r with
    | obj cur =>
      simp only []
      refine AllCalls.ite (fun _ => .ret _) (fun hu => ?_)
      cases hf : f cur with
      | none => exact .ret _
      | some upd =>
        simp only []
        refine AllCalls.mbind (AllCalls.request _ (Or.inr ⟨cur, upd, by simpa using hu, hf, rfl⟩)) ?_
        intro r2
        split
        · exact .ret _
        · exact AllCalls.ite (fun _ => .ret _) (fun _ => ih)
        · exact .ret _
        · exact .ret _
    | err e => exact .ret _
    | hookOk b => exact .ret _
    | hookErr k => exact .ret _
    | hook429 a => exact .ret _

/-- the decision `claimOne` takes for an object -/
def ClaimCtx.decision (cx : ClaimCtx) (o : J) : ClaimAct :=
  claimDecision (getUID cx.parent) (isDeleting cx.parent) (cx.selector.matches (labelsOf o)) o

/-- requests of claiming one object -/
def ClaimOneReq (cx : ClaimCtx) (o : J) (r : Req) : Prop :=
  (cx.decision o = .adopt ∧ r = .api .get cx.parentT .null .null) ∨
  (cx.decision o = .adopt ∧ RmwReq (cx.childT o) (getUID o)
      (fun cur => some (cx.setRefs cur (addOwnerReference (getOwnerRefs cur) cx.parentRef))) .update r) ∨
  (cx.decision o = .release ∧ RmwReq (cx.childT o) (getUID o)
      (fun cur => some (cx.setRefs cur (removeOwnerReference (getOwnerRefs cur) (getUID cx.parent)))) .update r)

theorem canAdopt_calls (parentT : Target) (parent : J) (st : AdoptState) :
    AllCalls (fun r => r = .api .get parentT .null .null) (canAdopt parentT parent st) := by
  unfold canAdopt
  cases st with
  | some r => exact .ret _
  | none => exact AllCalls.mbind (AllCalls.request _ rfl) (fun _ => .ret _)

theorem claimOne_calls (cx : ClaimCtx) (o : J) (st : AdoptState) :
    AllCalls (ClaimOneReq cx o) (claimOne cx o st) := by
  unfold claimOne
  cases hd : claimDecision (getUID cx.parent) (isDeleting cx.parent) (cx.selector.matches (labelsOf o)) o with
  | ignore => exact .ret _
  | keep => exact .ret _
  | release =>
    simp only []
    refine AllCalls.ite (fun _ => ?_) (fun _ => ?_)
    · refine AllCalls.mbind (.ret _) ?_
      intro r; split <;> exact .ret _
    · refine AllCalls.mbind (AllCalls.mono (fun r h => Or.inr (Or.inr ⟨hd, h⟩)) (atomicLoop_calls ..)) ?_
      intro r; split <;> exact .ret _
  | adopt =>
    simp only []
    refine AllCalls.mbind (AllCalls.mono (fun r h => Or.inl ⟨hd, h⟩) (canAdopt_calls ..)) ?_
    rintro ⟨ok, st'⟩
    cases ok with
    | error e => exact .ret _
    | ok u =>
      simp only []
      refine AllCalls.ite (fun _ => ?_) (fun _ => ?_)
      · refine AllCalls.mbind (.ret _) ?_
        intro r; split <;> exact .ret _
      · refine AllCalls.mbind (AllCalls.mono (fun r h => Or.inr (Or.inl ⟨hd, h⟩)) (atomicLoop_calls ..)) ?_
        intro r; split <;> exact .ret _

theorem claimAll_calls (cx : ClaimCtx) : ∀ (objs : List J) (st : AdoptState),
    AllCalls (fun r => ∃ o ∈ objs, ClaimOneReq cx o r) (claimAll cx objs st) := by
  intro objs
  induction objs with
  | nil => intro st; exact .ret _
  | cons o rest ih =>
    intro st
    rw [claimAll]
    refine AllCalls.mbind (AllCalls.mono (fun r h => ⟨o, List.mem_cons_self .., h⟩) (claimOne_calls cx o st)) ?_
    rintro ⟨⟨ok, err⟩, st'⟩
    refine AllCalls.mbind (AllCalls.mono (fun r ⟨o', ho', h⟩ => ⟨o', List.mem_cons_of_mem _ ho', h⟩) (ih st')) ?_
    rintro ⟨claimed, errs⟩
    exact .ret _

end Mc
