import Mc.Sync.Decorator
import Mc.Proofs.JsonLemmas
import Mc.Proofs.ObjMapLemmas
/-
  `updateStringMap` (decorator: labels / annotations edits requested by the hook), pointwise.
-/
namespace Mc

theorem lookup_eraseKey (k k' : String) (d : KVs) :
    lookup k (eraseKey k' d) = if k = k' then none else lookup k d := by
  unfold eraseKey
  have := lookup_filter (fun x => !(x == k')) d k
  rw [this]
  by_cases e : k = k' <;> simp [e]

theorem uniq_eraseKey (k : String) (d : KVs) (h : uniq d) : uniq (eraseKey k d) := uniq_filter _ d h

/-! equation lemmas for `updateStringMap` -/

theorem updateStringMap_nil (dest : KVs) : updateStringMap dest [] = (dest, false) := rfl

theorem updateStringMap_none_has (dest : KVs) (k : String) (rest : List (String × Option String))
    (h : hasKey k dest = true) :
    updateStringMap dest ((k, none) :: rest) = ((updateStringMap (eraseKey k dest) rest).1, true) := by
  simp [updateStringMap, h]

theorem updateStringMap_none_absent (dest : KVs) (k : String) (rest : List (String × Option String))
    (h : hasKey k dest = false) :
    updateStringMap dest ((k, none) :: rest) = updateStringMap dest rest := by
  simp [updateStringMap, h]

theorem updateStringMap_some_same (dest : KVs) (k v : String) (rest : List (String × Option String))
    (h : lookup k dest = some (.str v)) :
    updateStringMap dest ((k, some v) :: rest) = updateStringMap dest rest := by
  simp [updateStringMap, h]

theorem updateStringMap_some_diff (dest : KVs) (k v : String) (rest : List (String × Option String))
    (h : lookup k dest ≠ some (.str v)) :
    updateStringMap dest ((k, some v) :: rest) = ((updateStringMap (setKey k (.str v) dest) rest).1, true) := by
  simp only [updateStringMap]
  split
  · rename_i old heq
    have : ¬ old = v := by intro e; subst e; exact h heq
    simp [this]
  · rfl

/-- the keys an update list names -/
def updKeys (u : List (String × Option String)) : List String := u.map (·.1)

theorem slookup_none_of_not_mem {β : Type} (k : String) : ∀ (u : List (String × β)), k ∉ u.map (·.1) → u.lookup k = none := by
  intro u
  induction u with
  | nil => intro _; rfl
  | cons hd tl ih =>
    obtain ⟨a, x⟩ := hd
    intro h
    simp only [List.map_cons, List.mem_cons, not_or] at h
    rw [slookup_cons, if_neg h.1]
    exact ih h.2

/-- keys not named by the update list are untouched -/
theorem lookup_updateStringMap_other (k : String) : ∀ (updates : List (String × Option String)) (dest : KVs),
    k ∉ updKeys updates → lookup k (updateStringMap dest updates).1 = lookup k dest := by
  intro updates
  induction updates with
  | nil => intro dest _; rfl
  | cons hd tl ih =>
    obtain ⟨a, x⟩ := hd
    intro dest h
    simp only [updKeys, List.map_cons, List.mem_cons, not_or] at h
    obtain ⟨hka, htl⟩ := h
    cases x with
    | none =>
      cases hh : hasKey a dest with
      | true => rw [updateStringMap_none_has _ _ _ hh]; simp only []; rw [ih _ htl, lookup_eraseKey, if_neg hka]
      | false => rw [updateStringMap_none_absent _ _ _ hh]; exact ih _ htl
    | some v =>
      by_cases hl : lookup a dest = some (.str v)
      · rw [updateStringMap_some_same _ _ _ _ hl]; exact ih _ htl
      · rw [updateStringMap_some_diff _ _ _ _ hl]; simp only []
        rw [ih _ htl, lookup_setKey_other _ _ _ _ hka]

end Mc
