import Mc.Sync.Common
import Mc.Spec.ReqClass
/-
  Generic lemmas about the tree predicates of `Mc/Prog.lean` (`AllCalls`, `NoQ`, `Guarded`,
  `NoPAfterQ`, `HaltsAfter`, `AllRets`, `AtMost`): how they go through `Prog.bind`, `PE.bind`,
  `PE.lift`, `PE.ofExcept`, `PE.fail`, list iteration in the `Prog`/`PE` monads, `atomicLoop`.
  Core Lean only.
-/
namespace Mc
namespace Prog

/-! ### the monad instance, unfolded -/

theorem bind_eq {α β : Type} (p : Prog α) (f : α → Prog β) : (p >>= f) = Prog.bind p f := rfl
theorem pure_eq {α : Type} (a : α) : (pure a : Prog α) = Prog.ret a := rfl
@[simp] theorem bind_ret {α β : Type} (a : α) (f : α → Prog β) : Prog.bind (.ret a) f = f a := rfl
@[simp] theorem bind_call {α β : Type} (r : Req) (k : Resp → Prog α) (f : α → Prog β) :
    Prog.bind (.call r k) f = .call r (fun x => Prog.bind (k x) f) := rfl

theorem bind_assoc {α β γ : Type} (p : Prog α) (f : α → Prog β) (g : β → Prog γ) :
    (p.bind f).bind g = p.bind (fun a => (f a).bind g) := by
  induction p with
  | ret a => rfl
  | call r k ih => simp only [bind_call, ih]

/-! ### AllCalls / NoQ -/

theorem AllCalls.request {P : Req → Prop} {r : Req} (h : P r) : AllCalls P (Prog.request r) :=
  .call r _ h (fun x => .ret x)

/-- conjunction of two footprints -/
theorem AllCalls.and {α : Type} {P Q : Req → Prop} {p : Prog α} (hp : AllCalls P p) (hq : AllCalls Q p) :
    AllCalls (fun r => P r ∧ Q r) p := by
  induction hp with
  | ret a => exact .ret a
  | call r k hr _ ih =>
    cases hq with
    | call _ _ hqr hqk => exact .call r k ⟨hr, hqr⟩ (fun x => ih x (hqk x))

/-- a program that issues nothing satisfies every footprint -/
theorem AllCalls.of_false {α : Type} {P : Req → Prop} {p : Prog α} (h : AllCalls (fun _ => False) p) :
    AllCalls P p := h.mono (fun _ hf => hf.elim)

theorem AllCalls.of_bind_left {α β : Type} {P : Req → Prop} {p : Prog α} {f : α → Prog β}
    (h : AllCalls P (p.bind f)) : AllCalls P p := by
  induction p with
  | ret a => exact .ret a
  | call r k ih =>
    cases h with
    | call _ _ hr hk => exact .call r k hr (fun x => ih x (hk x))

/-! ### AllRets -/

theorem AllRets.mono {α : Type} {R S : α → Prop} {p : Prog α} (h : ∀ a, R a → S a) (hp : AllRets R p) :
    AllRets S p := by
  induction hp with
  | ret a ha => exact .ret a (h a ha)
  | call r k _ ih => exact .call r k ih

theorem AllRets.bind {α β : Type} {R : α → Prop} {S : β → Prop} {p : Prog α} {f : α → Prog β}
    (hp : AllRets R p) (hf : ∀ a, R a → AllRets S (f a)) : AllRets S (p.bind f) := by
  induction hp with
  | ret a ha => exact hf a ha
  | call r k _ ih => exact .call r _ ih

theorem AllRets.trivial {α : Type} (p : Prog α) : AllRets (fun _ => True) p := by
  induction p with
  | ret a => exact .ret a True.intro
  | call r k ih => exact .call r k ih

/-- `AllCalls` through a bind whose continuation only needs the footprint on the possible results -/
theorem AllCalls.bind_rets {α β : Type} {P : Req → Prop} {R : α → Prop} {p : Prog α} {f : α → Prog β}
    (hp : AllCalls P p) (hr : AllRets R p) (hf : ∀ a, R a → AllCalls P (f a)) : AllCalls P (p.bind f) := by
  induction hp with
  | ret a => cases hr with | ret _ ha => exact hf a ha
  | call r k hpr _ ih =>
    cases hr with
    | call _ _ hk => exact .call r _ hpr (fun x => ih x (hk x))

/-! ### NoPAfterQ -/

theorem NoPAfterQ.of_noP {α : Type} {P Q : Req → Prop} {p : Prog α} (h : NoQ P p) : NoPAfterQ P Q p := by
  induction h with
  | ret a => exact .ret a
  | call r k _ hk ih => exact .call r k (fun _ x => hk x) ih

theorem NoPAfterQ.of_noQ {α : Type} {P Q : Req → Prop} {p : Prog α} (h : NoQ Q p) : NoPAfterQ P Q p := by
  induction h with
  | ret a => exact .ret a
  | call r k hr _ ih => exact .call r k (fun hq => (hr hq).elim) ih

/-- sequencing: either the first part has no `Q` at all, or the second part has no `P` at all -/
theorem NoPAfterQ.bind {α β : Type} {P Q : Req → Prop} {p : Prog α} {f : α → Prog β}
    (hp : NoPAfterQ P Q p) (hf : ∀ a, NoPAfterQ P Q (f a))
    (h : NoQ Q p ∨ ∀ a, NoQ P (f a)) : NoPAfterQ P Q (p.bind f) := by
  induction hp with
  | ret a => exact hf a
  | call r k hq _ ih =>
    refine .call r _ ?_ (fun x => ih x ?_)
    · intro hqr x
      rcases h with h | h
      · cases h with | call _ _ hnr _ => exact (hnr hqr).elim
      · exact AllCalls.bind (hq hqr x) h
    · rcases h with h | h
      · cases h with | call _ _ _ hk => exact Or.inl (hk x)
      · exact Or.inr h

/-- the usual shape: a head without `Q`, then a tail without `P` -/
theorem NoPAfterQ.seq {α β : Type} {P Q : Req → Prop} {p : Prog α} {f : α → Prog β}
    (hp : NoQ Q p) (hf : ∀ a, NoQ P (f a)) : NoPAfterQ P Q (p.bind f) :=
  NoPAfterQ.bind (.of_noQ hp) (fun a => .of_noP (hf a)) (Or.inl hp)

/-! ### HaltsAfter -/

theorem HaltsAfter.of_noQ {α : Type} {G : Req → Resp → Prop} {Q : Req → Prop} {p : Prog α}
    (h : NoQ Q p) : HaltsAfter G Q p := by
  induction h with
  | ret a => exact .ret a
  | call r k _ hk ih => exact .call r k (fun x _ => hk x) ih

/-- no pair `G` can occur in the program -/
theorem HaltsAfter.of_noG {α : Type} {G : Req → Resp → Prop} {Q : Req → Prop} {p : Prog α}
    (h : AllCalls (fun r => ∀ x, ¬ G r x) p) : HaltsAfter G Q p := by
  induction h with
  | ret a => exact .ret a
  | call r k hr _ ih => exact .call r k (fun x hg => (hr x hg).elim) ih

theorem HaltsAfter.mono {α : Type} {G G' : Req → Resp → Prop} {Q Q' : Req → Prop} {p : Prog α}
    (hG : ∀ r x, G' r x → G r x) (hQ : ∀ r, Q' r → Q r) (h : HaltsAfter G Q p) : HaltsAfter G' Q' p := by
  induction h with
  | ret a => exact .ret a
  | call r k hg _ ih =>
    exact .call r k (fun x hx => (hg x (hG r x hx)).mono (fun r hn hq => hn (hQ r hq))) ih

/-- `HaltsAfter`, remembering what the program returns on the branches where it halted:
    after a `G` pair no `Q` request is issued and every result satisfies `R` -/
inductive HaltsAfterR {α : Type} (G : Req → Resp → Prop) (Q : Req → Prop) (R : α → Prop) : Prog α → Prop where
  | ret (a : α) : HaltsAfterR G Q R (.ret a)
  | call (r : Req) (k : Resp → Prog α) :
      (∀ x, G r x → NoQ Q (k x) ∧ AllRets R (k x)) → (∀ x, HaltsAfterR G Q R (k x)) → HaltsAfterR G Q R (.call r k)

theorem HaltsAfterR.toHaltsAfter {α : Type} {G : Req → Resp → Prop} {Q : Req → Prop} {R : α → Prop} {p : Prog α}
    (h : HaltsAfterR G Q R p) : HaltsAfter G Q p := by
  induction h with
  | ret a => exact .ret a
  | call r k hg _ ih => exact .call r k (fun x hx => (hg x hx).1) ih

theorem HaltsAfterR.of_noG {α : Type} {G : Req → Resp → Prop} {Q : Req → Prop} {R : α → Prop} {p : Prog α}
    (h : AllCalls (fun r => ∀ x, ¬ G r x) p) : HaltsAfterR G Q R p := by
  induction h with
  | ret a => exact .ret a
  | call r k hr _ ih => exact .call r k (fun x hg => (hr x hg).elim) ih

theorem HaltsAfterR.mono {α : Type} {G : Req → Resp → Prop} {Q : Req → Prop} {R S : α → Prop} {p : Prog α}
    (hRS : ∀ a, R a → S a) (h : HaltsAfterR G Q R p) : HaltsAfterR G Q S p := by
  induction h with
  | ret a => exact .ret a
  | call r k hg _ ih => exact .call r k (fun x hx => ⟨(hg x hx).1, (hg x hx).2.mono hRS⟩) ih

theorem HaltsAfterR.monoG {α : Type} {G G' : Req → Resp → Prop} {Q : Req → Prop} {R : α → Prop} {p : Prog α}
    (hG : ∀ r x, G' r x → G r x) (h : HaltsAfterR G Q R p) : HaltsAfterR G' Q R p := by
  induction h with
  | ret a => exact .ret a
  | call r k hg _ ih => exact .call r k (fun x hx => hg x (hG r x hx)) ih

theorem HaltsAfterR.monoQ {α : Type} {G : Req → Resp → Prop} {Q Q' : Req → Prop} {R : α → Prop} {p : Prog α}
    (hQ : ∀ r, Q' r → Q r) (h : HaltsAfterR G Q R p) : HaltsAfterR G Q' R p := by
  induction h with
  | ret a => exact .ret a
  | call r k hg _ ih =>
    exact .call r k (fun x hx => ⟨(hg x hx).1.mono (fun r hn hq => hn (hQ r hq)), (hg x hx).2⟩) ih

/-- sequencing: the continuation must be quiet on the results the first part can produce after halting -/
theorem HaltsAfterR.bind {α β : Type} {G : Req → Resp → Prop} {Q : Req → Prop} {R : α → Prop} {S : β → Prop}
    {p : Prog α} {f : α → Prog β}
    (hp : HaltsAfterR G Q R p) (hf : ∀ a, HaltsAfterR G Q S (f a))
    (hq : ∀ a, R a → NoQ Q (f a) ∧ AllRets S (f a)) : HaltsAfterR G Q S (p.bind f) := by
  induction hp with
  | ret a => exact hf a
  | call r k hg _ ih =>
    refine .call r _ (fun x hx => ?_) ih
    obtain ⟨h1, h2⟩ := hg x hx
    exact ⟨AllCalls.bind_rets h1 h2 (fun a ha => (hq a ha).1), AllRets.bind h2 (fun a ha => (hq a ha).2)⟩

theorem HaltsAfter.bind {α β : Type} {G : Req → Resp → Prop} {Q : Req → Prop} {R : α → Prop}
    {p : Prog α} {f : α → Prog β}
    (hp : HaltsAfterR G Q R p) (hf : ∀ a, HaltsAfter G Q (f a))
    (hq : ∀ a, R a → NoQ Q (f a)) : HaltsAfter G Q (p.bind f) := by
  induction hp with
  | ret a => exact hf a
  | call r k hg _ ih =>
    refine .call r _ (fun x hx => ?_) ih
    obtain ⟨h1, h2⟩ := hg x hx
    exact AllCalls.bind_rets h1 h2 hq

/-- a first part in which `G` cannot occur -/
theorem HaltsAfter.bind_noG {α β : Type} {G : Req → Resp → Prop} {Q : Req → Prop}
    {p : Prog α} {f : α → Prog β}
    (hp : AllCalls (fun r => ∀ x, ¬ G r x) p) (hf : ∀ a, HaltsAfter G Q (f a)) : HaltsAfter G Q (p.bind f) :=
  HaltsAfter.bind (R := fun _ => False) (.of_noG hp) hf (fun _ h => h.elim)

/-- "within the first phase `p` of `p.bind f`": after a `G` pair met inside `p`, the whole
    remaining program - the rest of `p` and then `f` - issues no `Q` request -/
inductive HaltsInPrefix {α β : Type} (G : Req → Resp → Prop) (Q : Req → Prop) (f : α → Prog β) : Prog α → Prop where
  | ret (a : α) : HaltsInPrefix G Q f (.ret a)
  | call (r : Req) (k : Resp → Prog α) :
      (∀ x, G r x → NoQ Q ((k x).bind f)) → (∀ x, HaltsInPrefix G Q f (k x)) → HaltsInPrefix G Q f (.call r k)

theorem HaltsInPrefix.of_haltsAfterR {α β : Type} {G : Req → Resp → Prop} {Q : Req → Prop} {R : α → Prop}
    {p : Prog α} {f : α → Prog β}
    (hp : HaltsAfterR G Q R p) (hq : ∀ a, R a → NoQ Q (f a)) : HaltsInPrefix G Q f p := by
  induction hp with
  | ret a => exact .ret a
  | call r k hg _ ih =>
    exact .call r k (fun x hx => AllCalls.bind_rets (hg x hx).1 (hg x hx).2 hq) ih

/-! ### AtMost -/

theorem AtMost.mono {α : Type} {Q : Req → Prop} {n m : Nat} {p : Prog α} (h : AtMost Q n p) (hnm : n ≤ m) :
    AtMost Q m p := by
  induction h generalizing m with
  | ret n a => exact .ret m a
  | callQ n r k _ ih =>
    cases m with
    | zero => omega
    | succ m => exact .callQ m r k (fun x => ih x (by omega))
  | callN n r k hr _ ih => exact .callN m r k hr (fun x => ih x hnm)

theorem AtMost.of_noQ {α : Type} {Q : Req → Prop} {p : Prog α} (h : NoQ Q p) : AtMost Q 0 p := by
  induction h with
  | ret a => exact .ret 0 a
  | call r k hr _ ih => exact .callN 0 r k hr ih

theorem AtMost.bind {α β : Type} {Q : Req → Prop} {n m : Nat} {p : Prog α} {f : α → Prog β}
    (hp : AtMost Q n p) (hf : ∀ a, AtMost Q m (f a)) : AtMost Q (n + m) (p.bind f) := by
  induction hp with
  | ret n a => exact (hf a).mono (by omega)
  | callQ n r k _ ih =>
    have : n + 1 + m = (n + m) + 1 := by omega
    rw [this]
    exact .callQ (n + m) r _ ih
  | callN n r k hr _ ih => exact .callN (n + m) r _ hr ih

end Prog

open Prog

/-! ### the `PE` monad -/

namespace PE

theorem bind_eq {α β : Type} (p : PE α) (f : α → PE β) : (p >>= f) = PE.bind p f := rfl
theorem pure_eq {α : Type} (a : α) : (Pure.pure a : PE α) = Prog.ret (.ok a) := rfl

theorem allCalls_pure {α : Type} {P : Req → Prop} (a : α) : AllCalls P (PE.pure a) := .ret _
theorem allCalls_fail {α : Type} {P : Req → Prop} (m : String) : AllCalls P (PE.fail m : PE α) := .ret _
theorem allCalls_throw {α : Type} {P : Req → Prop} (e : Err) : AllCalls P (PE.throw e : PE α) := .ret _

theorem allCalls_ofExcept {α : Type} {P : Req → Prop} (e : Except String α) : AllCalls P (PE.ofExcept e) := by
  cases e <;> exact .ret _

theorem allCalls_lift {α : Type} {P : Req → Prop} {p : Prog α} (h : AllCalls P p) : AllCalls P (PE.lift p) :=
  AllCalls.bind h (fun _ => .ret _)

theorem allCalls_bind {α β : Type} {P : Req → Prop} {p : PE α} {f : α → PE β}
    (hp : AllCalls P p) (hf : ∀ a, AllCalls P (f a)) : AllCalls P (PE.bind p f) := by
  refine AllCalls.bind hp (fun r => ?_)
  cases r with
  | ok a => exact hf a
  | error e => exact .ret _

/-- an `Except` result is an error -/
def IsError {ε α : Type} : Except ε α → Prop
  | .error _ => True
  | .ok _ => False

theorem allRets_fail {α : Type} (m : String) : AllRets IsError (PE.fail m : PE α) := .ret _ True.intro
theorem allRets_throw {α : Type} (e : Err) : AllRets IsError (PE.throw e : PE α) := .ret _ True.intro

/-- errors propagate through `PE.bind` -/
theorem bind_error {α β : Type} (e : Err) (f : α → PE β) : PE.bind (Prog.ret (.error e)) f = Prog.ret (.error e) := rfl
theorem bind_ok {α β : Type} (a : α) (f : α → PE β) : PE.bind (Prog.ret (.ok a)) f = f a := rfl
theorem bind_call {α β : Type} (r : Req) (k : Resp → PE α) (f : α → PE β) :
    PE.bind (Prog.call r k) f = Prog.call r (fun x => PE.bind (k x) f) := rfl

theorem allRets_bind_error {α β : Type} {p : PE α} {f : α → PE β} (hp : AllRets IsError p) :
    AllRets IsError (PE.bind p f) := by
  refine AllRets.bind hp (fun r hr => ?_)
  cases r with
  | ok a => exact hr.elim
  | error e => exact .ret _ True.intro

theorem noQ_bind_of_error {α β : Type} {Q : Req → Prop} {p : PE α} {f : α → PE β}
    (hp : NoQ Q p) (he : AllRets IsError p) : NoQ Q (PE.bind p f) := by
  refine AllCalls.bind_rets hp he (fun r hr => ?_)
  cases r with
  | ok a => exact hr.elim
  | error e => exact .ret _

/-- `HaltsAfterR … IsError` through `PE.bind`: once halted with an error, the continuation is skipped -/
theorem haltsAfterR_bind {α β : Type} {G : Req → Resp → Prop} {Q : Req → Prop} {p : PE α} {f : α → PE β}
    (hp : HaltsAfterR G Q IsError p) (hf : ∀ a, HaltsAfterR G Q IsError (f a)) :
    HaltsAfterR G Q IsError (PE.bind p f) := by
  refine HaltsAfterR.bind hp (fun r => ?_) (fun r hr => ?_)
  · cases r with
    | ok a => exact hf a
    | error e => exact .ret _
  · cases r with
    | ok a => exact hr.elim
    | error e => exact ⟨.ret _, .ret _ True.intro⟩

theorem haltsAfterR_lift {α : Type} {G : Req → Resp → Prop} {Q : Req → Prop} {R : Except Err α → Prop} {p : Prog α}
    (h : AllCalls (fun r => ∀ x, ¬ G r x) p) : HaltsAfterR G Q R (PE.lift p) :=
  .of_noG (allCalls_lift h)

theorem haltsAfterR_ofExcept {α : Type} {G : Req → Resp → Prop} {Q : Req → Prop} {R : Except Err α → Prop}
    (e : Except String α) : HaltsAfterR G Q R (PE.ofExcept e) := by
  cases e <;> exact .ret _

theorem bind_lift_request {β : Type} (r : Req) (f : Resp → PE β) :
    PE.bind (PE.lift (Prog.request r)) f = Prog.call r f := rfl

/-- one request whose error answers make the continuation fail at once -/
theorem haltsAfterR_request {β : Type} {G : Req → Resp → Prop} {Q : Req → Prop} (r : Req) (f : Resp → PE β)
    (hG : ∀ x, G r x → ∃ e, f x = Prog.ret (.error e)) (hf : ∀ x, HaltsAfterR G Q PE.IsError (f x)) :
    HaltsAfterR G Q PE.IsError (PE.bind (PE.lift (Prog.request r)) f) := by
  rw [PE.bind_lift_request]
  refine .call _ _ (fun x hx => ?_) hf
  obtain ⟨e, he⟩ := hG x hx
  rw [he]
  exact ⟨.ret _, .ret _ True.intro⟩

theorem bind_lift {α β : Type} (p : Prog α) (f : α → PE β) : PE.bind (PE.lift p) f = Prog.bind p f := by
  unfold PE.bind PE.lift
  rw [Prog.bind_assoc]
  rfl

/-- lifting a `Prog` whose halting results make the continuation fail quietly -/
theorem haltsAfterR_bind_lift {α β : Type} {G : Req → Resp → Prop} {Q : Req → Prop} {R : α → Prop}
    {p : Prog α} {f : α → PE β}
    (hp : HaltsAfterR G Q R p) (hf : ∀ a, HaltsAfterR G Q PE.IsError (f a))
    (hq : ∀ a, R a → NoQ Q (f a) ∧ AllRets PE.IsError (f a)) :
    HaltsAfterR G Q PE.IsError (PE.bind (PE.lift p) f) := by
  rw [PE.bind_lift]
  exact HaltsAfterR.bind hp hf hq

end PE

/-! ### list iteration -/

theorem forM_cons_eq {m : Type → Type} [Monad m] {α : Type} (x : α) (xs : List α) (step : α → m PUnit) :
    (x :: xs).forM step = (step x >>= fun _ => xs.forM step) := rfl

theorem allCalls_foldlM {α β : Type} {P : Req → Prop} (step : β → α → Prog β)
    (h : ∀ acc x, AllCalls P (step acc x)) : ∀ (xs : List α) (init : β), AllCalls P (xs.foldlM step init)
  | [], init => .ret init
  | x :: xs, init => by
    rw [List.foldlM_cons]
    exact AllCalls.bind (h init x) (fun b => allCalls_foldlM step h xs b)

theorem allCalls_foldlM_mem {α β : Type} {P : Req → Prop} (step : β → α → Prog β) :
    ∀ (xs : List α) (init : β), (∀ acc, ∀ x ∈ xs, AllCalls P (step acc x)) → AllCalls P (xs.foldlM step init)
  | [], init, _ => .ret init
  | x :: xs, init, h => by
    rw [List.foldlM_cons]
    exact AllCalls.bind (h init x (by simp))
      (fun b => allCalls_foldlM_mem step xs b (fun acc y hy => h acc y (by simp [hy])))

theorem PE.allCalls_foldlM {α β : Type} {P : Req → Prop} (step : β → α → PE β)
    (h : ∀ acc x, AllCalls P (step acc x)) :
    ∀ (xs : List α) (init : β), AllCalls P (List.foldlM (m := PE) step init xs)
  | [], init => .ret _
  | x :: xs, init => by
    rw [List.foldlM_cons]
    exact PE.allCalls_bind (h init x) (fun b => PE.allCalls_foldlM step h xs b)

theorem PE.allCalls_foldlM_mem {α β : Type} {P : Req → Prop} (step : β → α → PE β) :
    ∀ (xs : List α) (init : β), (∀ acc, ∀ x ∈ xs, AllCalls P (step acc x)) →
      AllCalls P (List.foldlM (m := PE) step init xs)
  | [], init, _ => .ret _
  | x :: xs, init, h => by
    rw [List.foldlM_cons]
    exact PE.allCalls_bind (h init x (by simp))
      (fun b => PE.allCalls_foldlM_mem step xs b (fun acc y hy => h acc y (by simp [hy])))

theorem PE.allCalls_forM {α : Type} {P : Req → Prop} (step : α → PE PUnit)
    (h : ∀ x, AllCalls P (step x)) : ∀ (xs : List α), AllCalls P (List.forM (m := PE) xs step)
  | [] => .ret _
  | x :: xs => by
    rw [forM_cons_eq]
    exact PE.allCalls_bind (h x) (fun _ => PE.allCalls_forM step h xs)

theorem allCalls_forM {α : Type} {P : Req → Prop} (step : α → Prog PUnit)
    (h : ∀ x, AllCalls P (step x)) : ∀ (xs : List α), AllCalls P (xs.forM step)
  | [] => .ret _
  | x :: xs => by
    rw [forM_cons_eq]
    exact AllCalls.bind (h x) (fun _ => allCalls_forM step h xs)

theorem allCalls_mapM_loop {α β : Type} {P : Req → Prop} (step : α → Prog β)
    (h : ∀ x, AllCalls P (step x)) : ∀ (xs : List α) (acc : List β), AllCalls P (List.mapM.loop step xs acc)
  | [], _ => .ret _
  | x :: xs, acc => AllCalls.bind (h x) (fun b => allCalls_mapM_loop step h xs (b :: acc))

theorem allCalls_mapM {α β : Type} {P : Req → Prop} (step : α → Prog β)
    (h : ∀ x, AllCalls P (step x)) (xs : List α) : AllCalls P (xs.mapM step) :=
  allCalls_mapM_loop step h xs []

theorem PE.allCalls_mapM_loop {α β : Type} {P : Req → Prop} (step : α → PE β)
    (h : ∀ x, AllCalls P (step x)) :
    ∀ (xs : List α) (acc : List β), AllCalls P (List.mapM.loop (m := PE) step xs acc)
  | [], _ => .ret _
  | x :: xs, acc => PE.allCalls_bind (h x) (fun b => PE.allCalls_mapM_loop step h xs (b :: acc))

theorem PE.allCalls_mapM {α β : Type} {P : Req → Prop} (step : α → PE β)
    (h : ∀ x, AllCalls P (step x)) (xs : List α) : AllCalls P (List.mapM (m := PE) step xs) :=
  PE.allCalls_mapM_loop step h xs []

/-- `forM` in `PE` where each step, once a `G` pair occurred, is quiet and fails -/
theorem PE.haltsAfterR_forM {α : Type} {G : Req → Resp → Prop} {Q : Req → Prop} (step : α → PE PUnit)
    (h : ∀ x, HaltsAfterR G Q PE.IsError (step x)) :
    ∀ (xs : List α), HaltsAfterR G Q PE.IsError (List.forM (m := PE) xs step)
  | [] => .ret _
  | x :: xs => by
    rw [forM_cons_eq]
    exact PE.haltsAfterR_bind (h x) (fun _ => PE.haltsAfterR_forM step h xs)

/-! ### `Mc/Sync/Common.lean`: read-modify-write loop, claims, ManageChildren -/

theorem atomicLoop_calls {P : Req → Prop} (t : Target) (uid : String) (f : J → Option J) (verb : Verb) (gone : String)
    (hg : P (.api .get t .null .null)) (hp : ∀ b, P (.api verb t b .null)) :
    ∀ n, AllCalls P (atomicLoop t uid f verb gone n)
  | 0 => .ret _
  | n + 1 => by
    unfold atomicLoop
    simp only [bind_eq, pure_eq, api, Prog.request, bind_call, bind_ret]
    refine .call _ _ hg (fun x => ?_)
    split
    · split
      · exact .ret _
      · split
        · exact .ret _
        · refine .call _ _ (hp _) (fun y => ?_)
          split
          · exact .ret _
          · split
            · exact .ret _
            · exact atomicLoop_calls t uid f verb gone hg hp n
          · exact .ret _
          · exact .ret _
    · exact .ret _
    · exact .ret _

section Claim
variable {P : Req → Prop}

theorem canAdopt_calls (parentT : Target) (parent : J) (st : AdoptState)
    (hpar : P (.api .get parentT .null .null)) : AllCalls P (canAdopt parentT parent st) := by
  unfold canAdopt
  split
  · exact .ret _
  · exact .call _ _ hpar (fun x => .ret _)

theorem claimOne_calls (cx : ClaimCtx) (obj : J) (st : AdoptState)
    (hpar : P (.api .get cx.parentT .null .null))
    (hget : P (.api .get (cx.childT obj) .null .null))
    (hput : ∀ b, P (.api .update (cx.childT obj) b .null)) :
    AllCalls P (claimOne cx obj st) := by
  unfold claimOne
  split
  · exact .ret _
  · exact .ret _
  · dsimp only
    split
    · apply AllCalls.bind (.ret _)
      intro r
      split <;> exact .ret _
    · apply AllCalls.bind (atomicLoop_calls _ _ _ _ _ hget hput _)
      intro r
      split <;> exact .ret _
  · apply AllCalls.bind (canAdopt_calls _ _ _ hpar)
    intro ⟨ok, st'⟩
    dsimp only
    split
    · exact .ret _
    · split
      · apply AllCalls.bind (.ret _)
        intro r
        split <;> exact .ret _
      · apply AllCalls.bind (atomicLoop_calls _ _ _ _ _ hget hput _)
        intro r
        split <;> exact .ret _

theorem claimAll_calls (cx : ClaimCtx) (hpar : P (.api .get cx.parentT .null .null)) :
    ∀ (objs : List J) (st : AdoptState),
      (∀ o ∈ objs, P (.api .get (cx.childT o) .null .null) ∧ ∀ b, P (.api .update (cx.childT o) b .null)) →
      AllCalls P (claimAll cx objs st)
  | [], _, _ => .ret _
  | o :: rest, st, h => by
    unfold claimAll
    apply AllCalls.bind (claimOne_calls cx o st hpar (h o (by simp)).1 (h o (by simp)).2)
    intro ⟨⟨ok, err⟩, st'⟩
    apply AllCalls.bind (claimAll_calls cx hpar rest st' (fun o' ho' => h o' (by simp [ho'])))
    intro ⟨claimed, errs⟩
    exact .ret _

end Claim

/-- the requests `ManageChildren` may issue for one kind: any non-GET verb on an object of that resource -/
def OnInfo (P : Req → Prop) (info : KindInfo) : Prop :=
  ∀ (v : Verb) (ns name : String) (b o : J), v ≠ .get →
    P (.api v (targetOf info.group info.resource info.namespaced ns name) b o)

macro "leaf" h:term : tactic => `(tactic| first | exact AllCalls.ret _ | (refine AllCalls.call _ _ ($h _ _ _ _ _ (by decide)) (fun x => ?_); simp only [bind_ret]; split <;> exact AllCalls.ret _))

section Manage
variable {P : Req → Prop}

theorem deleteGroup_calls (info : KindInfo) (kind : String) (names : List String) (hP : OnInfo P info) :
    ∀ (objs : List (String × J)) (memo : Memo), AllCalls P (deleteGroup info kind names objs memo)
  | [], _ => .ret _
  | (name, obj) :: rest, memo => by
    unfold deleteGroup
    apply AllCalls.bind (deleteGroup_calls info kind names hP rest memo)
    intro ⟨errs, memo'⟩
    dsimp only
    split
    · exact .ret _
    · split
      · exact .ret _
      · refine .call _ _ (hP _ _ _ _ _ (by decide)) (fun x => ?_)
        simp only [bind_ret]
        split <;> exact .ret _

theorem ssaOne_calls (fm : String) (info : KindInfo) (kind : String) (pr : OwnerRef) (obs : Option J) (des : J) (memo : Memo)
    (hP : OnInfo P info) : AllCalls P (ssaOne fm info kind pr obs des memo) := by
  unfold ssaOne
  dsimp only
  split <;>
  · split
    · exact .ret _
    · apply AllCalls.bind
      · repeat' split
        all_goals leaf hP
      · intro e
        split
        · exact .ret _
        · split
          · exact .ret _
          · leaf hP

theorem updateGroup_calls (mks sys : List String) (children : List ChildRes) (ssa : Option String) (info : KindInfo)
    (kind : String) (pr : OwnerRef) (observed : List (String × J)) (hP : OnInfo P info) :
    ∀ (des : List (String × J)) (memo : Memo),
      AllCalls P (updateGroup mks sys children ssa info kind pr observed des memo)
  | [], _ => .ret _
  | (name, d) :: rest, memo => by
    unfold updateGroup
    apply AllCalls.bind (updateGroup_calls mks sys children ssa info kind pr observed hP rest memo)
    intro ⟨errs, memo'⟩
    dsimp only
    split
    · apply AllCalls.bind (ssaOne_calls _ _ _ _ _ _ _ hP)
      intro ⟨e, m⟩
      exact .ret _
    · split
      · split
        · exact .ret _
        · exact .ret _
        · refine .call _ _ (hP _ _ _ _ _ (by decide)) (fun x => ?_)
          simp only [bind_ret]
          split <;> exact .ret _
        · refine .call _ _ (hP _ _ _ _ _ (by decide)) (fun x => ?_)
          simp only [bind_ret]
          split <;> exact .ret _
      · refine .call _ _ (hP _ _ _ _ _ (by decide)) (fun x => ?_)
        simp only [bind_ret]
        split <;> exact .ret _

theorem manageChildren_calls (mks sys : List String) (children : List ChildRes) (ssa : Option String) (kt : KindTable)
    (pr : OwnerRef) (observed desired : ObjMap) (memo : Memo)
    (hP : ∀ av k info, kt.find av k = some info → OnInfo P info) :
    AllCalls P (manageChildren mks sys children ssa kt pr observed desired memo) := by
  unfold manageChildren
  apply AllCalls.bind
  · apply allCalls_foldlM
    intro acc g
    split
    · exact .ret _
    · rename_i info hinfo
      apply AllCalls.bind (deleteGroup_calls _ _ _ (hP _ _ _ hinfo) _ _)
      intro ⟨errs, m⟩
      exact .ret _
  · intro ⟨e1, m1⟩
    apply AllCalls.bind
    · apply allCalls_foldlM
      intro acc g
      split
      · exact .ret _
      · rename_i info hinfo
        apply AllCalls.bind (updateGroup_calls _ _ _ _ _ _ _ _ (hP _ _ _ hinfo) _ _)
        intro ⟨errs, m⟩
        exact .ret _
    · intro ⟨e2, m2⟩
      exact .ret _
end Manage

/-! ### read-modify-write discipline, bounds and halting of `atomicLoop` -/

namespace Prog
/-- read-modify-write discipline: a `W` request is only ever issued immediately after a non-`W`
    request, and then the pair (answer to that read, the write) satisfies `Φ`.
    The index is the answer to the immediately preceding read, if the previous request was a read. -/
inductive WritesFollow {α : Type} (W : Req → Prop) (Φ : Resp → Req → Prop) : Option Resp → Prog α → Prop where
  | ret (s : Option Resp) (a : α) : WritesFollow W Φ s (.ret a)
  | read (s : Option Resp) (r : Req) (k : Resp → Prog α) :
      ¬ W r → (∀ x, WritesFollow W Φ (some x) (k x)) → WritesFollow W Φ s (.call r k)
  | write (x : Resp) (r : Req) (k : Resp → Prog α) :
      Φ x r → (∀ y, WritesFollow W Φ none (k y)) → WritesFollow W Φ (some x) (.call r k)

theorem WritesFollow.mono {α : Type} {W : Req → Prop} {Φ Ψ : Resp → Req → Prop} {s : Option Resp} {p : Prog α}
    (hΦ : ∀ x r, Φ x r → Ψ x r) (h : WritesFollow W Φ s p) : WritesFollow W Ψ s p := by
  induction h with
  | ret s a => exact .ret s a
  | read s r k hr _ ih => exact .read s r k hr ih
  | write x r k hphi _ ih => exact .write x r k (hΦ x r hphi) ih

/-- the first request of a program obeying the discipline is not a write -/
theorem WritesFollow.first_not_write {α : Type} {W : Req → Prop} {Φ : Resp → Req → Prop} {r : Req} {k : Resp → Prog α}
    (h : WritesFollow W Φ none (.call r k)) : ¬ W r := by
  cases h with
  | read _ _ _ hr _ => exact hr

/-- a write in second position satisfies `Φ` with the answer to the first request -/
theorem WritesFollow.second_write {α : Type} {W : Req → Prop} {Φ : Resp → Req → Prop} {r : Req} {k : Resp → Prog α}
    {s : Option Resp} (h : WritesFollow W Φ s (.call r k)) (x : Resp) (w : Req) (k' : Resp → Prog α)
    (hk : k x = .call w k') (hw : W w) : Φ x w := by
  cases h with
  | read _ _ _ _ hk' =>
    have := hk' x
    rw [hk] at this
    cases this with
    | read _ _ _ hnw _ => exact (hnw hw).elim
    | write _ _ _ hphi _ => exact hphi
  | write _ _ _ hphi hk' =>
    have := hk' x
    rw [hk] at this
    cases this with
    | read _ _ _ hnw _ => exact (hnw hw).elim
end Prog

section Atomic
variable (t : Target) (uid : String) (f : J → Option J) (verb : Verb) (gone : String)

/-- one unfolding of the loop, with the monad operations evaluated -/
macro "atomic_unfold" : tactic =>
  `(tactic| (unfold atomicLoop; simp only [bind_eq, pure_eq, api, Prog.request, bind_call, bind_ret]))

theorem atomicLoop_atMost_writes {W : Req → Prop} (hg : ¬ W (.api .get t .null .null)) :
    ∀ n, AtMost W n (atomicLoop t uid f verb gone n)
  | 0 => .ret _ _
  | n + 1 => by
    atomic_unfold
    refine .callN _ _ _ hg (fun x => ?_)
    split
    · split
      · exact .ret _ _
      · split
        · exact .ret _ _
        · refine .callQ _ _ _ (fun y => ?_)
          split
          · exact .ret _ _
          · split
            · exact .ret _ _
            · exact atomicLoop_atMost_writes hg n
          · exact .ret _ _
          · exact .ret _ _
    · exact .ret _ _
    · exact .ret _ _

theorem atomicLoop_atMost_reads {R : Req → Prop} (hp : ∀ b, ¬ R (.api verb t b .null)) :
    ∀ n, AtMost R n (atomicLoop t uid f verb gone n)
  | 0 => .ret _ _
  | n + 1 => by
    atomic_unfold
    refine .callQ _ _ _ (fun x => ?_)
    split
    · split
      · exact .ret _ _
      · split
        · exact .ret _ _
        · refine .callN _ _ _ (hp _) (fun y => ?_)
          split
          · exact .ret _ _
          · split
            · exact .ret _ _
            · exact atomicLoop_atMost_reads hp n
          · exact .ret _ _
          · exact .ret _ _
    · exact .ret _ _
    · exact .ret _ _

/-- every write of the loop carries `f cur` for the object `cur` just read, whose UID is the expected one -/
theorem atomicLoop_writesFollow {W : Req → Prop} (hg : ¬ W (.api .get t .null .null)) :
    ∀ n (s : Option Resp), WritesFollow W
      (fun x r => ∃ cur upd, x = .obj cur ∧ (getUID cur != uid) = false ∧ f cur = some upd ∧ r = .api verb t upd .null)
      s (atomicLoop t uid f verb gone n)
  | 0, _ => .ret _ _
  | n + 1, s => by
    atomic_unfold
    refine .read _ _ _ hg (fun x => ?_)
    split
    · rename_i cur
      split
      · exact .ret _ _
      · rename_i hu
        split
        · exact .ret _ _
        · rename_i upd hf
          refine .write _ _ _ ⟨cur, upd, rfl, by simpa using hu, hf, rfl⟩ (fun y => ?_)
          split
          · exact .ret _ _
          · split
            · exact .ret _ _
            · exact atomicLoop_writesFollow hg n none
          · exact .ret _ _
          · exact .ret _ _
    · exact .ret _ _
    · exact .ret _ _

/-- an error answer - other than a Conflict on the write - ends the loop: nothing more is issued, an error is returned -/
theorem atomicLoop_haltsAfterR (hv : verb.isWrite = true) :
    ∀ n, HaltsAfterR (fun r x => x.isErr = true ∧ (x = .err "Conflict" → r.isWrite = false))
      (fun _ => True) PE.IsError (atomicLoop t uid f verb gone n)
  | 0 => .ret _
  | n + 1 => by
    atomic_unfold
    refine .call _ _ (fun x hx => ?_) (fun x => ?_)
    · cases x <;> simp [Resp.isErr] at hx
      exact ⟨.ret _, .ret _ True.intro⟩
    · split
      · split
        · exact .ret _
        · split
          · exact .ret _
          · refine .call _ _ (fun y hy => ?_) (fun y => ?_)
            · cases y <;> simp [Resp.isErr, Req.isWrite, Req.verb?, hv] at hy
              rename_i e
              split
              · rename_i h; cases h
              · rename_i h; cases h; exact (hy rfl).elim
              · exact ⟨.ret _, .ret _ True.intro⟩
              · exact ⟨.ret _, .ret _ True.intro⟩
            · split
              · exact .ret _
              · split
                · exact .ret _
                · exact atomicLoop_haltsAfterR hv n
              · exact .ret _
              · exact .ret _
      · exact .ret _
      · exact .ret _

/-- the loop followed by a continuation `K`, when (1) "nothing to do" answers and accepted writes count as
    guards and (2) `K` is harmless on errors: no `Q` request before a guard -/
theorem atomicLoop_guarded_bind {β : Type} {G : Req → Resp → Prop} {Q : Req → Prop} (K : Except String J → Prog β)
    (hgq : ¬ Q (.api .get t .null .null)) (hpq : ∀ b, ¬ Q (.api verb t b .null))
    (hnone : ∀ cur, (getUID cur != uid) = false → f cur = none → G (.api .get t .null .null) (.obj cur))
    (hok : ∀ cur upd res, (getUID cur != uid) = false → f cur = some upd → G (.api verb t upd .null) (.obj res))
    (hK : ∀ e, Guarded G Q (K (.error e))) :
    ∀ n, Guarded G Q ((atomicLoop t uid f verb gone n).bind K)
  | 0 => hK _
  | n + 1 => by
    atomic_unfold
    refine .call _ _ hgq (fun x hx => ?_)
    split
    · rename_i cur
      split
      · exact hK _
      · rename_i hu
        have hu' : (getUID cur != uid) = false := by simpa using hu
        split
        · rename_i hf; exact (hx (hnone cur hu' hf)).elim
        · rename_i upd hf
          refine .call _ _ (hpq _) (fun y hy => ?_)
          dsimp only
          split
          · rename_i res; exact (hy (hok cur upd res hu' hf)).elim
          · split
            · exact hK _
            · exact atomicLoop_guarded_bind K hgq hpq hnone hok hK n
          · exact hK _
          · exact hK _
    · exact hK _
    · exact hK _
end Atomic

/-! ### hard errors during claims: the error is reported, never swallowed -/

/-- an error that the claim logic does not swallow and the retry loop does not retry -/
def HardErr (x : Resp) : Prop := ∃ e, x = .err e ∧ e ≠ "NotFound" ∧ e ≠ "Gone" ∧ e ≠ "Conflict"

section HardHalt
variable {G : Req → Resp → Prop} {Q : Req → Prop}

/-- the read-modify-write loop: a hard error on one of its requests ends it with that error -/
theorem atomicLoop_hardHalts (t : Target) (uid : String) (f : J → Option J) (verb : Verb) (gone : String)
    (hG : ∀ r x, G r x → HardErr x) :
    ∀ n, HaltsAfterR G Q (fun r => ∃ e, r = .error e ∧ e ≠ "NotFound" ∧ e ≠ "Gone")
      (atomicLoop t uid f verb gone n)
  | 0 => .ret _
  | n + 1 => by
    atomic_unfold
    refine .call _ _ (fun x hx => ?_) (fun x => ?_)
    · obtain ⟨e, rfl, h1, h2, _⟩ := hG _ _ hx
      exact ⟨.ret _, .ret _ ⟨e, rfl, h1, h2⟩⟩
    · split
      · split
        · exact .ret _
        · split
          · exact .ret _
          · refine .call _ _ (fun y hy => ?_) (fun y => ?_)
            · obtain ⟨e, rfl, h1, h2, h3⟩ := hG _ _ hy
              split
              · rename_i h; cases h
              · rename_i h; cases h; exact (h3 rfl).elim
              · rename_i e' _ h; cases h; exact ⟨.ret _, .ret _ ⟨e, rfl, h1, h2⟩⟩
              · rename_i h; exact (h e rfl).elim
            · split
              · exact .ret _
              · split
                · exact .ret _
                · exact atomicLoop_hardHalts t uid f verb gone hG n
              · exact .ret _
              · exact .ret _
      · exact .ret _
      · exact .ret _

theorem claimOne_hardHalts (cx : ClaimCtx) (obj : J) (st : AdoptState)
    (hG : ∀ r x, G r x → HardErr x ∧ r.isWrite = true) :
    HaltsAfterR G Q (fun res => res.1.2 ≠ none) (claimOne cx obj st) := by
  have hloop : ∀ f, HaltsAfterR G Q (fun r => ∃ e, r = .error e ∧ e ≠ "NotFound" ∧ e ≠ "Gone")
      (atomicLoop (cx.childT obj) (getUID obj) f .update cx.goneReason retrySteps) :=
    fun f => atomicLoop_hardHalts _ _ f _ _ (fun r x h => (hG r x h).1) _
  unfold claimOne
  split
  · exact .ret _
  · exact .ret _
  · dsimp only
    split
    · exact .ret _
    · refine HaltsAfterR.bind (hloop _) (fun r => ?_) (fun r hr => ?_)
      · split <;> exact .ret _
      · obtain ⟨e, rfl, h1, h2⟩ := hr
        split
        · rename_i h; cases h
        · rename_i h; cases h; exact (h1 rfl).elim
        · rename_i h; cases h; exact (h2 rfl).elim
        · exact ⟨.ret _, .ret _ (by simp)⟩
  · -- adopt: the GET of the parent is not a write, so no `G` pair there
    refine HaltsAfterR.bind (R := fun _ => False) ?_ (fun a => ?_) (fun _ h => h.elim)
    · apply HaltsAfterR.of_noG
      apply canAdopt_calls
      intro x hx
      have := (hG _ _ hx).2
      simp [Req.isWrite, Req.verb?, Verb.isWrite] at this
    · obtain ⟨ok, st'⟩ := a
      dsimp only
      split
      · exact .ret _
      · split
        · exact .ret _
        · refine HaltsAfterR.bind (hloop _) (fun r => ?_) (fun r hr => ?_)
          · split <;> exact .ret _
          · obtain ⟨e, rfl, h1, h2⟩ := hr
            split
            · rename_i h; cases h
            · rename_i h; cases h; exact (h1 rfl).elim
            · exact ⟨.ret _, .ret _ (by simp)⟩


theorem claimAll_hardHalts (cx : ClaimCtx)
    (hG : ∀ r x, G r x → HardErr x ∧ r.isWrite = true)
    (hQg : ∀ t, ¬ Q (.api .get t .null .null)) (hQu : ∀ o b, ¬ Q (.api .update (cx.childT o) b .null)) :
    ∀ (objs : List J) (st : AdoptState), HaltsAfterR G Q (fun res => res.2 ≠ []) (claimAll cx objs st)
  | [], _ => .ret _
  | o :: rest, st => by
    have hfoot : ∀ st', NoQ Q (claimAll cx rest st') := fun st' =>
      claimAll_calls cx (hQg _) rest st' (fun o' _ => ⟨hQg _, hQu o'⟩)
    unfold claimAll
    refine HaltsAfterR.bind (claimOne_hardHalts cx o st hG) (fun a => ?_) (fun a ha => ?_)
    · obtain ⟨⟨ok, err⟩, st'⟩ := a
      refine HaltsAfterR.bind (claimAll_hardHalts cx hG hQg hQu rest st') (fun b => .ret _) (fun b hb => ?_)
      obtain ⟨claimed, errs⟩ := b
      refine ⟨.ret _, .ret _ ?_⟩
      dsimp only at hb ⊢
      cases err <;> simp [hb]
    · obtain ⟨⟨ok, err⟩, st'⟩ := a
      dsimp only at ha
      refine ⟨AllCalls.bind (hfoot st') (fun _ => .ret _), AllRets.bind (AllRets.trivial _) (fun b _ => .ret _ ?_)⟩
      obtain ⟨claimed, errs⟩ := b
      cases err with
      | none => exact (ha rfl).elim
      | some e => simp

end HardHalt

namespace Prog

/-! ### what the tree predicates mean for the log of a run -/

/-- one step of `run` on a call, inverted -/
theorem run_call_some {α σ : Type} (step : σ → Req → Resp × σ) (r : Req) (k : Resp → Prog α) (s : σ) (fuel : Nat)
    (a : α) (s' : σ) (log : List (Req × Resp)) (h : run step (.call r k) s fuel = some (a, s', log)) :
    ∃ n log1, fuel = n + 1 ∧ log = (r, (step s r).1) :: log1 ∧
      run step (k (step s r).1) (step s r).2 n = some (a, s', log1) := by
  cases fuel with
  | zero => simp [run] at h
  | succ n =>
    simp only [run] at h
    split at h
    · rename_i a1 s1 log1 heq
      simp at h
      obtain ⟨rfl, rfl, rfl⟩ := h
      exact ⟨n, log1, rfl, rfl, heq⟩
    · simp at h

/-- `NoPAfterQ` on a log: nothing after a `Q` request is a `P` request -/
theorem run_log_noPAfterQ {α σ : Type} {P Q : Req → Prop} (step : σ → Req → Resp × σ) (p : Prog α)
    (hp : NoPAfterQ P Q p) : ∀ (s : σ) (fuel : Nat) a s' log, run step p s fuel = some (a, s', log) →
      ∀ l1 rx l2, log = l1 ++ rx :: l2 → Q rx.1 → ∀ ry ∈ l2, ¬ P ry.1 := by
  induction hp with
  | ret a =>
    intro s fuel a' s' log h l1 rx l2 hl
    simp [run] at h
    obtain ⟨_, _, rfl⟩ := h
    simp at hl
  | call r k hq _ ih =>
    intro s fuel a' s' log h l1 rx l2 hl hQ
    obtain ⟨n, log1, rfl, rfl, hrun⟩ := run_call_some step r k s fuel a' s' log h
    cases l1 with
    | nil =>
      simp only [List.nil_append, List.cons.injEq] at hl
      obtain ⟨rfl, rfl⟩ := hl
      exact run_log_all step _ (hq hQ _) _ _ _ _ _ hrun
    | cons y l1' =>
      simp only [List.cons_append, List.cons.injEq] at hl
      exact ih _ _ _ _ _ _ hrun l1' rx l2 hl.2 hQ

/-- `HaltsAfter` on a log: nothing after a `G` pair is a `Q` request -/
theorem run_log_haltsAfter {α σ : Type} {G : Req → Resp → Prop} {Q : Req → Prop} (step : σ → Req → Resp × σ) (p : Prog α)
    (hp : HaltsAfter G Q p) : ∀ (s : σ) (fuel : Nat) a s' log, run step p s fuel = some (a, s', log) →
      ∀ l1 rx l2, log = l1 ++ rx :: l2 → G rx.1 rx.2 → ∀ ry ∈ l2, ¬ Q ry.1 := by
  induction hp with
  | ret a =>
    intro s fuel a' s' log h l1 rx l2 hl
    simp [run] at h
    obtain ⟨_, _, rfl⟩ := h
    simp at hl
  | call r k hg _ ih =>
    intro s fuel a' s' log h l1 rx l2 hl hG
    obtain ⟨n, log1, rfl, rfl, hrun⟩ := run_call_some step r k s fuel a' s' log h
    cases l1 with
    | nil =>
      simp only [List.nil_append, List.cons.injEq] at hl
      obtain ⟨rfl, rfl⟩ := hl
      exact run_log_all step _ (hg _ hG) _ _ _ _ _ hrun
    | cons y l1' =>
      simp only [List.cons_append, List.cons.injEq] at hl
      exact ih _ _ _ _ _ _ hrun l1' rx l2 hl.2 hG

/-- `Guarded` on a log: a `Q` request is preceded by a `G` pair -/
theorem run_log_guarded {α σ : Type} {G : Req → Resp → Prop} {Q : Req → Prop} (step : σ → Req → Resp × σ) (p : Prog α)
    (hp : Guarded G Q p) : ∀ (s : σ) (fuel : Nat) a s' log, run step p s fuel = some (a, s', log) →
      ∀ l1 rx l2, log = l1 ++ rx :: l2 → Q rx.1 → ∃ ry ∈ l1, G ry.1 ry.2 := by
  induction hp with
  | ret a =>
    intro s fuel a' s' log h l1 rx l2 hl
    simp [run] at h
    obtain ⟨_, _, rfl⟩ := h
    simp at hl
  | call r k hnq _ ih =>
    intro s fuel a' s' log h l1 rx l2 hl hQ
    obtain ⟨n, log1, rfl, rfl, hrun⟩ := run_call_some step r k s fuel a' s' log h
    cases l1 with
    | nil =>
      simp only [List.nil_append, List.cons.injEq] at hl
      obtain ⟨rfl, rfl⟩ := hl
      exact (hnq hQ).elim
    | cons y l1' =>
      simp only [List.cons_append, List.cons.injEq] at hl
      obtain ⟨rfl, hl⟩ := hl
      by_cases hg : G r (step s r).1
      · exact ⟨(r, (step s r).1), by simp, hg⟩
      · obtain ⟨ry, hmem, hgy⟩ := ih _ hg _ _ _ _ _ hrun l1' rx l2 hl hQ
        exact ⟨ry, by simp [hmem], hgy⟩

/-- `AtMost` on a log: at most `n` requests of the log satisfy `Q` -/
theorem run_log_atMost {α σ : Type} {Q : Req → Prop} [DecidablePred Q] (step : σ → Req → Resp × σ) (p : Prog α) (n : Nat)
    (hp : AtMost Q n p) : ∀ (s : σ) (fuel : Nat) a s' log, run step p s fuel = some (a, s', log) →
      (log.filter (fun rx => decide (Q rx.1))).length ≤ n := by
  induction hp with
  | ret n a =>
    intro s fuel a' s' log h
    simp [run] at h
    obtain ⟨_, _, rfl⟩ := h
    simp
  | callQ n r k _ ih =>
    intro s fuel a' s' log h
    obtain ⟨m, log1, rfl, rfl, hrun⟩ := run_call_some step r k s fuel a' s' log h
    have := ih _ _ _ _ _ _ hrun
    simp only [List.filter_cons]
    split <;> simp <;> omega
  | callN n r k hr _ ih =>
    intro s fuel a' s' log h
    obtain ⟨m, log1, rfl, rfl, hrun⟩ := run_call_some step r k s fuel a' s' log h
    have := ih _ _ _ _ _ _ hrun
    simp [hr, this]

end Prog

end Mc
