import Mc.Proofs.LawsLemmas
/-
  C05 "removed + preserved" laws for the whole model.
-/
set_option linter.unusedSimpArgs false
namespace Mc.C05

/-- `hypJ` for an optional last-applied value -/
def hypO (mks : List String) : Option J → Bool
  | none => true
  | some j => hypJ mks j

/-! ### object case -/

theorem laws_obj_core (mks : List String) (os rk : KVs) (l : Option J) (d : J)
    (hdk : (d.isObj || d.isNull) = true)
    (huo : uniq os) (hwo : ∀ k v, (k, v) ∈ os → v.wfB = true)
    (hwd : ∀ k v, (k, v) ∈ d.fields → v.wfB = true)
    (h1 : ∀ k v, (k, v) ∈ d.fields → ∃ m, lookup k rk = some m ∧
        merge mks ((lookup k os).getD .null) (lookup k (lastObj l)) v = .ok m)
    (h2 : ∀ k, lookup k d.fields = none → lookup k rk = lookup k (prune os (lastObj l) d.fields))
    (hlaws : ∀ k dv ov rv, (k, dv) ∈ d.fields → lookup k os = some ov →
        merge mks ov (lookup k (lastObj l)) dv = .ok rv → laws mks rv ov (lookup k (lastObj l)) dv = true) :
    laws mks (.obj rk) (.obj os) l d = true := by
  rw [laws, hdk]
  simp only [Bool.true_and, Bool.and_eq_true, List.all_eq_true, Bool.or_eq_true]
  refine ⟨⟨?_, ?_⟩, ?_⟩
  · apply lawsFields_of
    intro k ov hm
    have hlo := lookup_of_mem_uniq _ _ _ huo hm
    refine ⟨?_, ?_, ?_⟩
    · intro dv hdv
      obtain ⟨m, hm1, hm2⟩ := h1 k dv (lookup_mem _ _ _ hdv)
      rw [hlo] at hm2
      exact ⟨m, hm1, hlaws k dv ov m (lookup_mem _ _ _ hdv) hlo hm2⟩
    · intro hdn hl
      rw [hasKey_false_iff, h2 k hdn, lookup_prune]
      have : hasKey k d.fields = false := (hasKey_false_iff _ _).mpr hdn
      simp [hl, this]
    · intro hdn hl
      refine ⟨ov, ?_, J.eqv_refl ov (hwo k ov hm)⟩
      rw [h2 k hdn, lookup_prune]
      simp [hl, hlo]
  · intro kv hkv
    have hk : hasKey kv.1 rk = true := hasKey_of_mem (v := kv.2) hkv
    cases hdn : lookup kv.1 d.fields with
    | some dv => right; exact hasKey_of_lookup hdn
    | none =>
      left
      rw [hasKey_eq, h2 _ hdn, ← hasKey_eq] at hk
      unfold prune at hk
      rw [hasKey_filter (fun k => !(hasKey k (lastObj l) && !hasKey k d.fields))] at hk
      simp only [Bool.and_eq_true] at hk
      exact hk.2
  · intro kv hkv
    cases hko : hasKey kv.1 os with
    | true => left; rfl
    | false =>
      right
      obtain ⟨m, hm1, hm2⟩ := h1 kv.1 kv.2 hkv
      rw [(hasKey_false_iff _ _).mp hko] at hm2
      rw [merge_scalar _ _ _ _ rfl rfl] at hm2
      cases hm2
      simp only [hm1]
      exact J.eqv_refl _ (hwd kv.1 kv.2 hkv)

/-! ### list-map case -/

/-- what is known about the merged list-map after the first merge -/
structure LM (mks : List String) (mk : String) (xs ll ds : List J) (merged : KVs) : Prop where
  hnx : (xs.map (keyOf mk)).Nodup
  hnd : (ds.map (keyOf mk)).Nodup
  h1 : ∀ it ∈ ds, ∃ m, lookup (keyOf mk it) merged = some m ∧
        merge mks ((lookup (keyOf mk it) (prunedMap mk xs ll ds)).getD .null)
          (lookup (keyOf mk it) (makeListMap mk ll)) it = .ok m
  h2 : ∀ k, k ∉ ds.map (keyOf mk) → lookup k merged = lookup k (prunedMap mk xs ll ds)
  hkey : ∀ it ∈ ds, ∀ m, lookup (keyOf mk it) merged = some m → keyOf mk m = keyOf mk it

/-- the `survive` predicate of `laws` -/
def surviveF (mk : String) (ll ds : List J) : J → Bool :=
  fun it => !((ll.map (keyOf mk)).contains (keyOf mk it) && !(ds.map (keyOf mk)).contains (keyOf mk it))

namespace LM
variable {mks : List String} {mk : String} {xs ll ds : List J} {merged : KVs}

theorem surv_des (h : LM mks mk xs ll ds merged) {x it : J} (hx : x ∈ xs) (hit : it ∈ ds)
    (he : keyOf mk it = keyOf mk x) :
    ∃ m, lookup (keyOf mk x) merged = some m ∧ keyOf mk m = keyOf mk x ∧
      merge mks x (lookup (keyOf mk x) (makeListMap mk ll)) it = .ok m := by
  obtain ⟨m, hm, hmm⟩ := h.h1 it hit
  have hc : (ds.map (keyOf mk)).contains (keyOf mk it) = true :=
    List.contains_iff_mem.mpr (List.mem_map_of_mem hit)
  rw [lookup_prunedMap, hc] at hmm
  simp only [Bool.not_true, Bool.and_false, Bool.false_eq_true, if_false] at hmm
  rw [he, lookup_makeListMap_mem mk xs x h.hnx hx] at hmm
  simp only [Option.getD_some] at hmm
  have hk := h.hkey it hit m hm
  rw [he] at hm hk
  exact ⟨m, hm, hk, hmm⟩

theorem surv_nodes (h : LM mks mk xs ll ds merged) {x : J} (hx : x ∈ xs)
    (hs : surviveF mk ll ds x = true) (hk : keyOf mk x ∉ ds.map (keyOf mk)) :
    lookup (keyOf mk x) merged = some x := by
  rw [h.h2 _ hk, lookup_prunedMap]
  unfold surviveF at hs
  simp only [Bool.not_eq_true'] at hs
  rw [hs]
  simp only [Bool.false_eq_true, if_false]
  exact lookup_makeListMap_mem mk xs x h.hnx hx

theorem not_surv (h : LM mks mk xs ll ds merged) {x : J}
    (hs : surviveF mk ll ds x = false) : lookup (keyOf mk x) merged = none := by
  unfold surviveF at hs
  simp only [Bool.not_eq_false'] at hs
  have hk : keyOf mk x ∉ ds.map (keyOf mk) := by
    intro hc
    have := List.contains_iff_mem.mpr hc
    rw [this] at hs; simp at hs
  rw [h.h2 _ hk, lookup_prunedMap, hs]
  simp

theorem new (h : LM mks mk xs ll ds merged) {it : J} (hit : it ∈ ds)
    (hk : keyOf mk it ∉ xs.map (keyOf mk)) : lookup (keyOf mk it) merged = some it := by
  obtain ⟨m, hm, hmm⟩ := h.h1 it hit
  cases hl : lookup (keyOf mk it) (prunedMap mk xs ll ds) with
  | some v =>
    obtain ⟨hv, hkv⟩ := lookup_prunedMap_some mk xs ll ds _ v hl
    exact absurd (hkv ▸ List.mem_map_of_mem hv) hk
  | none =>
    rw [hl] at hmm
    simp only [Option.getD_none] at hmm
    rw [merge_scalar _ _ _ _ rfl rfl] at hmm
    cases hmm
    exact hm

/-- every surviving observed item has an entry, with the same key -/
theorem surv (h : LM mks mk xs ll ds merged) {x : J} (hx : x ∈ xs) (hs : surviveF mk ll ds x = true) :
    ∃ m, lookup (keyOf mk x) merged = some m ∧ keyOf mk m = keyOf mk x := by
  by_cases hk : keyOf mk x ∈ ds.map (keyOf mk)
  · rw [List.mem_map] at hk
    obtain ⟨it, hit, he⟩ := hk
    obtain ⟨m, hm, hkm, _⟩ := h.surv_des hx hit he
    exact ⟨m, hm, hkm⟩
  · exact ⟨x, h.surv_nodes hx hs hk, rfl⟩

theorem keys (h : LM mks mk xs ll ds merged) :
    (rebuild mk xs merged ds).map (keyOf mk) =
      (xs.filter (surviveF mk ll ds)).map (keyOf mk) ++
      ((ds.map (keyOf mk)).filter (fun k => !(xs.map (keyOf mk)).contains k)).eraseDups := by
  rw [rebuild_eq mk xs merged ds h.hnd, List.map_append]
  congr 1
  · apply filterMap_map_eq
    intro x hx
    exact ⟨fun hs => h.surv hx hs, fun hs => h.not_surv hs⟩
  · rw [eraseDups_of_nodup _ (List.Pairwise.filter _ h.hnd), List.filter_map, List.map_map]
    have hf : ds.filter (fun it => !((xs.map (keyOf mk)).contains (keyOf mk it) && hasKey (keyOf mk it) merged)) =
        ds.filter ((fun k => !(xs.map (keyOf mk)).contains k) ∘ keyOf mk) := by
      apply List.filter_congr
      intro it hit
      obtain ⟨m, hm, _⟩ := h.h1 it hit
      simp [hasKey_of_lookup hm]
    rw [hf]
    apply List.map_congr_left
    intro it hit
    have hit' := (List.mem_filter.mp hit).1
    obtain ⟨m, hm, _⟩ := h.h1 it hit'
    simp only [Function.comp, hm, Option.getD_some]
    exact h.hkey it hit' m hm

theorem nodup_rs (h : LM mks mk xs ll ds merged) : ((rebuild mk xs merged ds).map (keyOf mk)).Nodup := by
  rw [h.keys, List.nodup_append]
  refine ⟨?_, ?_, ?_⟩
  · exact List.Nodup.sublist (List.Sublist.map _ List.filter_sublist) h.hnx
  · rw [eraseDups_of_nodup _ (List.Pairwise.filter _ h.hnd)]
    exact List.Pairwise.filter _ h.hnd
  · intro a ha b hb
    rw [eraseDups_of_nodup _ (List.Pairwise.filter _ h.hnd)] at hb
    rw [List.mem_filter] at hb
    rw [List.mem_map] at ha
    obtain ⟨x, hx, rfl⟩ := ha
    have hx' := (List.mem_filter.mp hx).1
    intro e; subst e
    have : (xs.map (keyOf mk)).contains (keyOf mk x) = true :=
      List.contains_iff_mem.mpr (List.mem_map_of_mem hx')
    rw [this] at hb; simp at hb

end LM

theorem laws_arr_core (mks : List String) (mk : String) (xs : List J) (l : Option J) (d : J) (merged : KVs)
    (hdk : (d.isArr || d.isNull) = true)
    (hdet : detectListMapKey mks [xs, lastArr l, d.items] = some mk)
    (hlm : LM mks mk xs (lastArr l) d.items merged)
    (hnl : ((lastArr l).map (keyOf mk)).Nodup)
    (hwx : ∀ x ∈ xs, x.wfB = true) (hwd : ∀ it ∈ d.items, it.wfB = true)
    (hlaws : ∀ x ∈ xs, ∀ it ∈ d.items, ∀ m lo, merge mks x lo it = .ok m →
        lo = findItem mk (keyOf mk x) (lastArr l) → laws mks m x lo it = true) :
    laws mks (.arr (rebuild mk xs merged d.items)) (.arr xs) l d = true := by
  rw [laws, hdk]
  simp only [Bool.true_and, hdet, Bool.and_eq_true, beq_iff_eq]
  refine ⟨⟨hlm.keys, ?_⟩, ?_⟩
  · apply lawsItems_of
    intro x hx hs
    obtain ⟨m, hm, hkm⟩ := hlm.surv hx hs
    have hmr : m ∈ rebuild mk xs merged d.items := by
      rw [rebuild_eq mk xs merged d.items hlm.hnd, List.mem_append]; left
      rw [List.mem_filterMap]; exact ⟨x, hx, hm⟩
    refine ⟨m, ?_, ?_, ?_⟩
    · rw [← hkm]; exact findItem_of_nodup mk _ hlm.nodup_rs m hmr
    · intro hnone
      have hk := desItem_none mk d.items _ hnone
      have := hlm.surv_nodes hx hs hk
      rw [hm] at this; cases this
      exact J.eqv_refl _ (hwx _ hx)
    · intro di hdi
      obtain ⟨hdi1, hdi2⟩ := desItem_some mk d.items _ di hdi
      obtain ⟨m', hm', _, hmm⟩ := hlm.surv_des hx hdi1 hdi2
      rw [hm] at hm'; cases hm'
      rw [lookup_makeListMap_eq_findItem mk _ hnl] at hmm
      exact hlaws x hx di hdi1 m _ hmm rfl
  · rw [List.all_eq_true]
    intro k hk
    rw [List.mem_eraseDups, List.mem_filter, List.mem_map] at hk
    obtain ⟨⟨it, hit, rfl⟩, hko⟩ := hk
    have hko' : keyOf mk it ∉ xs.map (keyOf mk) := by
      intro hc
      have := List.contains_iff_mem.mpr hc
      rw [this] at hko; simp at hko
    have hm := hlm.new hit hko'
    have hmr := mem_rebuild_of_des mk xs merged d.items hlm.hnd it it hit hm
    rw [findItem_of_nodup mk _ hlm.nodup_rs it hmr, desItem_of_nodup mk d.items hlm.hnd it hit]
    exact J.eqv_refl _ (hwd it hit)

/-! ### hypotheses on the optional last-applied value -/

theorem hypO_lookup_lastObj (mks : List String) (l : Option J) (k : String) (h : hypO mks l = true) :
    hypO mks (lookup k (lastObj l)) = true := by
  cases hl : lookup k (lastObj l) with
  | none => rfl
  | some v =>
    cases l with
    | none => simp [lastObj] at hl
    | some lj =>
      cases lj with
      | obj ls =>
        simp only [lastObj] at hl
        simp only [hypO] at h ⊢
        exact ((hypJ_obj mks ls).mp h).2 k v (lookup_mem _ _ _ hl)
      | null | bool _ | num _ | str _ | arr _ => simp [lastObj] at hl

theorem hypJ_of_mem_lastArr (mks : List String) (l : Option J) (h : hypO mks l = true) (v : J)
    (hv : v ∈ lastArr l) : hypJ mks v = true := by
  cases l with
  | none => simp [lastArr] at hv
  | some lj =>
    cases lj with
    | arr ll =>
      simp only [lastArr] at hv
      simp only [hypO] at h
      exact ((hypJ_arr mks ll).mp h).2 v hv
    | null | bool _ | num _ | str _ | obj _ => simp [lastArr] at hv

theorem hypO_findItem (mks : List String) (l : Option J) (mk k : String) (h : hypO mks l = true) :
    hypO mks (findItem mk k (lastArr l)) = true := by
  cases hf : findItem mk k (lastArr l) with
  | none => rfl
  | some v =>
    unfold findItem at hf
    exact hypJ_of_mem_lastArr mks l h v (List.mem_of_find?_eq_some hf)

theorem nodup_lastArr (mks : List String) (l : Option J) (mk : String) (h : hypO mks l = true) (hmk : mk ∈ mks)
    (hall : ∀ it ∈ lastArr l, ∃ kvs, it = .obj kvs ∧ hasKey mk kvs = true) :
    ((lastArr l).map (keyOf mk)).Nodup := by
  cases l with
  | none => simp [lastArr]
  | some lj =>
    cases lj with
    | arr ll =>
      simp only [lastArr] at hall ⊢
      simp only [hypO] at h
      exact nodup_of_hypJ mks ll mk h hmk hall
    | null | bool _ | num _ | str _ | obj _ => simp [lastArr]

theorem laws_scalar_o (mks : List String) (r o : J) (l : Option J) (d : J)
    (h1 : o.isObj = false) (h2 : o.isArr = false) : laws mks r o l d = r.eqv d := by
  cases o <;> simp [J.isObj, J.isArr] at h1 h2 <;> simp [laws]

theorem laws_arr_none (mks : List String) (r : J) (xs : List J) (l : Option J) (d : J)
    (hdk : (d.isArr || d.isNull) = true)
    (hdet : detectListMapKey mks [xs, lastArr l, d.items] = none) :
    laws mks r (.arr xs) l d = r.eqv d := by
  rw [laws, hdk]; simp only [hdet, Bool.true_and]

/-! ### the main induction -/

def Laws (mks : List String) (d : J) : Prop :=
  ∀ o l r, hypJ mks o = true → hypO mks l = true → hypJ mks d = true → scalarKeys mks o = true →
    merge mks o l d = .ok r → laws mks r o l d = true

theorem laws_scalar_d (mks : List String) (d : J) (h1 : d.isObj = false) (h2 : d.isArr = false)
    (h3 : d.isNull = false) : Laws mks d := by
  intro o l r _ _ hd _ h
  cases o with
  | obj os => rw [merge_obj_other _ _ _ _ h1 h3] at h; cases h
  | arr xs => rw [merge_arr_other _ _ _ _ h2 h3] at h; cases h
  | null | bool _ | num _ | str _ =>
    rw [merge_scalar _ _ _ _ rfl rfl] at h; cases h
    rw [laws_scalar_o _ _ _ _ _ rfl rfl]
    exact J.eqv_refl _ (hypJ_wfB mks _ hd)

theorem laws_all (mks : List String) : ∀ d, Laws mks d := by
  intro d
  induction d using J.induct with
  | hbool b => exact laws_scalar_d mks _ rfl rfl rfl
  | hnum n => exact laws_scalar_d mks _ rfl rfl rfl
  | hstr s => exact laws_scalar_d mks _ rfl rfl rfl
  | hnull =>
    intro o l r ho hl _ _ h
    cases o with
    | null | bool _ | num _ | str _ =>
      rw [merge_scalar _ _ _ _ rfl rfl] at h; cases h
      rw [laws_scalar_o _ _ _ _ _ rfl rfl]; rfl
    | obj os =>
      rw [merge_obj_null] at h; cases h
      obtain ⟨huo, hoi⟩ := (hypJ_obj mks os).mp ho
      apply laws_obj_core mks os _ l .null rfl huo (fun k v hm => hypJ_wfB mks v (hoi k v hm))
      · intro k v hm; simp [J.fields] at hm
      · intro k v hm; simp [J.fields] at hm
      · intro k _; rfl
      · intro k dv ov rv hm; simp [J.fields] at hm
    | arr xs =>
      have hoi := ((hypJ_arr mks xs).mp ho).2
      cases hdet : detectListMapKey mks [xs, lastArr l, []] with
      | none =>
        rw [merge_arr_null_none _ _ _ hdet] at h; cases h
        rw [laws_arr_none mks _ xs l .null rfl hdet]; rfl
      | some mk =>
        rw [merge_arr_null_some _ _ _ _ hdet] at h; cases h
        obtain ⟨hmk, _, hall, _⟩ := detect_some hdet
        have hallx : ∀ it ∈ xs, ∃ kvs, it = .obj kvs ∧ hasKey mk kvs = true :=
          fun it hit => hall it (by simp [hit])
        have halll : ∀ it ∈ lastArr l, ∃ kvs, it = .obj kvs ∧ hasKey mk kvs = true :=
          fun it hit => hall it (by simp [hit])
        have hmerged : (makeListMap mk xs).filter (fun kv => !(hasKey kv.1 (makeListMap mk (lastArr l)))) =
            prunedMap mk xs (lastArr l) [] := by
          unfold prunedMap
          apply List.filter_congr
          intro kv _
          simp
        rw [hmerged]
        apply laws_arr_core mks mk xs l .null _ rfl hdet
        · exact {
            hnx := nodup_of_hypJ mks xs mk ho hmk hallx
            hnd := by simp [J.items]
            h1 := by intro it hit; simp [J.items] at hit
            h2 := by intro k _; rfl
            hkey := by intro it hit; simp [J.items] at hit }
        · exact nodup_lastArr mks l mk hl hmk halll
        · exact fun x hx => hypJ_wfB mks x (hoi x hx)
        · intro it hit; simp [J.items] at hit
        · intro x _ it hit; simp [J.items] at hit
  | hobj ds ih =>
    intro o l r ho hl hd hs h
    obtain ⟨hu, hdv⟩ := (hypJ_obj mks ds).mp hd
    cases o with
    | null | bool _ | num _ | str _ =>
      rw [merge_scalar _ _ _ _ rfl rfl] at h; cases h
      rw [laws_scalar_o _ _ _ _ _ rfl rfl]
      exact J.eqv_refl _ (hypJ_wfB mks _ hd)
    | arr xs => rw [merge_arr_other _ _ _ _ rfl rfl] at h; cases h
    | obj os =>
      rw [merge_obj_obj] at h
      obtain ⟨rk, hrk, h1, h2⟩ := mergeFields_spec mks _ ds _ r hu h
      subst hrk
      obtain ⟨huo, hoi⟩ := (hypJ_obj mks os).mp ho
      apply laws_obj_core mks os rk l (.obj ds) rfl huo (fun k v hm => hypJ_wfB mks v (hoi k v hm))
      · exact fun k v hm => hypJ_wfB mks v (hdv k v hm)
      · intro k v hm
        have hm : (k, v) ∈ ds := hm
        obtain ⟨m, hm1, hm2⟩ := h1 k v hm
        rw [lookup_prune_of_hasKey _ _ _ _ (hasKey_of_mem hm)] at hm2
        exact ⟨m, hm1, hm2⟩
      · exact h2
      · intro k dv ov rv hm hlo hmm
        exact ih k dv hm ov _ rv (hoi k ov (lookup_mem _ _ _ hlo)) (hypO_lookup_lastObj mks l k hl)
          (hdv k dv hm) ((scalarKeys_obj mks os).mp hs |>.2 k ov (lookup_mem _ _ _ hlo)) hmm
  | harr ds ih =>
    intro o l r ho hl hd hs h
    have hdi := ((hypJ_arr mks ds).mp hd).2
    cases o with
    | null | bool _ | num _ | str _ =>
      rw [merge_scalar _ _ _ _ rfl rfl] at h; cases h
      rw [laws_scalar_o _ _ _ _ _ rfl rfl]
      exact J.eqv_refl _ (hypJ_wfB mks _ hd)
    | obj os => rw [merge_obj_other _ _ _ _ rfl rfl] at h; cases h
    | arr xs =>
      have hoi := ((hypJ_arr mks xs).mp ho).2
      cases hdet : detectListMapKey mks [xs, lastArr l, ds] with
      | none =>
        rw [merge_arr_arr_none _ _ _ _ hdet] at h; cases h
        rw [laws_arr_none mks _ xs l (.arr ds) rfl hdet]
        exact J.eqv_refl _ (hypJ_wfB mks _ hd)
      | some mk =>
        obtain ⟨hmk, _, hall, _⟩ := detect_some hdet
        have hallx : ∀ it ∈ xs, ∃ kvs, it = .obj kvs ∧ hasKey mk kvs = true :=
          fun it hit => hall it (by simp [hit])
        have halll : ∀ it ∈ lastArr l, ∃ kvs, it = .obj kvs ∧ hasKey mk kvs = true :=
          fun it hit => hall it (by simp [hit])
        have halld : ∀ it ∈ ds, ∃ kvs, it = .obj kvs ∧ hasKey mk kvs = true :=
          fun it hit => hall it (by simp [hit])
        have hnd := nodup_of_hypJ mks ds mk hd hmk halld
        obtain ⟨merged, hrr, h1, h2⟩ := listmap_spec mks xs l ds mk r hdet hnd h
        subst hrr
        have hsx := (scalarKeys_arr mks xs).mp hs
        apply laws_arr_core mks mk xs l (.arr ds) merged rfl hdet
        · refine { hnx := nodup_of_hypJ mks xs mk ho hmk hallx, hnd := hnd, h1 := h1, h2 := h2, hkey := ?_ }
          intro it hit m hm
          obtain ⟨m', hm', hmm⟩ := h1 it hit
          rw [hm] at hm'; cases hm'
          obtain ⟨kvs, hkvs, hk⟩ := halld it hit
          subst hkvs
          have hu := ((hypJ_obj mks kvs).mp (hdi _ hit)).1
          obtain ⟨mkv, hmkv, _, hkk⟩ := merge_obj_keys mks _ _ kvs m hu hmm
          subst hmkv
          have hsp : scalarKeys mks ((lookup (keyOf mk (J.obj kvs)) (prunedMap mk xs (lastArr l) ds)).getD .null) = true := by
            cases hl : lookup (keyOf mk (J.obj kvs)) (prunedMap mk xs (lastArr l) ds) with
            | none => rfl
            | some v => exact hsx v (lookup_prunedMap_some mk xs _ ds _ v hl).1
          rw [keyOf_obj, keyOf_obj, hkk mk hmk hsp hk]
        · exact nodup_lastArr mks l mk hl hmk halll
        · exact fun x hx => hypJ_wfB mks x (hoi x hx)
        · exact fun it hit => hypJ_wfB mks it (hdi it hit)
        · intro x hx it hit m lo hmm hlo
          subst hlo
          exact ih it hit x _ m (hoi x hx) (hypO_findItem mks l mk _ hl) (hdi it hit) (hsx x hx) hmm

end Mc.C05
