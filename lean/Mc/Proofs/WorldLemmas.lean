import Mc.World
import Mc.Proofs.ApiLemmas
import Std.Data.String.ToNat
/-
  The store as a whole: what one request of any client changes, the token invariants
  (resourceVersions and UIDs are issued once), and what they protect.
-/
namespace Mc
namespace Api

theorem findObj_setObj (t t' : Target) : ∀ (objs : List (Target × J)) (o : Option J),
    findObj t' (setObj t o objs) = if t' = t then o else findObj t' objs := by
  intro objs
  induction objs with
  | nil =>
    intro o
    cases o with
    | none => simp [setObj, findObj]
    | some v =>
      by_cases h : t' = t
      · subst h; simp [setObj, findObj]
      · have h' : ¬ t = t' := fun e => h e.symm
        simp [setObj, findObj, h, h']
  | cons hd tl ih =>
    obtain ⟨t1, x⟩ := hd
    intro o
    by_cases h1 : t1 = t
    · subst h1
      cases o with
      | none =>
        simp only [setObj, if_true]
        rw [ih none]
        by_cases h : t' = t1
        · simp [h]
        · have h' : ¬ t1 = t' := fun e => h e.symm
          simp [findObj, h, h']
      | some v =>
        simp only [setObj, if_true]
        by_cases h : t' = t1
        · subst h; simp [findObj]
        · have h' : ¬ t1 = t' := fun e => h e.symm
          simp only [findObj, h', if_false, h]
          rw [ih none]; simp [h]
    · simp only [setObj, h1, if_false]
      by_cases h : t1 = t'
      · subst h
        have : ¬ t1 = t := h1
        simp [findObj, this]
      · simp only [findObj, h, if_false]
        exact ih o

/-- the outcome and the successor state of one request -/
theorem request_find (s : State) (v : Verb) (t : Target) (body opts : J) (t' : Target) :
    (s.request v t body opts).2.find t' = if t' = t then (s.request v t body opts).1.post else s.find t' := by
  unfold State.request
  cases hd : s.defOf t with
  | none =>
    simp only [State.find]
    by_cases h : t' = t
    · subst h; simp [fail, State.find]
    · simp [h]
  | some d =>
    simp only [State.find]
    exact findObj_setObj _ _ _ _

theorem request_rv (s : State) (v : Verb) (t : Target) (body opts : J) :
    (s.request v t body opts).2.rv = s.rv + 1 := by
  unfold State.request
  cases s.defOf t <;> simp

theorem request_uid (s : State) (v : Verb) (t : Target) (body opts : J) :
    (s.request v t body opts).2.uid = s.uid + 1 := by
  unfold State.request
  cases s.defOf t <;> simp

/-- the object a request leaves at its target: untouched, gone, or stamped with the next resourceVersion -/
theorem request_shape (s : State) (v : Verb) (t : Target) (body opts : J) :
    (s.request v t body opts).1.post = s.find t ∨ (s.request v t body opts).1.post = none ∨
      ∃ o, (s.request v t body opts).1.post = some o ∧ mstr o "resourceVersion" = rvTok (s.rv + 1) := by
  unfold State.request
  cases s.defOf t with
  | none => exact .inl rfl
  | some d => exact handle_shape d v t (s.find t) body opts _ s.fresh

theorem request_uid_kept (s : State) (v : Verb) (t : Target) (body opts : J) (c p : J)
    (hc : s.find t = some c) (hp : (s.request v t body opts).1.post = some p) : mstr p "uid" = mstr c "uid" := by
  unfold State.request at hp
  cases hd : s.defOf t with
  | none => simp [hd, fail, hc] at hp; subst hp; rfl
  | some d =>
    simp only [hd, hc] at hp
    exact handle_uid_kept d v t c body opts _ s.fresh p hp

theorem request_uid_new (s : State) (v : Verb) (t : Target) (body opts : J) (p : J)
    (hc : s.find t = none) (hp : (s.request v t body opts).1.post = some p) : mstr p "uid" = uidTok (s.uid + 1) := by
  unfold State.request at hp
  cases hd : s.defOf t with
  | none => simp [hd, fail, hc] at hp
  | some d =>
    simp only [hd, hc] at hp
    exact handle_uid_new d v t body opts _ s.fresh p hp

theorem rvTok_inj {m n : Nat} (h : rvTok m = rvTok n) : m = n := Nat.repr_injective h

theorem uidTok_inj {m n : Nat} (h : uidTok m = uidTok n) : m = n := by
  unfold uidTok at h
  exact Nat.repr_injective ((String.append_right_inj _).mp h)

/-! ### invariants -/

/-- every stored object carries a resourceVersion / UID the server has issued -/
def Bounded (s : State) : Prop :=
  ∀ t o, s.find t = some o → (∃ n, n ≤ s.rv ∧ mstr o "resourceVersion" = rvTok n) ∧ (∃ n, n ≤ s.uid ∧ mstr o "uid" = uidTok n)

/-- no two stored objects share a resourceVersion or a UID -/
def Unique (s : State) : Prop :=
  ∀ t t' o o', s.find t = some o → s.find t' = some o' →
    (mstr o "resourceVersion" = mstr o' "resourceVersion" → t = t') ∧ (mstr o "uid" = mstr o' "uid" → t = t')

def Inv (s : State) : Prop := Bounded s ∧ Unique s

theorem inv_empty (defs : List ResDef) : Inv (emptyState defs) := by
  constructor
  · intro t o h; simp [emptyState, State.find, findObj] at h
  · intro t t' o o' h; simp [emptyState, State.find, findObj] at h


/-! ### one step of any client -/

theorem exec_find (s : State) (r : ApiReq) (t' : Target) :
    (s.exec r).find t' = if t' = r.t then (s.request r.v r.t r.body r.opts).1.post else s.find t' :=
  request_find s r.v r.t r.body r.opts t'

theorem exec_rv (s : State) (r : ApiReq) : (s.exec r).rv = s.rv + 1 := request_rv ..
theorem exec_uid (s : State) (r : ApiReq) : (s.exec r).uid = s.uid + 1 := request_uid ..

/-- what a stored object of the successor state is: an object of the old state under the same key, or the
    object the request left at its target -/
theorem exec_find_cases (s : State) (r : ApiReq) (t' : Target) (c : J) (h : (s.exec r).find t' = some c) :
    s.find t' = some c ∨
    (t' = r.t ∧ mstr c "resourceVersion" = rvTok (s.rv + 1) ∧
      ((∃ c0, s.find t' = some c0 ∧ mstr c "uid" = mstr c0 "uid") ∨ (s.find t' = none ∧ mstr c "uid" = uidTok (s.uid + 1)))) := by
  rw [exec_find] at h
  by_cases ht : t' = r.t
  · rw [if_pos ht] at h
    rcases request_shape s r.v r.t r.body r.opts with hs | hs | ⟨o, ho, hrv⟩
    · left; rw [ht, ← hs, h]
    · rw [hs] at h; cases h
    · rw [ho] at h; cases h
      right
      refine ⟨ht, hrv, ?_⟩
      cases hc : s.find r.t with
      | none => right; exact ⟨ht ▸ hc, request_uid_new s r.v r.t r.body r.opts _ hc ho⟩
      | some c0 => left; exact ⟨c0, ht ▸ hc, request_uid_kept s r.v r.t r.body r.opts c0 _ hc ho⟩
  · rw [if_neg ht] at h; exact .inl h

theorem inv_exec (s : State) (r : ApiReq) (h : Inv s) : Inv (s.exec r) := by
  obtain ⟨hb, hu⟩ := h
  have hb' : Bounded (s.exec r) := by
    intro t o ho
    rw [exec_rv, exec_uid]
    rcases exec_find_cases s r t o ho with h0 | ⟨_, hrv, huid⟩
    · obtain ⟨⟨n, hn, e⟩, ⟨m, hm, e'⟩⟩ := hb t o h0
      exact ⟨⟨n, by omega, e⟩, ⟨m, by omega, e'⟩⟩
    · refine ⟨⟨s.rv + 1, by omega, hrv⟩, ?_⟩
      rcases huid with ⟨c0, hc0, e⟩ | ⟨_, e⟩
      · obtain ⟨_, ⟨m, hm, e'⟩⟩ := hb t c0 hc0
        exact ⟨m, by omega, e ▸ e'⟩
      · exact ⟨s.uid + 1, by omega, e⟩
  refine ⟨hb', ?_⟩
  intro t t' o o' ho ho'
  rcases exec_find_cases s r t o ho with h0 | ⟨ht, hrv, huid⟩ <;>
  rcases exec_find_cases s r t' o' ho' with h0' | ⟨ht', hrv', huid'⟩
  · exact hu t t' o o' h0 h0'
  · -- o old, o' freshly written at r.t
    constructor
    · intro e
      obtain ⟨⟨n, hn, en⟩, _⟩ := hb t o h0
      have := rvTok_inj (en.symm.trans (e.trans hrv'))
      omega
    · intro e
      rcases huid' with ⟨c0, hc0, e0⟩ | ⟨_, e0⟩
      · exact (hu t t' o c0 h0 hc0).2 (e.trans e0)
      · obtain ⟨_, ⟨m, hm, em⟩⟩ := hb t o h0
        have := uidTok_inj (em.symm.trans (e.trans e0))
        omega
  · constructor
    · intro e
      obtain ⟨⟨n, hn, en⟩, _⟩ := hb t' o' h0'
      have := rvTok_inj (en.symm.trans (e.symm.trans hrv))
      omega
    · intro e
      rcases huid with ⟨c0, hc0, e0⟩ | ⟨_, e0⟩
      · exact (hu t t' c0 o' hc0 h0').2 (e0.symm.trans e)
      · obtain ⟨_, ⟨m, hm, em⟩⟩ := hb t' o' h0'
        have := uidTok_inj (em.symm.trans (e.symm.trans e0))
        omega
  · exact ⟨fun _ => ht.trans ht'.symm, fun _ => ht.trans ht'.symm⟩

theorem execs_nil (s : State) : s.execs [] = s := rfl
theorem execs_cons (s : State) (r : ApiReq) (rs : List ApiReq) : s.execs (r :: rs) = (s.exec r).execs rs := rfl
theorem execs_append (s : State) (a b : List ApiReq) : s.execs (a ++ b) = (s.execs a).execs b := by
  simp [State.execs, List.foldl_append]

theorem inv_execs (rs : List ApiReq) : ∀ s : State, Inv s → Inv (s.execs rs) := by
  induction rs with
  | nil => intro s h; exact h
  | cons r rs ih => intro s h; exact ih _ (inv_exec s r h)

/-- every state the server can reach from an empty store satisfies the invariant -/
theorem inv_reachable (defs : List ResDef) (rs : List ApiReq) : Inv ((emptyState defs).execs rs) :=
  inv_execs rs _ (inv_empty defs)

theorem Evolves.refl (s : State) : Evolves s s := ⟨[], rfl⟩
theorem Evolves.trans {a b c : State} (h1 : Evolves a b) (h2 : Evolves b c) : Evolves a c := by
  obtain ⟨r1, rfl⟩ := h1
  obtain ⟨r2, rfl⟩ := h2
  exact ⟨r1 ++ r2, (execs_append _ _ _).symm⟩
theorem Evolves.step (s : State) (r : ApiReq) : Evolves s (s.exec r) := ⟨[r], rfl⟩
theorem Evolves.inv {s s' : State} (h : Evolves s s') (hi : Inv s) : Inv s' := by
  obtain ⟨rs, rfl⟩ := h; exact inv_execs rs s hi

/-! ### what the tokens protect -/

/-- `o` was seen under `t`; nothing else carries, or will ever carry, its resourceVersion -/
def RvProt (t : Target) (o : J) (n0 : Nat) (s : State) : Prop :=
  n0 ≤ s.rv ∧ ∀ t' c, s.find t' = some c → mstr c "resourceVersion" = mstr o "resourceVersion" → t' = t ∧ c = o

theorem rvProt_init (s : State) (h : Inv s) (t : Target) (o : J) (ho : s.find t = some o) : RvProt t o s.rv s := by
  refine ⟨Nat.le_refl _, ?_⟩
  intro t' c hc e
  have ht := (h.2 t' t c o hc ho).1 e
  subst ht
  rw [hc] at ho; cases ho
  exact ⟨rfl, rfl⟩

theorem rvProt_exec (t : Target) (o : J) (n n0 : Nat) (hn : mstr o "resourceVersion" = rvTok n) (hle : n ≤ n0)
    (s : State) (r : ApiReq) (h : RvProt t o n0 s) : RvProt t o n0 (s.exec r) := by
  obtain ⟨h1, h2⟩ := h
  refine ⟨by rw [exec_rv]; omega, ?_⟩
  intro t' c hc e
  rcases exec_find_cases s r t' c hc with h0 | ⟨_, hrv, _⟩
  · exact h2 t' c h0 e
  · have := rvTok_inj (hrv.symm.trans (e.trans hn))
    omega

theorem rvProt_execs (t : Target) (o : J) (n n0 : Nat) (hn : mstr o "resourceVersion" = rvTok n) (hle : n ≤ n0)
    (rs : List ApiReq) : ∀ s : State, RvProt t o n0 s → RvProt t o n0 (s.execs rs) := by
  induction rs with
  | nil => intro s h; exact h
  | cons r rs ih => intro s h; exact ih _ (rvProt_exec t o n n0 hn hle s r h)

/-- **stale-version protection**: once `o` has been stored under `t`, an object with its resourceVersion found
    later - after any requests by anybody - is `o` itself, under `t` -/
theorem rv_identifies (s : State) (h : Inv s) (t : Target) (o : J) (ho : s.find t = some o) (env : List ApiReq)
    (t' : Target) (c : J) (hc : (s.execs env).find t' = some c)
    (e : mstr c "resourceVersion" = mstr o "resourceVersion") : t' = t ∧ c = o := by
  obtain ⟨⟨n, hn, en⟩, _⟩ := h.1 t o ho
  exact (rvProt_execs t o n s.rv en hn env s (rvProt_init s h t o ho)).2 t' c hc e

/-- `o` was seen under `t`; its UID stays with that key -/
def UidProt (t : Target) (o : J) (n0 : Nat) (s : State) : Prop :=
  n0 ≤ s.uid ∧ ∀ t' c, s.find t' = some c → mstr c "uid" = mstr o "uid" → t' = t

theorem uidProt_init (s : State) (h : Inv s) (t : Target) (o : J) (ho : s.find t = some o) : UidProt t o s.uid s :=
  ⟨Nat.le_refl _, fun t' c hc e => (h.2 t' t c o hc ho).2 e⟩

theorem uidProt_exec (t : Target) (o : J) (n n0 : Nat) (hn : mstr o "uid" = uidTok n) (hle : n ≤ n0)
    (s : State) (r : ApiReq) (h : UidProt t o n0 s) : UidProt t o n0 (s.exec r) := by
  obtain ⟨h1, h2⟩ := h
  refine ⟨by rw [exec_uid]; omega, ?_⟩
  intro t' c hc e
  rcases exec_find_cases s r t' c hc with h0 | ⟨_, _, huid⟩
  · exact h2 t' c h0 e
  · rcases huid with ⟨c0, hc0, e0⟩ | ⟨_, e0⟩
    · exact h2 t' c0 hc0 (e0.symm.trans e)
    · have := uidTok_inj (e0.symm.trans (e.trans hn))
      omega

theorem uidProt_execs (t : Target) (o : J) (n n0 : Nat) (hn : mstr o "uid" = uidTok n) (hle : n ≤ n0)
    (rs : List ApiReq) : ∀ s : State, UidProt t o n0 s → UidProt t o n0 (s.execs rs) := by
  induction rs with
  | nil => intro s h; exact h
  | cons r rs ih => intro s h; exact ih _ (uidProt_exec t o n n0 hn hle s r h)

/-- an object with the UID of `o` (seen under `t`) is, whenever it is found later, under `t` -/
theorem uid_identifies (s : State) (h : Inv s) (t : Target) (o : J) (ho : s.find t = some o) (env : List ApiReq)
    (t' : Target) (c : J) (hc : (s.execs env).find t' = some c) (e : mstr c "uid" = mstr o "uid") : t' = t := by
  obtain ⟨_, ⟨n, hn, en⟩⟩ := h.1 t o ho
  exact (uidProt_execs t o n s.uid en hn env s (uidProt_init s h t o ho)).2 t' c hc e

/-- the UID of `o` is not in the store, and never will be again -/
def UidGone (o : J) (n0 : Nat) (s : State) : Prop :=
  n0 ≤ s.uid ∧ ∀ t' c, s.find t' = some c → mstr c "uid" ≠ mstr o "uid"

theorem uidGone_exec (o : J) (n n0 : Nat) (hn : mstr o "uid" = uidTok n) (hle : n ≤ n0)
    (s : State) (r : ApiReq) (h : UidGone o n0 s) : UidGone o n0 (s.exec r) := by
  obtain ⟨h1, h2⟩ := h
  refine ⟨by rw [exec_uid]; omega, ?_⟩
  intro t' c hc e
  rcases exec_find_cases s r t' c hc with h0 | ⟨_, _, huid⟩
  · exact h2 t' c h0 e
  · rcases huid with ⟨c0, hc0, e0⟩ | ⟨_, e0⟩
    · exact h2 t' c0 hc0 (e0.symm.trans e)
    · have := uidTok_inj (e0.symm.trans (e.trans hn))
      omega

theorem uidGone_execs (o : J) (n n0 : Nat) (hn : mstr o "uid" = uidTok n) (hle : n ≤ n0)
    (rs : List ApiReq) : ∀ s : State, UidGone o n0 s → UidGone o n0 (s.execs rs) := by
  induction rs with
  | nil => intro s h; exact h
  | cons r rs ih => intro s h; exact ih _ (uidGone_exec o n n0 hn hle s r h)

theorem uid_mono (rs : List ApiReq) : ∀ s : State, s.uid ≤ (s.execs rs).uid := by
  induction rs with
  | nil => intro s; exact Nat.le_refl _
  | cons r rs ih => intro s; have := ih (s.exec r); rw [exec_uid] at this; rw [execs_cons]; omega

end Api
end Mc
