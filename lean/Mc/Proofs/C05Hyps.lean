import Mc.Spec.C05
import Mc.Proofs.ListMapLemmas
/-
  Extra hypothesis predicates used by the C05 theorems, and decomposition lemmas for
  `hypJ` / `scalarKeys`.
-/
set_option linter.unusedSimpArgs false
namespace Mc.C05

-- "desired has no explicit null where observed has an array": the arr/null branch of `merge`
-- is not idempotent (see `C05_idempotent_null_counterexample`). Structural on desired.
-- For arrays every observed item is paired with every desired item (the pairing made by the
-- list-map merge depends on `l` and on the detected key; this is the simple upper bound).
mutual
def noNullOverArr : J → J → Bool
  | .arr _, .null => false
  | .obj os, .obj ds => noNullF os ds
  | .arr xs, .arr ds => noNullL xs ds
  | _, _ => true
termination_by structural _ d => d
def noNullF (os : KVs) : KVs → Bool
  | [] => true
  | (k, v) :: rest => noNullOverArr ((lookup k os).getD .null) v && noNullF os rest
termination_by structural ds => ds
def noNullL (xs : List J) : List J → Bool
  | [] => true
  | d :: rest => xs.all (fun x => noNullOverArr x d) && noNullL xs rest
termination_by structural ds => ds
end

theorem noNullOverArr_scalar (o d : J) (ha : o.isArr = false) (ho : o.isObj = false) : noNullOverArr o d = true := by
  cases o <;> simp [J.isArr, J.isObj] at ha ho <;> cases d <;> simp [noNullOverArr]

theorem noNullF_mem (os : KVs) : ∀ (ds : KVs), noNullF os ds = true → ∀ k v, (k, v) ∈ ds →
    noNullOverArr ((lookup k os).getD .null) v = true := by
  intro ds
  induction ds with
  | nil => intro _ k v h; simp at h
  | cons hd tl ih =>
    obtain ⟨k', v'⟩ := hd
    intro h k v hm
    simp only [noNullF, Bool.and_eq_true] at h
    simp at hm
    rcases hm with ⟨rfl, rfl⟩ | hm
    · exact h.1
    · exact ih h.2 k v hm

theorem noNullL_mem (xs : List J) : ∀ (ds : List J), noNullL xs ds = true → ∀ x ∈ xs, ∀ d ∈ ds,
    noNullOverArr x d = true := by
  intro ds
  induction ds with
  | nil => intro _ x _ d h; simp at h
  | cons hd tl ih =>
    intro h x hx d hd'
    simp only [noNullL, Bool.and_eq_true, List.all_eq_true] at h
    simp at hd'
    rcases hd' with rfl | hd'
    · exact h.1 x hx
    · exact ih h.2 x hx d hd'

/-! ### hypJ -/

theorem uniqUnder_iff (mk : String) (xs : List J) : uniqUnder mk xs = true ↔ (xs.map (keyOf mk)).Nodup := by
  unfold uniqUnder; exact nodup_of_eraseDups _

theorem hypFields_iff (mks : List String) : ∀ kvs : KVs, hypFields mks kvs = true ↔ ∀ k v, (k, v) ∈ kvs → hypJ mks v = true := by
  intro kvs
  induction kvs with
  | nil => simp [hypFields]
  | cons hd tl ih =>
    obtain ⟨k', v'⟩ := hd
    simp only [hypFields, Bool.and_eq_true, ih]
    constructor
    · intro ⟨h1, h2⟩ k v hm
      simp at hm
      rcases hm with ⟨_, rfl⟩ | hm
      · exact h1
      · exact h2 k v hm
    · intro h
      exact ⟨h k' v' (by simp), fun k v hm => h k v (by simp [hm])⟩

theorem hypList_iff (mks : List String) : ∀ xs : List J, hypList mks xs = true ↔ ∀ x ∈ xs, hypJ mks x = true := by
  intro xs
  induction xs with
  | nil => simp [hypList]
  | cons hd tl ih =>
    simp only [hypList, Bool.and_eq_true, ih]
    constructor
    · intro ⟨h1, h2⟩ x hm
      simp at hm
      rcases hm with rfl | hm
      · exact h1
      · exact h2 x hm
    · intro h
      exact ⟨h hd (by simp), fun x hm => h x (by simp [hm])⟩

theorem hypJ_obj (mks : List String) (kvs : KVs) :
    hypJ mks (.obj kvs) = true ↔ uniq kvs ∧ ∀ k v, (k, v) ∈ kvs → hypJ mks v = true := by
  simp only [hypJ, Bool.and_eq_true, uniqB_iff, hypFields_iff]

theorem hypJ_arr (mks : List String) (xs : List J) :
    hypJ mks (.arr xs) = true ↔
      (∀ mk ∈ sharedKeys mks xs, (xs.map (keyOf mk)).Nodup) ∧ ∀ x ∈ xs, hypJ mks x = true := by
  simp only [hypJ, Bool.and_eq_true, List.all_eq_true, uniqUnder_iff, hypList_iff]

theorem sharedKeys_eq (mks : List String) (xs : List J) :
    sharedKeys mks xs = if xs.isEmpty || !(xs.all J.isObj) then [] else mks.filter (sharedIn xs) := by
  unfold sharedKeys
  rw [commonKeys_eq]
  simp only [List.flatten_cons, List.flatten_nil, List.append_nil]
  cases xs with
  | nil => simp
  | cons it rest =>
    by_cases ha : (it :: rest).all J.isObj = true
    · simp only [ha, if_true, List.isEmpty_cons, Bool.not_true, Bool.or_false, Bool.false_eq_true, if_false]
      apply List.filter_congr
      intro k _
      rw [sharedIn_cons, Bool.eq_iff_iff]
      simp only [List.contains_iff_mem, List.mem_filter, Bool.and_eq_true]
      rw [← hasKey_iff_mem_keys]
    · simp only [ha, if_false]
      simp at ha ⊢

theorem mem_sharedKeys (mks : List String) (xs : List J) (mk : String) (hmk : mk ∈ mks) (hne : xs ≠ [])
    (hall : ∀ it ∈ xs, ∃ kvs, it = .obj kvs ∧ hasKey mk kvs = true) : mk ∈ sharedKeys mks xs := by
  rw [sharedKeys_eq]
  have h1 : xs.isEmpty = false := by
    cases xs with
    | nil => exact absurd rfl hne
    | cons _ _ => rfl
  have h2 : xs.all J.isObj = true := by
    rw [List.all_eq_true]; intro it hit
    obtain ⟨kvs, rfl, _⟩ := hall it hit; rfl
  simp only [h1, h2, Bool.not_true, Bool.or_false, Bool.false_eq_true, if_false, List.mem_filter]
  refine ⟨hmk, ?_⟩
  unfold sharedIn; rw [List.all_eq_true]; intro it hit
  obtain ⟨kvs, rfl, hk⟩ := hall it hit; exact hk

/-- the uniqueness part of `hypJ` for a key shared by all items -/
theorem nodup_of_hypJ (mks : List String) (xs : List J) (mk : String) (h : hypJ mks (.arr xs) = true)
    (hmk : mk ∈ mks) (hall : ∀ it ∈ xs, ∃ kvs, it = .obj kvs ∧ hasKey mk kvs = true) :
    (xs.map (keyOf mk)).Nodup := by
  cases xs with
  | nil => simp
  | cons it rest =>
    exact ((hypJ_arr mks _).mp h).1 mk (mem_sharedKeys mks _ mk hmk (by simp) hall)

theorem hypJ_wfB (mks : List String) : ∀ j : J, hypJ mks j = true → j.wfB = true := by
  intro j
  induction j using J.induct with
  | hnull => intro _; rfl
  | hbool b => intro _; rfl
  | hnum n => intro _; rfl
  | hstr s => intro _; rfl
  | harr xs ih =>
    intro h
    rw [hypJ_arr] at h
    rw [wfB_arr]
    exact fun x hx => ih x hx (h.2 x hx)
  | hobj kvs ih =>
    intro h
    rw [hypJ_obj] at h
    rw [wfB_obj]
    exact ⟨h.1, fun k v hm => ih k v hm (h.2 k v hm)⟩

/-! ### scalarKeys -/

theorem scalarKeysF_iff (mks : List String) : ∀ kvs : KVs, scalarKeysF mks kvs = true ↔ ∀ k v, (k, v) ∈ kvs → scalarKeys mks v = true := by
  intro kvs
  induction kvs with
  | nil => simp [scalarKeysF]
  | cons hd tl ih =>
    obtain ⟨k', v'⟩ := hd
    simp only [scalarKeysF, Bool.and_eq_true, ih]
    constructor
    · intro ⟨h1, h2⟩ k v hm
      simp at hm
      rcases hm with ⟨_, rfl⟩ | hm
      · exact h1
      · exact h2 k v hm
    · intro h
      exact ⟨h k' v' (by simp), fun k v hm => h k v (by simp [hm])⟩

theorem scalarKeysL_iff (mks : List String) : ∀ xs : List J, scalarKeysL mks xs = true ↔ ∀ x ∈ xs, scalarKeys mks x = true := by
  intro xs
  induction xs with
  | nil => simp [scalarKeysL]
  | cons hd tl ih =>
    simp only [scalarKeysL, Bool.and_eq_true, ih]
    constructor
    · intro ⟨h1, h2⟩ x hm
      simp at hm
      rcases hm with rfl | hm
      · exact h1
      · exact h2 x hm
    · intro h
      exact ⟨h hd (by simp), fun x hm => h x (by simp [hm])⟩

theorem scalarKeys_arr (mks : List String) (xs : List J) :
    scalarKeys mks (.arr xs) = true ↔ ∀ x ∈ xs, scalarKeys mks x = true := by
  simp only [scalarKeys, scalarKeysL_iff]

theorem scalarKeys_obj (mks : List String) (kvs : KVs) :
    scalarKeys mks (.obj kvs) = true ↔
      (∀ k v, (k, v) ∈ kvs → k ∈ mks → v.isObj = false ∧ v.isArr = false) ∧
      ∀ k v, (k, v) ∈ kvs → scalarKeys mks v = true := by
  simp only [scalarKeys, Bool.and_eq_true, scalarKeysF_iff, List.all_eq_true]
  constructor
  · intro ⟨h1, h2⟩
    refine ⟨?_, h2⟩
    intro k v hm hk
    have := h1 (k, v) hm
    simp only [List.contains_iff_mem] at this
    simp [hk] at this
    exact this
  · intro ⟨h1, h2⟩
    refine ⟨?_, h2⟩
    intro ⟨k, v⟩ hm
    by_cases hk : k ∈ mks
    · have := h1 k v hm hk
      simp [this.1, this.2]
    · simp [hk]

/-- the value an observed object holds (or not) at a merge key is never composite -/
theorem scalarKeys_getD (mks : List String) (x : J) (mk : String) (hs : scalarKeys mks x = true) (hmk : mk ∈ mks) :
    ((lookup mk x.fields).getD .null).isObj = false ∧ ((lookup mk x.fields).getD .null).isArr = false := by
  cases hl : lookup mk x.fields with
  | none => exact ⟨rfl, rfl⟩
  | some v =>
    cases x with
    | obj kvs =>
      rw [scalarKeys_obj] at hs
      exact hs.1 mk v (lookup_mem _ _ _ hl) hmk
    | null | bool _ | num _ | str _ | arr _ => simp [J.fields] at hl

theorem scalarKeys_field (mks : List String) (kvs : KVs) (k : String) (hs : scalarKeys mks (.obj kvs) = true) :
    scalarKeys mks ((lookup k kvs).getD .null) = true := by
  cases hl : lookup k kvs with
  | none => rfl
  | some v => rw [scalarKeys_obj] at hs; exact hs.2 k v (lookup_mem _ _ _ hl)

theorem keyOf_obj (mk : String) (kvs : KVs) : keyOf mk (.obj kvs) = stringMergeKey ((lookup mk kvs).getD .null) := rfl


/-- merging an observed object whose merge-key values are scalars with a desired object keeps
    the desired value under every conventional key, and keeps every desired key -/
theorem merge_obj_keys (mks : List String) (x : J) (l : Option J) (dkv : KVs) (m : J)
    (hu : uniq dkv) (h : merge mks x l (.obj dkv) = .ok m) :
    ∃ mkv, m = .obj mkv ∧ (∀ k, hasKey k dkv = true → hasKey k mkv = true) ∧
      (∀ mk', mk' ∈ mks → scalarKeys mks x = true → hasKey mk' dkv = true → lookup mk' mkv = lookup mk' dkv) := by
  cases x with
  | obj xkv =>
    rw [merge_obj_obj] at h
    obtain ⟨rk, hr, h1, _⟩ := mergeFields_spec mks _ dkv _ m hu h
    refine ⟨rk, hr, ?_, ?_⟩
    · intro k hk
      rw [hasKey_true_iff] at hk
      obtain ⟨v, hv⟩ := hk
      obtain ⟨m', hm', _⟩ := h1 k v (lookup_mem _ _ _ hv)
      exact hasKey_of_lookup hm'
    · intro mk' hmk hs hk
      rw [hasKey_true_iff] at hk
      obtain ⟨dv, hdv⟩ := hk
      obtain ⟨m', hm', hmm⟩ := h1 mk' dv (lookup_mem _ _ _ hdv)
      rw [lookup_prune_of_hasKey _ _ _ _ (hasKey_of_lookup hdv)] at hmm
      have hsc := scalarKeys_getD mks (.obj xkv) mk' hs hmk
      simp only [J.fields] at hsc
      rw [merge_scalar _ _ _ _ hsc.1 hsc.2] at hmm
      cases hmm
      rw [hm', hdv]
  | arr xs =>
    rw [merge_arr_other _ _ _ _ rfl rfl] at h; cases h
  | null | bool _ | num _ | str _ =>
    rw [merge_scalar _ _ _ _ rfl rfl] at h; cases h
    exact ⟨dkv, rfl, fun _ hk => hk, fun _ _ _ _ => rfl⟩


end Mc.C05
