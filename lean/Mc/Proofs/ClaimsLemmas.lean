import Mc.Sync.Rolling
/-
  Helper lemmas for C07 (rolling updates): the claim map (`Claims.get` / `Claims.set`) and the
  invariants of `filterNames` / `filterGroups` / `syncRevisionClaims`.
  Core Lean only.
-/
namespace Mc

/-- key of the claim map: (`claimKey apiGroup kind`, name) -/
abbrev CKey := String × String

def Claims.getK (cl : Claims) (κ : CKey) : Option Nat := (cl.find? (fun e => e.1 == κ)).map (·.2)

def Claims.setK (cl : Claims) (κ : CKey) (i : Nat) : Claims :=
  cl.filter (fun e => !(e.1 == κ)) ++ [(κ, i)]

theorem Claims.get_eq_getK (cl : Claims) (a k n : String) : cl.get a k n = cl.getK (claimKey a k, n) := rfl

theorem Claims.set_eq_setK (cl : Claims) (a k n : String) (i : Nat) :
    cl.set a k n i = cl.setK (claimKey a k, n) i := rfl

@[simp] theorem Claims.getK_nil (κ : CKey) : Claims.getK [] κ = none := rfl

theorem Claims.getK_setK_same (cl : Claims) (κ : CKey) (i : Nat) : (cl.setK κ i).getK κ = some i := by
  unfold Claims.getK Claims.setK
  rw [List.find?_append]
  have h : List.find? (fun e : CKey × Nat => e.1 == κ) (cl.filter (fun e => !(e.1 == κ))) = none := by
    rw [List.find?_eq_none]
    intro e he
    have := (List.mem_filter.mp he).2
    simpa using this
  rw [h]
  simp

theorem Claims.getK_setK_other (cl : Claims) (κ κ' : CKey) (i : Nat) (h : κ' ≠ κ) :
    (cl.setK κ i).getK κ' = cl.getK κ' := by
  unfold Claims.getK Claims.setK
  rw [List.find?_append]
  have hne : (κ == κ') = false := by simpa using Ne.symm h
  have h2 : List.find? (fun e : CKey × Nat => e.1 == κ') [(κ, i)] = none := by
    simp [List.find?, hne]
  rw [h2, Option.or_none, List.find?_filter]
  congr 2
  funext e
  by_cases he : e.1 = κ'
  · have : ¬ e.1 = κ := by rw [he]; exact h
    simp [he, h]
  · simp [he]

theorem Claims.getK_setK (cl : Claims) (κ κ' : CKey) (i : Nat) :
    (cl.setK κ i).getK κ' = if κ' = κ then some i else cl.getK κ' := by
  by_cases h : κ' = κ
  · subst h; simp [Claims.getK_setK_same]
  · simp [h, Claims.getK_setK_other _ _ _ _ h]

/-- `Claims.get` after `Claims.set`, same key -/
theorem Claims.get_set_same (cl : Claims) (a k n : String) (i : Nat) :
    (cl.set a k n i).get a k n = some i := by
  rw [Claims.get_eq_getK, Claims.set_eq_setK, Claims.getK_setK_same]

/-- `Claims.get` after `Claims.set`, other key (keys are compared as `(claimKey apiGroup kind, name)`) -/
theorem Claims.get_set_other (cl : Claims) (a k n a' k' n' : String) (i : Nat)
    (h : (claimKey a' k', n') ≠ (claimKey a k, n)) :
    (cl.set a k n i).get a' k' n' = cl.get a' k' n' := by
  rw [Claims.get_eq_getK, Claims.set_eq_setK, Claims.getK_setK_other _ _ _ _ h, Claims.get_eq_getK]

/-! ### one step of claiming: a list of fresh, distinct keys is added, everything else is kept -/

structure ClaimStep (cl cl' : Claims) (ks : List CKey) : Prop where
  /-- the keys claimed by the step were not claimed before -/
  fresh : ∀ κ ∈ ks, cl.getK κ = none
  /-- no key is claimed twice -/
  nodup : ks.Nodup
  /-- every other key keeps its claim (or absence of claim) -/
  frame : ∀ κ, κ ∉ ks → cl'.getK κ = cl.getK κ
  /-- the keys are claimed afterwards -/
  claimed : ∀ κ ∈ ks, (cl'.getK κ).isSome = true

theorem ClaimStep.refl (cl : Claims) : ClaimStep cl cl [] :=
  ⟨by simp, List.nodup_nil, fun _ _ => rfl, by simp⟩

theorem ClaimStep.disjoint {cl cl1 cl2 : Claims} {ks1 ks2 : List CKey}
    (h1 : ClaimStep cl cl1 ks1) (h2 : ClaimStep cl1 cl2 ks2) : ∀ κ, κ ∈ ks1 → κ ∈ ks2 → False := by
  intro κ m1 m2
  have a := h1.claimed κ m1
  rw [h2.fresh κ m2] at a
  simp at a

theorem ClaimStep.trans {cl cl1 cl2 : Claims} {ks1 ks2 : List CKey}
    (h1 : ClaimStep cl cl1 ks1) (h2 : ClaimStep cl1 cl2 ks2) : ClaimStep cl cl2 (ks1 ++ ks2) := by
  have hd := ClaimStep.disjoint h1 h2
  refine ⟨?_, ?_, ?_, ?_⟩
  · intro κ hk
    rcases List.mem_append.mp hk with m | m
    · exact h1.fresh κ m
    · rw [← h1.frame κ (fun m1 => hd κ m1 m)]; exact h2.fresh κ m
  · rw [List.nodup_append]
    refine ⟨h1.nodup, h2.nodup, ?_⟩
    intro a ha b hb hab
    subst hab
    exact hd a ha hb
  · intro κ hk
    have hk1 : κ ∉ ks1 := fun m => hk (List.mem_append.mpr (Or.inl m))
    have hk2 : κ ∉ ks2 := fun m => hk (List.mem_append.mpr (Or.inr m))
    rw [h2.frame κ hk2, h1.frame κ hk1]
  · intro κ hk
    rcases List.mem_append.mp hk with m | m
    · rw [h2.frame κ (fun m2 => hd κ m m2)]; exact h1.claimed κ m
    · exact h2.claimed κ m

/-- a claim, once made, is never changed by later steps -/
theorem ClaimStep.mono {cl cl' : Claims} {ks : List CKey} (h : ClaimStep cl cl' ks) {κ : CKey} {v : Nat}
    (hv : cl.getK κ = some v) : cl'.getK κ = some v := by
  have hk : κ ∉ ks := by
    intro m
    rw [h.fresh κ m] at hv
    simp at hv
  rw [h.frame κ hk, hv]

theorem ClaimStep.set {cl : Claims} {κ : CKey} (i : Nat) (h : cl.getK κ = none) :
    ClaimStep cl (cl.setK κ i) [κ] := by
  refine ⟨?_, ?_, ?_, ?_⟩
  · intro κ' hk
    rw [List.mem_singleton] at hk
    rw [hk]; exact h
  · simp
  · intro κ' hk
    rw [List.mem_singleton] at hk
    exact Claims.getK_setK_other _ _ _ _ hk
  · intro κ' hk
    rw [List.mem_singleton] at hk
    rw [hk, Claims.getK_setK_same]; rfl

/-- with an empty starting map, exactly the keys of the step are claimed -/
theorem ClaimStep.of_nil {cl' : Claims} {ks : List CKey} (h : ClaimStep [] cl' ks) (κ : CKey) :
    (cl'.getK κ).isSome = true ↔ κ ∈ ks := by
  constructor
  · intro hs
    apply Classical.byContradiction
    intro hk
    rw [h.frame κ hk] at hs
    simp at hs
  · exact h.claimed κ

/-! ### the keys held by groups / revisions -/

def CGroup.key (g : CGroup) (n : String) : CKey := (claimKey g.apiGroup g.kind, n)

def CGroup.keys (g : CGroup) : List CKey := g.names.map g.key

def groupsKeys (gs : List CGroup) : List CKey := gs.flatMap CGroup.keys

def revsKeys (prs : List PRev) : List CKey := prs.flatMap (fun p => groupsKeys p.children)

theorem mem_groupsKeys {gs : List CGroup} {κ : CKey} :
    κ ∈ groupsKeys gs ↔ ∃ g ∈ gs, ∃ n ∈ g.names, κ = (claimKey g.apiGroup g.kind, n) := by
  simp only [groupsKeys, List.mem_flatMap, CGroup.keys, List.mem_map, CGroup.key]
  constructor
  · rintro ⟨g, hg, n, hn, rfl⟩; exact ⟨g, hg, n, hn, rfl⟩
  · rintro ⟨g, hg, n, hn, rfl⟩; exact ⟨g, hg, n, hn, rfl⟩

theorem mem_revsKeys {prs : List PRev} {κ : CKey} :
    κ ∈ revsKeys prs ↔ ∃ p ∈ prs, κ ∈ groupsKeys p.children := by
  simp only [revsKeys, List.mem_flatMap]

/-! ### filterNames -/

theorem filterNames_nil (c : Cfg) (d : ObjMap) (g : CGroup) (i : Nat) (cl : Claims) :
    filterNames c d g i [] cl = ([], cl) := rfl

theorem filterNames_undesired (c : Cfg) (d : ObjMap) (g : CGroup) (i : Nat) (n : String) (rest : List String)
    (cl : Claims) (h : (d.findGK g.apiGroup g.kind n).isNone = true) :
    filterNames c d g i (n :: rest) cl = filterNames c d g i rest cl := by
  simp only [filterNames, h, if_true]

theorem filterNames_claimed (c : Cfg) (d : ObjMap) (g : CGroup) (i : Nat) (n : String) (rest : List String)
    (cl : Claims) (h : (d.findGK g.apiGroup g.kind n).isNone = false)
    (h2 : (cl.get g.apiGroup g.kind n).isSome = true) :
    filterNames c d g i (n :: rest) cl = filterNames c d g i rest cl := by
  simp only [filterNames, h, h2, if_true, Bool.false_eq_true, if_false]

theorem filterNames_keep (c : Cfg) (d : ObjMap) (g : CGroup) (i : Nat) (n : String) (rest : List String)
    (cl : Claims) (h : (d.findGK g.apiGroup g.kind n).isNone = false)
    (h2 : (cl.get g.apiGroup g.kind n).isSome = false) :
    filterNames c d g i (n :: rest) cl =
      (n :: (filterNames c d g i rest (cl.set g.apiGroup g.kind n i)).1,
       (filterNames c d g i rest (cl.set g.apiGroup g.kind n i)).2) := by
  simp only [filterNames, h, h2, Bool.false_eq_true, if_false]

/-- everything `filterNames` guarantees, for an arbitrary starting claim map -/
theorem filterNames_spec (c : Cfg) (d : ObjMap) (g : CGroup) (i : Nat) : ∀ (names : List String) (cl : Claims),
    (filterNames c d g i names cl).1.Sublist names ∧
    (∀ n ∈ (filterNames c d g i names cl).1, (d.findGK g.apiGroup g.kind n).isSome = true) ∧
    ClaimStep cl (filterNames c d g i names cl).2 ((filterNames c d g i names cl).1.map g.key) ∧
    (∀ n ∈ (filterNames c d g i names cl).1, (filterNames c d g i names cl).2.getK (g.key n) = some i) := by
  intro names
  induction names with
  | nil =>
    intro cl
    rw [filterNames_nil]
    exact ⟨List.Sublist.refl _, by simp, ClaimStep.refl cl, by simp⟩
  | cons n rest ih =>
    intro cl
    cases h : (d.findGK g.apiGroup g.kind n).isNone with
    | true =>
      rw [filterNames_undesired _ _ _ _ _ _ _ h]
      obtain ⟨a, b, c', e⟩ := ih cl
      exact ⟨List.Sublist.cons _ a, b, c', e⟩
    | false =>
      cases h2 : (cl.get g.apiGroup g.kind n).isSome with
      | true =>
        rw [filterNames_claimed _ _ _ _ _ _ _ h h2]
        obtain ⟨a, b, c', e⟩ := ih cl
        exact ⟨List.Sublist.cons _ a, b, c', e⟩
      | false =>
        rw [filterNames_keep _ _ _ _ _ _ _ h h2]
        obtain ⟨a, b, c', e⟩ := ih (cl.set g.apiGroup g.kind n i)
        have hnone : cl.getK (g.key n) = none := by
          rw [Claims.get_eq_getK] at h2
          cases hh : cl.getK (claimKey g.apiGroup g.kind, n) with
          | none => exact hh
          | some v => rw [hh] at h2; simp at h2
        have hset : ClaimStep cl (cl.set g.apiGroup g.kind n i) [g.key n] := ClaimStep.set i hnone
        refine ⟨List.Sublist.cons_cons _ a, ?_, ?_, ?_⟩
        · intro m hm
          rcases List.mem_cons.mp hm with rfl | hm
          · cases hh : d.findGK g.apiGroup g.kind m with
            | none => rw [hh] at h; simp at h
            | some v => rfl
          · exact b m hm
        · exact ClaimStep.trans hset c'
        · intro m hm
          rcases List.mem_cons.mp hm with rfl | hm
          · exact ClaimStep.mono c' (Claims.getK_setK_same _ _ _)
          · exact e m hm

/-! ### filterGroups -/

/-- `gs'` is obtained from `gs` by dropping whole groups and, in the kept ones, dropping names
    (order kept, kept groups are non-empty) -/
inductive SubGroups : List CGroup → List CGroup → Prop
  | nil : SubGroups [] []
  | drop (g : CGroup) {gs' gs : List CGroup} : SubGroups gs' gs → SubGroups gs' (g :: gs)
  | keep (g : CGroup) (names : List String) {gs' gs : List CGroup} :
      names.Sublist g.names → names ≠ [] → SubGroups gs' gs →
      SubGroups ({ g with names := names } :: gs') (g :: gs)

theorem SubGroups.mem {gs' gs : List CGroup} (h : SubGroups gs' gs) :
    ∀ g' ∈ gs', ∃ g ∈ gs, g'.apiGroup = g.apiGroup ∧ g'.kind = g.kind ∧ g'.names.Sublist g.names ∧ g'.names ≠ [] := by
  induction h with
  | nil => intro g' hg; simp at hg
  | drop g _ ih =>
    intro g' hg
    obtain ⟨g0, m, r⟩ := ih g' hg
    exact ⟨g0, List.mem_cons_of_mem _ m, r⟩
  | keep g names hs hne _ ih =>
    intro g' hg
    rcases List.mem_cons.mp hg with rfl | hg
    · exact ⟨g, List.mem_cons_self, rfl, rfl, hs, hne⟩
    · obtain ⟨g0, m, r⟩ := ih g' hg
      exact ⟨g0, List.mem_cons_of_mem _ m, r⟩

theorem SubGroups.length_le {gs' gs : List CGroup} (h : SubGroups gs' gs) : gs'.length ≤ gs.length := by
  induction h with
  | nil => exact Nat.le_refl _
  | drop g _ ih => simp only [List.length_cons]; omega
  | keep g names _ _ _ ih => simp only [List.length_cons]; omega

theorem filterGroups_nil (c : Cfg) (d : ObjMap) (i : Nat) (cl : Claims) :
    filterGroups c d i [] cl = ([], cl) := rfl

theorem filterGroups_notRolling (c : Cfg) (d : ObjMap) (i : Nat) (g : CGroup) (rest : List CGroup) (cl : Claims)
    (h : c.isRolling g.apiGroup g.kind = false) :
    filterGroups c d i (g :: rest) cl = filterGroups c d i rest cl := by
  simp only [filterGroups, h, Bool.not_false, if_true]

theorem filterGroups_rolling (c : Cfg) (d : ObjMap) (i : Nat) (g : CGroup) (rest : List CGroup) (cl : Claims)
    (h : c.isRolling g.apiGroup g.kind = true) :
    filterGroups c d i (g :: rest) cl =
      (if (filterNames c d g i g.names cl).1.isEmpty = true then
         (filterGroups c d i rest (filterNames c d g i g.names cl).2).1
       else { g with names := (filterNames c d g i g.names cl).1 } ::
         (filterGroups c d i rest (filterNames c d g i g.names cl).2).1,
       (filterGroups c d i rest (filterNames c d g i g.names cl).2).2) := by
  simp only [filterGroups, h, Bool.not_true, Bool.false_eq_true, if_false]
  split <;> rfl

theorem groupsKeys_cons (g : CGroup) (gs : List CGroup) : groupsKeys (g :: gs) = g.keys ++ groupsKeys gs := by
  simp [groupsKeys]

/-- everything `filterGroups` guarantees, for an arbitrary starting claim map -/
theorem filterGroups_spec (c : Cfg) (d : ObjMap) (i : Nat) : ∀ (gs : List CGroup) (cl : Claims),
    SubGroups (filterGroups c d i gs cl).1 gs ∧
    (∀ g' ∈ (filterGroups c d i gs cl).1, c.isRolling g'.apiGroup g'.kind = true ∧
        ∀ n ∈ g'.names, (d.findGK g'.apiGroup g'.kind n).isSome = true) ∧
    ClaimStep cl (filterGroups c d i gs cl).2 (groupsKeys (filterGroups c d i gs cl).1) ∧
    (∀ κ ∈ groupsKeys (filterGroups c d i gs cl).1, (filterGroups c d i gs cl).2.getK κ = some i) := by
  intro gs
  induction gs with
  | nil =>
    intro cl
    rw [filterGroups_nil]
    exact ⟨SubGroups.nil, by simp, ClaimStep.refl cl, by simp [groupsKeys]⟩
  | cons g rest ih =>
    intro cl
    cases h : c.isRolling g.apiGroup g.kind with
    | false =>
      rw [filterGroups_notRolling _ _ _ _ _ _ h]
      obtain ⟨a, b, c', e⟩ := ih cl
      exact ⟨SubGroups.drop g a, b, c', e⟩
    | true =>
      rw [filterGroups_rolling _ _ _ _ _ _ h]
      obtain ⟨na, nb, nc, ne⟩ := filterNames_spec c d g i g.names cl
      obtain ⟨a, b, c', e⟩ := ih (filterNames c d g i g.names cl).2
      generalize (filterNames c d g i g.names cl) = N at *
      generalize (filterGroups c d i rest N.2) = G at *
      cases hN : N.1 with
      | nil =>
        rw [hN] at nc
        simp only [List.isEmpty_nil, if_true]
        refine ⟨SubGroups.drop g a, b, ?_, e⟩
        have := ClaimStep.trans nc c'
        simpa using this
      | cons m ms =>
        simp only [List.isEmpty_cons, Bool.false_eq_true, if_false]
        rw [hN] at na nb nc ne
        have hk : groupsKeys ({ g with names := m :: ms } :: G.1) =
            (m :: ms).map g.key ++ groupsKeys G.1 := by
          rw [groupsKeys_cons]; rfl
        refine ⟨SubGroups.keep g (m :: ms) na (by simp) a, ?_, ?_, ?_⟩
        · intro g' hg
          rcases List.mem_cons.mp hg with rfl | hg
          · exact ⟨h, nb⟩
          · exact b g' hg
        · rw [hk]; exact ClaimStep.trans nc c'
        · intro κ hκ
          rw [hk] at hκ
          rcases List.mem_append.mp hκ with hκ | hκ
          · obtain ⟨n, hn, rfl⟩ := List.mem_map.mp hκ
            exact ClaimStep.mono c' (ne n hn)
          · exact e κ hκ

/-! ### syncRevisionClaims -/

theorem syncRevisionClaims_nil (c : Cfg) (d : ObjMap) (i : Nat) (cl : Claims) :
    syncRevisionClaims c d [] i cl = ([], cl) := rfl

theorem syncRevisionClaims_cons (c : Cfg) (d : ObjMap) (p : PRev) (rest : List PRev) (i : Nat) (cl : Claims) :
    syncRevisionClaims c d (p :: rest) i cl =
      ({ p with children := (filterGroups c d i p.children cl).1 } ::
        (syncRevisionClaims c d rest (i + 1) (filterGroups c d i p.children cl).2).1,
       (syncRevisionClaims c d rest (i + 1) (filterGroups c d i p.children cl).2).2) := rfl

theorem revsKeys_cons (p : PRev) (ps : List PRev) : revsKeys (p :: ps) = groupsKeys p.children ++ revsKeys ps := by
  simp [revsKeys]

/-- what one output revision looks like, relative to the input revision at the same position -/
structure RevOut (c : Cfg) (d : ObjMap) (cl' : Claims) (v : Nat) (p p' : PRev) : Prop where
  parent : p'.parent = p.parent
  revision : p'.revision = p.revision
  resp : p'.resp = p.resp
  desired : p'.desired = p.desired
  sub : SubGroups p'.children p.children
  ok : ∀ g' ∈ p'.children, c.isRolling g'.apiGroup g'.kind = true ∧
        ∀ n ∈ g'.names, (d.findGK g'.apiGroup g'.kind n).isSome = true
  val : ∀ κ ∈ groupsKeys p'.children, cl'.getK κ = some v

theorem syncRevisionClaims_length (c : Cfg) (d : ObjMap) : ∀ (prs : List PRev) (i : Nat) (cl : Claims),
    (syncRevisionClaims c d prs i cl).1.length = prs.length := by
  intro prs
  induction prs with
  | nil => intro i cl; rfl
  | cons p rest ih =>
    intro i cl
    rw [syncRevisionClaims_cons]
    simp only [List.length_cons, ih]

/-- everything `syncRevisionClaims` guarantees, for an arbitrary starting claim map and index -/
theorem syncRevisionClaims_spec (c : Cfg) (d : ObjMap) : ∀ (prs : List PRev) (i : Nat) (cl : Claims),
    ClaimStep cl (syncRevisionClaims c d prs i cl).2 (revsKeys (syncRevisionClaims c d prs i cl).1) ∧
    (∀ (j : Nat) (p : PRev), prs[j]? = some p →
      ∃ p', (syncRevisionClaims c d prs i cl).1[j]? = some p' ∧
        RevOut c d (syncRevisionClaims c d prs i cl).2 (i + j) p p') := by
  intro prs
  induction prs with
  | nil =>
    intro i cl
    rw [syncRevisionClaims_nil]
    exact ⟨ClaimStep.refl cl, by simp⟩
  | cons p rest ih =>
    intro i cl
    rw [syncRevisionClaims_cons]
    obtain ⟨ga, gb, gc, ge⟩ := filterGroups_spec c d i p.children cl
    obtain ⟨sa, sb⟩ := ih (i + 1) (filterGroups c d i p.children cl).2
    generalize (filterGroups c d i p.children cl) = G at *
    generalize (syncRevisionClaims c d rest (i + 1) G.2) = S at *
    refine ⟨?_, ?_⟩
    · rw [revsKeys_cons]; exact ClaimStep.trans gc sa
    · intro j q hq
      cases j with
      | zero =>
        simp only [List.getElem?_cons_zero, Option.some.injEq] at hq
        subst hq
        refine ⟨_, rfl, ⟨rfl, rfl, rfl, rfl, ga, gb, ?_⟩⟩
        intro κ hκ
        exact ClaimStep.mono sa (ge κ hκ)
      | succ j =>
        simp only [List.getElem?_cons_succ] at hq
        obtain ⟨p', hp', r⟩ := sb j q hq
        refine ⟨p', by simpa using hp', ?_⟩
        have : i + (j + 1) = i + 1 + j := by omega
        rw [this]; exact r

/-! ### completeness: every eligible name ends up claimed -/

theorem ClaimStep.mono_isSome {cl cl' : Claims} {ks : List CKey} (h : ClaimStep cl cl' ks) {κ : CKey}
    (hv : (cl.getK κ).isSome = true) : (cl'.getK κ).isSome = true := by
  cases hh : cl.getK κ with
  | none => rw [hh] at hv; simp at hv
  | some v => rw [h.mono hh]; rfl

theorem filterNames_claims (c : Cfg) (d : ObjMap) (g : CGroup) (i : Nat) (n : String)
    (hd : (d.findGK g.apiGroup g.kind n).isSome = true) : ∀ (names : List String) (cl : Claims),
    n ∈ names → ((filterNames c d g i names cl).2.getK (g.key n)).isSome = true := by
  intro names
  induction names with
  | nil => intro cl hn; simp at hn
  | cons m rest ih =>
    intro cl hn
    cases h : (d.findGK g.apiGroup g.kind m).isNone with
    | true =>
      rw [filterNames_undesired _ _ _ _ _ _ _ h]
      rcases List.mem_cons.mp hn with rfl | hn
      · cases hh : d.findGK g.apiGroup g.kind n with
        | none => rw [hh] at hd; simp at hd
        | some v => rw [hh] at h; simp at h
      · exact ih cl hn
    | false =>
      cases h2 : (cl.get g.apiGroup g.kind m).isSome with
      | true =>
        rw [filterNames_claimed _ _ _ _ _ _ _ h h2]
        rcases List.mem_cons.mp hn with rfl | hn
        · exact ClaimStep.mono_isSome (filterNames_spec c d g i rest cl).2.2.1 h2
        · exact ih cl hn
      | false =>
        rw [filterNames_keep _ _ _ _ _ _ _ h h2]
        rcases List.mem_cons.mp hn with rfl | hn
        · apply ClaimStep.mono_isSome (filterNames_spec c d g i rest _).2.2.1
          rw [Claims.set_eq_setK]
          show ((cl.setK (g.key n) i).getK (g.key n)).isSome = true
          rw [Claims.getK_setK_same]; rfl
        · exact ih _ hn

theorem filterGroups_claims (c : Cfg) (d : ObjMap) (i : Nat) (g : CGroup) (n : String)
    (hr : c.isRolling g.apiGroup g.kind = true) (hn : n ∈ g.names)
    (hd : (d.findGK g.apiGroup g.kind n).isSome = true) : ∀ (gs : List CGroup) (cl : Claims),
    g ∈ gs → ((filterGroups c d i gs cl).2.getK (g.key n)).isSome = true := by
  intro gs
  induction gs with
  | nil => intro cl hg; simp at hg
  | cons g0 rest ih =>
    intro cl hg
    cases h : c.isRolling g0.apiGroup g0.kind with
    | false =>
      rw [filterGroups_notRolling _ _ _ _ _ _ h]
      rcases List.mem_cons.mp hg with rfl | hg
      · rw [hr] at h; simp at h
      · exact ih cl hg
    | true =>
      rw [filterGroups_rolling _ _ _ _ _ _ h]
      rcases List.mem_cons.mp hg with rfl | hg
      · exact ClaimStep.mono_isSome (filterGroups_spec c d i rest _).2.2.1
          (filterNames_claims c d g i n hd g.names cl hn)
      · exact ih _ hg

/-- a name that is eligible in revision `j` (rolling kind, desired by the latest revision, unclaimed at
    the start) is claimed by a revision at or before `j` -/
theorem syncRevisionClaims_claims (c : Cfg) (d : ObjMap) (g : CGroup) (n : String)
    (hr : c.isRolling g.apiGroup g.kind = true) (hn : n ∈ g.names)
    (hd : (d.findGK g.apiGroup g.kind n).isSome = true) :
    ∀ (prs : List PRev) (i : Nat) (cl : Claims) (j : Nat) (p : PRev),
      prs[j]? = some p → g ∈ p.children → cl.getK (g.key n) = none →
      ∃ v, (syncRevisionClaims c d prs i cl).2.getK (g.key n) = some v ∧ i ≤ v ∧ v ≤ i + j := by
  intro prs
  induction prs with
  | nil => intro i cl j p hp; simp at hp
  | cons p0 rest ih =>
    intro i cl j p hp hg hnone
    rw [syncRevisionClaims_cons]
    obtain ⟨_, _, gc, ge⟩ := filterGroups_spec c d i p0.children cl
    obtain ⟨sa, _⟩ := syncRevisionClaims_spec c d rest (i + 1) (filterGroups c d i p0.children cl).2
    -- a key claimed while filtering the head revision gets value `i`
    have hhead : ((filterGroups c d i p0.children cl).2.getK (g.key n)).isSome = true →
        (syncRevisionClaims c d rest (i + 1) (filterGroups c d i p0.children cl).2).2.getK (g.key n) = some i := by
      intro hs
      have hm : g.key n ∈ groupsKeys (filterGroups c d i p0.children cl).1 := by
        apply Classical.byContradiction
        intro hk
        rw [gc.frame _ hk, hnone] at hs
        simp at hs
      exact ClaimStep.mono sa (ge _ hm)
    cases j with
    | zero =>
      simp only [List.getElem?_cons_zero, Option.some.injEq] at hp
      subst hp
      exact ⟨i, hhead (filterGroups_claims c d i g n hr hn hd _ cl hg), Nat.le_refl _, by omega⟩
    | succ j =>
      simp only [List.getElem?_cons_succ] at hp
      cases hh : (filterGroups c d i p0.children cl).2.getK (g.key n) with
      | some v =>
        exact ⟨i, hhead (by rw [hh]; rfl), Nat.le_refl _, by omega⟩
      | none =>
        obtain ⟨v, hv, h1, h2⟩ := ih (i + 1) _ j p hp hg hh
        exact ⟨v, hv, by omega, by omega⟩

/-- the converse reading of `syncRevisionClaims_spec`: every output revision comes from the input
    revision at the same position -/
theorem syncRevisionClaims_out (c : Cfg) (d : ObjMap) (prs : List PRev) (i : Nat) (cl : Claims) (j : Nat) (p' : PRev)
    (h : (syncRevisionClaims c d prs i cl).1[j]? = some p') :
    ∃ p, prs[j]? = some p ∧ RevOut c d (syncRevisionClaims c d prs i cl).2 (i + j) p p' := by
  have hj : j < prs.length := by
    rw [← syncRevisionClaims_length c d prs i cl]
    exact (List.getElem?_eq_some_iff.mp h).1
  obtain ⟨p'', h1, h2⟩ := (syncRevisionClaims_spec c d prs i cl).2 j prs[j] (List.getElem?_eq_getElem hj)
  rw [h] at h1
  obtain rfl : p' = p'' := by simpa using h1
  exact ⟨prs[j], List.getElem?_eq_getElem hj, h2⟩

end Mc
