import Mc.Props.C02
/-
  Which parts of a sync talk to the API server only (no webhook): every request of these functions is an
  `.api` request, hence satisfies any predicate that all API requests satisfy.
-/
namespace Mc
open Prog PE

/-- one step of the mechanical traversal of a program for `AllCalls` -/
syntax "pc_step" : tactic
macro_rules
  | `(tactic| pc_step) => `(tactic| first
      | with_reducible exact AllCalls.ret _
      | with_reducible exact PE.allCalls_pure _
      | with_reducible exact PE.allCalls_fail _
      | with_reducible exact PE.allCalls_throw _
      | with_reducible exact PE.allCalls_ofExcept _
      | with_reducible exact AllCalls.pure _
      | with_reducible exact AllCalls.request _ (by apply_assumption (transparency := .reducible) (exfalso := false) (symm := false))
      | apply_assumption (transparency := .reducible) (exfalso := false) (symm := false)
      | with_reducible refine PE.allCalls_lift ?_
      | with_reducible refine PE.allCalls_mbind ?_ ?_
      | with_reducible refine AllCalls.mbind ?_ ?_
      | with_reducible refine AllCalls.ite (fun _ => ?_) (fun _ => ?_)
      | intro _
      | split
      | dsimp only)

macro "pc_auto" : tactic => `(tactic| repeat pc_step)

section
variable {P : Req → Prop} (hP : ∀ v t b o, P (.api v t b o))
include hP

theorem atomicLoop_api (t : Target) (uid : String) (f : J → Option J) (verb : Verb) (gone : String) (n : Nat) :
    AllCalls P (atomicLoop t uid f verb gone n) := by
  refine AllCalls.mono ?_ (atomicLoop_calls t uid f verb gone n)
  rintro r (rfl | ⟨_, _, _, _, rfl⟩) <;> exact hP ..

theorem atomicUpdate_api (t : Target) (orig : J) (f : J → Option J) : AllCalls P (atomicUpdate t orig f) := by
  unfold atomicUpdate
  exact atomicLoop_api hP _ _ _ _ _ _

theorem syncObject_api (fz : Finalizer) (t : Target) (obj : J) : AllCalls P (fz.syncObject t obj) := by
  unfold Finalizer.syncObject
  have := atomicUpdate_api hP
  pc_auto

theorem claimAll_api (cx : ClaimCtx) (objs : List J) (st : AdoptState) : AllCalls P (claimAll cx objs st) := by
  refine AllCalls.mono ?_ (claimAll_calls cx objs st)
  rintro r ⟨o, _, h⟩
  rcases h with ⟨_, rfl⟩ | ⟨_, h⟩ | ⟨_, h⟩
  · exact hP ..
  · rcases h with rfl | ⟨_, _, _, _, rfl⟩ <;> exact hP ..
  · rcases h with rfl | ⟨_, _, _, _, rfl⟩ <;> exact hP ..

theorem claimChildren_api (c : Cfg) (cache : Cache) (parent : J) : AllCalls P (claimChildren c cache parent : Prog _) := by
  unfold claimChildren
  refine PE.allCalls_mbind (PE.allCalls_ofExcept _) (fun selector => ?_)
  refine PE.allCalls_foldlM _ _ _ ?_
  intro m ch _
  have := claimAll_api hP
  pc_auto

theorem claimRevisions_api (c : Cfg) (cache : Cache) (parent : J) : AllCalls P (claimRevisions c cache parent : Prog _) := by
  unfold claimRevisions
  have := claimAll_api hP
  pc_auto

theorem manageRevisions_api (ns : String) (observed : List J) (desired : List (J × List CGroup)) :
    AllCalls P (manageRevisions ns observed desired : Prog _) := by
  refine AllCalls.mono ?_ (C02.C02_revision_requests ns observed desired)
  intro r h
  cases h <;> exact hP ..

theorem manageChildren_api (mks sys : List String) (children : List ChildRes) (ssa : Option String) (kt : KindTable)
    (parentRef : OwnerRef) (observed desired : ObjMap) (memo : Memo) :
    AllCalls P (manageChildren mks sys children ssa kt parentRef observed desired memo) := by
  cases ssa with
  | none =>
    refine AllCalls.mono ?_ (C02.C02_manage_requests_strong mks sys children kt parentRef observed desired memo)
    intro r h
    cases h <;> exact hP ..
  | some fm =>
    refine AllCalls.mono ?_ (C02.C02_manage_requests_ssa mks sys children fm kt parentRef observed desired memo)
    intro r h
    cases h <;> exact hP ..

theorem updateParentStatus_api (c : Cfg) (parent : J) (status : Option KVs) : AllCalls P (updateParentStatus c parent status) := by
  unfold updateParentStatus
  exact atomicLoop_api hP _ _ _ _ _ _

theorem compositePrep_api (c : Cfg) (parent : J) (resp : CompResp) : AllCalls P (compositePrep c parent resp : Prog _) := by
  unfold compositePrep
  have := atomicUpdate_api hP
  pc_auto

theorem compositeAct_api (c : Cfg) (parent : J) (observed desired : ObjMap) (status : Option KVs) (memo : Memo) :
    AllCalls P (compositeAct c parent observed desired status memo) := by
  unfold compositeAct
  have h1 := manageChildren_api hP
  have h2 := updateParentStatus_api hP
  dsimp only
  refine AllCalls.ite (fun _ => ?_) (fun _ => ?_) <;> pc_auto

theorem compositeTail_api (c : Cfg) (parent : J) (observed : ObjMap) (resp : CompResp) (memo : Memo) :
    AllCalls P (compositeTail c parent observed resp memo) := by
  unfold compositeTail
  refine AllCalls.mbind (compositePrep_api hP ..) (fun p => ?_)
  cases p with
  | error e => exact .ret _
  | ok pd => exact compositeAct_api hP ..

theorem decoratorParentUpdate_api (c : DCfg) (rule : ParentRes) (parent : J) (resp : DecResp) :
    AllCalls P (decoratorParentUpdate c rule parent resp : Prog _) := by
  unfold decoratorParentUpdate
  have h : ∀ v t b, AllCalls P (api v t b) := fun v t b => AllCalls.request _ (hP ..)
  pc_auto

theorem decoratorTail_api (c : DCfg) (rule : ParentRes) (parent : J) (observed : ObjMap) (resp : DecResp) (memo : Memo) :
    AllCalls P (decoratorTail c rule parent observed resp memo) := by
  unfold decoratorTail
  refine AllCalls.mbind (decoratorParentUpdate_api hP ..) (fun upd => ?_)
  cases upd with
  | error e => exact .ret _
  | ok u =>
    cases u with
    | stop => exact .ret _
    | proceed =>
      dsimp only
      refine AllCalls.ite (fun _ => ?_) (fun _ => .ret _)
      refine AllCalls.mbind (manageChildren_api hP ..) (fun r => ?_)
      exact AllCalls.ite (fun _ => .ret _) (fun _ => .ret _)

end

/-- the related-objects lookup issues at most the customize hook -/
theorem getRelatedObjects_calls {P : Req → Prop} (hC : ∀ q, P (.hook "customize" q)) (enabled parentNamespaced : Bool)
    (relRes : List ChildRes) (cache : Cache) (parent : J) (cached : CustCache) :
    AllCalls P (getRelatedObjects enabled parentNamespaced relRes cache parent cached : Prog _) := by
  have h1 : AllCalls P (customizeResponse parent cached : Prog _) := by
    unfold customizeResponse
    pc_auto
  unfold getRelatedObjects
  refine AllCalls.ite (fun _ => PE.allCalls_pure _) (fun _ => ?_)
  refine PE.allCalls_mbind h1 (fun bc => ?_)
  refine PE.allCalls_mbind (PE.allCalls_ofExcept _) (fun rules => ?_)
  refine PE.allCalls_mbind (PE.allCalls_foldlM _ _ _ ?_) (fun m => PE.allCalls_pure _)
  intro m orule _
  pc_auto

end Mc
