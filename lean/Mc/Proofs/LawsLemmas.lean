import Mc.Proofs.C05Hyps
/-
  Lemmas for the "removed + preserved" laws (`laws`, `lawsFields`, `lawsItems`).
-/
set_option linter.unusedSimpArgs false
namespace Mc.C05

/-! ### generic list facts -/

theorem find?_unique {α : Type} (p : α → Bool) (a : α) : ∀ (l : List α),
    (∀ y ∈ l, p y = true → y = a) → a ∈ l → p a = true → l.find? p = some a := by
  intro l
  induction l with
  | nil => intro _ h; simp at h
  | cons hd tl ih =>
    intro hu hm hp
    by_cases hh : p hd = true
    · rw [List.find?_cons_of_pos hh, hu hd (by simp) hh]
    · rw [List.find?_cons_of_neg (by simpa using hh)]
      apply ih (fun y hy => hu y (by simp [hy])) _ hp
      simp at hm
      rcases hm with rfl | hm
      · exact absurd hp hh
      · exact hm

theorem inj_of_nodup_map {α β : Type} (f : α → β) : ∀ (l : List α), (l.map f).Nodup →
    ∀ x ∈ l, ∀ y ∈ l, f x = f y → x = y := by
  intro l
  induction l with
  | nil => intro _ x hx; simp at hx
  | cons hd tl ih =>
    intro hn x hx y hy he
    simp only [List.map_cons, List.nodup_cons] at hn
    simp only [List.mem_cons] at hx hy
    rcases hx with rfl | hx <;> rcases hy with rfl | hy
    · rfl
    · exact absurd (he ▸ List.mem_map_of_mem hy) hn.1
    · exact absurd (he ▸ List.mem_map_of_mem hx) hn.1
    · exact ih hn.2 x hx y hy he

theorem eraseDups_of_nodup : ∀ (ks : List String), ks.Nodup → ks.eraseDups = ks := by
  intro ks
  induction ks with
  | nil => intro _; simp
  | cons a as ih =>
    intro hn
    rw [List.nodup_cons] at hn
    rw [List.eraseDups_cons]
    have hf : as.filter (fun b => !b == a) = as := by
      rw [List.filter_eq_self]; intro b hb
      simp only [Bool.not_eq_true', beq_eq_false_iff_ne]
      intro e; subst e; exact hn.1 hb
    rw [hf, ih hn.2]

theorem filterMap_map_eq {α β : Type} (f : α → Option α) (g : α → β) (p : α → Bool) : ∀ (xs : List α),
    (∀ x ∈ xs, (p x = true → ∃ m, f x = some m ∧ g m = g x) ∧ (p x = false → f x = none)) →
    (xs.filterMap f).map g = (xs.filter p).map g := by
  intro xs
  induction xs with
  | nil => intro _; rfl
  | cons hd tl ih =>
    intro h
    have ih' := ih (fun x hx => h x (by simp [hx]))
    cases hp : p hd with
    | true =>
      obtain ⟨m, hm, hg⟩ := (h hd (by simp)).1 hp
      rw [List.filterMap_cons, hm, List.filter_cons_of_pos (by simp [hp])]
      simp only [List.map_cons, hg, ih']
    | false =>
      have hm := (h hd (by simp)).2 hp
      rw [List.filterMap_cons, hm, List.filter_cons_of_neg (by simp [hp])]
      exact ih'

/-! ### findItem / desItem under unique keys -/

theorem findItem_of_nodup (mk : String) (rs : List J) (hn : (rs.map (keyOf mk)).Nodup) (m : J)
    (hm : m ∈ rs) : findItem mk (keyOf mk m) rs = some m := by
  unfold findItem
  apply find?_unique _ m rs _ hm (by simp)
  intro y hy hp
  simp only [beq_iff_eq] at hp
  exact inj_of_nodup_map (keyOf mk) rs hn y hy m hm hp

theorem findItem_none (mk : String) (rs : List J) (k : String) (h : k ∉ rs.map (keyOf mk)) :
    findItem mk k rs = none := by
  unfold findItem
  rw [List.find?_eq_none]
  intro x hx hp
  simp only [beq_iff_eq] at hp
  exact h (hp ▸ List.mem_map_of_mem hx)

theorem desItem_of_nodup (mk : String) (ds : List J) (hn : (ds.map (keyOf mk)).Nodup) (it : J)
    (hm : it ∈ ds) : desItem mk (keyOf mk it) ds = some it := by
  unfold desItem
  apply find?_unique _ it ds.reverse _ (List.mem_reverse.mpr hm) (by simp)
  intro y hy hp
  simp only [beq_iff_eq] at hp
  exact inj_of_nodup_map (keyOf mk) ds hn y (List.mem_reverse.mp hy) it hm hp

theorem desItem_some (mk : String) (ds : List J) (k : String) (di : J) (h : desItem mk k ds = some di) :
    di ∈ ds ∧ keyOf mk di = k := by
  unfold desItem at h
  have h1 := List.mem_of_find?_eq_some h
  have h2 := List.find?_some h
  simp only [beq_iff_eq] at h2
  exact ⟨List.mem_reverse.mp h1, h2⟩

theorem desItem_none (mk : String) (ds : List J) (k : String) (h : desItem mk k ds = none) :
    k ∉ ds.map (keyOf mk) := by
  unfold desItem at h
  rw [List.find?_eq_none] at h
  intro hk
  rw [List.mem_map] at hk
  obtain ⟨it, hit, he⟩ := hk
  exact h it (List.mem_reverse.mpr hit) (by simp [he])

/-- with unique keys the list-map holds exactly what `findItem` finds -/
theorem lookup_makeListMap_eq_findItem (mk : String) (ll : List J) (hn : (ll.map (keyOf mk)).Nodup) (k : String) :
    lookup k (makeListMap mk ll) = findItem mk k ll := by
  by_cases hk : k ∈ ll.map (keyOf mk)
  · rw [List.mem_map] at hk
    obtain ⟨it, hit, rfl⟩ := hk
    rw [lookup_makeListMap_mem mk ll it hn hit, findItem_of_nodup mk ll hn it hit]
  · rw [findItem_none mk ll k hk]
    rw [← hasKey_false_iff, hasKey_makeListMap]
    rw [Bool.eq_false_iff]; intro hc; exact hk (List.contains_iff_mem.mp hc)

/-! ### lawsFields / lawsItems from pointwise facts -/

theorem lawsFields_of (mks : List String) (rs ls ds : KVs) : ∀ os : KVs,
    (∀ k ov, (k, ov) ∈ os →
      (∀ dv, lookup k ds = some dv → ∃ rv, lookup k rs = some rv ∧ laws mks rv ov (lookup k ls) dv = true) ∧
      (lookup k ds = none → hasKey k ls = true → hasKey k rs = false) ∧
      (lookup k ds = none → hasKey k ls = false → ∃ rv, lookup k rs = some rv ∧ rv.eqv ov = true)) →
    lawsFields mks rs os ls ds = true := by
  intro os
  induction os with
  | nil => intro _; rw [lawsFields]
  | cons hd tl ih =>
    obtain ⟨k, ov⟩ := hd
    intro h
    rw [lawsFields, Bool.and_eq_true]
    refine ⟨?_, ih (fun k' ov' hm => h k' ov' (by simp [hm]))⟩
    obtain ⟨h1, h2, h3⟩ := h k ov (by simp)
    cases hds : lookup k ds with
    | some dv =>
      obtain ⟨rv, hr, hl⟩ := h1 dv hds
      simp only [hr, hl]
    | none =>
      cases hl : hasKey k ls with
      | true => simp [h2 hds hl]
      | false =>
        obtain ⟨rv, hr, he⟩ := h3 hds hl
        simp [hr, he]

theorem lawsItems_of (mks : List String) (mk : String) (rs ls ds : List J) (survive : J → Bool) : ∀ xs : List J,
    (∀ x ∈ xs, survive x = true → ∃ ri, findItem mk (keyOf mk x) rs = some ri ∧
      (desItem mk (keyOf mk x) ds = none → ri.eqv x = true) ∧
      (∀ di, desItem mk (keyOf mk x) ds = some di → laws mks ri x (findItem mk (keyOf mk x) ls) di = true)) →
    lawsItems mks mk rs xs ls ds survive = true := by
  intro xs
  induction xs with
  | nil => intro _; rw [lawsItems]
  | cons hd tl ih =>
    intro h
    rw [lawsItems, Bool.and_eq_true]
    refine ⟨?_, ih (fun x hx => h x (by simp [hx]))⟩
    cases hs : survive hd with
    | false => simp
    | true =>
      obtain ⟨ri, hf, h1, h2⟩ := h hd (by simp) hs
      simp only [if_true, hf]
      cases hdi : desItem mk (keyOf mk hd) ds with
      | none => simp only [h1 hdi]
      | some di => simp only [h2 di hdi]

end Mc.C05
