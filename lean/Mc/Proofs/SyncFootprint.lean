import Mc.Proofs.ProgLemmas
import Mc.Props.C04
/-
  Which requests each sub-program of the syncs can issue. Every lemma is parametrised by the
  footprint `P : Req → Prop` and asks for `P` on exactly the requests the sub-program builds;
  the property files instantiate `P` with (negations of) the request classes of `Mc/Spec/ReqClass.lean`.
-/
namespace Mc
open Prog

/-- closes footprint goals about request-free tails -/
macro "pe_auto" : tactic => `(tactic| repeat (first | exact AllCalls.ret _ | apply PE.allCalls_ofExcept | apply PE.allCalls_bind | intro _ | split))

/-! ### claims by a parent that is being deleted -/

/-- a parent observed as being deleted: claiming issues no request at all -/
theorem claimOne_deleting (cx : ClaimCtx) (obj : J) (st : AdoptState) (hd : isDeleting cx.parent = true) :
    AllCalls (fun _ => False) (claimOne cx obj st) := by
  unfold claimOne
  have h := Mc.C04.C04_deleting_parent_inert (getUID cx.parent) (cx.selector.matches (labelsOf obj)) obj
  rw [hd]
  split
  · exact .ret _
  · exact .ret _
  · rename_i heq; exact (h.2 heq).elim
  · rename_i heq; exact (h.1 heq).elim

theorem claimAll_deleting (cx : ClaimCtx) (hd : isDeleting cx.parent = true) :
    ∀ (objs : List J) (st : AdoptState), AllCalls (fun _ => False) (claimAll cx objs st)
  | [], _ => .ret _
  | o :: rest, st => by
    unfold claimAll
    apply AllCalls.bind (claimOne_deleting cx o st hd)
    intro ⟨⟨ok, err⟩, st'⟩
    apply AllCalls.bind (claimAll_deleting cx hd rest st')
    intro ⟨claimed, errs⟩
    exact .ret _

/-! ### composite: claim, hook, status, children -/

section Composite
variable {P : Req → Prop}

/-- GET / update / updateStatus of one object -/
def OnObject (P : Req → Prop) (t : Target) : Prop :=
  P (.api .get t .null .null) ∧ (∀ b, P (.api .update t b .null)) ∧ (∀ b, P (.api .updateStatus t b .null))

theorem updateParentStatus_calls (c : Cfg) (parent : J) (status : Option KVs)
    (hg : P (.api .get (c.parentTarget parent) .null .null))
    (hp : ∀ b, P (.api (if c.parentHasStatus then .updateStatus else .update) (c.parentTarget parent) b .null)) :
    AllCalls P (updateParentStatus c parent status) :=
  atomicLoop_calls _ _ _ _ _ hg hp _

theorem updateParentStatus_calls' (c : Cfg) (parent : J) (status : Option KVs) (h : OnObject P (c.parentTarget parent)) :
    AllCalls P (updateParentStatus c parent status) := by
  apply updateParentStatus_calls _ _ _ h.1
  intro b
  split
  · exact h.2.2 b
  · exact h.2.1 b

theorem callHookComposite_calls (c : Cfg) (parent : J) (observed related : ObjMap) (hh : ∀ n q, P (.hook n q)) :
    AllCalls P (callHookComposite c parent observed related) := by
  unfold callHookComposite
  dsimp only
  apply PE.allCalls_bind (PE.allCalls_lift (.request (hh _ _)))
  intro r
  split
  · split <;> exact .ret _
  all_goals exact .ret _

theorem claimChildren_calls (c : Cfg) (cache : Cache) (parent : J)
    (hpar : P (.api .get (c.parentTarget parent) .null .null))
    (hch : ∀ ch ∈ c.children, ∀ ns name, P (.api .get (targetOf ch.group ch.resource ch.namespaced ns name) .null .null) ∧
      ∀ b, P (.api .update (targetOf ch.group ch.resource ch.namespaced ns name) b .null)) :
    AllCalls P (claimChildren c cache parent) := by
  unfold claimChildren
  apply PE.allCalls_bind (PE.allCalls_ofExcept _)
  intro selector
  apply PE.allCalls_foldlM_mem
  intro m ch hmem
  dsimp only
  apply PE.allCalls_bind
  · apply PE.allCalls_lift
    apply claimAll_calls _ hpar
    intro o _
    exact hch ch hmem _ _
  · intro ⟨claimed, errs⟩
    dsimp only
    split <;> exact .ret _

theorem compositePrep_calls (c : Cfg) (parent : J) (resp : CompResp)
    (hg : P (.api .get (c.parentTarget parent) .null .null))
    (hp : ∀ b, P (.api .update (c.parentTarget parent) b .null)) :
    AllCalls P (compositePrep c parent resp) := by
  unfold compositePrep
  dsimp only
  split
  · apply PE.allCalls_bind (PE.allCalls_lift (atomicLoop_calls _ _ _ _ _ hg hp _))
    intro r
    pe_auto
  · pe_auto

theorem compositeAct_calls (c : Cfg) (parent : J) (observed desired : ObjMap) (status : Option KVs) (memo : Memo)
    (hpar : OnObject P (c.parentTarget parent))
    (hch : (isDeleting parent = false ∨ c.finalizer.shouldFinalize parent = true) →
      ∀ av k info, c.kindTable.find av k = some info → OnInfo P info) :
    AllCalls P (compositeAct c parent observed desired status memo) := by
  unfold compositeAct
  dsimp only
  have hst := updateParentStatus_calls' c parent status hpar
  split
  · rename_i h
    refine AllCalls.bind (manageChildren_calls _ _ _ _ _ _ _ _ _ (hch ?_)) (fun x => AllCalls.bind hst (fun st => ?_))
    · cases hd : isDeleting parent <;> simp_all
    · pe_auto
  · refine AllCalls.bind (.ret _) (fun x => AllCalls.bind hst (fun st => ?_))
    pe_auto

theorem compositeTail_calls (c : Cfg) (parent : J) (observed : ObjMap) (resp : CompResp) (memo : Memo)
    (hpar : ∀ p, OnObject P (c.parentTarget p))
    (hch : ∀ av k info, c.kindTable.find av k = some info → OnInfo P info) :
    AllCalls P (compositeTail c parent observed resp memo) := by
  unfold compositeTail
  apply AllCalls.bind (compositePrep_calls c parent resp (hpar parent).1 (hpar parent).2.1)
  intro p
  split
  · exact .ret _
  · exact compositeAct_calls _ _ _ _ _ _ (hpar _) (fun _ => hch)

end Composite

/-! ### rolling update: revisions -/

section Rolling
variable {P : Req → Prop}

theorem claimRevisions_calls (c : Cfg) (cache : Cache) (parent : J)
    (hpar : P (.api .get (c.parentTarget parent) .null .null))
    (hrev : ∀ name, P (.api .get (revTarget (getNamespace parent) name) .null .null) ∧
      ∀ b, P (.api .update (revTarget (getNamespace parent) name) b .null)) :
    AllCalls P (claimRevisions c cache parent) := by
  unfold claimRevisions
  apply PE.allCalls_bind (PE.allCalls_ofExcept _)
  intro selector
  dsimp only
  apply PE.allCalls_bind
  · apply PE.allCalls_lift
    apply claimAll_calls _ hpar
    intro o _
    exact hrev _
  · pe_auto

theorem callHooks_calls (c : Cfg) (lp : J) (observed related : ObjMap) (hh : ∀ n q, P (.hook n q)) :
    ∀ (inputs : List (J × J × List CGroup)), AllCalls P (callHooks c lp observed related inputs)
  | [] => .ret _
  | (p, rev, ch) :: rest => by
    unfold callHooks
    apply AllCalls.bind (callHookComposite_calls c p observed related hh)
    intro r
    apply AllCalls.bind (callHooks_calls c lp observed related hh rest)
    intro rs
    exact .ret _

/-- the writes of `manageRevisions`: delete, update, create of a ControllerRevision in the parent's namespace -/
def OnRevWrites (P : Req → Prop) (ns : String) : Prop :=
  ∀ (v : Verb) (name : String) (b o : J), (v = .delete ∨ v = .update ∨ v = .create) → P (.api v (revTarget ns name) b o)

theorem manageRevisions_calls (ns : String) (observed : List J) (desired : List (J × List CGroup))
    (hrev : OnRevWrites P ns) : AllCalls P (manageRevisions ns observed desired) := by
  unfold manageRevisions
  dsimp only
  split
  · exact .ret _
  · apply PE.allCalls_bind
    · apply PE.allCalls_forM
      intro rev
      split
      · exact .ret _
      · apply PE.allCalls_bind (PE.allCalls_lift (.request (hrev _ _ _ _ (by simp))))
        pe_auto
    · intro _
      apply PE.allCalls_forM
      intro d
      split
      · split
        · exact .ret _
        · apply PE.allCalls_bind (PE.allCalls_lift (.request (hrev _ _ _ _ (by simp))))
          pe_auto
      · apply PE.allCalls_bind (PE.allCalls_lift (.request (hrev _ _ _ _ (by simp))))
        pe_auto

theorem syncRevisions_calls (c : Cfg) (cache : Cache) (parent : J) (observed related : ObjMap) (name : String)
    (hh : ∀ n q, P (.hook n q))
    (hpar : P (.api .get (c.parentTarget parent) .null .null))
    (hrev : ∀ (v : Verb) (name : String) (b o : J), P (.api v (revTarget (getNamespace parent) name) b o)) :
    AllCalls P (syncRevisions c cache parent observed related name) := by
  have h1 := claimRevisions_calls c cache parent hpar (fun n => ⟨hrev _ _ _ _, fun b => hrev _ _ _ _⟩)
  have h2 := callHooks_calls c parent observed related hh
  have h3 : ∀ obs des, AllCalls P (manageRevisions (getNamespace parent) obs des) :=
    fun obs des => manageRevisions_calls _ obs des (fun v n b o _ => hrev v n b o)
  have h4 := callHookComposite_calls c parent observed related hh
  unfold syncRevisions
  split
  · exact h4
  apply PE.allCalls_bind h1
  intro observedRevs
  apply PE.allCalls_bind (PE.allCalls_ofExcept _)
  intro latestPatch
  apply PE.allCalls_bind (PE.allCalls_ofExcept _)
  intro ⟨latestRev, others⟩
  dsimp -zeta only
  extract_lets jp2 jp
  have hjp2 : ∀ x, AllCalls P (jp2 x) := by
    intro x
    unfold jp2
    apply PE.allCalls_bind (PE.allCalls_ofExcept _)
    intro y
    apply PE.allCalls_bind (h3 _ _)
    intro _
    exact .ret _
  have hjp : ∀ x, AllCalls P (jp x) := by
    intro x
    unfold jp
    apply PE.allCalls_bind (PE.allCalls_lift (h2 _))
    intro results
    split
    · exact PE.allCalls_bind (.ret _) hjp2
    · exact PE.allCalls_bind (.ret _) hjp2
  split
  · exact PE.allCalls_bind (.ret _) hjp
  · exact PE.allCalls_bind (PE.allCalls_ofExcept _) hjp

end Rolling

section Related
variable {P : Req → Prop}

theorem customizeResponse_calls (parent : J) (cached : CustCache) (hh : ∀ n q, P (.hook n q)) :
    AllCalls P (customizeResponse parent cached) := by
  unfold customizeResponse
  split
  · exact .ret _
  · apply PE.allCalls_bind (PE.allCalls_lift (.request (hh _ _)))
    pe_auto

theorem getRelatedObjects_calls (enabled pn : Bool) (relRes : List ChildRes) (cache : Cache) (parent : J) (cached : CustCache)
    (hh : ∀ n q, P (.hook n q)) : AllCalls P (getRelatedObjects enabled pn relRes cache parent cached) := by
  unfold getRelatedObjects
  split
  · exact .ret _
  · apply PE.allCalls_bind (customizeResponse_calls _ _ hh)
    intro ⟨body, cached'⟩
    dsimp only
    apply PE.allCalls_bind (PE.allCalls_ofExcept _)
    intro rules
    apply PE.allCalls_bind
    · apply PE.allCalls_foldlM
      intro m orule
      pe_auto
    · pe_auto
end Related


/-! ### decorator -/

section Decorator
variable {P : Req → Prop}

theorem callHookDecorator_calls (c : DCfg) (parent : J) (observed related : ObjMap) (hh : ∀ n q, P (.hook n q)) :
    AllCalls P (callHookDecorator c parent observed related) := by
  unfold callHookDecorator
  dsimp only
  apply PE.allCalls_bind (PE.allCalls_lift (.request (hh _ _)))
  pe_auto

theorem decoratorParentUpdate_calls (c : DCfg) (rule : ParentRes) (parent : J) (resp : DecResp)
    (hu : ∀ b, P (.api .update (targetOf rule.group rule.resource rule.namespaced (getNamespace parent) (getName parent)) b .null))
    (hs : ∀ b, P (.api .updateStatus (targetOf rule.group rule.resource rule.namespaced (getNamespace parent) (getName parent)) b .null)) :
    AllCalls P (decoratorParentUpdate c rule parent resp) := by
  unfold decoratorParentUpdate
  dsimp -zeta only
  extract_lets t pl pa ps u1 u2 jp
  apply PE.allCalls_bind (PE.allCalls_ofExcept _)
  intro parentStatus
  extract_lets
  have hjp : ∀ x, AllCalls P (jp x) := by
    intro x
    unfold jp
    split
    · exact .ret _
    · extract_lets u'
      apply PE.allCalls_bind (PE.allCalls_lift (.request (hu _)))
      pe_auto
  split
  · apply PE.allCalls_bind (PE.allCalls_ofExcept _)
    intro u
    split
    · apply PE.allCalls_bind (PE.allCalls_lift (.request (hs _)))
      intro r
      split
      · exact PE.allCalls_bind (.ret _) hjp
      · exact PE.allCalls_bind (.ret _) hjp
      · exact PE.allCalls_bind (.ret _) hjp
      · exact PE.allCalls_bind (.ret _) hjp
      · exact PE.allCalls_bind (.ret _) hjp
    · exact PE.allCalls_bind (.ret _) hjp
  · exact .ret _

theorem decoratorTail_calls (c : DCfg) (rule : ParentRes) (parent : J) (observed : ObjMap) (resp : DecResp) (memo : Memo)
    (hu : ∀ b, P (.api .update (targetOf rule.group rule.resource rule.namespaced (getNamespace parent) (getName parent)) b .null))
    (hs : ∀ b, P (.api .updateStatus (targetOf rule.group rule.resource rule.namespaced (getNamespace parent) (getName parent)) b .null))
    (hch : (isDeleting parent = false ∨ c.finalizer.shouldFinalize parent = true) →
      ∀ av k info, c.kindTable.find av k = some info → OnInfo P info) :
    AllCalls P (decoratorTail c rule parent observed resp memo) := by
  unfold decoratorTail
  apply AllCalls.bind (decoratorParentUpdate_calls c rule parent resp hu hs)
  intro upd
  split
  · exact .ret _
  · exact .ret _
  · dsimp only
    split
    · rename_i h
      apply AllCalls.bind
      · apply manageChildren_calls
        apply hch
        cases hd : isDeleting parent <;> simp_all
      · intro ⟨errs, m⟩
        dsimp only
        split <;> exact .ret _
    · exact .ret _
end Decorator

/-! ### claims by a parent that is being deleted (whole phases) -/

theorem claimChildren_deleting (c : Cfg) (cache : Cache) (parent : J) (hd : isDeleting parent = true) :
    AllCalls (fun _ => False) (claimChildren c cache parent) := by
  unfold claimChildren
  apply PE.allCalls_bind (PE.allCalls_ofExcept _)
  intro selector
  apply PE.allCalls_foldlM
  intro m ch
  dsimp only
  apply PE.allCalls_bind (PE.allCalls_lift (claimAll_deleting _ hd _ _))
  pe_auto

theorem claimRevisions_deleting (c : Cfg) (cache : Cache) (parent : J) (hd : isDeleting parent = true) :
    AllCalls (fun _ => False) (claimRevisions c cache parent) := by
  unfold claimRevisions
  apply PE.allCalls_bind (PE.allCalls_ofExcept _)
  intro selector
  dsimp only
  apply PE.allCalls_bind (PE.allCalls_lift (claimAll_deleting _ hd _ _))
  pe_auto

/-! ### the composite sync, phase by phase -/

/-- what follows `syncRevisions`, as a function of its outcome: an error ends the sync -/
def tailCont (c : Cfg) (parent : J) (observed : ObjMap) (h : Hidden) (cust : CustCache) (resp : Except Err CompResp) :
    Prog (SyncRes × CustCache) :=
  match resp with
  | .error e => .ret ({ after := [], memo := h.memo, result := .error e }, cust)
  | .ok resp =>
    Prog.bind (compositeTail c parent observed resp h.memo) fun mt =>
      .ret ({ after := resyncOps resp, memo := mt.1, result := mt.2 }, cust)

/-- the sync after the finalizer phase, for the parent object as the finalizer phase left it -/
def afterFinalizer (c : Cfg) (cache : Cache) (parent : J) (newRevName : String) (h : Hidden) : Prog (SyncRes × CustCache) :=
  Prog.bind (claimChildren c cache parent) fun observed =>
    match observed with
    | .error e => .ret ({ after := [], memo := h.memo, result := .error e }, h.customize)
    | .ok observed =>
      Prog.bind (getRelatedObjects c.customize c.parentNamespaced c.related cache parent h.customize) fun rel =>
        match rel with
        | .error e => .ret ({ after := [], memo := h.memo, result := .error e }, h.customize)
        | .ok (related, cust) =>
          Prog.bind (syncRevisions c cache parent observed related newRevName) (tailCont c parent observed h cust)

/-- what follows the finalizer phase, as a function of its outcome -/
def finalizerCont (c : Cfg) (cache : Cache) (newRevName : String) (h : Hidden) (r : Except String J) : Prog (SyncRes × CustCache) :=
  match r with
  | .error e => .ret ({ after := [], memo := h.memo, result := .error (.fail s!"can't sync finalizer: {e}") }, h.customize)
  | .ok parent =>
    if c.ignored parent then .ret ({ after := [], memo := h.memo, result := .ok () }, h.customize)
    else afterFinalizer c cache parent newRevName h

theorem syncParentObjectFull_eq (c : Cfg) (cache : Cache) (parent : J) (newRevName : String) (h : Hidden) :
    syncParentObjectFull c cache parent newRevName h =
      if c.ignored parent then .ret ({ after := [], memo := h.memo, result := .ok () }, h.customize)
      else Prog.bind (c.finalizer.syncObject (c.parentTarget parent) parent) (finalizerCont c cache newRevName h) := by
  unfold syncParentObjectFull
  split
  · rfl
  · refine congrArg (Prog.bind _) (funext fun r => ?_)
    cases r with
    | error e => rfl
    | ok p =>
      simp only [finalizerCont]
      split
      · rfl
      · unfold afterFinalizer
        refine congrArg (Prog.bind _) (funext fun ob => ?_)
        cases ob with
        | error e => rfl
        | ok observed =>
          refine congrArg (Prog.bind _) (funext fun rel => ?_)
          cases rel with
          | error e => rfl
          | ok rc =>
            obtain ⟨related, cust⟩ := rc
            refine congrArg (Prog.bind _) (funext fun resp => ?_)
            cases resp with
            | error e => rfl
            | ok resp => rfl

/-- `syncRevisions` after the ControllerRevisions have been claimed -/
def syncRevisionsFrom (c : Cfg) (parent : J) (observed related : ObjMap) (newRevName : String) (observedRevs : List J) : PE CompResp := do
  let fps := c.effectiveFieldPaths
  let latestPatch ← PE.ofExcept (makePatch parent fps)
  -- materialise each revision's parent
  let (latestRev, others) ← PE.ofExcept (observedRevs.foldlM (fun (acc : Option J × List (J × J × List CGroup)) rev =>
      match rev.get? "parentPatch" with
      | some (.obj pk) =>
          if (J.obj pk).eqv latestPatch then .ok (some rev, acc.2)
          else match applyPatch parent (.obj pk) fps with
            | .ok p => .ok (acc.1, acc.2 ++ [(p, rev, (revChildren rev).getD [])])
            | .error e => .error e
      | _ => .error "can't unmarshal ControllerRevision parentPatch") (none, []))
  let latestRevObj ← match latestRev with
    | some r => pure r
    | none => PE.ofExcept (newControllerRevision c parent latestPatch newRevName)
  let inputs := (parent, latestRevObj, (revChildren latestRevObj).getD []) :: others
  let results ← PE.lift (callHooks c parent observed related inputs)
  let prs ← match results.findSome? (fun r => match r with | .error e => some e | .ok _ => none) with
    | some e => PE.throw e
    | none => pure (results.filterMap (fun r => match r with | .ok p => some p | .error _ => none))
  let (prs, status) ← PE.ofExcept (syncRollingUpdate c prs observed)
  -- prune: the latest always stays
  let pruned := match prs with
    | [] => []
    | l :: rest => l :: rest.filter (fun p => p.count > 0)
  manageRevisions (getNamespace parent) observedRevs (pruned.map (fun p => (p.revision, p.children)))
  -- overlay the desired children of revisions that still hold claims
  let latest := pruned.headD default
  let desired := (pruned.drop 1).foldl (fun (m : ObjMap) p =>
      p.children.foldl (fun m g =>
        g.names.foldl (fun m n =>
          match p.desired.findGK g.apiGroup g.kind n with
          | some child => replaceIfExists m (getNamespace parent) child
          | none => m) m) m) latest.desired
  let resyncs := (pruned.map (·.resp.resyncAfter)).filter (· > 0)
  let resync := resyncs.foldl (fun acc x => if acc == 0 || x < acc then x else acc) 0
  pure { status := some status, children := desired.list.map some, resyncAfter := resync,
         finalized := pruned.all (·.resp.finalized) }

theorem syncRevisions_eq (c : Cfg) (cache : Cache) (parent : J) (observed related : ObjMap) (newRevName : String) :
    syncRevisions c cache parent observed related newRevName =
      if !c.anyRolling || (isDeleting parent && !c.finalizer.shouldFinalize parent) then
        callHookComposite c parent observed related
      else PE.bind (claimRevisions c cache parent) (syncRevisionsFrom c parent observed related newRevName) := by
  rfl

theorem Target.beq_self (t : Target) : (t == t) = true := by
  cases t
  simp [BEq.beq, instBEqTarget.beq]

/-! ### request classes on the requests the syncs build -/
section Classes
variable (v : Verb) (t pt : Target) (b o : J) (n : String) (q : J) (ns name : String)

theorem Req.onTarget_self : (Req.api v t b o).onTarget t = true := by
  simp [Req.onTarget, Req.target?, Target.beq_self]

theorem Req.isRevision_revTarget : (Req.api v (revTarget ns name) b o).isRevision = true := by
  simp [Req.isRevision, Req.target?, revTarget]

theorem Req.isChild_hook : (Req.hook n q).isChild pt = false := by
  simp [Req.isChild, Req.isHook]

theorem Req.isChild_self : (Req.api v pt b o).isChild pt = false := by
  simp [Req.isChild, Req.onTarget_self]

theorem Req.isChild_revTarget : (Req.api v (revTarget ns name) b o).isChild pt = false := by
  simp [Req.isChild, Req.isRevision_revTarget]

theorem Req.isRevWrite_hook : (Req.hook n q).isRevWrite = false := by
  simp [Req.isRevWrite, Req.isRevision, Req.target?]

theorem Req.isRevWrite_get : (Req.api .get t b o).isRevWrite = false := by
  simp [Req.isRevWrite, Req.isWrite, Req.verb?, Verb.isWrite]

theorem Req.isRevWrite_of_not_rev (h : ¬ (t.group = revGroup ∧ t.resource = revResource)) :
    (Req.api v t b o).isRevWrite = false := by
  simp only [Req.isRevWrite, Req.isRevision, Req.target?]
  cases hg : t.group == revGroup <;> cases hr : t.resource == revResource <;> simp_all

theorem Req.isChildMutation_of_verb (h : v = .get ∨ v = .update ∨ v = .updateStatus) :
    (Req.api v t b o).isChildMutation pt = false := by
  rcases h with rfl | rfl | rfl <;>
  · simp only [Req.isChildMutation, Req.verb?]
    cases Req.isChild pt _ <;> rfl

theorem Req.isChildMutation_of_not_child (r : Req) (h : r.isChild pt = false) : r.isChildMutation pt = false := by
  simp [Req.isChildMutation, h]

theorem Req.isChildWrite_of_not_child (r : Req) (h : r.isChild pt = false) : r.isChildWrite pt = false := by
  simp [Req.isChildWrite, h]

theorem Req.isChildCreate_of_not_child (r : Req) (h : r.isChild pt = false) : r.isChildCreate pt = false := by
  simp [Req.isChildCreate, h]

theorem Req.isChildWrite_get : (Req.api .get t b o).isChildWrite pt = false := by
  simp [Req.isChildWrite, Req.isWrite, Req.verb?, Verb.isWrite]
end Classes

/-- the resources `ManageChildren` can touch are the configured child resources -/
theorem Cfg.kindTable_find (c : Cfg) (av k : String) (info : KindInfo) (h : c.kindTable.find av k = some info) :
    ∃ ch ∈ c.children, info.group = ch.group ∧ info.resource = ch.resource ∧ info.namespaced = ch.namespaced := by
  unfold KindTable.find at h
  cases hf : List.find? (fun e => e.1.1 == av && e.1.2 == k) c.kindTable with
  | none => simp [hf] at h
  | some e =>
    simp only [hf, Option.map_some, Option.some.injEq] at h
    have hm := List.mem_of_find?_eq_some hf
    simp only [Cfg.kindTable, List.append_nil, List.mem_map] at hm
    obtain ⟨ch, hch, rfl⟩ := hm
    exact ⟨ch, hch, by simp [← h]⟩


/-! ### halting after a failed ControllerRevision write -/

/-- `manageRevisions`: the first failure aborts - after an error answer nothing more is issued and the
    program returns an error -/
theorem manageRevisions_haltsAfterR (ns : String) (observed : List J) (desired : List (J × List CGroup)) :
    HaltsAfterR (fun _ x => x.isErr = true) (fun _ => True) PE.IsError (manageRevisions ns observed desired) := by
  unfold manageRevisions
  dsimp only
  split
  · exact .ret _
  · apply PE.haltsAfterR_bind
    · apply PE.haltsAfterR_forM
      intro rev
      split
      · exact .ret _
      · apply PE.haltsAfterR_request
        · intro x hx
          cases x <;> simp [Resp.isErr] at hx
          exact ⟨_, rfl⟩
        · intro x
          split <;> exact .ret _
    · intro _
      apply PE.haltsAfterR_forM
      intro d
      split
      · split
        · exact .ret _
        · apply PE.haltsAfterR_request
          · intro x hx
            cases x <;> simp [Resp.isErr] at hx
            exact ⟨_, rfl⟩
          · intro x
            split <;> exact .ret _
      · apply PE.haltsAfterR_request
        · intro x hx
          cases x <;> simp [Resp.isErr] at hx
          exact ⟨_, rfl⟩
        · intro x
          split <;> exact .ret _

/-- a failed ControllerRevision write -/
def RevWriteFailed (r : Req) (x : Resp) : Prop := r.isRevWrite = true ∧ x.isErr = true

theorem syncRevisionsFrom_haltsAfterR (c : Cfg) (parent : J) (observed related : ObjMap) (name : String) (revs : List J) :
    HaltsAfterR RevWriteFailed (fun _ => True) PE.IsError (syncRevisionsFrom c parent observed related name revs) := by
  have h2 : ∀ inputs, AllCalls (fun r => ∀ x, ¬ RevWriteFailed r x) (callHooks c parent observed related inputs) :=
    callHooks_calls c parent observed related (fun n q x hx => by simp [RevWriteFailed, Req.isRevWrite_hook] at hx)
  have h3 : ∀ obs des, HaltsAfterR RevWriteFailed (fun _ => True) PE.IsError (manageRevisions (getNamespace parent) obs des) :=
    fun obs des => (manageRevisions_haltsAfterR _ obs des).monoG (fun r x h => h.2)
  unfold syncRevisionsFrom
  dsimp -zeta only
  extract_lets fps jp2
  apply PE.haltsAfterR_bind (PE.haltsAfterR_ofExcept _)
  intro latestPatch
  apply PE.haltsAfterR_bind (PE.haltsAfterR_ofExcept _)
  intro ⟨latestRev, others⟩
  dsimp -zeta only
  extract_lets jp
  have hjp2 : ∀ x, HaltsAfterR RevWriteFailed (fun _ => True) PE.IsError (jp2 x) := by
    intro x
    unfold jp2
    apply PE.haltsAfterR_bind (PE.haltsAfterR_ofExcept _)
    intro y
    apply PE.haltsAfterR_bind (h3 _ _)
    intro _
    exact .ret _
  have hjp : ∀ x, HaltsAfterR RevWriteFailed (fun _ => True) PE.IsError (jp x) := by
    intro x
    unfold jp
    apply PE.haltsAfterR_bind (PE.haltsAfterR_lift (h2 _))
    intro results
    split
    · exact PE.haltsAfterR_bind (.ret _) hjp2
    · exact PE.haltsAfterR_bind (.ret _) hjp2
  split
  · exact PE.haltsAfterR_bind (.ret _) hjp
  · exact PE.haltsAfterR_bind (PE.haltsAfterR_ofExcept _) hjp


/-- a failed ControllerRevision write that neither the claim logic swallows nor the retry loop retries -/
def RevWriteHardFailed (r : Req) (x : Resp) : Prop := r.isRevWrite = true ∧ HardErr x

theorem claimRevisions_hardHalts (c : Cfg) (cache : Cache) (parent : J) (pt : Target) :
    HaltsAfterR RevWriteHardFailed (fun r => r.isChildWrite pt = true) PE.IsError (claimRevisions c cache parent) := by
  unfold claimRevisions
  apply PE.haltsAfterR_bind (PE.haltsAfterR_ofExcept _)
  intro selector
  dsimp only
  refine PE.haltsAfterR_bind_lift (claimAll_hardHalts _ ?_ ?_ ?_ _ _) (fun a => ?_) (fun a ha => ?_)
  · intro r x h
    refine ⟨h.2, ?_⟩
    have := h.1
    simp only [Req.isRevWrite, Bool.and_eq_true] at this
    exact this.2
  · intro t
    simp [Req.isChildWrite_get]
  · intro o b
    simp [Req.isChildWrite_of_not_child pt _ (Req.isChild_revTarget _ pt _ _ _ _)]
  · obtain ⟨claimed, errs⟩ := a
    dsimp only
    split <;> exact .ret _
  · obtain ⟨claimed, errs⟩ := a
    dsimp only at ha ⊢
    have : (!errs.isEmpty) = true := by cases errs <;> simp at ha ⊢
    rw [if_pos this]
    exact ⟨.ret _, .ret _ True.intro⟩

theorem syncRevisions_hardHalts (c : Cfg) (cache : Cache) (parent : J) (observed related : ObjMap) (name : String) (pt : Target) :
    HaltsAfterR RevWriteHardFailed (fun r => r.isChildWrite pt = true) PE.IsError
      (syncRevisions c cache parent observed related name) := by
  rw [syncRevisions_eq]
  split
  · apply HaltsAfterR.of_noG
    apply callHookComposite_calls
    intro n q x hx
    simp [RevWriteHardFailed, Req.isRevWrite_hook] at hx
  · apply PE.haltsAfterR_bind (claimRevisions_hardHalts c cache parent pt)
    intro revs
    refine ((syncRevisionsFrom_haltsAfterR c parent observed related name revs).monoG ?_).monoQ (fun _ _ => True.intro)
    intro r x h
    obtain ⟨h1, e, rfl, _⟩ := h
    exact ⟨h1, rfl⟩

end Mc
