import Mc.Sync.Types
/-
  Generic lemmas about `Prog` / `PE` programs used by the C02 / C06 / C12 / C13 property files:
  how `AllCalls` and `AllRets` travel through `bind`, `PE.bind`, `PE.lift`, `foldlM`, `forM`.
-/
namespace Mc
namespace Prog

theorem bind_ret {α β : Type} (a : α) (f : α → Prog β) : Prog.bind (.ret a) f = f a := rfl
theorem bind_call {α β : Type} (r : Req) (k : Resp → Prog α) (f : α → Prog β) :
    Prog.bind (.call r k) f = .call r (fun x => Prog.bind (k x) f) := rfl

theorem monad_bind_eq {α β : Type} (p : Prog α) (f : α → Prog β) : (p >>= f) = Prog.bind p f := rfl
theorem monad_pure_eq {α : Type} (a : α) : (pure a : Prog α) = Prog.ret a := rfl

theorem bind_assoc {α β γ : Type} (p : Prog α) (f : α → Prog β) (g : β → Prog γ) :
    Prog.bind (Prog.bind p f) g = Prog.bind p (fun a => Prog.bind (f a) g) := by
  induction p with
  | ret a => rfl
  | call r k ih => simp only [bind_call, ih]

theorem bind_ret_right {α : Type} (p : Prog α) : Prog.bind p Prog.ret = p := by
  induction p with
  | ret a => rfl
  | call r k ih => simp only [bind_call, ih]

theorem AllCalls.pure {α : Type} {P : Req → Prop} (a : α) : AllCalls P (Pure.pure a : Prog α) := .ret a

theorem AllCalls.mbind {α β : Type} {P : Req → Prop} {p : Prog α} {f : α → Prog β}
    (hp : AllCalls P p) (hf : ∀ a, AllCalls P (f a)) : AllCalls P (p >>= f) := AllCalls.bind hp hf

theorem AllCalls.request {P : Req → Prop} (r : Req) (h : P r) : AllCalls P (Prog.request r) :=
  .call r _ h (fun x => .ret x)

theorem AllCalls.ite {α : Type} {P : Req → Prop} {c : Prop} [Decidable c] {a b : Prog α}
    (ha : c → AllCalls P a) (hb : ¬ c → AllCalls P b) : AllCalls P (if c then a else b) := by
  split
  · exact ha ‹_›
  · exact hb ‹_›

theorem AllCalls.and {α : Type} {P Q : Req → Prop} {p : Prog α} (hp : AllCalls P p) (hq : AllCalls Q p) :
    AllCalls (fun r => P r ∧ Q r) p := by
  induction hp with
  | ret a => exact .ret a
  | call r k hr _ ih =>
    cases hq with
    | call _ _ hq hk => exact .call r k ⟨hr, hq⟩ (fun x => ih x (hk x))

/-- inversion of `AllCalls` through `bind`: the first program satisfies it -/
theorem AllCalls.of_bind_left {α β : Type} {P : Req → Prop} {p : Prog α} {f : α → Prog β}
    (h : AllCalls P (p.bind f)) : AllCalls P p := by
  induction p with
  | ret a => exact .ret a
  | call r k ih =>
    rw [bind_call] at h
    cases h with
    | call _ _ hr hk => exact .call r k hr (fun x => ih x (hk x))

theorem AllCalls.foldlM {α β : Type} {P : Req → Prop} (f : β → α → Prog β) :
    ∀ (xs : List α) (init : β), (∀ b, ∀ x ∈ xs, AllCalls P (f b x)) → AllCalls P (xs.foldlM f init) := by
  intro xs
  induction xs with
  | nil => intro init _; exact .ret init
  | cons x rest ih =>
    intro init h
    rw [List.foldlM_cons]
    exact AllCalls.bind (h init x (List.mem_cons_self ..)) (fun b => ih b (fun b' y hy => h b' y (List.mem_cons_of_mem _ hy)))

/-! ### AllRets -/

theorem AllRets.bind {α β : Type} {R : α → Prop} {S : β → Prop} {p : Prog α} {f : α → Prog β}
    (hp : AllRets R p) (hf : ∀ a, R a → AllRets S (f a)) : AllRets S (p.bind f) := by
  induction hp with
  | ret a ha => exact hf a ha
  | call r k _ ih => exact .call r _ (fun x => ih x)

theorem AllRets.mbind {α β : Type} {R : α → Prop} {S : β → Prop} {p : Prog α} {f : α → Prog β}
    (hp : AllRets R p) (hf : ∀ a, R a → AllRets S (f a)) : AllRets S (p >>= f) := AllRets.bind hp hf

theorem AllRets.mono {α : Type} {R S : α → Prop} {p : Prog α} (h : ∀ a, R a → S a)
    (hp : AllRets R p) : AllRets S p := by
  induction hp with
  | ret a ha => exact .ret a (h a ha)
  | call r k _ ih => exact .call r k ih

theorem AllRets.ite {α : Type} {R : α → Prop} {c : Prop} [Decidable c] {a b : Prog α}
    (ha : c → AllRets R a) (hb : ¬ c → AllRets R b) : AllRets R (if c then a else b) := by
  split
  · exact ha ‹_›
  · exact hb ‹_›

theorem AllRets.trivial {α : Type} (p : Prog α) : AllRets (fun _ => True) p := by
  induction p with
  | ret a => exact .ret a True.intro
  | call r k ih => exact .call r k ih

theorem AllRets.pure {α : Type} {R : α → Prop} (a : α) (h : R a) : AllRets R (Pure.pure a : Prog α) := .ret a h

theorem AllRets.foldlM {α β : Type} {R : β → Prop} (f : β → α → Prog β) :
    ∀ (xs : List α) (init : β), R init → (∀ b, R b → ∀ x ∈ xs, AllRets R (f b x)) → AllRets R (xs.foldlM f init) := by
  intro xs
  induction xs with
  | nil => intro init h _; exact .ret init h
  | cons x rest ih =>
    intro init hi h
    rw [List.foldlM_cons]
    exact AllRets.bind (h init hi x (List.mem_cons_self ..))
      (fun b hb => ih b hb (fun b' hb' y hy => h b' hb' y (List.mem_cons_of_mem _ hy)))

/-! ### response-independent request sequences -/

/-- every branch of the program issues exactly the requests `rs`, in this order, whatever the responses -/
inductive Issues {α : Type} : List Req → Prog α → Prop where
  | ret (a : α) : Issues [] (.ret a)
  | call (r : Req) (k : Resp → Prog α) (rs : List Req) : (∀ x, Issues rs (k x)) → Issues (r :: rs) (.call r k)

theorem Issues.bind {α β : Type} {rs rs' : List Req} {p : Prog α} {f : α → Prog β}
    (hp : Issues rs p) (hf : ∀ a, Issues rs' (f a)) : Issues (rs ++ rs') (p.bind f) := by
  induction hp with
  | ret a => exact hf a
  | call r k rs _ ih => exact .call r _ _ (fun x => ih x)

theorem Issues.map {α β : Type} {rs : List Req} {p : Prog α} (hp : Issues rs p) (g : α → β) :
    Issues rs (p.bind (fun a => .ret (g a))) := by
  induction hp with
  | ret a => exact .ret _
  | call r k rs _ ih => exact .call r _ _ (fun x => ih x)

theorem Issues.foldlM {α β : Type} (f : β → α → Prog β) (rs : α → List Req) :
    ∀ (xs : List α) (init : β), (∀ b, ∀ x ∈ xs, Issues (rs x) (f b x)) → Issues (xs.flatMap rs) (xs.foldlM f init) := by
  intro xs
  induction xs with
  | nil => intro init _; exact .ret init
  | cons x rest ih =>
    intro init h
    rw [List.foldlM_cons, List.flatMap_cons]
    exact Issues.bind (h init x (List.mem_cons_self ..)) (fun b => ih b (fun b' y hy => h b' y (List.mem_cons_of_mem _ hy)))

/-- one complete branch: the (request, response) pairs met and the result reached -/
inductive Trace {α : Type} : Prog α → List (Req × Resp) → α → Prop where
  | ret (a : α) : Trace (.ret a) [] a
  | call (r : Req) (k : Resp → Prog α) (x : Resp) (l : List (Req × Resp)) (a : α) :
      Trace (k x) l a → Trace (.call r k) ((r, x) :: l) a

theorem Trace.bind_inv {α β : Type} {p : Prog α} {f : α → Prog β} {l : List (Req × Resp)} {b : β}
    (h : Trace (p.bind f) l b) : ∃ l1 l2 a, l = l1 ++ l2 ∧ Trace p l1 a ∧ Trace (f a) l2 b := by
  induction p generalizing l with
  | ret a => exact ⟨[], l, a, rfl, .ret a, h⟩
  | call r k ih =>
    rw [bind_call] at h
    cases h with
    | call _ _ x l' _ h' =>
      obtain ⟨l1, l2, a, rfl, h1, h2⟩ := ih x h'
      exact ⟨(r, x) :: l1, l2, a, rfl, .call r k x l1 a h1, h2⟩

theorem Trace.bind {α β : Type} {p : Prog α} {f : α → Prog β} {l1 l2 : List (Req × Resp)} {a : α} {b : β}
    (h1 : Trace p l1 a) (h2 : Trace (f a) l2 b) : Trace (p.bind f) (l1 ++ l2) b := by
  induction h1 with
  | ret a => exact h2
  | call r k x l a _ ih => exact .call r _ x _ b (ih h2)

theorem Trace.ret_inv {α : Type} {a b : α} {l : List (Req × Resp)} (h : Trace (.ret a) l b) : l = [] ∧ b = a := by
  cases h; exact ⟨rfl, rfl⟩

theorem Trace.call_inv {α : Type} {r : Req} {k : Resp → Prog α} {b : α} {l : List (Req × Resp)}
    (h : Trace (.call r k) l b) : ∃ x l', l = (r, x) :: l' ∧ Trace (k x) l' b := by
  cases h with
  | call _ _ x l' _ h' => exact ⟨x, l', rfl, h'⟩

/-! ### stopping after an event -/

theorem AllCalls.bind_of_rets {α β : Type} {P : Req → Prop} {R : α → Prop} {p : Prog α} {f : α → Prog β}
    (hp : AllCalls P p) (hr : AllRets R p) (hf : ∀ a, R a → AllCalls P (f a)) : AllCalls P (p.bind f) := by
  induction hp with
  | ret a => cases hr with | ret _ ha => exact hf a ha
  | call r k hpr _ ih =>
    cases hr with
    | call _ _ hk => exact .call r _ hpr (fun x => ih x (hk x))

/-- after a (request, response) pair satisfying `G`: no `Q`-request is issued any more and every result satisfies `R` -/
inductive StopsAfter {α : Type} (G : Req → Resp → Prop) (Q : Req → Prop) (R : α → Prop) : Prog α → Prop where
  | ret (a : α) : StopsAfter G Q R (.ret a)
  | call (r : Req) (k : Resp → Prog α) :
      (∀ x, G r x → NoQ Q (k x) ∧ AllRets R (k x)) → (∀ x, StopsAfter G Q R (k x)) → StopsAfter G Q R (.call r k)

theorem StopsAfter.of_noG {α : Type} {G : Req → Resp → Prop} {Q : Req → Prop} {R : α → Prop} {p : Prog α}
    (h : AllCalls (fun r => ∀ x, ¬ G r x) p) : StopsAfter G Q R p := by
  induction h with
  | ret a => exact .ret a
  | call r k hr _ ih => exact .call r k (fun x hx => absurd hx (hr x)) ih

theorem StopsAfter.bind {α β : Type} {G : Req → Resp → Prop} {Q : Req → Prop} {R : α → Prop} {S : β → Prop}
    {p : Prog α} {f : α → Prog β}
    (hp : StopsAfter G Q R p) (hf : ∀ a, StopsAfter G Q S (f a))
    (hR : ∀ a, R a → NoQ Q (f a) ∧ AllRets S (f a)) : StopsAfter G Q S (p.bind f) := by
  induction hp with
  | ret a => exact hf a
  | call r k hg _ ih =>
    refine .call r _ ?_ (fun x => ih x)
    intro x hx
    obtain ⟨h1, h2⟩ := hg x hx
    exact ⟨AllCalls.bind_of_rets h1 h2 (fun a ha => (hR a ha).1), AllRets.bind h2 (fun a ha => (hR a ha).2)⟩

theorem StopsAfter.bind_noG {α β : Type} {G : Req → Resp → Prop} {Q : Req → Prop} {S : β → Prop}
    {p : Prog α} {f : α → Prog β}
    (hp : AllCalls (fun r => ∀ x, ¬ G r x) p) (hf : ∀ a, StopsAfter G Q S (f a)) : StopsAfter G Q S (p.bind f) :=
  StopsAfter.bind (R := fun _ => False) (StopsAfter.of_noG hp) hf (fun _ h => h.elim)

theorem StopsAfter.mono {α : Type} {G : Req → Resp → Prop} {Q : Req → Prop} {R S : α → Prop} {p : Prog α}
    (h : ∀ a, R a → S a) (hp : StopsAfter G Q R p) : StopsAfter G Q S p := by
  induction hp with
  | ret a => exact .ret a
  | call r k hg _ ih => exact .call r k (fun x hx => ⟨(hg x hx).1, AllRets.mono h (hg x hx).2⟩) ih

theorem StopsAfter.ite {α : Type} {G : Req → Resp → Prop} {Q : Req → Prop} {R : α → Prop} {c : Prop} [Decidable c] {a b : Prog α}
    (ha : c → StopsAfter G Q R a) (hb : ¬ c → StopsAfter G Q R b) : StopsAfter G Q R (if c then a else b) := by
  split
  · exact ha ‹_›
  · exact hb ‹_›

theorem StopsAfter.haltsAfter {α : Type} {G : Req → Resp → Prop} {Q : Req → Prop} {R : α → Prop} {p : Prog α}
    (hp : StopsAfter G Q R p) : HaltsAfter G Q p := by
  induction hp with
  | ret a => exact .ret a
  | call r k hg _ ih => exact .call r k (fun x hx => (hg x hx).1) ih

end Prog

/-! ### the `PE` monad -/
namespace PE
open Prog

theorem monad_bind_eq {α β : Type} (p : PE α) (f : α → PE β) : (p >>= f) = PE.bind p f := rfl
theorem monad_pure_eq {α : Type} (a : α) : (Pure.pure a : PE α) = Prog.ret (.ok a) := rfl

theorem allCalls_bind {α β : Type} {P : Req → Prop} {p : PE α} {f : α → PE β}
    (hp : AllCalls P (p : Prog _)) (hf : ∀ a, AllCalls P (f a : Prog _)) : AllCalls P (PE.bind p f : Prog _) := by
  unfold PE.bind
  refine AllCalls.bind hp ?_
  intro r
  cases r with
  | ok a => exact hf a
  | error e => exact .ret _

theorem allCalls_mbind {α β : Type} {P : Req → Prop} {p : PE α} {f : α → PE β}
    (hp : AllCalls P (p : Prog _)) (hf : ∀ a, AllCalls P (f a : Prog _)) : AllCalls P ((p >>= f : PE β) : Prog _) :=
  allCalls_bind hp hf

theorem allCalls_pure {α : Type} {P : Req → Prop} (a : α) : AllCalls P ((Pure.pure a : PE α) : Prog _) := .ret _
theorem allCalls_fail {α : Type} {P : Req → Prop} (m : String) : AllCalls P ((PE.fail m : PE α) : Prog _) := .ret _
theorem allCalls_throw {α : Type} {P : Req → Prop} (e : Err) : AllCalls P ((PE.throw e : PE α) : Prog _) := .ret _
theorem allCalls_ofExcept {α : Type} {P : Req → Prop} (e : Except String α) : AllCalls P ((PE.ofExcept e : PE α) : Prog _) := by
  cases e <;> exact .ret _
theorem allCalls_lift {α : Type} {P : Req → Prop} {p : Prog α} (hp : AllCalls P p) : AllCalls P ((PE.lift p : PE α) : Prog _) :=
  AllCalls.bind hp (fun _ => .ret _)

theorem allCalls_foldlM {α β : Type} {P : Req → Prop} (f : β → α → PE β) :
    ∀ (xs : List α) (init : β), (∀ b, ∀ x ∈ xs, AllCalls P (f b x : Prog _)) → AllCalls P ((xs.foldlM f init : PE β) : Prog _) := by
  intro xs
  induction xs with
  | nil => intro init _; exact .ret _
  | cons x rest ih =>
    intro init h
    rw [List.foldlM_cons]
    exact allCalls_mbind (h init x (List.mem_cons_self ..)) (fun b => ih b (fun b' y hy => h b' y (List.mem_cons_of_mem _ hy)))

theorem forM_cons' {m : Type → Type} [Monad m] {α : Type} (f : α → m PUnit) (a : α) (as : List α) :
    (a :: as).forM f = (f a >>= fun _ => as.forM f) := rfl

theorem allCalls_forM {α : Type} {P : Req → Prop} (f : α → PE PUnit) :
    ∀ (xs : List α), (∀ x ∈ xs, AllCalls P (f x : Prog _)) → AllCalls P ((xs.forM f : PE PUnit) : Prog _) := by
  intro xs
  induction xs with
  | nil => intro _; exact .ret _
  | cons x rest ih =>
    intro h
    rw [forM_cons']
    exact allCalls_mbind (h x (List.mem_cons_self ..)) (fun _ => ih (fun y hy => h y (List.mem_cons_of_mem _ hy)))

/-- no leaf of the program is an error satisfying `E` -/
def Avoids {α : Type} (E : Err → Prop) (p : PE α) : Prop := AllRets (fun r => ∀ e, r = .error e → ¬ E e) (p : Prog _)

def isPanic (e : Err) : Prop := ∃ m, e = .panic m
def isTooMany (e : Err) : Prop := ∃ n, e = .tooMany n

/-- no leaf of the program is a panic -/
abbrev NoPanic {α : Type} (p : PE α) : Prop := Avoids isPanic p

theorem not_isPanic_fail (m : String) : ¬ isPanic (.fail m) := by rintro ⟨_, h⟩; cases h
theorem not_isPanic_tooMany (n : Int) : ¬ isPanic (.tooMany n) := by rintro ⟨_, h⟩; cases h
theorem not_isTooMany_fail (m : String) : ¬ isTooMany (.fail m) := by rintro ⟨_, h⟩; cases h

section
variable {E : Err → Prop}

theorem avoids_ret_ok {α : Type} (a : α) : Avoids E (Prog.ret (.ok a) : PE α) := .ret _ (fun _ h => by cases h)
theorem avoids_pure {α : Type} (a : α) : Avoids E (Pure.pure a : PE α) := avoids_ret_ok a
theorem avoids_ret_error {α : Type} (e : Err) (he : ¬ E e) : Avoids E (Prog.ret (.error e) : PE α) :=
  .ret _ (fun e' h => by cases h; exact he)
theorem avoids_throw {α : Type} (e : Err) (he : ¬ E e) : Avoids E (PE.throw e : PE α) := avoids_ret_error e he
theorem avoids_fail {α : Type} (hE : ∀ m, ¬ E (.fail m)) (m : String) : Avoids E (PE.fail m : PE α) := avoids_ret_error _ (hE m)
theorem avoids_ofExcept {α : Type} (hE : ∀ m, ¬ E (.fail m)) (e : Except String α) : Avoids E (PE.ofExcept e : PE α) := by
  cases e
  · exact avoids_fail hE _
  · exact avoids_ret_ok _
theorem avoids_lift {α : Type} (p : Prog α) : Avoids E (PE.lift p : PE α) :=
  AllRets.bind (AllRets.trivial p) (fun a _ => avoids_ret_ok a)

theorem avoids_bind {α β : Type} {p : PE α} {f : α → PE β}
    (hp : Avoids E p) (hf : ∀ a, Avoids E (f a)) : Avoids E (PE.bind p f) := by
  unfold PE.bind
  refine AllRets.bind hp ?_
  intro r hr
  cases r with
  | ok a => exact hf a
  | error e => exact avoids_ret_error e (hr e rfl)

theorem avoids_mbind {α β : Type} {p : PE α} {f : α → PE β}
    (hp : Avoids E p) (hf : ∀ a, Avoids E (f a)) : Avoids E (p >>= f : PE β) := avoids_bind hp hf

/-- binding a lifted program: what is known about its results is available to the continuation -/
theorem avoids_mbind_lift {α β : Type} {R : α → Prop} {p : Prog α} {f : α → PE β}
    (hp : AllRets R p) (hf : ∀ a, R a → Avoids E (f a)) : Avoids E (PE.lift p >>= f : PE β) := by
  show Avoids E (PE.bind (PE.lift p) f)
  unfold PE.bind PE.lift
  rw [Prog.bind_assoc]
  exact AllRets.bind hp (fun a ha => hf a ha)

theorem avoids_ite {α : Type} {c : Prop} [Decidable c] {a b : PE α}
    (ha : c → Avoids E a) (hb : ¬ c → Avoids E b) : Avoids E (if c then a else b) := by
  split
  · exact ha ‹_›
  · exact hb ‹_›

theorem avoids_foldlM {α β : Type} (f : β → α → PE β) :
    ∀ (xs : List α) (init : β), (∀ b, ∀ x ∈ xs, Avoids E (f b x)) → Avoids E (xs.foldlM f init : PE β) := by
  intro xs
  induction xs with
  | nil => intro init _; exact avoids_ret_ok _
  | cons x rest ih =>
    intro init h
    rw [List.foldlM_cons]
    exact avoids_mbind (h init x (List.mem_cons_self ..)) (fun b => ih b (fun b' y hy => h b' y (List.mem_cons_of_mem _ hy)))

theorem avoids_forM {α : Type} (f : α → PE PUnit) :
    ∀ (xs : List α), (∀ x ∈ xs, Avoids E (f x)) → Avoids E (xs.forM f : PE PUnit) := by
  intro xs
  induction xs with
  | nil => intro _; exact avoids_ret_ok _
  | cons x rest ih =>
    intro h
    rw [forM_cons']
    exact avoids_mbind (h x (List.mem_cons_self ..)) (fun _ => ih (fun y hy => h y (List.mem_cons_of_mem _ hy)))

end

/-- a result that is an error satisfying `K` -/
def IsErrP {α : Type} (K : Err → Prop) (r : Except Err α) : Prop := ∃ e, r = .error e ∧ K e

/-- a result that is an error -/
abbrev IsErr {α : Type} (r : Except Err α) : Prop := IsErrP (fun _ => True) r

section
variable {K : Err → Prop}

/-- in `PE`, stopping composes: after the event the first part ends in an error, so the rest is skipped -/
theorem stops_bind {α β : Type} {G : Req → Resp → Prop} {Q : Req → Prop} {p : PE α} {f : α → PE β}
    (hp : StopsAfter G Q (IsErrP K) (p : Prog _)) (hf : ∀ a, StopsAfter G Q (IsErrP K) (f a : Prog _)) :
    StopsAfter G Q (IsErrP K) (PE.bind p f : Prog _) := by
  unfold PE.bind
  refine StopsAfter.bind hp ?_ ?_
  · intro r
    cases r with
    | ok a => exact hf a
    | error e => exact .ret _
  · rintro r ⟨e, rfl, he⟩
    exact ⟨.ret _, .ret _ ⟨e, rfl, he⟩⟩

theorem stops_mbind {α β : Type} {G : Req → Resp → Prop} {Q : Req → Prop} {p : PE α} {f : α → PE β}
    (hp : StopsAfter G Q (IsErrP K) (p : Prog _)) (hf : ∀ a, StopsAfter G Q (IsErrP K) (f a : Prog _)) :
    StopsAfter G Q (IsErrP K) ((p >>= f : PE β) : Prog _) := stops_bind hp hf

/-- a single request whose continuation issues nothing more -/
theorem stops_request_bind {β : Type} {G : Req → Resp → Prop} {Q : Req → Prop} (r : Req) (f : Resp → PE β)
    (h0 : ∀ x, AllCalls (fun _ => False) (f x : Prog _)) (hG : ∀ x, G r x → AllRets (IsErrP K) (f x : Prog _)) :
    StopsAfter G Q (IsErrP K) ((PE.lift (Prog.request r) >>= f : PE β) : Prog _) := by
  show StopsAfter G Q (IsErrP K) (Prog.call r (fun x => (f x : Prog _)))
  refine .call r _ (fun x hx => ⟨AllCalls.mono (fun _ h => h.elim) (h0 x), hG x hx⟩) (fun x => ?_)
  exact StopsAfter.of_noG (AllCalls.mono (fun _ h => h.elim) (h0 x))

theorem stops_mbind_lift {α β : Type} {G : Req → Resp → Prop} {Q : Req → Prop} {R : α → Prop} {p : Prog α} {f : α → PE β}
    (hp : StopsAfter G Q R p) (hf : ∀ a, StopsAfter G Q (IsErrP K) (f a : Prog _))
    (hR : ∀ a, R a → NoQ Q (f a : Prog _) ∧ AllRets (IsErrP K) (f a : Prog _)) :
    StopsAfter G Q (IsErrP K) ((PE.lift p >>= f : PE β) : Prog _) := by
  show StopsAfter G Q (IsErrP K) (PE.bind (PE.lift p) f : Prog _)
  unfold PE.bind PE.lift
  rw [Prog.bind_assoc]
  exact StopsAfter.bind hp hf hR

theorem stops_mbind_noG {α β : Type} {G : Req → Resp → Prop} {Q : Req → Prop} {p : PE α} {f : α → PE β}
    (hp : AllCalls (fun r => ∀ x, ¬ G r x) (p : Prog _)) (hf : ∀ a, StopsAfter G Q (IsErrP K) (f a : Prog _)) :
    StopsAfter G Q (IsErrP K) ((p >>= f : PE β) : Prog _) := stops_bind (StopsAfter.of_noG hp) hf

end

end PE
end Mc
