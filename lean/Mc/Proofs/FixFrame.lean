import Mc.Proofs.ApplyFix
/-
  Fixpoints of the 3-way merge do not depend on what the desired object does not mention: if `x` is a fixpoint for
  `d` (as last-applied and desired), and `y` differs from `x` only in top-level fields and metadata fields that `d`
  does not have, then `y` is a fixpoint too.  This carries the idempotence law of C05 over the writes that
  `ApplyUpdate` and the API server make after the merge (system metadata, status, the last-applied record,
  generation, resourceVersion).
-/
namespace Mc
open C05

/-- `x` is left alone by a merge with `d` as last-applied and desired -/
def Fix (mks : List String) (d x : J) : Prop := merge mks x (some d) d = .ok x

theorem fix_obj_iff (mks : List String) (ds xs : KVs) (hu : uniq ds) :
    Fix mks (.obj ds) (.obj xs) ↔ ∀ k v, (k, v) ∈ ds → ∃ m, lookup k xs = some m ∧ Fix mks v m := by
  unfold Fix
  simp only [merge, lastObj, prune_self]
  constructor
  · intro h k v hm
    obtain ⟨rk, hr, h1, _⟩ := mergeFields_spec mks ds ds xs _ hu h
    cases hr
    obtain ⟨m, hlk, hmm⟩ := h1 k v hm
    refine ⟨m, hlk, ?_⟩
    rw [hlk, lookup_of_mem_uniq ds k v hu hm] at hmm
    exact hmm
  · intro h
    refine mergeFields_fix mks ds xs ds ?_
    intro k v hm
    obtain ⟨m, hlk, hf⟩ := h k v hm
    refine ⟨m, hlk, ?_⟩
    rw [lookup_of_mem_uniq ds k v hu hm]
    exact hf

/-- `y` is `x` edited outside what `d` (top level `ds`, metadata `dm`) mentions -/
def EditOutside (ds dm : KVs) (x y : J) : Prop :=
  ∃ xs ys mx my, x = .obj xs ∧ y = .obj ys ∧ lookup "metadata" xs = some (.obj mx) ∧ lookup "metadata" ys = some (.obj my) ∧
    (∀ k, k ≠ "metadata" → hasKey k ds = true → lookup k ys = lookup k xs) ∧
    (∀ f, hasKey f dm = true → lookup f my = lookup f mx)

theorem EditOutside.refl (ds dm xs mx : KVs) (h : lookup "metadata" xs = some (.obj mx)) : EditOutside ds dm (.obj xs) (.obj xs) :=
  ⟨xs, xs, mx, mx, rfl, rfl, h, h, fun _ _ _ => rfl, fun _ _ => rfl⟩

theorem EditOutside.trans {ds dm : KVs} {x y z : J} (h1 : EditOutside ds dm x y) (h2 : EditOutside ds dm y z) : EditOutside ds dm x z := by
  obtain ⟨xs, ys, mx, my, hx, hy, hmx, hmy, ha, hb⟩ := h1
  obtain ⟨ys', zs, my', mz, hy', hz, hmy', hmz, ha', hb'⟩ := h2
  rw [hy] at hy'; cases hy'
  rw [hmy] at hmy'; cases hmy'
  exact ⟨xs, zs, mx, mz, hx, hz, hmx, hmz, fun k hk hh => (ha' k hk hh).trans (ha k hk hh), fun f hf => (hb' f hf).trans (hb f hf)⟩

/-- **frame law for fixpoints** -/
theorem fix_of_editOutside (mks : List String) (ds dm : KVs) (hu : uniq ds) (hudm : uniq dm)
    (hmeta : lookup "metadata" ds = some (.obj dm)) (x y : J)
    (hfix : Fix mks (.obj ds) x) (he : EditOutside ds dm x y) : Fix mks (.obj ds) y := by
  obtain ⟨xs, ys, mx, my, hx, hy, hmx, hmy, ha, hb⟩ := he
  subst hx hy
  rw [fix_obj_iff mks ds xs hu] at hfix
  rw [fix_obj_iff mks ds ys hu]
  intro k v hm
  obtain ⟨m, hlk, hf⟩ := hfix k v hm
  by_cases hk : k = "metadata"
  · subst hk
    have hv : v = .obj dm := by
      have := lookup_of_mem_uniq ds "metadata" v hu hm
      rw [hmeta] at this; cases this; rfl
    subst hv
    rw [hmx] at hlk; cases hlk
    refine ⟨.obj my, hmy, ?_⟩
    rw [fix_obj_iff mks dm mx hudm] at hf
    rw [fix_obj_iff mks dm my hudm]
    intro f v' hm'
    obtain ⟨a, hla, hfa⟩ := hf f v' hm'
    exact ⟨a, (hb f (hasKey_of_mem hm')).trans hla, hfa⟩
  · exact ⟨m, (ha k hk (hasKey_of_mem hm)).trans hlk, hf⟩

end Mc
