import Mc.Proofs.C05Hyps
/-
  C05 clash clause and containment.
-/
set_option linter.unusedSimpArgs false
namespace Mc.C05

theorem clash_null (o : J) : clash o .null = false := by
  cases o <;> simp [clash]

theorem clash_obj_obj (os ds : KVs) : clash (.obj os) (.obj ds) = clashFields os ds := by
  simp [clash]

theorem clash_scalar (o d : J) (h1 : o.isObj = false) (h2 : o.isArr = false) : clash o d = false := by
  cases o <;> simp [J.isObj, J.isArr] at h1 h2 <;> cases d <;> simp [clash]

theorem clash_arr_arr (xs ds : List J) : clash (.arr xs) (.arr ds) = false := by
  simp [clash]

theorem clashFields_true (os : KVs) : ∀ ds : KVs, clashFields os ds = true →
    ∃ k dv ov, (k, dv) ∈ ds ∧ lookup k os = some ov ∧ clash ov dv = true := by
  intro ds
  induction ds with
  | nil => intro h; simp [clashFields] at h
  | cons hd tl ih =>
    obtain ⟨k, dv⟩ := hd
    intro h
    simp only [clashFields, Bool.or_eq_true] at h
    rcases h with h | h
    · cases hl : lookup k os with
      | none => rw [hl] at h; simp at h
      | some ov => rw [hl] at h; exact ⟨k, dv, ov, by simp, hl, h⟩
    · obtain ⟨k', dv', ov', h1, h2, h3⟩ := ih h
      exact ⟨k', dv', ov', by simp [h1], h2, h3⟩

def ClashErr (mks : List String) (d : J) : Prop :=
  ∀ o l, d.wfB = true → clash o d = true → ∃ e, merge mks o l d = .error e

theorem clash_all (mks : List String) : ∀ d, ClashErr mks d := by
  intro d
  induction d using J.induct with
  | hnull => intro o l _ h; rw [clash_null] at h; cases h
  | hbool b =>
    intro o l _ h
    cases o with
    | obj os => exact ⟨_, merge_obj_other _ _ _ _ rfl rfl⟩
    | arr xs => exact ⟨_, merge_arr_other _ _ _ _ rfl rfl⟩
    | null | bool _ | num _ | str _ => rw [clash_scalar _ _ rfl rfl] at h; cases h
  | hnum n =>
    intro o l _ h
    cases o with
    | obj os => exact ⟨_, merge_obj_other _ _ _ _ rfl rfl⟩
    | arr xs => exact ⟨_, merge_arr_other _ _ _ _ rfl rfl⟩
    | null | bool _ | num _ | str _ => rw [clash_scalar _ _ rfl rfl] at h; cases h
  | hstr s =>
    intro o l _ h
    cases o with
    | obj os => exact ⟨_, merge_obj_other _ _ _ _ rfl rfl⟩
    | arr xs => exact ⟨_, merge_arr_other _ _ _ _ rfl rfl⟩
    | null | bool _ | num _ | str _ => rw [clash_scalar _ _ rfl rfl] at h; cases h
  | harr ds _ =>
    intro o l _ h
    cases o with
    | obj os => exact ⟨_, merge_obj_other _ _ _ _ rfl rfl⟩
    | arr xs => rw [clash_arr_arr] at h; cases h
    | null | bool _ | num _ | str _ => rw [clash_scalar _ _ rfl rfl] at h; cases h
  | hobj ds ih =>
    intro o l hw h
    rw [wfB_obj] at hw
    cases o with
    | obj os =>
      rw [clash_obj_obj] at h
      obtain ⟨k, dv, ov, hm, hl, hc⟩ := clashFields_true os ds h
      rw [merge_obj_obj]
      apply mergeFields_error mks _ ds _ k dv hw.1 hm
      rw [lookup_prune_of_hasKey _ _ _ _ (hasKey_of_mem hm), hl]
      exact ih k dv hm ov _ (hw.2 k dv hm) hc
    | arr xs => exact ⟨_, merge_arr_other _ _ _ _ rfl rfl⟩
    | null | bool _ | num _ | str _ => rw [clash_scalar _ _ rfl rfl] at h; cases h

/-! ### containment -/

theorem containsFields_of (rs : KVs) : ∀ ds : KVs,
    (∀ k v, (k, v) ∈ ds → ∃ w, lookup k rs = some w ∧ contains w v = true) → containsFields rs ds = true := by
  intro ds
  induction ds with
  | nil => intro _; simp [containsFields]
  | cons hd tl ih =>
    obtain ⟨k, v⟩ := hd
    intro h
    obtain ⟨w, hw, hc⟩ := h k v (by simp)
    simp only [containsFields, hw, hc, Bool.true_and]
    exact ih (fun k' v' hm => h k' v' (by simp [hm]))

theorem containsItems_of (rs : List J) : ∀ ds : List J,
    (∀ it ∈ ds, ∃ m ∈ rs, contains m it = true) → containsItems rs ds = true := by
  intro ds
  induction ds with
  | nil => intro _; simp [containsItems]
  | cons hd tl ih =>
    intro h
    obtain ⟨m, hm, hc⟩ := h hd (by simp)
    simp only [containsItems, Bool.and_eq_true, List.any_eq_true]
    exact ⟨⟨m, hm, hc⟩, ih (fun it hit => h it (by simp [hit]))⟩

theorem contains_obj_obj (rs ds : KVs) : contains (.obj rs) (.obj ds) = containsFields rs ds := by
  simp [contains]

theorem contains_arr_arr (rs ds : List J) :
    contains (.arr rs) (.arr ds) = (eqvList rs ds || (ds.all J.isObj && containsItems rs ds)) := by
  simp [contains]

def Cont (mks : List String) (d : J) : Prop :=
  ∀ o l r, hypJ mks d = true → merge mks o l d = .ok r → contains r d = true

theorem cont_scalar (mks : List String) (d : J) (h1 : d.isObj = false) (h2 : d.isArr = false)
    (h3 : d.isNull = false) (he : d.eqv d = true) (hc : ∀ r, contains r d = (!d.isObj && !d.isArr && r.eqv d)) :
    Cont mks d := by
  intro o l r _ h
  cases o with
  | obj os => rw [merge_obj_other _ _ _ _ h1 h3] at h; cases h
  | arr xs => rw [merge_arr_other _ _ _ _ h2 h3] at h; cases h
  | null | bool _ | num _ | str _ =>
    rw [merge_scalar _ _ _ _ rfl rfl] at h; cases h
    rw [hc, h1, h2, he]; rfl

theorem cont_all (mks : List String) : ∀ d, Cont mks d := by
  intro d
  induction d using J.induct with
  | hnull => intro o l r _ _; simp [contains]
  | hbool b => exact cont_scalar mks _ rfl rfl rfl (by simp [J.eqv]) (fun r => by cases r <;> simp [contains])
  | hnum n => exact cont_scalar mks _ rfl rfl rfl (by simp [J.eqv]) (fun r => by cases r <;> simp [contains])
  | hstr s => exact cont_scalar mks _ rfl rfl rfl (by simp [J.eqv]) (fun r => by cases r <;> simp [contains])
  | hobj ds ih =>
    intro o l r hd h
    obtain ⟨hu, hdv⟩ := (hypJ_obj mks ds).mp hd
    cases o with
    | obj os =>
      rw [merge_obj_obj] at h
      obtain ⟨rk, hrk, h1, _⟩ := mergeFields_spec mks _ ds _ r hu h
      subst hrk
      rw [contains_obj_obj]
      apply containsFields_of
      intro k v hm
      obtain ⟨m, hlm, hmm⟩ := h1 k v hm
      exact ⟨m, hlm, ih k v hm _ _ m (hdv k v hm) hmm⟩
    | arr xs => rw [merge_arr_other _ _ _ _ rfl rfl] at h; cases h
    | null | bool _ | num _ | str _ =>
      rw [merge_scalar _ _ _ _ rfl rfl] at h; cases h
      rw [contains_obj_obj]
      apply containsFields_of
      intro k v hm
      exact ⟨v, lookup_of_mem_uniq _ _ _ hu hm,
        ih k v hm .null none v (hdv k v hm) (merge_scalar _ _ _ _ rfl rfl)⟩
  | harr ds ih =>
    intro o l r hd h
    have hdi := ((hypJ_arr mks ds).mp hd).2
    have hplain : contains (.arr ds) (.arr ds) = true := by
      rw [contains_arr_arr, eqvList_refl' ds (fun x hx => hypJ_wfB mks x (hdi x hx))]; rfl
    cases o with
    | obj os => rw [merge_obj_other _ _ _ _ rfl rfl] at h; cases h
    | null | bool _ | num _ | str _ =>
      rw [merge_scalar _ _ _ _ rfl rfl] at h; cases h; exact hplain
    | arr xs =>
      cases hdet : detectListMapKey mks [xs, lastArr l, ds] with
      | none => rw [merge_arr_arr_none _ _ _ _ hdet] at h; cases h; exact hplain
      | some mk =>
        obtain ⟨hmk, _, hall, _⟩ := detect_some hdet
        have halld : ∀ it ∈ ds, ∃ kvs, it = .obj kvs ∧ hasKey mk kvs = true :=
          fun it hit => hall it (by simp [hit])
        have hnd := nodup_of_hypJ mks ds mk hd hmk halld
        obtain ⟨merged, hrr, h1, _⟩ := listmap_spec mks xs l ds mk r hdet hnd h
        subst hrr
        rw [contains_arr_arr]
        have h2 : ds.all J.isObj = true := by
          rw [List.all_eq_true]; intro it hit
          obtain ⟨kvs, rfl, _⟩ := halld it hit; rfl
        have h3 : containsItems (rebuild mk xs merged ds) ds = true := by
          apply containsItems_of
          intro it hit
          obtain ⟨m, hm, hmm⟩ := h1 it hit
          exact ⟨m, mem_rebuild_of_des mk xs merged ds hnd it m hit hm, ih it hit _ _ m (hdi it hit) hmm⟩
        rw [h2, h3]; simp

end Mc.C05
