import Mc.Proofs.Laws
/-
  An input-only sufficient condition for `hypJ mks r` (the extra hypothesis of `C05_idempotent`):
  strong uniqueness `hypS` of observed and desired plus key coherence `coh` between them.
-/
set_option linter.unusedSimpArgs false
namespace Mc.C05

/-- items of `xs` that (read as objects) carry key `mk` -/
def having (mk : String) (xs : List J) : List J := xs.filter (fun it => hasKey mk it.fields)

-- strong uniqueness: object keys unique, and under EVERY conventional key the items of a list
-- that carry it have pairwise distinct key values (not only under the keys shared by all items)
mutual
def hypS (mks : List String) : J → Bool
  | .obj kvs => uniqB kvs && hypSF mks kvs
  | .arr xs => mks.all (fun mk => uniqUnder mk (having mk xs)) && hypSL mks xs
  | _ => true
def hypSF (mks : List String) : KVs → Bool
  | [] => true
  | (_, v) :: rest => hypS mks v && hypSF mks rest
def hypSL (mks : List String) : List J → Bool
  | [] => true
  | x :: rest => hypS mks x && hypSL mks rest
end

/-- an observed item and a desired item that denote the same entry under one conventional key
    denote the same entry under every conventional key both carry -/
def cohItem (mks : List String) (x it : J) : Bool :=
  mks.all (fun k1 => mks.all (fun k2 =>
    !(hasKey k1 x.fields && hasKey k2 x.fields && hasKey k1 it.fields && hasKey k2 it.fields) ||
    !(keyOf k1 x == keyOf k1 it) || (keyOf k2 x == keyOf k2 it)))

-- key coherence between observed and desired, structural on desired; as for `noNullOverArr`
-- every observed item is paired with every desired item
mutual
def coh (mks : List String) : J → J → Bool
  | .obj os, .obj ds => cohF mks os ds
  | .arr xs, .arr ds => cohL mks xs ds
  | _, _ => true
termination_by structural _ d => d
def cohF (mks : List String) (os : KVs) : KVs → Bool
  | [] => true
  | (k, v) :: rest => coh mks ((lookup k os).getD .null) v && cohF mks os rest
termination_by structural ds => ds
def cohL (mks : List String) (xs : List J) : List J → Bool
  | [] => true
  | d :: rest => xs.all (fun x => cohItem mks x d && coh mks x d) && cohL mks xs rest
termination_by structural ds => ds
end

/-! ### decomposition lemmas -/

theorem hypSF_iff (mks : List String) : ∀ kvs : KVs, hypSF mks kvs = true ↔ ∀ k v, (k, v) ∈ kvs → hypS mks v = true := by
  intro kvs
  induction kvs with
  | nil => simp [hypSF]
  | cons hd tl ih =>
    obtain ⟨k', v'⟩ := hd
    simp only [hypSF, Bool.and_eq_true, ih]
    constructor
    · intro ⟨h1, h2⟩ k v hm
      simp at hm
      rcases hm with ⟨_, rfl⟩ | hm
      · exact h1
      · exact h2 k v hm
    · intro h
      exact ⟨h k' v' (by simp), fun k v hm => h k v (by simp [hm])⟩

theorem hypSL_iff (mks : List String) : ∀ xs : List J, hypSL mks xs = true ↔ ∀ x ∈ xs, hypS mks x = true := by
  intro xs
  induction xs with
  | nil => simp [hypSL]
  | cons hd tl ih =>
    simp only [hypSL, Bool.and_eq_true, ih]
    constructor
    · intro ⟨h1, h2⟩ x hm
      simp at hm
      rcases hm with rfl | hm
      · exact h1
      · exact h2 x hm
    · intro h
      exact ⟨h hd (by simp), fun x hm => h x (by simp [hm])⟩

theorem hypS_obj (mks : List String) (kvs : KVs) :
    hypS mks (.obj kvs) = true ↔ uniq kvs ∧ ∀ k v, (k, v) ∈ kvs → hypS mks v = true := by
  simp only [hypS, Bool.and_eq_true, uniqB_iff, hypSF_iff]

theorem hypS_arr (mks : List String) (xs : List J) :
    hypS mks (.arr xs) = true ↔
      (∀ mk ∈ mks, ((having mk xs).map (keyOf mk)).Nodup) ∧ ∀ x ∈ xs, hypS mks x = true := by
  simp only [hypS, Bool.and_eq_true, List.all_eq_true, uniqUnder_iff, hypSL_iff]

theorem having_eq_self (mk : String) (xs : List J)
    (h : ∀ it ∈ xs, ∃ kvs, it = .obj kvs ∧ hasKey mk kvs = true) : having mk xs = xs := by
  unfold having
  rw [List.filter_eq_self]
  intro it hit
  obtain ⟨kvs, rfl, hk⟩ := h it hit
  exact hk

theorem mem_sharedKeys_iff (mks : List String) (xs : List J) (mk : String) (h : mk ∈ sharedKeys mks xs) :
    mk ∈ mks ∧ ∀ it ∈ xs, ∃ kvs, it = .obj kvs ∧ hasKey mk kvs = true := by
  rw [sharedKeys_eq] at h
  split at h
  · simp at h
  · rename_i hc
    simp only [Bool.or_eq_true, Bool.not_eq_true', not_or, Bool.not_eq_false] at hc
    rw [List.mem_filter] at h
    refine ⟨h.1, ?_⟩
    intro it hit
    have h1 := sharedIn_mem h.2 hit
    have h2 := (List.all_eq_true.mp hc.2) it hit
    cases it <;> simp [J.isObj] at h2
    exact ⟨_, rfl, h1⟩

theorem hypS_hypJ (mks : List String) : ∀ j : J, hypS mks j = true → hypJ mks j = true := by
  intro j
  induction j using J.induct with
  | hnull => intro _; rfl
  | hbool b => intro _; rfl
  | hnum n => intro _; rfl
  | hstr s => intro _; rfl
  | harr xs ih =>
    intro h
    rw [hypS_arr] at h
    rw [hypJ_arr]
    refine ⟨?_, fun x hx => ih x hx (h.2 x hx)⟩
    intro mk hmk
    obtain ⟨h1, h2⟩ := mem_sharedKeys_iff mks xs mk hmk
    have := h.1 mk h1
    rw [having_eq_self mk xs h2] at this
    exact this
  | hobj kvs ih =>
    intro h
    rw [hypS_obj] at h
    rw [hypJ_obj]
    exact ⟨h.1, fun k v hm => ih k v hm (h.2 k v hm)⟩

theorem cohF_mem (mks : List String) (os : KVs) : ∀ (ds : KVs), cohF mks os ds = true → ∀ k v, (k, v) ∈ ds →
    coh mks ((lookup k os).getD .null) v = true := by
  intro ds
  induction ds with
  | nil => intro _ k v h; simp at h
  | cons hd tl ih =>
    obtain ⟨k', v'⟩ := hd
    intro h k v hm
    simp only [cohF, Bool.and_eq_true] at h
    simp at hm
    rcases hm with ⟨rfl, rfl⟩ | hm
    · exact h.1
    · exact ih h.2 k v hm

theorem cohL_mem (mks : List String) (xs : List J) : ∀ (ds : List J), cohL mks xs ds = true → ∀ x ∈ xs, ∀ d ∈ ds,
    cohItem mks x d = true ∧ coh mks x d = true := by
  intro ds
  induction ds with
  | nil => intro _ x _ d h; simp at h
  | cons hd tl ih =>
    intro h x hx d hd'
    simp only [cohL, Bool.and_eq_true, List.all_eq_true] at h
    simp at hd'
    rcases hd' with rfl | hd'
    · exact h.1 x hx
    · exact ih h.2 x hx d hd'

theorem coh_scalar (mks : List String) (o d : J) (ha : o.isArr = false) (ho : o.isObj = false) : coh mks o d = true := by
  cases o <;> simp [J.isArr, J.isObj] at ha ho <;> cases d <;> simp [coh]

theorem cohItem_apply (mks : List String) (x it : J) (h : cohItem mks x it = true) (k1 k2 : String)
    (h1 : k1 ∈ mks) (h2 : k2 ∈ mks)
    (hx1 : hasKey k1 x.fields = true) (hx2 : hasKey k2 x.fields = true)
    (hi1 : hasKey k1 it.fields = true) (hi2 : hasKey k2 it.fields = true)
    (he : keyOf k1 x = keyOf k1 it) : keyOf k2 x = keyOf k2 it := by
  unfold cohItem at h
  rw [List.all_eq_true] at h
  have := h k1 h1
  rw [List.all_eq_true] at this
  have := this k2 h2
  simp [hx1, hx2, hi1, hi2, he] at this
  exact this

/-! ### uniqueness under a second key through representatives -/

theorem nodup_map_of_rep {α β γ : Type} (f : α → β) (g : α → γ) : ∀ (l : List α), (l.map f).Nodup →
    (∀ a ∈ l, ∀ b ∈ l, g a = g b → f a = f b) → (l.map g).Nodup := by
  intro l
  induction l with
  | nil => intro _ _; simp
  | cons a tl ih =>
    intro hn h
    simp only [List.map_cons, List.nodup_cons] at hn ⊢
    refine ⟨?_, ih hn.2 (fun x hx y hy => h x (by simp [hx]) y (by simp [hy]))⟩
    intro hm
    rw [List.mem_map] at hm
    obtain ⟨b, hb, hg⟩ := hm
    apply hn.1
    rw [h a (by simp) b (by simp [hb]) hg.symm]
    exact List.mem_map_of_mem hb

/-- a key of the merged object that desired does not have comes unchanged from observed -/
theorem merge_obj_other_key (mks : List String) (x : J) (l : Option J) (dkv : KVs) (m : J) (k : String)
    (hu : uniq dkv) (h : merge mks x l (.obj dkv) = .ok m) (hd : lookup k dkv = none)
    (hk : hasKey k m.fields = true) :
    ∃ xkv, x = .obj xkv ∧ lookup k m.fields = lookup k xkv := by
  cases x with
  | obj xkv =>
    rw [merge_obj_obj] at h
    obtain ⟨rk, hr, _, h2⟩ := mergeFields_spec mks _ dkv _ m hu h
    subst hr
    simp only [J.fields] at hk ⊢
    refine ⟨xkv, rfl, ?_⟩
    rw [hasKey_eq, h2 k hd, lookup_prune] at hk
    rw [h2 k hd, lookup_prune]
    split
    · rename_i hc; rw [hc] at hk; simp at hk
    · rfl
  | arr xs => rw [merge_arr_other _ _ _ _ rfl rfl] at h; cases h
  | null | bool _ | num _ | str _ =>
    rw [merge_scalar _ _ _ _ rfl rfl] at h; cases h
    simp only [J.fields] at hk
    rw [hasKey_eq, hd] at hk; simp at hk

theorem keyOf_eq_of_lookup (mk : String) (a b : J) (h : lookup mk a.fields = lookup mk b.fields) :
    keyOf mk a = keyOf mk b := by
  unfold keyOf; rw [h]

/-- every item of the rebuilt list that carries `mk'` has a representative in observed or
    desired with the same key strings under `mk` and `mk'` -/
theorem rep_exists (mks : List String) (mk mk' : String) (xs ll ds : List J) (merged : KVs)
    (hlm : LM mks mk xs ll ds merged) (hmk' : mk' ∈ mks)
    (hsx : ∀ x ∈ xs, scalarKeys mks x = true)
    (hud : ∀ it ∈ ds, ∃ kvs, it = .obj kvs ∧ uniq kvs)
    (a : J) (ha : a ∈ rebuild mk xs merged ds) (hk : hasKey mk' a.fields = true) :
    ∃ rep, (rep ∈ xs ∨ rep ∈ ds) ∧ hasKey mk' rep.fields = true ∧
      keyOf mk rep = keyOf mk a ∧ keyOf mk' rep = keyOf mk' a := by
  have hmerged : ∀ it ∈ ds, ∀ m, lookup (keyOf mk it) merged = some m → hasKey mk' m.fields = true →
      ∃ rep, (rep ∈ xs ∨ rep ∈ ds) ∧ hasKey mk' rep.fields = true ∧
        keyOf mk rep = keyOf mk m ∧ keyOf mk' rep = keyOf mk' m := by
    intro it hit m hm hkm
    obtain ⟨m', hm', hmm⟩ := hlm.h1 it hit
    rw [hm] at hm'; cases hm'
    have hkey := hlm.hkey it hit m hm
    obtain ⟨kvs, hkvs, hu⟩ := hud it hit
    subst hkvs
    cases hdk : hasKey mk' kvs with
    | true =>
      refine ⟨.obj kvs, Or.inr hit, hdk, hkey.symm, ?_⟩
      obtain ⟨mkv, hmkv, _, hkk⟩ := merge_obj_keys mks _ _ kvs m hu hmm
      subst hmkv
      have hsp : scalarKeys mks ((lookup (keyOf mk (J.obj kvs)) (prunedMap mk xs ll ds)).getD .null) = true := by
        cases hl : lookup (keyOf mk (J.obj kvs)) (prunedMap mk xs ll ds) with
        | none => rfl
        | some v => exact hsx v (lookup_prunedMap_some mk xs _ ds _ v hl).1
      rw [keyOf_obj, keyOf_obj, hkk mk' hmk' hsp hdk]
    | false =>
      obtain ⟨xkv, hx, hlk⟩ := merge_obj_other_key mks _ _ kvs m mk' hu hmm
        ((hasKey_false_iff _ _).mp hdk) hkm
      cases hl : lookup (keyOf mk (J.obj kvs)) (prunedMap mk xs ll ds) with
      | none => rw [hl] at hx; cases hx
      | some v =>
        rw [hl] at hx
        simp only [Option.getD_some] at hx
        subst hx
        obtain ⟨hv, hkv⟩ := lookup_prunedMap_some mk xs _ ds _ _ hl
        refine ⟨.obj xkv, Or.inl hv, ?_, ?_, ?_⟩
        · simp only [J.fields]; rw [hasKey_eq, ← hlk, ← hasKey_eq]; exact hkm
        · rw [hkv, hkey]
        · exact keyOf_eq_of_lookup mk' _ _ hlk.symm
  rcases mem_rebuild_cases mk xs merged ds hlm.hnd a ha with ⟨x, hx, hxm⟩ | ⟨it, hit, hmi⟩
  · by_cases hkd : keyOf mk x ∈ ds.map (keyOf mk)
    · rw [List.mem_map] at hkd
      obtain ⟨it, hit, hke⟩ := hkd
      rw [← hke] at hxm
      exact hmerged it hit a hxm hk
    · rw [hlm.h2 _ hkd] at hxm
      exact ⟨a, Or.inl (lookup_prunedMap_some mk xs _ ds _ a hxm).1, hk, rfl, rfl⟩
  · obtain ⟨m', hm', _⟩ := hlm.h1 it hit
    rw [hm'] at hmi
    simp only [Option.getD_some] at hmi
    subst hmi
    exact hmerged it hit a hm' hk

/-- the rebuilt list is unique under every conventional key all its items carry -/
theorem nodup_rebuild_other (mks : List String) (mk mk' : String) (xs ll ds : List J) (merged : KVs)
    (hlm : LM mks mk xs ll ds merged) (hmk : mk ∈ mks) (hmk' : mk' ∈ mks)
    (hallx : ∀ it ∈ xs, ∃ kvs, it = .obj kvs ∧ hasKey mk kvs = true)
    (halld : ∀ it ∈ ds, ∃ kvs, it = .obj kvs ∧ hasKey mk kvs = true)
    (hsx : ∀ x ∈ xs, scalarKeys mks x = true)
    (hud : ∀ it ∈ ds, ∃ kvs, it = .obj kvs ∧ uniq kvs)
    (hSx : ((having mk' xs).map (keyOf mk')).Nodup) (hSd : ((having mk' ds).map (keyOf mk')).Nodup)
    (hcoh : ∀ x ∈ xs, ∀ it ∈ ds, cohItem mks x it = true)
    (hall' : ∀ a ∈ rebuild mk xs merged ds, hasKey mk' a.fields = true) :
    ((rebuild mk xs merged ds).map (keyOf mk')).Nodup := by
  apply nodup_map_of_rep (keyOf mk) (keyOf mk') _ hlm.nodup_rs
  intro a ha b hb hab
  obtain ⟨ra, hra, hka, hra1, hra2⟩ := rep_exists mks mk mk' xs ll ds merged hlm hmk' hsx hud a ha (hall' a ha)
  obtain ⟨rb, hrb, hkb, hrb1, hrb2⟩ := rep_exists mks mk mk' xs ll ds merged hlm hmk' hsx hud b hb (hall' b hb)
  rw [← hra1, ← hrb1]
  have hab' : keyOf mk' ra = keyOf mk' rb := by rw [hra2, hrb2, hab]
  have hfx : ∀ x ∈ xs, hasKey mk x.fields = true := by
    intro x hx; obtain ⟨kvs, rfl, h⟩ := hallx x hx; exact h
  have hfd : ∀ x ∈ ds, hasKey mk x.fields = true := by
    intro x hx; obtain ⟨kvs, rfl, h⟩ := halld x hx; exact h
  rcases hra with hra | hra <;> rcases hrb with hrb | hrb
  · have h1 : ra ∈ having mk' xs := List.mem_filter.mpr ⟨hra, hka⟩
    have h2 : rb ∈ having mk' xs := List.mem_filter.mpr ⟨hrb, hkb⟩
    rw [inj_of_nodup_map (keyOf mk') _ hSx ra h1 rb h2 hab']
  · exact cohItem_apply mks ra rb (hcoh ra hra rb hrb) mk' mk hmk' hmk hka (hfx ra hra) hkb (hfd rb hrb) hab'
  · exact (cohItem_apply mks rb ra (hcoh rb hrb ra hra) mk' mk hmk' hmk hkb (hfx rb hrb) hka (hfd ra hra) hab'.symm).symm
  · have h1 : ra ∈ having mk' ds := List.mem_filter.mpr ⟨hra, hka⟩
    have h2 : rb ∈ having mk' ds := List.mem_filter.mpr ⟨hrb, hkb⟩
    rw [inj_of_nodup_map (keyOf mk') _ hSd ra h1 rb h2 hab']

/-! ### the result satisfies `hypJ` -/

def Pres (mks : List String) (d : J) : Prop :=
  ∀ o l r, hypS mks o = true → hypS mks d = true → coh mks o d = true → scalarKeys mks o = true →
    merge mks o l d = .ok r → hypJ mks r = true

theorem pres_scalar (mks : List String) (d : J) (h1 : d.isObj = false) (h2 : d.isArr = false)
    (h3 : d.isNull = false) : Pres mks d := by
  intro o l r _ hd _ _ h
  cases o with
  | obj os => rw [merge_obj_other _ _ _ _ h1 h3] at h; cases h
  | arr xs => rw [merge_arr_other _ _ _ _ h2 h3] at h; cases h
  | null | bool _ | num _ | str _ =>
    rw [merge_scalar _ _ _ _ rfl rfl] at h; cases h
    exact hypS_hypJ mks _ hd

theorem nodup_of_hypS (mks : List String) (xs : List J) (mk : String) (h : hypS mks (.arr xs) = true)
    (hmk : mk ∈ mks) (hall : ∀ it ∈ xs, ∃ kvs, it = .obj kvs ∧ hasKey mk kvs = true) :
    (xs.map (keyOf mk)).Nodup := by
  have := ((hypS_arr mks xs).mp h).1 mk hmk
  rw [having_eq_self mk xs hall] at this
  exact this

theorem pres_all (mks : List String) : ∀ d, Pres mks d := by
  intro d
  induction d using J.induct with
  | hbool b => exact pres_scalar mks _ rfl rfl rfl
  | hnum n => exact pres_scalar mks _ rfl rfl rfl
  | hstr s => exact pres_scalar mks _ rfl rfl rfl
  | hnull =>
    intro o l r ho _ _ hs h
    cases o with
    | null | bool _ | num _ | str _ =>
      rw [merge_scalar _ _ _ _ rfl rfl] at h; cases h; rfl
    | obj os =>
      rw [merge_obj_null] at h; cases h
      obtain ⟨huo, hoi⟩ := (hypS_obj mks os).mp ho
      rw [hypJ_obj]
      refine ⟨uniq_prune _ _ _ huo, ?_⟩
      intro k v hm
      unfold prune at hm
      exact hypS_hypJ mks v (hoi k v (List.mem_filter.mp hm).1)
    | arr xs =>
      obtain ⟨hSx, hoi⟩ := (hypS_arr mks xs).mp ho
      cases hdet : detectListMapKey mks [xs, lastArr l, []] with
      | none => rw [merge_arr_null_none _ _ _ hdet] at h; cases h; rfl
      | some mk =>
        rw [merge_arr_null_some _ _ _ _ hdet] at h; cases h
        obtain ⟨hmk, _, hall, _⟩ := detect_some hdet
        have hallx : ∀ it ∈ xs, ∃ kvs, it = .obj kvs ∧ hasKey mk kvs = true :=
          fun it hit => hall it (by simp [hit])
        have hmerged : (makeListMap mk xs).filter (fun kv => !(hasKey kv.1 (makeListMap mk (lastArr l)))) =
            prunedMap mk xs (lastArr l) [] := by
          unfold prunedMap
          apply List.filter_congr
          intro kv _
          simp
        rw [hmerged]
        have hlm : LM mks mk xs (lastArr l) [] (prunedMap mk xs (lastArr l) []) := {
            hnx := nodup_of_hypS mks xs mk ho hmk hallx
            hnd := by simp
            h1 := by intro it hit; simp at hit
            h2 := by intro k _; rfl
            hkey := by intro it hit; simp at hit }
        have hitems : ∀ a ∈ rebuild mk xs (prunedMap mk xs (lastArr l) []) [], a ∈ xs := by
          intro a ha
          rcases mem_rebuild_cases mk xs _ [] hlm.hnd a ha with ⟨x, _, hxm⟩ | ⟨it, hit, _⟩
          · exact (lookup_prunedMap_some mk xs _ [] _ a hxm).1
          · simp at hit
        rw [hypJ_arr]
        refine ⟨?_, fun a ha => hypS_hypJ mks a (hoi a (hitems a ha))⟩
        intro mk' hmk'
        obtain ⟨hmk'1, hmk'2⟩ := mem_sharedKeys_iff mks _ mk' hmk'
        apply nodup_rebuild_other mks mk mk' xs (lastArr l) [] _ hlm hmk hmk'1 hallx
        · intro it hit; simp at hit
        · exact (scalarKeys_arr mks xs).mp hs
        · intro it hit; simp at hit
        · exact hSx mk' hmk'1
        · simp [having]
        · intro x _ it hit; simp at hit
        · intro a ha; obtain ⟨kvs, rfl, hk⟩ := hmk'2 a ha; exact hk
  | hobj ds ih =>
    intro o l r ho hd hc hs h
    obtain ⟨hu, hdv⟩ := (hypS_obj mks ds).mp hd
    cases o with
    | null | bool _ | num _ | str _ =>
      rw [merge_scalar _ _ _ _ rfl rfl] at h; cases h
      exact hypS_hypJ mks _ hd
    | arr xs => rw [merge_arr_other _ _ _ _ rfl rfl] at h; cases h
    | obj os =>
      rw [merge_obj_obj] at h
      obtain ⟨rk, hrk, h1, h2⟩ := mergeFields_spec mks _ ds _ r hu h
      subst hrk
      obtain ⟨huo, hoi⟩ := (hypS_obj mks os).mp ho
      have hcf : cohF mks os ds = true := by simpa [coh] using hc
      have hur := mergeFields_uniq mks _ ds _ rk (uniq_prune _ _ _ huo) h
      rw [hypJ_obj]
      refine ⟨hur, ?_⟩
      intro k v hm
      have hlk := lookup_of_mem_uniq _ _ _ hur hm
      cases hdk : lookup k ds with
      | some dv =>
        have hmd := lookup_mem _ _ _ hdk
        obtain ⟨m, hm1, hm2⟩ := h1 k dv hmd
        rw [hlk] at hm1; cases hm1
        rw [lookup_prune_of_hasKey _ _ _ _ (hasKey_of_mem hmd)] at hm2
        have hso : hypS mks ((lookup k os).getD .null) = true := by
          cases hlo : lookup k os with
          | none => rfl
          | some ov => exact hoi k ov (lookup_mem _ _ _ hlo)
        exact ih k dv hmd _ _ v hso (hdv k dv hmd) (cohF_mem mks os ds hcf k dv hmd)
          (scalarKeys_field mks os k hs) hm2
      | none =>
        rw [h2 k hdk] at hlk
        have hm' := lookup_mem _ _ _ hlk
        unfold prune at hm'
        exact hypS_hypJ mks v (hoi k v (List.mem_filter.mp hm').1)
  | harr ds ih =>
    intro o l r ho hd hc hs h
    obtain ⟨hSd, hdi⟩ := (hypS_arr mks ds).mp hd
    cases o with
    | null | bool _ | num _ | str _ =>
      rw [merge_scalar _ _ _ _ rfl rfl] at h; cases h
      exact hypS_hypJ mks _ hd
    | obj os => rw [merge_obj_other _ _ _ _ rfl rfl] at h; cases h
    | arr xs =>
      obtain ⟨hSx, hoi⟩ := (hypS_arr mks xs).mp ho
      cases hdet : detectListMapKey mks [xs, lastArr l, ds] with
      | none =>
        rw [merge_arr_arr_none _ _ _ _ hdet] at h; cases h
        exact hypS_hypJ mks _ hd
      | some mk =>
        obtain ⟨hmk, _, hall, _⟩ := detect_some hdet
        have hallx : ∀ it ∈ xs, ∃ kvs, it = .obj kvs ∧ hasKey mk kvs = true :=
          fun it hit => hall it (by simp [hit])
        have halld : ∀ it ∈ ds, ∃ kvs, it = .obj kvs ∧ hasKey mk kvs = true :=
          fun it hit => hall it (by simp [hit])
        have hnd := nodup_of_hypS mks ds mk hd hmk halld
        obtain ⟨merged, hrr, h1, h2⟩ := listmap_spec mks xs l ds mk r hdet hnd h
        subst hrr
        have hsx := (scalarKeys_arr mks xs).mp hs
        have hcl : cohL mks xs ds = true := by simpa [coh] using hc
        have hud : ∀ it ∈ ds, ∃ kvs, it = .obj kvs ∧ uniq kvs := by
          intro it hit
          obtain ⟨kvs, rfl, _⟩ := halld it hit
          exact ⟨kvs, rfl, ((hypS_obj mks kvs).mp (hdi _ hit)).1⟩
        -- the observed partner of a desired item
        have hpart : ∀ it ∈ ds,
            hypS mks ((lookup (keyOf mk it) (prunedMap mk xs (lastArr l) ds)).getD .null) = true ∧
            coh mks ((lookup (keyOf mk it) (prunedMap mk xs (lastArr l) ds)).getD .null) it = true ∧
            scalarKeys mks ((lookup (keyOf mk it) (prunedMap mk xs (lastArr l) ds)).getD .null) = true := by
          intro it hit
          cases hl : lookup (keyOf mk it) (prunedMap mk xs (lastArr l) ds) with
          | none => exact ⟨rfl, coh_scalar mks _ _ rfl rfl, rfl⟩
          | some v =>
            have hv := (lookup_prunedMap_some mk xs _ ds _ v hl).1
            exact ⟨hoi v hv, (cohL_mem mks xs ds hcl v hv it hit).2, hsx v hv⟩
        have hlm : LM mks mk xs (lastArr l) ds merged := by
          refine { hnx := nodup_of_hypS mks xs mk ho hmk hallx, hnd := hnd, h1 := h1, h2 := h2, hkey := ?_ }
          intro it hit m hm
          obtain ⟨m', hm', hmm⟩ := h1 it hit
          rw [hm] at hm'; cases hm'
          obtain ⟨kvs, hkvs, hk⟩ := halld it hit
          subst hkvs
          have hu := ((hypS_obj mks kvs).mp (hdi _ hit)).1
          obtain ⟨mkv, hmkv, _, hkk⟩ := merge_obj_keys mks _ _ kvs m hu hmm
          subst hmkv
          rw [keyOf_obj, keyOf_obj, hkk mk hmk (hpart _ hit).2.2 hk]
        have hmergedJ : ∀ it ∈ ds, ∀ m, lookup (keyOf mk it) merged = some m → hypJ mks m = true := by
          intro it hit m hm
          obtain ⟨m', hm', hmm⟩ := h1 it hit
          rw [hm] at hm'; cases hm'
          exact ih it hit _ _ m (hpart it hit).1 (hdi it hit) (hpart it hit).2.1 (hpart it hit).2.2 hmm
        rw [hypJ_arr]
        refine ⟨?_, ?_⟩
        · intro mk' hmk'
          obtain ⟨hmk'1, hmk'2⟩ := mem_sharedKeys_iff mks _ mk' hmk'
          apply nodup_rebuild_other mks mk mk' xs (lastArr l) ds merged hlm hmk hmk'1 hallx halld hsx hud
            (hSx mk' hmk'1) (hSd mk' hmk'1)
          · exact fun x hx it hit => (cohL_mem mks xs ds hcl x hx it hit).1
          · intro a ha; obtain ⟨kvs, rfl, hk⟩ := hmk'2 a ha; exact hk
        · intro a ha
          rcases mem_rebuild_cases mk xs merged ds hnd a ha with ⟨x, hx, hxm⟩ | ⟨it, hit, hmi⟩
          · by_cases hkd : keyOf mk x ∈ ds.map (keyOf mk)
            · rw [List.mem_map] at hkd
              obtain ⟨it, hit, hke⟩ := hkd
              rw [← hke] at hxm
              exact hmergedJ it hit a hxm
            · rw [h2 _ hkd] at hxm
              exact hypS_hypJ mks a (hoi a (lookup_prunedMap_some mk xs _ ds _ a hxm).1)
          · obtain ⟨m', hm', _⟩ := h1 it hit
            rw [hm'] at hmi
            simp only [Option.getD_some] at hmi
            subst hmi
            exact hmergedJ it hit a hm'

end Mc.C05
