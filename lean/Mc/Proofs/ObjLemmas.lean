import Mc.Proofs.JsonLemmas
import Mc.Apply
/-
  Round-trip lemmas for the `unstructured` accessors of `Mc/Obj.lean` and the edits of `Mc/Apply.lean`
  (paths of length one and two).
-/
namespace Mc

theorem lookup_eraseKey (k k2 : String) (kvs : KVs) :
    lookup k2 (eraseKey k kvs) = if k2 = k then none else lookup k2 kvs := by
  unfold eraseKey
  rw [lookup_filter (fun x => !(x == k))]
  by_cases h : k2 = k <;> simp [h]

theorem lookup_eraseKey_same (k : String) (kvs : KVs) : lookup k (eraseKey k kvs) = none := by
  simp [lookup_eraseKey]

theorem lookup_eraseKey_other (k k2 : String) (kvs : KVs) (h : k2 ≠ k) : lookup k2 (eraseKey k kvs) = lookup k2 kvs := by
  simp [lookup_eraseKey, h]

/-! ### reading -/

theorem nestedField_nil (j : J) : nestedField j [] = .ok (some j) := by
  cases j <;> rfl

theorem nestedField_obj_cons (kvs : KVs) (k : String) (ks : List String) :
    nestedField (.obj kvs) (k :: ks) = match lookup k kvs with | some v => nestedField v ks | none => .ok none := by
  cases h : lookup k kvs <;> simp [nestedField, h]

theorem nestedField_obj_one (kvs : KVs) (k : String) : nestedField (.obj kvs) [k] = .ok (lookup k kvs) := by
  rw [nestedField_obj_cons]
  cases lookup k kvs with
  | none => rfl
  | some v => simp [nestedField_nil]

/-- a field is present under `[k1, k2]` exactly when both levels are objects holding it -/
theorem nestedField_two_some (o : J) (k1 k2 : String) (v : J) :
    nestedField o [k1, k2] = .ok (some v) ↔
      ∃ kvs inner, o = .obj kvs ∧ lookup k1 kvs = some (.obj inner) ∧ lookup k2 inner = some v := by
  constructor
  · intro h
    cases o with
    | obj kvs =>
      rw [nestedField_obj_cons] at h
      cases h1 : lookup k1 kvs with
      | none => simp [h1] at h
      | some m =>
        simp only [h1] at h
        cases m with
        | obj inner =>
          rw [nestedField_obj_one] at h
          exact ⟨kvs, inner, rfl, h1, by simpa using h⟩
        | null => simp [nestedField] at h
        | _ => simp [nestedField] at h
    | null => simp [nestedField] at h
    | _ => simp [nestedField] at h
  · rintro ⟨kvs, inner, rfl, h1, h2⟩
    rw [nestedField_obj_cons, h1]
    simp only []
    rw [nestedField_obj_one, h2]

theorem nestedField_one_some (o : J) (k : String) (v : J) :
    nestedField o [k] = .ok (some v) ↔ ∃ kvs, o = .obj kvs ∧ lookup k kvs = some v := by
  constructor
  · intro h
    cases o with
    | obj kvs => rw [nestedField_obj_one] at h; exact ⟨kvs, rfl, by simpa using h⟩
    | null => simp [nestedField] at h
    | _ => simp [nestedField] at h
  · rintro ⟨kvs, rfl, h⟩
    rw [nestedField_obj_one, h]

/-! ### writing -/

theorem setNestedField_one (o v : J) (k : String) : setNestedField o v [k] = .ok (.obj (setKey k v o.fields)) := by
  simp [setNestedField, setNestedFieldKVs]

/-- the outcome of a two-level `SetNestedField`, by the shape of the first level -/
theorem setNestedField_two (o v : J) (k1 k2 : String) :
    setNestedField o v [k1, k2] =
      match lookup k1 o.fields with
      | some (.obj inner) => .ok (.obj (setKey k1 (.obj (setKey k2 v inner)) o.fields))
      | some _ => .error "value cannot be set because path is not a map"
      | none => .ok (.obj (setKey k1 (.obj [(k2, v)]) o.fields)) := by
  unfold setNestedField
  rw [setNestedFieldKVs]
  cases h : lookup k1 o.fields with
  | none => simp [setNestedFieldKVs, setKey]
  | some m => cases m <;> simp [setNestedFieldKVs]

theorem removeNestedField_one (o : J) (k : String) : removeNestedField o [k] = .obj (eraseKey k o.fields) := by
  simp [removeNestedField, removeNestedFieldKVs]

theorem removeNestedField_two (o : J) (k1 k2 : String) :
    removeNestedField o [k1, k2] =
      match lookup k1 o.fields with
      | some (.obj inner) => .obj (setKey k1 (.obj (eraseKey k2 inner)) o.fields)
      | _ => .obj o.fields := by
  unfold removeNestedField
  rw [removeNestedFieldKVs]
  cases h : lookup k1 o.fields with
  | none => simp
  | some m => cases m <;> simp [removeNestedFieldKVs]

/-- read-after-write, two levels -/
theorem nestedField_setNestedField_two (o v o' : J) (k1 k2 : String) (h : setNestedField o v [k1, k2] = .ok o') :
    nestedField o' [k1, k2] = .ok (some v) := by
  rw [setNestedField_two] at h
  rw [nestedField_two_some]
  split at h
  · rename_i inner _
    cases h
    exact ⟨_, _, rfl, lookup_setKey_same .., lookup_setKey_same ..⟩
  · cases h
  · cases h
    exact ⟨_, _, rfl, lookup_setKey_same .., by simp [lookup]⟩

/-- a two-level write leaves the other fields of the same first-level map alone -/
theorem nestedField_setNestedField_two_other (o v o' : J) (k1 k2 k3 : String) (w : J) (hne : k3 ≠ k2)
    (h : setNestedField o v [k1, k2] = .ok o') (hw : nestedField o [k1, k3] = .ok (some w)) :
    nestedField o' [k1, k3] = .ok (some w) := by
  rw [nestedField_two_some] at hw
  obtain ⟨kvs, inner, rfl, h1, h3⟩ := hw
  rw [setNestedField_two] at h
  simp only [J.fields, h1] at h
  cases h
  rw [nestedField_two_some]
  exact ⟨_, _, rfl, lookup_setKey_same .., by rw [lookup_setKey_other _ _ _ _ hne]; exact h3⟩

theorem nestedField_removeNestedField_two_other (o : J) (k1 k2 k3 : String) (w : J) (hne : k3 ≠ k2)
    (hw : nestedField o [k1, k3] = .ok (some w)) :
    nestedField (removeNestedField o [k1, k2]) [k1, k3] = .ok (some w) := by
  rw [nestedField_two_some] at hw
  obtain ⟨kvs, inner, rfl, h1, h3⟩ := hw
  rw [removeNestedField_two]
  simp only [J.fields, h1]
  rw [nestedField_two_some]
  exact ⟨_, _, rfl, lookup_setKey_same .., by rw [lookup_eraseKey_other _ _ _ hne]; exact h3⟩

/-! ### owner references -/

theorem OwnerRef.ofJ_toJ (r : OwnerRef) : OwnerRef.ofJ (OwnerRef.toJ r) = r := by
  obtain ⟨av, k, n, u, c, b⟩ := r
  cases c <;> cases b <;> simp [OwnerRef.ofJ, OwnerRef.toJ, J.fields, lookup, boolPtr]

theorem OwnerRef.toJ_isObj (r : OwnerRef) : (OwnerRef.toJ r).isObj = true := rfl

/-- `metadata` is a map or absent: the shapes on which the `metadata.*` setters work -/
def MetaOK (o : J) : Prop := ∀ m, lookup "metadata" o.fields = some m → m.isObj = true

theorem filter_map_toJ (refs : List OwnerRef) :
    ((refs.map OwnerRef.toJ).filter J.isObj).map OwnerRef.ofJ = refs := by
  induction refs with
  | nil => rfl
  | cons r rest ih =>
    simp only [List.map_cons]
    rw [List.filter_cons_of_pos (OwnerRef.toJ_isObj r)]
    simp [OwnerRef.ofJ_toJ, ih]

/-- `GetOwnerReferences ∘ SetOwnerReferences = id` when `metadata` is a map or absent -/
theorem getOwnerRefs_setOwnerRefs (o : J) (refs : List OwnerRef) (h : MetaOK o) :
    getOwnerRefs (setOwnerRefs o refs) = refs := by
  unfold setOwnerRefs
  cases hs : setNestedField o (.arr (refs.map OwnerRef.toJ)) ["metadata", "ownerReferences"] with
  | ok o' =>
    simp only []
    unfold getOwnerRefs
    rw [nestedField_setNestedField_two _ _ _ _ _ hs]
    simp only []
    exact filter_map_toJ refs
  | error e =>
    rw [setNestedField_two] at hs
    split at hs
    · cases hs
    · rename_i m hnot hm
      have := h m hm
      cases m <;> simp_all [J.isObj]
    · cases hs

theorem metaOK_setOwnerRefs (o : J) (refs : List OwnerRef) (h : MetaOK o) : MetaOK (setOwnerRefs o refs) := by
  unfold setOwnerRefs
  cases hs : setNestedField o (.arr (refs.map OwnerRef.toJ)) ["metadata", "ownerReferences"] with
  | error e => exact h
  | ok o' =>
    simp only []
    rw [setNestedField_two] at hs
    intro m hm
    split at hs
    · cases hs; simp only [J.fields, lookup_setKey_same] at hm; cases hm; rfl
    · cases hs
    · cases hs; simp only [J.fields, lookup_setKey_same] at hm; cases hm; rfl

/-! ### string maps, last-applied -/

/-- `setStringMapAt … (some kvs)` on a two-level path either writes the map or leaves the object alone -/
theorem setStringMapAt_two (o : J) (k1 k2 : String) (m : KVs) :
    setStringMapAt o [k1, k2] (some m) =
      match lookup k1 o.fields with
      | some (.obj inner) => .obj (setKey k1 (.obj (setKey k2 (.obj m) inner)) o.fields)
      | some _ => o
      | none => .obj (setKey k1 (.obj [(k2, .obj m)]) o.fields) := by
  unfold setStringMapAt
  simp only []
  rw [setNestedField_two]
  cases h : lookup k1 o.fields with
  | none => rfl
  | some x => cases x <;> rfl

/-- writing `metadata.<k2>` does not change what is read under `metadata.<k3>` for another key
    (error and absence included) -/
theorem nestedField_setStringMapAt_two_other (o : J) (k1 k2 k3 : String) (m : KVs) (hne : k3 ≠ k2) (hobj : o.isObj = true) :
    nestedField (setStringMapAt o [k1, k2] (some m)) [k1, k3] = nestedField o [k1, k3] := by
  cases o with
  | obj kvs =>
    rw [setStringMapAt_two]
    simp only [J.fields]
    cases h : lookup k1 kvs with
    | none =>
      simp only []
      rw [nestedField_obj_cons, nestedField_obj_cons, lookup_setKey_same, h]
      simp only []
      rw [nestedField_obj_one]
      simp [lookup, hne]
    | some x =>
      cases x with
      | obj inner =>
        simp only []
        rw [nestedField_obj_cons, nestedField_obj_cons, lookup_setKey_same, h]
        simp only []
        rw [nestedField_obj_one, nestedField_obj_one, lookup_setKey_other _ _ _ _ hne]
      | _ => rfl
  | _ => simp [J.isObj] at hobj

/-- writing `metadata.<k2>` does not change what is read under another top-level key -/
theorem nestedField_setStringMapAt_top_other (o : J) (k1 k2 k : String) (m : KVs) (hne : k ≠ k1) (hobj : o.isObj = true) :
    nestedField (setStringMapAt o [k1, k2] (some m)) [k] = nestedField o [k] := by
  cases o with
  | obj kvs =>
    rw [setStringMapAt_two]
    simp only [J.fields]
    cases h : lookup k1 kvs with
    | none =>
      simp only []
      rw [nestedField_obj_one, nestedField_obj_one, lookup_setKey_other _ _ _ _ hne]
    | some x =>
      cases x with
      | obj inner =>
        simp only []
        rw [nestedField_obj_one, nestedField_obj_one, lookup_setKey_other _ _ _ _ hne]
      | _ => rfl
  | _ => simp [J.isObj] at hobj

theorem setLastApplied_eq (o la : J) :
    setLastApplied o la = setStringMapAt o ["metadata", "annotations"] (some (setKey lastAppliedAnnotation la ((getAnnotations o).getD []))) := rfl

theorem metaOK_setLastApplied (o la : J) (h : MetaOK o) : MetaOK (setLastApplied o la) := by
  rw [setLastApplied_eq, setStringMapAt_two]
  cases hm : lookup "metadata" o.fields with
  | none =>
    simp only []
    intro m hm'
    simp only [J.fields, lookup_setKey_same] at hm'; cases hm'; rfl
  | some x =>
    cases x with
    | obj inner =>
      simp only []
      intro m hm'
      simp only [J.fields, lookup_setKey_same] at hm'; cases hm'; rfl
    | _ => exact h

/-- `SetLastApplied` does not touch the owner references -/
theorem getOwnerRefs_setLastApplied (o la : J) : getOwnerRefs (setLastApplied o la) = getOwnerRefs o := by
  rw [setLastApplied_eq]
  cases o with
  | obj kvs =>
    unfold getOwnerRefs
    rw [nestedField_setStringMapAt_two_other _ _ _ _ _ (by decide) rfl]
  | _ =>
    -- not a map: the setter builds `{metadata: {annotations: …}}`, which has no owner references either
    simp [setStringMapAt_two, J.fields, lookup, getOwnerRefs, nestedField, setKey]

/-! ### `revertField`, `revertSystemFields`, `applyUpdate` -/

theorem applyUpdate_inv (mks sys : List String) (orig upd new : J) (h : applyUpdate mks sys orig upd = .ok new) :
    ∃ last merged r1 r2, getLastApplied orig = .ok last ∧ merge mks orig last (nullifyLastApplied upd) = .ok merged ∧
      revertSystemFields sys merged orig = .ok r1 ∧ revertField r1 orig ["status"] = .ok r2 ∧
      new = setLastApplied r2 (nullifyLastApplied upd) := by
  unfold applyUpdate at h
  cases h0 : getLastApplied orig with
  | error e => simp [h0, bind, Except.bind] at h
  | ok last =>
    cases h1 : merge mks orig last (nullifyLastApplied upd) with
    | error e => simp [h0, h1, bind, Except.bind] at h
    | ok merged =>
      cases h2 : revertSystemFields sys merged orig with
      | error e => simp [h0, h1, h2, bind, Except.bind] at h
      | ok r1 =>
        cases h3 : revertField r1 orig ["status"] with
        | error e => simp [h0, h1, h2, h3, bind, Except.bind] at h
        | ok r2 =>
          simp [h0, h1, h2, h3, bind, Except.bind, pure, Except.pure] at h
          exact ⟨last, merged, r1, r2, rfl, h1, h2, h3, h.symm⟩

theorem revertSystemFields_nil (acc orig : J) : revertSystemFields [] acc orig = .ok acc := rfl

theorem revertSystemFields_cons (f : String) (rest : List String) (acc orig : J) :
    revertSystemFields (f :: rest) acc orig =
      match revertField acc orig ["metadata", f] with
      | .ok a => revertSystemFields rest a orig
      | .error e => .error e := by
  unfold revertSystemFields
  rw [List.foldlM_cons]
  cases revertField acc orig ["metadata", f] <;> rfl

/-- reverting `metadata.f` makes it read as in the original (when the original has it) -/
theorem revertField_meta_same (acc orig acc' : J) (f : String) (v : J)
    (h : revertField acc orig ["metadata", f] = .ok acc') (ho : nestedField orig ["metadata", f] = .ok (some v)) :
    nestedField acc' ["metadata", f] = .ok (some v) := by
  unfold revertField at h
  rw [ho] at h
  exact nestedField_setNestedField_two _ _ _ _ _ h

/-- reverting `metadata.f'` leaves a present `metadata.f` alone -/
theorem revertField_meta_other (acc orig acc' : J) (f f' : String) (v : J) (hne : f ≠ f')
    (h : revertField acc orig ["metadata", f'] = .ok acc') (ha : nestedField acc ["metadata", f] = .ok (some v)) :
    nestedField acc' ["metadata", f] = .ok (some v) := by
  unfold revertField at h
  split at h
  · cases h
  · exact nestedField_setNestedField_two_other _ _ _ _ _ _ _ hne h ha
  · cases h
    exact nestedField_removeNestedField_two_other _ _ _ _ _ hne ha

theorem revertSystemFields_keeps (orig : J) (f : String) (v : J) (ho : nestedField orig ["metadata", f] = .ok (some v)) :
    ∀ (sys : List String) (acc r : J), revertSystemFields sys acc orig = .ok r →
      (nestedField acc ["metadata", f] = .ok (some v) ∨ f ∈ sys) → nestedField r ["metadata", f] = .ok (some v) := by
  intro sys
  induction sys with
  | nil =>
    intro acc r h hor
    rw [revertSystemFields_nil] at h
    cases h
    rcases hor with h | h
    · exact h
    · simp at h
  | cons f' rest ih =>
    intro acc r h hor
    rw [revertSystemFields_cons] at h
    cases hs : revertField acc orig ["metadata", f'] with
    | error e => simp [hs] at h
    | ok a =>
      simp only [hs] at h
      refine ih a r h ?_
      by_cases hff : f = f'
      · subst hff
        exact Or.inl (revertField_meta_same _ _ _ _ _ hs ho)
      · rcases hor with h1 | h1
        · exact Or.inl (revertField_meta_other _ _ _ _ _ _ hff hs h1)
        · simp [hff] at h1
          exact Or.inr h1

/-- reverting a top-level field other than `k1` leaves `k1.k2` alone -/
theorem revertField_top_keeps_two (acc orig acc' : J) (k k1 k2 : String) (v : J) (hne : k1 ≠ k)
    (h : revertField acc orig [k] = .ok acc') (ha : nestedField acc [k1, k2] = .ok (some v)) :
    nestedField acc' [k1, k2] = .ok (some v) := by
  rw [nestedField_two_some] at ha ⊢
  obtain ⟨kvs, inner, rfl, h1, h2⟩ := ha
  unfold revertField at h
  split at h
  · cases h
  · rw [setNestedField_one] at h
    cases h
    exact ⟨_, inner, rfl, by rw [lookup_setKey_other _ _ _ _ hne]; exact h1, h2⟩
  · rw [removeNestedField_one] at h
    cases h
    exact ⟨_, inner, rfl, by rw [lookup_eraseKey_other _ _ _ hne]; exact h1, h2⟩

/-- after reverting the top-level field `k`, it reads as in the original -/
theorem revertField_top_same (acc orig acc' : J) (k : String)
    (h : revertField acc orig [k] = .ok acc') : nestedField acc' [k] = nestedField orig [k] ∧ acc'.isObj = true := by
  unfold revertField at h
  split at h
  · cases h
  · rename_i v hv
    rw [setNestedField_one] at h
    cases h
    rw [hv, nestedField_obj_one, lookup_setKey_same]
    exact ⟨rfl, rfl⟩
  · rename_i hv
    rw [removeNestedField_one] at h
    cases h
    rw [hv, nestedField_obj_one, lookup_eraseKey_same]
    exact ⟨rfl, rfl⟩

/-- **system fields survive `ApplyUpdate`**: a `metadata` field listed in `sys` that the observed object carries
    reads the same in the merged object, whatever the desired object says -/
theorem applyUpdate_keeps_meta (mks sys : List String) (obs des new : J) (f : String) (v : J)
    (h : applyUpdate mks sys obs des = .ok new) (hf : f ∈ sys) (hne : f ≠ "annotations")
    (ho : nestedField obs ["metadata", f] = .ok (some v)) :
    nestedField new ["metadata", f] = .ok (some v) := by
  obtain ⟨last, merged, r1, r2, _, _, h2, h3, rfl⟩ := applyUpdate_inv _ _ _ _ _ h
  have a1 := revertSystemFields_keeps obs f v ho sys merged r1 h2 (Or.inr hf)
  have a2 := revertField_top_keeps_two _ _ _ "status" "metadata" f v (by decide) h3 a1
  rw [setLastApplied_eq, nestedField_setStringMapAt_two_other _ _ _ _ _ hne (revertField_top_same _ _ _ _ h3).2]
  exact a2

/-- **the status is never written through `ApplyUpdate`** -/
theorem applyUpdate_status (mks sys : List String) (obs des new : J) (h : applyUpdate mks sys obs des = .ok new) :
    nestedField new ["status"] = nestedField obs ["status"] := by
  obtain ⟨last, merged, r1, r2, _, _, h2, h3, rfl⟩ := applyUpdate_inv _ _ _ _ _ h
  obtain ⟨a, b⟩ := revertField_top_same _ _ _ _ h3
  rw [setLastApplied_eq, nestedField_setStringMapAt_top_other _ _ _ _ _ (by decide) b]
  exact a

end Mc
