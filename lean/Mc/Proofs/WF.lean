import Mc.Proofs.ListMapLemmas
/-
  `merge` preserves well-formedness (unique object keys at every level).
  Only the observed and desired values need to be well-formed: nothing flows from last-applied
  into the result.
-/
set_option linter.unusedSimpArgs false
namespace Mc

theorem mergeFields_inv (mks : List String) (P : J → Prop) (hnull : P .null) (ls : KVs) : ∀ (ds d : KVs) (r : J),
    (∀ k v, (k, v) ∈ ds → ∀ x l m, P x → merge mks x l v = .ok m → P m) →
    (∀ k v, lookup k d = some v → P v) →
    mergeFields mks d ls ds = .ok r →
    ∃ rk, r = .obj rk ∧ ∀ k v, lookup k rk = some v → P v := by
  intro ds
  induction ds with
  | nil =>
    intro d r _ hd h
    rw [mergeFields_nil] at h; cases h
    exact ⟨d, rfl, hd⟩
  | cons hd tl ih =>
    obtain ⟨k, v⟩ := hd
    intro d r hstep hd h
    rw [mergeFields_cons] at h
    split at h
    · rename_i m hm
      apply ih _ _ (fun k' v' hm' => hstep k' v' (by simp [hm'])) _ h
      intro k' v' hl
      rw [lookup_setKey] at hl
      split at hl
      · cases hl
        apply hstep k v (by simp) _ _ _ _ hm
        cases hlk : lookup k d with
        | none => exact hnull
        | some x => exact hd k x hlk
      · exact hd k' v' hl
    · simp at h

theorem mergeItems_inv (mks : List String) (mk : String) (P : J → Prop) (hnull : P .null) (ls : KVs) :
    ∀ (ds : List J) (d merged : KVs),
    (∀ it ∈ ds, ∀ x l m, P x → merge mks x l it = .ok m → P m) →
    (∀ k v, lookup k d = some v → P v) →
    mergeItems mks mk d ls ds = .ok merged →
    ∀ k v, lookup k merged = some v → P v := by
  intro ds
  induction ds with
  | nil =>
    intro d merged _ hd h
    rw [mergeItems_nil] at h; cases h
    exact hd
  | cons it rest ih =>
    intro d merged hstep hd h
    have hstep' : ∀ it' ∈ rest, ∀ x l m, P x → merge mks x l it' = .ok m → P m :=
      fun it' hm' => hstep it' (by simp [hm'])
    cases hc : (rest.map (keyOf mk)).contains (keyOf mk it) with
    | true =>
      rw [mergeItems_cons_skip _ _ _ _ _ _ hc] at h
      exact ih _ _ hstep' hd h
    | false =>
      rw [mergeItems_cons _ _ _ _ _ _ hc] at h
      split at h
      · rename_i m hm
        apply ih _ _ hstep' _ h
        intro k' v' hl
        rw [lookup_setKey] at hl
        split at hl
        · cases hl
          apply hstep it (by simp) _ _ _ _ hm
          cases hlk : lookup (keyOf mk it) d with
          | none => exact hnull
          | some x => exact hd _ x hlk
        · exact hd k' v' hl
      · simp at h

theorem restItems_mem (mk : String) (merged : KVs) : ∀ (ds : List J) (seen : List String) (m : J),
    m ∈ restItems mk merged ds seen → ∃ k, m = (lookup k merged).getD .null := by
  intro ds
  induction ds with
  | nil => intro seen m h; simp [restItems] at h
  | cons it rest ih =>
    intro seen m h
    simp only [restItems] at h
    split at h
    · exact ih _ m h
    · simp only [List.mem_cons] at h
      rcases h with rfl | h
      · exact ⟨_, rfl⟩
      · exact ih _ m h

theorem rebuild_mem (mk : String) (xs : List J) (merged : KVs) (ds : List J) (m : J)
    (h : m ∈ rebuild mk xs merged ds) : ∃ k, m = (lookup k merged).getD .null := by
  unfold rebuild at h
  simp only [List.mem_append, List.mem_filterMap] at h
  rcases h with ⟨x, _, hx⟩ | h
  · exact ⟨keyOf mk x, by rw [hx]; rfl⟩
  · exact restItems_mem mk merged ds _ m h

def PresWF (mks : List String) (d : J) : Prop :=
  ∀ o l r, o.wfB = true → d.wfB = true → merge mks o l d = .ok r → r.wfB = true

theorem wfB_of_lookup_getD (merged : KVs) (h : ∀ k v, lookup k merged = some v → v.wfB = true) (k : String) :
    ((lookup k merged).getD .null).wfB = true := by
  cases hl : lookup k merged with
  | none => rfl
  | some v => exact h k v hl

theorem presWF_scalar (mks : List String) (d : J) (h1 : d.isObj = false) (h2 : d.isArr = false)
    (h3 : d.isNull = false) : PresWF mks d := by
  intro o l r _ hd h
  cases o with
  | obj os => rw [merge_obj_other _ _ _ _ h1 h3] at h; cases h
  | arr xs => rw [merge_arr_other _ _ _ _ h2 h3] at h; cases h
  | null | bool _ | num _ | str _ =>
    rw [merge_scalar _ _ _ _ rfl rfl] at h; cases h; exact hd

theorem presWF_all (mks : List String) : ∀ d, PresWF mks d := by
  intro d
  induction d using J.induct with
  | hbool b => exact presWF_scalar mks _ rfl rfl rfl
  | hnum n => exact presWF_scalar mks _ rfl rfl rfl
  | hstr s => exact presWF_scalar mks _ rfl rfl rfl
  | hnull =>
    intro o l r ho _ h
    cases o with
    | null | bool _ | num _ | str _ =>
      rw [merge_scalar _ _ _ _ rfl rfl] at h; cases h; rfl
    | obj os =>
      rw [merge_obj_null] at h; cases h
      rw [wfB_obj] at ho ⊢
      refine ⟨uniq_prune _ _ _ ho.1, ?_⟩
      intro k v hm
      unfold prune at hm
      exact ho.2 k v (List.mem_filter.mp hm).1
    | arr xs =>
      rw [wfB_arr] at ho
      cases hdet : detectListMapKey mks [xs, lastArr l, []] with
      | none => rw [merge_arr_null_none _ _ _ hdet] at h; cases h; rfl
      | some mk =>
        rw [merge_arr_null_some _ _ _ _ hdet] at h; cases h
        rw [wfB_arr]
        intro m hm
        obtain ⟨k, rfl⟩ := rebuild_mem _ _ _ _ m hm
        apply wfB_of_lookup_getD
        intro k v hl
        rw [lookup_filter (fun k => !(hasKey k (makeListMap mk (lastArr l))))] at hl
        split at hl
        · exact ho v (lookup_makeListMap_some mk xs k v hl).1
        · cases hl
  | hobj ds ih =>
    intro o l r ho hd h
    cases o with
    | null | bool _ | num _ | str _ =>
      rw [merge_scalar _ _ _ _ rfl rfl] at h; cases h; exact hd
    | arr xs => rw [merge_arr_other _ _ _ _ rfl rfl] at h; cases h
    | obj os =>
      rw [merge_obj_obj] at h
      rw [wfB_obj] at ho hd
      have hpr : ∀ k v, lookup k (prune os (lastObj l) ds) = some v → v.wfB = true := by
        intro k v hl
        have hm := lookup_mem _ _ _ hl
        unfold prune at hm
        exact ho.2 k v (List.mem_filter.mp hm).1
      obtain ⟨rk, hrk, hP⟩ := mergeFields_inv mks (fun j => j.wfB = true) rfl _ ds _ r
        (fun k v hm x l' m hx hmm => ih k v hm x l' m hx (hd.2 k v hm) hmm) hpr h
      subst hrk
      have hu := mergeFields_uniq mks _ ds _ rk (uniq_prune _ _ _ ho.1) h
      rw [wfB_obj]
      exact ⟨hu, fun k v hm => hP k v (lookup_of_mem_uniq _ _ _ hu hm)⟩
  | harr ds ih =>
    intro o l r ho hd h
    cases o with
    | null | bool _ | num _ | str _ =>
      rw [merge_scalar _ _ _ _ rfl rfl] at h; cases h; exact hd
    | obj os => rw [merge_obj_other _ _ _ _ rfl rfl] at h; cases h
    | arr xs =>
      cases hdet : detectListMapKey mks [xs, lastArr l, ds] with
      | none => rw [merge_arr_arr_none _ _ _ _ hdet] at h; cases h; exact hd
      | some mk =>
        rw [merge_arr_arr_some _ _ _ _ _ hdet] at h
        rw [wfB_arr] at ho hd
        split at h
        · cases h
        · rename_i merged hm
          cases h
          have hP := mergeItems_inv mks mk (fun j => j.wfB = true) rfl _ ds _ merged
            (fun it hit x l' m hx hmm => ih it hit x l' m hx (hd it hit) hmm)
            (fun k v hl => ho v (lookup_prunedMap_some mk xs _ ds k v hl).1) hm
          rw [wfB_arr]
          intro m hmr
          obtain ⟨k, rfl⟩ := rebuild_mem _ _ _ _ m hmr
          exact wfB_of_lookup_getD merged hP k

end Mc
