import Mc.Api
import Mc.Proofs.JsonLemmas
/-
  Facts about the API-server model (Mc/Api.lean), per request:
  * which resourceVersion / UID the object left behind carries,
  * what an accepted update / delete tells about the object that was there.
-/
namespace Mc
namespace Api

theorem lookup_eraseKey (k k2 : String) (kvs : KVs) :
    lookup k2 (eraseKey k kvs) = if k2 = k then none else lookup k2 kvs := by
  induction kvs with
  | nil => simp [eraseKey]
  | cons hd tl ih =>
    obtain ⟨k', v'⟩ := hd
    unfold eraseKey at ih ⊢
    by_cases hk : k' = k
    · subst hk
      rw [List.filter_cons_of_neg (by simp), ih]
      by_cases h : k2 = k'
      · simp [h]
      · simp [h, lookup_cons_ne _ _ _ _ h]
    · rw [List.filter_cons_of_pos (by simpa using hk)]
      by_cases h : k2 = k'
      · subst h; simp [hk]
      · rw [lookup_cons_ne _ _ _ _ h, lookup_cons_ne _ _ _ _ h, ih]

/-! ### metadata access -/

@[simp] theorem metaOf_withMeta (o : J) (m : KVs) : metaOf (withMeta o m) = m := by
  simp [metaOf, withMeta, J.fields, lookup_setKey_same]

theorem fields_withMeta (o : J) (m : KVs) : (withMeta o m).fields = setKey "metadata" (.obj m) o.fields := rfl

theorem mstr_withMeta (o : J) (m : KVs) (k : String) :
    mstr (withMeta o m) k = strOpt (lookup k m) := by
  simp [mstr]

theorem mstr_setMeta (o : J) (k k2 : String) (v : J) :
    mstr (setMeta o k v) k2 = if k2 = k then strOpt (some v) else mstr o k2 := by
  unfold setMeta
  rw [mstr_withMeta, lookup_setKey]
  by_cases h : k2 = k
  · simp [h]
  · simp [h, mstr]

theorem mstr_setMeta_same (o : J) (k : String) (s : String) : mstr (setMeta o k (.str s)) k = s := by
  rw [mstr_setMeta]; simp [strOpt]

theorem mstr_setMeta_other (o : J) (k k2 : String) (v : J) (h : k2 ≠ k) : mstr (setMeta o k v) k2 = mstr o k2 := by
  rw [mstr_setMeta]; simp [h]

/-- editing a top-level field other than `metadata` leaves the metadata alone -/
theorem metaOf_setKey_other (k : String) (v : J) (kvs : KVs) (h : k ≠ "metadata") :
    metaOf (.obj (setKey k v kvs)) = metaOf (.obj kvs) := by
  simp only [metaOf, J.fields]
  rw [lookup_setKey_other _ _ _ _ (fun e => h e.symm)]

theorem metaOf_eraseKey_other (k : String) (kvs : KVs) (h : k ≠ "metadata") :
    metaOf (.obj (eraseKey k kvs)) = metaOf (.obj kvs) := by
  simp only [metaOf, J.fields]
  rw [lookup_eraseKey, if_neg (fun e : "metadata" = k => h e.symm)]

theorem metaOf_obj_fields (o : J) : metaOf (.obj o.fields) = metaOf o := rfl

@[simp] theorem strOpt_str (s : String) : strOpt (some (.str s)) = s := rfl

theorem mstr_of_metaOf_eq {a b : J} (h : metaOf a = metaOf b) (k : String) : mstr a k = mstr b k := by
  unfold mstr; rw [h]

theorem metaOf_keepStatus (cur o : J) : metaOf (keepStatus cur o) = metaOf o := by
  unfold keepStatus
  split
  · rw [metaOf_setKey_other _ _ _ (by decide), metaOf_obj_fields]
  · rw [metaOf_eraseKey_other _ _ (by decide), metaOf_obj_fields]

theorem lookup_copyMeta (keys : List String) (cm : KVs) : ∀ (m : KVs) (k : String),
    lookup k (copyMeta keys cm m) = if k ∈ keys then lookup k cm else lookup k m := by
  unfold copyMeta
  induction keys with
  | nil => intro m k; simp
  | cons x xs ih =>
    intro m k
    rw [List.foldl_cons, ih]
    by_cases hk : k ∈ xs
    · simp [hk]
    · simp only [hk, if_false, List.mem_cons]
      by_cases hx : k = x
      · subst hx
        cases hl : lookup k cm with
        | none => simp [lookup_eraseKey]
        | some v => simp [lookup_setKey_same]
      · simp only [hx, false_or, if_false]
        cases hl : lookup x cm with
        | none => simp [lookup_eraseKey, hx]
        | some v => simp [lookup_setKey_other _ _ _ _ hx]

theorem mstr_bumpGeneration (cur o : J) (k : String) (h : k ≠ "generation") : mstr (bumpGeneration cur o) k = mstr o k := by
  unfold bumpGeneration
  split
  · rfl
  · exact mstr_setMeta_other _ _ _ _ h

/-! ### the object a write leaves behind -/

/-- the shape of every outcome: the target is untouched, gone, or carries the fresh resourceVersion -/
def PostShape (cur : Option J) (f : Fresh) (out : Out) : Prop :=
  out.post = cur ∨ out.post = none ∨ ∃ o, out.post = some o ∧ mstr o "resourceVersion" = f.rv

theorem fail_shape (c : Nat) (r : String) (cur : Option J) (f : Fresh) : PostShape cur f (fail c r cur) := .inl rfl

theorem mstr_created_rv (d : ResDef) (t : Target) (body : J) (f : Fresh) (b : Bool) :
    mstr (created d t body f b) "resourceVersion" = f.rv := by
  unfold created
  have key : ∀ m : KVs, lookup "resourceVersion" m = some (.str f.rv) →
      mstr (if d.hasStatus then J.obj (eraseKey "status" (withMeta body m).fields) else withMeta body m) "resourceVersion" = f.rv := by
    intro m hm
    split
    · rw [mstr_of_metaOf_eq (metaOf_eraseKey_other _ _ (by decide)), mstr_of_metaOf_eq (metaOf_obj_fields _), mstr_withMeta, hm]; rfl
    · rw [mstr_withMeta, hm]; rfl
  apply key
  cases b <;> simp [lookup_setKey, lookup_eraseKey]

theorem mstr_created_uid (d : ResDef) (t : Target) (body : J) (f : Fresh) (b : Bool) :
    mstr (created d t body f b) "uid" = f.uid := by
  unfold created
  have key : ∀ m : KVs, lookup "uid" m = some (.str f.uid) →
      mstr (if d.hasStatus then J.obj (eraseKey "status" (withMeta body m).fields) else withMeta body m) "uid" = f.uid := by
    intro m hm
    split
    · rw [mstr_of_metaOf_eq (metaOf_eraseKey_other _ _ (by decide)), mstr_of_metaOf_eq (metaOf_obj_fields _), mstr_withMeta, hm]; rfl
    · rw [mstr_withMeta, hm]; rfl
  apply key
  cases b <;> simp [lookup_setKey, lookup_eraseKey]

theorem commit_shape (cur o : J) (f : Fresh) : PostShape (some cur) f (commit cur o f) := by
  unfold commit
  simp only []
  split
  · exact .inl rfl
  · split
    · exact .inr (.inl rfl)
    · exact .inr (.inr ⟨_, rfl, mstr_setMeta_same _ _ _⟩)

theorem handle_shape (d : ResDef) (v : Verb) (t : Target) (cur : Option J) (body opts last : J) (f : Fresh) :
    PostShape cur f (handle d v t cur body opts last f) := by
  cases v <;> simp only [handle]
  · -- get
    unfold get; cases cur <;> exact .inl rfl
  · -- create
    unfold create
    split; · exact fail_shape ..
    split; · exact fail_shape ..
    split; · exact fail_shape ..
    exact .inr (.inr ⟨_, rfl, mstr_created_rv ..⟩)
  · -- update
    unfold update
    cases cur with
    | none => exact fail_shape ..
    | some c =>
      simp only []
      split; · exact fail_shape ..
      split; · exact fail_shape ..
      split; · exact fail_shape ..
      exact commit_shape ..
  · -- updateStatus
    unfold updateStatus
    cases cur with
    | none => exact fail_shape ..
    | some c =>
      simp only []
      split; · exact fail_shape ..
      exact commit_shape ..
  · -- delete
    unfold delete
    cases cur with
    | none => exact fail_shape ..
    | some c =>
      simp only []
      split; · exact fail_shape ..
      split; · exact fail_shape ..
      split
      · split
        · exact .inr (.inr ⟨_, rfl, mstr_setMeta_same _ _ _⟩)
        · exact .inl rfl
      · exact .inr (.inl rfl)
  · -- patchRemove
    unfold patchRemove
    cases cur with
    | none => exact fail_shape ..
    | some c =>
      simp only []
      split
      · split
        · exact .inr (.inr ⟨_, rfl, mstr_setMeta_same _ _ _⟩)
        · exact fail_shape ..
      · exact fail_shape ..
  · -- apply
    unfold apply
    split; · exact fail_shape ..
    cases cur with
    | none => exact .inr (.inr ⟨_, rfl, mstr_created_rv ..⟩)
    | some c =>
      simp only []
      split
      · exact .inl rfl
      · exact .inr (.inr ⟨_, rfl, mstr_setMeta_same _ _ _⟩)

theorem mstr_copyMeta_uid (keys : List String) (hk : "uid" ∈ keys) (body cur : J) :
    mstr (withMeta body (copyMeta keys (metaOf cur) (metaOf body))) "uid" = mstr cur "uid" := by
  rw [mstr_withMeta, lookup_copyMeta]
  simp [hk, mstr]

theorem mstr_updated_uid (d : ResDef) (cur body : J) : mstr (updated d cur body) "uid" = mstr cur "uid" := by
  unfold updated
  simp only []
  rw [mstr_bumpGeneration _ _ _ (by decide)]
  split
  · rw [mstr_of_metaOf_eq (metaOf_keepStatus _ _)]
    exact mstr_copyMeta_uid _ (by decide) _ _
  · exact mstr_copyMeta_uid _ (by decide) _ _

theorem mstr_statusUpdated (cur body : J) (k : String) : mstr (statusUpdated cur body) k = mstr cur k := by
  unfold statusUpdated
  split
  · rw [mstr_of_metaOf_eq (metaOf_setKey_other _ _ _ (by decide)), mstr_of_metaOf_eq (metaOf_obj_fields _)]
  · rw [mstr_of_metaOf_eq (metaOf_eraseKey_other _ _ (by decide)), mstr_of_metaOf_eq (metaOf_obj_fields _)]

theorem mstr_appliedTo_uid (d : ResDef) (cur body last : J) : mstr (appliedTo d cur body last) "uid" = mstr cur "uid" := by
  unfold appliedTo
  simp only []
  split
  · rw [mstr_of_metaOf_eq (metaOf_keepStatus _ _)]
    exact mstr_copyMeta_uid _ (by decide) _ _
  · exact mstr_copyMeta_uid _ (by decide) _ _

/-! ### identity: an existing object keeps its UID, a new one gets the fresh UID -/

theorem commit_uid (cur o : J) (f : Fresh) (h : mstr o "uid" = mstr cur "uid") :
    ∀ p, (commit cur o f).post = some p → mstr p "uid" = mstr cur "uid" := by
  intro p hp
  unfold commit at hp
  simp only [] at hp
  split at hp
  · cases hp; rfl
  · split at hp
    · cases hp
    · cases hp
      rw [mstr_setMeta_other _ _ _ _ (by decide), mstr_setMeta_other _ _ _ _ (by decide), h]

theorem handle_uid_kept (d : ResDef) (v : Verb) (t : Target) (c : J) (body opts last : J) (f : Fresh) :
    ∀ p, (handle d v t (some c) body opts last f).post = some p → mstr p "uid" = mstr c "uid" := by
  intro p hp
  cases v <;> simp only [handle] at hp
  · simp [get] at hp; subst hp; rfl
  · unfold create at hp
    split at hp; · simp [fail] at hp; subst hp; rfl
    split at hp; · simp [fail] at hp; subst hp; rfl
    rename_i h; simp at h
  · unfold update at hp
    simp only [] at hp
    split at hp; · simp [fail] at hp; subst hp; rfl
    split at hp; · simp [fail] at hp; subst hp; rfl
    split at hp; · simp [fail] at hp; subst hp; rfl
    exact commit_uid _ _ _ (mstr_updated_uid _ _ _) p hp
  · unfold updateStatus at hp
    simp only [] at hp
    split at hp; · simp [fail] at hp; subst hp; rfl
    exact commit_uid _ _ _ (mstr_statusUpdated _ _ _) p hp
  · unfold delete at hp
    simp only [] at hp
    split at hp; · simp [fail] at hp; subst hp; rfl
    split at hp; · simp [fail] at hp; subst hp; rfl
    split at hp
    · split at hp
      · cases hp
        rw [mstr_setMeta_other _ _ _ _ (by decide), mstr_setMeta_other _ _ _ _ (by decide)]
      · cases hp; rfl
    · cases hp
  · unfold patchRemove at hp
    simp only [] at hp
    split at hp
    · split at hp
      · cases hp
        rw [mstr_setMeta_other _ _ _ _ (by decide), mstr_setMeta_other _ _ _ _ (by decide)]
      · simp [fail] at hp; subst hp; rfl
    · simp [fail] at hp; subst hp; rfl
  · unfold apply at hp
    split at hp; · simp [fail] at hp; subst hp; rfl
    simp only [] at hp
    split at hp
    · cases hp; rfl
    · cases hp
      rw [mstr_setMeta_other _ _ _ _ (by decide), mstr_bumpGeneration _ _ _ (by decide)]
      exact mstr_appliedTo_uid _ _ _ _

theorem handle_uid_new (d : ResDef) (v : Verb) (t : Target) (body opts last : J) (f : Fresh) :
    ∀ p, (handle d v t none body opts last f).post = some p → mstr p "uid" = f.uid := by
  intro p hp
  cases v <;> simp only [handle] at hp
  · simp [get, fail] at hp
  · unfold create at hp
    split at hp; · simp [fail] at hp
    split at hp; · simp [fail] at hp
    split at hp; · simp [fail] at hp
    cases hp; exact mstr_created_uid ..
  · simp [update, fail] at hp
  · simp [updateStatus, fail] at hp
  · simp [delete, fail] at hp
  · simp [patchRemove, fail] at hp
  · unfold apply at hp
    split at hp; · simp [fail] at hp
    simp only [] at hp
    cases hp; exact mstr_created_uid ..

/-! ### what acceptance tells -/

theorem updatePre_some (cur body : J) (c : Nat) (r : String) (h : updatePre cur body = some (c, r)) : 300 ≤ c := by
  unfold updatePre at h
  split at h; · cases h; decide
  split at h; · cases h; decide
  split at h; · cases h; decide
  split at h; · cases h; decide
  cases h

theorem updatePre_none (cur body : J) (h : updatePre cur body = none) :
    mstr body "resourceVersion" = mstr cur "resourceVersion" ∧ (mstr body "uid" = "" ∨ mstr body "uid" = mstr cur "uid") := by
  unfold updatePre at h
  split at h; · cases h
  split at h; · cases h
  split at h; · cases h
  split at h; · cases h
  rename_i h1 h2 h3 h4
  constructor
  · simpa using h4
  · by_cases e : mstr body "uid" = ""
    · exact .inl e
    · right; simpa [e] using h2

theorem fail_not_ok (c : Nat) (r : String) (cur : Option J) (h : 300 ≤ c) : (fail c r cur).ok = false := by
  have : ¬ c < 300 := by omega
  simp [fail, Out.ok, this]

/-- an accepted update was sent with the resourceVersion the live object had -/
theorem update_ok (d : ResDef) (cur : Option J) (body : J) (f : Fresh) (h : (update d cur body f).ok = true) :
    ∃ c, cur = some c ∧ mstr body "resourceVersion" = mstr c "resourceVersion" ∧
      (mstr body "uid" = "" ∨ mstr body "uid" = mstr c "uid") := by
  unfold update at h
  cases cur with
  | none => simp [fail, Out.ok] at h
  | some c =>
    refine ⟨c, rfl, ?_⟩
    simp only [] at h
    split at h
    · rename_i hpre
      rw [fail_not_ok _ _ _ (updatePre_some _ _ _ _ hpre)] at h
      cases h
    · rename_i hpre
      exact updatePre_none _ _ hpre

theorem updateStatus_ok (cur : Option J) (body : J) (f : Fresh) (h : (updateStatus cur body f).ok = true) :
    ∃ c, cur = some c ∧ mstr body "resourceVersion" = mstr c "resourceVersion" ∧
      (mstr body "uid" = "" ∨ mstr body "uid" = mstr c "uid") := by
  unfold updateStatus at h
  cases cur with
  | none => simp [fail, Out.ok] at h
  | some c =>
    refine ⟨c, rfl, ?_⟩
    simp only [] at h
    split at h
    · rename_i hpre
      rw [fail_not_ok _ _ _ (updatePre_some _ _ _ _ hpre)] at h
      cases h
    · rename_i hpre
      exact updatePre_none _ _ hpre

/-- an accepted delete conditioned on a UID found an object with that UID -/
theorem delete_ok (cur : Option J) (opts : J) (f : Fresh) (u : String) (hu : precondition opts "uid" = some u)
    (h : (delete cur opts f).ok = true) : ∃ c, cur = some c ∧ mstr c "uid" = u := by
  unfold delete at h
  cases cur with
  | none => simp [fail, Out.ok] at h
  | some c =>
    refine ⟨c, rfl, ?_⟩
    simp only [] at h
    split at h
    · simp [fail, Out.ok] at h
    · rename_i hne
      simp [preFails, hu] at hne
      exact hne.symm

/-- an accepted create found the name free and stored the body's owner references unchanged -/
theorem create_ok (d : ResDef) (t : Target) (cur : Option J) (body : J) (f : Fresh) (h : (create d t cur body f).ok = true) :
    cur = none ∧ (create d t cur body f).post = some (created d t body f false) := by
  unfold create at h ⊢
  split at h; · simp [fail, Out.ok] at h
  split at h; · simp [fail, Out.ok] at h
  split at h; · simp [fail, Out.ok] at h
  rename_i h1 h2 h3
  simp only [h1, h2, h3]
  cases cur with
  | none => simp
  | some c => simp at h2

theorem lookup_created_other (d : ResDef) (t : Target) (body : J) (f : Fresh) (k : String)
    (hk : k ∉ ["namespace", "uid", "resourceVersion", "generation", "creationTimestamp", "deletionTimestamp"]) :
    lookup k (metaOf (created d t body f false)) = lookup k (metaOf body) := by
  unfold created
  simp only [List.mem_cons, List.not_mem_nil, or_false, not_or] at hk
  obtain ⟨h1, h2, h3, h4, h5, h6⟩ := hk
  have key : ∀ m : KVs, metaOf (if d.hasStatus then J.obj (eraseKey "status" (withMeta body m).fields) else withMeta body m) = m := by
    intro m
    split
    · rw [metaOf_eraseKey_other _ _ (by decide), metaOf_obj_fields, metaOf_withMeta]
    · exact metaOf_withMeta _ _
  simp only [Bool.false_eq_true, if_false]
  rw [key]
  rw [lookup_eraseKey]; simp only [h6, if_false]
  rw [lookup_setKey_other _ _ _ _ h5, lookup_setKey_other _ _ _ _ h4, lookup_setKey_other _ _ _ _ h3, lookup_setKey_other _ _ _ _ h2]
  split
  · exact lookup_setKey_other _ _ _ _ h1
  · rfl

/-- a created object carries exactly the owner references of the request body -/
theorem created_ownerRefs (d : ResDef) (t : Target) (body : J) (f : Fresh) :
    lookup "ownerReferences" (metaOf (created d t body f false)) = lookup "ownerReferences" (metaOf body) :=
  lookup_created_other d t body f _ (by decide)

end Api
end Mc
