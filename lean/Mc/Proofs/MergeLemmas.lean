import Mc.Merge
import Mc.Proofs.JsonLemmas
/-
  Equation lemmas and fold specifications for the merge model (objects half).
-/
set_option linter.unusedSimpArgs false
namespace Mc

/-! ### equation lemmas for `merge` -/

theorem merge_obj_obj (mks : List String) (o : KVs) (l : Option J) (ds : KVs) :
    merge mks (.obj o) l (.obj ds) = mergeFields mks (prune o (lastObj l) ds) (lastObj l) ds := by
  rw [merge]

theorem merge_obj_null (mks : List String) (o : KVs) (l : Option J) :
    merge mks (.obj o) l .null = .ok (.obj (prune o (lastObj l) [])) := by
  rw [merge]

theorem merge_obj_other (mks : List String) (o : KVs) (l : Option J) (d : J)
    (h1 : d.isObj = false) (h2 : d.isNull = false) :
    merge mks (.obj o) l d = .error "desired: expecting map" := by
  cases d <;> simp [J.isObj, J.isNull] at h1 h2 <;> simp [merge]

theorem merge_arr_other (mks : List String) (xs : List J) (l : Option J) (d : J)
    (h1 : d.isArr = false) (h2 : d.isNull = false) :
    merge mks (.arr xs) l d = .error "desired: expecting array" := by
  cases d <;> simp [J.isArr, J.isNull] at h1 h2 <;> simp [merge]

theorem merge_scalar (mks : List String) (o : J) (l : Option J) (d : J)
    (ho : o.isObj = false) (ha : o.isArr = false) : merge mks o l d = .ok d := by
  cases o <;> simp [J.isObj, J.isArr] at ho ha <;> simp [merge]

/-- the pruned destination map of the list-map branch -/
def prunedMap (mk : String) (xs ll ds : List J) : KVs :=
  (makeListMap mk xs).filter
    (fun kv => !(hasKey kv.1 (makeListMap mk ll) && !(ds.map (keyOf mk)).contains kv.1))

theorem merge_arr_arr_none (mks : List String) (xs : List J) (l : Option J) (ds : List J)
    (h : detectListMapKey mks [xs, lastArr l, ds] = none) :
    merge mks (.arr xs) l (.arr ds) = .ok (.arr ds) := by
  rw [merge]; simp only [h]

theorem merge_arr_arr_some (mks : List String) (xs : List J) (l : Option J) (ds : List J) (mk : String)
    (h : detectListMapKey mks [xs, lastArr l, ds] = some mk) :
    merge mks (.arr xs) l (.arr ds) =
      match mergeItems mks mk (prunedMap mk xs (lastArr l) ds) (makeListMap mk (lastArr l)) ds with
      | .error e => .error e
      | .ok merged => .ok (.arr (rebuild mk xs merged ds)) := by
  rw [merge]; simp only [h, prunedMap]
  split <;> simp_all

theorem merge_arr_null_none (mks : List String) (xs : List J) (l : Option J)
    (h : detectListMapKey mks [xs, lastArr l, []] = none) :
    merge mks (.arr xs) l .null = .ok .null := by
  rw [merge]; simp only [h]

theorem merge_arr_null_some (mks : List String) (xs : List J) (l : Option J) (mk : String)
    (h : detectListMapKey mks [xs, lastArr l, []] = some mk) :
    merge mks (.arr xs) l .null =
      .ok (.arr (rebuild mk xs ((makeListMap mk xs).filter (fun kv => !(hasKey kv.1 (makeListMap mk (lastArr l))))) [])) := by
  rw [merge]; simp only [h]

/-! ### prune -/

theorem lookup_prune (d ls ds : KVs) (k : String) :
    lookup k (prune d ls ds) = if (hasKey k ls && !hasKey k ds) then none else lookup k d := by
  unfold prune
  rw [lookup_filter (fun k => !(hasKey k ls && !hasKey k ds))]
  cases (hasKey k ls && !hasKey k ds) <;> simp

theorem lookup_prune_of_hasKey (d ls ds : KVs) (k : String) (h : hasKey k ds = true) :
    lookup k (prune d ls ds) = lookup k d := by
  rw [lookup_prune]; simp [h]

theorem prune_self (rk ds : KVs) : prune rk ds ds = rk := by
  unfold prune
  apply List.filter_eq_self.mpr
  intro a _
  cases h : hasKey a.1 ds <;> simp [h]

theorem prune_nil_last (rk ds : KVs) : prune rk [] ds = rk := by
  unfold prune
  apply List.filter_eq_self.mpr
  intro a _
  simp

theorem uniq_prune (d ls ds : KVs) (h : uniq d) : uniq (prune d ls ds) := uniq_filter _ _ h

/-! ### mergeFields -/

theorem mergeFields_nil (mks : List String) (d ls : KVs) : mergeFields mks d ls [] = .ok (.obj d) := by
  rw [mergeFields]

theorem mergeFields_cons (mks : List String) (d ls : KVs) (k : String) (v : J) (rest : KVs) :
    mergeFields mks d ls ((k, v) :: rest) =
      match merge mks ((lookup k d).getD .null) (lookup k ls) v with
      | .ok m => mergeFields mks (setKey k m d) ls rest
      | .error e => .error e := by
  rw [mergeFields]
  split <;> simp_all

theorem ne_of_mem_of_lookup_none {k k2 : String} {v2 : J} {tl : KVs}
    (hk : lookup k tl = none) (hm : (k2, v2) ∈ tl) : k2 ≠ k := by
  intro e; subst e
  have := hasKey_of_mem hm
  rw [hasKey_eq, hk] at this; simp at this

/-- after the fold every desired key holds the merge of the *original* value at that key,
    and untouched keys are unchanged -/
theorem mergeFields_spec (mks : List String) (ls : KVs) : ∀ (ds d : KVs) (r : J), uniq ds →
    mergeFields mks d ls ds = .ok r →
    ∃ rk, r = .obj rk ∧
      (∀ k v, (k, v) ∈ ds → ∃ m, lookup k rk = some m ∧
          merge mks ((lookup k d).getD .null) (lookup k ls) v = .ok m) ∧
      (∀ k, lookup k ds = none → lookup k rk = lookup k d) := by
  intro ds
  induction ds with
  | nil =>
    intro d r _ h
    rw [mergeFields_nil] at h
    cases h
    exact ⟨d, rfl, by simp, by simp⟩
  | cons hd tl ih =>
    obtain ⟨k, v⟩ := hd
    intro d r hu h
    rw [mergeFields_cons] at h
    split at h
    · rename_i m hm
      obtain ⟨hk, hu'⟩ := hu
      obtain ⟨rk, hr, h1, h2⟩ := ih _ _ hu' h
      refine ⟨rk, hr, ?_, ?_⟩
      · intro k2 v2 hmem
        simp at hmem
        rcases hmem with ⟨rfl, rfl⟩ | hmem
        · refine ⟨m, ?_, hm⟩
          rw [h2 _ hk, lookup_setKey_same]
        · obtain ⟨m2, hm2, hmm⟩ := h1 _ _ hmem
          have hne : k2 ≠ k := ne_of_mem_of_lookup_none hk hmem
          rw [lookup_setKey_other _ _ _ _ hne] at hmm
          exact ⟨m2, hm2, hmm⟩
      · intro k2 hk2
        simp only [lookup] at hk2
        split at hk2
        · simp at hk2
        · rename_i hne
          rw [h2 _ hk2, lookup_setKey_other _ _ _ _ hne]
    · simp at h

/-- keys of the fold result -/
theorem mergeFields_hasKey (mks : List String) (ls ds d rk : KVs) (hu : uniq ds)
    (h : mergeFields mks d ls ds = .ok (.obj rk)) (k : String) :
    hasKey k rk = (hasKey k d || hasKey k ds) := by
  obtain ⟨rk', hr, h1, h2⟩ := mergeFields_spec mks ls ds d _ hu h
  cases hr
  cases hd : lookup k ds with
  | none => simp [hasKey, h2 k hd, hd]
  | some v =>
    obtain ⟨m, hm, _⟩ := h1 k v (lookup_mem _ _ _ hd)
    simp [hasKey, hm, hd]

/-- the fold preserves uniqueness of keys -/
theorem mergeFields_uniq (mks : List String) (ls : KVs) : ∀ (ds d rk : KVs), uniq d →
    mergeFields mks d ls ds = .ok (.obj rk) → uniq rk := by
  intro ds
  induction ds with
  | nil => intro d rk hu h; rw [mergeFields_nil] at h; cases h; exact hu
  | cons hd tl ih =>
    obtain ⟨k, v⟩ := hd
    intro d rk hu h
    rw [mergeFields_cons] at h
    split at h
    · exact ih _ _ (uniq_setKey _ _ _ hu) h
    · simp at h

/-- a second pass over a suffix leaves the object unchanged -/
theorem mergeFields_fix (mks : List String) (all rk : KVs) : ∀ (ds : KVs),
    (∀ k v, (k, v) ∈ ds → ∃ m, lookup k rk = some m ∧ merge mks m (lookup k all) v = .ok m) →
    mergeFields mks rk all ds = .ok (.obj rk) := by
  intro ds
  induction ds with
  | nil => intro _; rw [mergeFields_nil]
  | cons hd tl ih =>
    obtain ⟨k, v⟩ := hd
    intro h
    obtain ⟨m, hlk, hm⟩ := h k v (by simp)
    rw [mergeFields_cons, hlk]
    simp only [Option.getD_some]
    rw [hm]
    simp only
    rw [setKey_id _ _ _ hlk]
    exact ih (fun k2 v2 hmem => h k2 v2 (by simp [hmem]))

/-- an error at any desired key makes the whole fold fail -/
theorem mergeFields_error (mks : List String) (ls : KVs) : ∀ (ds d : KVs) (k : String) (v : J), uniq ds →
    (k, v) ∈ ds → (∃ e, merge mks ((lookup k d).getD .null) (lookup k ls) v = .error e) →
    ∃ e, mergeFields mks d ls ds = .error e := by
  intro ds
  induction ds with
  | nil => intro d k v _ hm; simp at hm
  | cons hd tl ih =>
    obtain ⟨k0, v0⟩ := hd
    intro d k v hu hm he
    obtain ⟨hk0, hu'⟩ := hu
    rw [mergeFields_cons]
    simp at hm
    rcases hm with ⟨rfl, rfl⟩ | hm
    · obtain ⟨e, he⟩ := he
      rw [he]; exact ⟨e, rfl⟩
    · cases hmm : merge mks ((lookup k0 d).getD .null) (lookup k0 ls) v0 with
      | error e => exact ⟨e, rfl⟩
      | ok m =>
        simp only
        apply ih _ k v hu' hm
        have hne : k ≠ k0 := ne_of_mem_of_lookup_none hk0 hm
        rw [lookup_setKey_other _ _ _ _ hne]; exact he

end Mc
