import Mc.Sync.Rolling
/-
  Helper lemmas for the rolling-update model (`Mc/Sync/Rolling.lean`), used by `Mc/Props/C07.lean`.
-/
namespace Mc

/-- `gatedMove` as a search: the first child (hook order) of a rolling kind that revision 0 does not
    claim decides the outcome -/
theorem gatedMove_eq_find (c : Cfg) (obsRel : ObjMap) (prs : List PRev) (cl : Claims) (children : List J) :
    gatedMove c obsRel prs cl children =
      match children.find? (fun child =>
          c.isRolling (apiGroup (getAPIVersion child)) (getKind child) &&
          !(cl.get (apiGroup (getAPIVersion child)) (getKind child) (getName child) == some 0)) with
      | none => (prs, condJ "True" "OnLatestRevision" s!"latest ControllerRevision: {(prs.headD default).name}")
      | some child =>
        match shouldContinueRolling c (prs.headD default) obsRel with
        | some msg => (prs, condJ "False" "RolloutWaiting" msg)
        | none =>
          (prs.mapIdx (fun i p =>
              if i == 0 then { p with children := addChild p.children (apiGroup (getAPIVersion child)) (getKind child) (getName child) }
              else { p with children := removeChild p.children (apiGroup (getAPIVersion child)) (getKind child) (getName child) }),
           condJ "False" "RolloutProgressing" s!"updating {getKind child} {getName child}") := by
  induction children with
  | nil => rfl
  | cons child rest ih =>
    by_cases h1 : c.isRolling (apiGroup (getAPIVersion child)) (getKind child) = true
    · by_cases h2 : (cl.get (apiGroup (getAPIVersion child)) (getKind child) (getName child) == some 0) = true
      · simp only [gatedMove, List.find?, h1, h2, Bool.not_true, Bool.and_false, Bool.false_eq_true, if_false, if_true]
        exact ih
      · have h2' : (cl.get (apiGroup (getAPIVersion child)) (getKind child) (getName child) == some 0) = false := by
          cases h : (cl.get (apiGroup (getAPIVersion child)) (getKind child) (getName child) == some 0)
          · rfl
          · exact absurd h h2
        cases hs : shouldContinueRolling c (prs.headD default) obsRel <;>
          simp only [gatedMove, List.find?, h1, h2', hs, Bool.not_true, Bool.not_false, Bool.and_true, Bool.false_eq_true, if_false]
    · have h1' : c.isRolling (apiGroup (getAPIVersion child)) (getKind child) = false := by
        cases h : c.isRolling (apiGroup (getAPIVersion child)) (getKind child)
        · rfl
        · exact absurd h h1
      simp only [gatedMove, List.find?, h1', Bool.not_false, Bool.false_and, if_true]
      exact ih

/-- the latest revision after a move -/
theorem headD_mapIdx_move (prs : List PRev) (f g : PRev → PRev) (hd : f default = default) :
    (prs.mapIdx (fun i p => if i == 0 then f p else g p)).headD default = f (prs.headD default) := by
  cases prs with
  | nil => simp [hd]
  | cons p rest => simp [List.mapIdx_cons]

theorem children_headD_mapIdx_move (prs : List PRev) (hne : prs ≠ []) (f g : List CGroup → List CGroup) :
    ((prs.mapIdx (fun i (p : PRev) => if i == 0 then { p with children := f p.children } else { p with children := g p.children })).headD default).children
      = f (prs.headD default).children := by
  cases prs with
  | nil => exact absurd rfl hne
  | cons p rest => simp [List.mapIdx_cons]

/-! ### `addChild`: at most one name is added -/

def claimNames (gs : List CGroup) : List String := gs.flatMap (·.names)

theorem addChild_go_names (g k n : String) (gs : List CGroup)
    (h : gs.any (fun x => x.apiGroup == g && x.kind == k) = true) :
    claimNames (addChild.go g k n gs) = claimNames gs ∨
    ∃ as bs, claimNames gs = as ++ bs ∧ claimNames (addChild.go g k n gs) = as ++ n :: bs := by
  induction gs with
  | nil => simp at h
  | cons x rest ih =>
    by_cases hx : (x.apiGroup == g && x.kind == k) = true
    · by_cases hc : n ∈ x.names
      · left; simp [addChild.go, hx, hc]
      · right
        refine ⟨x.names, claimNames rest, ?_, ?_⟩
        · simp [claimNames]
        · simp [addChild.go, hx, hc, claimNames]
    · have hr : rest.any (fun x => x.apiGroup == g && x.kind == k) = true := by
        simp only [List.any_cons, Bool.or_eq_true] at h
        rcases h with h | h
        · exact absurd h hx
        · exact h
      rcases ih hr with ih | ⟨as, bs, h1, h2⟩
      · left
        simp only [addChild.go, hx, Bool.false_eq_true, if_false, claimNames, List.flatMap_cons] at ih ⊢
        rw [ih]
      · right
        refine ⟨x.names ++ as, bs, ?_, ?_⟩
        · simp only [claimNames, List.flatMap_cons] at h1 ⊢
          rw [h1, List.append_assoc]
        · simp only [addChild.go, hx, Bool.false_eq_true, if_false, claimNames, List.flatMap_cons] at h2 ⊢
          rw [h2, List.append_assoc]

/-- `addChild` leaves the claimed names alone or inserts exactly the one name `n` -/
theorem addChild_names (gs : List CGroup) (g k n : String) :
    claimNames (addChild gs g k n) = claimNames gs ∨
    ∃ as bs, claimNames gs = as ++ bs ∧ claimNames (addChild gs g k n) = as ++ n :: bs := by
  unfold addChild
  by_cases h : gs.any (fun x => x.apiGroup == g && x.kind == k) = true
  · simp only [h, if_true]
    exact addChild_go_names g k n gs h
  · right
    refine ⟨claimNames gs, [], by simp, ?_⟩
    simp [h, claimNames]

end Mc
