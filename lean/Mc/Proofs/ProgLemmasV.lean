import Mc.Sync.Types
/-
  `Prog.AllRets` (a property of every leaf, whatever the responses) through `bind`, `PE.bind`, folds.
-/
namespace Mc
namespace Prog

theorem AllRets.trivial {α : Type} : ∀ (p : Prog α), AllRets (fun _ => True) p
  | .ret a => .ret a True.intro
  | .call r k => .call r k (fun x => AllRets.trivial (k x))

theorem AllRets.mono {α : Type} {R S : α → Prop} {p : Prog α} (h : ∀ a, R a → S a) (hp : AllRets R p) :
    AllRets S p := by
  induction hp with
  | ret a ha => exact .ret a (h a ha)
  | call r k _ ih => exact .call r k ih

theorem AllRets.bind {α β : Type} {Q : α → Prop} {R : β → Prop} {p : Prog α} {f : α → Prog β}
    (hp : AllRets Q p) (hf : ∀ a, Q a → AllRets R (f a)) : AllRets R (p.bind f) := by
  induction hp with
  | ret a ha => exact hf a ha
  | call r k _ ih => exact .call r _ (fun x => ih x)

theorem AllRets.of_ret {α : Type} {R : α → Prop} {a : α} (h : AllRets R (Prog.ret a)) : R a := by
  cases h; assumption

end Prog

namespace PE

/-- every successful leaf satisfies `R` -/
abbrev AllOk {α : Type} (R : α → Prop) (p : PE α) : Prop :=
  Prog.AllRets (fun r => ∀ a, r = .ok a → R a) p

theorem AllOk.pure {α : Type} {R : α → Prop} {a : α} (h : R a) : AllOk R (PE.pure a) :=
  .ret _ (fun b hb => by cases hb; exact h)

theorem AllOk.fail {α : Type} {R : α → Prop} (msg : String) : AllOk R (PE.fail msg : PE α) :=
  .ret _ (fun b hb => by cases hb)

theorem AllOk.throw {α : Type} {R : α → Prop} (e : Err) : AllOk R (PE.throw e : PE α) :=
  .ret _ (fun b hb => by cases hb)

theorem AllOk.ofExcept {α : Type} {R : α → Prop} {e : Except String α} (h : ∀ a, e = .ok a → R a) :
    AllOk R (PE.ofExcept e) := by
  cases e with
  | ok a => exact AllOk.pure (h a rfl)
  | error m => exact AllOk.fail m

theorem AllOk.bind {α β : Type} {Q : α → Prop} {R : β → Prop} {p : PE α} {f : α → PE β}
    (hp : AllOk Q p) (hf : ∀ a, Q a → AllOk R (f a)) : AllOk R (PE.bind p f) := by
  unfold PE.bind
  apply Prog.AllRets.bind hp
  intro r hr
  cases r with
  | ok a => exact hf a (hr a rfl)
  | error e => exact .ret _ (fun b hb => by cases hb)

theorem AllOk.lift {α : Type} {R : α → Prop} {p : Prog α} (hp : Prog.AllRets R p) : AllOk R (PE.lift p) := by
  unfold PE.lift
  apply Prog.AllRets.bind hp
  intro a ha
  exact .ret _ (fun b hb => by cases hb; exact ha)

theorem foldlM_nil {α β : Type} (f : β → α → PE β) (b : β) : List.foldlM f b [] = PE.pure b := rfl

theorem foldlM_cons {α β : Type} (f : β → α → PE β) (b : β) (a : α) (l : List α) :
    List.foldlM f b (a :: l) = PE.bind (f b a) (fun b' => List.foldlM f b' l) := rfl

/-- invariant of a monadic fold: `Inv` holds initially and every step's successful leaves keep it -/
theorem AllOk.foldlM {α β : Type} {Inv : β → Prop} (f : β → α → PE β) :
    ∀ (l : List α) (b : β), Inv b → (∀ b a, a ∈ l → Inv b → AllOk Inv (f b a)) → AllOk Inv (List.foldlM f b l) := by
  intro l
  induction l with
  | nil => intro b hb _; exact AllOk.pure hb
  | cons a rest ih =>
    intro b hb hstep
    rw [foldlM_cons]
    apply AllOk.bind (hstep b a (by simp) hb)
    intro b' hb'
    exact ih b' hb' (fun b a ha => hstep b a (List.mem_cons_of_mem _ ha))

end PE
end Mc

namespace Mc
namespace PE

/-- invariant indexed by the prefix already processed -/
theorem AllOk.foldlM_prefix {α β : Type} {Inv : List α → β → Prop} (f : β → α → PE β)
    (hstep : ∀ pre a b, Inv pre b → AllOk (Inv (pre ++ [a])) (f b a)) :
    ∀ (l pre : List α) (b : β), Inv pre b → AllOk (Inv (pre ++ l)) (List.foldlM f b l) := by
  intro l
  induction l with
  | nil => intro pre b hb; rw [List.append_nil]; exact AllOk.pure hb
  | cons a rest ih =>
    intro pre b hb
    rw [foldlM_cons]
    apply AllOk.bind (hstep pre a b hb)
    intro b' hb'
    have := ih (pre ++ [a]) b' hb'
    rwa [List.append_assoc, List.singleton_append] at this

end PE
end Mc

namespace Mc
namespace PE

theorem allCalls_bind {α β : Type} {P : Req → Prop} {p : PE α} {f : α → PE β}
    (hp : Prog.AllCalls P p) (hf : ∀ a, Prog.AllCalls P (f a)) : Prog.AllCalls P (PE.bind p f) := by
  unfold PE.bind
  apply Prog.AllCalls.bind hp
  intro r
  cases r with
  | ok a => exact hf a
  | error e => exact .ret _

theorem allCalls_lift_request {P : Req → Prop} {q : Req} (hq : P q) :
    Prog.AllCalls P (PE.lift (Prog.request q)) := by
  unfold PE.lift Prog.request
  exact Prog.AllCalls.bind (.call q _ hq (fun x => .ret x)) (fun a => .ret _)

end PE
end Mc
