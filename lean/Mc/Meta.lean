import Mc.Json
/-
  Model of the meta-controllers (pkg/controller/composite/metacontroller.go, pkg/controller/decorator/metacontroller.go):
  Reconcile of a CompositeController / DecoratorController object starts, restarts and stops hosted controllers.
  A hosted controller is identified by the version of the spec it was started from; what it subscribes to in the
  shared informer factory is part of the spec. Goroutine shutdown inside Stop() is not modelled.
-/
namespace Mc.Meta

/-- how far `Reconcile` gets with a spec -/
inductive Class where
  /-- constructible: the instance starts -/
  | ok
  /-- `Reconcile` returns before the constructor (parent CRD missing -> error; no status subresource -> nil) -/
  | early (err : Bool)
  /-- the constructor fails after opening `opened` informers, which its deferred cleanup closes again -/
  | failing (opened : List String)
  deriving Repr, BEq, DecidableEq, Inhabited

structure Spec where
  ver : Nat
  cls : Class
  /-- informer keys a running instance holds open -/
  resources : List String
  deriving Repr, BEq, DecidableEq, Inhabited

structure State where
  /-- name ↦ spec of the running instance -/
  running : List (String × Spec) := []
  /-- informer key ↦ open subscriptions -/
  subs : List (String × Nat) := []
  deriving Repr, Inhabited

def incr (subs : List (String × Nat)) (k : String) : List (String × Nat) :=
  match subs.lookup k with
  | some n => subs.map (fun e => if e.1 == k then (k, n + 1) else e)
  | none => subs ++ [(k, 1)]

def decr (subs : List (String × Nat)) (k : String) : List (String × Nat) :=
  match subs.lookup k with
  | some n => if n ≤ 1 then subs.filter (·.1 != k) else subs.map (fun e => if e.1 == k then (k, n - 1) else e)
  | none => subs

def openAll (subs : List (String × Nat)) (ks : List String) : List (String × Nat) := ks.foldl incr subs
def closeAll (subs : List (String × Nat)) (ks : List String) : List (String × Nat) := ks.foldl decr subs

def State.stop (s : State) (name : String) : State :=
  match s.running.lookup name with
  | some sp => { running := s.running.filter (·.1 != name), subs := closeAll s.subs sp.resources }
  | none => s

structure Out where
  error : Bool := false
  started : Bool := false
  stopped : Bool := false
  deriving Repr, Inhabited

/-- `Reconcile(name)`: `obs` is what the API holds for the controller object (`none` = deleted) -/
def reconcile (s : State) (name : String) (obs : Option Spec) : State × Out :=
  match obs with
  | none => (s.stop name, { stopped := (s.running.lookup name).isSome })
  | some sp =>
    let same := (s.running.lookup name).map (·.ver) == some sp.ver
    if same then (s, {}) else
    -- the spec changed (or nothing runs): the old instance goes first, whatever becomes of the new one
    let stopped := (s.running.lookup name).isSome
    let s1 := s.stop name
    match sp.cls with
    | .early err => (s1, { error := err, stopped })
    | .failing opened => ({ s1 with subs := closeAll (openAll s1.subs opened) opened }, { error := true, stopped })
    | .ok => ({ running := s1.running ++ [(name, sp)], subs := openAll s1.subs sp.resources }, { started := true, stopped })

def run (s : State) : List (String × Option Spec) → State × List Out
  | [] => (s, [])
  | (n, o) :: rest =>
      let (s1, out) := reconcile s n o
      let (s2, outs) := run s1 rest
      (s2, out :: outs)

end Mc.Meta
