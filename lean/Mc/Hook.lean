/-
  Model of pkg/hooks: webhookExecutor.Call with the plain and the ETag transports.
  A call is three atomic steps over the shared ETag cache: `enrich` (read the entry, record the
  If-None-Match header), the server's answer (a parameter), `finish` (429 test, status gate,
  response adjustment through the cache, decoding). Concurrent calls interleave at this grain.
  Core Lean only.
-/
namespace Mc.Hook

/-- what the decoder makes of a body (byte-level decoding is library code, compared differentially) -/
inductive BodyClass where
  | valid | unknownFields | duplicateFields | invalid
  deriving Repr, BEq, DecidableEq, Inhabited

/-- Retry-After header classes -/
inductive RetryAfter where
  | absent
  | numeric (n : Int)
  | date (secondsFromNow : Int)      -- RFC1123 date, as ⌈date − now⌉
  | garbage
  deriving Repr, BEq, DecidableEq, Inhabited

/-- a response body: an opaque identity plus its decoding class -/
structure Body where
  id : String
  cls : BodyClass
  deriving Repr, BEq, DecidableEq, Inhabited

structure Answer where
  status : Nat
  etag : String            -- "" = no ETag header
  body : Body
  retryAfter : RetryAfter
  deriving Repr, BEq, DecidableEq, Inhabited

structure Entry where
  etag : String
  body : Body
  deriving Repr, BEq, DecidableEq, Inhabited

/-- the cache entry of one key (`none`: absent or expired) -/
abbrev ECache := Option Entry

structure Mode where
  etagEnabled : Bool
  strict : Bool
  deriving Repr, BEq, DecidableEq, Inhabited

inductive Result where
  | ok (body : Body)
  | tooMany (sec : Int)
  | unsupportedStatus
  | cacheMiss            -- 304/412 but no (matching) cache entry
  | undecodable
  | strictRejected
  deriving Repr, BEq, DecidableEq, Inhabited

def Result.isOk : Result → Bool | .ok _ => true | _ => false

/-- `enrichHeaders`: the If-None-Match header sent ("" = none) -/
def enrich (m : Mode) (cache : ECache) : String :=
  if m.etagEnabled then (match cache with | some e => e.etag | none => "") else ""

def retrySeconds : RetryAfter → Int
  | .absent => 0
  | .numeric n => n
  | .date d => d
  | .garbage => 0

/-- `isStatusSupported` -/
def statusSupported (m : Mode) (inm : String) (status : Nat) : Bool :=
  status == 200 || (m.etagEnabled && (status == 304 || status == 412) && inm != "")

/-- decoding + strict/loose table -/
def decode (m : Mode) (b : Body) : Result :=
  match b.cls with
  | .invalid => .undecodable
  | .valid => .ok b
  | .unknownFields | .duplicateFields => if m.strict then .strictRejected else .ok b

/-- everything after the round trip: result and the cache afterwards -/
def finish (m : Mode) (inm : String) (a : Answer) (cache : ECache) : Result × ECache :=
  if a.status == 429 then (.tooMany (retrySeconds a.retryAfter), cache)
  else if !statusSupported m inm a.status then (.unsupportedStatus, cache)
  else if !m.etagEnabled then (decode m a.body, cache)
  else if inm != "" && (a.status == 304 || a.status == 412) then
    match cache with
    | none => (.cacheMiss, cache)
    | some e => if e.etag != inm then (.cacheMiss, cache) else (decode m e.body, cache)
  else
    let cache' := if a.etag != "" then some { etag := a.etag, body := a.body } else cache
    (decode m a.body, cache')

/-- a step of a schedule: call `i` enriches, or call `i` receives its answer and finishes -/
inductive Step where
  | enrich (i : Nat)
  | finish (i : Nat) (a : Answer)
  deriving Repr, Inhabited

structure State where
  cache : ECache
  /-- If-None-Match sent by call i -/
  inm : List (Nat × String) := []
  results : List (Nat × Result) := []
  /-- history of cache writes (ETag, body), newest first -/
  sets : List Entry := []
  deriving Inhabited

def step (m : Mode) (s : State) : Step → State
  | .enrich i => { s with inm := (i, enrich m s.cache) :: s.inm }
  | .finish i a =>
      let inm := (s.inm.lookup i).getD ""
      let (r, c') := finish m inm a s.cache
      { s with cache := c', results := (i, r) :: s.results,
               sets := if c' = s.cache then s.sets else (match c' with | some e => e :: s.sets | none => s.sets) }

def run (m : Mode) (s : State) (steps : List Step) : State := steps.foldl (step m) s

end Mc.Hook
