import Mc.Spec.C05
import Mc.Spec.RollingOracle
/-
  Oracles over a whole scenario (several syncs of the real controller, fresh caches each round,
  a fair environment between rounds): convergence and quiescence (C01), rollout liveness (C08),
  resumption after a crash (C09), convergence after faults (C12).
  The per-round figures are taken by the harness from the simulator's request log and store.
-/
namespace Mc

structure RoundInfo where
  outcome : String
  detail : String
  depWrites : Nat
  /-- accepted writes to children (ControllerRevisions not counted) -/
  childWrites : Nat
  contentWrites : List String
  storeDigest : String
  updated : String
  revisions : Nat
  images : List (String × String)
  deriving Inhabited

def RoundInfo.ofJ (j : J) : RoundInfo :=
  { outcome := j.getStr "outcome", detail := j.getStr "detail", depWrites := (j.getInt "depWrites").toNat, childWrites := (j.getInt "childWrites").toNat,
    contentWrites := (j.getD "contentWrites").strList, storeDigest := j.getStr "storeDigest",
    updated := j.getStr "updated", revisions := (j.getInt "revisions").toNat,
    images := (j.getD "images").fields.map (fun kv => (kv.1, kv.2.strD "")) }

/-- round `k` changed nothing: no accepted write to a child, same store as after round `k-1`
    (a ControllerRevision re-sent with unchanged content leaves the store as it is and is not a child write) -/
def quietAt (rs : List RoundInfo) (k : Nat) : Bool :=
  match rs[k]?, (if k == 0 then none else rs[k - 1]?) with
  | some r, some p => r.outcome == "ok" && r.childWrites == 0 && r.contentWrites.isEmpty && r.storeDigest == p.storeDigest
  | _, _ => false

/-- first round from which every later round is quiet -/
def quietFrom (rs : List RoundInfo) : Option Nat :=
  (List.range rs.length).find? (fun k => k > 0 && (List.range (rs.length - k)).all (fun d => quietAt rs (k + d)))

def kindName (o : J) : String := getKind o ++ "/" ++ getName o

/-- C01 on a convergence scenario -/
def oracleC01Rounds (c : J) : Option (Option String) :=
  let rs := (c.getArr "rounds").map RoundInfo.ofJ
  -- excluded by the statement: a foreign object occupies a desired child's name
  if c.getBool "foreign" then none else
  -- not judged: a namespaced parent with a cluster-scoped child kind (Kubernetes does not allow a cluster-scoped
  -- dependent to name a namespaced owner; metacontroller never lists such objects for a namespaced parent)
  let cfg0 := c.getD "cfg"
  if cfg0.getBool "parentNamespaced" && (cfg0.getArr "children").any (fun ch => !ch.getBool "namespaced") then none else
  let n := rs.length
  let lastDetail := (rs.getLast?.map (·.detail)).getD ""
  let has (t : String) : Bool := (lastDetail.splitOn t).length > 1
  -- excluded because another property demands a standing error (DESIGN §3 "How the statements are read"):
  -- customize rules that C15 wants rejected, an update method outside the documented set (C06), a desired child
  -- whose labels do not satisfy the selector (C04), a type clash between desired and observed content (C05)
  if has "related rule cannot have both" || has "differs from parent object namespace" || has "unknown method" ||
     has "don't match parent selector" || has "expecting" then none else
  some (
    -- recorded finding F-C01-1: without selector generation the ControllerRevision is labelled from
    -- spec.template.metadata.labels; when those do not satisfy spec.selector the revision is released on the next sync
    -- and re-creating it fails with AlreadyExists for ever
    orElse (check (!(has "can't create ControllerRevision" && has "AlreadyExists"))
      "[F-C01-1] the parent's ControllerRevision does not match the parent's own selector: it is released, and every later sync fails re-creating it (AlreadyExists)") fun _ =>
    orElse (check (!(has "an empty namespace may not be set"))
      "[F-C08-1] cluster-scoped parent with a rolling strategy: every sync fails writing the ControllerRevision (empty namespace)") fun _ =>
    orElse (check ((quietFrom rs).isSome && quietAt rs (n - 1) && quietAt rs (n - 2))
      s!"no quiescence within {n} syncs: child writes per round {rs.map (·.childWrites)}, outcomes {rs.map (·.outcome)}") fun _ =>
    -- once nothing changes, nothing changes again (no hot loop)
    -- (a round before which somebody else changed the parent or a child may of course write again)
    let disturbed : List Nat := (c.getArr "disturbed").map (fun x => (x.int?.getD 0).toNat)
    orElse (firstSome (List.range n) (fun k => check (!(quietAt rs k) || k + 1 ≥ n || disturbed.contains (k + 1) || quietAt rs (k + 1))
      s!"round {k} was quiet but round {k+1} wrote again")) fun _ =>
    if c.getBool "parentDeleting" || c.getStr "lastHook" == "" then none else
    let owned := (c.getD "owned").strList
    let desired := (c.getD "desired").strList
    orElse (check (owned.all desired.contains && desired.all owned.contains)
      s!"at quiescence the parent owns {owned} but the hook desires {desired}") fun _ =>
    -- for strategies that permit updates every field the hook specified has the value it specified
    if c.getBool "ssa" then none else
    let cfg := c.getD "cfg"
    let ownedObjs := c.getArr "ownedObjs"
    firstSome (c.getArr "desiredObjs") (fun d =>
      let method := ((cfg.getArr "children").find? (fun ch => ch.getStr "kind" == getKind d)).map (fun ch => ch.getStr "method")
      if method == some "InPlace" || method == some "RollingInPlace" || method == some "Recreate" || method == some "RollingRecreate" then
        match ownedObjs.find? (fun o => kindName o == kindName d) with
        | some o =>
            -- metadata: labels/annotations the hook named; everything else field by field
            let d' := J.obj (eraseKey "metadata" d.fields)
            check (C05.contains o d' && (labelsOf d).all (fun kv => (labelsOf o).lookup kv.1 == some kv.2))
              s!"{kindName d} is owned but a field the hook specified does not have the specified value"
        | none => none
      else none))

def imagesAll (r : RoundInfo) (img : String) : Bool := r.images.all (fun kv => kv.2 == img)

def completeAt (rs : List RoundInfo) (k : Nat) (img : String) (n : Nat) : Bool :=
  match rs[k]? with
  | some r => imagesAll r img && r.images.length == n && r.updated == "True/OnLatestRevision" && r.revisions == 1 && r.outcome == "ok"
  | none => false

/-- C08 on a rollout scenario: completion within a bound linear in the number of children, and clean-up -/
def oracleC08Rounds (c : J) : Option String :=
  -- a parent deleted in the middle of the rollout is finalized instead of rolled out: not a liveness scenario
  if c.getInt "deleteAt" ≥ 0 && (c.get? "deleteAt").isSome then none else
  let rs := (c.getArr "rounds").map RoundInfo.ofJ
  let n := (c.getInt "replicas").toNat
  let change := if c.getInt "secondChangeAt" ≥ 0 then (c.getInt "secondChangeAt").toNat else (c.getInt "changeAt").toNat
  let img := c.getStr "finalImage"
  let bound := change + 2 * n + 4
  let done := (List.range rs.length).find? (fun k => k ≥ change && completeAt rs k img n)
  -- recorded finding F-C08-1: ControllerRevisions are namespaced and are written into the parent's namespace, so with a
  -- cluster-scoped parent every sync fails at the first ControllerRevision write and no child is ever created
  if !(c.getD "cfg").getBool "parentNamespaced" && rs.all (fun r => r.outcome == "error" && r.revisions == 0 && r.images.isEmpty) then
    some "[F-C08-1] cluster-scoped parent with a rolling strategy: every sync fails writing the ControllerRevision (empty namespace), the rollout never starts"
  else
  orElse (check (match done with | some k => k ≤ bound | none => false)
    s!"the rollout of {n} children (last change before round {change}) was not complete by round {bound}: images {(rs.map (·.images.map (·.2)))}, Updated {rs.map (·.updated)}, revisions {rs.map (·.revisions)}") fun _ =>
  match done with
  | some k => firstSome (List.range (rs.length - k)) (fun d => check (completeAt rs (k + d) img n) s!"the rollout was complete at round {k} but not at round {k + d}")
  | none => none

/-- C09 on a crash scenario: the rollout reaches the same final state as an uninterrupted one -/
def oracleC09Rounds (c : J) : Option String :=
  let rs := (c.getArr "rounds").map RoundInfo.ofJ
  let n := (c.getInt "replicas").toNat
  let img := c.getStr "finalImage"
  -- cluster-scoped parents never get a ControllerRevision written (finding F-C08-1): nothing to resume
  if !(c.getD "cfg").getBool "parentNamespaced" then none else
  check (completeAt rs (rs.length - 1) img n && quietAt rs (rs.length - 1))
    s!"after a crash in round {c.getInt "cutRound"} (after {c.getInt "cutK"} requests) the rollout did not reach the final state of an uninterrupted run: images {((rs.getLast?.map (·.images.map (·.2))).getD [])}, Updated {(rs.getLast?.map (·.updated)).getD ""}, revisions {(rs.getLast?.map (·.revisions)).getD 0}"

/-- C12 on a fault scenario: once faults stop the cluster converges to the state of the fault-free run -/
def oracleC12Rounds (c : J) : Option String :=
  let rs := (c.getArr "rounds").map RoundInfo.ofJ
  let tw := (c.getArr "twinRounds").map RoundInfo.ofJ
  -- judged when the fault-free twin itself settles, and - as for C01 - when no foreign object occupies a desired child's
  -- name: with such an occupant a hook whose answer depends on what it observes (StatefulSet-like ordering) has several
  -- resting states, and which one is reached depends on the history, faults included
  -- ... and when the faulty run did not end with the parent pending deletion and released (the controller's finalizer
  -- gone): by C10 nothing is created, updated or deleted for such a parent any more, so what a fault left behind in the
  -- sync that removed the finalizer stays until the parent itself goes away (and the garbage collector takes over)
  if !(quietAt tw (tw.length - 1)) || c.getBool "foreign" || c.getBool "released" then none else
  orElse (check (rs.all (·.outcome != "panic")) "a sync panicked") fun _ =>
  -- recorded finding F-C12-1: a parent outside the selector that still carries the finalizer is finalized ("finalize on
  -- deselect"); the finalizer is removed *before* the children are reconciled and the status is written, and a parent
  -- outside the selector without the finalizer is ignored - so what fails after the removal is never retried
  orElse (check (!(c.getBool "abandoned") || c.getBool "finalEqualsTwin")
    "[F-C12-1] finalize on deselect: the finalizer was removed before the failed request, the deselected parent is ignored from then on and the cluster never reaches the state of the fault-free run") fun _ =>
  orElse (check (c.getBool "finalEqualsTwin") "after the fault the cluster did not converge to the state of the fault-free run") fun _ =>
  check (quietAt rs (rs.length - 1)) "after the fault the controller did not go quiet"

end Mc
