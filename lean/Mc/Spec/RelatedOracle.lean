import Mc.Spec.SyncOracles
/-
  C15 on recorded behaviour: (a) one sync - the `related` map sent to the sync / finalize hook is exactly what the
  customize answer's rules select from the cache, invalid rules are an error before any sync hook call, the
  customize hook is asked at most once (never while its answer is cached); (b) one related-object event - an
  object the rules select (in its old or new state) wakes the parent.
  The selection is written here from the statement, not taken from the model's `getRelatedObjects`.
-/
namespace Mc
open SyncCase

/-- does `rule` (valid, about the object's resource) select `o` for `parent`? -/
def ruleSelects (parentNamespaced : Bool) (parent : J) (rule : RelRule) (o : J) : Bool :=
  let inParentNs := !parentNamespaced || getNamespace o == getNamespace parent
  match rule.labelSelector, (rule.ns != "" || !rule.names.isEmpty) with
  | _, false =>
      -- by label selector (none = everything), within the parent's namespace for a namespaced parent
      inParentNs && (match relSelector rule with | .ok sel => sel.matches (labelsOf o) | .error _ => false)
  | none, true =>
      (rule.ns == "" || getNamespace o == rule.ns) && (rule.names.isEmpty || rule.names.contains (getName o)) && inParentNs
  | some _, true => false

inductive RuleVerdict where
  | ok | invalid (why : String)

def ruleVerdict (parentNamespaced : Bool) (parent : J) (known : List ChildRes) (rule : RelRule) : RuleVerdict :=
  if !(known.any (fun r => r.apiVersion == rule.apiVersion && r.resource == rule.resource)) then .invalid "unknown resource"
  else if rule.labelSelector.isSome && (rule.ns != "" || !rule.names.isEmpty) then .invalid "both selection styles"
  else if rule.labelSelector.isNone && parentNamespaced && rule.ns != "" && rule.ns != getNamespace parent then .invalid "foreign namespace"
  else if (relSelector rule).toOption.isNone then .invalid "bad selector"
  else .ok

/-- expected `related` map on the wire: group text ↦ relative name ↦ object -/
def expectedRelated (parentNamespaced : Bool) (parent : J) (known : List ChildRes) (pools : List (String × List J)) (rules : List RelRule) : J :=
  let groups := (rules.filterMap (fun rule => known.find? (fun r => r.apiVersion == rule.apiVersion && r.resource == rule.resource))).foldl
    (fun (acc : List ChildRes) r => if acc.any (fun a => a.resource == r.resource && a.apiVersion == r.apiVersion) then acc else acc ++ [r]) []
  .obj (groups.map (fun res =>
    let (g, v) := parseAPIVersion res.apiVersion
    let key := ({ group := g, version := v, kind := res.kind } : GVK).text
    let pool := (pools.lookup res.resource).getD []
    let mine := pool.filter (fun o => rules.any (fun rule => rule.apiVersion == res.apiVersion && rule.resource == res.resource && ruleSelects parentNamespaced parent rule o))
    (key, J.obj (mine.map (fun o => (relativeName (getNamespace parent) o, o))))))

def oracleC15 (s : SyncCase) (customizeCached : Option J) (customizeExpected : Option J := none) : Option String :=
  let enabled := if s.composite then s.cfg.customize else s.dcfg.customize
  if !enabled then none else
  let known := if s.composite then s.cfg.related else s.dcfg.related
  let custCalls := s.hooks.filter (fun h => h.hook == "customize")
  let mainHooks := s.hooks.filter (fun h => h.hook != "customize")
  orElse (check (custCalls.length ≤ 1) "the customize hook was called more than once in one sync") fun _ =>
  orElse (check (customizeCached.isNone || custCalls.isEmpty) "the customize hook was called although its answer for this parent UID and generation is cached") fun _ =>
  -- the rules the sync works from: the answer of the call made in this sync, or - when the manager had an answer cached for
  -- this parent's UID and generation - what the (pure) hook answers for the parent: a cached entry stands for that answer
  let answer : Option J := match customizeCached with
    | some b => (match customizeExpected with | some e => some e | none => some b)
    | none => custCalls.head?.bind (fun h => if h.code == 200 then h.hookBody else none)
  match answer with
  | none =>
      -- no usable answer: nothing may be sent to the sync hook on the strength of it
      check (custCalls.isEmpty || mainHooks.isEmpty) "the sync hook was called although the customize hook failed"
  | some body =>
    match decodeCustomizeResp body with
    | .error _ => check mainHooks.isEmpty "the sync hook was called although the customize answer cannot be decoded"
    | .ok orules =>
      let rules := orules.filterMap id
      -- the parent as the hooks saw it
      let parent := match custCalls.head?, mainHooks.head? with
        | some h, _ => h.hookReq.getD "parent"
        | none, some h => s.hookParent h
        | none, none => s.parent.getD .null
      let pn := if s.composite then s.cfg.parentNamespaced else ((s.dcfg.ruleFor parent).map (·.namespaced)).getD true
      match rules.findSome? (fun r => match ruleVerdict pn parent known r with | .invalid w => some w | .ok => none) with
      | some why =>
          orElse (check mainHooks.isEmpty s!"a customize rule is invalid ({why}) but the sync hook was still called") fun _ =>
          check (s.outcome == "error") s!"a customize rule is invalid ({why}) but the sync did not report an error"
      | none =>
          let expected := expectedRelated pn parent known s.cache.related rules
          firstSome mainHooks (fun h =>
            let actual := h.hookReq.getD "related"
            check (actual.eqv expected)
              s!"the related map sent to the hook differs from what the rules select: sent {actual.canon.fields.map (fun g => (g.1, g.2.fields.map (·.1)))} expected {expected.canon.fields.map (fun g => (g.1, g.2.fields.map (·.1)))}")

/-- event side: the parents whose rules select the old or the new state of the related object must be queued -/
def relatedMustWake (parentNamespaced : Bool) (known : List ChildRes) (parent : J) (answer : Option J) (states : List J) : Bool :=
  match answer with
  | none => false
  | some body => match decodeCustomizeResp body with
      | .error _ => false
      | .ok orules =>
        let rules := orules.filterMap id
        rules.any (fun rule => match ruleVerdict parentNamespaced parent known rule with
          | .invalid _ => false
          | .ok => states.any (fun o =>
              (known.any (fun r => r.apiVersion == rule.apiVersion && r.resource == rule.resource && r.kind == getKind o && r.apiVersion == getAPIVersion o)) &&
              ruleSelects parentNamespaced parent rule o))

end Mc
