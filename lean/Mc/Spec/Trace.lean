import Mc.Sync.Full
/-
  Recorded traces of real syncs and the vocabulary the property oracles are written in.
  Core Lean only. An oracle looks at what the *implementation* did (requests, responses, the
  API server's pre/post state of each target) - never at the model's opinion.
-/
namespace Mc

structure Rec where
  idx : Nat
  verb : String
  group : String
  resource : String
  ns : String
  name : String
  body : J
  opts : J
  code : Int
  reason : String
  resp : J
  pre : Option J
  post : Option J
  injected : Bool
  hook : String
  hookReq : J
  hookResp : Option J
  hookRaw : String
  hookRetryAfter : Int := 0
  /-- apply only: what the field manager had applied to the target before -/
  lastApplied : J := .null
  deriving Inhabited

def Rec.ofJ (j : J) : Rec :=
  { idx := (j.getInt "i").toNat, verb := j.getStr "verb", group := j.getStr "group", resource := j.getStr "resource",
    ns := j.getStr "ns", name := j.getStr "name", body := j.getD "body", opts := j.getD "opts",
    code := j.getInt "code", reason := j.getStr "reason", resp := j.getD "resp",
    pre := j.opt "pre", post := j.opt "post", injected := j.getBool "injected",
    hook := j.getStr "hook", hookReq := j.getD "hookReq", hookResp := j.get? "hookResp", hookRaw := j.getStr "hookRaw",
    hookRetryAfter := j.getInt "hookRetryAfter", lastApplied := j.getD "lastApplied" }

def Rec.isHook (r : Rec) : Bool := r.verb == "hook"

/-- the JSON body of a hook answer (`null` is a body; anything that is not JSON is none) -/
def Rec.hookBody (r : Rec) : Option J :=
  match r.hookResp with
  | some b => some b
  | none => if r.hookRaw.trimAscii.toString == "null" then some .null else none
def Rec.isWrite (r : Rec) : Bool := ["create", "update", "updateStatus", "delete", "patchRemove", "apply"].contains r.verb
def Rec.ok (r : Rec) : Bool := r.code < 300
def Rec.isRevision (r : Rec) : Bool := r.resource == revResource && r.group == revGroup

/-- one recorded sync -/
structure SyncCase where
  composite : Bool
  cfg : Cfg
  dcfg : DCfg
  cache : Cache
  /-- the cached object the sync worked from (none: not in the cache) -/
  parent : Option J
  calls : List Rec
  outcome : String
  after : List Int
  cacheIntact : Bool
  /-- the parent as the API server holds it after the sync (none: gone, or not recorded) -/
  parentAfter : Option J := none
  deriving Inhabited

namespace SyncCase

def parentUID (s : SyncCase) : String := (s.parent.map getUID).getD ""

/-- (group, resource) of the parent being synced -/
def parentGR (s : SyncCase) : String × String :=
  if s.composite then (s.cfg.parentGroup, s.cfg.parentResource)
  else match s.parent.bind (fun p => s.dcfg.ruleFor p) with
    | some r => (r.group, r.resource)
    | none => ("", "")

def isParentTarget (s : SyncCase) (r : Rec) : Bool :=
  !r.isHook && (r.group, r.resource) == s.parentGR && r.name == (s.parent.map getName).getD ""

/-- requests about children / attachments / ControllerRevisions -/
def isDependent (s : SyncCase) (r : Rec) : Bool := !r.isHook && !s.isParentTarget r && r.verb != "list" && r.verb != "watch"

def hooks (s : SyncCase) : List Rec := s.calls.filter (·.isHook)

/-- the first sync/finalize hook call (the one whose answer drives the sync; with rolling updates the
    call made for the live parent is recognised by its parent's resourceVersion-independent equality) -/
def mainHook (s : SyncCase) : Option Rec :=
  let hs := s.hooks.filter (fun h => h.hook != "customize")
  -- with rolling updates one hook call is made per live parent revision, in parallel: the call for the
  -- latest revision is the one that was sent the parent's own (unpatched) spec
  let key := if s.composite then "parent" else "object"
  match s.parent with
  | some p =>
      match hs.find? (fun h => ((h.hookReq.getD key).getD "spec").eqv (p.getD "spec")) with
      | some h => some h
      | none => hs.head?
  | none => hs.head?

def finalizerName (s : SyncCase) : String := if s.composite then s.cfg.finalizer.name else s.dcfg.finalizer.name
def finalizeEnabled (s : SyncCase) : Bool := if s.composite then s.cfg.finalize else s.dcfg.finalize

/-- the parent object as sent to the hook (after the finalizer phase) -/
def hookParent (s : SyncCase) (h : Rec) : J := h.hookReq.getD (if s.composite then "parent" else "object")

def hookChildren (s : SyncCase) (h : Rec) : J := h.hookReq.getD (if s.composite then "children" else "attachments")

def respChildren (s : SyncCase) (h : Rec) : List J :=
  match h.hookBody with
  | some b => ((b.getD (if s.composite then "children" else "attachments")).items).filter J.isObj
  | none => []

end SyncCase

/-- ownership edit: the body differs from the pre-state only in `metadata.ownerReferences` -/
def onlyOwnerRefsChanged (pre body : J) : Bool :=
  let strip := fun (o : J) => removeNestedField (removeNestedField o ["metadata", "ownerReferences"]) ["metadata", "resourceVersion"]
  (strip pre).eqv (strip body)

/-- a write that creates, deletes or changes the content of a dependent object (ownership edits excluded) -/
def Rec.isContentWrite (r : Rec) : Bool :=
  match r.verb with
  | "create" | "delete" | "apply" | "patchRemove" => true
  | "update" => match r.pre with
      | some p => !onlyOwnerRefsChanged p r.body
      | none => true
  | _ => false

def controllerUID (o : J) : String := ((controllerOf o).map (·.uid)).getD ""

def nControllers (o : J) : Nat := ((getOwnerRefs o).filter (fun r => r.controller == some true)).length

end Mc
